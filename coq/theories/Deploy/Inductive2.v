(* Deploy/Inductive2.v — inductive invariant over ALL executions of Deploy/Model.v (current code) for
   deploy AND undeploy requests on one eager, non-wrapper, never-failing deployment: any number of requests,
   each any sequence of deploy(d0) / undeploy(d0), any number of suspensions inside connector deploy/undeploy,
   every list of scheduling choices.  [once_all_executions]: deploy() is never called on a connector of d0
   while another connector of d0 is live (deploy() called, undeploy() not yet called).
   The invariant is light: a connector is created only in the atomic stretch that claimed the name
   (deployments_map[d0] absent), and every connector in the log other than the registered one has had its
   undeploy() called.  Not covered here: return_after for deploy+undeploy (needs deployer uniqueness and the
   staleness of captured events, see design/notes/C26.md), lazy deployments, failures, wraps chains. *)
From Coq Require Import List Bool Arith Lia.
From SF Require Import Deploy.Model Deploy.Proofs Deploy.Inductive.
Import ListNotations.

Definition dead (c : nat) (l : list ev) : bool := has (is_DE c false) l || has (is_US c) l.
Lemma dead_cons : forall c x l, dead c l = true -> dead c (x :: l) = true.
Proof.
  unfold dead, has. intros c x l H. simpl. apply orb_true_iff in H. apply orb_true_iff.
  destruct H as [H|H]; rewrite H; [left|right]; apply orb_true_r.
Qed.
Lemma dead_not_live : forall c l, dead c l = true -> negb (live c l) = true.
Proof.
  unfold dead, live. intros c l H. apply orb_true_iff in H.
  destruct H as [H|H]; rewrite H; simpl; rewrite ?andb_false_r; reflexivity.
Qed.
Lemma dead_US : forall c l, dead c (US c :: l) = true.
Proof. intros. unfold dead, has. simpl. rewrite Nat.eqb_refl. simpl. apply orb_true_r. Qed.

Lemma alookup_adel_same : forall A k (l : list (nat * A)), alookup k (adel k l) = None.
Proof.
  induction l as [|[k' v] l IH]; simpl; auto. destruct (k' =? k) eqn:E; simpl; auto. now rewrite E.
Qed.
Lemma In_aset : forall A k (v : A) l k' v', In (k', v') (aset k v l) -> (k' = k) \/ In (k', v') l.
Proof.
  induction l as [|[k0 v0] l IH]; simpl; intros k' v' H.
  - destruct H as [H|[]]. inversion H; auto.
  - destruct (k0 =? k) eqn:E; simpl in H.
    + destruct H as [H|H]. inversion H; auto. auto.
    + destruct H as [H|H]; auto. destruct (IH _ _ H); auto.
Qed.
Lemma In_adel : forall A k (l : list (nat * A)) p, In p (adel k l) -> In p l.
Proof. unfold adel. intros A k l p H. apply filter_In in H. tauto. Qed.

Section OneEagerDU.
Variable d : dcfg.
Hypothesis Dw : wrapper d = false.
Hypothesis Dl : lazy d = false.
Hypothesis Df : fails d = [].
Let deps := [d].

Definition okop (o : op) := o = ODeploy 0 \/ o = OUndeploy 0.
Definition Fresh2 (s : st) := alookup 0 (dm s) = None /\ mem 0 (cm s) = true.
Definition T0 := FDeployTop 0.

Inductive shape2 (s : st) (t : task) : Prop :=
| S_e : stack t = [] -> shape2 s t
| S_FD : stack t = [FD 0; T0] -> shape2 s t
| S_Else : stack t = [FDElse 0; T0] -> shape2 s t
| S_Wait : stack t = [FDWait 0; T0] -> shape2 s t
| S_FI : stack t = [FI 0 false; FDAfterInner 0; T0] -> tw t = WRun -> Fresh2 s -> shape2 s t
| S_After : stack t = [FDAfterInner 0; T0] -> tw t = WRun -> Fresh2 s -> shape2 s t
| S_Dep : forall c k, stack t = [FDDeploying 0 c k false; T0] -> shape2 s t
| S_Top : stack t = [T0] -> shape2 s t
| S_FU : stack t = [FU 0] -> shape2 s t
| S_FUW : stack t = [FUWait 0] -> shape2 s t
| S_FUU : forall oc k e, stack t = [FUUndeploying 0 oc k e] -> shape2 s t
| S_FUL : stack t = [FULoop 0 []] -> shape2 s t.

Definition task_ok2 (s : st) (t : task) := Forall okop (todo t) /\ parent t = None /\ shape2 s t.

Definition Q_A2 (s : st) := alookup 0 (dm s) <> None -> mem 0 (cm s) = true.
Definition Q_A3 (s : st) := forall x, alookup 0 (dm s) = Some x -> exists c, x = Real c.
Definition Q_A5 (s : st) := forall k v, In (k, v) (dg s) -> k = 0.
Definition Q_O (s : st) := forall c2, In c2 (conns_of 0 (log s)) ->
                                      alookup 0 (dm s) = Some (Real c2) \/ dead c2 (log s) = true.
Definition Q_T (o : option nat) (s : st) :=
  forall j t, nth_error (tasks s) j = Some t -> (tw t <> WRun \/ o = Some j) -> task_ok2 s t.

Record INV2 (o : option nat) (s : st) : Prop := {
  q_A2 : Q_A2 s; q_A3 : Q_A3 s; q_A5 : Q_A5 s; q_O : Q_O s; q_Once : once_ok (log s) = true; q_T : Q_T o s
}.

(* a task that is not running has a shape without heap facts: it is indifferent to the heap *)
Lemma other2 : forall s s' t, tw t <> WRun -> task_ok2 s t -> task_ok2 s' t.
Proof.
  intros s s' t Hn [A [B C]]. split; [|split]; auto.
  destruct C; try contradiction;
    [apply S_e|apply S_FD|apply S_Else|apply S_Wait|eapply S_Dep|apply S_Top|apply S_FU|apply S_FUW
    |eapply S_FUU|apply S_FUL]; eauto.
Qed.
Lemma fresh_ok2 : forall s s' t, (Fresh2 s -> Fresh2 s') -> task_ok2 s t -> task_ok2 s' t.
Proof.
  intros s s' t Hf [A [B C]]. split; [|split]; auto.
  destruct C;
    [apply S_e|apply S_FD|apply S_Else|apply S_Wait|apply S_FI|apply S_After|eapply S_Dep|apply S_Top|apply S_FU
    |apply S_FUW|eapply S_FUU|apply S_FUL]; eauto.
Qed.
Lemma wake_ok2 : forall s e t, task_ok2 s t -> task_ok2 s (wake e t).
Proof.
  intros s e t H. unfold wake. destruct (tw t) eqn:E; auto. destruct (e0 =? e); auto.
  apply (other2 s s). simpl. congruence.
  destruct H as [A [B C]]. split; [|split]; auto.
  destruct C; try congruence;
    [apply S_e|apply S_FD|apply S_Else|apply S_Wait|eapply S_Dep|apply S_Top|apply S_FU|apply S_FUW
    |eapply S_FUU|apply S_FUL]; eauto.
Qed.

(* heap change (or none), tasks unchanged or woken: every task keeps its shape provided Fresh2 survives *)
Lemma INV2_heap : forall o s s' (g : task -> task),
  INV2 o s -> Q_A2 s' -> Q_A3 s' -> Q_A5 s' -> Q_O s' -> once_ok (log s') = true ->
  (Fresh2 s -> Fresh2 s') ->
  (forall j, nth_error (tasks s') j = option_map g (nth_error (tasks s) j)) ->
  (forall x, task_ok2 s' x -> task_ok2 s' (g x)) -> (forall x, tw (g x) <> WRun -> tw x <> WRun) ->
  (forall x, tw x = WRun -> g x = x) ->
  INV2 o s'.
Proof.
  intros o s s' g I a2 a3 a5 oo on Hf Hn Hg Hgw Hgr. constructor; auto.
  intros j t' Hj Hc. rewrite Hn in Hj. destruct (nth_error (tasks s) j) as [x|] eqn:E; [|discriminate].
  simpl in Hj. inversion Hj; subst. apply Hg. eapply fresh_ok2; [exact Hf|].
  apply (q_T _ _ I j x E). destruct Hc as [Hc|Hc]; auto.
Qed.

Lemma INV2_same : forall o s s',
  INV2 o s -> cm s' = cm s -> dm s' = dm s -> dg s' = dg s -> log s' = log s -> tasks s' = tasks s -> INV2 o s'.
Proof.
  intros o s s' I Hc Hd Hg Hl Ht. destruct I as [a2 a3 a5 oo on tt].
  apply INV2_heap with (s := s) (g := fun y => y); try (constructor; assumption);
    unfold Q_A2, Q_A3, Q_A5, Q_O, Fresh2 in *; rewrite ?Hc, ?Hd, ?Hg, ?Hl, ?Ht; auto.
  intros j. now rewrite opt_id.
Qed.

Definition plain_ev (x : ev) : bool := match x with DS _ _ => false | _ => true end.
Lemma INV2_log : forall o s s' x,
  INV2 o s -> cm s' = cm s -> dm s' = dm s -> dg s' = dg s -> log s' = x :: log s -> tasks s' = tasks s ->
  plain_ev x = true -> INV2 o s'.
Proof.
  intros o s s' x I Hc Hd Hg Hl Ht Hx. destruct I as [a2 a3 a5 oo on tt].
  apply INV2_heap with (s := s) (g := fun y => y); try (constructor; assumption);
    unfold Q_A2, Q_A3, Q_A5, Q_O, Fresh2 in *; rewrite ?Hc, ?Hd, ?Hg, ?Hl, ?Ht; auto.
  - intros c2 Hin. assert (Hin' : In c2 (conns_of 0 (log s))) by (destruct x; simpl in *; auto; discriminate).
    destruct (oo c2 Hin'); auto. right. apply dead_cons; auto.
  - destruct x; simpl in *; auto; discriminate.
  - intros j. now rewrite opt_id.
Qed.

Lemma INV2_upd : forall s tid t f,
  INV2 (Some tid) s -> nth_error (tasks s) tid = Some t -> task_ok2 s (f t) -> INV2 (Some tid) (upd_task s tid f).
Proof.
  intros s tid t f I Ht Hok. destruct I as [a2 a3 a5 oo on tt]. constructor; auto.
  intros j t' Hj Hc. simpl in Hj. rewrite nth_error_nth_upd in Hj. destruct (tid =? j) eqn:E.
  - apply Nat.eqb_eq in E. subst j. rewrite Ht in Hj. simpl in Hj. inversion Hj; subst.
    apply (fresh_ok2 s); auto.
  - apply Nat.eqb_neq in E. apply (fresh_ok2 s); auto; try apply (tt j t' Hj);
      try (destruct Hc as [Hc|Hc]; auto; inversion Hc; congruence).
Qed.

Lemma INV2_evset : forall s tid e, INV2 (Some tid) s -> INV2 (Some tid) (ev_set s e).
Proof.
  intros s tid e I. unfold ev_set. destruct (ev_isset s e); auto.
  apply INV2_heap with (s := s) (g := wake e); try (destruct I; assumption); auto.
  - intros j. simpl. apply nth_error_map.
  - intros x. apply wake_ok2.
  - intros x. apply wake_tw.
  - intros x. apply wake_run.
Qed.
Lemma evset_tid : forall s tid t e, nth_error (tasks s) tid = Some t -> tw t = WRun ->
  nth_error (tasks (ev_set s e)) tid = Some t.
Proof.
  intros s tid t e Ht Hw. unfold ev_set. destruct (ev_isset s e); auto.
  simpl. rewrite nth_error_map, Ht. simpl. now rewrite wake_run.
Qed.

Lemma finish_eq2 : forall s tid t r, nth_error (tasks s) tid = Some t -> parent t = None ->
  finish s tid r = upd_task s tid (fun t => mkT [] [] (opi t) None (parent t) WDone (gerr t) (ucon t)).
Proof.
  intros s tid t r Ht Hp. unfold finish, notify.
  rewrite (tid_upd s tid t _ Ht). simpl. rewrite Hp. reflexivity.
Qed.
Lemma INV2_finish : forall s tid t r,
  INV2 (Some tid) s -> nth_error (tasks s) tid = Some t -> task_ok2 s t -> INV2 (Some tid) (finish s tid r).
Proof.
  intros s tid t r I Ht [A [B C]]. rewrite (finish_eq2 s tid t r Ht B).
  eapply INV2_upd; eauto. split; [|split]; simpl; auto. apply S_e; reflexivity.
Qed.
Lemma INV2_raise : forall s tid t e,
  INV2 (Some tid) s -> nth_error (tasks s) tid = Some t -> task_ok2 s t -> INV2 (Some tid) (raise s tid e).
Proof.
  intros s tid t e I Ht Hok. unfold raise. rewrite Ht. destruct (cur t) as [o|].
  - eapply INV2_finish with (t := t).
    + apply INV2_log with (s := s) (x := Ret tid (opi t) (Some e) (info_of s t o)); auto.
    + exact Ht.
    + eapply fresh_ok2; [|exact Hok]. auto.
  - eapply INV2_finish; eauto.
Qed.

(* ---------------------------------------------------------------- the cases of [micro] *)
Lemma cfg0' : cfg deps 0 = d. Proof. reflexivity. Qed.

Lemma case2_next : forall s tid t,
  INV2 (Some tid) s -> nth_error (tasks s) tid = Some t -> stack t = [] -> INV2 (Some tid) (next_op s tid t).
Proof.
  intros s tid t I Ht Hs. pose proof (q_T _ _ I tid t Ht (or_intror eq_refl)) as Hok. pose proof Hok as [A [B C]].
  unfold next_op.
  set (s1 := match cur t with
             | Some o => add_log s (Ret tid (opi t) None (info_of s t o)) | None => s end).
  assert (I1 : INV2 (Some tid) s1 /\ tasks s1 = tasks s /\ (Fresh2 s -> Fresh2 s1)).
  { subst s1. destruct (cur t); [|auto]. split; [|split; auto].
    apply INV2_log with (s := s) (x := Ret tid (opi t) None (info_of s t o)); auto. }
  destruct I1 as [I1 [Htk Hfr]].
  assert (Ht1 : nth_error (tasks s1) tid = Some t) by (rewrite Htk; exact Ht).
  assert (Hok1 : task_ok2 s1 t) by (eapply fresh_ok2; eauto).
  destruct (todo t) as [|o rest] eqn:Et.
  - eapply INV2_finish; eauto.
  - eapply INV2_upd; eauto. inversion A; subst. split; [|split]; simpl; auto.
    destruct H1 as [->| ->]; simpl; [apply S_FD|apply S_FU]; reflexivity.
Qed.

Lemma case2_claim : forall s tid t,
  INV2 (Some tid) s -> nth_error (tasks s) tid = Some t -> tw t = WRun ->
  stack t = [FD 0; T0] -> mem 0 (cm s) = false ->
  let e := length (evs s) in
  let sid := length (sets s) in
  let s1 := set_cm s (cm s ++ [0]) in
  let s2 := set_em (set_evs s1 (evs s1 ++ [false])) (aset 0 e (em s1)) in
  let s3 := set_dg (set_sets s2 (sets s2 ++ [[]])) (aset 0 sid (dg s2)) in
  INV2 (Some tid) (push (top_set s3 tid (FDAfterInner 0)) tid (FI 0 false)).
Proof.
  intros s tid t I Ht Hw Hs Hm. cbv zeta.
  pose proof (q_T _ _ I tid t Ht (or_intror eq_refl)) as [A [B C]].
  assert (Hdm : alookup 0 (dm s) = None).
  { destruct (alookup 0 (dm s)) eqn:E; auto. rewrite (q_A2 _ _ I) in Hm; congruence. }
  match goal with |- INV2 _ (push (top_set ?S3 _ _) _ _) => set (s3 := S3) end.
  assert (I3 : INV2 (Some tid) s3).
  { apply INV2_heap with (s := s) (g := fun y => y).
    - exact I.
    - unfold Q_A2. simpl. intros _. apply mem_app_self.
    - exact (q_A3 _ _ I).
    - unfold Q_A5. simpl. intros k v Hin. destruct (In_aset _ _ _ _ _ _ Hin); auto. eapply (q_A5 _ _ I); eauto.
    - exact (q_O _ _ I).
    - exact (q_Once _ _ I).
    - unfold Fresh2. simpl. intros [F1 _]. split; auto. apply mem_app_self.
    - intros j. simpl. now rewrite opt_id.
    - auto.
    - auto.
    - auto. }
  assert (Hf3 : Fresh2 s3) by (unfold Fresh2; simpl; split; [exact Hdm|apply mem_app_self]).
  unfold push, top_set.
  eapply INV2_upd with (t := set_stack t (FDAfterInner 0 :: tl (stack t))).
  - eapply INV2_upd with (t := t); [exact I3|exact Ht|]. split; [|split]; simpl; auto. rewrite Hs. simpl.
    apply S_After; simpl; auto.
  - exact (tid_upd s3 tid t (fun t0 => set_stack t0 (FDAfterInner 0 :: tl (stack t0))) Ht).
  - split; [|split]; simpl; auto. rewrite Hs. simpl. apply S_FI; simpl; auto.
Qed.

Lemma case2_create : forall s tid t,
  INV2 (Some tid) s -> nth_error (tasks s) tid = Some t -> tw t = WRun ->
  stack t = [FDAfterInner 0; T0] ->
  let c := nreal s in
  let s1 := set_dm (set_nreal s (S c)) (aset 0 (Real c) (dm s)) in
  INV2 (Some tid) (top_set (add_log s1 (DS 0 c)) tid (FDDeploying 0 c (dy d) false)).
Proof.
  intros s tid t I Ht Hw Hs. cbv zeta.
  pose proof (q_T _ _ I tid t Ht (or_intror eq_refl)) as [A [B C]].
  assert (Hfr : Fresh2 s).
  { destruct C as [H|H|H|H|H|H _ Hf|c k H|H|H|H|oc k e H|H]; try congruence; try (rewrite Hs in H; discriminate). }
  destruct Hfr as [Hdm Hcm].
  constructor.
  - unfold Q_A2. simpl. auto.
  - unfold Q_A3. simpl. intros x Hx. rewrite alookup_aset_same in Hx. inversion Hx. eauto.
  - exact (q_A5 _ _ I).
  - unfold Q_O. simpl. intros c2 [Hc2|Hc2].
    + subst. left. apply alookup_aset_same.
    + right. destruct (q_O _ _ I c2 Hc2) as [Hx|Hx]; [congruence|]. apply dead_cons; auto.
  - simpl. rewrite (q_Once _ _ I), andb_true_r. apply forallb_forall. intros c2 Hc2.
    destruct (q_O _ _ I c2 Hc2) as [Hx|Hx]; [congruence|]. apply dead_not_live; auto.
  - intros j t' Hj Hc. simpl in Hj. rewrite nth_error_nth_upd in Hj. destruct (tid =? j) eqn:E.
    + apply Nat.eqb_eq in E. subst j. rewrite Ht in Hj. simpl in Hj. inversion Hj; subst.
      split; [|split]; simpl; auto. rewrite Hs. simpl. eapply S_Dep; reflexivity.
    + apply Nat.eqb_neq in E. destruct Hc as [Hc|Hc]; [|inversion Hc; congruence].
      apply (other2 s); auto. apply (q_T _ _ I j t' Hj); auto.
Qed.

Lemma case2_body : forall s tid t x e,
  INV2 (Some tid) s -> nth_error (tasks s) tid = Some t -> stack t = [FUWait 0] ->
  alookup 0 (dm s) = Some (Real x) ->
  let s3 := set_dg (set_cm (set_dm s (adel 0 (dm s))) (ldel 0 (cm s))) (adel 0 (dg s)) in
  INV2 (Some tid) (top_set (add_log s3 (US x)) tid (FUUndeploying 0 (Some x) (uy d) e)).
Proof.
  intros s tid t x e I Ht Hs Hd. cbv zeta.
  pose proof (q_T _ _ I tid t Ht (or_intror eq_refl)) as [A [B C]].
  match goal with |- INV2 _ (top_set ?S3 _ _) => set (s3 := S3) end.
  assert (I3 : INV2 (Some tid) s3).
  { apply INV2_heap with (s := s) (g := fun y => y).
    - exact I.
    - unfold Q_A2. simpl. rewrite alookup_adel_same. congruence.
    - unfold Q_A3. simpl. rewrite alookup_adel_same. congruence.
    - unfold Q_A5. simpl. intros k v Hin. apply In_adel in Hin. eapply (q_A5 _ _ I); eauto.
    - unfold Q_O. simpl. intros c2 Hc2. right. destruct (q_O _ _ I c2 Hc2) as [Hx|Hx].
      + rewrite Hd in Hx. inversion Hx; subst. apply dead_US.
      + apply dead_cons; auto.
    - simpl. exact (q_Once _ _ I).
    - unfold Fresh2. intros [F1 _]. congruence.
    - intros j. simpl. now rewrite opt_id.
    - auto.
    - auto.
    - auto. }
  unfold top_set. eapply INV2_upd with (t := t); [exact I3|exact Ht|].
  split; [|split]; simpl; auto. rewrite Hs. simpl. eapply S_FUU; reflexivity.
Qed.

Lemma snapshot_nil : forall s, Q_A5 s -> snapshot s 0 = [].
Proof.
  unfold Q_A5, snapshot. intros s. induction (dg s) as [|[k v] l IH]; simpl; intros H; auto.
  rewrite (H k v (or_introl eq_refl)). simpl. apply IH. intros k' v' Hin. eapply H. right. eauto.
Qed.

Ltac upd2 I Ht Hst := eapply INV2_upd; [exact I|exact Ht|]; split; [|split]; simpl; auto; rewrite ?Hst; simpl.

Lemma micro_inv2 : forall s tid,
  INV2 (Some tid) s -> running s tid = true -> INV2 (Some tid) (micro false deps tid s).
Proof.
  intros s tid I Hr. unfold running in Hr.
  destruct (nth_error (tasks s) tid) as [t|] eqn:Ht; [|discriminate].
  assert (Hw : tw t = WRun) by (destruct (tw t); congruence).
  pose proof (q_T _ _ I tid t Ht (or_intror eq_refl)) as Hok. pose proof Hok as [A [B C]].
  unfold micro. rewrite Ht.
  destruct C as [Hst|Hst|Hst|Hst|Hst _ Hfr|Hst _ Hfr|c k Hst|Hst|Hst|Hst|oc k e Hst|Hst];
    rewrite Hst; unfold T0; cbv beta iota.
  - apply case2_next; auto.
  - (* FD *)
    destruct (mem 0 (cm s)) eqn:Em.
    + unfold top_set. upd2 I Ht Hst. apply S_Else; reflexivity.
    + rewrite cfg0', Dw. apply (case2_claim s tid t); auto.
  - (* FDElse *)
    destruct (alookup 0 (em s)) as [e|] eqn:Ee; [|eapply INV2_raise with (t := t); eauto].
    destruct (ev_isset s e).
    + unfold top_set. upd2 I Ht Hst. apply S_Wait; reflexivity.
    + unfold suspend. upd2 I Ht Hst. apply S_Else; simpl; auto.
  - (* FDWait *)
    destruct (alookup 0 (dm s)) as [x|] eqn:Ed; [|eapply INV2_raise with (t := t); eauto].
    destruct (mem 0 (cm s)).
    + unfold pop. upd2 I Ht Hst. apply S_Top; reflexivity.
    + unfold top_set. upd2 I Ht Hst. apply S_FD; reflexivity.
  - (* FI *)
    unfold pop. upd2 I Ht Hst. apply S_After; simpl; auto.
  - (* FDAfterInner *)
    rewrite cfg0', Dl. cbv beta iota zeta. unfold will_fail. rewrite cfg0', Df, nth_nil_false.
    apply (case2_create s tid t); auto.
  - (* FDDeploying *)
    destruct k as [|k'].
    + cbv beta iota zeta. set (s1 := add_log s (DE c true)).
      assert (I1 : INV2 (Some tid) s1) by (apply INV2_log with (s := s) (x := DE c true); auto).
      assert (Hok1 : task_ok2 s1 t) by (eapply fresh_ok2; [|exact Hok]; auto).
      destruct (alookup 0 (em s1)) as [e|] eqn:Ee; [|eapply INV2_raise with (t := t); eauto].
      unfold pop. eapply INV2_upd with (t := t).
      * apply INV2_evset. exact I1.
      * apply evset_tid; auto.
      * split; [|split]; simpl; auto. rewrite Hst. simpl. apply S_Top; reflexivity.
    + unfold suspend, top_set.
      eapply INV2_upd with (t := set_stack t (FDDeploying 0 c k' false :: tl (stack t))).
      * upd2 I Ht Hst. eapply S_Dep; reflexivity.
      * exact (tid_upd s tid t (fun t0 => set_stack t0 (FDDeploying 0 c k' false :: tl (stack t0))) Ht).
      * split; [|split]; simpl; auto. rewrite Hst. simpl. eapply S_Dep; reflexivity.
  - (* FDeployTop *)
    destruct (alookup 0 (dg s)) as [sid|] eqn:Eg; [|eapply INV2_raise with (t := t); eauto].
    assert (I' : INV2 (Some tid) (set_add s sid 0)) by (apply INV2_same with (s := s); auto).
    unfold pop. upd2 I' Ht Hst. apply S_e; reflexivity.
  - (* FU *)
    destruct (alookup 0 (dm s)) as [x|] eqn:Ed.
    + destruct (alookup 0 (em s)) as [e|] eqn:Ee; [|eapply INV2_raise with (t := t); eauto].
      destruct (ev_isset s e).
      * unfold top_set. upd2 I Ht Hst. apply S_FUW; reflexivity.
      * unfold suspend. upd2 I Ht Hst. apply S_FU; simpl; auto.
    + unfold pop. upd2 I Ht Hst. apply S_e; reflexivity.
  - (* FUWait : the body of undeploy *)
    destruct (alookup 0 (dg s)) as [sid|] eqn:Eg; [|eapply INV2_raise with (t := t); eauto].
    cbv zeta. set (s1 := set_discard s sid 0).
    assert (I1 : INV2 (Some tid) s1) by (apply INV2_same with (s := s); auto).
    assert (Ht1 : nth_error (tasks s1) tid = Some t) by exact Ht.
    assert (Hok1 : task_ok2 s1 t) by (eapply fresh_ok2; [|exact Hok]; auto).
    destruct (set_empty s1 sid).
    + destruct (alookup 0 (em s1)) as [e|] eqn:Ee; [|eapply INV2_raise with (t := t); eauto].
      set (s2 := ev_clear s1 e).
      assert (I2 : INV2 (Some tid) s2) by (apply INV2_same with (s := s1); auto).
      assert (Ht2 : nth_error (tasks s2) tid = Some t) by exact Ht.
      assert (Hok2 : task_ok2 s2 t) by (eapply fresh_ok2; [|exact Hok1]; auto).
      destruct (alookup 0 (dm s2)) as [c|] eqn:Ed; [|eapply INV2_raise with (t := t); eauto].
      destruct (mem 0 (cm s2)) eqn:Em; [|eapply INV2_raise with (t := t); eauto].
      destruct (q_A3 _ _ I2 c Ed) as [x ->]. cbv beta iota. rewrite cfg0'.
      apply (case2_body s2 tid t x e I2 Ht2 Hst Ed).
    + unfold pop. upd2 I1 Ht1 Hst. apply S_e; reflexivity.
  - (* FUUndeploying *)
    destruct k as [|k'].
    + cbv beta iota zeta.
      set (s1 := match oc with Some x => add_log s (UE x) | None => s end).
      assert (I1 : INV2 (Some tid) s1 /\ nth_error (tasks s1) tid = Some t).
      { subst s1. destruct oc as [x|]; [|auto]. split; [|exact Ht].
        apply INV2_log with (s := s) (x := UE x); auto. }
      destruct I1 as [I1 Ht1].
      pose proof (INV2_evset s1 tid e I1) as I2.
      rewrite (snapshot_nil _ (q_A5 _ _ I2)).
      unfold top_set. eapply INV2_upd with (t := t); [exact I2|apply evset_tid; auto|].
      split; [|split]; simpl; auto. rewrite Hst. simpl. apply S_FUL; reflexivity.
    + unfold suspend, top_set.
      eapply INV2_upd with (t := set_stack t (FUUndeploying 0 oc k' e :: tl (stack t))).
      * upd2 I Ht Hst. eapply S_FUU; reflexivity.
      * exact (tid_upd s tid t (fun t0 => set_stack t0 (FUUndeploying 0 oc k' e :: tl (stack t0))) Ht).
      * split; [|split]; simpl; auto. rewrite Hst. simpl. eapply S_FUU; reflexivity.
  - (* FULoop 0 [] *)
    unfold pop. upd2 I Ht Hst. apply S_e; reflexivity.
Qed.

(* ---------------------------------------------------------------- executions *)
Lemma iter_inv2 : forall fuel s tid, INV2 (Some tid) s -> INV2 (Some tid) (iter false deps fuel tid s).
Proof.
  induction fuel as [|f IH]; intros s tid I; simpl.
  - apply INV2_same with (s := s); auto.
  - destruct (running s tid) eqn:R; auto. apply IH. apply micro_inv2; auto.
Qed.

Lemma step_inv2 : forall s tid, INV2 None s -> INV2 None (step false deps s tid).
Proof.
  intros s tid I. unfold step.
  assert (Hbad : INV2 None (set_bad s)) by (apply INV2_same with (s := s); auto).
  destruct (nth_error (tasks s) tid) as [t|] eqn:Ht; auto.
  destruct (tw t) eqn:Etw; auto.
  assert (Hn : tw t <> WRun) by congruence.
  assert (I1 : INV2 (Some tid) s).
  { destruct I as [a2 a3 a5 oo on tt]. constructor; auto. intros j t' Hj Hc.
    destruct Hc as [Hc|Hc]; [apply (tt j t' Hj); auto|]. inversion Hc; subst. rewrite Ht in Hj.
    inversion Hj; subst. apply (tt j t' Ht). auto. }
  assert (I2 : INV2 (Some tid) (iter false deps fuel0 tid (suspend s tid WRun))).
  { apply iter_inv2. unfold suspend. eapply INV2_upd with (t := t); [exact I1|exact Ht|].
    destruct (q_T _ _ I1 tid t Ht (or_introl Hn)) as [A [B C]]. split; [|split]; simpl; auto.
    destruct C; try congruence;
      [apply S_e|apply S_FD|apply S_Else|apply S_Wait|eapply S_Dep|apply S_Top|apply S_FU|apply S_FUW
      |eapply S_FUU|apply S_FUL]; eauto. }
  destruct I2 as [a2 a3 a5 oo on tt]. constructor; auto.
  intros j t' Hj Hc. destruct Hc as [Hc|Hc]; [|discriminate]. apply (tt j t' Hj); auto.
Qed.

Lemma run_inv2 : forall sched s, INV2 None s -> INV2 None (run false deps s sched).
Proof.
  induction sched as [|t r IH]; intros s I; simpl; auto. apply IH. apply step_inv2. exact I.
Qed.

Definition deploy_undeploy (reqs : list (list op)) := Forall (Forall okop) reqs.

Lemma init_inv2 : forall reqs, deploy_undeploy reqs -> INV2 None (init reqs).
Proof.
  intros reqs H. constructor; unfold Q_A2, Q_A3, Q_A5, Q_O; simpl; try congruence; try tauto; auto.
  intros j t Hj _. unfold init in Hj. simpl in Hj. rewrite nth_error_map in Hj.
  destruct (nth_error reqs j) as [ops|] eqn:E; [|discriminate]. simpl in Hj. inversion Hj; subst.
  split; [|split]; simpl; auto.
    + unfold deploy_undeploy in H. rewrite Forall_forall in H. apply H. eapply nth_error_In; eauto.
    + apply S_e; reflexivity.
Qed.

Theorem once_all_executions : forall reqs sched,
  deploy_undeploy reqs -> once_ok (log (run false deps (init reqs) sched)) = true.
Proof.
  intros reqs sched H. exact (q_Once _ _ (run_inv2 sched (init reqs) (init_inv2 reqs H))).
Qed.

End OneEagerDU.
