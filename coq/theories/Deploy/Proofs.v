(* Deploy/Proofs.v — what is proved about Deploy/Model.v.

   1. The clauses of C26 as decidable checkers on the call log (newest first, as the model keeps it).
   2. A verified explorer: [explore P fuel s] evaluates P on every state reachable from s by scheduling ready
      tasks, and fails if the fuel does not reach quiescence on some branch; [explore_sound] turns a successful
      exploration into a statement about EVERY schedule (list of scheduling choices) from s.  The kernel
      (vm_compute) then discharges the clause for every interleaving of a given finite scenario.
   3. Witness executions for the clauses that the faithful model does not satisfy.
   Not proved: the clauses for arbitrary configurations and request sets (that needs an inductive invariant
   over the frame stacks of all tasks; see design/notes/C26.md). *)
From Coq Require Import List Bool Arith Lia.
From SF Require Import Deploy.Model.
Import ListNotations.

(* ---------------------------------------------------------------- clause checkers *)
Definition has (p : ev -> bool) (l : list ev) := existsb p l.
Definition is_DS_of c e := match e with DS _ c' => c' =? c | _ => false end.
Definition is_DE c ok e := match e with DE c' o => (c' =? c) && Bool.eqb o ok | _ => false end.
Definition is_US c e := match e with US c' => c' =? c | _ => false end.

Definition is_deploy (reqs : list (list op)) t i :=
  match nth_error reqs t with
  | Some ops => match nth_error ops i with Some (ODeploy _) => true | _ => false end
  | None => false
  end.

(* return_after: an OK deploy request has a registered connector; if it is a real (eager) one its deploy()
   has returned successfully before *)
Fixpoint ra_ok (reqs : list (list op)) (l : list ev) : bool :=
  match l with
  | [] => true
  | e :: older =>
    (match e with
     | Ret t i None (IReal c) => if is_deploy reqs t i then has (is_DE c true) older else true
     | Ret t i None INone => negb (is_deploy reqs t i)
     | _ => true
     end) && ra_ok reqs older
  end.

Fixpoint name_of c (l : list ev) : option nat :=
  match l with [] => None | DS n c' :: l' => if c' =? c then Some n else name_of c l' | _ :: l' => name_of c l' end.
Fixpoint conns_of n (l : list ev) : list nat :=
  match l with [] => [] | DS n' c :: l' => if n' =? n then c :: conns_of n l' else conns_of n l' | _ :: l' => conns_of n l' end.
(* deploy() called, not failed, undeploy() not yet called *)
Definition live c (l : list ev) := has (is_DS_of c) l && negb (has (is_DE c false) l) && negb (has (is_US c) l).

Definition wraps_name (deps : list dcfg) w n :=
  match nth_error deps w with
  | Some d => wrapper d && match wraps d with Some i => i =? n | None => n =? length deps end   (* None: __LOCAL__ *)
  | None => false
  end.

(* wrap_order: no connector is undeployed while a connector of a deployment wrapping it is live *)
Fixpoint wo_ok (deps : list dcfg) (l : list ev) : bool :=
  match l with
  | [] => true
  | e :: older =>
    (match e with
     | US c =>
       match name_of c older with
       | Some n => forallb (fun w => if wraps_name deps w n
                                     then forallb (fun c2 => negb (live c2 older)) (conns_of w older) else true)
                           (seq 0 (length deps))
       | None => true
       end
     | _ => true
     end) && wo_ok deps older
  end.

(* once: deploy() is not called on a connector of a deployment that has another live connector *)
Fixpoint once_ok (l : list ev) : bool :=
  match l with
  | [] => true
  | e :: older =>
    (match e with DS n c => forallb (fun c2 => negb (live c2 older)) (conns_of n older) | _ => true end)
    && once_ok older
  end.

(* all connectors ever deployed successfully have been undeployed *)
Fixpoint all_ids (l : list ev) : list nat :=
  match l with [] => [] | DS _ c :: l' => c :: all_ids l' | _ :: l' => all_ids l' end.
Definition none_left (l : list ev) : bool :=
  forallb (fun c => negb (has (is_DE c true) l) || has (is_US c) l) (all_ids l).

(* ---------------------------------------------------------------- verified explorer *)
Fixpoint ready_from (i : nat) (l : list task) : list nat :=
  match l with
  | [] => []
  | t :: l' => match tw t with WReady => i :: ready_from (S i) l' | _ => ready_from (S i) l' end
  end.
Definition ready_tids s := ready_from 0 (tasks s).

Section Explore.
Variable prefix : bool.
Variable deps : list dcfg.
Variable P : st -> bool.

Fixpoint explore (fuel : nat) (s : st) : bool :=
  P s && negb (bad s) &&
  match ready_tids s with
  | [] => true
  | tids => match fuel with
            | 0 => false
            | S f => forallb (fun t => explore f (step prefix deps s t)) tids
            end
  end.

(* a schedule is valid when every choice is a task that is ready at that point *)
Fixpoint valid (s : st) (sched : list nat) : bool :=
  match sched with
  | [] => true
  | t :: r => mem t (ready_tids s) && valid (step prefix deps s t) r
  end.

Lemma mem_In : forall t l, mem t l = true -> In t l.
Proof.
  unfold mem; intros t l H. apply existsb_exists in H. destruct H as [x [Hx E]].
  apply Nat.eqb_eq in E. subst. exact Hx.
Qed.

Lemma explore_here : forall fuel s, explore fuel s = true -> P s = true /\ bad s = false.
Proof.
  intros fuel s He. destruct fuel; simpl in He; apply andb_prop in He; destruct He as [He _];
  apply andb_prop in He; destruct He as [HP Hb]; split; auto; now apply negb_true_iff in Hb.
Qed.

Lemma explore_eq : forall fuel s, explore fuel s =
  P s && negb (bad s) &&
  match ready_tids s with
  | [] => true
  | tids => match fuel with
            | 0 => false
            | S f => forallb (fun t => explore f (step prefix deps s t)) tids
            end
  end.
Proof. destruct fuel; reflexivity. Qed.

Lemma explore_next : forall fuel s t, explore fuel s = true -> In t (ready_tids s) ->
  exists f, explore f (step prefix deps s t) = true.
Proof.
  intros fuel s t He Hin. rewrite explore_eq in He. apply andb_prop in He. destruct He as [_ He].
  destruct (ready_tids s) as [|x l] eqn:ER; [destruct Hin|].
  destruct fuel as [|f]; [discriminate|].
  exists f. rewrite forallb_forall in He. apply He. exact Hin.
Qed.

Lemma explore_sound : forall sched fuel s,
  explore fuel s = true -> valid s sched = true ->
  P (run prefix deps s sched) = true /\ bad (run prefix deps s sched) = false.
Proof.
  induction sched as [|t r IH]; intros fuel s He Hv.
  - simpl. eapply explore_here; eauto.
  - simpl in Hv. apply andb_prop in Hv. destruct Hv as [Hm Hv]. apply mem_In in Hm.
    destruct (explore_next fuel s t He Hm) as [f Hf].
    change (run prefix deps s (t :: r)) with (run prefix deps (step prefix deps s t) r).
    eapply IH; eauto.
Qed.
End Explore.

(* ---------------------------------------------------------------- scenarios *)
Definition plain (dy uy : nat) := mkD false None false [] dy uy.
Definition wrap (i dy uy : nat) := mkD true (Some i) false [] dy uy.

(* A: deploy; undeploy  ||  deploy  ||  deploy    of one eager deployment (the old undeploy used to set the
      event of the new deployment) *)
Definition scA_deps := [plain 1 1].
Definition scA_reqs := [[ODeploy 0; OUndeploy 0]; [ODeploy 0]; [ODeploy 0]].
(* B: deploy || deploy || undeploy || deploy (a woken waiter used to return after undeploy + redeploy) *)
Definition scB_deps := [plain 1 1].
Definition scB_reqs := [[ODeploy 0]; [ODeploy 0]; [OUndeploy 0]; [ODeploy 0]].
(* C: d2 wraps d1 wraps d0, all eager; deploy(d2) then undeploy_all() (three concurrent undeploy tasks) *)
Definition scC_deps := [plain 0 1; wrap 0 0 1; wrap 1 0 1].
Definition scC_reqs := [[ODeploy 2; OAll]].
(* C': the same chain, two requests racing to deploy the top and the middle, then each tears everything down *)
Definition scD_deps := [plain 1 0; wrap 0 1 0; wrap 1 0 0].
Definition scD_reqs := [[ODeploy 2]; [ODeploy 1]].

Definition ra_state reqs (s : st) := ra_ok reqs (log s).
Definition wo_state deps (s : st) := wo_ok deps (log s).

Lemma scA_explored : explore false scA_deps (ra_state scA_reqs) 40 (init scA_reqs) = true.
Proof. vm_compute. reflexivity. Qed.
Lemma scB_explored : explore false scB_deps (ra_state scB_reqs) 40 (init scB_reqs) = true.
Proof. vm_compute. reflexivity. Qed.
Lemma scC_explored :
  explore false scC_deps (fun s => wo_state scC_deps s && once_ok (log s)) 40 (init scC_reqs) = true.
Proof. vm_compute. reflexivity. Qed.
Lemma scD_explored :
  explore false scD_deps (fun s => ra_state scD_reqs s && wo_state scD_deps s && once_ok (log s)) 40
          (init scD_reqs) = true.
Proof. vm_compute. reflexivity. Qed.

Lemma return_after_all_schedules_A : forall sched,
  valid false scA_deps (init scA_reqs) sched = true ->
  ra_ok scA_reqs (log (run false scA_deps (init scA_reqs) sched)) = true.
Proof. intros. apply (explore_sound false scA_deps (ra_state scA_reqs) sched 40 _ scA_explored H). Qed.
Lemma return_after_all_schedules_B : forall sched,
  valid false scB_deps (init scB_reqs) sched = true ->
  ra_ok scB_reqs (log (run false scB_deps (init scB_reqs) sched)) = true.
Proof. intros. apply (explore_sound false scB_deps (ra_state scB_reqs) sched 40 _ scB_explored H). Qed.
Lemma wrap_order_all_schedules_C : forall sched,
  valid false scC_deps (init scC_reqs) sched = true ->
  wo_ok scC_deps (log (run false scC_deps (init scC_reqs) sched)) = true /\
  once_ok (log (run false scC_deps (init scC_reqs) sched)) = true.
Proof.
  intros. destruct (explore_sound false scC_deps _ sched 40 _ scC_explored H) as [HP _].
  apply andb_prop in HP. exact HP.
Qed.
Lemma chain_deploy_all_schedules_D : forall sched,
  valid false scD_deps (init scD_reqs) sched = true ->
  ra_ok scD_reqs (log (run false scD_deps (init scD_reqs) sched)) = true /\
  wo_ok scD_deps (log (run false scD_deps (init scD_reqs) sched)) = true /\
  once_ok (log (run false scD_deps (init scD_reqs) sched)) = true.
Proof.
  intros. destruct (explore_sound false scD_deps _ sched 40 _ scD_explored H) as [HP _].
  apply andb_prop in HP. destruct HP as [HP H3]. apply andb_prop in HP. destruct HP as [H1 H2]. auto.
Qed.

(* ---------------------------------------------------------------- witnesses *)
(* before the fix: scenario A, the old undeploy sets the new event *)
Definition witA := [0; 0; 1; 2; 0; 2].
Lemma return_after_prefix_witness :
  valid true scA_deps (init scA_reqs) witA = true /\
  ra_ok scA_reqs (log (run true scA_deps (init scA_reqs) witA)) = false.
Proof. vm_compute. split; reflexivity. Qed.
(* before the fix: scenario B, the late waiter *)
Definition witB := [0; 1; 0; 2; 3; 1].
Lemma return_after_prefix_witness_B :
  valid true scB_deps (init scB_reqs) witB = true /\
  ra_ok scB_reqs (log (run true scB_deps (init scB_reqs) witB)) = false.
Proof. vm_compute. split; reflexivity. Qed.

(* current code: d1 wraps d0, deploy of d0 fails; the second deploy(d1) blocks for ever *)
Definition hang_deps := [mkD false None false [true] 1 1; wrap 0 0 0].
Definition hang_reqs := [[ODeploy 1]; [ODeploy 1]].
Lemma hang_witness :
  let s := run false hang_deps (init hang_reqs) [0; 1; 0] in
  valid false hang_deps (init hang_reqs) [0; 1; 0] = true /\ bad s = false /\
  ready_tids s = [] /\ blocked s = [1] /\ has (is_DE 0 false) (log s) = true.
Proof. vm_compute. repeat split; reflexivity. Qed.

(* current code: d1 wraps d0, deploy of d1 fails after d0 was deployed for it; a later undeploy_all leaves d0 *)
Definition leak_deps := [plain 0 0; mkD true (Some 0) false [true] 1 0].
Definition leak_reqs := [[ODeploy 1]; [OAll]].
Lemma leak_witness :
  let s := run false leak_deps (init leak_reqs) [0; 0; 1; 2; 1] in
  valid false leak_deps (init leak_reqs) [0; 0; 1; 2; 1] = true /\ bad s = false /\
  ready_tids s = [] /\ blocked s = [] /\ none_left (log s) = false /\ info s 0 = IReal 0.
Proof. vm_compute. repeat split; reflexivity. Qed.

(* current code: a lazy deployment is undeployed while its first use is deploying the connector, then deployed
   and used again: two connectors of d0 are live *)
Definition lazy_deps := [mkD false None true [] 1 1].
Definition lazy_reqs := [[ODeploy 0; OUse 0]; [OUndeploy 0; ODeploy 0; OUse 0]].
Lemma once_witness :
  let s := run false lazy_deps (init lazy_reqs) [0; 1] in
  valid false lazy_deps (init lazy_reqs) [0; 1] = true /\ bad s = false /\ once_ok (log s) = false.
Proof. vm_compute. repeat split; reflexivity. Qed.

(* ---------------------------------------------------------------- bounded-exhaustive families of request sets
   Every multiset of at most 4 requests, each one of  deploy | undeploy | undeploy;deploy | deploy;undeploy,
   over ONE eager deployment whose connector deploy/undeploy suspend once: return_after and once on every
   interleaving (70 request sets; the kernel explores each exhaustively). *)
Definition rtypes := [[ODeploy 0]; [OUndeploy 0]; [OUndeploy 0; ODeploy 0]; [ODeploy 0; OUndeploy 0]].
Fixpoint msets (n : nat) (lo : nat) : list (list nat) :=
  match n with
  | 0 => [[]]
  | S n' => [] :: flat_map (fun i => map (cons i) (msets n' i)) (seq lo (4 - lo))
  end.
Definition one_fam : list (list (list op)) := map (map (fun i => nth i rtypes [])) (msets 4 0).
Definition one_deps := [plain 1 1].
Definition one_P reqs (s : st) := ra_ok reqs (log s) && once_ok (log s).

Lemma one_fam_explored :
  forallb (fun reqs => explore false one_deps (one_P reqs) 60 (init reqs)) one_fam = true.
Proof. vm_compute. reflexivity. Qed.

Lemma one_fam_all_schedules : forall reqs sched,
  In reqs one_fam -> valid false one_deps (init reqs) sched = true ->
  ra_ok reqs (log (run false one_deps (init reqs) sched)) = true /\
  once_ok (log (run false one_deps (init reqs) sched)) = true.
Proof.
  intros reqs sched Hin Hv. pose proof one_fam_explored as H. rewrite forallb_forall in H.
  destruct (explore_sound false one_deps (one_P reqs) sched 60 _ (H reqs Hin) Hv) as [HP _].
  apply andb_prop in HP. exact HP.
Qed.

(* Sequential teardown of an eager wraps chain d3 -> d2 -> d1 -> d0 (undeploy suspends once): ONE request that
   first deploys any sequence of at most 2 deployments and then runs any sequence of at most 2 teardown
   operations (undeploy of any deployment, or undeploy_all with its concurrent child tasks): wrap_order, once
   and return_after on every interleaving (651 request sets). *)
Definition ch_deps := [plain 0 1; wrap 0 0 1; wrap 1 0 1; wrap 2 0 1].
Fixpoint seqs {A} (alpha : list A) (n : nat) : list (list A) :=
  match n with
  | 0 => [[]]
  | S n' => [] :: flat_map (fun a => map (cons a) (seqs alpha n')) alpha
  end.
Definition ch_fam : list (list (list op)) :=
  flat_map (fun ds => map (fun td => [ds ++ td])
                          (seqs [OUndeploy 0; OUndeploy 1; OUndeploy 2; OUndeploy 3; OAll] 2))
           (seqs [ODeploy 0; ODeploy 1; ODeploy 2; ODeploy 3] 2).
Definition ch_P reqs (s : st) := wo_ok ch_deps (log s) && once_ok (log s) && ra_ok reqs (log s).

Lemma ch_fam_explored :
  forallb (fun reqs => explore false ch_deps (ch_P reqs) 80 (init reqs)) ch_fam = true.
Proof. vm_compute. reflexivity. Qed.

Lemma ch_fam_all_schedules : forall reqs sched,
  In reqs ch_fam -> valid false ch_deps (init reqs) sched = true ->
  wo_ok ch_deps (log (run false ch_deps (init reqs) sched)) = true /\
  once_ok (log (run false ch_deps (init reqs) sched)) = true /\
  ra_ok reqs (log (run false ch_deps (init reqs) sched)) = true.
Proof.
  intros reqs sched Hin Hv. pose proof ch_fam_explored as H. rewrite forallb_forall in H.
  destruct (explore_sound false ch_deps (ch_P reqs) sched 80 _ (H reqs Hin) Hv) as [HP _].
  apply andb_prop in HP. destruct HP as [HP H3]. apply andb_prop in HP. destruct HP as [H1 H2]. auto.
Qed.

(* ---------------------------------------------------------------- eager chains of depth up to 40 / 6
   chain n = d(n-1) wraps d(n-2) ... wraps d0, all eager, undeploy suspends once.
   (a) one driver request deploy(top); undeploy(top), every depth 1..40: deterministic up to the trivial
       schedule, explored by the kernel;  (b) deploy(top); undeploy_all() with its n concurrent child tasks,
       every depth 1..6, every interleaving.  wrap_order, once and return_after on every reachable state.
   Depth is bounded because (1) the frame stacks of the recursion through the chain are unbounded, which the
   finite-shape invariants of Deploy/Inductive*.v do not cover, and (2) the executable [step] runs at most
   fuel0 = 2000 micro-steps per atomic stretch: the final unwinding of the nested `for name, deps in ...`
   loops of undeploy is quadratic in the depth and exceeds the fuel from depth 46 on (the model marks the state
   [bad]; the real code has no such limit). *)
Definition chain (n : nat) : list dcfg :=
  map (fun i => match i with 0 => plain 0 1 | S k => wrap k 0 1 end) (seq 0 n).
Definition chP (n : nat) (reqs : list (list op)) (s : st) :=
  wo_ok (chain n) (log s) && once_ok (log s) && ra_ok reqs (log s).
Definition seqreq (n : nat) := [[ODeploy (n - 1); OUndeploy (n - 1)]].
Definition allreq (n : nat) := [[ODeploy (n - 1); OAll]].

Lemma chain_seq_explored :
  forallb (fun n => explore false (chain n) (chP n (seqreq n)) 200 (init (seqreq n))) (seq 1 40) = true.
Proof. vm_compute. reflexivity. Qed.
Lemma chain_all_explored :
  forallb (fun n => explore false (chain n) (chP n (allreq n)) 200 (init (allreq n))) (seq 1 6) = true.
Proof. vm_compute. reflexivity. Qed.

Lemma chain_seq_all_schedules : forall n sched, 1 <= n <= 40 ->
  valid false (chain n) (init (seqreq n)) sched = true ->
  chP n (seqreq n) (run false (chain n) (init (seqreq n)) sched) = true.
Proof.
  intros n sched Hn Hv. pose proof chain_seq_explored as H. rewrite forallb_forall in H.
  assert (Hin : In n (seq 1 40)) by (apply in_seq; lia).
  destruct (explore_sound false (chain n) (chP n (seqreq n)) sched 200 _ (H n Hin) Hv) as [HP _]. exact HP.
Qed.
Lemma chain_all_all_schedules : forall n sched, 1 <= n <= 6 ->
  valid false (chain n) (init (allreq n)) sched = true ->
  chP n (allreq n) (run false (chain n) (init (allreq n)) sched) = true.
Proof.
  intros n sched Hn Hv. pose proof chain_all_explored as H. rewrite forallb_forall in H.
  assert (Hin : In n (seq 1 6)) by (apply in_seq; lia).
  destruct (explore_sound false (chain n) (chP n (allreq n)) sched 200 _ (H n Hin) Hv) as [HP _]. exact HP.
Qed.

(* ---------------------------------------------------------------- wrappers without `wraps`: the implicit __LOCAL__
   Two wrapper deployments without a `wraps` directive share the implicit local deployment (index length deps):
   two requests deploy them concurrently (their connector.deploy suspend), then one of them tears everything
   down with undeploy_all(); every interleaving: __LOCAL__ is deployed once, each deploy returns after its
   connector is deployed, and the local connector is not undeployed while a wrapper connector is live. *)
Definition loc_deps := [mkD true None false [] 1 0; mkD true None false [] 1 1].
Definition loc_reqs := [[ODeploy 0]; [ODeploy 1; OAll]].
Definition loc_P (s : st) := wo_ok loc_deps (log s) && once_ok (log s) && ra_ok loc_reqs (log s).
Lemma loc_explored : explore false loc_deps loc_P 60 (init loc_reqs) = true.
Proof. vm_compute. reflexivity. Qed.
Lemma loc_all_schedules : forall sched, valid false loc_deps (init loc_reqs) sched = true ->
  loc_P (run false loc_deps (init loc_reqs) sched) = true.
Proof. intros sched Hv. exact (proj1 (explore_sound false loc_deps loc_P sched 60 _ loc_explored Hv)). Qed.
