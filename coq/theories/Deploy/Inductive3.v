(* Deploy/Inductive3.v — return_after for deploy AND undeploy requests on one eager, non-wrapper, never-failing
   deployment, over ALL executions of Deploy/Model.v (current code): any number of requests, each any sequence
   of deploy(d0) / undeploy(d0), any number of suspensions inside connector deploy/undeploy, every list of
   scheduling choices.  Invariant [INV3] (record of named clauses):
     H1  registered /\ event set  =>  that connector's deploy() returned successfully
     A2..A5  shape of the maps;   L  the log satisfies ra_ok;   U  at most one task is inside connector.deploy
     T   every task (not frozen) has one of 14 stack shapes, with the heap facts the shape relies on:
         a deployer (inside connector.deploy of c): deployments_map[d0] = c and DE c true not yet logged;
         a task inside connector.undeploy: the event it captured is stale (not events_map[d0] while d0 is claimed);
         and the correspondence between (request, op index), the current op and the remaining ops. *)
From Coq Require Import List Bool Arith Lia.
From SF Require Import Deploy.Model Deploy.Proofs Deploy.Inductive Deploy.Inductive2.
Import ListNotations.

Lemma skipn_cons_nth : forall A (l : list A) i o r, skipn i l = o :: r -> nth_error l i = Some o /\ skipn (S i) l = r.
Proof.
  induction l as [|x l IH]; intros i o r H.
  - destruct i; discriminate.
  - destruct i; simpl in *. inversion H; auto. apply IH; auto.
Qed.
Lemma mem_ldel_self : forall l, mem 0 (ldel 0 l) = false.
Proof.
  unfold mem, ldel. induction l as [|x l IH]; simpl; auto. destruct x; simpl; auto.
Qed.
Lemma nth_nth_upd_other : forall (l : list bool) e e' f, e <> e' -> nth e' (nth_upd e f l) false = nth e' l false.
Proof.
  induction l as [|x l IH]; intros e e' f H; destruct e; destruct e'; simpl; auto; try congruence.
Qed.
Lemma nth_app_old : forall (l : list bool) e, e < length l -> nth e (l ++ [false]) false = nth e l false.
Proof. intros. apply app_nth1. auto. Qed.

Section OneEagerRA.
Variable d : dcfg.
Hypothesis Dw : wrapper d = false.
Hypothesis Dl : lazy d = false.
Hypothesis Df : fails d = [].
Variable reqs : list (list op).
Hypothesis Hreqs : Forall (Forall okop) reqs.
Let deps := [d].

Definition opsof (j : nat) := nth j reqs [].
Definition isDp (o : option op) := o = Some (ODeploy 0).
Definition isUn (o : option op) := o = Some (OUndeploy 0).
Definition Es (s : st) := exists e, alookup 0 (em s) = Some e /\ ev_isset s e = true.
Definition Eu (s : st) := exists e, alookup 0 (em s) = Some e /\ ev_isset s e = false.
Definition G3 (s : st) := (exists c, alookup 0 (dm s) = Some (Real c)) /\ Es s.
Definition Fr3 (s : st) := alookup 0 (dm s) = None /\ mem 0 (cm s) = true /\ Eu s.
Definition DepC (s : st) (c : nat) :=
  alookup 0 (dm s) = Some (Real c) /\ ~ In (DE c true) (log s) /\ alookup 0 (em s) <> None.
Definition Stale (s : st) (e : nat) := e < length (evs s) /\ (mem 0 (cm s) = true -> alookup 0 (em s) <> Some e).
Definition T0' := FDeployTop 0.

Inductive shape3 (s : st) (t : task) : Prop :=
| Z_e : stack t = [] -> (cur t = None \/ isUn (cur t)) -> shape3 s t
| Z_ret : stack t = [] -> isDp (cur t) -> tw t = WRun -> G3 s -> shape3 s t
| Z_FD : stack t = [FD 0; T0'] -> isDp (cur t) -> shape3 s t
| Z_Else : stack t = [FDElse 0; T0'] -> isDp (cur t) -> shape3 s t
| Z_Wait : stack t = [FDWait 0; T0'] -> isDp (cur t) -> tw t = WRun -> Es s -> shape3 s t
| Z_FI : stack t = [FI 0 false; FDAfterInner 0; T0'] -> isDp (cur t) -> tw t = WRun -> Fr3 s -> shape3 s t
| Z_After : stack t = [FDAfterInner 0; T0'] -> isDp (cur t) -> tw t = WRun -> Fr3 s -> shape3 s t
| Z_Dep : forall c k, stack t = [FDDeploying 0 c k false; T0'] -> isDp (cur t) -> DepC s c -> shape3 s t
| Z_Top : stack t = [T0'] -> isDp (cur t) -> tw t = WRun -> G3 s -> shape3 s t
| Z_FU : stack t = [FU 0] -> isUn (cur t) -> shape3 s t
| Z_FUW : stack t = [FUWait 0] -> isUn (cur t) -> tw t = WRun -> G3 s -> shape3 s t
| Z_FUU : forall oc k e, stack t = [FUUndeploying 0 oc k e] -> isUn (cur t) -> Stale s e -> shape3 s t
| Z_FUL : stack t = [FULoop 0 []] -> isUn (cur t) -> shape3 s t.

Definition isdep (t : task) := exists c k, stack t = [FDDeploying 0 c k false; T0'].

(* (request, op index) <-> current op and remaining ops *)
Definition Jc (j : nat) (t : task) :=
  match cur t with
  | Some o => nth_error (opsof j) (opi t) = Some o /\ todo t = skipn (S (opi t)) (opsof j)
  | None => todo t = [] \/ (opi t = 0 /\ todo t = opsof j)
  end.

Definition task_ok3 (s : st) (j : nat) (t : task) :=
  Forall okop (todo t) /\ parent t = None /\ Jc j t /\ shape3 s t.

Definition R_H1 (s : st) := forall c e, alookup 0 (dm s) = Some (Real c) -> alookup 0 (em s) = Some e ->
                                        ev_isset s e = true -> In (DE c true) (log s).
Definition R_A2 (s : st) := alookup 0 (dm s) <> None -> mem 0 (cm s) = true.
Definition R_A3 (s : st) := forall x, alookup 0 (dm s) = Some x -> exists c, x = Real c.
Definition R_A4 (s : st) := forall e, alookup 0 (em s) = Some e -> e < length (evs s).
Definition R_A5 (s : st) := forall k v, In (k, v) (dg s) -> k = 0.
Definition R_A6 (s : st) := forall c ok, In (DE c ok) (log s) -> c < nreal s.
Definition R_A7 (s : st) := forall c, alookup 0 (dm s) = Some (Real c) -> c < nreal s.
Definition dom (o : option nat) (j : nat) (t : task) := tw t <> WRun \/ o = Some j.
Definition R_T (o : option nat) (s : st) :=
  forall j t, nth_error (tasks s) j = Some t -> dom o j t -> task_ok3 s j t.
Definition R_U (o : option nat) (s : st) :=
  forall i j ti tj, nth_error (tasks s) i = Some ti -> nth_error (tasks s) j = Some tj ->
                    dom o i ti -> dom o j tj -> isdep ti -> isdep tj -> i = j.

Record INV3 (o : option nat) (s : st) : Prop := {
  r_H1 : R_H1 s; r_A2 : R_A2 s; r_A3 : R_A3 s; r_A4 : R_A4 s; r_A5 : R_A5 s; r_A6 : R_A6 s; r_A7 : R_A7 s;
  r_L : ra_ok reqs (log s) = true; r_T : R_T o s; r_U : R_U o s
}.

(* ---------------------------------------------------------------- stability of the tasks that do not run *)
(* generic: the part of the heap a non-running task depends on is unchanged / grows harmlessly *)
Lemma other3 : forall s s' j x, tw x <> WRun -> task_ok3 s j x ->
  alookup 0 (dm s') = alookup 0 (dm s) ->
  (forall c, In (DE c true) (log s') -> In (DE c true) (log s)) ->
  length (evs s) <= length (evs s') ->
  (mem 0 (cm s') = true -> mem 0 (cm s) = true /\ alookup 0 (em s') = alookup 0 (em s)) ->
  (alookup 0 (em s) <> None -> alookup 0 (em s') <> None) ->
  task_ok3 s' j x.
Proof.
  intros s s' j x Hn [A [B [J C]]] Hd Hl Hv Hc Hem. split; [|split; [|split]]; auto.
  destruct C as [H H0|H H0 Hr|H H0|H H0|H H0 Hr|H H0 Hr|H H0 Hr|c k H H0 [D1 [D2 D3]]|H H0 Hr|H H0|H H0 Hr
                |oc k e H H0 [S1 S2]|H H0]; try contradiction.
  - apply Z_e; auto.
  - apply Z_FD; auto.
  - apply Z_Else; auto.
  - eapply Z_Dep; eauto. split; [congruence|split; [intro X; apply D2; auto|auto]].
  - apply Z_FU; auto.
  - eapply Z_FUU; eauto. split. lia. intros Hm. destruct (Hc Hm) as [Hm' He]. rewrite He. auto.
  - apply Z_FUL; auto.
Qed.

Lemma wake_ok3 : forall s e j t, task_ok3 s j t -> task_ok3 s j (wake e t).
Proof.
  intros s e j t H. unfold wake. destruct (tw t) eqn:E; auto. destruct (e0 =? e); auto.
  destruct H as [A [B [J C]]]. split; [|split; [|split]]; auto.
  destruct C as [H H0|H H0 Hr|H H0|H H0|H H0 Hr|H H0 Hr|H H0 Hr|c k H H0 D|H H0 Hr|H H0|H H0 Hr
                |oc k e1 H H0 S|H H0]; try congruence;
    [apply Z_e|apply Z_FD|apply Z_Else|eapply Z_Dep|apply Z_FU|eapply Z_FUU|apply Z_FUL]; eauto.
Qed.
Lemma wake_dep : forall e t, isdep (wake e t) -> isdep t.
Proof. intros e t. unfold wake. destruct (tw t); auto. destruct (_ =? _); auto. Qed.

(* ---------------------------------------------------------------- master lemma *)
Lemma INV3_mk : forall s s' tid t t1 (g : task -> task),
  INV3 (Some tid) s -> nth_error (tasks s) tid = Some t ->
  R_H1 s' -> R_A2 s' -> R_A3 s' -> R_A4 s' -> R_A5 s' -> R_A6 s' -> R_A7 s' -> ra_ok reqs (log s') = true ->
  (forall j x, j <> tid -> nth_error (tasks s) j = Some x -> tw x <> WRun -> task_ok3 s' j x) ->
  nth_error (tasks s') tid = Some t1 ->
  (forall j, j <> tid -> nth_error (tasks s') j = option_map g (nth_error (tasks s) j)) ->
  (forall j x, task_ok3 s' j x -> task_ok3 s' j (g x)) -> (forall x, tw (g x) <> WRun -> tw x <> WRun) ->
  (forall x, isdep (g x) -> isdep x) ->
  task_ok3 s' tid t1 ->
  (isdep t1 -> isdep t \/ forall j x, j <> tid -> nth_error (tasks s) j = Some x -> tw x <> WRun -> ~ isdep x) ->
  INV3 (Some tid) s'.
Proof.
  intros s s' tid t t1 g I Ht h1 a2 a3 a4 a5 a6 a7 l Ho Ht1 Hn Hg Hgw Hgd Hok Hu.
  constructor; auto.
  - intros j t' Hj Hc. destruct (Nat.eq_dec j tid) as [->|Hne].
    + rewrite Ht1 in Hj. inversion Hj; subst; auto.
    + rewrite (Hn j Hne) in Hj. destruct (nth_error (tasks s) j) as [x|] eqn:E; [|discriminate].
      simpl in Hj. inversion Hj; subst. destruct Hc as [Hc|Hc]; [|inversion Hc; congruence].
      apply Hg. apply (Ho j x Hne E). apply Hgw; auto.
  - (* uniqueness *)
    assert (Hold : forall j x, j <> tid -> nth_error (tasks s') j = Some x -> dom (Some tid) j x -> isdep x ->
                   exists y, nth_error (tasks s) j = Some y /\ tw y <> WRun /\ isdep y).
    { intros j x Hne Hj Hd Hi. rewrite (Hn j Hne) in Hj.
      destruct (nth_error (tasks s) j) as [y|] eqn:E; [|discriminate]. simpl in Hj. inversion Hj; subst.
      exists y. split; auto. split. destruct Hd as [Hd|Hd]; [apply Hgw; auto|inversion Hd; congruence].
      apply Hgd; auto. }
    intros i j ti tj Hi Hj Di Dj Pi Pj.
    destruct (Nat.eq_dec i tid) as [->|Ni]; destruct (Nat.eq_dec j tid) as [->|Nj]; auto.
    + rewrite Ht1 in Hi. inversion Hi; subst ti.
      destruct (Hold j tj Nj Hj Dj Pj) as [y [Ey [Wy Py]]].
      destruct (Hu Pi) as [Pt|Pn].
      * symmetry. apply (r_U _ _ I j tid y t Ey Ht); auto. left; auto. right; auto.
      * exfalso. apply (Pn j y Nj Ey Wy Py).
    + rewrite Ht1 in Hj. inversion Hj; subst tj.
      destruct (Hold i ti Ni Hi Di Pi) as [y [Ey [Wy Py]]].
      destruct (Hu Pj) as [Pt|Pn].
      * apply (r_U _ _ I i tid y t Ey Ht); auto. left; auto. right; auto.
      * exfalso. apply (Pn i y Ni Ey Wy Py).
    + destruct (Hold i ti Ni Hi Di Pi) as [y [Ey [Wy Py]]].
      destruct (Hold j tj Nj Hj Dj Pj) as [z [Ez [Wz Pz]]].
      apply (r_U _ _ I i j y z Ey Ez); auto; left; auto.
Qed.

(* ---------------------------------------------------------------- transfer lemmas *)
Ltac unf := unfold R_H1, R_A2, R_A3, R_A4, R_A5, R_A6, R_A7, G3, Fr3, Es, Eu, DepC, Stale, ev_isset in *.

Lemma tok3_eq : forall s s' j t,
  cm s' = cm s -> em s' = em s -> dm s' = dm s -> evs s' = evs s -> log s' = log s ->
  task_ok3 s j t -> task_ok3 s' j t.
Proof.
  intros s s' j t Hc He Hd Hv Hl [A [B [J C]]]. split; [|split; [|split]]; auto.
  destruct C as [H H0|H H0 Hr Hg|H H0|H H0|H H0 Hr Hg|H H0 Hr Hg|H H0 Hr Hg|c k H H0 Hg|H H0 Hr Hg|H H0|H H0 Hr Hg
                |oc k e H H0 Hg|H H0];
    [apply Z_e|apply Z_ret|apply Z_FD|apply Z_Else|apply Z_Wait|apply Z_FI|apply Z_After|eapply Z_Dep|apply Z_Top
    |apply Z_FU|apply Z_FUW|eapply Z_FUU|apply Z_FUL]; eauto; unf; rewrite ?Hc, ?He, ?Hd, ?Hv, ?Hl; auto.
Qed.

Lemma tok3_log : forall s s' j t x,
  cm s' = cm s -> em s' = em s -> dm s' = dm s -> evs s' = evs s -> log s' = x :: log s ->
  (forall c, x <> DE c true) -> task_ok3 s j t -> task_ok3 s' j t.
Proof.
  intros s s' j t x Hc He Hd Hv Hl Hx [A [B [J C]]]. split; [|split; [|split]]; auto.
  destruct C as [H H0|H H0 Hr Hg|H H0|H H0|H H0 Hr Hg|H H0 Hr Hg|H H0 Hr Hg|c k H H0 Hg|H H0 Hr Hg|H H0|H H0 Hr Hg
                |oc k e H H0 Hg|H H0];
    [apply Z_e|apply Z_ret|apply Z_FD|apply Z_Else|apply Z_Wait|apply Z_FI|apply Z_After|eapply Z_Dep|apply Z_Top
    |apply Z_FU|apply Z_FUW|eapply Z_FUU|apply Z_FUL]; eauto; unf; rewrite ?Hc, ?He, ?Hd, ?Hv, ?Hl; auto.
  destruct Hg as [D1 [D2 D3]]. split; [auto|split; auto]. intros [X|X]; [apply (Hx c); auto|auto].
Qed.

Lemma INV3_same : forall o s s',
  cm s' = cm s -> em s' = em s -> dm s' = dm s -> dg s' = dg s -> evs s' = evs s -> log s' = log s ->
  nreal s' = nreal s -> tasks s' = tasks s -> INV3 o s -> INV3 o s'.
Proof.
  intros o s s' Hc He Hd Hg Hv Hl Hn Ht I. destruct I as [h1 a2 a3 a4 a5 a6 a7 l tt uu].
  constructor; unf; unfold R_T, R_U in *; rewrite ?Hc, ?He, ?Hd, ?Hg, ?Hv, ?Hl, ?Hn, ?Ht; auto.
  intros j t Hj Hdm. eapply tok3_eq; eauto.
Qed.

Definition ra_step (x : ev) (older : list ev) : bool :=
  match x with
  | Ret t i None (IReal c) => if is_deploy reqs t i then has (is_DE c true) older else true
  | Ret t i None INone => negb (is_deploy reqs t i)
  | _ => true
  end.
Lemma INV3_log : forall o s s' x,
  cm s' = cm s -> em s' = em s -> dm s' = dm s -> dg s' = dg s -> evs s' = evs s -> log s' = x :: log s ->
  nreal s' = nreal s -> tasks s' = tasks s ->
  (forall c ok, x <> DE c ok) -> ra_step x (log s) = true -> INV3 o s -> INV3 o s'.
Proof.
  intros o s s' x Hc He Hd Hg Hv Hl Hn Ht Hx Hr I. destruct I as [h1 a2 a3 a4 a5 a6 a7 l tt uu].
  constructor; unf; unfold R_T, R_U in *; rewrite ?Hc, ?He, ?Hd, ?Hg, ?Hv, ?Hl, ?Hn, ?Ht; auto.
  - intros c e A B C. right. eapply h1; eauto.
  - intros c ok [X|X]. exfalso. apply (Hx c ok); auto. eauto.
  - simpl. rewrite l, andb_true_r. unfold ra_step in Hr. exact Hr.
  - intros j t Hj Hdm. eapply tok3_log; eauto.
Qed.

Lemma INV3_upd : forall s tid t f,
  INV3 (Some tid) s -> nth_error (tasks s) tid = Some t -> task_ok3 s tid (f t) -> (isdep (f t) -> isdep t) ->
  INV3 (Some tid) (upd_task s tid f).
Proof.
  intros s tid t f I Ht Hok Hdp.
  apply INV3_mk with (s := s) (t := t) (t1 := f t) (g := fun y => y); auto.
  - exact (r_H1 _ _ I).
  - exact (r_A2 _ _ I).
  - exact (r_A3 _ _ I).
  - exact (r_A4 _ _ I).
  - exact (r_A5 _ _ I).
  - exact (r_A6 _ _ I).
  - exact (r_A7 _ _ I).
  - exact (r_L _ _ I).
  - intros j x Hne Hj Hn. apply (tok3_eq s); auto. apply (r_T _ _ I j x Hj). left; auto.
  - simpl. rewrite nth_error_nth_upd, Nat.eqb_refl, Ht. reflexivity.
  - intros j Hne. simpl. rewrite nth_error_nth_upd. destruct (tid =? j) eqn:E.
    apply Nat.eqb_eq in E. congruence. now rewrite opt_id.
  - apply (tok3_eq s); auto.
Qed.

Lemma finish_eq3 : forall s tid t r, nth_error (tasks s) tid = Some t -> parent t = None ->
  finish s tid r = upd_task s tid (fun t => mkT [] [] (opi t) None (parent t) WDone (gerr t) (ucon t)).
Proof.
  intros s tid t r Ht Hp. unfold finish, notify.
  rewrite (tid_upd s tid t _ Ht). simpl. rewrite Hp. reflexivity.
Qed.
Lemma INV3_finish : forall s tid t r,
  INV3 (Some tid) s -> nth_error (tasks s) tid = Some t -> task_ok3 s tid t -> INV3 (Some tid) (finish s tid r).
Proof.
  intros s tid t r I Ht [A [B [J C]]]. rewrite (finish_eq3 s tid t r Ht B).
  eapply INV3_upd; eauto.
  - split; [|split; [|split]]; simpl; auto. unfold Jc. simpl. auto. apply Z_e; simpl; auto.
  - intros [c [k H]]. simpl in H. discriminate.
Qed.
Lemma INV3_raise : forall s tid t e,
  INV3 (Some tid) s -> nth_error (tasks s) tid = Some t -> task_ok3 s tid t -> INV3 (Some tid) (raise s tid e).
Proof.
  intros s tid t e I Ht Hok. unfold raise. rewrite Ht. destruct (cur t) as [o|].
  - eapply INV3_finish with (t := t).
    + apply INV3_log with (s := s) (x := Ret tid (opi t) (Some e) (info_of s t o)); auto. intros; discriminate.
    + exact Ht.
    + apply (tok3_log s _ tid t (Ret tid (opi t) (Some e) (info_of s t o))); auto. intros; discriminate.
  - eapply INV3_finish; eauto.
Qed.

Lemma dep_shape : forall s j x, task_ok3 s j x -> isdep x -> exists c, DepC s c.
Proof.
  intros s j x [A [B [J C]]] [c [k H]].
  destruct C as [H1 H0|H1 H0 Hr Hg|H1 H0|H1 H0|H1 H0 Hr Hg|H1 H0 Hr Hg|H1 H0 Hr Hg|c' k' H1 H0 Hg|H1 H0 Hr Hg|H1 H0
                |H1 H0 Hr Hg|oc k' e H1 H0 Hg|H1 H0]; try congruence. eauto.
Qed.

(* ---------------------------------------------------------------- the cases of [micro] *)
Lemma cfg03 : cfg deps 0 = d. Proof. reflexivity. Qed.

Lemma is_deploy_J : forall j i o, nth_error (opsof j) i = Some o -> is_deploy reqs j i = true -> exists n, o = ODeploy n.
Proof.
  unfold is_deploy, opsof. intros j i o H Hd. destruct (nth_error reqs j) as [ops|] eqn:E; [|discriminate].
  rewrite (nth_error_nth reqs j [] E) in H. rewrite H in Hd. destruct o; try discriminate. eauto.
Qed.

Lemma no_dep : forall (t : task) st', stack t = st' -> (forall c k, st' <> [FDDeploying 0 c k false; T0']) -> ~ isdep t.
Proof. intros t st' H Hn [c [k Hc]]. apply (Hn c k). congruence. Qed.

(* stack [] : an operation finished (or the first one starts) *)
Lemma case3_next : forall s tid t,
  INV3 (Some tid) s -> nth_error (tasks s) tid = Some t -> stack t = [] -> INV3 (Some tid) (next_op s tid t).
Proof.
  intros s tid t I Ht Hs. pose proof (r_T _ _ I tid t Ht (or_intror eq_refl)) as Hok.
  pose proof Hok as [A [B [J C]]]. unfold next_op.
  set (s1 := match cur t with
             | Some o => add_log s (Ret tid (opi t) None (info_of s t o)) | None => s end).
  assert (I1 : INV3 (Some tid) s1 /\ tasks s1 = tasks s /\ task_ok3 s1 tid t).
  { subst s1. destruct (cur t) as [o|] eqn:Ec; [|auto]. unfold Jc in J. rewrite Ec in J. destruct J as [J1 J2].
    assert (Hstep : ra_step (Ret tid (opi t) None (info_of s t o)) (log s) = true).
    { destruct C as [H H0|H H0 Hr Hg|H H0|H H0|H H0 Hr Hg|H H0 Hr Hg|H H0 Hr Hg|c k H H0 Hg|H H0 Hr Hg|H H0|H H0 Hr Hg
                    |oc k e H H0 Hg|H H0]; try congruence.
      - (* undeploy (or nothing) finished *)
        destruct H0 as [H0|H0]; [congruence|]. unfold isUn in H0. rewrite Ec in H0. inversion H0; subst o.
        unfold ra_step. simpl.
        destruct (is_deploy reqs tid (opi t)) eqn:Ed.
        + destruct (is_deploy_J _ _ _ J1 Ed) as [n Hn]. discriminate.
        + destruct (info s 0) as [|c|r]; auto.
      - (* deploy finished *)
        unfold isDp in H0. rewrite Ec in H0. inversion H0; subst o.
        destruct Hg as [[c Hd] [e [He Hse]]]. unfold ra_step. simpl. unfold info. rewrite Hd. simpl.
        rewrite (has_DE_In c (log s)). destruct (is_deploy reqs tid (opi t)); auto.
        eapply (r_H1 _ _ I); eauto. }
    split; [|split; [reflexivity|]].
    - apply INV3_log with (s := s) (x := Ret tid (opi t) None (info_of s t o)); auto. intros; discriminate.
    - apply (tok3_log s _ tid t (Ret tid (opi t) None (info_of s t o))); auto. intros; discriminate. }
  destruct I1 as [I1 [Htk Hok1]].
  assert (Ht1 : nth_error (tasks s1) tid = Some t) by (rewrite Htk; exact Ht).
  destruct (todo t) as [|o rest] eqn:Et.
  - eapply INV3_finish; eauto.
  - eapply INV3_upd; eauto.
    + inversion A; subst.
      assert (HJ : nth_error (opsof tid) (match cur t with Some _ => S (opi t) | None => opi t end) = Some o /\
                   rest = skipn (S (match cur t with Some _ => S (opi t) | None => opi t end)) (opsof tid)).
      { unfold Jc in J. destruct (cur t).
        - destruct J as [_ J2]. rewrite Et in J2. symmetry in J2. destruct (skipn_cons_nth _ _ _ _ _ J2). auto.
        - destruct J as [J|[J1 J2]]; [congruence|]. rewrite J1. rewrite Et in J2. symmetry in J2.
          change (opsof tid) with (skipn 0 (opsof tid)) in J2. destruct (skipn_cons_nth _ _ _ _ _ J2). auto. }
      destruct HJ as [HJ1 HJ2].
      split; [|split; [|split]]; simpl; auto.
      * unfold Jc. simpl. auto.
      * destruct H1 as [->| ->]; simpl; [apply Z_FD|apply Z_FU]; simpl; reflexivity.
    + inversion A; subst. intros [c [k H]]. simpl in H. destruct H1 as [->| ->]; simpl in H; discriminate.
Qed.

Ltac tab3_tid Ht := simpl; rewrite ?nth_error_nth_upd, ?Nat.eqb_refl, ?Ht; reflexivity.
Ltac tab3_other := intros j Hne; simpl; rewrite ?nth_error_nth_upd;
  destruct (_ =? j) eqn:E; [apply Nat.eqb_eq in E; congruence | now rewrite ?opt_id].

Lemma case3_claim : forall s tid t,
  INV3 (Some tid) s -> nth_error (tasks s) tid = Some t -> tw t = WRun ->
  stack t = [FD 0; T0'] -> mem 0 (cm s) = false ->
  let e := length (evs s) in
  let sid := length (sets s) in
  let s1 := set_cm s (cm s ++ [0]) in
  let s2 := set_em (set_evs s1 (evs s1 ++ [false])) (aset 0 e (em s1)) in
  let s3 := set_dg (set_sets s2 (sets s2 ++ [[]])) (aset 0 sid (dg s2)) in
  INV3 (Some tid) (push (top_set s3 tid (FDAfterInner 0)) tid (FI 0 false)).
Proof.
  intros s tid t I Ht Hw Hs Hm. cbv zeta.
  pose proof (r_T _ _ I tid t Ht (or_intror eq_refl)) as [A [B [J C]]].
  assert (Hcur : isDp (cur t)).
  { destruct C as [H H0|H H0 Hr Hg|H H0|H H0|H H0 Hr Hg|H H0 Hr Hg|H H0 Hr Hg|c k H H0 Hg|H H0 Hr Hg|H H0|H H0 Hr Hg
                  |oc k e H H0 Hg|H H0]; try congruence; rewrite Hs in H; discriminate. }
  assert (Hdm : alookup 0 (dm s) = None).
  { destruct (alookup 0 (dm s)) eqn:E; auto. rewrite (r_A2 _ _ I) in Hm; congruence. }
  eapply INV3_mk with (s := s) (t := t) (g := fun y => y)
    (t1 := set_stack (set_stack t (FDAfterInner 0 :: tl (stack t)))
                     (FI 0 false :: stack (set_stack t (FDAfterInner 0 :: tl (stack t))))); auto.
  - unf. simpl. intros c e0 Hd He Hi. rewrite alookup_aset_same in He. inversion He; subst.
    rewrite nth_app_end in Hi. discriminate.
  - unf. simpl. intros _. apply mem_app_self.
  - exact (r_A3 _ _ I).
  - unf. simpl. intros e0 He. rewrite alookup_aset_same in He. inversion He; subst. rewrite app_length. simpl. lia.
  - unf. simpl. intros k v Hin. destruct (In_aset _ _ _ _ _ _ Hin); auto. eapply (r_A5 _ _ I); eauto.
  - exact (r_A6 _ _ I).
  - exact (r_A7 _ _ I).
  - exact (r_L _ _ I).
  - (* others *)
    intros j x Hne Hj Hn. pose proof (r_T _ _ I j x Hj (or_introl Hn)) as [A' [B' [J' C']]].
    split; [|split; [|split]]; auto.
    destruct C' as [H H0|H H0 Hr|H H0|H H0|H H0 Hr|H H0 Hr|H H0 Hr|c k H H0 [D1 [D2 D3]]|H H0 Hr|H H0|H H0 Hr
                   |oc k e H H0 [S1 S2]|H H0]; try contradiction;
      [apply Z_e|apply Z_FD|apply Z_Else|eapply Z_Dep|apply Z_FU|eapply Z_FUU|apply Z_FUL]; eauto.
    + unf. simpl. split; [auto|split; auto]. rewrite alookup_aset_same. discriminate.
    + unf. simpl. split. rewrite app_length. simpl. lia.
      intros _. rewrite alookup_aset_same. intro X. inversion X. lia.
  - tab3_tid Ht.
  - tab3_other.
  - split; [|split; [|split]]; simpl; auto. rewrite Hs. simpl. apply Z_FI; simpl; auto.
    unf. simpl. split; [exact Hdm|split; [apply mem_app_self|]].
    exists (length (evs s)). rewrite alookup_aset_same. split; auto. apply nth_app_end.
  - intros [c [k H]]. simpl in H. rewrite Hs in H. simpl in H. discriminate.
Qed.

Lemma case3_create : forall s tid t,
  INV3 (Some tid) s -> nth_error (tasks s) tid = Some t -> tw t = WRun ->
  stack t = [FDAfterInner 0; T0'] ->
  let c := nreal s in
  let s1 := set_dm (set_nreal s (S c)) (aset 0 (Real c) (dm s)) in
  INV3 (Some tid) (top_set (add_log s1 (DS 0 c)) tid (FDDeploying 0 c (dy d) false)).
Proof.
  intros s tid t I Ht Hw Hs. cbv zeta.
  pose proof (r_T _ _ I tid t Ht (or_intror eq_refl)) as [A [B [J C]]].
  assert (Hf : isDp (cur t) /\ Fr3 s).
  { destruct C as [H H0|H H0 Hr Hg|H H0|H H0|H H0 Hr Hg|H H0 Hr Hg|H H0 Hr Hg|c k H H0 Hg|H H0 Hr Hg|H H0|H H0 Hr Hg
                  |oc k e H H0 Hg|H H0]; try (rewrite Hs in H; discriminate). auto. }
  destruct Hf as [Hcur [Hdm [Hcm [e [He Hse]]]]].
  eapply INV3_mk with (s := s) (t := t) (g := fun y => y)
    (t1 := set_stack t (FDDeploying 0 (nreal s) (dy d) false :: tl (stack t))); auto.
  - unf. simpl. intros c0 e0 Hd He0 Hi. congruence.
  - unf. simpl. auto.
  - unf. simpl. intros x Hx. rewrite alookup_aset_same in Hx. inversion Hx. eauto.
  - exact (r_A4 _ _ I).
  - exact (r_A5 _ _ I).
  - unf. simpl. intros c0 ok [X|X]; [discriminate|]. pose proof (r_A6 _ _ I c0 ok X). lia.
  - unf. simpl. intros c0 Hx. rewrite alookup_aset_same in Hx. inversion Hx. lia.
  - simpl. exact (r_L _ _ I).
  - intros j x Hne Hj Hn. pose proof (r_T _ _ I j x Hj (or_introl Hn)) as [A' [B' [J' C']]].
    split; [|split; [|split]]; auto.
    destruct C' as [H H0|H H0 Hr|H H0|H H0|H H0 Hr|H H0 Hr|H H0 Hr|c k H H0 [D1 [D2 D3]]|H H0 Hr|H H0|H H0 Hr
                   |oc k e0 H H0 [S1 S2]|H H0]; try contradiction; try congruence;
      [apply Z_e|apply Z_FD|apply Z_Else|apply Z_FU|eapply Z_FUU|apply Z_FUL]; eauto.
    unf. simpl. auto.
  - tab3_tid Ht.
  - tab3_other.
  - split; [|split; [|split]]; simpl; auto. rewrite Hs. simpl. eapply Z_Dep; simpl; eauto.
    unf. simpl. split; [apply alookup_aset_same|split; [|congruence]].
    intros [X|X]; [discriminate|]. pose proof (r_A6 _ _ I _ _ X). lia.
  - intros _. right. intros j x Hne Hj Hn Hdp.
    destruct (dep_shape s j x (r_T _ _ I j x Hj (or_introl Hn)) Hdp) as [c0 [D1 _]]. congruence.
Qed.

Lemma case3_deployed : forall s tid t c e,
  INV3 (Some tid) s -> nth_error (tasks s) tid = Some t -> tw t = WRun ->
  stack t = [FDDeploying 0 c 0 false; T0'] ->
  alookup 0 (em s) = Some e ->
  INV3 (Some tid) (pop (ev_set (add_log s (DE c true)) e) tid).
Proof.
  intros s tid t c e I Ht Hw Hs He.
  pose proof (r_T _ _ I tid t Ht (or_intror eq_refl)) as [A [B [J C]]].
  assert (Hf : isDp (cur t) /\ DepC s c).
  { destruct C as [H H0|H H0 Hr Hg|H H0|H H0|H H0 Hr Hg|H H0 Hr Hg|H H0 Hr Hg|c' k H H0 Hg|H H0 Hr Hg|H H0|H H0 Hr Hg
                  |oc k e0 H H0 Hg|H H0]; try (rewrite Hs in H; discriminate).
    rewrite Hs in H. inversion H; subst. auto. }
  destruct Hf as [Hcur [Hd [Hnot Hemp]]].
  pose proof (r_A4 _ _ I e He) as Hlt.
  set (s1 := add_log s (DE c true)).
  assert (Hset : ev_isset (ev_set s1 e) e = true).
  { unfold ev_set. destruct (ev_isset s1 e) eqn:E; auto. unfold ev_isset. simpl. apply nth_nth_upd_same. exact Hlt. }
  assert (Hdm' : dm (ev_set s1 e) = dm s) by (unfold ev_set; destruct (ev_isset s1 e); reflexivity).
  assert (Hem' : em (ev_set s1 e) = em s) by (unfold ev_set; destruct (ev_isset s1 e); reflexivity).
  assert (Hcm' : cm (ev_set s1 e) = cm s) by (unfold ev_set; destruct (ev_isset s1 e); reflexivity).
  assert (Hdg' : dg (ev_set s1 e) = dg s) by (unfold ev_set; destruct (ev_isset s1 e); reflexivity).
  assert (Hnr' : nreal (ev_set s1 e) = nreal s) by (unfold ev_set; destruct (ev_isset s1 e); reflexivity).
  assert (Hlg' : log (ev_set s1 e) = DE c true :: log s) by (unfold ev_set; destruct (ev_isset s1 e); reflexivity).
  assert (Hlen : length (evs (ev_set s1 e)) = length (evs s)).
  { unfold ev_set. destruct (ev_isset s1 e); simpl; auto. apply nth_upd_length. }
  assert (Htab : exists g, (g = (fun y => y) \/ g = wake e) /\
                 nth_error (tasks (pop (ev_set s1 e) tid)) tid = Some (set_stack t (tl (stack t))) /\
                 forall j, j <> tid -> nth_error (tasks (pop (ev_set s1 e) tid)) j =
                                         option_map g (nth_error (tasks s) j)).
  { unfold ev_set. destruct (ev_isset s1 e); simpl.
    - exists (fun y => y). split; auto. split. rewrite nth_error_nth_upd, Nat.eqb_refl, Ht. reflexivity.
      intros j Hne. rewrite nth_error_nth_upd. destruct (tid =? j) eqn:E'.
      apply Nat.eqb_eq in E'; congruence. now rewrite opt_id.
    - exists (wake e). split; auto. split.
      rewrite nth_error_nth_upd, Nat.eqb_refl, nth_error_map, Ht. simpl. now rewrite (wake_run e t Hw).
      intros j Hne. rewrite nth_error_nth_upd. destruct (tid =? j) eqn:E'.
      apply Nat.eqb_eq in E'; congruence. apply nth_error_map. }
  destruct Htab as [g [Hg [Htid Hoth]]].
  eapply INV3_mk with (s := s) (t := t) (g := g) (t1 := set_stack t (tl (stack t))); auto.
  - unf. simpl. rewrite Hdm', Hlg'. intros c0 e0 Hd0 _ _. left. congruence.
  - unf. simpl. rewrite Hdm', Hcm'. exact (r_A2 _ _ I).
  - unf. simpl. rewrite Hdm'. exact (r_A3 _ _ I).
  - unf. simpl. rewrite Hem', Hlen. exact (r_A4 _ _ I).
  - unf. simpl. rewrite Hdg'. exact (r_A5 _ _ I).
  - unf. simpl. rewrite Hlg', Hnr'. intros c0 ok [X|X]. inversion X; subst. apply (r_A7 _ _ I _ Hd).
    apply (r_A6 _ _ I _ _ X).
  - unf. simpl. rewrite Hdm', Hnr'. exact (r_A7 _ _ I).
  - simpl. rewrite Hlg'. simpl. exact (r_L _ _ I).
  - (* others: no other deployer exists *)
    intros j x Hne Hj Hn. pose proof (r_T _ _ I j x Hj (or_introl Hn)) as Hokx.
    assert (Hnd : ~ isdep x).
    { intro Hdp. apply Hne. apply (r_U _ _ I j tid x t Hj Ht); auto. left; auto. right; auto.
      exists c, 0. exact Hs. }
    destruct Hokx as [A' [B' [J' C']]]. split; [|split; [|split]]; auto.
    destruct C' as [H H0|H H0 Hr|H H0|H H0|H H0 Hr|H H0 Hr|H H0 Hr|c' k H H0 [D1 [D2 D3]]|H H0 Hr|H H0|H H0 Hr
                   |oc k e0 H H0 [S1 S2]|H H0]; try contradiction;
      [apply Z_e|apply Z_FD|apply Z_Else| |apply Z_FU|eapply Z_FUU|apply Z_FUL]; eauto.
    + exfalso. apply Hnd. exists c', k. exact H.
    + unf. simpl. rewrite Hlen, Hcm', Hem'. auto.
  - intros j x Hx. destruct Hg as [->| ->]; auto. apply wake_ok3; auto.
  - intros x Hx. destruct Hg as [->| ->]; auto. eapply wake_tw; eauto.
  - intros x Hx. destruct Hg as [->| ->]; auto. eapply wake_dep; eauto.
  - split; [|split; [|split]]; simpl; auto. rewrite Hs. simpl. apply Z_Top; simpl; auto.
    unf. simpl. rewrite Hdm', Hem'. split; eauto.
  - intros [c0 [k H]]. simpl in H. rewrite Hs in H. simpl in H. discriminate.
Qed.

(* the body of undeploy: event cleared, maps deleted, connector.undeploy entered *)
Lemma case3_body : forall s tid t sid x e,
  INV3 (Some tid) s -> nth_error (tasks s) tid = Some t -> tw t = WRun -> stack t = [FUWait 0] ->
  alookup 0 (em s) = Some e -> alookup 0 (dm s) = Some (Real x) ->
  let s2 := ev_clear (set_discard s sid 0) e in
  let s3 := set_dg (set_cm (set_dm s2 (adel 0 (dm s2))) (ldel 0 (cm s2))) (adel 0 (dg s2)) in
  INV3 (Some tid) (top_set (add_log s3 (US x)) tid (FUUndeploying 0 (Some x) (uy d) e)).
Proof.
  intros s tid t sid x e I Ht Hw Hs He Hd. cbv zeta.
  pose proof (r_T _ _ I tid t Ht (or_intror eq_refl)) as [A [B [J C]]].
  assert (Hf : isUn (cur t) /\ G3 s).
  { destruct C as [H H0|H H0 Hr Hg|H H0|H H0|H H0 Hr Hg|H H0 Hr Hg|H H0 Hr Hg|c' k H H0 Hg|H H0 Hr Hg|H H0|H H0 Hr Hg
                  |oc k e0 H H0 Hg|H H0]; try (rewrite Hs in H; discriminate). auto. }
  destruct Hf as [Hcur [_ [e' [He' Hset]]]]. rewrite He in He'. inversion He'; subst e'.
  pose proof (r_A4 _ _ I e He) as Hlt.
  eapply INV3_mk with (s := s) (t := t) (g := fun y => y)
    (t1 := set_stack t (FUUndeploying 0 (Some x) (uy d) e :: tl (stack t))); auto.
  - unf. simpl. rewrite alookup_adel_same. congruence.
  - unf. simpl. rewrite alookup_adel_same. congruence.
  - unf. simpl. rewrite alookup_adel_same. congruence.
  - unf. simpl. rewrite nth_upd_length. exact (r_A4 _ _ I).
  - unf. simpl. intros k v Hin. apply In_adel in Hin. eapply (r_A5 _ _ I); eauto.
  - unf. simpl. intros c0 ok [X|X]; [discriminate|]. apply (r_A6 _ _ I _ _ X).
  - unf. simpl. rewrite alookup_adel_same. congruence.
  - simpl. exact (r_L _ _ I).
  - (* others: a deployer cannot exist (the event is set, so its DE would be logged) *)
    intros j y Hne Hj Hn. pose proof (r_T _ _ I j y Hj (or_introl Hn)) as [A' [B' [J' C']]].
    split; [|split; [|split]]; auto.
    destruct C' as [H H0|H H0 Hr|H H0|H H0|H H0 Hr|H H0 Hr|H H0 Hr|c' k H H0 [D1 [D2 D3]]|H H0 Hr|H H0|H H0 Hr
                   |oc k e0 H H0 [S1 S2]|H H0]; try contradiction;
      [apply Z_e|apply Z_FD|apply Z_Else| |apply Z_FU|eapply Z_FUU|apply Z_FUL]; eauto.
    + exfalso. apply D2. eapply (r_H1 _ _ I); eauto.
    + unf. simpl. rewrite nth_upd_length. split; auto. rewrite mem_ldel_self. discriminate.
  - tab3_tid Ht.
  - tab3_other.
  - split; [|split; [|split]]; simpl; auto. rewrite Hs. simpl. eapply Z_FUU; simpl; eauto.
    unf. simpl. rewrite nth_upd_length. split; auto. rewrite mem_ldel_self. discriminate.
  - intros [c0 [k H]]. simpl in H. rewrite Hs in H. simpl in H. discriminate.
Qed.

(* connector.undeploy returned: the captured (stale) event is set *)
Lemma case3_fuu_end : forall s tid t oc e,
  INV3 (Some tid) s -> nth_error (tasks s) tid = Some t -> tw t = WRun ->
  stack t = [FUUndeploying 0 oc 0 e] ->
  INV3 (Some tid) (top_set (ev_set s e) tid (FULoop 0 [])).
Proof.
  intros s tid t oc e I Ht Hw Hs.
  pose proof (r_T _ _ I tid t Ht (or_intror eq_refl)) as [A [B [J C]]].
  assert (Hf : isUn (cur t) /\ Stale s e).
  { destruct C as [H H0|H H0 Hr Hg|H H0|H H0|H H0 Hr Hg|H H0 Hr Hg|H H0 Hr Hg|c' k H H0 Hg|H H0 Hr Hg|H H0|H H0 Hr Hg
                  |oc' k e0 H H0 Hg|H H0]; try (rewrite Hs in H; discriminate).
    rewrite Hs in H. inversion H; subst. auto. }
  destruct Hf as [Hcur [St1 St2]].
  assert (Hdm' : dm (ev_set s e) = dm s) by (unfold ev_set; destruct (ev_isset s e); reflexivity).
  assert (Hem' : em (ev_set s e) = em s) by (unfold ev_set; destruct (ev_isset s e); reflexivity).
  assert (Hcm' : cm (ev_set s e) = cm s) by (unfold ev_set; destruct (ev_isset s e); reflexivity).
  assert (Hdg' : dg (ev_set s e) = dg s) by (unfold ev_set; destruct (ev_isset s e); reflexivity).
  assert (Hnr' : nreal (ev_set s e) = nreal s) by (unfold ev_set; destruct (ev_isset s e); reflexivity).
  assert (Hlg' : log (ev_set s e) = log s) by (unfold ev_set; destruct (ev_isset s e); reflexivity).
  assert (Hlen : length (evs (ev_set s e)) = length (evs s)).
  { unfold ev_set. destruct (ev_isset s e); simpl; auto. apply nth_upd_length. }
  assert (Hoth : forall e', e' <> e -> nth e' (evs (ev_set s e)) false = nth e' (evs s) false).
  { intros e' Hne. unfold ev_set. destruct (ev_isset s e); auto. simpl.
    apply nth_nth_upd_other. auto. }
  assert (Htab : exists g, (g = (fun y => y) \/ g = wake e) /\
                 nth_error (tasks (top_set (ev_set s e) tid (FULoop 0 []))) tid =
                   Some (set_stack t (FULoop 0 [] :: tl (stack t))) /\
                 forall j, j <> tid -> nth_error (tasks (top_set (ev_set s e) tid (FULoop 0 []))) j =
                                         option_map g (nth_error (tasks s) j)).
  { unfold ev_set. destruct (ev_isset s e); simpl.
    - exists (fun y => y). split; auto. split. rewrite nth_error_nth_upd, Nat.eqb_refl, Ht. reflexivity.
      intros j Hne. rewrite nth_error_nth_upd. destruct (tid =? j) eqn:E'.
      apply Nat.eqb_eq in E'; congruence. now rewrite opt_id.
    - exists (wake e). split; auto. split.
      rewrite nth_error_nth_upd, Nat.eqb_refl, nth_error_map, Ht. simpl. now rewrite (wake_run e t Hw).
      intros j Hne. rewrite nth_error_nth_upd. destruct (tid =? j) eqn:E'.
      apply Nat.eqb_eq in E'; congruence. apply nth_error_map. }
  destruct Htab as [g [Hg [Htid Hothers]]].
  eapply INV3_mk with (s := s) (t := t) (g := g) (t1 := set_stack t (FULoop 0 [] :: tl (stack t))); auto.
  - unfold R_H1, ev_isset. simpl. rewrite Hdm', Hem', Hlg'. intros c0 e0 Hd0 He0 Hi.
    destruct (Nat.eq_dec e0 e) as [->|Hne].
    + exfalso. apply St2; auto. apply (r_A2 _ _ I). congruence.
    + rewrite (Hoth e0 Hne) in Hi. eapply (r_H1 _ _ I); eauto.
  - unf. simpl. rewrite Hdm', Hcm'. exact (r_A2 _ _ I).
  - unf. simpl. rewrite Hdm'. exact (r_A3 _ _ I).
  - unf. simpl. rewrite Hem', Hlen. exact (r_A4 _ _ I).
  - unf. simpl. rewrite Hdg'. exact (r_A5 _ _ I).
  - unf. simpl. rewrite Hlg', Hnr'. exact (r_A6 _ _ I).
  - unf. simpl. rewrite Hdm', Hnr'. exact (r_A7 _ _ I).
  - simpl. rewrite Hlg'. exact (r_L _ _ I).
  - intros j y Hne Hj Hn. apply (other3 s _ j y Hn (r_T _ _ I j y Hj (or_introl Hn))); simpl.
    + now rewrite Hdm'.
    + rewrite Hlg'. auto.
    + rewrite Hlen. auto.
    + rewrite Hcm', Hem'. auto.
    + rewrite Hem'. auto.
  - intros j y Hy. destruct Hg as [->| ->]; auto. apply wake_ok3; auto.
  - intros y Hy. destruct Hg as [->| ->]; auto. eapply wake_tw; eauto.
  - intros y Hy. destruct Hg as [->| ->]; auto. eapply wake_dep; eauto.
  - split; [|split; [|split]]; simpl; auto. rewrite Hs. simpl. apply Z_FUL; simpl; auto.
  - intros [c0 [k H]]. simpl in H. rewrite Hs in H. simpl in H. discriminate.
Qed.

Lemma snapshot3 : forall s, R_A5 s -> snapshot s 0 = [].
Proof.
  unfold R_A5, snapshot. intros s. induction (dg s) as [|[k v] l IH]; simpl; intros H; auto.
  rewrite (H k v (or_introl eq_refl)). simpl. apply IH. intros k' v' Hin. eapply H. right. eauto.
Qed.

Ltac nodep Hst := let c0 := fresh in let k0 := fresh in let H := fresh in
  intros [c0 [k0 H]]; simpl in H; rewrite ?Hst in H; simpl in H; discriminate.
Ltac tok J Hst := split; [simpl; auto|split; [simpl; auto|split; [exact J|simpl; rewrite ?Hst; simpl]]].

Lemma micro_inv3 : forall s tid,
  INV3 (Some tid) s -> running s tid = true -> INV3 (Some tid) (micro false deps tid s).
Proof.
  intros s tid I Hr. unfold running in Hr.
  destruct (nth_error (tasks s) tid) as [t|] eqn:Ht; [|discriminate].
  assert (Hw : tw t = WRun) by (destruct (tw t); congruence).
  pose proof (r_T _ _ I tid t Ht (or_intror eq_refl)) as Hok. pose proof Hok as [A [B [J C]]].
  unfold micro. rewrite Ht.
  destruct C as [Hst Hc|Hst Hc _ Hg|Hst Hc|Hst Hc|Hst Hc _ Hg|Hst Hc _ Hg|Hst Hc _ Hg|c k Hst Hc Hg|Hst Hc _ Hg
                |Hst Hc|Hst Hc _ Hg|oc k e Hst Hc Hg|Hst Hc];
    rewrite Hst; unfold T0'; cbv beta iota.
  - apply case3_next; auto.
  - apply case3_next; auto.
  - (* FD *)
    destruct (mem 0 (cm s)) eqn:Em.
    + unfold top_set. eapply INV3_upd with (t := t); [exact I|exact Ht| |nodep Hst].
      tok J Hst. apply Z_Else; simpl; auto.
    + rewrite cfg03, Dw. apply (case3_claim s tid t); auto.
  - (* FDElse *)
    destruct (alookup 0 (em s)) as [e|] eqn:Ee; [|eapply INV3_raise with (t := t); eauto].
    destruct (ev_isset s e) eqn:Es'.
    + unfold top_set. eapply INV3_upd with (t := t); [exact I|exact Ht| |nodep Hst].
      tok J Hst. apply Z_Wait; simpl; auto. exists e. auto.
    + unfold suspend. eapply INV3_upd with (t := t); [exact I|exact Ht| |nodep Hst].
      tok J Hst. apply Z_Else; simpl; auto.
  - (* FDWait *)
    destruct (alookup 0 (dm s)) as [x|] eqn:Ed; [|eapply INV3_raise with (t := t); eauto].
    destruct (mem 0 (cm s)).
    + unfold pop. eapply INV3_upd with (t := t); [exact I|exact Ht| |nodep Hst].
      tok J Hst. apply Z_Top; simpl; auto. split; auto. destruct (r_A3 _ _ I x Ed) as [c ->]. eauto.
    + unfold top_set. eapply INV3_upd with (t := t); [exact I|exact Ht| |nodep Hst].
      tok J Hst. apply Z_FD; simpl; auto.
  - (* FI *)
    unfold pop. eapply INV3_upd with (t := t); [exact I|exact Ht| |nodep Hst].
    tok J Hst. apply Z_After; simpl; auto.
  - (* FDAfterInner *)
    rewrite cfg03, Dl. cbv beta iota zeta. unfold will_fail. rewrite cfg03, Df, nth_nil_false.
    apply (case3_create s tid t); auto.
  - (* FDDeploying *)
    destruct k as [|k'].
    + cbv beta iota zeta.
      change (alookup 0 (em (add_log s (DE c true)))) with (alookup 0 (em s)).
      destruct (alookup 0 (em s)) as [e|] eqn:Ee.
      * apply (case3_deployed s tid t c e); auto.
      * destruct Hg as [_ [_ Hem]]. congruence.
    + unfold suspend, top_set.
      eapply INV3_upd with (t := set_stack t (FDDeploying 0 c k' false :: tl (stack t))).
      * eapply INV3_upd with (t := t); [exact I|exact Ht| |].
        -- tok J Hst. eapply Z_Dep; simpl; eauto.
        -- intros _. exists c, (S k'). exact Hst.
      * exact (tid_upd s tid t (fun t0 => set_stack t0 (FDDeploying 0 c k' false :: tl (stack t0))) Ht).
      * tok J Hst. eapply Z_Dep; simpl; eauto.
      * intros _. exists c, k'. simpl. rewrite Hst. reflexivity.
  - (* FDeployTop *)
    destruct (alookup 0 (dg s)) as [sid|] eqn:Eg; [|eapply INV3_raise with (t := t); eauto].
    assert (I' : INV3 (Some tid) (set_add s sid 0)) by (apply INV3_same with (s := s); auto).
    unfold pop. eapply INV3_upd with (t := t); [exact I'|exact Ht| |nodep Hst].
    tok J Hst. apply Z_ret; simpl; auto.
  - (* FU *)
    destruct (alookup 0 (dm s)) as [x|] eqn:Ed.
    + destruct (alookup 0 (em s)) as [e|] eqn:Ee; [|eapply INV3_raise with (t := t); eauto].
      destruct (ev_isset s e) eqn:Es'.
      * unfold top_set. eapply INV3_upd with (t := t); [exact I|exact Ht| |nodep Hst].
        tok J Hst. apply Z_FUW; simpl; auto. split. destruct (r_A3 _ _ I x Ed) as [c ->]. eauto. exists e. auto.
      * unfold suspend. eapply INV3_upd with (t := t); [exact I|exact Ht| |nodep Hst].
        tok J Hst. apply Z_FU; simpl; auto.
    + unfold pop. eapply INV3_upd with (t := t); [exact I|exact Ht| |nodep Hst].
      tok J Hst. apply Z_e; simpl; auto.
  - (* FUWait *)
    destruct Hg as [[x Hd] [e [He Hse]]].
    destruct (alookup 0 (dg s)) as [sid|] eqn:Eg; [|eapply INV3_raise with (t := t); eauto].
    cbv zeta.
    assert (I1 : INV3 (Some tid) (set_discard s sid 0)) by (apply INV3_same with (s := s); auto).
    destruct (set_empty (set_discard s sid 0) sid).
    + change (alookup 0 (em (set_discard s sid 0))) with (alookup 0 (em s)). rewrite He.
      change (alookup 0 (dm (ev_clear (set_discard s sid 0) e))) with (alookup 0 (dm s)). rewrite Hd.
      change (mem 0 (cm (ev_clear (set_discard s sid 0) e))) with (mem 0 (cm s)).
      rewrite (r_A2 _ _ I) by congruence. cbv beta iota. rewrite cfg03.
      apply (case3_body s tid t sid x e); auto.
    + unfold pop. eapply INV3_upd with (t := t); [exact I1|exact Ht| |nodep Hst].
      tok J Hst. apply Z_e; simpl; auto.
  - (* FUUndeploying *)
    destruct k as [|k'].
    + cbv beta iota zeta.
      set (s1 := match oc with Some x => add_log s (UE x) | None => s end).
      assert (I1 : INV3 (Some tid) s1 /\ nth_error (tasks s1) tid = Some t /\ dg s1 = dg s).
      { subst s1. destruct oc as [x|]; [|auto]. split; [|split; [exact Ht|reflexivity]].
        apply INV3_log with (s := s) (x := UE x); auto. intros; discriminate. }
      destruct I1 as [I1 [Ht1 Hdg1]].
      assert (Hsn : snapshot (ev_set s1 e) 0 = []).
      { apply snapshot3. unfold R_A5. assert (Hx : dg (ev_set s1 e) = dg s1)
          by (unfold ev_set; destruct (ev_isset s1 e); reflexivity).
        rewrite Hx, Hdg1. exact (r_A5 _ _ I). }
      rewrite Hsn. apply (case3_fuu_end s1 tid t oc e); auto.
    + unfold suspend, top_set.
      eapply INV3_upd with (t := set_stack t (FUUndeploying 0 oc k' e :: tl (stack t))).
      * eapply INV3_upd with (t := t); [exact I|exact Ht| |nodep Hst].
        tok J Hst. eapply Z_FUU; simpl; eauto.
      * exact (tid_upd s tid t (fun t0 => set_stack t0 (FUUndeploying 0 oc k' e :: tl (stack t0))) Ht).
      * tok J Hst. eapply Z_FUU; simpl; eauto.
      * nodep Hst.
  - (* FULoop 0 [] *)
    unfold pop. eapply INV3_upd with (t := t); [exact I|exact Ht| |nodep Hst].
    tok J Hst. apply Z_e; simpl; auto.
Qed.

(* ---------------------------------------------------------------- executions *)
Lemma iter_inv3 : forall fuel s tid, INV3 (Some tid) s -> INV3 (Some tid) (iter false deps fuel tid s).
Proof.
  induction fuel as [|f IH]; intros s tid I; simpl.
  - apply INV3_same with (s := s); auto.
  - destruct (running s tid) eqn:R; auto. apply IH. apply micro_inv3; auto.
Qed.

Lemma step_inv3 : forall s tid, INV3 None s -> INV3 None (step false deps s tid).
Proof.
  intros s tid I. unfold step.
  assert (Hbad : INV3 None (set_bad s)) by (apply INV3_same with (s := s); auto).
  destruct (nth_error (tasks s) tid) as [t|] eqn:Ht; auto.
  destruct (tw t) eqn:Etw; auto.
  assert (Hn : tw t <> WRun) by congruence.
  assert (Hdom : forall j x, nth_error (tasks s) j = Some x -> dom (Some tid) j x -> dom None j x).
  { intros j x Hj [Hd|Hd]; [left; auto|]. inversion Hd; subst. rewrite Ht in Hj. inversion Hj; subst. left; auto. }
  assert (I1 : INV3 (Some tid) s).
  { destruct I as [h1 a2 a3 a4 a5 a6 a7 l tt uu]. constructor; auto.
    - intros j x Hj Hd. apply (tt j x Hj). apply Hdom; auto.
    - intros i j ti tj Hi Hj Di Dj. apply (uu i j ti tj Hi Hj); auto. }
  assert (I2 : INV3 (Some tid) (iter false deps fuel0 tid (suspend s tid WRun))).
  { apply iter_inv3. unfold suspend. eapply INV3_upd with (t := t); [exact I1|exact Ht| |].
    - destruct (r_T _ _ I1 tid t Ht (or_introl Hn)) as [A [B [J C]]].
      split; [simpl; auto|split; [simpl; auto|split; [exact J|]]].
      destruct C as [H H0|H H0 Hr|H H0|H H0|H H0 Hr|H H0 Hr|H H0 Hr|c k H H0 D|H H0 Hr|H H0|H H0 Hr
                    |oc k e H H0 S|H H0]; try congruence;
        [apply Z_e|apply Z_FD|apply Z_Else|eapply Z_Dep|apply Z_FU|eapply Z_FUU|apply Z_FUL]; simpl; eauto.
    - intros [c [k H]]. exists c, k. exact H. }
  destruct I2 as [h1 a2 a3 a4 a5 a6 a7 l tt uu]. constructor; auto.
  - intros j x Hj [Hd|Hd]; [|discriminate]. apply (tt j x Hj). left; auto.
  - intros i j ti tj Hi Hj [Di|Di] [Dj|Dj]; try discriminate. apply (uu i j ti tj Hi Hj); left; auto.
Qed.

Lemma run_inv3 : forall sched s, INV3 None s -> INV3 None (run false deps s sched).
Proof.
  induction sched as [|t r IH]; intros s I; simpl; auto. apply IH. apply step_inv3. exact I.
Qed.

Lemma init_inv3 : INV3 None (init reqs).
Proof.
  constructor; unf; unfold R_T, R_U; simpl; try congruence; try tauto; auto.
  - intros j t Hj _. rewrite nth_error_map in Hj.
    destruct (nth_error reqs j) as [ops|] eqn:E; [|discriminate]. simpl in Hj. inversion Hj; subst.
    split; [|split; [|split]]; simpl; auto.
    + rewrite Forall_forall in Hreqs. apply Hreqs. eapply nth_error_In; eauto.
    + unfold Jc. simpl. right. split; auto. unfold opsof. symmetry. apply nth_error_nth. exact E.
    + apply Z_e; simpl; auto.
  - intros i j ti tj Hi Hj _ _ [c [k H]]. rewrite nth_error_map in Hi.
    destruct (nth_error reqs i); [|discriminate]. simpl in Hi. inversion Hi; subst. simpl in H. discriminate.
Qed.

Theorem return_after_all_executions : forall sched,
  ra_ok reqs (log (run false deps (init reqs) sched)) = true.
Proof. intros sched. exact (r_L _ _ (run_inv3 sched (init reqs) init_inv3)). Qed.

End OneEagerRA.
