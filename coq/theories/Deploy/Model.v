(* Deploy/Model.v — coroutine-level labelled transition system of StreamFlow's deployment manager.

   ANCHORS:
     streamflow.deployment.manager.DefaultDeploymentManager._deploy
     streamflow.deployment.manager.DefaultDeploymentManager._inner_deploy
     streamflow.deployment.manager.DefaultDeploymentManager.deploy
     streamflow.deployment.manager.DefaultDeploymentManager.undeploy
     streamflow.deployment.manager.DefaultDeploymentManager.undeploy_all
     streamflow.deployment.manager.DefaultDeploymentManager.get_connector
     streamflow.deployment.future.FutureConnector.get_available_locations   (same prologue as every other method)
     streamflow.deployment.future.FutureConnector.deploy
     streamflow.deployment.future.FutureConnector._safe_deploy_event_wait
     streamflow.deployment.future.FutureConnector.undeploy

   Shape.  Deployment names are indices into the configuration table [deps].  The four dictionaries of the
   manager are association lists in insertion order; asyncio.Event objects, the [set()] objects of the
   dependency graph and FutureConnector objects live in heaps (lists indexed by allocation order) because the
   code captures them by identity across awaits.  A task (one request, or one child created by undeploy_all)
   is a stack of frames = the continuations of the nested coroutine calls.  [micro] executes the code of the
   top frame up to the next point where control either moves to another frame or the task suspends; [step]
   runs one task from the point where the event loop resumes it to its next suspension (that whole stretch
   is atomic in asyncio); an execution is a list of task ids (the scheduling choices).
   Facts of asyncio that the model relies on (exercised by the correspondence, not proved):
   Event.wait() on a set event and awaiting a coroutine do not suspend; Event.set() makes every current
   waiter ready and a woken waiter does not look at the flag again; sleep(0) suspends once;
   gather() of no awaitables is already done; gather propagates the first exception and leaves the other
   children running.
   The parameter [prefix] selects the code before the fix of /repo (undeploy ends with
   events_map[name].set(), looked up by name after the await; a deploy waiter waits once and never looks at
   the event again; an undeploy waiter waits once and never looks at the maps again) or the current code
   (undeploy sets the event object it cleared; a deploy waiter loops `while not events_map[name].is_set():
   await event.wait()`; an undeploy waiter loops `while name in deployments_map and not event.is_set()`). *)
From Coq Require Import List Bool Arith.
Import ListNotations.

Inductive err := EFailed | EDef | EKey | EDep.
Inductive op := ODeploy (n : nat) | OUndeploy (n : nat) | OUse (n : nat) | OAll.
Inductive cinfo := INone | IReal (c : nat) | IFut (r : option nat).
Inductive ev :=
| DS (n c : nat)               (* connector c of deployment n: deploy() called *)
| DE (c : nat) (ok : bool)     (* deploy() returned / raised *)
| US (c : nat) | UE (c : nat)  (* undeploy() called / returned *)
| Ret (t i : nat) (r : option err) (info : cinfo).   (* op i of request t finished; info = get_connector(n) *)

Record dcfg := mkD { wrapper : bool; wraps : option nat; lazy : bool; fails : list bool; dy : nat; uy : nat }.
Inductive conn := Real (c : nat) | Fut (f : nat).
Record fut := mkF { f_name : nat; f_deploying : bool; f_event : nat; f_real : option nat }.

Inductive frame :=
| FDeployTop (n : nat)                              (* deploy(): _deploy returned *)
| FD (n : nat)                                      (* _deploy: head of the while loop *)
| FDAfterInner (n : nat)                            (* _deploy: _inner_deploy returned *)
| FDDeploying (n c k : nat) (fail : bool)           (* _deploy: inside connector.deploy, k yields left *)
| FDElse (n : nat)                                  (* _deploy: else branch, `while not event.is_set()` *)
| FDWait (n : nat)                                  (* _deploy: the wait is over *)
| FI (n : nat) (isw : bool)                         (* _inner_deploy(type, config of n): start *)
| FI2 (n i : nat)                                   (* _inner_deploy: the inner deployment i is known *)
| FIWait (n i : nat)                                (* _inner_deploy: inner known; (maybe) waited *)
| FIAfter (n i : nat)                               (* _inner_deploy: recursive call returned *)
| FU (n : nat)                                      (* undeploy: start *)
| FUWait (n : nat)                                  (* undeploy: wait() returned *)
| FUUndeploying (n : nat) (c : option nat) (k e : nat)   (* undeploy: inside connector.undeploy; e captured event *)
| FULoop (n : nat) (rest : list (nat * nat))        (* undeploy: for (name, deps) in snapshot *)
| FUA | FUAGather                                   (* undeploy_all *)
| FUse (n : nat)                                    (* get_connector(n).get_available_locations() *)
| FUseDeploying (f c k : nat) (fail : bool)         (* FutureConnector.deploy: inside connector.deploy *)
| FUseWait (f : nat).                               (* _safe_deploy_event_wait: wait() returned *)

Inductive wst := WRun | WReady | WEvent (e : nat) | WGather (pend : list nat) | WDone.
Record task := mkT { stack : list frame; todo : list op; opi : nat; cur : option op;
                     parent : option nat; tw : wst; gerr : option err;
                     ucon : option conn (* the connector object a `use` op obtained from get_connector *) }.

Record st := mkS { cm : list nat; em : list (nat * nat); dm : list (nat * conn); dg : list (nat * nat);
                   evs : list bool; sets : list (list nat); futs : list fut; nreal : nat;
                   tasks : list task; log : list ev (* newest first *); bad : bool }.

(* ---------------------------------------------------------------- small library *)
Fixpoint alookup {A} (k : nat) (l : list (nat * A)) : option A :=
  match l with [] => None | (k', v) :: l' => if k' =? k then Some v else alookup k l' end.
Fixpoint aset {A} (k : nat) (v : A) (l : list (nat * A)) : list (nat * A) :=
  match l with [] => [(k, v)] | (k', v') :: l' => if k' =? k then (k, v) :: l' else (k', v') :: aset k v l' end.
Definition adel {A} (k : nat) (l : list (nat * A)) : list (nat * A) :=
  filter (fun p => negb (fst p =? k)) l.
Definition mem (n : nat) (l : list nat) : bool := existsb (Nat.eqb n) l.
Definition ldel (n : nat) (l : list nat) : list nat := filter (fun x => negb (x =? n)) l.
Definition ladd (n : nat) (l : list nat) : list nat := if mem n l then l else l ++ [n].
Fixpoint nth_upd {A} (i : nat) (f : A -> A) (l : list A) : list A :=
  match l, i with [], _ => [] | x :: l', 0 => f x :: l' | x :: l', S i' => x :: nth_upd i' f l' end.
Definition isnil {A} (l : list A) : bool := match l with [] => true | _ => false end.

Definition set_stack t x := mkT x (todo t) (opi t) (cur t) (parent t) (tw t) (gerr t) (ucon t).
Definition set_tw t x := mkT (stack t) (todo t) (opi t) (cur t) (parent t) x (gerr t) (ucon t).
Definition set_gerr t x := mkT (stack t) (todo t) (opi t) (cur t) (parent t) (tw t) x (ucon t).
Definition set_ucon t x := mkT (stack t) (todo t) (opi t) (cur t) (parent t) (tw t) (gerr t) x.

Definition set_cm s x := mkS x (em s) (dm s) (dg s) (evs s) (sets s) (futs s) (nreal s) (tasks s) (log s) (bad s).
Definition set_em s x := mkS (cm s) x (dm s) (dg s) (evs s) (sets s) (futs s) (nreal s) (tasks s) (log s) (bad s).
Definition set_dm s x := mkS (cm s) (em s) x (dg s) (evs s) (sets s) (futs s) (nreal s) (tasks s) (log s) (bad s).
Definition set_dg s x := mkS (cm s) (em s) (dm s) x (evs s) (sets s) (futs s) (nreal s) (tasks s) (log s) (bad s).
Definition set_evs s x := mkS (cm s) (em s) (dm s) (dg s) x (sets s) (futs s) (nreal s) (tasks s) (log s) (bad s).
Definition set_sets s x := mkS (cm s) (em s) (dm s) (dg s) (evs s) x (futs s) (nreal s) (tasks s) (log s) (bad s).
Definition set_futs s x := mkS (cm s) (em s) (dm s) (dg s) (evs s) (sets s) x (nreal s) (tasks s) (log s) (bad s).
Definition set_nreal s x := mkS (cm s) (em s) (dm s) (dg s) (evs s) (sets s) (futs s) x (tasks s) (log s) (bad s).
Definition set_tasks s x := mkS (cm s) (em s) (dm s) (dg s) (evs s) (sets s) (futs s) (nreal s) x (log s) (bad s).
Definition add_log s x := mkS (cm s) (em s) (dm s) (dg s) (evs s) (sets s) (futs s) (nreal s) (tasks s) (x :: log s) (bad s).
Definition set_bad s := mkS (cm s) (em s) (dm s) (dg s) (evs s) (sets s) (futs s) (nreal s) (tasks s) (log s) true.

Definition upd_task s tid f := set_tasks s (nth_upd tid f (tasks s)).
Definition top_set s tid fr := upd_task s tid (fun t => set_stack t (fr :: tl (stack t))).
Definition pop s tid := upd_task s tid (fun t => set_stack t (tl (stack t))).
Definition push s tid fr := upd_task s tid (fun t => set_stack t (fr :: stack t)).
Definition suspend s tid w := upd_task s tid (fun t => set_tw t w).

(* ---------------------------------------------------------------- asyncio.Event *)
Definition wake (e : nat) (t : task) : task :=
  match tw t with WEvent e' => if e' =? e then set_tw t WReady else t | _ => t end.
Definition ev_isset s e := nth e (evs s) false.
Definition ev_set s e :=
  if ev_isset s e then s
  else set_tasks (set_evs s (nth_upd e (fun _ => true) (evs s))) (map (wake e) (tasks s)).
Definition ev_clear s e := set_evs s (nth_upd e (fun _ => false) (evs s)).
(* `await event.wait()` with continuation frame [k] *)
Definition wait_event s tid e k :=
  if ev_isset s e then top_set s tid k else suspend (top_set s tid k) tid (WEvent e).

(* ---------------------------------------------------------------- sets of the dependency graph *)
Definition set_add s sid n := set_sets s (nth_upd sid (ladd n) (sets s)).
Definition set_discard s sid n := set_sets s (nth_upd sid (ldel n) (sets s)).
Definition set_empty s sid := isnil (nth sid (sets s) []).

(* ---------------------------------------------------------------- observation helpers *)
Definition cinfo_of s (c : option conn) : cinfo :=
  match c with
  | None => INone
  | Some (Real c) => IReal c
  | Some (Fut f) => IFut (match nth_error (futs s) f with Some x => f_real x | None => None end)
  end.
Definition info s n : cinfo := cinfo_of s (alookup n (dm s)).
(* what the harness records when an op finishes: get_connector(n) for deploy/undeploy, the connector object
   that was used for a use op *)
Definition info_of s (t : task) o :=
  match o with ODeploy n | OUndeploy n => info s n | OUse _ => cinfo_of s (ucon t) | OAll => INone end.
Fixpoint attempts (n : nat) (l : list ev) : nat :=
  match l with [] => 0 | DS n' _ :: l' => (if n' =? n then 1 else 0) + attempts n l' | _ :: l' => attempts n l' end.

(* ---------------------------------------------------------------- task termination, gather *)
Definition notify s tid (r : option err) :=
  match nth_error (tasks s) tid with
  | Some t =>
    match parent t with
    | Some p =>
      match nth_error (tasks s) p with
      | Some pt =>
        match tw pt with
        | WGather pend =>
          match r with
          | Some e => upd_task s p (fun x => set_tw (set_gerr x (Some e)) WReady)
          | None => let pend' := ldel tid pend in
                    upd_task s p (fun x => set_tw x (if isnil pend' then WReady else WGather pend'))
          end
        | _ => s
        end
      | None => s
      end
    | None => s
    end
  | None => s
  end.

Definition finish s tid (r : option err) :=
  notify (upd_task s tid (fun t => mkT [] [] (opi t) None (parent t) WDone (gerr t) (ucon t))) tid r.

Definition raise s tid (e : err) :=
  match nth_error (tasks s) tid with
  | Some t =>
    let s1 := match cur t with Some o => add_log s (Ret tid (opi t) (Some e) (info_of s t o)) | None => s end in
    finish s1 tid (Some e)
  | None => set_bad s
  end.

Definition frames_of o :=
  match o with ODeploy n => [FD n; FDeployTop n] | OUndeploy n => [FU n] | OUse n => [FUse n] | OAll => [FUA] end.

Definition next_op s tid (t : task) :=
  let s1 := match cur t with Some o => add_log s (Ret tid (opi t) None (info_of s t o)) | None => s end in
  let i := match cur t with Some _ => S (opi t) | None => opi t end in
  match todo t with
  | [] => finish s1 tid None
  | o :: rest => upd_task s1 tid (fun x => mkT (frames_of o) rest i (Some o) (parent x) (tw x) (gerr x) None)
  end.

Section Model.
Variable prefix : bool.
Variable deps : list dcfg.

Definition cfg n := nth n deps (mkD false None false [] 0 0).
Definition will_fail s n := nth (attempts n (log s)) (fails (cfg n)) false.
Definition snapshot s n := filter (fun p => negb (fst p =? n)) (dg s).

Definition micro (tid : nat) (s : st) : st :=
  match nth_error (tasks s) tid with
  | None => set_bad s
  | Some t =>
    match stack t with
    | [] => next_op s tid t
    | fr :: _ =>
      match fr with
      | FDeployTop n =>
          match alookup n (dg s) with
          | None => raise s tid EKey
          | Some sid => pop (set_add s sid n) tid
          end
      | FD n =>
          if mem n (cm s) then top_set s tid (FDElse n)
          else
            let e := length (evs s) in
            let sid := length (sets s) in
            let s1 := set_cm s (cm s ++ [n]) in
            let s2 := set_em (set_evs s1 (evs s1 ++ [false])) (aset n e (em s1)) in
            let s3 := set_dg (set_sets s2 (sets s2 ++ [[]])) (aset n sid (dg s2)) in
            push (top_set s3 tid (FDAfterInner n)) tid (FI n (wrapper (cfg n)))
      | FDElse n =>
          match alookup n (em s) with
          | None => raise s tid EKey
          | Some e =>
            if prefix then wait_event s tid e (FDWait n)
            else if ev_isset s e then top_set s tid (FDWait n)
            else suspend s tid (WEvent e)       (* resumed at FDElse: looks the event up again *)
          end
      | FDWait n =>
          match alookup n (dm s) with
          | None => raise s tid EFailed
          | Some _ => if mem n (cm s) then pop s tid else top_set s tid (FD n)
          end
      | FDAfterInner n =>
          if lazy (cfg n) then
            let f := length (futs s) in
            let e' := length (evs s) in
            let s1 := set_futs (set_evs s (evs s ++ [false])) (futs s ++ [mkF n false e' None]) in
            let s2 := set_dm s1 (aset n (Fut f) (dm s1)) in
            match alookup n (em s2) with
            | None => raise s2 tid EKey
            | Some e => top_set (ev_set s2 e) tid (FD n)
            end
          else
            let c := nreal s in
            let fl := will_fail s n in
            let s1 := set_dm (set_nreal s (S c)) (aset n (Real c) (dm s)) in
            top_set (add_log s1 (DS n c)) tid (FDDeploying n c (dy (cfg n)) fl)
      | FDDeploying n c k fl =>
          match k with
          | S k' => suspend (top_set s tid (FDDeploying n c k' fl)) tid WReady
          | 0 =>
            if fl then
              let s1 := add_log s (DE c false) in
              match alookup n (dm s1) with
              | None => raise s1 tid EKey
              | Some _ =>
                let s2 := set_dm s1 (adel n (dm s1)) in
                match alookup n (em s2) with
                | None => raise s2 tid EKey
                | Some e => raise (ev_set s2 e) tid EDep
                end
              end
            else
              let s1 := add_log s (DE c true) in
              match alookup n (em s1) with
              | None => raise s1 tid EKey
              | Some e => pop (ev_set s1 e) tid
              end
          end
      | FI n isw =>
          if isw then
            match wraps (cfg n) with
            | None =>
                (* no `wraps`: the wrapper sits on the implicit local deployment "__LOCAL__" (index length deps,
                   whose configuration is the default: plain, eager, never failing, no suspension), deployed on
                   demand by `await self._deploy(LocalTarget().deployment)` *)
                let i := length deps in
                if mem i (cm s) then top_set s tid (FI2 n i)
                else push (top_set s tid (FI2 n i)) tid (FD i)
            | Some i => top_set s tid (FI2 n i)
            end
          else pop s tid
      | FI2 n i =>
          if mem i (cm s) then
            match alookup i (dm s) with
            | None =>
              match alookup i (em s) with
              | None => raise s tid EKey
              | Some e => wait_event s tid e (FIWait n i)
              end
            | Some _ => top_set s tid (FIWait n i)
            end
          else if i <? length deps then push (top_set s tid (FIAfter n i)) tid (FD i)
          else raise s tid EDef
      | FIWait n i =>
          match alookup i (dm s) with
          | None => raise s tid EKey
          | Some c =>
            if mem i (cm s) then
              push (top_set s tid (FIAfter n i)) tid
                   (FI i (match c with Real _ => wrapper (cfg i) | Fut _ => false end))
            else raise s tid EKey
          end
      | FIAfter n i =>
          match alookup i (dg s) with
          | None => raise s tid EKey
          | Some sid =>
            let s1 := set_add s sid n in
            match alookup i (dm s1) with
            | None => raise s1 tid EKey
            | Some _ => pop s1 tid
            end
          end
      | FU n =>
          match alookup n (dm s) with
          | None => pop s tid
          | Some _ =>
            match alookup n (em s) with
            | None => raise s tid EKey
            | Some e =>
              if prefix then wait_event s tid e (FUWait n)
              else if ev_isset s e then top_set s tid (FUWait n)
              else suspend s tid (WEvent e)     (* resumed at FU: `while name in deployments_map and not set` *)
            end
          end
      | FUWait n =>
          match alookup n (dg s) with
          | None => raise s tid EKey
          | Some sid =>
            let s1 := set_discard s sid n in
            if set_empty s1 sid then
              match alookup n (em s1) with
              | None => raise s1 tid EKey
              | Some e =>
                let s2 := ev_clear s1 e in
                match alookup n (dm s2) with
                | None => raise s2 tid EKey
                | Some c =>
                  if mem n (cm s2) then
                    let s3 := set_dg (set_cm (set_dm s2 (adel n (dm s2))) (ldel n (cm s2))) (adel n (dg s2)) in
                    let r := match c with
                             | Real x => Some x
                             | Fut f => match nth_error (futs s3) f with Some x => f_real x | None => None end
                             end in
                    match r with
                    | Some x => top_set (add_log s3 (US x)) tid (FUUndeploying n (Some x) (uy (cfg n)) e)
                    | None => top_set s3 tid (FUUndeploying n None 0 e)
                    end
                  else raise s2 tid EKey
                end
              end
            else pop s1 tid      (* still needed by a wrapper: nothing else happens *)
          end
      | FUUndeploying n oc k e =>
          match k with
          | S k' => suspend (top_set s tid (FUUndeploying n oc k' e)) tid WReady
          | 0 =>
            let s1 := match oc with Some x => add_log s (UE x) | None => s end in
            if prefix then
              match alookup n (em s1) with
              | None => raise s1 tid EKey
              | Some e' => let s2 := ev_set s1 e' in top_set s2 tid (FULoop n (snapshot s2 n))
              end
            else let s2 := ev_set s1 e in top_set s2 tid (FULoop n (snapshot s2 n))
          end
      | FULoop n rest =>
          match rest with
          | [] => pop s tid
          | (k, sid) :: rest' =>
            let s1 := set_discard s sid n in
            if set_empty s1 sid then push (top_set s1 tid (FULoop n rest')) tid (FU k)
            else top_set s1 tid (FULoop n rest')
          end
      | FUA =>
          let names := map fst (dm s) in
          match names with
          | [] => pop s tid
          | _ =>
            let base := length (tasks s) in
            let kids := map (fun n => mkT [FU n] [] 0 None (Some tid) WReady None None) names in
            let s1 := set_tasks s (tasks s ++ kids) in
            suspend (top_set s1 tid FUAGather) tid (WGather (seq base (length names)))
          end
      | FUAGather =>
          match gerr t with
          | Some e => raise s tid e
          | None => pop s tid
          end
      | FUse n =>
          let s := upd_task s tid (fun x => set_ucon x (alookup n (dm s))) in
          match alookup n (dm s) with
          | None => pop s tid
          | Some (Real _) => pop s tid
          | Some (Fut f) =>
            match nth_error (futs s) f with
            | None => set_bad s
            | Some x =>
              match f_real x with
              | Some _ => pop s tid
              | None =>
                if f_deploying x then wait_event s tid (f_event x) (FUseWait f)
                else
                  let c := nreal s in
                  let fl := will_fail s (f_name x) in
                  let s1 := set_futs (set_nreal s (S c))
                                     (nth_upd f (fun y => mkF (f_name y) true (f_event y) (f_real y)) (futs s)) in
                  top_set (add_log s1 (DS (f_name x) c)) tid (FUseDeploying f c (dy (cfg (f_name x))) fl)
              end
            end
          end
      | FUseDeploying f c k fl =>
          match k with
          | S k' => suspend (top_set s tid (FUseDeploying f c k' fl)) tid WReady
          | 0 =>
            match nth_error (futs s) f with
            | None => set_bad s
            | Some x =>
              if fl then
                let s1 := add_log s (DE c false) in
                let s2 := set_futs s1 (nth_upd f (fun y => mkF (f_name y) (f_deploying y) (f_event y) None) (futs s1)) in
                raise (ev_set s2 (f_event x)) tid EDep
              else
                let s1 := add_log s (DE c true) in
                let s2 := set_futs s1 (nth_upd f (fun y => mkF (f_name y) (f_deploying y) (f_event y) (Some c)) (futs s1)) in
                pop (ev_set s2 (f_event x)) tid
            end
          end
      | FUseWait f =>
          match nth_error (futs s) f with
          | None => set_bad s
          | Some x => match f_real x with None => raise s tid EFailed | Some _ => pop s tid end
          end
      end
    end
  end.

Definition running s tid := match nth_error (tasks s) tid with
                            | Some t => match tw t with WRun => true | _ => false end | None => false end.

Fixpoint iter (fuel : nat) (tid : nat) (s : st) : st :=
  match fuel with
  | 0 => set_bad s
  | S f => if running s tid then iter f tid (micro tid s) else s
  end.

Definition fuel0 := 2000.

(* one scheduling choice: the event loop resumes task [tid], which must be ready *)
Definition step (s : st) (tid : nat) : st :=
  match nth_error (tasks s) tid with
  | Some t => match tw t with
              | WReady => iter fuel0 tid (suspend s tid WRun)
              | _ => set_bad s
              end
  | None => set_bad s
  end.

Definition run (s : st) (sched : list nat) : st := fold_left step sched s.

End Model.

Definition new_req (ops : list op) : task := mkT [] ops 0 None None WReady None None.
Definition init (reqs : list (list op)) : st := mkS [] [] [] [] [] [] [] 0 (map new_req reqs) [] false.
Definition spawn (s : st) (ops : list op) : st := set_tasks s (tasks s ++ [new_req ops]).

Definition is_done t := match tw t with WDone => true | _ => false end.
Definition is_ready t := match tw t with WReady | WRun => true | _ => false end.
Fixpoint not_done_from (i : nat) (l : list task) : list nat :=
  match l with [] => [] | t :: l' => if is_done t then not_done_from (S i) l' else i :: not_done_from (S i) l' end.
Definition blocked s := not_done_from 0 (tasks s).
Definition quiescent s := negb (existsb is_ready (tasks s)).
