(* RPath/More.v — the command shapes with pipes, redirections and deliberately interpreted parts:
   checksum, write_text (whole line at token level), size and glob (the part of the line that carries the path). *)
From Coq Require Import Ascii Bool.
From SF Require Import Base.Str Shell.Model Shell.Proofs RPath.Model RPath.Proofs.
Import ListNotations.
Local Open Scope list_scope. Local Open Scope string_scope.

Lemma lex_lit_words2 a b acc rest :
  nonempty a = true -> all_chars safe_char a = true -> nonempty b = true -> all_chars safe_char b = true ->
  lex Norm false EmptyString acc (a ++ " " ++ b ++ " " ++ rest)
  = lex Norm false EmptyString (app acc [W a; W b]) rest.
Proof.
  intros Ha1 Ha2 Hb1 Hb2.
  rewrite lex_plain by (try assumption; reflexivity). rewrite lex_lit_blank.
  rewrite lex_plain by (try assumption; reflexivity). rewrite lex_lit_blank.
  rewrite Ha1, Hb1. cbn [orb flushed append]. rewrite <- app_assoc. reflexivity.
Qed.

(* checksum:  test -f p && sha1sum < p | awk '{print $1}' *)
Theorem checksum_tokens p :
  sh_lex (line OChecksum p) =
  Some [W "test"; W "-f"; W p; Op "&&"; W "sha1sum"; Op "<"; W p; Op "|"; W "awk"; W "{print $1}"].
Proof.
  unfold line, sh_lex. cbn [cmd_of_op join].
  change ("test" ++ " " ++ "-f" ++ " " ++ quote p ++ " " ++ "&&" ++ " " ++ "sha1sum" ++ " " ++ "<" ++ " " ++ quote p ++ " " ++ "|" ++ " "
          ++ "awk" ++ " " ++ "'{print $1}'")
    with ("test" ++ " " ++ "-f" ++ " " ++ quote p ++ " && " ++ "sha1sum" ++ " < " ++ quote p ++ " | awk '{print $1}'").
  rewrite lex_lit_words2 by reflexivity.
  rewrite lex_quote by reflexivity. rewrite lex_lit_andand. cbn [flushed app].
  rewrite lex_plain by reflexivity. rewrite lex_lit_in. cbn [orb nonempty flushed app].
  rewrite lex_quote by reflexivity. reflexivity.
Qed.

(* write_text:  tee p > /dev/null *)
Theorem write_tokens p :
  sh_lex (line OWrite p) = Some [W "tee"; W p; Op ">"; W "/dev/null"].
Proof.
  unfold line, sh_lex. cbn [cmd_of_op join].
  change ("tee" ++ " " ++ quote p ++ " " ++ ">" ++ " " ++ "/dev/null") with ("tee" ++ " " ++ quote p ++ " > " ++ "/dev/null").
  rewrite lex_plain by reflexivity. rewrite lex_lit_blank. cbn [orb nonempty flushed app].
  rewrite lex_quote by reflexivity. rewrite lex_lit_out. reflexivity.
Qed.

(* size:  find -L p -type f -exec ls -ln {} \+ | awk '…';   — up to and including the path the line is
   literal words and the verbatim path; what follows is a constant that does not depend on the path *)
Definition size_tail : string := " -type f -exec ls -ln {} \+ | awk 'BEGIN {sum=0} {sum+=$5} END {print sum}'; ".
Theorem size_prefix p :
  line OSize p = "find -L " ++ quote p ++ size_tail /\
  forall acc, lex Norm false EmptyString acc (line OSize p)
              = lex Norm true p (app acc [W "find"; W "-L"]) size_tail.
Proof.
  split; [reflexivity|]. intros acc. unfold line. cbn [cmd_of_op join].
  change ("find -L " ++ quote p ++ " -type f -exec ls -ln {} \+ | awk 'BEGIN {sum=0} {sum+=$5} END {print sum}'; ")
    with ("find" ++ " " ++ "-L" ++ " " ++ quote p ++ size_tail).
  rewrite lex_lit_words2 by reflexivity. rewrite lex_quote by reflexivity. reflexivity.
Qed.

(* glob:  set -- p/pattern ; test -e "$1" && printf '%s\0' "$@" ; :   — the directory is the verbatim
   beginning of the word whose remainder is the (deliberately interpreted) pattern *)
Definition glob_tail (pat : string) : string :=
  "/" ++ pat ++ " ; test -e ""$1"" && printf '%s\0' ""$@"" ; :".
Theorem glob_prefix p pat :
  line (OGlob pat) p = "set -- " ++ quote p ++ glob_tail pat /\
  forall acc, lex Norm false EmptyString acc (line (OGlob pat) p)
              = lex Norm true p (app acc [W "set"; W "--"]) (glob_tail pat).
Proof.
  assert (E : line (OGlob pat) p = "set -- " ++ quote p ++ glob_tail pat).
  { unfold line, glob_tail. cbn [cmd_of_op join]. rewrite !append_assoc. reflexivity. }
  split; [exact E|]. intros acc. rewrite E.
  change ("set -- " ++ quote p ++ glob_tail pat) with ("set" ++ " " ++ "--" ++ " " ++ quote p ++ glob_tail pat).
  rewrite lex_lit_words2 by reflexivity. rewrite lex_quote by reflexivity. reflexivity.
Qed.
