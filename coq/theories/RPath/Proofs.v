(* RPath/Proofs.v — every operation whose command is made of literal words and shlex.quote'd paths hands
   the path to its tool as one verbatim argument. *)
From Coq Require Import Ascii Bool Lia.
From SF Require Import Base.Str Shell.Model Shell.Proofs RPath.Model.
Import ListNotations.
Local Open Scope list_scope. Local Open Scope string_scope.

(* a command list whose elements are literal safe words or quoted strings *)
Inductive frag := Lit (s : string) | Q (s : string).
Definition render_frag (f : frag) : string := match f with Lit s => s | Q s => quote s end.
Definition frag_word (f : frag) : string := match f with Lit s => s | Q s => s end.
Definition frag_ok (f : frag) : bool :=
  match f with Lit s => nonempty s && all_chars safe_char s | Q _ => true end.

Lemma lex_frag f inw cur acc rest : frag_ok f = true -> no_redir_head rest = true ->
  lex Norm inw cur acc (render_frag f ++ rest) = lex Norm true (cur ++ frag_word f) acc rest.
Proof.
  intros Hf Hr. destruct f as [s|s]; simpl in *.
  - apply andb_true_iff in Hf. destruct Hf as [Hn Hs]. rewrite lex_plain by assumption.
    rewrite Hn, orb_true_r. reflexivity.
  - apply lex_quote. exact Hr.
Qed.

Lemma cmd_ok_frags fs : fs <> [] -> forallb frag_ok fs = true ->
  cmd_ok (join " " (map render_frag fs)) (map (fun f => W (frag_word f)) fs).
Proof.
  induction fs as [|a fs IH]; intros Hne Hall; [congruence|].
  simpl in Hall. apply andb_true_iff in Hall. destruct Hall as [Ha Hfs].
  intros acc rest Hrest. destruct fs as [|b fs].
  - simpl. rewrite lex_frag by (try assumption; apply blank_head_no_redir; exact Hrest).
    destruct Hrest as [->|[r ->]]; reflexivity.
  - change (join " " (map render_frag (a :: b :: fs)))
      with (render_frag a ++ " " ++ join " " (map render_frag (b :: fs))).
    rewrite append_assoc. rewrite lex_frag by (try assumption; reflexivity).
    rewrite append_assoc. rewrite lex_lit_blank. simpl flushed.
    rewrite (IH ltac:(discriminate) Hfs _ rest Hrest).
    rewrite <- app_assoc. reflexivity.
Qed.

Theorem frags_words fs : forallb frag_ok fs = true ->
  sh_words (join " " (map render_frag fs)) = Some (map frag_word fs).
Proof.
  intros H. destruct fs as [|a fs]; [reflexivity|].
  unfold sh_words, sh_lex. rewrite <- (append_nil_r (join " " (map render_frag (a :: fs)))).
  rewrite (cmd_ok_frags (a :: fs) ltac:(discriminate) H [] EmptyString (or_introl eq_refl)).
  rewrite lex_end. cbn [flushed app].
  rewrite <- (map_map frag_word W). apply words_of_map_W.
Qed.

(* the operations that are ONE simple command *)
Definition simple_frags (o : op) (p : string) : option (list frag) :=
  match o with
  | OTest f => Some [Lit "test"; Lit f; Q p]
  | OChmod m follow => Some (app [Lit "chmod"] (app (if follow then [] else [Lit "-h"]) [Lit m; Q p]))
  | OMkdir m pf => Some (app [Lit "mkdir"; Lit "-m"; Lit m] (app (if pf then [Lit "-p"] else []) [Q p]))
  | ORead (Some n) => Some [Lit "head"; Lit "-c"; Lit n; Q p]
  | ORead None => Some [Lit "cat"; Q p]
  | ORmtree => Some [Lit "rm"; Lit "-rf"; Q p]
  | OSymlink t => Some [Lit "ln"; Lit "-snf"; Q t; Q p]
  | OHardlink t => Some [Lit "ln"; Lit "-nf"; Q t; Q p]
  | OFind follow ty => Some (app [Lit "find"] (app (if follow then [Lit "-L"] else [])
                              [Q p; Lit "-mindepth"; Lit "1"; Lit "-maxdepth"; Lit "1"; Lit "-type"; Lit ty; Lit "-print0"]))
  | _ => None
  end.

Lemma simple_frags_render o p fs : simple_frags o p = Some fs -> cmd_of_op o p = map render_frag fs.
Proof.
  destruct o as [f| | |m follow|m pf|[n|]| |t|t| |pat|follow ty|]; simpl; intros H; inversion H; subst; try reflexivity.
  - destruct follow; reflexivity.
  - destruct pf; reflexivity.
  - destruct follow; reflexivity.
Qed.

(* the argument vector the tool receives: the path (and the link target) verbatim, for every string *)
Theorem argv_simple o p fs :
  simple_frags o p = Some fs -> forallb frag_ok fs = true ->
  sh_words (line o p) = Some (map frag_word fs).
Proof.
  intros H Hok. unfold line. rewrite (simple_frags_render o p fs H). apply frags_words. exact Hok.
Qed.

(* checksum and resolve: two simple commands joined by && (and a pipe); token level *)
Theorem resolve_tokens p :
  sh_lex (line OResolve p) = Some [W "test"; W "-e"; W p; Op "&&"; W "readlink"; W "-f"; W p].
Proof.
  unfold line, sh_lex. cbn [cmd_of_op join].
  change ("test" ++ " " ++ "-e" ++ " " ++ quote p ++ " " ++ "&&" ++ " " ++ "readlink" ++ " " ++ "-f" ++ " " ++ quote p)
    with ("test -e " ++ quote p ++ " && " ++ "readlink -f " ++ quote p).
  assert (E1 : forall rest, lex Norm false EmptyString [] ("test -e " ++ rest) = lex Norm false EmptyString [W "test"; W "-e"] rest) by reflexivity.
  rewrite E1. rewrite lex_quote by reflexivity. rewrite lex_lit_andand. cbn [flushed app].
  assert (E2 : forall acc rest, lex Norm false EmptyString acc ("readlink -f " ++ rest)
               = lex Norm false EmptyString (app acc [W "readlink"; W "-f"]) rest).
  { intros acc rest. change ("readlink -f " ++ rest) with ("readlink" ++ " " ++ "-f" ++ " " ++ rest).
    rewrite lex_plain by reflexivity. rewrite lex_lit_blank. rewrite lex_plain by reflexivity.
    rewrite lex_lit_blank. cbn [flushed orb nonempty append]. rewrite <- app_assoc. reflexivity. }
  rewrite E2. rewrite <- (append_nil_r (quote p)). rewrite lex_quote by reflexivity. reflexivity.
Qed.

(* ---------------------------------------------------------------- the forms before the fix *)
Lemma raw_path_not_verbatim :
  sh_words (raw_line ["rm"; "-rf"] "/data/my dir") = Some ["rm"; "-rf"; "/data/my"; "dir"] /\
  sh_words (raw_line ["mkdir"; "-m"; "777"; "-p"] "/data/a b") = Some ["mkdir"; "-m"; "777"; "-p"; "/data/a"; "b"] /\
  sh_lex (raw_line ["cat"] "/data/x;y") = Some [W "cat"; W "/data/x"; Op ";"; W "y"] /\
  sh_lex (raw_line ["chmod"; "755"] "/data/$HOME") = None /\
  sh_lex (dq_size_line "/data/a""b") = None /\
  sh_lex (dq_size_line "/data/`id`") = None /\
  sh_lex (dq_size_line "/data/a b") = Some [W "find"; W "-L"; W "/data/a b"; W "-type"; W "f"].
Proof. vm_compute. repeat split; reflexivity. Qed.
