(* RPath/Corr.v — correspondence cases of the C24 check. *)
From Coq Require Import List Bool.
From SF Require Import Base.Str Base.Corr.
From SF Require Export Shell.Model RPath.Model.
Import ListNotations.

Inductive ccase :=
| CCmd (o : op) (p : string) (r : string).     (* " ".join(command) that RemoteStreamFlowPath(p).<op> handed to the connector *)

Definition check_case (c : ccase) : bool :=
  match c with
  | CCmd o p r => String.eqb (line o p) r
  end.
