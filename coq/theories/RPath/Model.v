(* RPath/Model.v — the shell command RemoteStreamFlowPath builds for each path operation (after the fix of
   C24 every path goes through shlex.quote), and how the textual results are parsed back.
   Definitions only.

   ANCHORS:
     streamflow.data.remotepath.RemoteStreamFlowPath._test / exists / is_dir / is_file / is_executable / is_symlink
     .checksum .chmod .mkdir .read_text .resolve .rmtree .size .symlink_to .hardlink_to .glob .walk .write_text
   The command is the list handed to connector.run (joined with blanks by every connector). *)
From Coq Require Import Ascii Bool.
From SF Require Import Base.Str Shell.Model.
Import ListNotations.
Local Open Scope list_scope. Local Open Scope string_scope.

Inductive op :=
| OTest (flag : string)                       (* exists -e, is_dir -d, is_executable -x, is_file -f, is_symlink -L *)
| OChecksum | OResolve
| OChmod (mode : string) (follow : bool)      (* mode already rendered by f"{mode:o}" *)
| OMkdir (mode : string) (p_flag : bool)      (* p_flag = parents or exist_ok *)
| ORead (n : option string)                   (* head -c n / cat *)
| ORmtree
| OSymlink (target : string) | OHardlink (target : string)
| OSize
| OGlob (pattern : string)
| OFind (follow : bool) (ty : string)         (* one of the two find commands of walk() *)
| OWrite.                                     (* the tee command given to get_stream_writer *)

Definition cmd_of_op (o : op) (p : string) : list string :=
  let q := quote p in
  match o with
  | OTest f => ["test"; f; q]
  | OChecksum => ["test"; "-f"; q; "&&"; "sha1sum"; "<"; q; "|"; "awk"; "'{print $1}'"]
  | OResolve => ["test"; "-e"; q; "&&"; "readlink"; "-f"; q]
  | OChmod m follow => app ["chmod"] (app (if follow then [] else ["-h"]) [m; q])
  | OMkdir m pf => app ["mkdir"; "-m"; m] (app (if pf then ["-p"] else []) [q])
  | ORead (Some n) => ["head"; "-c"; n; q]
  | ORead None => ["cat"; q]
  | ORmtree => ["rm"; "-rf"; q]
  | OSymlink t => ["ln"; "-snf"; quote t; q]
  | OHardlink t => ["ln"; "-nf"; quote t; q]
  | OSize => ["find -L " ++ q ++ " -type f -exec ls -ln {} \+ | awk 'BEGIN {sum=0} {sum+=$5} END {print sum}'; "]
  | OGlob pat => ["set"; "--"; q ++ "/" ++ pat; ";"; "test"; "-e"; """$1"""; "&&"; "printf"; "'%s\0'"; """$@"""; ";"; ":"]
  | OFind follow ty => app ["find"] (app (if follow then ["-L"] else []) [q; "-mindepth"; "1"; "-maxdepth"; "1"; "-type"; ty; "-print0"])
  | OWrite => ["tee"; q; ">"; "/dev/null"]
  end.

Definition line (o : op) (p : string) : string := join " " (cmd_of_op o p).

(* the forms used before the fix, kept for the refutation witnesses *)
Definition raw_line (prefix : list string) (p : string) : string := join " " (app prefix [p]).
Definition dq_size_line (p : string) : string := "find -L """ ++ p ++ """ -type f".
