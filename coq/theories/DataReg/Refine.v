(* DataReg/Refine.v — the registry refines a history-based specification of availability, on the domain of
   registrations (on locations that do not wrap another one) and invalidations. *)
From Coq Require Import List Bool Arith Lia.
From SF Require Import Base.Str Base.Corr DataReg.Model DataReg.Proofs DataReg.Rereg DataReg.Inval.
Import ListNotations.
Local Open Scope string_scope. Local Open Scope list_scope.

(* ---- the specification: the last event that concerns (location, path) decides ---- *)
Fixpoint spec_rev (tab : list locinfo) (hr : list op) (K : lockey) (q : path) : bool :=
  match hr with
  | [] => false
  | Reg l p _ :: rest => if key_eqb (key_of tab l) K && beneath q p then true else spec_rev tab rest K q
  | Inv l x :: rest => if key_eqb (key_of tab l) K && beneath x q then false else spec_rev tab rest K q
  | Rel _ _ :: rest => spec_rev tab rest K q
  end.
(* h in chronological order *)
Definition avail_spec (tab : list locinfo) (h : list op) (K : lockey) (q : path) : bool := spec_rev tab (rev h) K q.

(* the same thing said with quantifiers: some registration on that location of the path or of a path beneath it
   is not followed by an invalidation, on that location, of the path or of one of its ancestors *)
Lemma spec_rev_iff tab hr K q :
  spec_rev tab hr K q = true <->
  exists a l p t b, hr = a ++ Reg l p t :: b /\ key_eqb (key_of tab l) K && beneath q p = true /\
                    forall l' x, In (Inv l' x) a -> key_eqb (key_of tab l') K && beneath x q = false.
Proof.
  induction hr as [|o hr IH]; simpl.
  - split; [discriminate|]. intros [a [l [p [t [b [H _]]]]]]. destruct a; discriminate.
  - destruct o as [l p t|i j|l x].
    + destruct (key_eqb (key_of tab l) K && beneath q p) eqn:C.
      * split; [|reflexivity]. intros _. exists [], l, p, t, hr. repeat split; [exact C|intros l' x []].
      * rewrite IH. split.
        -- intros [a [l0 [p0 [t0 [b [H1 [H2 H3]]]]]]]. exists (Reg l p t :: a), l0, p0, t0, b.
           repeat split; [simpl; congruence|exact H2|]. intros l' x [H|H]; [discriminate|eauto].
        -- intros [a [l0 [p0 [t0 [b [H1 [H2 H3]]]]]]]. destruct a as [|o a]; simpl in H1; inversion H1; subst.
           ++ congruence.
           ++ exists a, l0, p0, t0, b. repeat split; [exact H2|]. intros l' x H. apply H3. right. exact H.
    + rewrite IH. split.
      * intros [a [l0 [p0 [t0 [b [H1 [H2 H3]]]]]]]. exists (Rel i j :: a), l0, p0, t0, b.
        repeat split; [simpl; congruence|exact H2|]. intros l' x [H|H]; [discriminate|eauto].
      * intros [a [l0 [p0 [t0 [b [H1 [H2 H3]]]]]]]. destruct a as [|o a]; simpl in H1; inversion H1; subst.
        exists a, l0, p0, t0, b. repeat split; [exact H2|]. intros l' x H. apply H3. right. exact H.
    + destruct (key_eqb (key_of tab l) K && beneath x q) eqn:C.
      * split; [discriminate|]. intros [a [l0 [p0 [t0 [b [H1 [H2 H3]]]]]]].
        destruct a as [|o a]; simpl in H1; inversion H1; subst.
        rewrite (H3 l x) in C; [discriminate|left; reflexivity].
      * rewrite IH. split.
        -- intros [a [l0 [p0 [t0 [b [H1 [H2 H3]]]]]]]. exists (Inv l x :: a), l0, p0, t0, b.
           repeat split; [simpl; congruence|exact H2|]. intros l' x' [H|H]; [inversion H; subst; exact C|eauto].
        -- intros [a [l0 [p0 [t0 [b [H1 [H2 H3]]]]]]]. destruct a as [|o a]; simpl in H1; inversion H1; subst.
           exists a, l0, p0, t0, b. repeat split; [exact H2|]. intros l' x' H. apply H3. right. exact H.
Qed.

(* ---- small facts ---- *)
Lemma key_eqb_eq (a b : lockey) : key_eqb a b = true <-> a = b.
Proof.
  destruct a as [a1 a2], b as [b1 b2]. unfold key_eqb. simpl. rewrite andb_true_iff, !String.eqb_eq.
  split; [intros [-> ->]; reflexivity|intros H; inversion H; auto].
Qed.

Lemma beneath_prefixes q : forall p, beneath q p = true <-> In q (prefixes p).
Proof.
  unfold beneath. induction q as [|b q IH]; intros p.
  - simpl. split; [intros _|reflexivity]. destruct p; simpl; left; reflexivity.
  - destruct p as [|a p]; simpl.
    + split; [discriminate|]. intros [H|[]]. discriminate.
    + destruct (String.eqb b a) eqn:E.
      * apply String.eqb_eq in E. subst b. rewrite IH. split.
        -- intros H. right. apply in_map. exact H.
        -- intros [H|H]; [discriminate|]. apply in_map_iff in H. destruct H as [y [Hy Hin]]. inversion Hy; subst. exact Hin.
      * split; [discriminate|]. intros [H|H]; [discriminate|]. apply in_map_iff in H. destruct H as [y [Hy _]].
        inversion Hy; subst. rewrite String.eqb_refl in E. discriminate.
Qed.
Lemma prefixes_snoc p : exists l, prefixes p = l ++ [p].
Proof.
  induction p as [|a p [l IH]]; simpl; [exists []; reflexivity|].
  exists ([] :: map (cons a) l). rewrite IH, map_app. reflexivity.
Qed.
Lemma prefixes_cases q p : In q (prefixes p) -> q = p \/ In q (ancestors p).
Proof.
  unfold ancestors. destruct (prefixes_snoc p) as [l E]. rewrite E, rev_app_distr. simpl.
  intros H. apply in_app_or in H. destruct H as [H|[H|[]]]; [right; apply in_rev in H; exact H|left; auto].
Qed.

Lemma existsb_ext_in {A} (f g : A -> bool) l : (forall a, In a l -> f a = g a) -> existsb f l = existsb g l.
Proof.
  induction l as [|a l IH]; simpl; intros H; [reflexivity|]. rewrite (H a) by (left; reflexivity).
  rewrite IH; [reflexivity|]. intros b Hb. apply H. right. exact Hb.
Qed.

(* ---- availability through the list of objects a node holds for a location ---- *)
Definition refs (s : st) (q : path) (K : lockey) : list ref :=
  match find_node q (nodes s) with Some n => locs_at n K | None => [] end.
Lemma avail_refs s q K : available s q K = existsb (not_invalid s) (refs s q K).
Proof.
  apply eq_true_iff_eq. rewrite avail_iff, existsb_exists. unfold refs. split.
  - intros [n [r [Hf [Hr Hv]]]]. rewrite Hf. exists r. auto.
  - intros [r [Hr Hv]]. destruct (find_node q (nodes s)) as [n|]; [|destruct Hr]. exists n, r. auto.
Qed.
Lemma avail_frame s s' q K :
  refs s' q K = refs s q K -> (forall r, In r (refs s q K) -> hget s' r = hget s r) ->
  available s' q K = available s q K.
Proof.
  intros E H. rewrite !avail_refs, E. apply existsb_ext_in. intros r Hr. unfold not_invalid. rewrite (H r Hr). reflexivity.
Qed.

Lemma find_upd p f ns q :
  find_node q (upd_node p f ns) = if path_eqb q p then option_map f (find_node q ns) else find_node q ns.
Proof.
  induction ns as [|[k n] ns IH]; simpl; [destruct (path_eqb q p); reflexivity|].
  destruct (path_eqb p k) eqn:E; simpl.
  - apply path_eqb_eq in E. subst k. destruct (path_eqb q p); reflexivity.
  - rewrite IH. destruct (path_eqb q k) eqn:E2; [|reflexivity].
    apply path_eqb_eq in E2. subst k. destruct (path_eqb q p) eqn:E3; [|reflexivity].
    apply path_eqb_eq in E3. subst q. rewrite path_eqb_refl in E. discriminate.
Qed.
Lemma find_app_none q ns ms : find_node q ns = None -> find_node q (ns ++ ms) = find_node q ms.
Proof. induction ns as [|[k m] ns IH]; simpl; [reflexivity|]. destruct (path_eqb q k); [discriminate|exact IH]. Qed.
Lemma find_ensure q ns p n :
  find_node q (ensure_node ns p) = Some n -> find_node q ns = Some n \/ (find_node q ns = None /\ n = empty_node).
Proof.
  unfold ensure_node. destruct (find_node p ns) eqn:E; [auto|].
  destruct (find_node q ns) eqn:F.
  - rewrite (find_app _ _ _ _ F). auto.
  - rewrite (find_app_none _ _ _ F). simpl. destruct (path_eqb q p); [|discriminate]. intros H. inversion H. auto.
Qed.
Lemma refs_ensure_fold l : forall ns q K,
  match find_node q (fold_left ensure_node l ns) with Some n => locs_at n K | None => [] end =
  match find_node q ns with Some n => locs_at n K | None => [] end.
Proof.
  induction l as [|a l IH]; simpl; intros ns q K; [reflexivity|]. rewrite IH.
  destruct (find_node q (ensure_node ns a)) as [n|] eqn:E.
  - destruct (find_ensure _ _ _ _ E) as [H|[H ->]]; rewrite H; reflexivity.
  - destruct (find_node q ns) as [n|] eqn:F; [|reflexivity].
    rewrite (find_ensure_node _ _ a _ F) in E. discriminate.
Qed.
Lemma refs_with_path s p q K : refs (with_path s p) q K = refs s q K.
Proof. unfold refs, with_path, ensure_path. simpl. apply refs_ensure_fold. Qed.

Lemma dget2_dupd2_other {V} (key key' : lockey) (f : list V -> list V) d :
  key' <> key -> dget2 key' (dupd2 key f d) = dget2 key' d.
Proof.
  destruct key as [k1 k2], key' as [j1 j2]. intros Hne. unfold dget2, dupd2. simpl. rewrite dget_dupd.
  destruct (String.eqb j1 k1) eqn:E1; [|reflexivity].
  apply String.eqb_eq in E1. subst j1. rewrite dget_dupd.
  destruct (String.eqb j2 k2) eqn:E2.
  - apply String.eqb_eq in E2. subst j2. congruence.
  - destruct (dget k1 d); reflexivity.
Qed.
Lemma refs_attach s np r d q K :
  q <> np \/ K <> dl_loc d -> refs (attach s np r d) q K = refs s q K.
Proof.
  intros H. unfold refs, attach. simpl. rewrite find_upd.
  destruct (path_eqb q np) eqn:E; [|reflexivity].
  apply path_eqb_eq in E. destruct H as [H|H]; [congruence|].
  destruct (find_node q (nodes s)) as [n|]; simpl; [|reflexivity].
  unfold locs_at, attach_node. simpl. apply dget2_dupd2_other. exact H.
Qed.
Lemma refs_put_at s np r q K :
  (forall d, hget s r = Some d -> q <> np \/ K <> dl_loc d) -> refs (put_at s np r) q K = refs s q K.
Proof.
  intros H. unfold put_at. destruct (hget s r) eqn:E; [|reflexivity].
  destruct (has_valid s np (dl_loc d) (dl_path d)); [reflexivity|]. apply refs_attach. apply H. reflexivity.
Qed.
Lemma refs_put_anc1 key s a q K : q <> a \/ K <> key -> refs (put_anc1 key s a) q K = refs s q K.
Proof.
  intros H. unfold put_anc1. destruct (has_valid s a key a); [reflexivity|].
  rewrite refs_attach; [reflexivity|exact H].
Qed.
Lemma refs_put_anc key ancs q K : forall s,
  (forall a, In a ancs -> q <> a \/ K <> key) -> refs (put_anc s key ancs) q K = refs s q K.
Proof.
  unfold put_anc. induction ancs as [|a l IH]; simpl; intros s H; [reflexivity|].
  rewrite IH; [apply refs_put_anc1; apply H; left; reflexivity|]. intros b Hb. apply H. right. exact Hb.
Qed.
Lemma refs_put_rec s p r d q K :
  hget s r = Some d -> K <> dl_loc d \/ ~ In q (prefixes p) -> refs (put_rec s p r) q K = refs s q K.
Proof.
  intros Hr C. unfold put_rec. assert (Hr' : hget (with_path s p) r = Some d) by exact Hr. rewrite Hr'.
  assert (Side : forall a, In a (prefixes p) -> q <> a \/ K <> dl_loc d).
  { intros a Ha. destruct C as [C|C]; [right; exact C|left; intros ->; contradiction]. }
  rewrite refs_put_anc.
  - rewrite refs_put_at; [apply refs_with_path|]. intros d' E. rewrite Hr' in E. inversion E; subst d'.
    apply Side. apply self_in_prefixes.
  - intros a Ha. apply Side. apply in_ancestors_prefixes. exact Ha.
Qed.

Lemma reg_inner_none tab fuel s r0 li p t : inner_path tab li p = None -> reg_inner fuel tab s r0 li p t = s.
Proof. intros H. destruct fuel; simpl; [reflexivity|rewrite H; reflexivity]. Qed.

Definition nowrap (tab : list locinfo) : Prop := forall li p, inner_path tab li p = None.
Lemma nowrap_intro tab : (forall l, In l tab -> lwraps l = None) -> nowrap tab.
Proof.
  intros H li p. unfold inner_path. destruct (nth_error tab li) as [l|] eqn:E; [|reflexivity].
  apply nth_error_In in E. rewrite (H l E). destruct (llocal l); reflexivity.
Qed.

Lemma register_nowrap tab s li p t :
  nowrap tab ->
  fst (register tab s li p t) =
  put_rec (mkst (heap s ++ [mkdloc (key_of tab li) p t]) (nodes s)) p (length (heap s)).
Proof. intros NW. unfold register, alloc. simpl. apply reg_inner_none. apply NW. Qed.

Lemma hget_new s d : hget (mkst (heap s ++ [d]) (nodes s)) (length (heap s)) = Some d.
Proof. unfold hget. simpl. rewrite nth_error_app2 by lia. rewrite Nat.sub_diag. reflexivity. Qed.

(* the frame of a registration: nothing changes for another location, nor for a path that is not a prefix *)
Lemma register_frame tab s li p t q K :
  nowrap tab -> wfk s -> K <> key_of tab li \/ ~ In q (prefixes p) ->
  available (fst (register tab s li p t)) q K = available s q K.
Proof.
  intros NW W C. rewrite (register_nowrap _ _ _ _ _ NW).
  set (d := mkdloc (key_of tab li) p t). set (s1 := mkst (heap s ++ [d]) (nodes s)).
  apply avail_frame.
  - rewrite (refs_put_rec s1 p (length (heap s)) d); [reflexivity|apply hget_new|exact C].
  - intros r Hr. unfold refs in Hr. destruct (find_node q (nodes s)) as [n|] eqn:F; [|destruct Hr].
    apply find_node_In in F. destruct (W q n K r F Hr) as [x [E _]]. rewrite E.
    assert (L : le s (put_rec s1 p (length (heap s)))) by (eapply le_trans; [apply le_alloc|apply le_put_rec]).
    destruct L as [L _]. apply L. exact E.
Qed.

(* ---- every object sits only under its own path (no relations, no mount translation) ---- *)
Definition ownp (s : st) : Prop :=
  forall np n K r, In (np, n) (nodes s) -> In r (locs_at n K) -> exists d, hget s r = Some d /\ dl_path d = np.
Lemma ownp_with_path s p : ownp s -> ownp (with_path s p).
Proof.
  intros W np n key r He Hr. unfold with_path, ensure_path in He. simpl in He.
  destruct (in_fold_ensure _ _ _ _ He) as [H|H]; [exact (W np n key r H Hr)|subst n; destruct Hr].
Qed.
Lemma ownp_alloc s d : ownp s -> ownp (mkst (heap s ++ [d]) (nodes s)).
Proof.
  intros W np n key r He Hr. destruct (W np n key r He Hr) as [x [E L]]. exists x. split; [|exact L].
  destruct (le_alloc s d) as [H _]. apply H. exact E.
Qed.
Lemma in_upd_node' p f ns q m :
  In (q, m) (upd_node p f ns) -> In (q, m) ns \/ (q = p /\ exists m0, In (q, m0) ns /\ m = f m0).
Proof.
  induction ns as [|[k n] ns IH]; simpl; [auto|].
  destruct (path_eqb p k) eqn:E.
  - apply path_eqb_eq in E. subst k. intros [H|H]; [inversion H; subst; right; split; [reflexivity|exists n; auto]|auto].
  - intros [H|H]; [auto|]. destruct (IH H) as [H'|[Hq [m0 [H1 H2]]]]; [auto|right; split; [exact Hq|exists m0; auto]].
Qed.
Lemma ownp_attach s np r d : ownp s -> hget s r = Some d -> dl_path d = np -> ownp (attach s np r d).
Proof.
  intros W E P q m key x He Hx. unfold attach in He. simpl in He.
  destruct (in_upd_node' _ _ _ _ _ He) as [H|[Hq [m0 [H1 H2]]]]; [exact (W q m key x H Hx)|].
  subst m. unfold locs_at, attach_node in Hx. simpl in Hx.
  destruct (dget2_dupd2_in _ _ _ _ _ Hx) as [H|[H1' H2']]; [exact (W q m0 key x H1 H)|].
  subst x q. exists d. auto.
Qed.
Lemma ownp_put_at s np r : ownp s -> (forall d, hget s r = Some d -> dl_path d = np) -> ownp (put_at s np r).
Proof.
  intros W H. unfold put_at. destruct (hget s r) eqn:E; [|exact W].
  destruct (has_valid s np (dl_loc d) (dl_path d)); [exact W|apply ownp_attach; auto].
Qed.
Lemma ownp_put_anc1 key s a : ownp s -> ownp (put_anc1 key s a).
Proof.
  intros W. unfold put_anc1. destruct (has_valid s a key a); [exact W|].
  apply ownp_attach; [apply ownp_alloc; exact W|apply hget_new|reflexivity].
Qed.
Lemma ownp_put_rec s p r d : ownp s -> hget s r = Some d -> dl_path d = p -> ownp (put_rec s p r).
Proof.
  intros W E P. unfold put_rec. assert (E' : hget (with_path s p) r = Some d) by exact E. rewrite E'.
  unfold put_anc. assert (B : ownp (put_at (with_path s p) p r)).
  { apply ownp_put_at; [apply ownp_with_path; exact W|]. intros d' H. rewrite E' in H. inversion H; subst. reflexivity. }
  revert B. generalize (put_at (with_path s p) p r). induction (ancestors p) as [|a l IH]; simpl; intros s0 B; [exact B|].
  apply IH. apply ownp_put_anc1. exact B.
Qed.
Lemma ownp_register tab s li p t : nowrap tab -> ownp s -> ownp (fst (register tab s li p t)).
Proof.
  intros NW W. rewrite (register_nowrap _ _ _ _ _ NW).
  eapply ownp_put_rec; [apply ownp_alloc; exact W|apply hget_new|reflexivity].
Qed.
Lemma ownp_hrel key s s' : ownp s -> hrel key s s' -> ownp s'.
Proof.
  intros W [N H] np n k r He Hr. rewrite N in He. destruct (W np n k r He Hr) as [d [E L]].
  specialize (H r). rewrite E in H. destruct H as [d' [E' [_ [P' _]]]]. exists d'. split; [exact E'|congruence].
Qed.
Lemma ownp_invalidate s key p : wfk s -> ownp s -> ownp (fst (invalidate s key p)).
Proof. intros W O. eapply ownp_hrel; [exact O|apply invalidate_hrel; exact W]. Qed.

(* ---- the same-location frame of an invalidation, for copies that sit only under their own path ---- *)
Lemma mark1_other s a r : r <> a -> hget (mark1 s a) r = hget s r.
Proof.
  intros H. unfold hget, mark1. simpl. rewrite nth_set_invalid. destruct (nth_error (heap s) r); [|reflexivity].
  destruct (Nat.eqb_spec r a); [contradiction|reflexivity].
Qed.
Lemma fold_mark1_other l : forall s r, ~ In r l -> hget (fold_left mark1 l s) r = hget s r.
Proof.
  induction l as [|a l IH]; simpl; intros s r H; [reflexivity|].
  rewrite IH by tauto. apply mark1_other. intros ->. apply H. left. reflexivity.
Qed.
Lemma inval_fold_other key x l : forall s r,
  (forall e, In e l -> beneath x (fst e) = true -> ~ In r (locs_at (snd e) key)) ->
  hget (fold_left (inval_step key x) l s) r = hget s r.
Proof.
  induction l as [|e l IH]; simpl; intros s r H; [reflexivity|].
  rewrite IH by (intros e' He'; apply H; right; exact He').
  unfold inval_step, mark_node. destruct (beneath x (fst e)) eqn:B; [|reflexivity].
  apply fold_mark1_other. apply H; [left; reflexivity|exact B].
Qed.
Lemma invalidate_frame_same s key x q :
  ownp s -> beneath x q = false ->
  available (fst (invalidate s key x)) q key = available s q key.
Proof.
  intros O B. apply avail_frame.
  - unfold refs. rewrite invalidate_nodes. reflexivity.
  - intros r Hr. rewrite invalidate_unfold. destruct (find_node x (nodes s)); simpl; [|reflexivity].
    apply inval_fold_other. intros [k nn] He Bk Hin. simpl in *.
    unfold refs in Hr. destruct (find_node q (nodes s)) as [m|] eqn:F; [|destruct Hr]. apply find_node_In in F.
    destruct (O q m key r F Hr) as [d [E P]]. destruct (O k nn key r He Hin) as [d' [E' P']].
    rewrite E in E'. inversion E'; subst d'. rewrite P in P'. subst k. congruence.
Qed.
Lemma invalidate_frame_other s key x q K :
  wfk s -> K <> key -> available (fst (invalidate s key x)) q K = available s q K.
Proof.
  intros W H. unfold available. destruct (invalidate_isolation_get s key x K q None W H) as [E _]. rewrite E. reflexivity.
Qed.
Lemma invalidate_subtree_fst s key x q :
  find_node x (nodes s) <> None -> beneath x q = true -> available (fst (invalidate s key x)) q key = false.
Proof.
  intros Hn B. destruct (invalidate s key x) as [s' e] eqn:E. simpl.
  apply (invalidate_subtree s key x s' q); [|exact B].
  rewrite invalidate_unfold in E. rewrite invalidate_unfold. destruct (find_node x (nodes s)); [|contradiction].
  inversion E; subst. reflexivity.
Qed.

(* ---- the domain and the refinement theorem ---- *)
Definition d1_op (o : op) : Prop :=
  match o with Reg _ _ t => t <> INVALID | Rel _ _ => False | Inv _ _ => True end.
(* every invalidation names a path that has a node (else the code raises KeyError and changes nothing) *)
Definition inv_ok (tab : list locinfo) (h : list op) : Prop :=
  forall h1 l x h2, h = h1 ++ Inv l x :: h2 -> find_node x (nodes (rs (run tab h1))) <> None.

Lemma run_snoc tab h o : run tab (h ++ [o]) = fst (step tab (run tab h) o).
Proof. unfold run. rewrite fold_left_app. reflexivity. Qed.

Lemma ownp_reachable tab h : nowrap tab -> Forall d1_op h -> ownp (rs (run tab h)).
Proof.
  intros NW. induction h as [|o h IH] using rev_ind; intros D.
  - intros np n K r [].
  - apply Forall_app in D. destruct D as [D1 D2]. inversion D2 as [|o' l' Ho _]; subst.
    rewrite run_snoc. destruct o as [l p t|i j|l x].
    + rewrite step_reg_rs. apply ownp_register; auto.
    + destruct Ho.
    + rewrite step_inv_rs. apply ownp_invalidate; [apply wfk_reachable|auto].
Qed.

Theorem refines tab h :
  nowrap tab -> Forall d1_op h -> inv_ok tab h ->
  forall K q, available (rs (run tab h)) q K = avail_spec tab h K q.
Proof.
  intros NW. induction h as [|o h IH] using rev_ind; intros D OK K q.
  - reflexivity.
  - apply Forall_app in D. destruct D as [D1 D2]. inversion D2 as [|o' l' Ho _]; subst.
    assert (OK' : inv_ok tab h).
    { intros h1 l x h2 E. apply (OK h1 l x (h2 ++ [o])). rewrite E, <- app_assoc. reflexivity. }
    specialize (IH D1 OK' K q).
    unfold avail_spec in *. rewrite rev_app_distr. simpl. rewrite run_snoc.
    assert (W : wfk (rs (run tab h))) by apply wfk_reachable.
    destruct o as [l p t|i j|l x].
    + rewrite step_reg_rs. destruct (key_eqb (key_of tab l) K && beneath q p) eqn:C.
      * apply andb_true_iff in C. destruct C as [C1 C2]. apply key_eqb_eq in C1. subst K.
        apply register_available; [exact Ho|]. apply prefixes_cases. apply beneath_prefixes. exact C2.
      * rewrite register_frame; [exact IH|exact NW|exact W|].
        apply andb_false_iff in C. destruct C as [C|C].
        -- left. intros ->. rewrite (proj2 (key_eqb_eq _ _) eq_refl) in C. discriminate.
        -- right. intros H. apply beneath_prefixes in H. congruence.
    + destruct Ho.
    + rewrite step_inv_rs.
      assert (Hn : find_node x (nodes (rs (run tab h))) <> None) by (apply (OK h l x []); reflexivity).
      destruct (key_eqb (key_of tab l) K && beneath x q) eqn:C.
      * apply andb_true_iff in C. destruct C as [C1 C2]. apply key_eqb_eq in C1. subst K.
        apply invalidate_subtree_fst; assumption.
      * rewrite <- IH. apply andb_false_iff in C. destruct C as [C|C].
        -- apply invalidate_frame_other; [exact W|]. intros ->.
           rewrite (proj2 (key_eqb_eq _ _) eq_refl) in C. discriminate.
        -- destruct (key_eqb (key_of tab l) K) eqn:E.
           ++ apply key_eqb_eq in E. subst K. apply invalidate_frame_same; [|exact C].
              apply ownp_reachable; assumption.
           ++ apply invalidate_frame_other; [exact W|]. intros ->.
              rewrite (proj2 (key_eqb_eq _ _) eq_refl) in E. discriminate.
Qed.

(* the specification in words: some registration, on that location, of the path or of a path beneath it is not
   followed by an invalidation, on that location, of the path or of one of its ancestors *)
Lemma avail_spec_iff tab h K q :
  avail_spec tab h K q = true <->
  exists h1 l p t h2, h = h1 ++ Reg l p t :: h2 /\ key_of tab l = K /\ beneath q p = true /\
                      forall l' x, In (Inv l' x) h2 -> key_of tab l' = K -> beneath x q = false.
Proof.
  unfold avail_spec. rewrite spec_rev_iff. split.
  - intros [a [l [p [t [b [E [C H]]]]]]]. exists (rev b), l, p, t, (rev a). split.
    + rewrite <- (rev_involutive h), E, rev_app_distr. simpl. rewrite <- app_assoc. reflexivity.
    + apply andb_true_iff in C. destruct C as [C1 C2]. apply key_eqb_eq in C1. repeat split; auto.
      intros l' x Hin Hk. rewrite <- in_rev in Hin. specialize (H l' x Hin). apply andb_false_iff in H.
      destruct H as [H|H]; [|exact H]. rewrite (proj2 (key_eqb_eq _ _) Hk) in H. discriminate.
  - intros [h1 [l [p [t [h2 [E [Hk [B H]]]]]]]]. exists (rev h2), l, p, t, (rev h1). split.
    + subst h. rewrite rev_app_distr. simpl. rewrite <- app_assoc. reflexivity.
    + split; [apply andb_true_iff; split; [apply key_eqb_eq; exact Hk|exact B]|].
      intros l' x Hin. rewrite <- in_rev in Hin. destruct (key_eqb (key_of tab l') K) eqn:E2; [|reflexivity].
      simpl. apply (H l' x); [exact Hin|apply key_eqb_eq; exact E2].
Qed.

(* ---- the source chosen for a transfer is a valid copy, on the same domain ---- *)
Lemma get_raw_locs s p t r :
  In r (get_raw s p None None t) ->
  exists n K, find_node p (nodes s) = Some n /\ In r (locs_at n K).
Proof.
  unfold get_raw. destruct (find_node p (nodes s)) as [n|]; [|intros []].
  intros H. apply in_flat_map in H. destruct H as [d [_ H]].
  apply in_flat_map in H. destruct H as [nm [_ H]]. apply filter_In in H. destruct H as [H _].
  exists n, (d, nm). split; [reflexivity|]. unfold locs_at, dget2. simpl.
  destruct (dget d (nlocs n)); [exact H|]. simpl in H. destruct H.
Qed.
Theorem source_valid_plain tab h p dst r :
  nowrap tab -> Forall d1_op h ->
  let s := rs (run tab h) in
  In r (source_candidates tab s p dst) ->
  exists x, hget s r = Some x /\ dl_type x = PRIMARY /\ dl_path x = p /\ available s p (dl_loc x) = true.
Proof.
  intros NW D s H. apply DataReg.Proofs.source_candidates_sub in H.
  apply DataReg.Proofs.get_dl_sound in H. destruct H as [Hv Hr].
  destruct (DataReg.Proofs.get_raw_type _ _ _ _ _ _ Hr) as [x [Hx Ht]].
  destruct (get_raw_locs _ _ _ _ Hr) as [n [K [Hf Hin]]].
  assert (W : wfk s) by apply wfk_reachable.
  assert (O : ownp s) by (apply ownp_reachable; assumption).
  pose proof (find_node_In _ _ _ Hf) as He.
  destruct (W p n K r He Hin) as [x1 [E1 L1]]. destruct (O p n K r He Hin) as [x2 [E2 P2]].
  rewrite Hx in E1, E2. inversion E1; inversion E2; subst x1 x2.
  exists x. repeat split; try assumption. apply avail_iff. exists n, r. rewrite L1. auto.
Qed.
