(* DataReg/Proofs.v — lemmas about DataReg/Model.v *)
From Coq Require Import List Bool Arith Lia.
From SF Require Import Base.Str Base.Corr DataReg.Model.
Import ListNotations.
Local Open Scope string_scope. Local Open Scope list_scope.

Lemma dtype_eqb_eq a b : dtype_eqb a b = true <-> a = b.
Proof. destruct a, b; simpl; split; intros H; try reflexivity; discriminate. Qed.

(* ---- get_source_location returns a valid primary copy ---- *)
Lemma get_dl_sound s p d n t r :
  In r (get_dl s p d n t) -> not_invalid s r = true /\ In r (get_raw s p d n t).
Proof. unfold get_dl. intros H. apply filter_In in H. tauto. Qed.

Lemma get_raw_type s p d n t r :
  In r (get_raw s p d n (Some t)) -> exists x, hget s r = Some x /\ dl_type x = t.
Proof.
  unfold get_raw. destruct (find_node p (nodes s)); [|intros []].
  intros H. apply in_flat_map in H. destruct H as [dd [_ H]].
  apply in_flat_map in H. destruct H as [nn [_ H]].
  apply filter_In in H. destruct H as [_ H]. unfold type_ok in H.
  destruct (hget s r) as [x|]; [|discriminate]. exists x. split; [reflexivity|].
  apply dtype_eqb_eq. exact H.
Qed.

Lemma source_candidates_sub tab s p dst r :
  In r (source_candidates tab s p dst) -> In r (get_dl s p None None (Some PRIMARY)).
Proof.
  unfold source_candidates.
  set (dl := get_dl s p None None (Some PRIMARY)).
  destruct (filter (on_dep s dst) dl) eqn:E1.
  - destruct (filter (on_local tab s) dl) eqn:E2.
    + destruct dl; simpl; [intros []|]. intros [H|[]]. left. exact H.
    + intros H. assert (H' : In r (filter (on_local tab s) dl)) by (rewrite E2; exact H).
      apply filter_In in H'. tauto.
  - intros H. assert (H' : In r (filter (on_dep s dst) dl)) by (rewrite E1; exact H).
    apply filter_In in H'. tauto.
Qed.

Lemma source_valid tab s p dst r :
  In r (source_candidates tab s p dst) ->
  exists x, hget s r = Some x /\ dl_type x = PRIMARY /\ In r (get_dl s p None None None).
Proof.
  intros H. apply source_candidates_sub in H. apply get_dl_sound in H. destruct H as [Hv Hr].
  destruct (get_raw_type _ _ _ _ _ _ Hr) as [x [Hx Ht]].
  exists x. repeat split; try assumption.
  unfold get_dl. apply filter_In. split; [|exact Hv].
  revert Hr. unfold get_raw. destruct (find_node p (nodes s)); [|intros []].
  intros H. apply in_flat_map in H. destruct H as [dd [Hd H]].
  apply in_flat_map in H. destruct H as [nn [Hn H]].
  apply filter_In in H. destruct H as [H _].
  apply in_flat_map. exists dd. split; [exact Hd|].
  apply in_flat_map. exists nn. split; [exact Hn|].
  apply filter_In. split; [exact H|reflexivity].
Qed.
