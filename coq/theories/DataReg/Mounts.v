(* DataReg/Mounts.v — get_inner_path tries the mounts in reverse-sorted order of their strings, hence the most
   specific (longest) mount point that contains the path wins. *)
From Coq Require Import List Bool Arith Lia Sorted OrderedTypeEx.
From SF Require Import Base.Str Base.Corr DataReg.Model.
Import ListNotations.
Local Open Scope string_scope. Local Open Scope list_scope.

Definition slt (a b : string) : Prop := String.compare a b = Lt.
Lemma slt_lts a b : slt a b <-> String_as_OT.lt a b.
Proof. apply String_as_OT.cmp_lt. Qed.
Lemma slt_trans a b c : slt a b -> slt b c -> slt a c.
Proof. rewrite !slt_lts. apply String_as_OT.lt_trans. Qed.
Lemma slt_irrefl a : ~ slt a a.
Proof. rewrite slt_lts. intros H. apply (String_as_OT.lt_not_eq _ _ H). reflexivity. Qed.
Lemma slt_asym a b : slt a b -> ~ slt b a.
Proof. intros H1 H2. apply (slt_irrefl a). eapply slt_trans; eassumption. Qed.

Definition mkey (m : path * path) : string := render_path (fst m).
Lemma mount_lt_slt a b : mount_lt a b = true <-> slt (mkey a) (mkey b).
Proof.
  unfold mount_lt, slt, mkey. destruct (String.compare (render_path (fst a)) (render_path (fst b)));
    split; intros H; try reflexivity; discriminate.
Qed.
(* a >= b *)
Definition mge (a b : path * path) : Prop := ~ slt (mkey a) (mkey b).

Lemma in_ins_desc m l x : In x (ins_desc m l) <-> x = m \/ In x l.
Proof.
  induction l as [|y l IH]; simpl; [intuition congruence|].
  destruct (mount_lt y m); simpl; [intuition congruence|]. rewrite IH. intuition congruence.
Qed.
Lemma in_sort_mounts ms x : In x (sort_mounts ms) <-> In x ms.
Proof.
  induction ms as [|m ms IH]; simpl; [tauto|]. rewrite in_ins_desc, IH. intuition congruence.
Qed.

Lemma ins_desc_sorted m l : StronglySorted mge l -> StronglySorted mge (ins_desc m l).
Proof.
  induction l as [|x l IH]; simpl; intros S.
  - constructor; constructor.
  - inversion S as [|x' l' S' F]; subst. destruct (mount_lt x m) eqn:E.
    + apply mount_lt_slt in E. constructor; [exact S|]. constructor.
      * apply slt_asym. exact E.
      * rewrite Forall_forall in *. intros y Hy Hlt. apply (F y Hy). eapply slt_trans; eassumption.
    + constructor; [apply IH; exact S'|]. rewrite Forall_forall in *. intros y Hy.
      apply in_ins_desc in Hy. destruct Hy as [->|Hy]; [|apply F; exact Hy].
      intros Hlt. apply mount_lt_slt in Hlt. congruence.
Qed.
Lemma sort_mounts_sorted ms : StronglySorted mge (sort_mounts ms).
Proof. induction ms as [|m ms IH]; simpl; [constructor|apply ins_desc_sorted; exact IH]. Qed.

(* first_mount returns the first mount, in list order, that contains the path *)
Lemma first_mount_split l p q :
  first_mount l p = Some q ->
  exists l1 m t l2 rest, l = l1 ++ (m, t) :: l2 /\ strip_prefix m p = Some rest /\ q = t ++ rest /\
                         forall m' t', In (m', t') l1 -> strip_prefix m' p = None.
Proof.
  induction l as [|[m t] l IH]; simpl; [discriminate|].
  destruct (strip_prefix m p) as [rest|] eqn:E.
  - intros H. inversion H; subst. exists [], m, t, l, rest. repeat split; auto. intros m' t' [].
  - intros H. destruct (IH H) as [l1 [m0 [t0 [l2 [rest [E1 [E2 [E3 E4]]]]]]]].
    exists ((m, t) :: l1), m0, t0, l2, rest. repeat split; auto; [simpl; congruence|].
    intros m' t' [H'|H']; [inversion H'; subst; exact E|eauto].
Qed.

(* two mount points that both contain p are comparable: the shorter is a component-wise prefix of the longer *)
Lemma prefixes_comparable m : forall m2 p r r2,
  strip_prefix m p = Some r -> strip_prefix m2 p = Some r2 -> length m < length m2 ->
  exists c rest, m2 = m ++ c :: rest.
Proof.
  induction m as [|a m IH]; intros m2 p r r2 H1 H2 L.
  - destruct m2 as [|c rest]; [simpl in L; lia|]. exists c, rest. reflexivity.
  - destruct m2 as [|b m2]; [simpl in L; lia|]. destruct p as [|x p]; [discriminate|]. simpl in *.
    destruct (String.eqb a x) eqn:E1; [|discriminate]. destruct (String.eqb b x) eqn:E2; [|discriminate].
    apply String.eqb_eq in E1, E2. subst. destruct (IH m2 p r r2 H1 H2) as [c [rest E]]; [lia|].
    exists c, rest. rewrite E. reflexivity.
Qed.

Lemma lts_app_prefix a : forall s1 s2, String_as_OT.lt s1 s2 -> String_as_OT.lt (a ++ s1) (a ++ s2).
Proof. induction a as [|c a IH]; simpl; intros s1 s2 H; [exact H|]. apply String_as_OT.lts_tail. apply IH. exact H. Qed.
Lemma render_comps_lt m : forall c rest, String_as_OT.lt (render_comps m) (render_comps (m ++ c :: rest)).
Proof.
  induction m as [|a m IH]; intros c rest; simpl.
  - apply String_as_OT.lts_empty.
  - apply String_as_OT.lts_tail. apply lts_app_prefix. apply IH.
Qed.
(* ... and the string of a proper prefix is smaller, provided the next component is not the empty string *)
Lemma render_path_lt m c rest : c <> "" -> slt (render_path m) (render_path (m ++ c :: rest)).
Proof.
  intros Hc. apply slt_lts. destruct m as [|a m].
  - simpl. apply String_as_OT.lts_tail. destruct c as [|x c]; [congruence|]. simpl. apply String_as_OT.lts_empty.
  - change (render_path (a :: m)) with (render_comps (a :: m)).
    change (render_path ((a :: m) ++ c :: rest)) with (render_comps ((a :: m) ++ c :: rest)).
    apply render_comps_lt.
Qed.

Definition good_mounts (ms : list (path * path)) : Prop :=
  forall m t, In (m, t) ms -> Forall (fun c => c <> "") m.

(* the mount get_inner_path uses is one of the location's mounts that contains the path, and no mount that contains
   the path is longer: the most specific mount point wins, whatever the order of the mounts dictionary *)
Theorem first_mount_longest ms p q :
  good_mounts ms ->
  first_mount (sort_mounts ms) p = Some q ->
  exists m t rest, In (m, t) ms /\ strip_prefix m p = Some rest /\ q = t ++ rest /\
                   forall m2 t2, In (m2, t2) ms -> beneath m2 p = true -> length m2 <= length m.
Proof.
  intros G H. destruct (first_mount_split _ _ _ H) as [l1 [m [t [l2 [rest [E [Hs [Hq Hnone]]]]]]]].
  exists m, t, rest. repeat split; auto.
  - apply in_sort_mounts. rewrite E. apply in_or_app. right. left. reflexivity.
  - intros m2 t2 Hin B. destruct (le_lt_dec (length m2) (length m)) as [|L]; [assumption|exfalso].
    unfold beneath in B. destruct (strip_prefix m2 p) as [r2|] eqn:E2; [|discriminate].
    destruct (prefixes_comparable m m2 p rest r2 Hs E2 L) as [c [tl Em2]].
    assert (Hc : c <> "").
    { specialize (G m2 t2 Hin). rewrite Em2 in G. apply Forall_app in G. destruct G as [_ G]. inversion G; assumption. }
    assert (Lt : slt (mkey (m, t)) (mkey (m2, t2))) by (unfold mkey; simpl; rewrite Em2; apply render_path_lt; exact Hc).
    apply in_sort_mounts in Hin. rewrite E in Hin. apply in_app_or in Hin. destruct Hin as [Hin|[Hin|Hin]].
    + rewrite (Hnone m2 t2 Hin) in E2. discriminate.
    + inversion Hin as [[Hm Ht]]. rewrite <- Hm in L. lia.
    + pose proof (sort_mounts_sorted ms) as S. rewrite E in S.
      assert (S2 : StronglySorted mge ((m, t) :: l2)).
      { clear - S. induction l1 as [|x l1 IH]; simpl in S; [exact S|]. inversion S; auto. }
      inversion S2 as [|x l S' F]; subst. rewrite Forall_forall in F. apply (F _ Hin). exact Lt.
Qed.

Theorem inner_path_most_specific tab li l w p q :
  nth_error tab li = Some l -> good_mounts (lmounts l) ->
  inner_path tab li p = Some (w, q) ->
  lwraps l = Some w /\ llocal l = false /\
  exists m t rest, In (m, t) (lmounts l) /\ strip_prefix m p = Some rest /\ q = t ++ rest /\
                   forall m2 t2, In (m2, t2) (lmounts l) -> beneath m2 p = true -> length m2 <= length m.
Proof.
  intros Hn G. unfold inner_path. rewrite Hn. destruct (llocal l); [discriminate|].
  destruct (lwraps l) as [w'|]; [|discriminate].
  destruct (first_mount (sort_mounts (lmounts l)) p) as [q'|] eqn:F; [|discriminate].
  intros H. inversion H; subst. repeat split. apply first_mount_longest; assumption.
Qed.
