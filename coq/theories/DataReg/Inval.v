(* DataReg/Inval.v — invalidation: everything at or beneath the path becomes unavailable on that location
   (in every state), nothing changes for other locations (in every reachable state). *)
From Coq Require Import List Bool Arith Lia.
From SF Require Import Base.Str Base.Corr DataReg.Model DataReg.Rereg.
Import ListNotations.
Local Open Scope string_scope. Local Open Scope list_scope.

(* ---- the heap under set_invalid ---- *)
Lemma nth_set_invalid r h r' :
  nth_error (set_invalid r h) r' =
  match nth_error h r' with
  | Some d => Some (if Nat.eqb r' r then mkdloc (dl_loc d) (dl_path d) INVALID else d)
  | None => None
  end.
Proof.
  revert r r'. induction h as [|d h IH]; intros r r'.
  - destruct r, r'; reflexivity.
  - destruct r as [|r]; destruct r' as [|r']; simpl; try reflexivity.
    + destruct (nth_error h r'); reflexivity.
    + apply IH.
Qed.

Definition dead (s : st) (r : ref) : Prop := not_invalid s r = false.

Lemma mark1_nodes s a : nodes (mark1 s a) = nodes s.
Proof. reflexivity. Qed.
Lemma mark1_dead_self s a : dead (mark1 s a) a.
Proof.
  unfold dead, not_invalid, hget, mark1. simpl. rewrite nth_set_invalid.
  destruct (nth_error (heap s) a); [rewrite Nat.eqb_refl; reflexivity|reflexivity].
Qed.
Lemma mark1_dead_mono s a r : dead s r -> dead (mark1 s a) r.
Proof.
  unfold dead, not_invalid, hget, mark1. simpl. rewrite nth_set_invalid.
  destruct (nth_error (heap s) r); [|auto]. destruct (Nat.eqb r a); [reflexivity|auto].
Qed.
Lemma fold_mark1_nodes l : forall s, nodes (fold_left mark1 l s) = nodes s.
Proof. induction l as [|a l IH]; simpl; intros s; [reflexivity|]. rewrite IH. reflexivity. Qed.
Lemma fold_mark1_dead_mono l : forall s r, dead s r -> dead (fold_left mark1 l s) r.
Proof. induction l as [|a l IH]; simpl; intros s r H; [exact H|]. apply IH. apply mark1_dead_mono. exact H. Qed.
Lemma fold_mark1_dead l : forall s r, In r l -> dead (fold_left mark1 l s) r.
Proof.
  induction l as [|a l IH]; simpl; intros s r []; [subst a|].
  - apply fold_mark1_dead_mono. apply mark1_dead_self.
  - apply IH. assumption.
Qed.

Definition inval_step (key : lockey) (p : path) (s' : st) (e : path * node) : st :=
  if beneath p (fst e) then mark_node key s' (snd e) else s'.
Lemma inval_step_nodes key p s e : nodes (inval_step key p s e) = nodes s.
Proof. unfold inval_step, mark_node. destruct (beneath p (fst e)); [apply fold_mark1_nodes|reflexivity]. Qed.
Lemma inval_step_mono key p s e r : dead s r -> dead (inval_step key p s e) r.
Proof. unfold inval_step, mark_node. destruct (beneath p (fst e)); [apply fold_mark1_dead_mono|auto]. Qed.
Lemma inval_fold_nodes key p l : forall s, nodes (fold_left (inval_step key p) l s) = nodes s.
Proof. induction l as [|a l IH]; simpl; intros s; [reflexivity|]. rewrite IH. apply inval_step_nodes. Qed.
Lemma inval_fold_mono key p l : forall s r, dead s r -> dead (fold_left (inval_step key p) l s) r.
Proof. induction l as [|a l IH]; simpl; intros s r H; [exact H|]. apply IH. apply inval_step_mono. exact H. Qed.
Lemma inval_fold_dead key p l : forall s e r,
  In e l -> beneath p (fst e) = true -> In r (locs_at (snd e) key) ->
  dead (fold_left (inval_step key p) l s) r.
Proof.
  induction l as [|a l IH]; simpl; intros s e r [] Hb Hr; [subst a|].
  - apply inval_fold_mono. unfold inval_step, mark_node. rewrite Hb. apply fold_mark1_dead. exact Hr.
  - eapply IH; eassumption.
Qed.

Lemma invalidate_unfold s key p :
  invalidate s key p =
  match find_node p (nodes s) with
  | None => (s, IKeyError)
  | Some _ => (fold_left (inval_step key p) (nodes s) s, IOk)
  end.
Proof. reflexivity. Qed.

Lemma find_node_In p ns n : find_node p ns = Some n -> In (p, n) ns.
Proof.
  induction ns as [|[q m] ns IH]; simpl; [discriminate|].
  destruct (path_eqb p q) eqn:E.
  - intros H. inversion H; subst. apply path_eqb_eq in E. subst. left. reflexivity.
  - intros H. right. apply IH. exact H.
Qed.

Lemma avail_iff s p key :
  available s p key = true <->
  exists n r, find_node p (nodes s) = Some n /\ In r (locs_at n key) /\ not_invalid s r = true.
Proof.
  unfold available, get_dl, get_raw. destruct (find_node p (nodes s)) as [n|].
  - simpl. rewrite !app_nil_r.
    assert (E : (match dget (snd key) match dget (fst key) (nlocs n) with Some x => x | None => [] end with
                 | Some l => l | None => [] end) = locs_at n key).
    { unfold locs_at, dget2. destruct (dget (fst key) (nlocs n)); reflexivity. }
    rewrite E. split.
    + intros H. destruct (filter (not_invalid s) (filter (type_ok s None) (locs_at n key))) as [|r l] eqn:F;
        [discriminate|].
      assert (Hin : In r (r :: l)) by (left; reflexivity). rewrite <- F in Hin.
      apply filter_In in Hin. destruct Hin as [Hin Hv]. apply filter_In in Hin. destruct Hin as [Hin _].
      exists n, r. auto.
    + intros [n' [r [Hn [Hr Hv]]]]. inversion Hn; subst n'.
      assert (Hin : In r (filter (not_invalid s) (filter (type_ok s None) (locs_at n key)))).
      { apply filter_In. split; [apply filter_In; split; [exact Hr|reflexivity]|exact Hv]. }
      destruct (filter (not_invalid s) _); [destruct Hin|reflexivity].
  - split; [discriminate|]. intros [n [r [H _]]]. discriminate.
Qed.

(* "Invalidating a path on a location also invalidates everything registered beneath it on that location":
   in EVERY state, after a successful invalidate_location(l, p) no path at or beneath p is available on l *)
Theorem invalidate_subtree s key p s' q :
  invalidate s key p = (s', IOk) -> beneath p q = true -> available s' q key = false.
Proof.
  rewrite invalidate_unfold. destruct (find_node p (nodes s)); [|discriminate].
  intros H Hb. inversion H; subst s'; clear H.
  destruct (available _ q key) eqn:A; [|reflexivity]. exfalso.
  apply avail_iff in A. destruct A as [m [r [Hf [Hr Hv]]]].
  rewrite inval_fold_nodes in Hf. apply find_node_In in Hf.
  assert (D := inval_fold_dead key p (nodes s) s (q, m) r Hf Hb Hr). unfold dead in D. congruence.
Qed.

(* and whatever was unavailable stays unavailable *)
Lemma invalidate_nodes s key p : nodes (fst (invalidate s key p)) = nodes s.
Proof. rewrite invalidate_unfold. destruct (find_node p (nodes s)); simpl; [apply inval_fold_nodes|reflexivity]. Qed.
Lemma invalidate_mono s key p r : dead s r -> dead (fst (invalidate s key p)) r.
Proof. rewrite invalidate_unfold. destruct (find_node p (nodes s)); simpl; [apply inval_fold_mono|auto]. Qed.

(* ---- isolation ---- *)
(* objects filed under locations[d][n] are objects of location (d, n) *)
Definition wfk (s : st) : Prop :=
  forall np n key r, In (np, n) (nodes s) -> In r (locs_at n key) -> exists d, hget s r = Some d /\ dl_loc d = key.

(* s' differs from s only by objects of [key] having become INVALID *)
Definition hrel (key : lockey) (s s' : st) : Prop :=
  nodes s' = nodes s /\
  forall r, match hget s r with
            | None => hget s' r = None
            | Some d => exists d', hget s' r = Some d' /\ dl_loc d' = dl_loc d /\ dl_path d' = dl_path d /\
                                   (dl_loc d <> key -> d' = d)
            end.
Lemma hrel_refl key s : hrel key s s.
Proof. split; [reflexivity|]. intros r. destruct (hget s r) as [d|]; [exists d; auto|reflexivity]. Qed.
Lemma hrel_trans key a b c : hrel key a b -> hrel key b c -> hrel key a c.
Proof.
  intros [N1 H1] [N2 H2]. split; [congruence|]. intros r. specialize (H1 r). specialize (H2 r).
  destruct (hget a r) as [d|].
  - destruct H1 as [d' [E1 [L1 [P1 S1]]]]. rewrite E1 in H2. destruct H2 as [d'' [E2 [L2 [P2 S2]]]].
    exists d''. repeat split; try congruence. intros Hne. rewrite S2; [apply S1; exact Hne|congruence].
  - rewrite H1 in H2. exact H2.
Qed.
Lemma mark1_hrel key s a : (forall d, hget s a = Some d -> dl_loc d = key) -> hrel key s (mark1 s a).
Proof.
  intros Hk. split; [reflexivity|]. intros r. unfold hget, mark1 in *. simpl. rewrite nth_set_invalid.
  destruct (nth_error (heap s) r) as [d|] eqn:E; [|reflexivity].
  destruct (Nat.eqb_spec r a) as [->|Hne].
  - eexists. split; [reflexivity|]. simpl. repeat split. intros Hd. exfalso. apply Hd. apply Hk. exact E.
  - exists d. auto.
Qed.
Lemma hrel_loc_back key s s' r d' :
  hrel key s s' -> hget s' r = Some d' -> exists d, hget s r = Some d /\ dl_loc d = dl_loc d'.
Proof.
  intros [_ H] E. specialize (H r). destruct (hget s r) as [d|]; [|congruence].
  destruct H as [d2 [E2 [L _]]]. exists d. split; [reflexivity|congruence].
Qed.
Lemma fold_mark1_hrel key l : forall s,
  (forall r, In r l -> forall d, hget s r = Some d -> dl_loc d = key) -> hrel key s (fold_left mark1 l s).
Proof.
  induction l as [|a l IH]; simpl; intros s H; [apply hrel_refl|].
  assert (R : hrel key s (mark1 s a)) by (apply mark1_hrel; apply H; left; reflexivity).
  eapply hrel_trans; [exact R|]. apply IH. intros r Hr d E.
  destruct (hrel_loc_back _ _ _ _ _ R E) as [d0 [E0 L0]]. rewrite <- L0. eapply H; [right; exact Hr|exact E0].
Qed.
Definition keyed (key : lockey) (l : list (path * node)) (s : st) : Prop :=
  forall e r, In e l -> In r (locs_at (snd e) key) -> forall d, hget s r = Some d -> dl_loc d = key.
Lemma keyed_hrel key l s s' : hrel key s s' -> keyed key l s -> keyed key l s'.
Proof.
  intros R K e r He Hr d E. destruct (hrel_loc_back _ _ _ _ _ R E) as [d0 [E0 L0]]. rewrite <- L0.
  eapply K; eassumption.
Qed.
Lemma inval_step_hrel key p s e : keyed key [e] s -> hrel key s (inval_step key p s e).
Proof.
  intros K. unfold inval_step, mark_node. destruct (beneath p (fst e)); [|apply hrel_refl].
  apply fold_mark1_hrel. intros r Hr d E. eapply K; [left; reflexivity|exact Hr|exact E].
Qed.
Lemma inval_fold_hrel key p l : forall s, keyed key l s -> hrel key s (fold_left (inval_step key p) l s).
Proof.
  induction l as [|a l IH]; simpl; intros s K; [apply hrel_refl|].
  assert (R : hrel key s (inval_step key p s a)).
  { apply inval_step_hrel. intros e r [He|[]] Hr. subst e. apply (K a r); [left; reflexivity|exact Hr]. }
  eapply hrel_trans; [exact R|]. apply IH. eapply keyed_hrel; [exact R|].
  intros e r He. apply K. right. exact He.
Qed.
Lemma wfk_keyed s key : wfk s -> keyed key (nodes s) s.
Proof.
  intros W [np n] r He Hr d E. simpl in Hr. destruct (W np n key r He Hr) as [d0 [E0 L0]]. congruence.
Qed.
Lemma invalidate_hrel s key p : wfk s -> hrel key s (fst (invalidate s key p)).
Proof.
  intros W. rewrite invalidate_unfold. destruct (find_node p (nodes s)); simpl; [|apply hrel_refl].
  apply inval_fold_hrel. apply wfk_keyed. exact W.
Qed.
Lemma wfk_hrel key s s' : wfk s -> hrel key s s' -> wfk s'.
Proof.
  intros W [N H] np n k r He Hr. rewrite N in He. destruct (W np n k r He Hr) as [d [E L]].
  specialize (H r). rewrite E in H. destruct H as [d' [E' [L' _]]]. exists d'. split; [exact E'|congruence].
Qed.

(* invalidate_location on a location never changes an object of another location, nor the tree *)
Theorem invalidate_isolation s key p :
  wfk s ->
  nodes (fst (invalidate s key p)) = nodes s /\
  forall r d, hget s r = Some d -> dl_loc d <> key -> hget (fst (invalidate s key p)) r = Some d.
Proof.
  intros W. destruct (invalidate_hrel s key p W) as [N H]. split; [exact N|].
  intros r d E Hne. specialize (H r). rewrite E in H. destruct H as [d' [E' [_ [_ S]]]]. rewrite E'. f_equal. auto.
Qed.

Lemma key_neq_cases (a b : lockey) : a <> b -> forall d, dl_loc d = a -> dl_loc d <> b.
Proof. congruence. Qed.

(* ... so every get_data_locations answer restricted to another location is the same list of the same objects *)
Theorem invalidate_isolation_get s key p key' q t :
  wfk s -> key' <> key ->
  let s' := fst (invalidate s key p) in
  get_dl s' q (Some (fst key')) (Some (snd key')) t = get_dl s q (Some (fst key')) (Some (snd key')) t /\
  forall r, In r (get_dl s q (Some (fst key')) (Some (snd key')) t) -> hget s' r = hget s r.
Proof.
  intros W Hne s'. destruct (invalidate_isolation s key p W) as [N H]. fold s' in N, H.
  assert (Same : forall n r, find_node q (nodes s) = Some n -> In r (locs_at n key') -> hget s' r = hget s r).
  { intros n r Hf Hr. apply find_node_In in Hf. destruct (W q n key' r Hf Hr) as [d [E L]].
    rewrite E. apply H; [exact E|congruence]. }
  unfold get_dl, get_raw. rewrite N. destruct (find_node q (nodes s)) as [n|] eqn:F; [|split; [reflexivity|intros r []]].
  simpl. rewrite !app_nil_r.
  assert (E : (match dget (snd key') match dget (fst key') (nlocs n) with Some x => x | None => [] end with
               | Some l => l | None => [] end) = locs_at n key').
  { unfold locs_at, dget2. destruct (dget (fst key') (nlocs n)); reflexivity. }
  rewrite E.
  assert (F1 : filter (type_ok s' t) (locs_at n key') = filter (type_ok s t) (locs_at n key')).
  { apply filter_ext_in. intros r Hr. unfold type_ok. rewrite (Same n r eq_refl Hr). reflexivity. }
  rewrite F1. split.
  - apply filter_ext_in. intros r Hr. apply filter_In in Hr. destruct Hr as [Hr _].
    unfold not_invalid. rewrite (Same n r eq_refl Hr). reflexivity.
  - intros r Hr. apply filter_In in Hr. destruct Hr as [Hr _]. apply filter_In in Hr. destruct Hr as [Hr _].
    apply (Same n r eq_refl Hr).
Qed.

(* ---- wfk holds in every reachable state ---- *)
Lemma dget2_dupd2_in (key key' : lockey) (r x : ref) d :
  In x (dget2 key' (dupd2 key (fun l => l ++ [r]) d)) -> In x (dget2 key' d) \/ (x = r /\ key' = key).
Proof.
  destruct key as [k1 k2], key' as [j1 j2]. unfold dget2, dupd2. simpl. rewrite dget_dupd.
  destruct (String.eqb j1 k1) eqn:E1; [|auto].
  apply String.eqb_eq in E1. subst j1. rewrite dget_dupd.
  destruct (String.eqb j2 k2) eqn:E2.
  - apply String.eqb_eq in E2. subst j2. intros H. apply in_app_or in H. destruct H as [H|[H|[]]].
    + left. destruct (dget k1 d); [exact H|destruct H].
    + right. split; [symmetry; exact H|reflexivity].
  - intros H. left. destruct (dget k1 d); [exact H|destruct H].
Qed.
Lemma in_upd_node p f ns q m :
  In (q, m) (upd_node p f ns) -> In (q, m) ns \/ exists m0, In (q, m0) ns /\ m = f m0.
Proof.
  induction ns as [|[k n] ns IH]; simpl; [auto|].
  destruct (path_eqb p k).
  - intros [H|H]; [inversion H; subst; right; exists n; auto|auto].
  - intros [H|H]; [auto|]. destruct (IH H) as [H'|[m0 [H1 H2]]]; [auto|right; exists m0; auto].
Qed.
Lemma in_ensure_node ns p q m : In (q, m) (ensure_node ns p) -> In (q, m) ns \/ m = empty_node.
Proof.
  unfold ensure_node. destruct (find_node p ns); [auto|]. intros H. apply in_app_or in H.
  destruct H as [H|[H|[]]]; [auto|inversion H; auto].
Qed.
Lemma in_fold_ensure l : forall ns q m, In (q, m) (fold_left ensure_node l ns) -> In (q, m) ns \/ m = empty_node.
Proof.
  induction l as [|a l IH]; simpl; intros ns q m H; [auto|].
  destruct (IH _ _ _ H) as [H'|H']; [apply in_ensure_node in H'; exact H'|auto].
Qed.

Lemma wfk_with_path s p : wfk s -> wfk (with_path s p).
Proof.
  intros W np n key r He Hr. unfold with_path, ensure_path in He. simpl in He.
  destruct (in_fold_ensure _ _ _ _ He) as [H|H]; [exact (W np n key r H Hr)|subst n; destruct Hr].
Qed.
Lemma wfk_alloc s d : wfk s -> wfk (mkst (heap s ++ [d]) (nodes s)).
Proof.
  intros W np n key r He Hr. destruct (W np n key r He Hr) as [x [E L]]. exists x. split; [|exact L].
  destruct (le_alloc s d) as [H _]. apply H. exact E.
Qed.
Lemma wfk_attach s np r d : wfk s -> hget s r = Some d -> wfk (attach s np r d).
Proof.
  intros W E q m key x He Hx. unfold attach in He. simpl in He.
  destruct (in_upd_node _ _ _ _ _ He) as [H|[m0 [H1 H2]]]; [exact (W q m key x H Hx)|].
  subst m. unfold locs_at, attach_node in Hx. simpl in Hx.
  destruct (dget2_dupd2_in _ _ _ _ _ Hx) as [H|[H1' H2']]; [exact (W q m0 key x H1 H)|].
  subst. exists d. auto.
Qed.
Lemma wfk_put_at s np r : wfk s -> wfk (put_at s np r).
Proof.
  intros W. unfold put_at. destruct (hget s r) eqn:E; [|exact W].
  destruct (has_valid s np (dl_loc d) (dl_path d)); [exact W|apply wfk_attach; assumption].
Qed.
Lemma wfk_put_nonrec s p r : wfk s -> wfk (put_nonrec s p r).
Proof. intros W. unfold put_nonrec. apply wfk_put_at. apply wfk_with_path. exact W. Qed.
Lemma wfk_put_anc1 key s a : wfk s -> wfk (put_anc1 key s a).
Proof.
  intros W. unfold put_anc1. destruct (has_valid s a key a); [exact W|].
  apply wfk_attach; [apply wfk_alloc; exact W|].
  unfold hget. simpl. rewrite nth_error_app2 by lia. rewrite Nat.sub_diag. reflexivity.
Qed.
Lemma wfk_fold {A} (f : st -> A -> st) (l : list A) :
  (forall s a, wfk s -> wfk (f s a)) -> forall s, wfk s -> wfk (fold_left f l s).
Proof. intros Hf. induction l as [|a l IH]; simpl; intros s W; [exact W|]. apply IH. apply Hf. exact W. Qed.
Lemma wfk_put_rec s p r : wfk s -> wfk (put_rec s p r).
Proof.
  intros W. unfold put_rec. destruct (hget (with_path s p) r); [|apply wfk_with_path; exact W].
  unfold put_anc. apply wfk_fold; [intros; apply wfk_put_anc1; assumption|].
  apply wfk_put_at. apply wfk_with_path. exact W.
Qed.
Lemma wfk_relate s r1 r2 : wfk s -> wfk (relate s r1 r2).
Proof.
  intros W. unfold relate. destruct (hget s r1); [|exact W]. destruct (hget s r2); [|exact W].
  apply wfk_fold; [|exact W]. intros s' r W'. destruct (hget s' r); [|exact W'].
  apply wfk_put_nonrec. apply wfk_put_nonrec. exact W'.
Qed.
Lemma wfk_reg_inner tab fuel : forall s r0 li p t, wfk s -> wfk (reg_inner fuel tab s r0 li p t).
Proof.
  induction fuel as [|f IH]; simpl; intros s r0 li p t W; [exact W|].
  destruct (inner_path tab li p) as [[w q]|]; [|exact W].
  unfold alloc. apply IH. apply wfk_relate. apply wfk_put_rec. apply wfk_alloc. exact W.
Qed.
Lemma wfk_register tab s li p t : wfk s -> wfk (fst (register tab s li p t)).
Proof.
  intros W. unfold register, alloc. simpl. apply wfk_reg_inner. apply wfk_put_rec. apply wfk_alloc. exact W.
Qed.
Lemma wfk_invalidate s key p : wfk s -> wfk (fst (invalidate s key p)).
Proof. intros W. eapply wfk_hrel; [exact W|apply invalidate_hrel; exact W]. Qed.
Lemma wfk_init : wfk init.
Proof. intros np n key r []. Qed.
Lemma step_reg_rs tab x l p t : rs (fst (step tab x (Reg l p t))) = fst (register tab (rs x) l p t).
Proof. unfold step. destruct (register tab (rs x) l p t). reflexivity. Qed.
Lemma step_inv_rs tab x l p : rs (fst (step tab x (Inv l p))) = fst (invalidate (rs x) (key_of tab l) p).
Proof. unfold step. destruct (invalidate (rs x) (key_of tab l) p). reflexivity. Qed.
Lemma wfk_step tab x o : wfk (rs x) -> wfk (rs (fst (step tab x o))).
Proof.
  intros W. destruct o as [l p t|i j|l p].
  - rewrite step_reg_rs. apply wfk_register. exact W.
  - simpl. destruct (nth_error (rets x) i); [|exact W]. destruct (nth_error (rets x) j); [|exact W].
    simpl. apply wfk_relate. exact W.
  - rewrite step_inv_rs. apply wfk_invalidate. exact W.
Qed.
Lemma wfk_run_from tab ops : forall x, wfk (rs x) -> wfk (rs (fold_left (fun x o => fst (step tab x o)) ops x)).
Proof. induction ops as [|o ops IH]; simpl; intros x W; [exact W|]. apply IH. apply wfk_step. exact W. Qed.
Theorem wfk_reachable tab ops : wfk (rs (run tab ops)).
Proof. unfold run. apply wfk_run_from. apply wfk_init. Qed.
