(* DataReg/Corr.v — correspondence cases for DataReg/Model.v (used by the C21 check).
   A case is a location table, a universe of paths and an operation history in which every operation
   carries what the real DefaultDataManager answered.  A snapshot is get_data_locations(path) for every path
   of the universe (only non-empty answers are listed). Answers are compared as multisets of
   (deployment, name, path, data_type): object identities and list order are not observables. *)
From Coq Require Import List Bool Arith.
From SF Require Import Base.Str Base.Corr.
From SF Require Export DataReg.Model.
Import ListNotations.
Local Open Scope string_scope. Local Open Scope list_scope.

Definition item_eqb (a b : item) : bool :=
  match a, b with
  | (ka, pa, ta), (kb, pb, tb) => key_eqb ka kb && path_eqb pa pb && dtype_eqb ta tb
  end.
Fixpoint remove1 (x : item) (l : list item) : option (list item) :=
  match l with
  | [] => None
  | y :: l' => if item_eqb x y then Some l'
               else match remove1 x l' with Some r => Some (y :: r) | None => None end
  end.
Fixpoint ms_eqb (a b : list item) : bool :=
  match a with
  | [] => match b with [] => true | _ => false end
  | x :: a' => match remove1 x b with Some b' => ms_eqb a' b' | None => false end
  end.
Fixpoint items_of (s : st) (rs : list ref) : list item :=
  match rs with
  | [] => []
  | r :: rs' => match item_of s r with Some i => i :: items_of s rs' | None => items_of s rs' end
  end.

Inductive cop :=
| CReg (l : nat) (p : path) (t : dtype)
| CRel (i j : nat)
| CInv (l : nat) (p : path) (ok : bool)                                   (* false = KeyError *)
| CGet (p : path) (d n : option string) (t : option dtype) (r : list item)
| CSnap (r : list (path * list item))
| CSrc (p : path) (dst : string) (r : option item).
Inductive ccase := CCase (tab : list locinfo) (universe : list path) (ops : list cop).

Fixpoint snap_lookup (p : path) (r : list (path * list item)) : list item :=
  match r with
  | [] => []
  | (q, l) :: r' => if path_eqb p q then l else snap_lookup p r'
  end.

Definition check_op (tab : list locinfo) (uni : list path) (x : rst) (c : cop) : rst * bool :=
  match c with
  | CReg l p t => (fst (step tab x (Reg l p t)), true)
  | CRel i j => (fst (step tab x (Rel i j)), true)
  | CInv l p ok =>
      let (x', e) := step tab x (Inv l p) in
      (x', match e, ok with IOk, true => true | IKeyError, false => true | _, _ => false end)
  | CGet p d n t r => (x, ms_eqb (items_of (rs x) (get_dl (rs x) p d n t)) r)
  | CSnap r =>
      (x, forallb (fun p => ms_eqb (items_of (rs x) (get_dl (rs x) p None None None)) (snap_lookup p r)) uni
          && forallb (fun e => existsb (path_eqb (fst e)) uni) r)
  | CSrc p dst r =>
      (x, match r, items_of (rs x) (source_candidates tab (rs x) p dst) with
          | None, [] => true
          | Some i, cands => existsb (item_eqb i) cands
          | None, _ :: _ => false
          end)
  end.

Definition check_case (c : ccase) : bool :=
  match c with
  | CCase tab uni ops =>
      snd (fold_left (fun (acc : rst * bool) o =>
                        let (x', ok) := check_op tab uni (fst acc) o in (x', snd acc && ok))
                     ops (rinit, true))
  end.
