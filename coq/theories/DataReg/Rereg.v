(* DataReg/Rereg.v — registering a path makes it and all its ancestors available, in every state. *)
From Coq Require Import List Bool Arith Lia.
From SF Require Import Base.Str Base.Corr DataReg.Model.
Import ListNotations.
Local Open Scope string_scope. Local Open Scope list_scope.

Lemma path_eqb_eq (a b : path) : path_eqb a b = true <-> a = b.
Proof.
  unfold path_eqb. revert b. induction a as [|x a IH]; intros [|y b]; simpl; split; intros H;
    try reflexivity; try discriminate.
  - apply andb_true_iff in H. destruct H as [H1 H2]. apply String.eqb_eq in H1. apply IH in H2. congruence.
  - inversion H; subst. apply andb_true_iff. split; [apply String.eqb_refl|apply IH; reflexivity].
Qed.
Lemma path_eqb_refl a : path_eqb a a = true.
Proof. apply path_eqb_eq. reflexivity. Qed.

(* ---- dicts ---- *)
Lemma dget_dupd {V} k' k (dflt : V) f d :
  dget k' (dupd k dflt f d) =
  if String.eqb k' k then Some (f (match dget k d with Some v => v | None => dflt end)) else dget k' d.
Proof.
  induction d as [|[k0 v] d IH]; simpl.
  - destruct (String.eqb k' k); reflexivity.
  - destruct (String.eqb k k0) eqn:E; simpl.
    + apply String.eqb_eq in E. subst k0. destruct (String.eqb k' k); reflexivity.
    + rewrite IH. destruct (String.eqb k' k) eqn:E2; [|reflexivity].
      apply String.eqb_eq in E2. subst k'. rewrite E. reflexivity.
Qed.

Lemma dget2_dupd2_incl (key key' : lockey) (r : ref) d :
  incl (dget2 key' d) (dget2 key' (dupd2 key (fun l => l ++ [r]) d)).
Proof.
  unfold dget2, dupd2. rewrite dget_dupd.
  destruct (String.eqb (fst key') (fst key)) eqn:E1.
  - apply String.eqb_eq in E1. rewrite E1. rewrite dget_dupd.
    destruct (String.eqb (snd key') (snd key)) eqn:E2.
    + apply String.eqb_eq in E2. rewrite E2.
      destruct (dget (fst key) d) as [d1|]; simpl.
      * destruct (dget (snd key) d1); intros x Hx; [apply in_or_app; left; exact Hx|destruct Hx].
      * intros x [].
    + destruct (dget (fst key) d) as [d1|]; simpl; [apply incl_refl|intros x []].
  - apply incl_refl.
Qed.
Lemma dget2_dupd2_new (key : lockey) (r : ref) d :
  In r (dget2 key (dupd2 key (fun l => l ++ [r]) d)).
Proof.
  unfold dget2, dupd2. rewrite dget_dupd. rewrite String.eqb_refl. rewrite dget_dupd. rewrite String.eqb_refl.
  apply in_or_app. right. left. reflexivity.
Qed.

(* ---- nodes ---- *)
Lemma find_upd_same p f ns n :
  find_node p ns = Some n -> find_node p (upd_node p f ns) = Some (f n).
Proof.
  induction ns as [|[q m] ns IH]; simpl; [discriminate|].
  destruct (path_eqb p q) eqn:E; simpl; rewrite E; [intros H; inversion H; reflexivity|exact IH].
Qed.
Lemma find_upd_other p q f ns :
  path_eqb q p = false -> find_node q (upd_node p f ns) = find_node q ns.
Proof.
  intros Hne. induction ns as [|[k m] ns IH]; simpl; [reflexivity|].
  destruct (path_eqb p k) eqn:E; simpl.
  - apply path_eqb_eq in E. subst k. rewrite Hne. reflexivity.
  - rewrite IH. reflexivity.
Qed.
Lemma find_app q ns ms n : find_node q ns = Some n -> find_node q (ns ++ ms) = Some n.
Proof.
  induction ns as [|[k m] ns IH]; simpl; [discriminate|]. destruct (path_eqb q k); [auto|exact IH].
Qed.
Lemma find_ensure_node q ns p n : find_node q ns = Some n -> find_node q (ensure_node ns p) = Some n.
Proof. unfold ensure_node. intros H. destruct (find_node p ns); [exact H|apply find_app; exact H]. Qed.
Lemma find_app_new p ns : find_node p ns = None -> find_node p (ns ++ [(p, empty_node)]) = Some empty_node.
Proof.
  induction ns as [|[k m] ns IH]; simpl; intros H.
  - rewrite path_eqb_refl. reflexivity.
  - destruct (path_eqb p k); [discriminate|auto].
Qed.
Lemma ensure_node_has ns p : exists n, find_node p (ensure_node ns p) = Some n.
Proof.
  unfold ensure_node. destruct (find_node p ns) eqn:E; [exists n; exact E|].
  exists empty_node. apply find_app_new. exact E.
Qed.
Lemma find_fold_ensure q l ns n :
  find_node q ns = Some n -> find_node q (fold_left ensure_node l ns) = Some n.
Proof. revert ns. induction l as [|p l IH]; simpl; intros ns H; [exact H|]. apply IH. apply find_ensure_node. exact H. Qed.
Lemma fold_ensure_has l : forall ns p, In p l -> exists n, find_node p (fold_left ensure_node l ns) = Some n.
Proof.
  induction l as [|a l IH]; simpl; intros ns p []; [subst a|].
  - destruct (ensure_node_has ns p) as [n Hn]. exists n. apply find_fold_ensure. exact Hn.
  - apply IH. assumption.
Qed.

(* ---- the order "nothing is lost": objects keep their contents, nodes keep their objects ---- *)
Definition le (s s' : st) : Prop :=
  (forall r d, hget s r = Some d -> hget s' r = Some d) /\
  (forall np n, find_node np (nodes s) = Some n ->
     exists n', find_node np (nodes s') = Some n' /\ forall key, incl (locs_at n key) (locs_at n' key)).
Lemma le_refl s : le s s.
Proof. split; [auto|]. intros np n H. exists n. split; [exact H|intros; apply incl_refl]. Qed.
Lemma le_trans a b c : le a b -> le b c -> le a c.
Proof.
  intros [H1 H2] [H3 H4]. split; [auto|].
  intros np n H. destruct (H2 _ _ H) as [n' [Hn' Hi]]. destruct (H4 _ _ Hn') as [n'' [Hn'' Hi']].
  exists n''. split; [exact Hn''|]. intros key. eapply incl_tran; [apply Hi|apply Hi'].
Qed.

Lemma le_with_path s p : le s (with_path s p).
Proof.
  split; [auto|]. intros np n H. exists n. split; [|intros; apply incl_refl].
  unfold with_path, ensure_path. simpl. apply find_fold_ensure. exact H.
Qed.
Lemma le_alloc s d : le s (mkst (heap s ++ [d]) (nodes s)).
Proof.
  split.
  - unfold hget. simpl. intros r x H. rewrite nth_error_app1; [exact H|]. apply nth_error_Some. congruence.
  - intros np n H. exists n. split; [exact H|intros; apply incl_refl].
Qed.
Lemma le_attach s np r d : le s (attach s np r d).
Proof.
  split; [auto|]. intros q n H. unfold attach. simpl.
  destruct (path_eqb q np) eqn:E.
  - apply path_eqb_eq in E. subst q. exists (attach_node (dl_loc d) r n). split; [apply find_upd_same; exact H|].
    intros key. unfold locs_at, attach_node. simpl. apply dget2_dupd2_incl.
  - exists n. split; [rewrite find_upd_other; assumption|intros; apply incl_refl].
Qed.
Lemma le_put_at s np r : le s (put_at s np r).
Proof.
  unfold put_at. destruct (hget s r); [|apply le_refl].
  destruct (has_valid s np (dl_loc d) (dl_path d)); [apply le_refl|apply le_attach].
Qed.
Lemma le_put_nonrec s p r : le s (put_nonrec s p r).
Proof. unfold put_nonrec. eapply le_trans; [apply le_with_path|apply le_put_at]. Qed.
Lemma le_put_anc1 key s a : le s (put_anc1 key s a).
Proof.
  unfold put_anc1. destruct (has_valid s a key a); [apply le_refl|].
  eapply le_trans; [apply le_alloc|apply le_attach].
Qed.
Lemma le_put_anc key ancs : forall s, le s (put_anc s key ancs).
Proof.
  unfold put_anc. induction ancs as [|a l IH]; simpl; intros s; [apply le_refl|].
  eapply le_trans; [apply le_put_anc1|apply IH].
Qed.
Lemma le_put_rec s p r : le s (put_rec s p r).
Proof.
  unfold put_rec. destruct (hget (with_path s p) r).
  - eapply le_trans; [apply le_with_path|]. eapply le_trans; [apply le_put_at|apply le_put_anc].
  - apply le_with_path.
Qed.
Lemma le_fold {A} (f : st -> A -> st) (l : list A) :
  (forall s a, le s (f s a)) -> forall s, le s (fold_left f l s).
Proof.
  intros Hf. induction l as [|a l IH]; simpl; intros s; [apply le_refl|].
  eapply le_trans; [apply Hf|apply IH].
Qed.
Lemma le_relate s r1 r2 : le s (relate s r1 r2).
Proof.
  unfold relate. destruct (hget s r1); [|apply le_refl]. destruct (hget s r2); [|apply le_refl].
  apply le_fold. intros s' r. destruct (hget s' r); [|apply le_refl].
  eapply le_trans; apply le_put_nonrec.
Qed.
Lemma le_reg_inner tab fuel : forall s r0 li p t, le s (reg_inner fuel tab s r0 li p t).
Proof.
  induction fuel as [|f IH]; simpl; intros; [apply le_refl|].
  destruct (inner_path tab li p) as [[w q]|]; [|apply le_refl].
  unfold alloc. eapply le_trans; [apply le_alloc|]. eapply le_trans; [apply le_put_rec|].
  eapply le_trans; [apply le_relate|apply IH].
Qed.

(* ---- has_valid is monotone, holds after a put, and implies availability ---- *)
Lemma same_copy_valid_le s s' lp r : le s s' -> same_copy_valid s lp r = true -> same_copy_valid s' lp r = true.
Proof.
  intros [H _]. unfold same_copy_valid. destruct (hget s r) eqn:E; [|discriminate].
  rewrite (H _ _ E). auto.
Qed.
Lemma has_valid_le s s' np key lp : le s s' -> has_valid s np key lp = true -> has_valid s' np key lp = true.
Proof.
  intros Hle. unfold has_valid. destruct (find_node np (nodes s)) eqn:E; [|discriminate].
  destruct Hle as [Hh Hn]. destruct (Hn _ _ E) as [n' [E' Hi]]. rewrite E'.
  intros H. apply existsb_exists in H. destruct H as [r [Hr Hv]].
  apply existsb_exists. exists r. split; [apply Hi; exact Hr|].
  eapply same_copy_valid_le; [split; [exact Hh|exact Hn]|exact Hv].
Qed.

Lemma has_valid_attach s np r d :
  hget s r = Some d -> dl_type d <> INVALID -> (exists n, find_node np (nodes s) = Some n) ->
  has_valid (attach s np r d) np (dl_loc d) (dl_path d) = true.
Proof.
  intros Hr Ht [n Hn]. unfold has_valid, attach. simpl. rewrite (find_upd_same _ _ _ _ Hn).
  apply existsb_exists. exists r. split.
  - unfold locs_at, attach_node. simpl. apply dget2_dupd2_new.
  - unfold same_copy_valid, hget. simpl. unfold hget in Hr. rewrite Hr. rewrite path_eqb_refl. simpl.
    destruct (dl_type d); simpl; try reflexivity. congruence.
Qed.
Lemma has_valid_put_at s np r d :
  hget s r = Some d -> dl_type d <> INVALID -> (exists n, find_node np (nodes s) = Some n) ->
  has_valid (put_at s np r) np (dl_loc d) (dl_path d) = true.
Proof.
  intros Hr Ht Hn. unfold put_at. rewrite Hr.
  destruct (has_valid s np (dl_loc d) (dl_path d)) eqn:E; [exact E|apply has_valid_attach; assumption].
Qed.
Lemma has_valid_attach' s np r d key lp :
  hget s r = Some d -> dl_loc d = key -> dl_path d = lp -> dl_type d <> INVALID ->
  (exists n, find_node np (nodes s) = Some n) -> has_valid (attach s np r d) np key lp = true.
Proof. intros H1 H2 H3 H4 H5. subst key lp. apply has_valid_attach; assumption. Qed.
Lemma has_valid_put_at' s np r d key lp :
  hget s r = Some d -> dl_loc d = key -> dl_path d = lp -> dl_type d <> INVALID ->
  (exists n, find_node np (nodes s) = Some n) -> has_valid (put_at s np r) np key lp = true.
Proof. intros H1 H2 H3 H4 H5. subst key lp. apply has_valid_put_at; assumption. Qed.
Lemma has_valid_put_anc1 key s a :
  (exists n, find_node a (nodes s) = Some n) -> has_valid (put_anc1 key s a) a key a = true.
Proof.
  intros Hn. unfold put_anc1. destruct (has_valid s a key a) eqn:E; [exact E|].
  apply has_valid_attach'; try reflexivity.
  - unfold hget. simpl. rewrite nth_error_app2 by lia. rewrite Nat.sub_diag. reflexivity.
  - discriminate.
  - exact Hn.
Qed.
Lemma node_le s s' np : le s s' -> (exists n, find_node np (nodes s) = Some n) -> exists n, find_node np (nodes s') = Some n.
Proof. intros [_ H] [n Hn]. destruct (H _ _ Hn) as [n' [Hn' _]]. exists n'. exact Hn'. Qed.

Lemma has_valid_put_anc key ancs : forall s,
  (forall a, In a ancs -> exists n, find_node a (nodes s) = Some n) ->
  forall a, In a ancs -> has_valid (put_anc s key ancs) a key a = true.
Proof.
  unfold put_anc. induction ancs as [|b l IH]; simpl; intros s Hn a []; [subst b|].
  - eapply has_valid_le; [apply (le_put_anc key l)|]. apply has_valid_put_anc1. apply Hn. left. reflexivity.
  - apply IH; [|assumption]. intros c Hc. eapply node_le; [apply le_put_anc1|]. apply Hn. right. exact Hc.
Qed.

Lemma in_ancestors_prefixes p a : In a (ancestors p) -> In a (prefixes p).
Proof.
  unfold ancestors. intros H. apply in_rev. destruct (rev (prefixes p)); simpl in *; [destruct H|right; exact H].
Qed.
Lemma self_in_prefixes p : In p (prefixes p).
Proof. induction p as [|a p IH]; simpl; [left; reflexivity|right]. apply in_map. exact IH. Qed.

Lemma with_path_has s p q : In q (prefixes p) -> exists n, find_node q (nodes (with_path s p)) = Some n.
Proof. intros H. unfold with_path, ensure_path. simpl. apply fold_ensure_has. exact H. Qed.

(* after put(path, object, recursive=True) of a valid object whose path is [p]: p and every ancestor hold a
   valid object of that location under their own path *)
Lemma has_valid_put_rec s p r d :
  hget s r = Some d -> dl_path d = p -> dl_type d <> INVALID ->
  forall a, a = p \/ In a (ancestors p) -> has_valid (put_rec s p r) a (dl_loc d) a = true.
Proof.
  intros Hr Hp Ht a Ha. unfold put_rec.
  assert (Hr' : hget (with_path s p) r = Some d) by exact Hr. rewrite Hr'.
  destruct Ha as [Ha|Ha].
  - subst a. eapply has_valid_le; [apply le_put_anc|].
    apply (has_valid_put_at' _ _ _ d); try assumption; try reflexivity. apply with_path_has. apply self_in_prefixes.
  - apply has_valid_put_anc; [|exact Ha]. intros c Hc. eapply node_le; [apply le_put_at|].
    apply with_path_has. apply in_ancestors_prefixes. exact Hc.
Qed.

Lemma has_valid_available s p key : has_valid s p key p = true -> available s p key = true.
Proof.
  unfold has_valid, available, get_dl, get_raw. destruct (find_node p (nodes s)) as [n|]; [|discriminate].
  intros H. apply existsb_exists in H. destruct H as [r [Hr Hv]].
  simpl. rewrite !app_nil_r.
  assert (Hin : In r (filter (not_invalid s)
            (filter (type_ok s None)
               match dget (snd key) match dget (fst key) (nlocs n) with Some x => x | None => [] end with
               | Some l => l | None => [] end))).
  { apply filter_In. split.
    - apply filter_In. split; [|reflexivity].
      unfold locs_at, dget2 in Hr. destruct (dget (fst key) (nlocs n)); [exact Hr|destruct Hr].
    - unfold same_copy_valid in Hv. unfold not_invalid. destruct (hget s r); [|discriminate].
      apply andb_true_iff in Hv. tauto. }
  destruct (filter (not_invalid s) _); [destruct Hin|reflexivity].
Qed.

(* register_path makes the path and every ancestor directory available on that location, whatever the
   history that led to the state *)
Theorem register_available tab s li p t :
  t <> INVALID ->
  forall a, a = p \/ In a (ancestors p) ->
  available (fst (register tab s li p t)) a (key_of tab li) = true.
Proof.
  intros Ht a Ha. unfold register, alloc. simpl.
  apply has_valid_available.
  eapply has_valid_le; [apply le_reg_inner|].
  set (d := mkdloc (key_of tab li) p t).
  change (key_of tab li) with (dl_loc d).
  apply has_valid_put_rec; try assumption; try reflexivity.
  unfold hget. simpl. rewrite nth_error_app2 by lia. rewrite Nat.sub_diag. reflexivity.
Qed.
