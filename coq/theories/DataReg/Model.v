(* DataReg/Model.v — executable model of StreamFlow's data-location registry (definitions only).

   ANCHORS:
     streamflow.data.manager._RemotePathNode
     streamflow.data.manager._RemotePathMapper.get
     streamflow.data.manager._RemotePathMapper.put
     streamflow.data.manager._RemotePathMapper.invalidate_location
     streamflow.data.manager.DefaultDataManager.get_data_locations
     streamflow.data.manager.DefaultDataManager.get_source_location
     streamflow.data.manager.DefaultDataManager.register_path
     streamflow.data.manager.DefaultDataManager.register_relation
     streamflow.data.remotepath.get_inner_path            (non-recursive form, incl. sorted(mounts, reverse=True))
     streamflow.core.data.DataLocation                    (location key, path, mutable data_type)

   Representation.
   * A path is the list of its components below the root: "/a/x" is ["a";"x"], "/" is [].  The Python code
     keys its trie by [Path(path).parts] and its [valid_paths] by the path string; on normalised absolute
     POSIX paths both are injective images of the component list (that restriction is the correspondence
     domain).  The trie is kept flat: [nodes] lists (path, node) in creation order, so the children of a node
     in dict order are the entries one component longer, in list order.
   * The code modelled is /repo after the two fix commits described in design/notes/C21.md (put decides on the
     stored objects and walks up to the root; invalidate_location walks the whole subtree).
   * [DataLocation] objects live in [heap]; a [ref] is an index.  Objects are shared between nodes (a relation
     puts the same object under two paths) and only [data_type] is ever mutated (to INVALID).
   * [locations] is a nested insertion-ordered dict: deployment -> location name -> list of objects.
     [valid_paths] is not modelled: since the fix of [put] (see design/notes/C21.md) the code only writes it
     (add in put, discard in invalidate_location) and never reads it.
   * [relpath] and the [available] event are not modelled (no observable of this property depends on them:
     the harness queries only after [register_path] returned, when every event it created is set).
   * [remove_location] is not modelled: in the code it looks only at the locations of the artificial node
     above "/", which [put] never fills, so it never does anything; nothing in StreamFlow calls it. *)
From Coq Require Import List Bool Arith.
From SF Require Import Base.Str Base.Corr.
Import ListNotations.
Local Open Scope string_scope. Local Open Scope list_scope.

Definition path := list string.
Definition path_eqb : path -> path -> bool := list_eqb String.eqb.

Inductive dtype := PRIMARY | SYMBOLIC_LINK | INVALID.
Definition dtype_eqb (a b : dtype) : bool :=
  match a, b with
  | PRIMARY, PRIMARY | SYMBOLIC_LINK, SYMBOLIC_LINK | INVALID, INVALID => true
  | _, _ => false
  end.

Definition lockey := (string * string)%type.          (* (deployment, location name) *)
Definition key_eqb (a b : lockey) : bool := String.eqb (fst a) (fst b) && String.eqb (snd a) (snd b).

Record dloc := mkdloc { dl_loc : lockey; dl_path : path; dl_type : dtype }.
Definition ref := nat.

(* ---- insertion-ordered dicts ---- *)
Definition dict (V : Type) := list (string * V).
Fixpoint dget {V} (k : string) (d : dict V) : option V :=
  match d with
  | [] => None
  | (k', v) :: d' => if String.eqb k k' then Some v else dget k d'
  end.
(* d.setdefault(k, dflt) followed by d[k] = f d[k] *)
Fixpoint dupd {V} (k : string) (dflt : V) (f : V -> V) (d : dict V) : dict V :=
  match d with
  | [] => [(k, f dflt)]
  | (k', v) :: d' => if String.eqb k k' then (k', f v) :: d' else (k', v) :: dupd k dflt f d'
  end.
Definition dget2 {V} (key : lockey) (d : dict (dict (list V))) : list V :=
  match dget (fst key) d with
  | Some d1 => match dget (snd key) d1 with Some l => l | None => [] end
  | None => []
  end.
Definition dupd2 {V} (key : lockey) (f : list V -> list V) (d : dict (dict (list V))) : dict (dict (list V)) :=
  dupd (fst key) [] (dupd (snd key) [] f) d.

Record node := mknode { nlocs : dict (dict (list ref)) }.
Definition empty_node := mknode [].
Definition locs_at (n : node) (key : lockey) : list ref := dget2 key (nlocs n).

Record st := mkst { heap : list dloc; nodes : list (path * node) }.
Definition init : st := mkst [] [].

Definition hget (s : st) (r : ref) : option dloc := nth_error (heap s) r.

Fixpoint find_node (p : path) (ns : list (path * node)) : option node :=
  match ns with
  | [] => None
  | (q, n) :: ns' => if path_eqb p q then Some n else find_node p ns'
  end.
Fixpoint upd_node (p : path) (f : node -> node) (ns : list (path * node)) : list (path * node) :=
  match ns with
  | [] => []
  | (q, n) :: ns' => if path_eqb p q then (q, f n) :: ns' else (q, n) :: upd_node p f ns'
  end.
Definition ensure_node (ns : list (path * node)) (p : path) : list (path * node) :=
  match find_node p ns with Some _ => ns | None => ns ++ [(p, empty_node)] end.
(* [] ; [a] ; [a;b] ; ... ; p   (the trie is walked from "/" down, creating what is missing) *)
Fixpoint prefixes (p : path) : list path :=
  match p with
  | [] => [[]]
  | a :: p' => [] :: map (cons a) (prefixes p')
  end.
Definition ensure_path (p : path) (ns : list (path * node)) : list (path * node) :=
  fold_left ensure_node (prefixes p) ns.

(* k is a child of p:  k = p ++ [c] *)
Fixpoint is_child (p k : path) : bool :=
  match p, k with
  | [], [_] => true
  | a :: p', b :: k' => String.eqb a b && is_child p' k'
  | _, _ => false
  end.
Definition children (p : path) (ns : list (path * node)) : list path :=
  map fst (filter (fun e => is_child p (fst e)) ns).

(* ---- put ----
   (code after the fix "decide on the stored locations, walk up to the root": an object is added to a node
   unless the node already holds a not-INVALID object of the same location with the same path; the walk over
   the ancestors no longer stops early) *)
Definition same_copy_valid (s : st) (lp : path) (r : ref) : bool :=
  match hget s r with
  | Some d => path_eqb (dl_path d) lp && negb (dtype_eqb (dl_type d) INVALID)
  | None => false
  end.
Definition has_valid (s : st) (np : path) (key : lockey) (lp : path) : bool :=
  match find_node np (nodes s) with
  | Some n => existsb (same_copy_valid s lp) (locs_at n key)
  | None => false
  end.
Definition attach_node (key : lockey) (r : ref) (n : node) : node :=
  mknode (dupd2 key (fun l => l ++ [r]) (nlocs n)).
Definition attach (s : st) (np : path) (r : ref) (d : dloc) : st :=
  mkst (heap s) (upd_node np (attach_node (dl_loc d) r) (nodes s)).
(* one iteration of the bottom-up loop for an existing object *)
Definition put_at (s : st) (np : path) (r : ref) : st :=
  match hget s r with
  | None => s
  | Some d => if has_valid s np (dl_loc d) (dl_path d) then s else attach s np r d
  end.
Definition with_path (s : st) (p : path) : st := mkst (heap s) (ensure_path p (nodes s)).

(* put(path, data_location, recursive=False) *)
Definition put_nonrec (s : st) (p : path) (r : ref) : st := put_at (with_path s p) p r.

(* the ancestors' part of put(recursive=True): a fresh PRIMARY object for every ancestor that holds no valid
   object of that location with the ancestor's own path, deepest first, up to "/" *)
Definition put_anc1 (key : lockey) (s : st) (a : path) : st :=
  if has_valid s a key a then s
  else let d := mkdloc key a PRIMARY in
       attach (mkst (heap s ++ [d]) (nodes s)) a (length (heap s)) d.
Definition put_anc (s : st) (key : lockey) (ancs : list path) : st := fold_left (put_anc1 key) ancs s.
Definition ancestors (p : path) : list path := tl (rev (prefixes p)).     (* parent first, [] last *)
Definition put_rec (s : st) (p : path) (r : ref) : st :=
  let s0 := with_path s p in
  match hget s0 r with
  | None => s0
  | Some d => put_anc (put_at s0 p r) (dl_loc d) (ancestors p)
  end.

(* ---- get ---- *)
Definition keys {V} (d : dict V) : list string := map fst d.
Definition type_ok (s : st) (t : option dtype) (r : ref) : bool :=
  match t, hget s r with
  | None, _ => true
  | Some t', Some d => dtype_eqb (dl_type d) t'
  | Some _, None => false
  end.
Definition get_raw (s : st) (p : path) (dep name : option string) (t : option dtype) : list ref :=
  match find_node p (nodes s) with
  | None => []
  | Some n =>
      flat_map (fun d =>
        let byname := match dget d (nlocs n) with Some x => x | None => [] end in
        flat_map (fun nm => filter (type_ok s t) (match dget nm byname with Some l => l | None => [] end))
                 (match name with Some nm => [nm] | None => keys byname end))
        (match dep with Some d => [d] | None => keys (nlocs n) end)
  end.
Definition not_invalid (s : st) (r : ref) : bool :=
  match hget s r with Some d => negb (dtype_eqb (dl_type d) INVALID) | None => false end.
(* DefaultDataManager.get_data_locations *)
Definition get_dl (s : st) (p : path) (dep name : option string) (t : option dtype) : list ref :=
  filter (not_invalid s) (get_raw s p dep name t).

(* ---- register_relation ---- *)
Definition relate (s : st) (r1 r2 : ref) : st :=
  match hget s r1, hget s r2 with
  | Some d1, Some d2 =>
      fold_left (fun s' r =>
                   match hget s' r with
                   | Some d => put_nonrec (put_nonrec s' (dl_path d) r2) (dl_path d2) r
                   | None => s'
                   end)
                (get_raw s (dl_path d1) None None None) s
  | _, _ => s
  end.

(* ---- locations, wrapped locations ---- *)
Record locinfo := mkloc { lk : lockey; llocal : bool; lwraps : option nat; lmounts : list (path * path) }.
Fixpoint strip_prefix (m p : path) : option path :=
  match m, p with
  | [], _ => Some p
  | a :: m', b :: p' => if String.eqb a b then strip_prefix m' p' else None
  | _ :: _, [] => None
  end.
Fixpoint first_mount (ms : list (path * path)) (p : path) : option path :=
  match ms with
  | [] => None
  | (m, tgt) :: ms' =>
      match strip_prefix m p with Some rest => Some (tgt ++ rest) | None => first_mount ms' p end
  end.
Definition slash : Ascii.ascii := Ascii.Ascii true true true true false true false false.   (* "/" = 47 *)
(* the mount-point string of a component list: "/" for the root, else "/c1/c2/..." *)
Fixpoint render_comps (p : path) : string :=
  match p with
  | [] => EmptyString
  | c :: r => String slash (String.append c (render_comps r))
  end.
Definition render_path (p : path) : string := match p with [] => "/" | _ => render_comps p end.
(* sorted(location.mounts.keys(), reverse=True): Python orders the mount-point STRINGS (code points; bytes on the
   ASCII domain of the correspondence), descending.  Insertion sort: a mount goes before the first one whose string
   is smaller.  (dict keys are unique, so stability does not matter.) *)
Definition mount_lt (a b : path * path) : bool :=
  match String.compare (render_path (fst a)) (render_path (fst b)) with Lt => true | _ => false end.
Fixpoint ins_desc (m : path * path) (l : list (path * path)) : list (path * path) :=
  match l with
  | [] => [m]
  | x :: l' => if mount_lt x m then m :: x :: l' else x :: ins_desc m l'
  end.
Definition sort_mounts (ms : list (path * path)) : list (path * path) := fold_right ins_desc [] ms.
(* get_inner_path (non-recursive form): the mounts are tried in reverse-sorted order of their strings *)
Definition inner_path (tab : list locinfo) (li : nat) (p : path) : option (nat * path) :=
  match nth_error tab li with
  | None => None
  | Some l =>
      if llocal l then None
      else match lwraps l with
           | None => None
           | Some w => match first_mount (sort_mounts (lmounts l)) p with Some q => Some (w, q) | None => None end
           end
  end.
Definition key_of (tab : list locinfo) (li : nat) : lockey :=
  match nth_error tab li with Some l => lk l | None => ("", "") end.

Definition alloc (s : st) (d : dloc) : st * ref := (mkst (heap s ++ [d]) (nodes s), length (heap s)).

(* the while-loop of register_path over wrapped locations; fuel = number of locations *)
Fixpoint reg_inner (fuel : nat) (tab : list locinfo) (s : st) (r0 : ref) (li : nat) (p : path) (t : dtype) : st :=
  match fuel with
  | 0 => s
  | S f =>
      match inner_path tab li p with
      | None => s
      | Some (w, q) =>
          let (s1, r) := alloc s (mkdloc (key_of tab w) q t) in
          reg_inner f tab (relate (put_rec s1 q r) r0 r) r0 w q t
      end
  end.
(* DefaultDataManager.register_path; returns the state and the ref of the returned DataLocation *)
Definition register (tab : list locinfo) (s : st) (li : nat) (p : path) (t : dtype) : st * ref :=
  let (s1, r0) := alloc s (mkdloc (key_of tab li) p t) in
  (reg_inner (length tab) tab (put_rec s1 p r0) r0 li p t, r0).

(* ---- invalidate_location ---- *)
Fixpoint set_invalid (r : nat) (h : list dloc) : list dloc :=
  match h, r with
  | [], _ => []
  | d :: h', 0 => mkdloc (dl_loc d) (dl_path d) INVALID :: h'
  | d :: h', S r' => d :: set_invalid r' h'
  end.
Definition mark1 (s : st) (r : ref) : st := mkst (set_invalid r (heap s)) (nodes s).
Inductive istat := IOk | IKeyError.
(* q is p or lies beneath p *)
Definition beneath (p q : path) : bool := match strip_prefix p q with Some _ => true | None => false end.
Definition mark_node (key : lockey) (s : st) (n : node) : st := fold_left mark1 (locs_at n key) s.
(* invalidate_location(location, path) after the fix "walk the whole subtree": KeyError when the path has no
   node; otherwise every object of that location held by the node of the path or by any node beneath it becomes
   INVALID.  The code walks the trie depth-first; the model walks the flat node list — marking is idempotent
   and commutes, so the resulting state is the same. *)
Definition invalidate (s : st) (key : lockey) (p : path) : st * istat :=
  match find_node p (nodes s) with
  | None => (s, IKeyError)
  | Some _ =>
      (fold_left (fun s' e => if beneath p (fst e) then mark_node key s' (snd e) else s') (nodes s) s, IOk)
  end.

(* ---- get_source_location ---- *)
Definition is_local (tab : list locinfo) (key : lockey) : bool :=
  existsb (fun l => key_eqb (lk l) key && llocal l) tab.
Definition on_dep (s : st) (dst : string) (r : ref) : bool :=
  match hget s r with Some d => String.eqb (fst (dl_loc d)) dst | None => false end.
Definition on_local (tab : list locinfo) (s : st) (r : ref) : bool :=
  match hget s r with Some d => is_local tab (dl_loc d) | None => false end.
(* the candidates among which the code returns one: the same-deployment ones if any, else the local ones if
   any (both Python sets: any element may come first), else exactly the first one *)
Definition source_candidates (tab : list locinfo) (s : st) (p : path) (dst : string) : list ref :=
  let dl := get_dl s p None None (Some PRIMARY) in
  match filter (on_dep s dst) dl with
  | (_ :: _) as t1 => t1
  | [] => match filter (on_local tab s) dl with
          | (_ :: _) as t2 => t2
          | [] => firstn 1 dl
          end
  end.

(* ---- operation histories ---- *)
Inductive op :=
| Reg (l : nat) (p : path) (t : dtype)
| Rel (i j : nat)                       (* register_relation(i-th registered object, j-th registered object) *)
| Inv (l : nat) (p : path).
Record rst := mkrst { rs : st; rets : list ref }.
Definition rinit : rst := mkrst init [].
Definition step (tab : list locinfo) (x : rst) (o : op) : rst * istat :=
  match o with
  | Reg l p t => let (s', r) := register tab (rs x) l p t in (mkrst s' (rets x ++ [r]), IOk)
  | Rel i j =>
      match nth_error (rets x) i, nth_error (rets x) j with
      | Some a, Some b => (mkrst (relate (rs x) a b) (rets x), IOk)
      | _, _ => (x, IOk)
      end
  | Inv l p => let (s', e) := invalidate (rs x) (key_of tab l) p in (mkrst s' (rets x), e)
  end.
Definition run (tab : list locinfo) (ops : list op) : rst :=
  fold_left (fun x o => fst (step tab x o)) ops rinit.

(* what a caller sees of a DataLocation *)
Definition item := (lockey * path * dtype)%type.
Definition item_of (s : st) (r : ref) : option item :=
  match hget s r with Some d => Some (dl_loc d, dl_path d, dl_type d) | None => None end.
Definition available (s : st) (p : path) (key : lockey) : bool :=
  match get_dl s p (Some (fst key)) (Some (snd key)) None with [] => false | _ => true end.
