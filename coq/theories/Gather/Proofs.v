(* Gather/Proofs.v — lemmas about Gather/Model.v (statements of the property are in Props/C01.v). *)
From Coq Require Import List Ascii Bool Arith NArith ZArith Lia Permutation Sorting.Sorted.
From SF Require Import Base.Str Base.Dec Tags.Model Tags.Proofs Gather.Model Gather.Util.
Import ListNotations.
Local Open Scope string_scope. Local Open Scope list_scope.

(* ------------------------------------------------------------------ tags *)
Lemma render_inj a b : a <> [] -> b <> [] -> render a = render b -> a = b.
Proof.
  intros Ha Hb E.
  assert (H : map dec a = map dec b) by (rewrite <- !split_render by assumption; rewrite E; reflexivity).
  clear -H. revert b H. induction a as [|x a IH]; intros [|y b] H; simpl in *; try discriminate; auto.
  injection H as H1 H2. apply dec_inj in H1. subst. f_equal. auto.
Qed.

Lemma cmp_comps_snoc t i j : cmp_comps (t ++ [i]) (t ++ [j]) = (Z.of_N i - Z.of_N j)%Z.
Proof.
  induction t as [|x t IH]; simpl.
  - destruct (Z.eqb_spec (Z.of_N i - Z.of_N j) 0); lia.
  - replace (Z.of_N x - Z.of_N x)%Z with 0%Z by lia. simpl. exact IH.
Qed.

Lemma compare_snoc t i j : compare_tags (t ++ [i]) (t ++ [j]) = (Z.of_N i - Z.of_N j)%Z.
Proof.
  unfold compare_tags. rewrite !app_length. simpl.
  replace (Z.of_nat (length t + 1) - Z.of_nat (length t + 1))%Z with 0%Z by lia. simpl.
  apply cmp_comps_snoc.
Qed.

Lemma drop_last_render t i : t <> [] -> drop_last_s 1 (render (t ++ [i])) = render t.
Proof.
  intros Ht. unfold drop_last_s.
  rewrite split_render by (destruct t; discriminate).
  rewrite map_app. simpl. rewrite app_length. simpl.
  replace (length (map dec t) + 1 - 1) with (length (map dec t) + 0) by lia.
  rewrite firstn_app_2. simpl. rewrite app_nil_r. reflexivity.
Qed.

(* ------------------------------------------------------------------ sorting by tag *)
Definition good (x : tok) : Prop := exists a, a <> [] /\ tag_of x = render a.
Definition tle (x y : tok) : Prop :=
  exists a b, a <> [] /\ b <> [] /\ tag_of x = render a /\ tag_of y = render b /\ (compare_tags a b <= 0)%Z.

Lemma tle_trans x y z : tle x y -> tle y z -> tle x z.
Proof.
  intros (a & b & Ha & Hb & Ea & Eb & H1) (b' & c & Hb' & Hc & Eb' & Ec & H2).
  assert (b = b') by (apply render_inj; auto; congruence). subst b'.
  exists a, c. repeat split; auto.
  destruct (compare_trans a b c H1 H2) as [H _]. exact H.
Qed.

Lemma cmp_tok_good x y a b :
  a <> [] -> b <> [] -> tag_of x = render a -> tag_of y = render b -> cmp_tok x y = compare_tags a b.
Proof.
  intros Ha Hb Ea Eb. unfold cmp_tok. rewrite Ea, Eb. rewrite compare_tags_s_render by assumption. reflexivity.
Qed.

Lemma insert_tok_perm x l : Permutation (insert_tok x l) (x :: l).
Proof.
  induction l as [|y l IH]; simpl; auto.
  destruct (cmp_tok x y <=? 0)%Z; auto.
  rewrite IH. apply perm_swap.
Qed.
Lemma sort_toks_perm l : Permutation (sort_toks l) l.
Proof. induction l as [|x l IH]; simpl; auto. rewrite insert_tok_perm. auto. Qed.

Lemma insert_tok_sorted x l :
  good x -> Forall good l -> Sorted tle l -> Sorted tle (insert_tok x l).
Proof.
  intros (a & Ha & Ea). induction l as [|y l IH]; simpl; intros Hg Hs.
  - constructor; constructor.
  - inversion Hg as [|? ? (b & Hb & Eb) Hg']; subst.
    rewrite (cmp_tok_good x y a b) by assumption.
    destruct (Z.leb_spec (compare_tags a b) 0) as [L|L].
    + constructor; auto. constructor. exists a, b. repeat split; auto.
    + inversion Hs as [|? ? Hs' Hhd]; subst.
      assert (Hyx : tle y x).
      { exists b, a. repeat split; auto. rewrite compare_antisym. lia. }
      constructor; auto.
      destruct l as [|z l]; simpl.
      * constructor. exact Hyx.
      * destruct (cmp_tok x z <=? 0)%Z; constructor; auto.
        inversion Hhd; subst. assumption.
Qed.

Lemma sort_toks_sorted l : Forall good l -> Sorted tle (sort_toks l).
Proof.
  induction l as [|x l IH]; simpl; intros Hg; [constructor|].
  inversion Hg; subst. apply insert_tok_sorted; auto.
  eapply Permutation_Forall; [apply Permutation_sym, sort_toks_perm | assumption].
Qed.

(* es carries the tags t.k, t.(k+1), ... in this order *)
Definition tags_from (t : tag) (k : nat) (es : list tok) : Prop :=
  map tag_of es = map (fun i => render (t ++ [N.of_nat i])) (seq k (length es)).
Definition elems_ok (t : tag) (es : list tok) : Prop := tags_from t 0 es.

Lemma tags_from_good t k es : tags_from t k es -> Forall good es.
Proof.
  unfold tags_from. revert k. induction es as [|e es IH]; intros k H; simpl in *; constructor.
  - injection H as H1 H2. exists (t ++ [N.of_nat k]). split; [destruct t; discriminate | exact H1].
  - injection H as H1 H2. eapply IH. exact H2.
Qed.

Lemma tags_from_sorted t k es : tags_from t k es -> Sorted tle es.
Proof.
  unfold tags_from. revert k. induction es as [|e es IH]; intros k H; simpl in *; [constructor|].
  injection H as H1 H2. constructor; [eapply IH; exact H2|].
  destruct es as [|e' es]; constructor. simpl in H2. injection H2 as H2 _.
  exists (t ++ [N.of_nat k]), (t ++ [N.of_nat (S k)]).
  repeat split; auto; try (destruct t; discriminate).
  rewrite compare_snoc. lia.
Qed.

Lemma tags_from_nodup t k es : t <> [] -> tags_from t k es -> NoDup (map tag_of es).
Proof.
  intros Ht H. unfold tags_from in H. rewrite H.
  apply FinFun.Injective_map_NoDup; [|apply seq_NoDup].
  intros i j E. apply render_inj in E; try (destruct t; discriminate).
  apply app_inv_head in E. injection E as E. apply Nat2N.inj in E. exact E.
Qed.

(* any sort of any arrival order of the element tokens gives back the scattered order *)
Lemma sort_canonical t es p :
  t <> [] -> elems_ok t es -> Permutation p es -> sort_toks p = es.
Proof.
  intros Ht Hok Hp.
  assert (Hg : Forall good es) by (eapply tags_from_good; exact Hok).
  apply (sorted_perm_unique tle tle_trans).
  - intros x y Hx Hy (a & b & Ha & Hb & Ea & Eb & L1) (b' & a' & Hb' & Ha' & Eb' & Ea' & L2).
    assert (a = a') by (apply render_inj; auto; congruence).
    assert (b = b') by (apply render_inj; auto; congruence). subst a' b'.
    assert (E : compare_tags a b = 0%Z) by (rewrite (compare_antisym a b) in L2; lia).
    apply compare_eq in E. subst b.
    assert (Hin : forall z, In z (sort_toks p) -> In z es).
    { intros z Hz. eapply Permutation_in; [|exact Hz]. rewrite sort_toks_perm. exact Hp. }
    apply (NoDup_map_inj_in tag_of es x y).
    + exact (tags_from_nodup t 0 es Ht Hok).
    + apply Hin; exact Hx.
    + apply Hin; exact Hy.
    + congruence.
  - rewrite sort_toks_perm. exact Hp.
  - apply sort_toks_sorted. eapply Permutation_Forall; [apply Permutation_sym; exact Hp | exact Hg].
  - eapply tags_from_sorted. exact Hok.
Qed.

(* ------------------------------------------------------------------ scatter *)
Lemma tag_of_retag x t : tag_of (retag x t) = t.
Proof. destruct x; reflexivity. Qed.

Lemma scatter_from_tags t k vs :
  t <> [] -> tags_from t k (scatter_from (N.of_nat k) (render t) vs).
Proof.
  intros Ht. unfold tags_from. revert k. induction vs as [|v vs IH]; intros k; simpl; [reflexivity|].
  rewrite tag_of_retag. rewrite (render_snoc t (N.of_nat k) Ht). f_equal.
  rewrite <- Nat2N.inj_succ. apply IH.
Qed.

Lemma scatter_from_length i tg vs : length (scatter_from i tg vs) = length vs.
Proof. revert i. induction vs as [|v vs IH]; intros i; simpl; auto. Qed.

Lemma scatter_elems_ok t vs : t <> [] -> elems_ok t (scatter_elems (render t) vs).
Proof. intros Ht. apply (scatter_from_tags t 0 vs Ht). Qed.

(* what is in a token apart from its tag *)
Definition untag (x : tok) : tok := retag x "".
Lemma untag_retag x t : untag (retag x t) = untag x.
Proof. destruct x; reflexivity. Qed.
Lemma scatter_from_payload i tg vs : map untag (scatter_from i tg vs) = map untag vs.
Proof. revert i. induction vs as [|v vs IH]; intros i; simpl; auto. rewrite untag_retag, IH. reflexivity. Qed.

Lemma elems_ok_map t es (f : tok -> tok) :
  (forall x, tag_of (f x) = tag_of x) -> elems_ok t es -> elems_ok t (map f es).
Proof.
  unfold elems_ok, tags_from. intros Hf H. rewrite map_map, map_length.
  rewrite <- H. apply map_ext. exact Hf.
Qed.

(* ------------------------------------------------------------------ association lists *)
Lemma aget_aset_same {V} k (v : V) m : aget k (aset k v m) = Some v.
Proof.
  induction m as [|[k' v'] m IH]; simpl.
  - rewrite String.eqb_refl. reflexivity.
  - destruct (String.eqb_spec k k'); simpl.
    + rewrite String.eqb_refl. reflexivity.
    + destruct (String.eqb_spec k k'); [contradiction|exact IH].
Qed.
Lemma aget_aset_other {V} k k' (v : V) m : k <> k' -> aget k (aset k' v m) = aget k m.
Proof.
  intros Hne. induction m as [|[k2 v2] m IH]; simpl.
  - destruct (String.eqb_spec k k'); [contradiction|reflexivity].
  - destruct (String.eqb_spec k' k2); simpl.
    + subst k2. destruct (String.eqb_spec k k'); [contradiction|reflexivity].
    + destruct (String.eqb_spec k k2); [reflexivity|exact IH].
Qed.
Lemma keys_aset {V} k (v : V) m x : In x (map fst (aset k v m)) -> x = k \/ In x (map fst m).
Proof.
  induction m as [|[k2 v2] m IH]; simpl.
  - intros [H|[]]; auto.
  - destruct (String.eqb_spec k k2); simpl; intros [H|H]; auto.
    destruct (IH H); auto.
Qed.
Lemma mem_set_add k k' l : mem k (set_add k' l) = String.eqb k k' || mem k l.
Proof.
  unfold set_add. destruct (mem k' l) eqn:E.
  - destruct (String.eqb_spec k k'); [subst; rewrite E; reflexivity|reflexivity].
  - unfold mem. rewrite existsb_app. simpl. rewrite orb_false_r. apply orb_comm.
Qed.

(* ------------------------------------------------------------------ projection on one key *)
Record kview := { vsize : option N; vtoks : list tok; vdone : bool; vout : list tok }.
Definition has_tag (k : string) (x : tok) : bool := String.eqb (tag_of x) k.
Definition view (k : string) (d : gdata) : kview :=
  {| vsize := aget k (size_map d); vtoks := aget_def [] k (token_map d);
     vdone := mem k (done_keys d); vout := filter (has_tag k) (gout d) |}.
Definition key_of (depth : nat) (a : garr) : option string :=
  match a with
  | OnSize t _ => Some t
  | OnElem x => Some (drop_last_s depth (tag_of x))
  | OnTerm _ _ => None
  end.
Definition has_key (depth : nat) (k : string) (a : garr) : bool :=
  match key_of depth a with Some k' => String.eqb k' k | None => false end.

Definition kgather (k : string) (v : kview) : kview :=
  {| vsize := vsize v; vtoks := vtoks v; vdone := true;
     vout := vout v ++ [ListTok k (sort_toks (vtoks v))] |}.
Definition kstep (k : string) (v : kview) (a : garr) : kview :=
  match a with
  | OnSize _ n =>
      let v' := {| vsize := Some n; vtoks := vtoks v; vdone := vdone v; vout := vout v |} in
      if (N.of_nat (length (vtoks v)) =? n)%N then kgather k v' else v'
  | OnElem x =>
      let v' := {| vsize := vsize v; vtoks := vtoks v ++ [x]; vdone := vdone v; vout := vout v |} in
      match vsize v with
      | Some n => if (N.of_nat (length (vtoks v ++ [x])) =? n)%N then kgather k v' else v'
      | None => v'
      end
  | OnTerm _ _ => v
  end.

Lemma view_do_gather_same k d : view k (do_gather k d) = kgather k (view k d).
Proof.
  unfold view, do_gather, kgather; simpl. f_equal.
  - rewrite mem_set_add, String.eqb_refl. reflexivity.
  - rewrite filter_app. simpl. unfold has_tag at 2. simpl. rewrite String.eqb_refl. reflexivity.
Qed.
Lemma view_do_gather_other k k' d : k <> k' -> view k (do_gather k' d) = view k d.
Proof.
  intros Hne. unfold view, do_gather; simpl. f_equal.
  - rewrite mem_set_add. destruct (String.eqb_spec k k'); [contradiction|reflexivity].
  - rewrite filter_app. simpl. unfold has_tag at 2. simpl.
    destruct (String.eqb_spec k' k); [congruence|]. apply app_nil_r.
Qed.

Lemma aget_def_setdefault k k' (m : list (string * list tok)) :
  aget_def [] k (match aget k' m with Some _ => m | None => aset k' [] m end) = aget_def [] k m.
Proof.
  destruct (aget k' m) eqn:E; [reflexivity|].
  unfold aget_def. destruct (String.eqb_spec k k').
  - subst. rewrite aget_aset_same, E. reflexivity.
  - rewrite aget_aset_other by assumption. reflexivity.
Qed.

Lemma view_step_same depth k d a :
  key_of depth a = Some k -> view k (data_step depth d a) = kstep k (view k d) a.
Proof.
  destruct a as [tg n|x|p st]; simpl; intros E; [| |discriminate]; injection E as E; subst.
  - set (tm := match aget k (token_map d) with Some _ => token_map d | None => aset k [] (token_map d) end).
    assert (Htm : aget_def [] k tm = aget_def [] k (token_map d)) by apply aget_def_setdefault.
    rewrite Htm.
    change (vtoks (view k d)) with (aget_def [] k (token_map d)).
    destruct (N.of_nat (length (aget_def [] k (token_map d))) =? n)%N.
    + rewrite view_do_gather_same. f_equal. unfold view; simpl. rewrite aget_aset_same, Htm. reflexivity.
    + unfold view; simpl. rewrite aget_aset_same, Htm. reflexivity.
  - set (k := drop_last_s depth (tag_of x)).
    change (vsize (view k d)) with (aget k (size_map d)).
    change (vtoks (view k d)) with (aget_def [] k (token_map d)).
    assert (Hv : view k {| size_map := size_map d; token_map := aset k (aget_def [] k (token_map d) ++ [x]) (token_map d);
                           done_keys := done_keys d; gout := gout d |}
                 = {| vsize := aget k (size_map d); vtoks := aget_def [] k (token_map d) ++ [x];
                      vdone := vdone (view k d); vout := vout (view k d) |}).
    { unfold view; simpl. f_equal. unfold aget_def. rewrite aget_aset_same. reflexivity. }
    destruct (aget k (size_map d)) as [n|] eqn:Es.
    + destruct (N.of_nat (length (aget_def [] k (token_map d) ++ [x])) =? n)%N.
      * rewrite view_do_gather_same, Hv. reflexivity.
      * exact Hv.
    + exact Hv.
Qed.

Lemma view_step_other depth k d a :
  key_of depth a <> Some k -> view k (data_step depth d a) = view k d.
Proof.
  destruct a as [tg n|x|p st]; simpl; intros E; [| |reflexivity].
  - assert (Hne : k <> tg) by congruence.
    set (tm := match aget tg (token_map d) with Some _ => token_map d | None => aset tg [] (token_map d) end).
    assert (Hv : view k {| size_map := aset tg n (size_map d); token_map := tm; done_keys := done_keys d; gout := gout d |}
                 = view k d).
    { unfold view; simpl. f_equal.
      - apply aget_aset_other; assumption.
      - apply aget_def_setdefault. }
    destruct (N.of_nat (length (aget_def [] tg tm)) =? n)%N; [rewrite view_do_gather_other by assumption|]; exact Hv.
  - set (k' := drop_last_s depth (tag_of x)) in *.
    assert (Hne : k <> k') by congruence.
    assert (Hv : view k {| size_map := size_map d; token_map := aset k' (aget_def [] k' (token_map d) ++ [x]) (token_map d);
                           done_keys := done_keys d; gout := gout d |} = view k d).
    { unfold view; simpl. f_equal. unfold aget_def. rewrite aget_aset_other by assumption. reflexivity. }
    destruct (aget k' (size_map d)) as [n|].
    + destruct (N.of_nat (length (aget_def [] k' (token_map d) ++ [x])) =? n)%N;
        [rewrite view_do_gather_other by assumption|]; exact Hv.
    + exact Hv.
Qed.

Lemma view_fold depth k arr : forall d,
  view k (fold_left (data_step depth) arr d) = fold_left (kstep k) (filter (has_key depth k) arr) (view k d).
Proof.
  induction arr as [|a arr IH]; intros d; simpl; [reflexivity|].
  rewrite IH. unfold has_key at 2.
  destruct (key_of depth a) as [k'|] eqn:E.
  - destruct (String.eqb_spec k' k).
    + subst k'. simpl. rewrite (view_step_same depth k d a E). reflexivity.
    + rewrite view_step_other; [reflexivity|]. rewrite E. congruence.
  - rewrite view_step_other; [reflexivity|]. rewrite E. discriminate.
Qed.

(* every output / every key of token_map comes from the key of some arrival *)
Lemma gout_step depth d a x :
  In x (gout (data_step depth d a)) -> In x (gout d) \/ key_of depth a = Some (tag_of x).
Proof.
  destruct a as [tg n|y|p st]; simpl; auto.
  - match goal with |- context [if ?c then _ else _] => destruct c end; simpl; auto.
    rewrite in_app_iff. simpl. intros [H|[H|[]]]; auto. subst x. auto.
  - destruct (aget (drop_last_s depth (tag_of y)) (size_map d)); simpl; auto.
    match goal with |- context [if ?c then _ else _] => destruct c end; simpl; auto.
    rewrite in_app_iff. simpl. intros [H|[H|[]]]; auto. subst x. auto.
Qed.
Lemma gout_fold depth arr : forall d x,
  In x (gout (fold_left (data_step depth) arr d)) ->
  In x (gout d) \/ exists a, In a arr /\ key_of depth a = Some (tag_of x).
Proof.
  induction arr as [|a arr IH]; intros d x; simpl; auto.
  intros H. destruct (IH _ _ H) as [H1|(b & Hb & Kb)].
  - destruct (gout_step _ _ _ _ H1); eauto.
  - eauto.
Qed.

Lemma tmkeys_do_gather k d : token_map (do_gather k d) = token_map d.
Proof. reflexivity. Qed.
Lemma tmkeys_step depth d a k :
  In k (map fst (token_map (data_step depth d a))) -> In k (map fst (token_map d)) \/ key_of depth a = Some k.
Proof.
  destruct a as [tg n|y|p st]; simpl; auto.
  - intros H.
    assert (H' : In k (map fst (match aget tg (token_map d) with Some _ => token_map d | None => aset tg [] (token_map d) end))).
    { revert H. match goal with |- context [if ?c then _ else _] => destruct c end; simpl; auto. }
    destruct (aget tg (token_map d)); auto.
    apply keys_aset in H'. destruct H'; [subst; auto|auto].
  - intros H.
    assert (H' : In k (map fst (aset (drop_last_s depth (tag_of y))
                 (aget_def [] (drop_last_s depth (tag_of y)) (token_map d) ++ [y]) (token_map d)))).
    { revert H. destruct (aget (drop_last_s depth (tag_of y)) (size_map d)); simpl; auto.
      match goal with |- context [if ?c then _ else _] => destruct c end; simpl; auto. }
    apply keys_aset in H'. destruct H'; [subst; auto|auto].
Qed.
Lemma tmkeys_fold depth arr : forall d k,
  In k (map fst (token_map (fold_left (data_step depth) arr d))) ->
  In k (map fst (token_map d)) \/ exists a, In a arr /\ key_of depth a = Some k.
Proof.
  induction arr as [|a arr IH]; intros d k; simpl; auto.
  intros H. destruct (IH _ _ H) as [H1|(b & Hb & Kb)].
  - destruct (tmkeys_step _ _ _ _ H1); eauto.
  - eauto.
Qed.

Lemma forced_gather_all_done d :
  (forall k, In k (map fst (token_map d)) -> mem k (done_keys d) = true) -> forced_gather d = d.
Proof.
  intros H. unfold forced_gather. rewrite filter_none; [reflexivity|].
  intros k Hk. rewrite (H k Hk). reflexivity.
Qed.

(* ------------------------------------------------------------------ one key: closed form on incomplete prefixes *)
Definition is_size (a : garr) : bool := match a with OnSize _ _ => true | _ => false end.
Fixpoint elems_of (l : list garr) : list tok :=
  match l with [] => [] | OnElem x :: l' => x :: elems_of l' | _ :: l' => elems_of l' end.
Definition has_size (l : list garr) : bool := existsb is_size l.
Fixpoint nsizes (l : list garr) : nat :=
  match l with [] => 0 | a :: l' => (if is_size a then 1 else 0) + nsizes l' end.
Definition kinit : kview := {| vsize := None; vtoks := []; vdone := false; vout := [] |}.
Definition krun (k : string) (l : list garr) : kview := fold_left (kstep k) l kinit.

Lemma elems_of_app l1 l2 : elems_of (l1 ++ l2) = elems_of l1 ++ elems_of l2.
Proof. induction l1 as [|[tg n|x|p st] l1 IH]; simpl; auto. f_equal; auto. Qed.
Lemma elems_of_map l : elems_of (map OnElem l) = l.
Proof. induction l as [|x l IH]; simpl; auto. f_equal; auto. Qed.
Lemma elems_of_perm l1 l2 : Permutation l1 l2 -> Permutation (elems_of l1) (elems_of l2).
Proof.
  induction 1; simpl; auto.
  - destruct x; auto.
  - destruct x, y; auto. apply perm_swap.
  - etransitivity; eauto.
Qed.
Lemma nsizes_perm l1 l2 : Permutation l1 l2 -> nsizes l1 = nsizes l2.
Proof. induction 1; simpl; lia. Qed.
Lemma nsizes_app l1 l2 : nsizes (l1 ++ l2) = nsizes l1 + nsizes l2.
Proof. induction l1; simpl; lia. Qed.
Lemma nsizes_map l : nsizes (map OnElem l) = 0.
Proof. induction l; simpl; auto. Qed.
Lemma nsizes_zero l : nsizes l = 0 -> has_size l = false.
Proof. unfold has_size. induction l as [|a l IH]; simpl; auto. destruct (is_size a); simpl; [lia | auto]. Qed.
Lemma nsizes_pos l : has_size l = false -> nsizes l = 0.
Proof.
  unfold has_size. induction l as [|a l IH]; simpl; auto.
  intros H. apply orb_false_iff in H. destruct H as [H1 H2]. rewrite H1. simpl. auto.
Qed.

Section OneKey.
Variable k : string.
Variable n : nat.
Definition sizes_ok (l : list garr) := forall tg m, In (OnSize tg m) l -> m = N.of_nat n.
Definition incomplete (l : list garr) := has_size l = false \/ length (elems_of l) < n.

Lemma krun_app l a : krun k (l ++ [a]) = kstep k (krun k l) a.
Proof. unfold krun. rewrite fold_left_app. reflexivity. Qed.

Lemma incomplete_prefix l a : incomplete (l ++ [a]) -> incomplete l.
Proof.
  unfold incomplete, has_size. rewrite existsb_app, elems_of_app, app_length. simpl.
  intros [H|H]; [left | right; lia].
  apply orb_false_iff in H. tauto.
Qed.

Lemma neqb_of_nat a b : a <> b -> (N.of_nat a =? N.of_nat b)%N = false.
Proof. intros H. apply N.eqb_neq. intros E. apply Nat2N.inj in E. contradiction. Qed.

Lemma krun_incomplete l :
  sizes_ok l -> incomplete l ->
  krun k l = {| vsize := if has_size l then Some (N.of_nat n) else None; vtoks := elems_of l;
                vdone := false; vout := [] |}.
Proof.
  induction l as [|a l IH] using rev_ind; intros Hok Hinc.
  - reflexivity.
  - assert (Hok' : sizes_ok l) by (intros tg m Hm; eapply Hok; apply in_or_app; left; exact Hm).
    rewrite krun_app, (IH Hok' (incomplete_prefix _ _ Hinc)).
    unfold incomplete in Hinc. unfold has_size in *. rewrite existsb_app, elems_of_app. simpl.
    destruct a as [tg m|x|p st]; simpl.
    + assert (m = N.of_nat n) by (eapply Hok; apply in_or_app; right; left; reflexivity). subst m.
      rewrite orb_true_r, app_nil_r.
      destruct Hinc as [Hinc|Hinc].
      * rewrite existsb_app in Hinc. simpl in Hinc. rewrite orb_true_r in Hinc. discriminate.
      * rewrite elems_of_app, app_length in Hinc. simpl in Hinc.
        rewrite neqb_of_nat by lia. reflexivity.
    + rewrite !orb_false_r.
      destruct (existsb is_size l) eqn:E; simpl; auto.
      destruct Hinc as [Hinc|Hinc].
      * rewrite existsb_app in Hinc. simpl in Hinc. rewrite E in Hinc. discriminate.
      * rewrite elems_of_app in Hinc. simpl in Hinc.
        rewrite neqb_of_nat by lia. reflexivity.
    + rewrite !orb_false_r, app_nil_r. reflexivity.
Qed.
End OneKey.

(* the arrivals of one scattered list: its size token and its element tokens *)
Definition inst_arrivals (k : string) (es : list tok) : list garr :=
  OnSize k (N.of_nat (length es)) :: map OnElem es.

Lemma krun_complete k es l :
  (forall p, Permutation p es -> sort_toks p = es) ->
  Permutation l (inst_arrivals k es) ->
  vdone (krun k l) = true /\ vout (krun k l) = [ListTok k es].
Proof.
  intros Hsort Hp. set (n := length es).
  assert (Hel : Permutation (elems_of l) es).
  { rewrite (elems_of_perm _ _ Hp). unfold inst_arrivals. simpl. rewrite elems_of_map. reflexivity. }
  assert (Hlen : length (elems_of l) = n) by (apply Permutation_length; exact Hel).
  assert (Hns : nsizes l = 1).
  { rewrite (nsizes_perm _ _ Hp). unfold inst_arrivals. simpl. rewrite nsizes_map. reflexivity. }
  assert (Hok : sizes_ok n l).
  { intros tg m Hm. eapply Permutation_in in Hm; [|exact Hp]. destruct Hm as [Hm|Hm].
    - inversion Hm; reflexivity.
    - apply in_map_iff in Hm. destruct Hm as [p [Hm _]]. discriminate. }
  assert (Hnt : forall p st, ~ In (OnTerm p st) l).
  { intros p st Hm. eapply Permutation_in in Hm; [|exact Hp]. destruct Hm as [Hm|Hm]; [discriminate|].
    apply in_map_iff in Hm. destruct Hm as [q [Hm _]]. discriminate. }
  destruct l as [|a0 l0] using rev_ind. { simpl in Hns; lia. }
  clear IHl0. rename l0 into l. rename a0 into a.
  rewrite nsizes_app in Hns. simpl in Hns.
  rewrite elems_of_app, app_length in Hlen.
  assert (Hok' : sizes_ok n l) by (intros tg m Hm; eapply Hok; apply in_or_app; left; exact Hm).
  rewrite krun_app.
  destruct a as [tg m|x|p st]; simpl in *.
  - assert (m = N.of_nat n) by (eapply Hok; apply in_or_app; right; left; reflexivity). subst m.
    assert (Hinc : incomplete n l) by (left; apply nsizes_zero; lia).
    rewrite (krun_incomplete k n l Hok' Hinc). simpl.
    rewrite Nat.add_0_r in Hlen. rewrite Hlen, N.eqb_refl. simpl. split; [reflexivity|].
    f_equal. f_equal. apply Hsort. rewrite elems_of_app in Hel. simpl in Hel. rewrite app_nil_r in Hel. exact Hel.
  - assert (Hinc : incomplete n l) by (right; lia).
    rewrite (krun_incomplete k n l Hok' Hinc). simpl.
    assert (Hhs : has_size l = true).
    { destruct (has_size l) eqn:E; auto. apply nsizes_pos in E. lia. }
    rewrite Hhs. rewrite app_length. simpl. rewrite Hlen, N.eqb_refl. simpl. split; [reflexivity|].
    f_equal. f_equal. apply Hsort. rewrite elems_of_app in Hel. simpl in Hel. exact Hel.
  - exfalso. eapply Hnt. apply in_or_app. right. left. reflexivity.
Qed.

(* ------------------------------------------------------------------ several scattered lists at once *)
Definition inst := (tag * list tok)%type.
Definition ikey (i : inst) : string := render (fst i).
Definition iarr (i : inst) : list garr := inst_arrivals (ikey i) (snd i).
Definition inst_ok (i : inst) : Prop := fst i <> [] /\ elems_ok (fst i) (snd i).
Definition all_arrivals (insts : list inst) : list garr := concat (map iarr insts).

Lemma key_of_iarr i a : inst_ok i -> In a (iarr i) -> key_of 1 a = Some (ikey i).
Proof.
  intros [Ht Hok] [Ha|Ha].
  - subst a. reflexivity.
  - apply in_map_iff in Ha. destruct Ha as (e & <- & He). simpl.
    assert (Hin : In (tag_of e) (map tag_of (snd i))) by (apply in_map; exact He).
    unfold elems_ok, tags_from in Hok. rewrite Hok in Hin.
    apply in_map_iff in Hin. destruct Hin as (j & Ej & _). rewrite <- Ej.
    unfold ikey. rewrite drop_last_render by assumption. reflexivity.
Qed.

Lemma filter_iarr_same i : inst_ok i -> filter (has_key 1 (ikey i)) (iarr i) = iarr i.
Proof.
  intros H. apply filter_all. intros a Ha. unfold has_key.
  rewrite (key_of_iarr i a H Ha). apply String.eqb_refl.
Qed.
Lemma filter_iarr_other i k : inst_ok i -> ikey i <> k -> filter (has_key 1 k) (iarr i) = [].
Proof.
  intros H Hne. apply filter_none. intros a Ha. unfold has_key.
  rewrite (key_of_iarr i a H Ha). destruct (String.eqb_spec (ikey i) k); [contradiction|reflexivity].
Qed.
Lemma all_arrivals_cons h t : all_arrivals (h :: t) = iarr h ++ all_arrivals t.
Proof. reflexivity. Qed.
Lemma filter_all_arrivals_none insts k :
  Forall inst_ok insts -> ~ In k (map ikey insts) -> filter (has_key 1 k) (all_arrivals insts) = [].
Proof.
  induction insts as [|h t IH]; intros Hok Hnin; [reflexivity|].
  inversion Hok; subst. rewrite all_arrivals_cons, filter_app.
  rewrite (filter_iarr_other h k H1).
  - apply IH; auto. intros H. apply Hnin. right. exact H.
  - intros E. apply Hnin. left. exact E.
Qed.
Lemma filter_all_arrivals insts i :
  Forall inst_ok insts -> NoDup (map ikey insts) -> In i insts ->
  filter (has_key 1 (ikey i)) (all_arrivals insts) = iarr i.
Proof.
  induction insts as [|h t IH]; intros Hok Hnd Hin; [contradiction|].
  inversion Hok; subst. inversion Hnd as [|? ? Hnin Hnd']; subst.
  rewrite all_arrivals_cons, filter_app. destruct Hin as [->|Hin].
  - rewrite filter_iarr_same by assumption.
    rewrite filter_all_arrivals_none by assumption. apply app_nil_r.
  - rewrite (filter_iarr_other h (ikey i) H1).
    + apply IH; auto.
    + intros E. apply Hnin. rewrite E. apply in_map. exact Hin.
Qed.

Lemma in_all_arrivals insts a : In a (all_arrivals insts) -> exists i, In i insts /\ In a (iarr i).
Proof.
  unfold all_arrivals. intros H. apply in_concat in H. destruct H as (l & Hl & Ha).
  apply in_map_iff in Hl. destruct Hl as (i & <- & Hi). eauto.
Qed.

Lemma view_dinit k : view k dinit = kinit.
Proof. reflexivity. Qed.

Lemma data_many insts arr :
  Forall inst_ok insts -> NoDup (map ikey insts) -> Permutation arr (all_arrivals insts) ->
  let d := fold_left (data_step 1) arr dinit in
  (forall i, In i insts ->
     filter (has_tag (ikey i)) (gout d) = [ListTok (ikey i) (snd i)] /\ mem (ikey i) (done_keys d) = true)
  /\ (forall x, In x (gout d) -> exists i, In i insts /\ tag_of x = ikey i)
  /\ (forall k, In k (map fst (token_map d)) -> mem k (done_keys d) = true).
Proof.
  intros Hok Hnd Hp d.
  assert (H1 : forall i, In i insts ->
     filter (has_tag (ikey i)) (gout d) = [ListTok (ikey i) (snd i)] /\ mem (ikey i) (done_keys d) = true).
  { intros i Hi.
    assert (Hi_ok : inst_ok i) by (rewrite Forall_forall in Hok; apply Hok; exact Hi).
    pose proof (view_fold 1 (ikey i) arr dinit) as V. fold d in V. rewrite view_dinit in V.
    assert (Hpi : Permutation (filter (has_key 1 (ikey i)) arr) (iarr i)).
    { rewrite <- (filter_all_arrivals insts i Hok Hnd Hi). apply filter_perm. exact Hp. }
    destruct (krun_complete (ikey i) (snd i) _
                (fun p Hp' => sort_canonical (fst i) (snd i) p (proj1 Hi_ok) (proj2 Hi_ok) Hp') Hpi) as [Hd Ho].
    unfold krun in Hd, Ho. rewrite <- V in Hd, Ho. simpl in Hd, Ho. split; assumption. }
  split; [exact H1|].
  assert (Hkey : forall a, In a arr -> exists i, In i insts /\ key_of 1 a = Some (ikey i)).
  { intros a Ha. eapply Permutation_in in Ha; [|exact Hp].
    destruct (in_all_arrivals _ _ Ha) as (i & Hi & Hai). exists i. split; auto.
    apply key_of_iarr; auto. rewrite Forall_forall in Hok. apply Hok. exact Hi. }
  split.
  - intros x Hx. destruct (gout_fold 1 arr dinit x Hx) as [[]|(a & Ha & Ka)].
    destruct (Hkey a Ha) as (i & Hi & Ki). exists i. split; auto. congruence.
  - intros k Hk. destruct (tmkeys_fold 1 arr dinit k Hk) as [[]|(a & Ha & Ka)].
    destruct (Hkey a Ha) as (i & Hi & Ki).
    assert (k = ikey i) by congruence. subst k. apply H1. exact Hi.
Qed.

(* ------------------------------------------------------------------ the whole step, with termination tokens *)
Definition is_term (a : garr) : bool := match a with OnTerm _ _ => true | _ => false end.

Lemma fold_tokens depth l : forall s,
  (forall a, In a l -> is_term a = false /\ port_open s (port_of a) = true) ->
  fold_left (gather_step depth) l s =
  {| gd := fold_left (data_step depth) l (gd s); sopen := sopen s; eopen := eopen s;
     gstatus := gstatus s; gfinal := gfinal s |}.
Proof.
  induction l as [|a l IH]; intros s H.
  - destruct s; reflexivity.
  - simpl. destruct (H a (or_introl eq_refl)) as [Ht Ho].
    assert (E : gather_step depth s a =
                {| gd := data_step depth (gd s) a; sopen := sopen s; eopen := eopen s;
                   gstatus := gstatus s; gfinal := gfinal s |}).
    { unfold gather_step. rewrite Ho. simpl. destruct a; [reflexivity|reflexivity|discriminate]. }
    rewrite E. rewrite IH; [reflexivity|].
    intros b Hb. destruct (H b (or_intror Hb)) as [Hbt Hbo]. split; [exact Hbt|].
    destruct (port_of b); exact Hbo.
Qed.

Lemma all_arrivals_no_term insts a : Forall inst_ok insts -> In a (all_arrivals insts) -> is_term a = false.
Proof.
  intros _ Ha. destruct (in_all_arrivals _ _ Ha) as (i & _ & [H|H]).
  - subst a. reflexivity.
  - apply in_map_iff in H. destruct H as (e & <- & _). reflexivity.
Qed.

Definition gport_eqb (p q : gport) : bool :=
  match p, q with SizeP, SizeP | ElemP, ElemP => true | _, _ => false end.

(* every legal complete arrival sequence: the tokens in any order (l1 ++ l2), the termination token of
   one port anywhere provided no token of that port follows it, the other termination token last *)
Lemma gather_many insts l1 l2 p1 p2 :
  Forall inst_ok insts -> NoDup (map ikey insts) ->
  Permutation (l1 ++ l2) (all_arrivals insts) ->
  p1 <> p2 -> (forall a, In a l2 -> port_of a <> p1) ->
  let s := gather_run 1 (l1 ++ OnTerm p1 Completed :: l2 ++ [OnTerm p2 Completed]) in
  (forall i, In i insts -> filter (has_tag (ikey i)) (gout (gd s)) = [ListTok (ikey i) (snd i)])
  /\ (forall x, In x (gout (gd s)) -> exists i, In i insts /\ tag_of x = ikey i)
  /\ gfinal s = Some (match insts with [] => Skipped | _ => Completed end).
Proof.
  intros Hok Hnd Hp Hne Hl2 s.
  destruct (data_many insts (l1 ++ l2) Hok Hnd Hp) as (D1 & D2 & D3).
  set (d := fold_left (data_step 1) (l1 ++ l2) dinit) in *.
  assert (Hnt : forall a, In a (l1 ++ l2) -> is_term a = false).
  { intros a Ha. eapply all_arrivals_no_term; [exact Hok|]. eapply Permutation_in; [exact Hp|exact Ha]. }
  assert (Hs : gd s = d /\ gfinal s = Some (get_status Completed (match gout d with [] => true | _ => false end))).
  { assert (R : s = gather_step 1 (fold_left (gather_step 1) l2
                       (gather_step 1 (fold_left (gather_step 1) l1 ginit) (OnTerm p1 Completed)))
                     (OnTerm p2 Completed)).
    { subst s. unfold gather_run. rewrite fold_left_app. simpl. rewrite fold_left_app. reflexivity. }
    assert (E1 : fold_left (gather_step 1) l1 ginit =
                 {| gd := fold_left (data_step 1) l1 dinit; sopen := true; eopen := true;
                    gstatus := Skipped; gfinal := None |}).
    { rewrite fold_tokens; [reflexivity|].
      intros a Ha. split; [apply Hnt; apply in_or_app; left; exact Ha|]. destruct (port_of a); reflexivity. }
    assert (E2 : gather_step 1 {| gd := fold_left (data_step 1) l1 dinit; sopen := true; eopen := true;
                                  gstatus := Skipped; gfinal := None |} (OnTerm p1 Completed) =
                 {| gd := fold_left (data_step 1) l1 dinit;
                    sopen := negb (gport_eqb p1 SizeP); eopen := negb (gport_eqb p1 ElemP);
                    gstatus := Completed; gfinal := None |}).
    { destruct p1; reflexivity. }
    assert (E3 : fold_left (gather_step 1) l2
                   {| gd := fold_left (data_step 1) l1 dinit;
                      sopen := negb (gport_eqb p1 SizeP); eopen := negb (gport_eqb p1 ElemP);
                      gstatus := Completed; gfinal := None |} =
                 {| gd := d; sopen := negb (gport_eqb p1 SizeP); eopen := negb (gport_eqb p1 ElemP);
                    gstatus := Completed; gfinal := None |}).
    { rewrite fold_tokens.
      - simpl. unfold d. rewrite fold_left_app. reflexivity.
      - intros a Ha. split; [apply Hnt; apply in_or_app; right; exact Ha|].
        specialize (Hl2 a Ha). destruct p1, (port_of a); simpl; congruence. }
    assert (Hf : forced_gather d = d) by (apply forced_gather_all_done; exact D3).
    rewrite R, E1, E2, E3.
    destruct p1, p2; try congruence; simpl; unfold finish; rewrite Hf; simpl; split; reflexivity. }
  destruct Hs as [Hd Hf]. rewrite Hd. split; [intros i Hi; apply D1; exact Hi|]. split; [exact D2|].
  rewrite Hf. destruct insts as [|i insts'].
  - destruct (gout d) as [|x g] eqn:Eg; [reflexivity|].
    destruct (D2 x (or_introl eq_refl)) as (i & [] & _).
  - destruct (D1 i (or_introl eq_refl)) as [Hi _].
    destruct (gout d); [discriminate Hi|reflexivity].
Qed.

(* the outputs, as a multiset, are exactly one list per scattered list *)
Definition expected_out (insts : list inst) : list tok := map (fun i => ListTok (ikey i) (snd i)) insts.

Lemma perm_by_keys insts : forall g,
  NoDup (map ikey insts) ->
  (forall i, In i insts -> filter (has_tag (ikey i)) g = [ListTok (ikey i) (snd i)]) ->
  (forall x, In x g -> exists i, In i insts /\ tag_of x = ikey i) ->
  Permutation g (expected_out insts).
Proof.
  induction insts as [|h t IH]; intros g Hnd H1 H2.
  - destruct g as [|x g]; [constructor|]. destruct (H2 x (or_introl eq_refl)) as (i & [] & _).
  - inversion Hnd as [|? ? Hnin Hnd']; subst.
    rewrite (filter_split_perm (has_tag (ikey h)) g).
    rewrite (H1 h (or_introl eq_refl)). simpl. constructor.
    apply IH; auto.
    + intros i Hi. rewrite filter_filter_sub; [apply H1; right; exact Hi|].
      intros x Hx. unfold has_tag in *. apply String.eqb_eq in Hx.
      destruct (String.eqb_spec (tag_of x) (ikey h)) as [E|E]; [|reflexivity].
      exfalso. apply Hnin. rewrite <- E, Hx. apply in_map. exact Hi.
    + intros x Hx. apply filter_In in Hx. destruct Hx as [Hx Hneg].
      destruct (H2 x Hx) as (i & [Hi|Hi] & Ei).
      * subst i. unfold has_tag in Hneg. rewrite Ei, String.eqb_refl in Hneg. discriminate.
      * exists i. split; assumption.
Qed.

Lemma gather_many_perm insts l1 l2 p1 p2 :
  Forall inst_ok insts -> NoDup (map ikey insts) ->
  Permutation (l1 ++ l2) (all_arrivals insts) ->
  p1 <> p2 -> (forall a, In a l2 -> port_of a <> p1) ->
  let s := gather_run 1 (l1 ++ OnTerm p1 Completed :: l2 ++ [OnTerm p2 Completed]) in
  Permutation (gout (gd s)) (expected_out insts)
  /\ gfinal s = Some (match insts with [] => Skipped | _ => Completed end).
Proof.
  intros Hok Hnd Hp Hne Hl2 s.
  destruct (gather_many insts l1 l2 p1 p2 Hok Hnd Hp Hne Hl2) as (G1 & G2 & G3).
  split; [|exact G3]. apply perm_by_keys; assumption.
Qed.

(* one scattered list *)
Lemma gather_one t es l1 l2 p1 p2 :
  t <> [] -> elems_ok t es ->
  Permutation (l1 ++ l2) (inst_arrivals (render t) es) ->
  p1 <> p2 -> (forall a, In a l2 -> port_of a <> p1) ->
  let s := gather_run 1 (l1 ++ OnTerm p1 Completed :: l2 ++ [OnTerm p2 Completed]) in
  gout (gd s) = [ListTok (render t) es] /\ gfinal s = Some Completed.
Proof.
  intros Ht Hok Hp Hne Hl2 s.
  assert (Hp' : Permutation (l1 ++ l2) (all_arrivals [(t, es)])).
  { unfold all_arrivals. simpl. rewrite app_nil_r. exact Hp. }
  destruct (gather_many_perm [(t, es)] l1 l2 p1 p2) as (G1 & G2); auto.
  - constructor; [split; assumption|constructor].
  - constructor; [intros []|constructor].
  - split; [|exact G2]. fold s in G1. unfold expected_out in G1. simpl in G1.
    apply Permutation_sym, Permutation_length_1_inv in G1. exact G1.
Qed.

(* two nested scatters, two chained depth-1 gathers *)
Fixpoint inner_insts (t : tag) (i : nat) (ess : list (list tok)) : list inst :=
  match ess with
  | [] => []
  | es :: ess' => (t ++ [N.of_nat i], es) :: inner_insts t (S i) ess'
  end.

Lemma inner_insts_keys t i ess :
  t <> [] -> map ikey (inner_insts t i ess) = map (fun j => render (t ++ [N.of_nat j])) (seq i (length ess)).
Proof. intros Ht. revert i. induction ess as [|es ess IH]; intros i; simpl; [reflexivity|]. f_equal. apply IH. Qed.

Lemma inner_insts_tags t i ess : tags_from t i (expected_out (inner_insts t i ess)).
Proof.
  unfold tags_from. revert i. induction ess as [|es ess IH]; intros i; simpl; [reflexivity|].
  f_equal. apply IH.
Qed.

Lemma inner_insts_nodup t i ess : t <> [] -> NoDup (map ikey (inner_insts t i ess)).
Proof.
  intros Ht. rewrite inner_insts_keys by assumption.
  apply FinFun.Injective_map_NoDup; [|apply seq_NoDup].
  intros a b E. apply render_inj in E; try (destruct t; discriminate).
  apply app_inv_head in E. injection E as E. apply Nat2N.inj in E. exact E.
Qed.

Lemma gather_nested t ess l1 l2 p1 p2 m1 m2 q1 q2 :
  t <> [] ->
  Forall inst_ok (inner_insts t 0 ess) ->
  (* inner gather: all element tokens t.i.j and the size tokens t.i, in any legal order *)
  Permutation (l1 ++ l2) (all_arrivals (inner_insts t 0 ess)) ->
  p1 <> p2 -> (forall a, In a l2 -> port_of a <> p1) ->
  let s_in := gather_run 1 (l1 ++ OnTerm p1 Completed :: l2 ++ [OnTerm p2 Completed]) in
  (* outer gather: the inner gather's outputs (in whatever order it emitted them, re-permuted at will)
     and the outer size token *)
  Permutation (m1 ++ m2) (OnSize (render t) (N.of_nat (length ess)) :: map OnElem (gout (gd s_in))) ->
  q1 <> q2 -> (forall a, In a m2 -> port_of a <> q1) ->
  let s_out := gather_run 1 (m1 ++ OnTerm q1 Completed :: m2 ++ [OnTerm q2 Completed]) in
  gout (gd s_out) = [ListTok (render t) (expected_out (inner_insts t 0 ess))] /\ gfinal s_out = Some Completed.
Proof.
  intros Ht Hok Hp Hne Hl2 s_in Hm Hqne Hm2 s_out.
  destruct (gather_many_perm (inner_insts t 0 ess) l1 l2 p1 p2 Hok (inner_insts_nodup t 0 ess Ht) Hp Hne Hl2)
    as (G1 & _). fold s_in in G1.
  apply (gather_one t (expected_out (inner_insts t 0 ess)) m1 m2 q1 q2); auto.
  - apply inner_insts_tags.
  - rewrite Hm. unfold inst_arrivals.
    assert (El : length (expected_out (inner_insts t 0 ess)) = length ess).
    { unfold expected_out. rewrite map_length. clear. generalize 0. induction ess; intros; simpl; auto. }
    rewrite El. constructor. apply Permutation_map. exact G1.
Qed.

(* ------------------------------------------------------------------ statements in terms of [scatter] *)
Lemma scatter_spec t vs :
  t <> [] ->
  exists es, scatter (ListTok (render t) vs) = Some (es, (render t, N.of_nat (length vs)))
             /\ elems_ok t es /\ map untag es = map untag vs /\ length es = length vs.
Proof.
  intros Ht. exists (scatter_elems (render t) vs). split; [reflexivity|]. split; [apply scatter_elems_ok; exact Ht|].
  split; [apply scatter_from_payload|apply scatter_from_length].
Qed.

Lemma roundtrip t vs (f : tok -> tok) es sz l1 l2 p1 p2 :
  t <> [] -> (forall x, tag_of (f x) = tag_of x) ->
  scatter (ListTok (render t) vs) = Some (es, sz) ->
  Permutation (l1 ++ l2) (OnSize (fst sz) (snd sz) :: map OnElem (map f es)) ->
  p1 <> p2 -> (forall a, In a l2 -> port_of a <> p1) ->
  let s := gather_run 1 (l1 ++ OnTerm p1 Completed :: l2 ++ [OnTerm p2 Completed]) in
  gout (gd s) = [ListTok (render t) (map f es)] /\ gfinal s = Some Completed
  /\ map untag es = map untag vs.
Proof.
  intros Ht Hf Hsc Hp Hne Hl2 s. simpl in Hsc. injection Hsc as <- <-. simpl in Hp.
  assert (Hok : elems_ok t (map f (scatter_elems (render t) vs))).
  { apply elems_ok_map; [exact Hf|apply scatter_elems_ok; exact Ht]. }
  destruct (gather_one t (map f (scatter_elems (render t) vs)) l1 l2 p1 p2 Ht Hok) as [G1 G2]; auto.
  - unfold inst_arrivals. rewrite map_length. unfold scatter_elems. rewrite scatter_from_length. exact Hp.
  - split; [exact G1|]. split; [exact G2|]. apply scatter_from_payload.
Qed.

(* the element tokens after two nested scatters and an element-wise step f: ess_i = f (t.i.0), f (t.i.1), ... *)
Fixpoint nested_ess (t : tag) (i : nat) (f : tok -> tok) (wss : list (list tok)) : list (list tok) :=
  match wss with
  | [] => []
  | ws :: r => map f (scatter_elems (render (t ++ [N.of_nat i])) ws) :: nested_ess t (S i) f r
  end.
Lemma nested_ess_length t i f wss : length (nested_ess t i f wss) = length wss.
Proof. revert i. induction wss; intros; simpl; auto. Qed.
Lemma nested_inst_ok t i f wss :
  (forall x, tag_of (f x) = tag_of x) -> Forall inst_ok (inner_insts t i (nested_ess t i f wss)).
Proof.
  intros Hf. revert i. induction wss as [|ws r IH]; intros i; simpl; constructor; [|apply IH].
  split; simpl; [destruct t; discriminate|].
  apply elems_ok_map; [exact Hf|]. apply scatter_elems_ok. destruct t; discriminate.
Qed.
(* the outer scatter hands list number i to the inner scatter with tag t.i *)
Lemma outer_scatter_elems t i (wss : list (list tok)) (a : string) :
  t <> [] ->
  scatter_from (N.of_nat i) (render t) (map (ListTok a) wss) =
  map (fun p => ListTok (render (t ++ [N.of_nat (fst p)])) (snd p)) (combine (seq i (length wss)) wss).
Proof.
  intros Ht. revert i. induction wss as [|ws r IH]; intros i; simpl; [reflexivity|].
  rewrite (render_snoc t (N.of_nat i) Ht). f_equal. rewrite <- Nat2N.inj_succ. apply IH.
Qed.

Lemma nested_roundtrip t wss (f : tok -> tok) l1 l2 p1 p2 m1 m2 q1 q2 :
  t <> [] -> (forall x, tag_of (f x) = tag_of x) ->
  let insts := inner_insts t 0 (nested_ess t 0 f wss) in
  Permutation (l1 ++ l2) (all_arrivals insts) ->
  p1 <> p2 -> (forall a, In a l2 -> port_of a <> p1) ->
  let s_in := gather_run 1 (l1 ++ OnTerm p1 Completed :: l2 ++ [OnTerm p2 Completed]) in
  Permutation (m1 ++ m2) (OnSize (render t) (N.of_nat (length wss)) :: map OnElem (gout (gd s_in))) ->
  q1 <> q2 -> (forall a, In a m2 -> port_of a <> q1) ->
  let s_out := gather_run 1 (m1 ++ OnTerm q1 Completed :: m2 ++ [OnTerm q2 Completed]) in
  gout (gd s_out) = [ListTok (render t) (expected_out insts)] /\ gfinal s_out = Some Completed.
Proof.
  intros Ht Hf insts Hp Hne Hl2 s_in Hm Hqne Hm2 s_out.
  apply (gather_nested t (nested_ess t 0 f wss) l1 l2 p1 p2 m1 m2 q1 q2); auto.
  - apply nested_inst_ok. exact Hf.
  - rewrite nested_ess_length. exact Hm.
Qed.

Lemma numeric_order t i j x y :
  t <> [] -> tag_of x = render (t ++ [i]) -> tag_of y = render (t ++ [j]) ->
  ((cmp_tok x y < 0)%Z <-> (i < j)%N) /\ ((cmp_tok x y <=? 0)%Z = (i <=? j)%N).
Proof.
  intros Ht Ex Ey.
  rewrite (cmp_tok_good x y (t ++ [i]) (t ++ [j])); auto; try (destruct t; discriminate).
  rewrite compare_snoc. split; [lia|].
  destruct (Z.leb_spec (Z.of_N i - Z.of_N j) 0), (N.leb_spec i j); auto; lia.
Qed.
