(* Gather/Util.v — general list / sorting / association-list lemmas used by Gather/Proofs.v and Loop/Proofs.v. *)
From Coq Require Import List Bool Arith Lia Permutation Sorting.Sorted.
From SF Require Import Base.Str.
Import ListNotations.

Lemma filter_perm {A} (f : A -> bool) l l' : Permutation l l' -> Permutation (filter f l) (filter f l').
Proof.
  induction 1; simpl; auto.
  - destruct (f x); auto.
  - destruct (f x), (f y); auto. apply perm_swap.
  - etransitivity; eauto.
Qed.

Lemma filter_all {A} (f : A -> bool) l : (forall x, In x l -> f x = true) -> filter f l = l.
Proof.
  induction l as [|a l IH]; simpl; intros H; auto.
  rewrite (H a) by auto. f_equal. apply IH. intros; apply H; auto.
Qed.

Lemma filter_none {A} (f : A -> bool) l : (forall x, In x l -> f x = false) -> filter f l = [].
Proof.
  induction l as [|a l IH]; simpl; intros H; auto.
  rewrite (H a) by auto. apply IH. intros; apply H; auto.
Qed.

Lemma NoDup_map_inj_in {A B} (f : A -> B) l x y :
  NoDup (map f l) -> In x l -> In y l -> f x = f y -> x = y.
Proof.
  induction l as [|a l IH]; simpl; intros Hnd Hx Hy E; [contradiction|].
  inversion Hnd as [|? ? Hnin Hnd']; subst.
  destruct Hx as [->|Hx], Hy as [->|Hy]; auto.
  - exfalso. apply Hnin. rewrite E. apply in_map. exact Hy.
  - exfalso. apply Hnin. rewrite <- E. apply in_map. exact Hx.
Qed.

(* a sorted list is determined by its permutation class when the order is antisymmetric on it *)
Lemma sorted_perm_unique {A} (le : A -> A -> Prop) :
  (forall x y z, le x y -> le y z -> le x z) ->
  forall l1 l2,
    (forall x y, In x l1 -> In y l1 -> le x y -> le y x -> x = y) ->
    Permutation l1 l2 -> Sorted le l1 -> Sorted le l2 -> l1 = l2.
Proof.
  intros Htr. induction l1 as [|a l1 IH]; intros l2 Hanti Hp H1 H2.
  - apply Permutation_nil in Hp. subst; auto.
  - destruct l2 as [|b l2]. { apply Permutation_sym, Permutation_nil in Hp. discriminate. }
    assert (Hs1 : StronglySorted le (a :: l1)) by (apply Sorted_StronglySorted; auto; exact Htr).
    assert (Hs2 : StronglySorted le (b :: l2)) by (apply Sorted_StronglySorted; auto; exact Htr).
    inversion Hs1 as [|? ? Hs1' Hall1]; subst. inversion Hs2 as [|? ? Hs2' Hall2]; subst.
    assert (a = b).
    { assert (Ha : In a (b :: l2)) by (eapply Permutation_in; [exact Hp | left; auto]).
      assert (Hb : In b (a :: l1)) by (eapply Permutation_in; [apply Permutation_sym; exact Hp | left; auto]).
      destruct Ha as [->|Ha]; auto. destruct Hb as [->|Hb]; auto.
      rewrite Forall_forall in Hall1, Hall2.
      apply Hanti; [left; auto | right; auto | apply Hall1; auto | apply Hall2; auto]. }
    subst b. f_equal. apply IH.
    + intros x y Hx Hy. apply Hanti; right; auto.
    + eapply Permutation_cons_inv; eauto.
    + inversion H1; auto.
    + inversion H2; auto.
Qed.

Lemma filter_split_perm {A} (f : A -> bool) l :
  Permutation l (filter f l ++ filter (fun x => negb (f x)) l).
Proof.
  induction l as [|a l IH]; simpl; auto.
  destruct (f a); simpl.
  - constructor. exact IH.
  - apply Permutation_cons_app. exact IH.
Qed.

Lemma filter_filter_sub {A} (f g : A -> bool) l :
  (forall x, f x = true -> g x = true) -> filter f (filter g l) = filter f l.
Proof.
  intros H. induction l as [|a l IH]; simpl; auto.
  destruct (g a) eqn:Eg; simpl.
  - destruct (f a); [f_equal|]; exact IH.
  - destruct (f a) eqn:Ef; [rewrite (H a Ef) in Eg; discriminate|exact IH].
Qed.
