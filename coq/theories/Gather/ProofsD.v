(* Gather/ProofsD.v — a single GatherStep of depth d >= 1 over d nested scatter levels (flat gather, as used for
   flat_crossproduct): lemmas for Props/C01.v (C01_gather_depth_d ...). *)
From Coq Require Import List Ascii Bool Arith NArith ZArith Lia Permutation Sorting.Sorted.
From SF Require Import Base.Str Base.Dec Tags.Model Tags.Proofs Gather.Model Gather.Util Gather.Proofs.
Import ListNotations.
Local Open Scope string_scope. Local Open Scope list_scope.

(* ------------------------------------------------------------------ sorting, for any strictly increasing tag list *)
Definition tlt (a b : tag) : Prop := (compare_tags a b < 0)%Z.

Lemma tlt_trans a b c : tlt a b -> tlt b c -> tlt a c.
Proof.
  unfold tlt. intros H1 H2.
  assert (A : (compare_tags a b <= 0)%Z) by lia. assert (B : (compare_tags b c <= 0)%Z) by lia.
  destruct (compare_trans a b c A B) as [_ H]. apply H. left. exact H1.
Qed.
Lemma tlt_irrefl a : ~ tlt a a.
Proof. unfold tlt. rewrite compare_refl. lia. Qed.

(* es carry, in this order, the rendered tags ts *)
Definition tagged (ts : list tag) (es : list tok) : Prop :=
  map tag_of es = map render ts /\ Forall (fun a => a <> []) ts /\ Sorted tlt ts.

Lemma tagged_good ts es : tagged ts es -> Forall good es.
Proof.
  intros (H & Hne & _). revert ts H Hne. induction es as [|e es IH]; intros [|a ts] H Hne; simpl in *; try discriminate; constructor.
  - injection H as H1 _. inversion Hne; subst. exists a. split; assumption.
  - injection H as _ H2. inversion Hne; subst. eapply IH; eauto.
Qed.

Lemma tagged_sorted ts es : tagged ts es -> Sorted tle es.
Proof.
  intros (H & Hne & Hs). revert ts H Hne Hs.
  induction es as [|e es IH]; intros [|a ts] H Hne Hs; simpl in *; try discriminate; [constructor|].
  injection H as H1 H2. inversion Hne as [|? ? Ha Hne']; subst. inversion Hs as [|? ? Hs' Hhd]; subst.
  constructor; [eapply IH; eauto|].
  destruct es as [|e' es]; [constructor|].
  destruct ts as [|b ts]; [discriminate|]. simpl in H2. injection H2 as H2 _.
  inversion Hne' as [|? ? Hb _]; subst. inversion Hhd; subst.
  constructor. exists a, b. repeat split; auto. unfold tlt in *. lia.
Qed.

Lemma sorted_tlt_nodup ts : Sorted tlt ts -> NoDup ts.
Proof.
  intros Hs. apply Sorted_StronglySorted in Hs; [|intros x y z; apply tlt_trans].
  induction Hs as [|a l Hs IH Hall]; constructor; auto.
  intros Hin. rewrite Forall_forall in Hall. exact (tlt_irrefl a (Hall a Hin)).
Qed.

Lemma tagged_nodup ts es : tagged ts es -> NoDup (map tag_of es).
Proof.
  intros (H & Hne & Hs). rewrite H. apply sorted_tlt_nodup in Hs.
  clear H es. induction ts as [|a ts IH]; simpl; constructor.
  - inversion Hs; subst. inversion Hne; subst. intros Hin. apply in_map_iff in Hin.
    destruct Hin as (b & Eb & Hb). rewrite Forall_forall in H4.
    apply render_inj in Eb; auto. subst b. contradiction.
  - inversion Hs; subst. inversion Hne; subst. apply IH; auto.
Qed.

Lemma sort_canonical_gen ts es p : tagged ts es -> Permutation p es -> sort_toks p = es.
Proof.
  intros Hok Hp.
  assert (Hg : Forall good es) by (eapply tagged_good; exact Hok).
  apply (sorted_perm_unique tle tle_trans).
  - intros x y Hx Hy (a & b & Ha & Hb & Ea & Eb & L1) (b' & a' & Hb' & Ha' & Eb' & Ea' & L2).
    assert (a = a') by (apply render_inj; auto; congruence).
    assert (b = b') by (apply render_inj; auto; congruence). subst a' b'.
    assert (E : compare_tags a b = 0%Z) by (rewrite (compare_antisym a b) in L2; lia).
    apply compare_eq in E. subst b.
    assert (Hin : forall z, In z (sort_toks p) -> In z es).
    { intros z Hz. eapply Permutation_in; [|exact Hz]. rewrite sort_toks_perm. exact Hp. }
    apply (NoDup_map_inj_in tag_of es x y).
    + eapply tagged_nodup; exact Hok.
    + apply Hin; exact Hx.
    + apply Hin; exact Hy.
    + congruence.
  - rewrite sort_toks_perm. exact Hp.
  - apply sort_toks_sorted. eapply Permutation_Forall; [apply Permutation_sym; exact Hp | exact Hg].
  - eapply tagged_sorted. exact Hok.
Qed.

(* ------------------------------------------------------------------ the key of an element at depth d *)
Lemma drop_last_render_d d t s :
  t <> [] -> length s = d -> 1 <= d -> drop_last_s d (render (t ++ s)) = render t.
Proof.
  intros Ht Hs Hd. unfold drop_last_s.
  rewrite split_render by (intros E; apply app_eq_nil in E; destruct E; contradiction).
  destruct d as [|d']; [lia|].
  rewrite map_app, app_length, !map_length, Hs.
  replace (length t + S d' - S d') with (length (map dec t) + 0) by (rewrite map_length; lia).
  rewrite firstn_app_2. simpl. rewrite app_nil_r. reflexivity.
Qed.

(* es = the element tokens after d nested scatters below tag t: tags t ++ s, |s| = d, in increasing tag order *)
Definition flat_ok (d : nat) (t : tag) (ss : list (list N)) (es : list tok) : Prop :=
  map tag_of es = map (fun s => render (t ++ s)) ss /\ Forall (fun s => length s = d) ss /\
  Sorted tlt (map (app t) ss).

Lemma flat_tagged d t ss es : t <> [] -> flat_ok d t ss es -> tagged (map (app t) ss) es.
Proof.
  intros Ht (H1 & H2 & H3). split; [rewrite map_map; exact H1|]. split; [|exact H3].
  apply Forall_forall. intros a Ha. apply in_map_iff in Ha. destruct Ha as (s & <- & _). intros E; apply app_eq_nil in E; destruct E; contradiction.
Qed.

Lemma key_of_flat d t ss es a :
  t <> [] -> 1 <= d -> flat_ok d t ss es ->
  In a (inst_arrivals (render t) es) -> key_of d a = Some (render t).
Proof.
  intros Ht Hd (H1 & H2 & _) [Ha|Ha].
  - subst a. reflexivity.
  - apply in_map_iff in Ha. destruct Ha as (e & <- & He). simpl.
    assert (Hin : In (tag_of e) (map tag_of es)) by (apply in_map; exact He).
    rewrite H1 in Hin. apply in_map_iff in Hin. destruct Hin as (s & Es & Hs). rewrite <- Es.
    rewrite Forall_forall in H2. rewrite (drop_last_render_d d t s Ht (H2 s Hs) Hd). reflexivity.
Qed.

(* ------------------------------------------------------------------ termination tokens, any depth *)
Lemma run_with_terms d l1 l2 p1 p2 :
  (forall a, In a (l1 ++ l2) -> is_term a = false) ->
  p1 <> p2 -> (forall a, In a l2 -> port_of a <> p1) ->
  let dd := fold_left (data_step d) (l1 ++ l2) dinit in
  forced_gather dd = dd ->
  let s := gather_run d (l1 ++ OnTerm p1 Completed :: l2 ++ [OnTerm p2 Completed]) in
  gd s = dd /\ gfinal s = Some (get_status Completed (match gout dd with [] => true | _ => false end)).
Proof.
  intros Hnt Hne Hl2 dd Hf s.
  assert (R : s = gather_step d (fold_left (gather_step d) l2
                     (gather_step d (fold_left (gather_step d) l1 ginit) (OnTerm p1 Completed)))
                   (OnTerm p2 Completed)).
  { subst s. unfold gather_run. rewrite fold_left_app. simpl. rewrite fold_left_app. reflexivity. }
  assert (E1 : fold_left (gather_step d) l1 ginit =
               {| gd := fold_left (data_step d) l1 dinit; sopen := true; eopen := true;
                  gstatus := Skipped; gfinal := None |}).
  { rewrite fold_tokens; [reflexivity|].
    intros a Ha. split; [apply Hnt; apply in_or_app; left; exact Ha|]. destruct (port_of a); reflexivity. }
  assert (E2 : gather_step d {| gd := fold_left (data_step d) l1 dinit; sopen := true; eopen := true;
                                gstatus := Skipped; gfinal := None |} (OnTerm p1 Completed) =
               {| gd := fold_left (data_step d) l1 dinit;
                  sopen := negb (gport_eqb p1 SizeP); eopen := negb (gport_eqb p1 ElemP);
                  gstatus := Completed; gfinal := None |}).
  { destruct p1; reflexivity. }
  assert (E3 : fold_left (gather_step d) l2
                 {| gd := fold_left (data_step d) l1 dinit;
                    sopen := negb (gport_eqb p1 SizeP); eopen := negb (gport_eqb p1 ElemP);
                    gstatus := Completed; gfinal := None |} =
               {| gd := dd; sopen := negb (gport_eqb p1 SizeP); eopen := negb (gport_eqb p1 ElemP);
                  gstatus := Completed; gfinal := None |}).
  { rewrite fold_tokens.
    - simpl. unfold dd. rewrite fold_left_app. reflexivity.
    - intros a Ha. split; [apply Hnt; apply in_or_app; right; exact Ha|].
      specialize (Hl2 a Ha). destruct p1, (port_of a); simpl; congruence. }
  rewrite R, E1, E2, E3.
  destruct p1, p2; try congruence; simpl; unfold finish; rewrite Hf; simpl; split; reflexivity.
Qed.

(* ------------------------------------------------------------------ one flat gather of depth d *)
Lemma gather_depth_d d t ss es l1 l2 p1 p2 :
  1 <= d -> t <> [] -> flat_ok d t ss es ->
  Permutation (l1 ++ l2) (inst_arrivals (render t) es) ->
  p1 <> p2 -> (forall a, In a l2 -> port_of a <> p1) ->
  let s := gather_run d (l1 ++ OnTerm p1 Completed :: l2 ++ [OnTerm p2 Completed]) in
  gout (gd s) = [ListTok (render t) es] /\ gfinal s = Some Completed.
Proof.
  intros Hd Ht Hok Hp Hne Hl2 s.
  set (k := render t). set (arr := l1 ++ l2) in *. set (dd := fold_left (data_step d) arr dinit).
  assert (Hkey : forall a, In a arr -> key_of d a = Some k).
  { intros a Ha. eapply key_of_flat; eauto. eapply Permutation_in; [exact Hp|exact Ha]. }
  assert (Hnt : forall a, In a arr -> is_term a = false).
  { intros a Ha. eapply Permutation_in in Ha; [|exact Hp]. destruct Ha as [<-|Ha]; [reflexivity|].
    apply in_map_iff in Ha. destruct Ha as (e & <- & _). reflexivity. }
  assert (Hfil : filter (has_key d k) arr = arr).
  { apply filter_all. intros a Ha. unfold has_key. rewrite (Hkey a Ha). apply String.eqb_refl. }
  pose proof (view_fold d k arr dinit) as V. fold dd in V. rewrite view_dinit, Hfil in V.
  destruct (krun_complete k es arr (fun p Hp' => sort_canonical_gen _ es p (flat_tagged d t ss es Ht Hok) Hp') Hp)
    as [Hdone Hout].
  unfold krun in Hdone, Hout. rewrite <- V in Hdone, Hout. simpl in Hdone, Hout.
  assert (Hg : gout dd = [ListTok k es]).
  { rewrite <- Hout. symmetry. apply filter_all. intros x Hx.
    destruct (gout_fold d arr dinit x Hx) as [[]|(a & Ha & Ka)].
    rewrite (Hkey a Ha) in Ka. injection Ka as Ka. unfold has_tag. rewrite <- Ka. apply String.eqb_refl. }
  assert (Hf : forced_gather dd = dd).
  { apply forced_gather_all_done. intros k' Hk'.
    destruct (tmkeys_fold d arr dinit k' Hk') as [[]|(a & Ha & Ka)].
    rewrite (Hkey a Ha) in Ka. injection Ka as <-. exact Hdone. }
  destruct (run_with_terms d l1 l2 p1 p2 Hnt Hne Hl2 Hf) as [G1 G2].
  change (fold_left (data_step d) (l1 ++ l2) dinit) with dd in G1, G2. fold s in G1, G2.
  rewrite G1, G2, Hg. split; reflexivity.
Qed.

(* ------------------------------------------------------------------ the rectangular case: all index tuples, product size *)
Fixpoint grid (dims : list nat) : list (list N) :=
  match dims with
  | [] => [[]]
  | n :: r => flat_map (fun i => map (cons (N.of_nat i)) (grid r)) (seq 0 n)
  end.
Definition slt (s s' : list N) : Prop := (cmp_comps s s' < 0)%Z.

Lemma sorted_app {A} (R : A -> A -> Prop) l1 l2 :
  Sorted R l1 -> Sorted R l2 -> (forall x y, In x l1 -> In y l2 -> R x y) -> Sorted R (l1 ++ l2).
Proof.
  induction l1 as [|a l1 IH]; simpl; intros H1 H2 H; [exact H2|].
  inversion H1 as [|? ? H1' Hhd]; subst. constructor.
  - apply IH; auto.
  - destruct l1 as [|b l1]; simpl.
    + destruct l2 as [|y l2]; constructor. apply H; simpl; auto.
    + constructor. inversion Hhd; subst. assumption.
Qed.

Lemma sorted_map_in {A B} (R : A -> A -> Prop) (R' : B -> B -> Prop) (f : A -> B) l :
  (forall x y, In x l -> In y l -> R x y -> R' (f x) (f y)) -> Sorted R l -> Sorted R' (map f l).
Proof.
  induction l as [|a l IH]; simpl; intros H Hs; [constructor|].
  inversion Hs as [|? ? Hs' Hhd]; subst. constructor.
  - apply IH; [intros x y Hx Hy; apply H; simpl; auto|exact Hs'].
  - destruct l as [|b l]; simpl; constructor. inversion Hhd; subst. apply H; simpl; auto.
Qed.

Lemma grid_length dims : Forall (fun s => length s = length dims) (grid dims).
Proof.
  induction dims as [|n r IH].
  { constructor; [reflexivity|constructor]. }
  cbn [grid length].
  apply Forall_forall. intros s Hs. apply in_flat_map in Hs. destruct Hs as (i & _ & Hs).
  apply in_map_iff in Hs. destruct Hs as (s' & <- & Hs'). simpl. f_equal.
  rewrite Forall_forall in IH. apply IH. exact Hs'.
Qed.

Lemma flat_map_const_length {A B} (f : A -> list B) l m :
  (forall x, length (f x) = m) -> length (flat_map f l) = length l * m.
Proof. intros H. induction l as [|a l IH]; simpl; auto. rewrite app_length, H, IH. reflexivity. Qed.

Lemma grid_count dims : length (grid dims) = fold_right Nat.mul 1 dims.
Proof.
  induction dims as [|n r IH]; simpl; [reflexivity|].
  rewrite (flat_map_const_length _ _ (length (grid r))) by (intros; apply map_length).
  rewrite seq_length, IH. reflexivity.
Qed.

Lemma grid_blocks r n : Sorted slt (grid r) -> forall k,
  Sorted slt (flat_map (fun i => map (cons (N.of_nat i)) (grid r)) (seq k n)) /\
  (forall s, In s (flat_map (fun i => map (cons (N.of_nat i)) (grid r)) (seq k n)) ->
             exists i s', s = N.of_nat i :: s' /\ k <= i).
Proof.
  intros Hr. induction n as [|n IH]; intros k; simpl.
  - split; [constructor|intros s []].
  - destruct (IH (S k)) as [IH1 IH2]. split.
    + apply sorted_app; auto.
      * apply (sorted_map_in slt slt); auto. intros x y _ _ H. unfold slt in *. simpl.
        replace (Z.of_N (N.of_nat k) - Z.of_N (N.of_nat k))%Z with 0%Z by lia. exact H.
      * intros x y Hx Hy. apply in_map_iff in Hx. destruct Hx as (sx & <- & _).
        destruct (IH2 y Hy) as (i & sy & -> & Hi). unfold slt. simpl.
        destruct (Z.eqb_spec (Z.of_N (N.of_nat k) - Z.of_N (N.of_nat i)) 0); lia.
    + intros s Hs. apply in_app_or in Hs. destruct Hs as [Hs|Hs].
      * apply in_map_iff in Hs. destruct Hs as (s' & <- & _). exists k, s'. split; auto.
      * destruct (IH2 s Hs) as (i & s' & -> & Hi). exists i, s'. split; auto. lia.
Qed.

Lemma grid_sorted dims : Sorted slt (grid dims).
Proof.
  induction dims as [|n r IH].
  { constructor; constructor. }
  cbn [grid]. apply (proj1 (grid_blocks r n IH 0)).
Qed.

Lemma cmp_comps_app_same t s s' : cmp_comps (t ++ s) (t ++ s') = cmp_comps s s'.
Proof.
  induction t as [|x t IH]; simpl; [reflexivity|].
  replace (Z.of_N x - Z.of_N x)%Z with 0%Z by lia. simpl. exact IH.
Qed.

Lemma grid_tlt t dims : Sorted tlt (map (app t) (grid dims)).
Proof.
  apply (sorted_map_in slt tlt); [|apply grid_sorted].
  intros x y Hx Hy H. pose proof (grid_length dims) as L. rewrite Forall_forall in L.
  unfold tlt, compare_tags. rewrite !app_length, (L x Hx), (L y Hy).
  replace (Z.of_nat (length t + length dims) - Z.of_nat (length t + length dims))%Z with 0%Z by lia. simpl.
  rewrite cmp_comps_app_same. exact H.
Qed.

(* d-level rectangular scatter with sizes dims below tag t, one GatherStep of depth d = length dims, size token
   carrying the product: the flat list in row-major (= compare_tags) order *)
Lemma gather_depth_d_grid dims t es l1 l2 p1 p2 :
  dims <> [] -> t <> [] ->
  map tag_of es = map (fun s => render (t ++ s)) (grid dims) ->
  Permutation (l1 ++ l2) (OnSize (render t) (N.of_nat (fold_right Nat.mul 1 dims)) :: map OnElem es) ->
  p1 <> p2 -> (forall a, In a l2 -> port_of a <> p1) ->
  let s := gather_run (length dims) (l1 ++ OnTerm p1 Completed :: l2 ++ [OnTerm p2 Completed]) in
  gout (gd s) = [ListTok (render t) es] /\ gfinal s = Some Completed.
Proof.
  intros Hd Ht Htags Hp Hne Hl2.
  apply (gather_depth_d (length dims) t (grid dims) es l1 l2 p1 p2); auto.
  - destruct dims; [congruence|simpl; lia].
  - split; [exact Htags|]. split; [apply grid_length|apply grid_tlt].
  - unfold inst_arrivals.
    assert (El : length es = fold_right Nat.mul 1 dims).
    { rewrite <- grid_count, <- (map_length tag_of es), Htags, map_length. reflexivity. }
    rewrite El. exact Hp.
Qed.

(* ------------------------------------------------------------------ termination statuses other than FAILED *)
Lemma reduce2_not_failed a b : a <> Failed -> b <> Failed -> reduce_statuses [a; b] <> Failed.
Proof. intros Ha Hb. destruct a, b; simpl; try discriminate; congruence. Qed.

(* whatever statuses the two termination tokens carry, as long as none is FAILED, the step ends with the same data:
   the tokens processed in arrival order, then the forced gather of the keys never completed *)
Lemma run_terms_gd d l1 l2 p1 p2 st1 st2 :
  (forall a, In a (l1 ++ l2) -> is_term a = false) ->
  p1 <> p2 -> (forall a, In a l2 -> port_of a <> p1) ->
  st1 <> Failed -> st2 <> Failed ->
  let dd := fold_left (data_step d) (l1 ++ l2) dinit in
  let s := gather_run d (l1 ++ OnTerm p1 st1 :: l2 ++ [OnTerm p2 st2]) in
  let stf := reduce_statuses [reduce_statuses [Skipped; st1]; st2] in
  gd s = forced_gather dd /\
  gfinal s = Some (get_status stf (match gout (forced_gather dd) with [] => true | _ => false end)).
Proof.
  intros Hnt Hne Hl2 H1 H2 dd s stf.
  assert (R : s = gather_step d (fold_left (gather_step d) l2
                     (gather_step d (fold_left (gather_step d) l1 ginit) (OnTerm p1 st1)))
                   (OnTerm p2 st2)).
  { subst s. unfold gather_run. rewrite fold_left_app. simpl. rewrite fold_left_app. reflexivity. }
  assert (E1 : fold_left (gather_step d) l1 ginit =
               {| gd := fold_left (data_step d) l1 dinit; sopen := true; eopen := true;
                  gstatus := Skipped; gfinal := None |}).
  { rewrite fold_tokens; [reflexivity|].
    intros a Ha. split; [apply Hnt; apply in_or_app; left; exact Ha|]. destruct (port_of a); reflexivity. }
  assert (E2 : gather_step d {| gd := fold_left (data_step d) l1 dinit; sopen := true; eopen := true;
                                gstatus := Skipped; gfinal := None |} (OnTerm p1 st1) =
               {| gd := fold_left (data_step d) l1 dinit;
                  sopen := negb (gport_eqb p1 SizeP); eopen := negb (gport_eqb p1 ElemP);
                  gstatus := reduce_statuses [Skipped; st1]; gfinal := None |}).
  { destruct p1; reflexivity. }
  assert (E3 : fold_left (gather_step d) l2
                 {| gd := fold_left (data_step d) l1 dinit;
                    sopen := negb (gport_eqb p1 SizeP); eopen := negb (gport_eqb p1 ElemP);
                    gstatus := reduce_statuses [Skipped; st1]; gfinal := None |} =
               {| gd := dd; sopen := negb (gport_eqb p1 SizeP); eopen := negb (gport_eqb p1 ElemP);
                  gstatus := reduce_statuses [Skipped; st1]; gfinal := None |}).
  { rewrite fold_tokens.
    - simpl. unfold dd. rewrite fold_left_app. reflexivity.
    - intros a Ha. split; [apply Hnt; apply in_or_app; right; exact Ha|].
      specialize (Hl2 a Ha). destruct p1, (port_of a); simpl; congruence. }
  assert (NF : stf <> Failed).
  { apply reduce2_not_failed; [|exact H2]. apply reduce2_not_failed; [discriminate|exact H1]. }
  assert (EF : finish dd stf = (forced_gather dd, get_status stf (match gout (forced_gather dd) with [] => true | _ => false end))).
  { unfold finish. destruct stf; try reflexivity. contradiction. }
  assert (E4 : gather_step d {| gd := dd; sopen := negb (gport_eqb p1 SizeP); eopen := negb (gport_eqb p1 ElemP);
                                gstatus := reduce_statuses [Skipped; st1]; gfinal := None |} (OnTerm p2 st2) =
               {| gd := fst (finish dd stf); sopen := false; eopen := false; gstatus := stf;
                  gfinal := Some (snd (finish dd stf)) |}).
  { destruct p1, p2; try congruence; reflexivity. }
  rewrite R, E1, E2, E3, E4, EF. simpl. split; reflexivity.
Qed.

Lemma gout_status_independent d l1 l2 p1 p2 st1 st2 st1' st2' :
  (forall a, In a (l1 ++ l2) -> is_term a = false) ->
  p1 <> p2 -> (forall a, In a l2 -> port_of a <> p1) ->
  st1 <> Failed -> st2 <> Failed -> st1' <> Failed -> st2' <> Failed ->
  gout (gd (gather_run d (l1 ++ OnTerm p1 st1 :: l2 ++ [OnTerm p2 st2]))) =
  gout (gd (gather_run d (l1 ++ OnTerm p1 st1' :: l2 ++ [OnTerm p2 st2']))).
Proof.
  intros Hnt Hne Hl2 A B C D.
  destruct (run_terms_gd d l1 l2 p1 p2 st1 st2 Hnt Hne Hl2 A B) as [G1 _].
  destruct (run_terms_gd d l1 l2 p1 p2 st1' st2' Hnt Hne Hl2 C D) as [G2 _].
  rewrite G1, G2. reflexivity.
Qed.
