(* Gather/Corr.v — correspondence cases for Gather/Model.v (used by the C01 check). *)
From Coq Require Import List Bool NArith ZArith.
From SF Require Import Base.Str Base.Dec Base.Corr Tags.Model.
From SF Require Export Gather.Model.
Import ListNotations.

Fixpoint tok_eqb (a b : tok) : bool :=
  match a, b with
  | Tok t v, Tok t' v' => String.eqb t t' && String.eqb v v'
  | ListTok t vs, ListTok t' vs' =>
      String.eqb t t' &&
      (fix go (l l' : list tok) : bool :=
         match l, l' with
         | [], [] => true
         | x :: l1, y :: l1' => tok_eqb x y && go l1 l1'
         | _, _ => false
         end) vs vs'
  | _, _ => false
  end.

Definition status_eqb (a b : status) : bool :=
  match a, b with
  | Skipped, Skipped | Completed, Completed | Failed, Failed | Cancelled, Cancelled
  | Recovered, Recovered | OtherStatus, OtherStatus => true
  | _, _ => false
  end.

Inductive ccase :=
(* ScatterStep fed [x]: tokens seen on the output port and on the size port; None = the step raised *)
| CScatter (x : tok) (obs : option (list tok * list (string * N)))
(* GatherStep(depth) fed the arrivals in this order: list tokens on the output port, final status
   (None = the step has not terminated, i.e. some port never delivered a termination token) *)
| CGather (depth : nat) (arr : list garr) (out : list tok) (fin : option status)
(* ScatterStep fed xs then TerminationToken(COMPLETED): the status it terminated with *)
| CScatterRun (xs : list tok) (obs : option status)
| CMany (l : list ccase).

Fixpoint check_case (c : ccase) : bool :=
  match c with
  | CScatter x obs =>
      match scatter x, obs with
      | Some (es, sz), Some (oes, osz) =>
          list_eqb tok_eqb es oes && list_eqb (pair_eqb String.eqb N.eqb) [sz] osz
      | None, None => true
      | _, _ => false
      end
  | CGather depth arr out fin =>
      let s := gather_run depth arr in
      list_eqb tok_eqb (gout (gd s)) out && opt_eqb status_eqb (gfinal s) fin
  | CScatterRun xs obs => opt_eqb status_eqb (scatter_run_status xs Completed) obs
  | CMany l => (fix all (l : list ccase) : bool :=
                  match l with [] => true | c :: l' => check_case c && all l' end) l
  end.
