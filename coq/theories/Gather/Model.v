(* Gather/Model.v — model of ScatterStep._scatter and GatherStep.run/_gather (definitions only).
   ANCHORS: streamflow.workflow.step.ScatterStep._scatter, streamflow.workflow.step.ScatterStep.run,
            streamflow.workflow.step.GatherStep.run, streamflow.workflow.step.GatherStep._gather,
            streamflow.workflow.step._reduce_statuses, streamflow.workflow.step.BaseStep._get_status,
            streamflow.core.utils.compare_tags
   Tags are strings, exactly as in the Python code; keys are computed with split/join on the string.
   dict -> association list in insertion order; set -> duplicate-free list.
   Not modelled: _persist_token / database writes, the asyncio machinery (the step is modelled as a
   function of the sequence in which tokens are taken from its two input ports; two tokens that
   become available in the very same event-loop turn are processed by the real step in set order,
   which the harness avoids by feeding one token per quiescent state).
   Domain restriction: compare_tags raises ValueError on non-numeric components; here a failed
   comparison counts as "equal" and the correspondence only feeds well-formed dotted tags. *)
From Coq Require Import List Ascii Bool NArith ZArith.
From SF Require Import Base.Str Base.Dec Tags.Model.
Import ListNotations.
Local Open Scope string_scope. Local Open Scope list_scope.

(* ---- tokens: Token(value, tag) with an opaque payload, ListToken(value=[tokens], tag) ---- *)
Inductive tok :=
| Tok (t : string) (v : string)
| ListTok (t : string) (vs : list tok).

Definition tag_of (x : tok) : string := match x with Tok t _ => t | ListTok t _ => t end.
(* Token.retag: same class, same value, new tag (inner tokens of a ListToken keep their tags) *)
Definition retag (x : tok) (t : string) : tok :=
  match x with Tok _ v => Tok t v | ListTok _ vs => ListTok t vs end.

(* ---- Status (only the members a termination token can reasonably carry are distinguished) ---- *)
Inductive status := Skipped | Completed | Failed | Cancelled | Recovered | OtherStatus.

(* def _reduce_statuses(statuses) *)
Fixpoint reduce_scan (l : list status) (num_skipped : nat) (recovered : bool) : status + (nat * bool) :=
  match l with
  | [] => inr (num_skipped, recovered)
  | Failed :: _ => inl Failed
  | Cancelled :: _ => inl Cancelled
  | Skipped :: l' => reduce_scan l' (S num_skipped) recovered
  | Recovered :: l' => reduce_scan l' num_skipped true
  | _ :: l' => reduce_scan l' num_skipped recovered
  end.
Definition reduce_statuses (l : list status) : status :=
  match reduce_scan l 0 false with
  | inl s => s
  | inr (k, rec) => if rec then Recovered else if Nat.eqb k (length l) then Skipped else Completed
  end.

(* def _get_status(self, status); [empty] = some output port has an empty token_list *)
Definition get_status (st : status) (empty : bool) : status :=
  match st with
  | Failed => Failed
  | Recovered => Completed
  | _ => if empty then Skipped else st
  end.

(* ---- dict as association list in insertion order ---- *)
Fixpoint aget {V} (k : string) (m : list (string * V)) : option V :=
  match m with
  | [] => None
  | (k', v) :: m' => if String.eqb k k' then Some v else aget k m'
  end.
Fixpoint aset {V} (k : string) (v : V) (m : list (string * V)) : list (string * V) :=
  match m with
  | [] => [(k, v)]
  | (k', v') :: m' => if String.eqb k k' then (k, v) :: m' else (k', v') :: aset k v m'
  end.
Definition aget_def {V} (d : V) (k : string) (m : list (string * V)) : V :=
  match aget k m with Some v => v | None => d end.
Definition mem (k : string) (l : list string) : bool := existsb (String.eqb k) l.
Definition set_add (k : string) (l : list string) : list string := if mem k l then l else l ++ [k].

(* ---- ".".join(tag.split(".")[:-depth]) ---- *)
Definition drop_last_s (depth : nat) (tg : string) : string :=
  let l := split_on "." tg in
  join "." (match depth with O => [] | _ => firstn (length l - depth) l end).   (* l[:-0] = l[:0] = [] *)

(* ---- ScatterStep._scatter: element i retagged tag + "." + str(i); size token Token(len, tag) ---- *)
Fixpoint scatter_from (i : N) (tg : string) (vs : list tok) : list tok :=
  match vs with
  | [] => []
  | v :: vs' => retag v (String.append tg (String.append "." (dec i))) :: scatter_from (N.succ i) tg vs'
  end.
Definition scatter_elems (tg : string) (vs : list tok) : list tok := scatter_from 0 tg vs.
(* None = WorkflowDefinitionException("Scatter ports require iterable inputs") *)
Definition scatter (x : tok) : option (list tok * (string * N)) :=
  match x with
  | ListTok tg vs => Some (scatter_elems tg vs, (tg, N.of_nat (length vs)))
  | Tok _ _ => None
  end.

(* ScatterStep.run fed the tokens xs and then TerminationToken(st): terminate(self._get_status(st)).  An output port
   is empty iff nothing was put on it: the element port iff no list had an element (the size port is then the only
   one with tokens, or xs = [] and both are empty).  None: some input is not a list token (the step raises). *)
Definition scatter_run_status (xs : list tok) (st : status) : option status :=
  if forallb (fun x => match x with ListTok _ _ => true | Tok _ _ => false end) xs
  then Some (get_status st (forallb (fun x => match x with ListTok _ [] => true | _ => false end) xs))
  else None.

(* ---- sorted(token_map[key], key=cmp_to_key(lambda x, y: compare_tags(x.tag, y.tag))) ----
   a stable sort; modelled as stable insertion sort (for lists whose tags are pairwise distinct
   every correct sort returns the same list: Proofs.sorted_perm_unique) *)
Definition cmp_tok (x y : tok) : Z :=
  match compare_tags_s (tag_of x) (tag_of y) with Some z => z | None => 0%Z end.
Fixpoint insert_tok (x : tok) (l : list tok) : list tok :=
  match l with
  | [] => [x]
  | y :: l' => if (cmp_tok x y <=? 0)%Z then x :: l else y :: insert_tok x l'
  end.
Definition sort_toks (l : list tok) : list tok := fold_right insert_tok [] l.

(* ---- GatherStep state ---- *)
Inductive gport := SizeP | ElemP.
Inductive garr :=
| OnSize (tg : string) (n : N)      (* a Token(n, tag) taken from the size port *)
| OnElem (x : tok)                  (* a token taken from the input port *)
| OnTerm (p : gport) (st : status). (* TerminationToken(st) taken from port p *)

Record gdata := {
  size_map : list (string * N);
  token_map : list (string * list tok);
  done_keys : list string;           (* keys_completed *)
  gout : list tok                    (* tokens put on the output port, oldest first *)
}.
Definition dinit : gdata := {| size_map := []; token_map := []; done_keys := []; gout := [] |}.

(* _gather(key) followed by keys_completed.add(key) *)
Definition do_gather (key : string) (d : gdata) : gdata :=
  {| size_map := size_map d; token_map := token_map d;
     done_keys := set_add key (done_keys d);
     gout := gout d ++ [ListTok key (sort_toks (aget_def [] key (token_map d)))] |}.

Definition data_step (depth : nat) (d : gdata) (a : garr) : gdata :=
  match a with
  | OnSize tg n =>
      (* self.size_map[token.tag] = token; self.token_map.setdefault(token.tag, []) *)
      let tm := match aget tg (token_map d) with Some _ => token_map d | None => aset tg [] (token_map d) end in
      let d' := {| size_map := aset tg n (size_map d); token_map := tm;
                   done_keys := done_keys d; gout := gout d |} in
      if (N.of_nat (length (aget_def [] tg tm)) =? n)%N then do_gather tg d' else d'
  | OnElem x =>
      let key := drop_last_s depth (tag_of x) in
      let l := aget_def [] key (token_map d) ++ [x] in
      let d' := {| size_map := size_map d; token_map := aset key l (token_map d);
                   done_keys := done_keys d; gout := gout d |} in
      match aget key (size_map d) with
      | Some n => if (N.of_nat (length l) =? n)%N then do_gather key d' else d'
      | None => d'
      end
  | OnTerm _ _ => d
  end.

(* forced gather of the keys never completed: size_map[key] = len(token_map[key]); _gather(key) *)
Definition forced_gather (d : gdata) : gdata :=
  fold_left (fun acc key =>
               {| size_map := aset key (N.of_nat (length (aget_def [] key (token_map acc)))) (size_map acc);
                  token_map := token_map acc; done_keys := done_keys acc;
                  gout := gout acc ++ [ListTok key (sort_toks (aget_def [] key (token_map acc)))] |})
            (filter (fun k => negb (mem k (done_keys d))) (map fst (token_map d))) d.

Record gstate := {
  gd : gdata;
  sopen : bool; eopen : bool;        (* the port has not delivered its termination token yet *)
  gstatus : status;
  gfinal : option status             (* Some st: the step terminated with status st *)
}.
Definition ginit : gstate :=
  {| gd := dinit; sopen := true; eopen := true; gstatus := Skipped; gfinal := None |}.

Definition finish (d : gdata) (st : status) : gdata * status :=
  let d' := match st with Failed => d | _ => forced_gather d end in
  (d', get_status st (match gout d' with [] => true | _ => false end)).

Definition port_open (s : gstate) (p : gport) : bool := match p with SizeP => sopen s | ElemP => eopen s end.
Definition port_of (a : garr) : gport :=
  match a with OnSize _ _ => SizeP | OnElem _ => ElemP | OnTerm p _ => p end.

Definition gather_step (depth : nat) (s : gstate) (a : garr) : gstate :=
  if negb (port_open s (port_of a)) then s        (* nobody reads a port after its termination token *)
  else match a with
       | OnTerm p st =>
           let st' := reduce_statuses [gstatus s; st] in
           let so := match p with SizeP => false | ElemP => sopen s end in
           let eo := match p with ElemP => false | SizeP => eopen s end in
           if so || eo then {| gd := gd s; sopen := so; eopen := eo; gstatus := st'; gfinal := None |}
           else let (d', fin) := finish (gd s) st' in
                {| gd := d'; sopen := false; eopen := false; gstatus := st'; gfinal := Some fin |}
       | _ => {| gd := data_step depth (gd s) a; sopen := sopen s; eopen := eopen s;
                 gstatus := gstatus s; gfinal := gfinal s |}
       end.

Definition gather_run (depth : nat) (arr : list garr) : gstate := fold_left (gather_step depth) arr ginit.
