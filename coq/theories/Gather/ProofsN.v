(* Gather/ProofsN.v — the empty list through the real pipeline (C01_empty) and d nested scatters gathered by d chained
   depth-1 gathers, by induction on d (C01_nested_d). *)
From Coq Require Import List Ascii Bool Arith NArith ZArith Lia Permutation.
From SF Require Import Base.Str Base.Dec Tags.Model Tags.Proofs Gather.Model Gather.Util Gather.Proofs Gather.ProofsD.
Import ListNotations.
Local Open Scope string_scope. Local Open Scope list_scope.

(* ------------------------------------------------------------------ the empty list *)
(* the scatter of an empty list emits no element and the size token (t, 0); having put nothing on its element port
   it terminates SKIPPED, so both ports of the gather deliver TerminationToken(SKIPPED) *)
Lemma scatter_empty t :
  scatter (ListTok t []) = Some ([], (t, 0%N)) /\ scatter_run_status [ListTok t []] Completed = Some Skipped.
Proof. split; reflexivity. Qed.

Lemma empty_data t :
  let d := data_step 1 dinit (OnSize t 0) in gout d = [ListTok t []] /\ forced_gather d = d.
Proof.
  assert (E : data_step 1 dinit (OnSize t 0) =
              {| size_map := [(t, 0%N)]; token_map := [(t, [])]; done_keys := [t]; gout := [ListTok t []] |}).
  { unfold data_step, do_gather, aget_def, set_add, mem. simpl. rewrite !String.eqb_refl. simpl.
    rewrite ?String.eqb_refl. simpl. reflexivity. }
  cbv zeta. rewrite E. split; [reflexivity|].
  apply forced_gather_all_done. simpl. intros k [<-|[]]. unfold mem. simpl. rewrite String.eqb_refl. reflexivity.
Qed.

Lemma gather_empty t l1 l2 p1 p2 :
  Permutation (l1 ++ l2) [OnSize t 0] -> p1 <> p2 -> (forall a, In a l2 -> port_of a <> p1) ->
  let s := gather_run 1 (l1 ++ OnTerm p1 Skipped :: l2 ++ [OnTerm p2 Skipped]) in
  gout (gd s) = [ListTok t []] /\ gfinal s = Some Skipped.
Proof.
  intros Hp Hne Hl2. apply Permutation_sym, Permutation_length_1_inv in Hp.
  assert (Hcase : (l1 = [OnSize t 0] /\ l2 = []) \/ (l1 = [] /\ l2 = [OnSize t 0])).
  { destruct l1 as [|a [|b l1]]; simpl in Hp.
    - right. auto.
    - injection Hp as -> ->. left. auto.
    - discriminate. }
  destruct (empty_data t) as [D1 D2]. cbv zeta in D1, D2.
  destruct Hcase as [[-> ->]|[-> ->]].
  - destruct p1, p2; try congruence; unfold gather_run; cbn -[data_step forced_gather];
      rewrite D2, D1; split; reflexivity.
  - destruct p1.
    + exfalso. apply (Hl2 (OnSize t 0)); [left; reflexivity|reflexivity].
    + destruct p2; try congruence. unfold gather_run; cbn -[data_step forced_gather];
        rewrite D2, D1; split; reflexivity.
Qed.

(* ------------------------------------------------------------------ any termination statuses but FAILED *)
(* C01_many_keys with the two termination tokens carrying ANY statuses other than FAILED (an inner gather of a nested
   pipeline receives SKIPPED when all the inner lists are empty): same outputs; the final status follows the
   statuses *)
Lemma gather_many_perm_st insts l1 l2 p1 p2 st1 st2 :
  Forall inst_ok insts -> NoDup (map ikey insts) ->
  Permutation (l1 ++ l2) (all_arrivals insts) ->
  p1 <> p2 -> (forall a, In a l2 -> port_of a <> p1) ->
  st1 <> Failed -> st2 <> Failed ->
  let s := gather_run 1 (l1 ++ OnTerm p1 st1 :: l2 ++ [OnTerm p2 st2]) in
  Permutation (gout (gd s)) (expected_out insts)
  /\ gfinal s = Some (get_status (reduce_statuses [reduce_statuses [Skipped; st1]; st2])
                                  (match insts with [] => true | _ => false end)).
Proof.
  intros Hok Hnd Hp Hne Hl2 H1 H2 s.
  destruct (data_many insts (l1 ++ l2) Hok Hnd Hp) as (D1 & D2 & D3).
  set (dd := fold_left (data_step 1) (l1 ++ l2) dinit) in *.
  assert (Hnt : forall a, In a (l1 ++ l2) -> is_term a = false).
  { intros a Ha. eapply all_arrivals_no_term; [exact Hok|]. eapply Permutation_in; [exact Hp|exact Ha]. }
  destruct (run_terms_gd 1 l1 l2 p1 p2 st1 st2 Hnt Hne Hl2 H1 H2) as [G1 G2]. fold dd in G1, G2. fold s in G1, G2.
  rewrite (forced_gather_all_done dd D3) in G1, G2.
  assert (P : Permutation (gout dd) (expected_out insts)).
  { apply perm_by_keys; auto. intros i Hi. apply D1. exact Hi. }
  rewrite G1. split; [exact P|]. rewrite G2. f_equal. f_equal.
  destruct insts as [|i insts'].
  - apply Permutation_sym, Permutation_nil in P. rewrite P. reflexivity.
  - destruct (gout dd); [apply Permutation_nil in P; discriminate|reflexivity].
Qed.

(* ------------------------------------------------------------------ nested lists of any depth *)
Inductive tree := Leaf (x : tok) | Node (cs : list tree).

(* the token the pipeline must deliver for the subtree [tr] whose root carries the tag [t]:
   leaves are the element tokens after the last scatter and the element-wise step (tag t, payload untouched) *)
Fixpoint expect (t : tag) (tr : tree) : tok :=
  match tr with
  | Leaf x => retag x (render t)
  | Node cs => ListTok (render t)
                 ((fix go (i : nat) (cs : list tree) : list tok :=
                     match cs with
                     | [] => []
                     | c :: r => expect (t ++ [N.of_nat i]) c :: go (S i) r
                     end) 0 cs)
  end.
Fixpoint expect_from (t : tag) (i : nat) (cs : list tree) : list tok :=
  match cs with [] => [] | c :: r => expect (t ++ [N.of_nat i]) c :: expect_from t (S i) r end.
Lemma expect_node t cs : expect t (Node cs) = ListTok (render t) (expect_from t 0 cs).
Proof.
  simpl. f_equal. generalize 0. induction cs as [|c r IH]; intros i; simpl; [reflexivity|]. f_equal. apply IH.
Qed.
Lemma tag_of_expect t tr : tag_of (expect t tr) = render t.
Proof. destruct tr; [apply tag_of_retag|rewrite expect_node; reflexivity]. Qed.

Fixpoint depth_is (d : nat) (tr : tree) : Prop :=
  match d, tr with
  | O, Leaf _ => True
  | S d', Node cs => (fix all (cs : list tree) : Prop := match cs with [] => True | c :: r => depth_is d' c /\ all r end) cs
  | _, _ => False
  end.

(* a family = the subtrees standing at one level, each with the tag of its root *)
Definition fam := list (tag * tree).
Fixpoint kids_from (t : tag) (i : nat) (cs : list tree) : fam :=
  match cs with [] => [] | c :: r => (t ++ [N.of_nat i], c) :: kids_from t (S i) r end.
Definition kids1 (x : tag * tree) : fam := match snd x with Node cs => kids_from (fst x) 0 cs | Leaf _ => [] end.
Definition kids (F : fam) : fam := flat_map kids1 F.
Definition inst_of (x : tag * tree) : inst :=
  (fst x, match snd x with Node cs => expect_from (fst x) 0 cs | Leaf _ => [] end).
Definition fexpect (F : fam) : list tok := map (fun x => expect (fst x) (snd x)) F.

Lemma expect_kids_from t i cs : fexpect (kids_from t i cs) = expect_from t i cs.
Proof. revert i. induction cs as [|c r IH]; intros i; simpl; [reflexivity|]. f_equal. apply IH. Qed.

Lemma expect_from_tags t i cs : tags_from t i (expect_from t i cs).
Proof.
  unfold tags_from. revert i. induction cs as [|c r IH]; intros i; simpl; [reflexivity|].
  rewrite tag_of_expect. f_equal. apply IH.
Qed.

(* one gather level: any legal complete arrival sequence of the size tokens of the family and of the element
   tokens [elems] (which the level below delivered in whatever order) *)
Definition level_run (F : fam) (elems outs : list tok) : Prop :=
  exists l1 l2 p1 p2 st1 st2,
    Permutation (l1 ++ l2) (map (fun x => OnSize (render (fst x)) (N.of_nat (length (snd (inst_of x))))) F
                            ++ map OnElem elems) /\
    p1 <> p2 /\ (forall a, In a l2 -> port_of a <> p1) /\
    st1 <> Failed /\ st2 <> Failed /\      (* e.g. SKIPPED, which a level whose lists are all empty receives *)
    outs = gout (gd (gather_run 1 (l1 ++ OnTerm p1 st1 :: l2 ++ [OnTerm p2 st2]))).

(* d levels: the leaves arrive in any order; every level is one such gather fed by the level below *)
Fixpoint chain (d : nat) (F : fam) (outs : list tok) : Prop :=
  match d with
  | O => Permutation outs (fexpect F)
  | S d' => exists elems, chain d' (kids F) elems /\ level_run F elems outs
  end.

Definition fam_ok (d : nat) (F : fam) : Prop :=
  Forall (fun x => fst x <> [] /\ depth_is d (snd x)) F /\ NoDup (map fst F).

Lemma all_arrivals_perm (F : fam) :
  Permutation (all_arrivals (map inst_of F))
              (map (fun x => OnSize (render (fst x)) (N.of_nat (length (snd (inst_of x))))) F
               ++ map OnElem (concat (map (fun x => snd (inst_of x)) F))).
Proof.
  induction F as [|x F IH]; simpl; [constructor|].
  unfold all_arrivals in *. simpl. unfold iarr at 1, inst_arrivals, ikey. simpl.
  constructor. rewrite map_app. rewrite IH.
  rewrite !app_assoc. apply Permutation_app_tail. apply Permutation_app_comm.
Qed.

Lemma kids_expect (F : fam) d :
  Forall (fun x => fst x <> [] /\ depth_is (S d) (snd x)) F ->
  fexpect (kids F) = concat (map (fun x => snd (inst_of x)) F).
Proof.
  induction F as [|x F IH]; intros H; [reflexivity|]. inversion H as [|? ? [_ Hx] HF]; subst.
  unfold kids. simpl. unfold fexpect. rewrite map_app. fold (fexpect (kids1 x)). fold (fexpect (flat_map kids1 F)).
  f_equal; [|apply IH; exact HF].
  destruct x as [t [y|cs]]; simpl in *; [contradiction|]. apply expect_kids_from.
Qed.

Lemma depth_kids_from d t i cs :
  t <> [] -> (fix all (cs : list tree) : Prop := match cs with [] => True | c :: r => depth_is d c /\ all r end) cs ->
  Forall (fun x => fst x <> [] /\ depth_is d (snd x)) (kids_from t i cs).
Proof.
  intros Ht. revert i. induction cs as [|c r IH]; intros i H; simpl; constructor.
  - simpl. split; [destruct t; discriminate|tauto].
  - apply IH. tauto.
Qed.

Lemma kids_from_fst t i cs : map fst (kids_from t i cs) = map (fun j => t ++ [N.of_nat j]) (seq i (length cs)).
Proof. revert i. induction cs as [|c r IH]; intros i; simpl; [reflexivity|]. f_equal. apply IH. Qed.

Lemma in_kids_fst F a : In a (map fst (kids F)) -> exists x j, In x F /\ a = fst x ++ [j].
Proof.
  unfold kids. intros H. apply in_map_iff in H. destruct H as (y & <- & Hy).
  apply in_flat_map in Hy. destruct Hy as (x & Hx & Hy). exists x.
  unfold kids1 in Hy. destruct (snd x) as [z|cs]; [destruct Hy|].
  assert (In (fst y) (map fst (kids_from (fst x) 0 cs))) by (apply in_map; exact Hy).
  rewrite kids_from_fst in H. apply in_map_iff in H. destruct H as (j & <- & _). exists (N.of_nat j). auto.
Qed.

Lemma nodup_app {A} (l1 l2 : list A) :
  NoDup l1 -> NoDup l2 -> (forall a, In a l1 -> In a l2 -> False) -> NoDup (l1 ++ l2).
Proof.
  induction l1 as [|x l1 IH]; simpl; intros H1 H2 H; [exact H2|].
  inversion H1; subst. constructor.
  - intros Hin. apply in_app_or in Hin. destruct Hin as [Hin|Hin]; [contradiction|]. apply (H x); auto.
  - apply IH; auto. intros a Ha Hb. apply (H a); auto.
Qed.

Lemma kids_ok d F : fam_ok (S d) F -> fam_ok d (kids F).
Proof.
  intros [H1 H2]. split.
  - unfold kids. induction F as [|x F IH]; simpl; [constructor|].
    inversion H1 as [|? ? [Ht Hx] HF]; subst. inversion H2; subst.
    apply Forall_app. split; [|apply IH; assumption].
    destruct x as [t [y|cs]]; simpl in *; [contradiction|]. apply depth_kids_from; assumption.
  - induction F as [|x F IH]; simpl; [constructor|].
    inversion H1 as [|? ? [Ht Hx] HF]; subst. inversion H2 as [|? ? Hnin Hnd]; subst.
    unfold kids. simpl. rewrite map_app. fold (kids F).
    apply nodup_app; [| apply IH; assumption |].
    + destruct x as [t [y|cs]]; simpl; [constructor|]. unfold kids1; simpl. rewrite kids_from_fst.
      apply FinFun.Injective_map_NoDup; [|apply seq_NoDup].
      intros a b E. apply app_inv_head in E. injection E as E. apply Nat2N.inj in E. exact E.
    + intros a Ha Hb. destruct (in_kids_fst F a Hb) as (x' & j' & Hx' & ->).
      unfold kids1 in Ha. destruct x as [t [y|cs]]; simpl in Ha; [destruct Ha|].
      rewrite kids_from_fst in Ha. apply in_map_iff in Ha. destruct Ha as (j & E & _).
      apply app_inj_tail in E. destruct E as [E _]. apply Hnin. simpl. rewrite E. apply in_map. exact Hx'.
Qed.

Lemma insts_ok d F : fam_ok (S d) F -> Forall inst_ok (map inst_of F) /\ NoDup (map ikey (map inst_of F)).
Proof.
  intros [H1 H2]. split.
  - apply Forall_forall. intros i Hi. apply in_map_iff in Hi. destruct Hi as (x & <- & Hx).
    rewrite Forall_forall in H1. destruct (H1 x Hx) as [Ht Hd]. split; [exact Ht|].
    unfold inst_of. simpl. destruct (snd x) as [y|cs]; [reflexivity|]. apply expect_from_tags.
  - rewrite map_map. unfold ikey, inst_of. simpl.
    rewrite Forall_forall in H1. clear -H1 H2. induction F as [|x F IH]; simpl; constructor.
    + inversion H2 as [|? ? Hnin _]; subst. intros Hin. apply in_map_iff in Hin. destruct Hin as (y & E & Hy).
      apply render_inj in E; [|apply H1; right; exact Hy|apply H1; left; reflexivity].
      apply Hnin. rewrite <- E. apply in_map. exact Hy.
    + inversion H2; subst. apply IH; auto. intros y Hy. apply H1. right. exact Hy.
Qed.

Lemma expected_insts d F : fam_ok (S d) F -> expected_out (map inst_of F) = fexpect F.
Proof.
  intros [H1 _]. unfold expected_out, fexpect. rewrite map_map. apply map_ext_in. intros x Hx.
  rewrite Forall_forall in H1. destruct (H1 x Hx) as [_ Hd].
  destruct x as [t [y|cs]]; simpl in *; [contradiction|]. unfold ikey. simpl. symmetry. apply expect_node.
Qed.

Lemma chain_correct d : forall F outs, fam_ok d F -> chain d F outs -> Permutation outs (fexpect F).
Proof.
  induction d as [|d IH]; intros F outs Hok Hc; [exact Hc|].
  destruct Hc as (elems & Hk & (l1 & l2 & p1 & p2 & st1 & st2 & Hp & Hne & Hl2 & S1 & S2 & ->)).
  pose proof (IH (kids F) elems (kids_ok d F Hok) Hk) as He.
  destruct (insts_ok d F Hok) as [Hi Hnd].
  assert (Hp' : Permutation (l1 ++ l2) (all_arrivals (map inst_of F))).
  { rewrite Hp, all_arrivals_perm. apply Permutation_app_head. apply Permutation_map.
    rewrite He. rewrite (kids_expect F d (proj1 Hok)). reflexivity. }
  destruct (gather_many_perm_st (map inst_of F) l1 l2 p1 p2 st1 st2 Hi Hnd Hp' Hne Hl2 S1 S2) as [G _].
  rewrite G. rewrite (expected_insts d F Hok). reflexivity.
Qed.

(* one list of nesting depth d *)
Lemma nested_d d t tr outs :
  t <> [] -> depth_is d tr -> chain d [(t, tr)] outs -> outs = [expect t tr].
Proof.
  intros Ht Hd Hc.
  assert (Hok : fam_ok d [(t, tr)]).
  { split; [constructor; [split; assumption|constructor]|constructor; [intros []|constructor]]. }
  pose proof (chain_correct d _ _ Hok Hc) as P. simpl in P.
  apply Permutation_sym, Permutation_length_1_inv in P. exact P.
Qed.

(* the leaves really are what d nested scatters produce: one scatter level *)
Lemma scatter_is_expect t i xs :
  t <> [] -> scatter_from (N.of_nat i) (render t) xs = expect_from t i (map Leaf xs).
Proof.
  intros Ht. revert i. induction xs as [|x xs IH]; intros i; simpl; [reflexivity|].
  rewrite (render_snoc t (N.of_nat i) Ht). f_equal. rewrite <- Nat2N.inj_succ. apply IH.
Qed.

Lemma empty_pipeline t l1 l2 p1 p2 :
  Permutation (l1 ++ l2) [OnSize t 0] -> p1 <> p2 -> (forall a, In a l2 -> port_of a <> p1) ->
  scatter (ListTok t []) = Some ([], (t, 0%N)) /\ scatter_run_status [ListTok t []] Completed = Some Skipped /\
  let s := gather_run 1 (l1 ++ OnTerm p1 Skipped :: l2 ++ [OnTerm p2 Skipped]) in
  gout (gd s) = [ListTok t []] /\ gfinal s = Some Skipped.
Proof.
  intros Hp Hne Hl2. destruct (scatter_empty t) as [A B]. split; [exact A|]. split; [exact B|].
  apply gather_empty; assumption.
Qed.

Definition ex_tree : tree := Node [Node [Leaf (Tok "0" "a"); Leaf (Tok "0" "b")]; Node []].
Lemma ex_chain : exists outs, chain 2 [([0%N], ex_tree)] outs /\ depth_is 2 ex_tree.
Proof.
  eexists. split; [|simpl; tauto]. simpl.
  eexists. split.
  - eexists. split; [apply Permutation_refl|].
    eexists _, [], SizeP, ElemP, Completed, Completed. split; [rewrite app_nil_r; apply Permutation_refl|].
    split; [discriminate|]. split; [intros a []|]. split; [discriminate|]. split; [discriminate|reflexivity].
  - eexists _, [], SizeP, ElemP, Skipped, Completed. split; [rewrite app_nil_r; apply Permutation_refl|].
    split; [discriminate|]. split; [intros a []|]. split; [discriminate|]. split; [discriminate|reflexivity].
Qed.
