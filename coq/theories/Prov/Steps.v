(* Prov/Steps.v — what each step kind passes to BaseStep._persist_token as input_token_ids, on top of the step models
   of the other areas (imported, not edited).  Definitions only.

   ANCHORS (the `input_token_ids=` / `get_entity_ids(...)` arguments, read line by line):
     streamflow.core.utils.get_entity_ids
     streamflow.workflow.step.ScatterStep._scatter        every element AND the size token: get_entity_ids([token])
     streamflow.workflow.step.Transformer.run             get_entity_ids(inputs.values()), inputs = inputs_map.pop(tag)
     streamflow.workflow.step.ConditionalStep / CWLConditionalStep._on_true/_on_false   get_entity_ids(inputs.values())
     streamflow.workflow.step.GatherStep._gather          get_entity_ids([self.size_map[key], *self.token_map[key]])
     streamflow.workflow.step.CombinatorStep.run          ins = [in_id for t in schema.values() for in_id in t["input_ids"]]
       with DotProductCombinator._product / CartesianProductCombinator._product: "input_ids": [element.persistent_id]
     streamflow.workflow.step.LoopOutputStep.run          get_entity_ids(self.token_map.get(prefix))
     streamflow.workflow.step.ExecuteStep._check_inputs   pairs the NEXT job of the job port with whichever tag completes
   Ids ride on the models' own payloads: Net.Model tokens carry the id as their value, Comb.Model tokens are already
   (id, tag) pairs, Gather.Model / Loop.Model tokens carry the id as a decimal payload ([idtok]). *)
From Coq Require Import List Bool Arith NArith ZArith.
From SF Require Import Base.Str Base.Dec Net.Model.
From SF Require Gather.Model Comb.Model Loop.Model.
Import ListNotations.
Local Open Scope string_scope. Local Open Scope list_scope.

(* ---------------------------------------------------------------- get_entity_ids *)
(* streamflow.core.utils.get_entity_ids: [pe.persistent_id for pe in entities if pe.persistent_id] — a TRUTHINESS test:
   an entity without id (None) is dropped, and so would be an id 0 (SQLite rowids start at 1) *)
Definition get_entity_ids (l : list (option N)) : list N :=
  flat_map (fun x => match x with Some n => if N.eqb n 0 then [] else [n] | None => [] end) l.

(* ---------------------------------------------------------------- ScatterStep *)
(* one _scatter(token) call: n elements and the size token, every one of them recorded with [id of token] *)
Definition scatter_prov (id : N) (nelems : nat) : list (list N) := repeat [id] (S nelems).

(* ---------------------------------------------------------------- Transformer / ConditionalStep round (Net.Model) *)
(* tokens carry their persistent id as value; the ids of a tag group = inputs.values() *)
Definition group_ids (inner : list (nat * tok)) : list Z := map (fun p => tok_val (snd p)) inner.
Definition emits_something (o : list (list tok)) : bool := existsb (fun l => match l with [] => false | _ => true end) o.

(* the loop of Net.Model.process_tags, recording (tag, get_entity_ids(inputs.values())) for every tag that persists a token *)
Fixpoint process_prov (k : kind) (nin nout : nat) (keys : list string) (m : imap) : list (string * list Z) :=
  match keys with
  | [] => []
  | g :: r =>
      match lookup_key g m with
      | Some inner =>
          if Nat.eqb (length inner) nin then
            match emit_tag k nout g inner with
            | None => []                                        (* the exception leaves the loop: nothing persisted *)
            | Some o => (if emits_something o then [(g, group_ids inner)] else []) ++
                        process_prov k nin nout r (remove_key g m)
            end
          else process_prov k nin nout r m
      | None => process_prov k nin nout r m
      end
  end.
Definition round_prov (k : kind) (nin nout : nat) (m : imap) (heads : list tok) : list (string * list Z) :=
  if existsb is_term heads then []
  else let m1 := group_by_tag 0 heads m in process_prov k nin nout (map fst m1) m1.
(* the state after the round, as Net.Model.tg_fire computes it *)
Definition round_state (k : kind) (nin nout : nat) (m : imap) (heads : list tok) : imap :=
  fst (fst (tg_fire k nin nout m [] heads)).
Fixpoint rounds_prov (k : kind) (nin nout : nat) (m : imap) (rounds : list (list tok)) : list (string * list Z) :=
  match rounds with
  | [] => []
  | h :: r => round_prov k nin nout m h ++ rounds_prov k nin nout (round_state k nin nout m h) r
  end.

(* ---------------------------------------------------------------- id-carrying tokens of Gather.Model / Loop.Model *)
Definition idtok (tg : string) (id : N) : Gather.Model.tok := Gather.Model.Tok tg (dec id).
Definition tok_id (x : Gather.Model.tok) : N :=
  match x with Gather.Model.Tok _ v => match undec v with Some n => n | None => 0%N end | Gather.Model.ListTok _ _ => 0%N end.

(* GatherStep: the arrivals at the size port, with the ids of the size tokens: (key, n, id) *)
Fixpoint size_id (key : string) (sizes : list (string * N * N)) : option N :=
  match sizes with
  | [] => None
  | (k, _, id) :: r => match size_id key r with Some x => Some x | None => if String.eqb k key then Some id else None end
  end.
(* _gather(key): get_entity_ids([self.size_map[key], *self.token_map[key]]); the emitted ListToken holds exactly
   token_map[key] (sorted), so the element ids are read off the emitted token *)
Definition gather_prov (sizes : list (string * N * N)) (out : Gather.Model.tok) : list N :=
  match out with
  | Gather.Model.ListTok key elems =>
      (match size_id key sizes with Some s => [s] | None => [] end) ++ map tok_id elems
  | Gather.Model.Tok _ _ => []
  end.

(* ---------------------------------------------------------------- CombinatorStep (Comb.Model tokens are (id, tag)) *)
Definition schema_ids (s : Comb.Model.schema) : list N := map (fun kv => fst (snd kv)) s.

(* ---------------------------------------------------------------- LoopOutputStep, policy OutAll *)
Definition loop_prov (out : Gather.Model.tok) : list N :=
  match out with Gather.Model.ListTok _ elems => map tok_id elems | Gather.Model.Tok _ _ => [] end.

(* ---------------------------------------------------------------- ExecuteStep._check_inputs: job <-> tag pairing *)
(* jobs = the job tokens in the order the job port delivers them (the order ScheduleStep completed the tags);
   completed = the tags in the order they complete at the ExecuteStep: the k-th completed tag runs under the k-th job *)
Definition pair_jobs (jobs completed : list string) : list (string * string) := combine jobs completed.
