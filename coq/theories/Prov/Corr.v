(* Prov/Corr.v — the checker run on table dumps (C07 check). *)
From Coq Require Import List Bool NArith.
From SF Require Import Base.Str Base.Corr.
From SF Require Export Prov.Model.
Import ListNotations.

Inductive ccase :=
(* a dump: ids of the rows of `token`, rows of `provenance`, and for every token emitted by a step the ids of
   the persisted tokens it was computed from (established by the harness from the property text) *)
| CProv (toks : list N) (edges : list edge) (expected : list (N * list N)) (verdict : bool)
(* a recorded interleaving of _persist_token calls (Begin/Save/Prov) and the edges it wrote, newest first *)
| CDisc (start : N) (ops : list pop) (edges : list edge)
| CAnd (a b : ccase).

Definition edge_eqb (a b : edge) : bool := N.eqb (fst a) (fst b) && N.eqb (snd a) (snd b).

Fixpoint check_case (c : ccase) : bool :=
  match c with
  | CProv toks edges expected verdict => Bool.eqb (prov_ok toks edges expected) verdict
  | CDisc start ops edges =>
      match prun (pinit start) ops with
      | Some d => forallb (fun e => existsb (edge_eqb e) (pedges d)) edges &&
                  forallb (fun e => existsb (edge_eqb e) edges) (pedges d)
      | None => false
      end
  | CAnd a b => check_case a && check_case b
  end.
