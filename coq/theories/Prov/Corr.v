(* Prov/Corr.v — the checker run on table dumps (C07 check). *)
From Coq Require Import List Bool NArith.
From SF Require Import Base.Str Base.Corr.
From SF Require Export Prov.Model.
From SF Require Prov.Steps Net.Model Gather.Model Comb.Model Comb.Proofs Comb.Cart.
From Coq Require Import ZArith.
Import ListNotations.

Inductive ccase :=
(* a dump: ids of the rows of `token`, rows of `provenance`, and for every token emitted by a step the ids of
   the persisted tokens it was computed from (established by the harness from the property text) *)
| CProv (toks : list N) (edges : list edge) (expected : list (N * list N)) (verdict : bool)
(* a recorded interleaving of _persist_token calls (Begin/Save/Prov) and the edges it wrote, newest first *)
| CDisc (start : N) (ops : list pop) (edges : list edge)
(* step-level provenance (kind `stepprov`): what a step recorded for its emissions vs the id-carrying step models of
   Prov/Steps.v.  Merge-style steps are run on the canonical arrival order (port after port): their records per
   emitted token do not depend on the order (theorems C07_step_inputs_...), bags are compared. *)
| CRounds (nin nout : nat) (rounds : list (list (string * Z))) (obs : list (string * list Z))
| CDot (items : list string) (arr : list (string * (N * string))) (obs : list (list N))
| CCart (items : list string) (d : nat) (arr : list (string * (N * string))) (obs : list (list N))
| CGather (sizes : list (string * N * N)) (elems : list (string * N)) (obs : list (string * list N))
(* get_entity_ids on entities whose persistent_id is None / 0 / n *)
| CEntityIds (l : list (option N)) (r : list N)
| CAnd (a b : ccase).

Fixpoint remove_by {A} (eqb : A -> A -> bool) (x : A) (l : list A) : option (list A) :=
  match l with
  | [] => None
  | y :: r => if eqb x y then Some r else match remove_by eqb x r with Some r' => Some (y :: r') | None => None end
  end.
Fixpoint bag_eqb {A} (eqb : A -> A -> bool) (a b : list A) : bool :=
  match a with
  | [] => match b with [] => true | _ => false end
  | x :: r => match remove_by eqb x b with Some b' => bag_eqb eqb r b' | None => false end
  end.

Definition edge_eqb (a b : edge) : bool := N.eqb (fst a) (fst b) && N.eqb (snd a) (snd b).

Fixpoint check_case (c : ccase) : bool :=
  match c with
  | CProv toks edges expected verdict => Bool.eqb (prov_ok toks edges expected) verdict
  | CDisc start ops edges =>
      match prun (pinit start) ops with
      | Some d => forallb (fun e => existsb (edge_eqb e) (pedges d)) edges &&
                  forallb (fun e => existsb (edge_eqb e) edges) (pedges d)
      | None => false
      end
  | CRounds nin nout rounds obs =>
      let model := Prov.Steps.rounds_prov (Net.Model.KXf 0%Z []) nin nout []
                     (map (map (fun p => Net.Model.Tok (fst p) (snd p))) rounds) in
      list_eqb (pair_eqb String.eqb (bag_eqb Z.eqb)) model obs
  | CDot items arr obs =>
      let r := Comb.Model.run (Comb.Proofs.c1 items) Comb.Model.init_state arr in
      match snd r with
      | None => bag_eqb (bag_eqb N.eqb) (map Prov.Steps.schema_ids (concat (fst r))) obs
      | Some _ => false
      end
  | CCart items d arr obs =>
      let r := Comb.Model.run (Comb.Cart.cc items d) Comb.Model.init_state arr in
      match snd r with
      | None => bag_eqb (bag_eqb N.eqb) (map Prov.Steps.schema_ids (concat (fst r))) obs
      | Some _ => false
      end
  | CGather sizes elems obs =>
      let arr := map (fun s => Gather.Model.OnSize (fst (fst s)) (snd (fst s))) sizes ++
                 map (fun e => Gather.Model.OnElem (Prov.Steps.idtok (fst e) (snd e))) elems ++
                 [Gather.Model.OnTerm Gather.Model.SizeP Gather.Model.Completed;
                  Gather.Model.OnTerm Gather.Model.ElemP Gather.Model.Completed] in
      let outs := Gather.Model.gout (Gather.Model.gd (Gather.Model.gather_run 1 arr)) in
      bag_eqb (pair_eqb String.eqb (bag_eqb N.eqb))
              (map (fun o => (Gather.Model.tag_of o, Prov.Steps.gather_prov sizes o)) outs) obs
  | CEntityIds l r => list_eqb N.eqb (Prov.Steps.get_entity_ids l) r
  | CAnd a b => check_case a && check_case b
  end.
