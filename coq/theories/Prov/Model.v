(* Prov/Model.v — (i) a checker over a dump of the `token` and `provenance` tables, (ii) a model of how
   BaseStep._persist_token writes them.  Definitions only.

   ANCHORS:
     streamflow.workflow.step.BaseStep._persist_token      (token.save, then add_provenance(inputs, token))
     streamflow.core.utils.get_entity_ids                  (drops entities that have no persistent_id)
     streamflow.persistence.sqlite.SqliteDatabase.add_token / add_provenance (INSERT OR IGNORE (dependee, depender))
     streamflow/persistence/schemas/sqlite.sql             (token.id INTEGER PRIMARY KEY; provenance(dependee, depender)) *)
From Coq Require Import List Bool NArith.
Import ListNotations.

Definition edge := (N * N)%type.                 (* (dependee, depender) *)

Definition mem (x : N) (l : list N) : bool := existsb (N.eqb x) l.
Definition dependees (t : N) (edges : list edge) : list N :=
  map fst (filter (fun e => N.eqb (snd e) t) edges).
Definition set_eqb (a b : list N) : bool := forallb (fun x => mem x b) a && forallb (fun x => mem x a) b.

(* every edge joins two persisted tokens and points from a smaller id to a larger one *)
Definition edges_ok (toks : list N) (edges : list edge) : bool :=
  forallb (fun e => mem (fst e) toks && mem (snd e) toks && N.ltb (fst e) (snd e)) edges.
(* expected = for every token a step emitted, the ids of the persisted tokens it was computed from *)
Definition expected_ok (toks : list N) (edges : list edge) (expected : list (N * list N)) : bool :=
  forallb (fun ex => mem (fst ex) toks && set_eqb (dependees (fst ex) edges) (snd ex)) expected.
Definition no_stray (edges : list edge) (expected : list (N * list N)) : bool :=
  forallb (fun e => mem (snd e) (map fst expected)) edges.

Definition prov_ok (toks : list N) (edges : list edge) (expected : list (N * list N)) : bool :=
  edges_ok toks edges && expected_ok toks edges expected && no_stray edges expected.

Inductive path (E : list edge) : N -> N -> Prop :=
| path_one a b : In (a, b) E -> path E a b
| path_cons a b c : In (a, b) E -> path E b c -> path E a c.

(* ---------------------------------------------------------------- how the tables are written
   One emission = one call of _persist_token by some step, in three moments separated by suspension points, so
   that calls of different steps interleave arbitrarily:
     Begin k ins : the argument get_entity_ids(inputs) is evaluated: ins = ids of the consumed tokens that are
                   persisted at that moment (the others are dropped)
     Save k      : token.save -> a fresh id (SQLite rowid: larger than every id allocated before)
     Prov k      : add_provenance(ins, id of k) *)
Inductive pop := Begin (k : nat) (ins : list N) | Save (k : nat) | Prov (k : nat).

Record pdb := mkP { next : N;                          (* ids 1 .. next-1 are allocated *)
                    pending : list (nat * list N);     (* calls between Begin and Save *)
                    saved : list (nat * (N * list N)); (* calls between Save and Prov: (id, ins) *)
                    pedges : list edge }.

Fixpoint take {A} (k : nat) (l : list (nat * A)) : option (A * list (nat * A)) :=
  match l with
  | [] => None
  | (j, x) :: r => if Nat.eqb j k then Some (x, r)
                   else match take k r with Some (y, r') => Some (y, (j, x) :: r') | None => None end
  end.

Definition pstep (d : pdb) (o : pop) : option pdb :=
  match o with
  | Begin k ins =>
      if forallb (fun i => N.ltb i (next d)) ins      (* only tokens that already have an id can be named *)
      then Some (mkP (next d) ((k, ins) :: pending d) (saved d) (pedges d)) else None
  | Save k =>
      match take k (pending d) with
      | Some (ins, rest) => Some (mkP (N.succ (next d)) rest ((k, (next d, ins)) :: saved d) (pedges d))
      | None => None
      end
  | Prov k =>
      match take k (saved d) with
      | Some ((id, ins), rest) => Some (mkP (next d) (pending d) rest (map (fun i => (i, id)) ins ++ pedges d))
      | None => None
      end
  end.

Fixpoint prun (d : pdb) (ops : list pop) : option pdb :=
  match ops with
  | [] => Some d
  | o :: r => match pstep d o with Some d' => prun d' r | None => None end
  end.

Definition pinit (n : N) : pdb := mkP n [] [] [].
