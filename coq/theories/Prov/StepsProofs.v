(* Prov/StepsProofs.v — for every arrival order, what a step records as the inputs of an emitted token is exactly what
   it consumed to compute it (C07, step level). *)
From Coq Require Import List Bool Arith NArith ZArith Lia Permutation.
From SF Require Import Base.Str Base.Dec Tags.Model Net.Model Prov.Steps.
From SF Require Gather.Model Gather.Proofs Comb.Model Comb.Proofs Comb.Flat Comb.Cart Loop.Model Loop.Proofs.
Import ListNotations.
Local Open Scope string_scope. Local Open Scope list_scope.

(* ================================================================== ScatterStep *)
Lemma scatter_inputs id n : forall r, In r (scatter_prov id n) -> r = [id].
Proof. unfold scatter_prov. intros r H. apply repeat_spec in H. exact H. Qed.
Lemma scatter_count id n : length (scatter_prov id n) = S n.
Proof. apply repeat_length. Qed.

(* ================================================================== Transformer / ConditionalStep rounds *)
Definition inner_ok (g : string) (inner : list (nat * tok)) : Prop :=
  (forall p, In p inner -> tok_tag (snd p) = g) /\ NoDup (map fst inner).
Definition imap_ok (m : imap) : Prop :=
  NoDup (map fst m) /\ forall g inner, In (g, inner) m -> inner_ok g inner.

Lemma NoDup_snoc {A} (l : list A) x : NoDup l -> ~ In x l -> NoDup (l ++ [x]).
Proof.
  induction l as [|a l IH]; intros ND Hn; simpl; [constructor; [intros []|constructor]|].
  inversion ND as [|? ? Ha ND']; subst. constructor.
  - intros H. apply in_app_or in H. destruct H as [H|[H|[]]]; [contradiction|subst; apply Hn; left; reflexivity].
  - apply IH; [exact ND'|intros H; apply Hn; right; exact H].
Qed.

Lemma set_inner_keys i t : forall inner,
  (In i (map fst inner) /\ map fst (set_inner i t inner) = map fst inner) \/
  (~ In i (map fst inner) /\ map fst (set_inner i t inner) = map fst inner ++ [i]).
Proof.
  induction inner as [|[j u] r IH]; simpl; [right; split; auto|].
  destruct (Nat.eqb i j) eqn:E.
  - apply Nat.eqb_eq in E. subst. left. split; [left; reflexivity|reflexivity].
  - apply Nat.eqb_neq in E. destruct IH as [[H1 H2]|[H1 H2]].
    + left. simpl. split; [right; exact H1|f_equal; exact H2].
    + right. simpl. split; [intros [H|H]; [congruence|contradiction]|f_equal; exact H2].
Qed.

Lemma set_inner_in i t : forall inner p, In p (set_inner i t inner) -> p = (i, t) \/ In p inner.
Proof.
  induction inner as [|[j u] r IH]; simpl; intros p H.
  - destruct H as [<-|[]]. left. reflexivity.
  - destruct (Nat.eqb i j) eqn:E; simpl in H.
    + apply Nat.eqb_eq in E. subst. destruct H as [<-|H]; [left; reflexivity|right; right; exact H].
    + destruct H as [<-|H]; [right; left; reflexivity|]. destruct (IH p H) as [->|H']; [left; reflexivity|right; right; exact H'].
Qed.

Lemma set_inner_ok g i t inner : tok_tag t = g -> inner_ok g inner -> inner_ok g (set_inner i t inner).
Proof.
  intros Ht [H1 H2]. split.
  - intros p Hp. destruct (set_inner_in i t inner p Hp) as [->|H]; [exact Ht|apply H1; exact H].
  - destruct (set_inner_keys i t inner) as [[_ E]|[Hn E]]; rewrite E; [exact H2|].
    apply NoDup_snoc; auto.
Qed.

Lemma lookup_key_in g : forall m inner, lookup_key g m = Some inner -> In (g, inner) m.
Proof.
  induction m as [|[g' x] r IH]; simpl; intros inner H; [discriminate|].
  destruct (String.eqb g g') eqn:E.
  - apply String.eqb_eq in E. inversion H; subst. left. reflexivity.
  - right. apply IH. exact H.
Qed.

Lemma group_one_keys i t : forall m,
  (In (tok_tag t) (map fst m) /\ map fst (group_one i t m) = map fst m) \/
  (~ In (tok_tag t) (map fst m) /\ map fst (group_one i t m) = map fst m ++ [tok_tag t]).
Proof.
  induction m as [|[g inner] r IH]; simpl; [right; split; auto|].
  destruct (String.eqb g (tok_tag t)) eqn:E.
  - apply String.eqb_eq in E. subst. left. split; [left; reflexivity|reflexivity].
  - apply String.eqb_neq in E. destruct IH as [[H1 H2]|[H1 H2]].
    + left. simpl. split; [right; exact H1|f_equal; exact H2].
    + right. simpl. split; [intros [H|H]; [congruence|contradiction]|f_equal; exact H2].
Qed.

Lemma group_one_in i t : forall m g inner, In (g, inner) (group_one i t m) ->
  In (g, inner) m \/ (g = tok_tag t /\ (inner = [(i, t)] \/ exists old, In (g, old) m /\ inner = set_inner i t old)).
Proof.
  induction m as [|[g' x] r IH]; simpl; intros g inner H.
  - destruct H as [H|[]]. inversion H; subst. right. split; auto.
  - destruct (String.eqb g' (tok_tag t)) eqn:E; simpl in H.
    + apply String.eqb_eq in E. destruct H as [H|H].
      * inversion H; subst. right. split; [reflexivity|]. right. exists x. split; [left; reflexivity|reflexivity].
      * left. right. exact H.
    + destruct H as [H|H]; [left; left; exact H|].
      destruct (IH g inner H) as [H'|[Hg [Hi|[old [Ho Hs]]]]]; [left; right; exact H'| |].
      * right. split; auto.
      * right. split; [exact Hg|]. right. exists old. split; [right; exact Ho|exact Hs].
Qed.

Lemma group_one_ok i t m : imap_ok m -> imap_ok (group_one i t m).
Proof.
  intros [N1 N2]. split.
  - destruct (group_one_keys i t m) as [[_ E]|[Hn E]]; rewrite E; [exact N1|apply NoDup_snoc; auto].
  - intros g inner H. destruct (group_one_in i t m g inner H) as [H'|[Hg [Hi|[old [Ho Hs]]]]].
    + apply N2. exact H'.
    + subst. split; [intros p [<-|[]]; reflexivity|simpl; constructor; [intros []|constructor]].
    + subst. apply set_inner_ok; [reflexivity|apply N2; exact Ho].
Qed.

Lemma group_by_tag_ok : forall heads i m, imap_ok m -> imap_ok (group_by_tag i heads m).
Proof. induction heads as [|t r IH]; intros i m H; simpl; [exact H|]. apply IH. apply group_one_ok. exact H. Qed.

Lemma remove_key_in g : forall m x, In x (remove_key g m) -> In x m.
Proof.
  induction m as [|[g' y] r IH]; simpl; intros x H; [destruct H|].
  destruct (String.eqb g g'); [right; exact H|]. destruct H as [H|H]; [left; exact H|right; apply IH; exact H].
Qed.
Lemma remove_key_nodup g : forall m, NoDup (map fst m) -> NoDup (map fst (remove_key g m)).
Proof.
  induction m as [|[g' y] r IH]; simpl; intros ND; [constructor|]. inversion ND as [|? ? Hn ND']; subst.
  destruct (String.eqb g g'); [exact ND'|]. simpl. constructor; [|apply IH; exact ND'].
  intros H. apply Hn. apply in_map_iff in H. destruct H as [x [Hx Hin]]. apply in_map_iff. exists x. split; auto.
  eapply remove_key_in; eauto.
Qed.
Lemma remove_key_ok g m : imap_ok m -> imap_ok (remove_key g m).
Proof.
  intros [N1 N2]. split; [apply remove_key_nodup; exact N1|]. intros g0 inner H. apply N2. eapply remove_key_in; eauto.
Qed.

(* every record of a round: the ids of one complete tag group — one token per input port, all bearing that tag *)
Lemma process_prov_inputs k nin nout : forall keys m g ids, imap_ok m -> In (g, ids) (process_prov k nin nout keys m) ->
  exists inner, ids = group_ids inner /\ inner_ok g inner /\ length inner = nin.
Proof.
  induction keys as [|g0 r IH]; intros m g ids Hm H; simpl in H; [destruct H|].
  destruct (lookup_key g0 m) as [inner|] eqn:L; [|eapply IH; eauto].
  destruct (Nat.eqb (length inner) nin) eqn:E; [|eapply IH; eauto].
  destruct (emit_tag k nout g0 inner) as [o|]; [|destruct H].
  apply in_app_or in H. destruct H as [H|H].
  - destruct (emits_something o); [|destruct H]. destruct H as [H|[]]. inversion H; subst.
    exists inner. split; [reflexivity|]. split; [apply (proj2 Hm); apply lookup_key_in; exact L|apply Nat.eqb_eq; exact E].
  - eapply IH; [apply remove_key_ok; exact Hm|exact H].
Qed.

Theorem round_inputs k nin nout m heads g ids : imap_ok m -> In (g, ids) (round_prov k nin nout m heads) ->
  exists inner, ids = group_ids inner /\ inner_ok g inner /\ length inner = nin.
Proof.
  intros Hm H. unfold round_prov in H. destruct (existsb is_term heads); [destruct H|].
  eapply process_prov_inputs; [apply group_by_tag_ok; exact Hm|exact H].
Qed.

Lemma process_tags_ok k nin nout : forall keys m acc m' o b, imap_ok m ->
  process_tags k nin nout keys m acc = (m', o, b) -> imap_ok m'.
Proof.
  induction keys as [|g r IH]; intros m acc m' o b Hm H; simpl in H.
  - inversion H; subst. exact Hm.
  - destruct (lookup_key g m) as [inner|]; [|eapply IH; eauto].
    destruct (Nat.eqb (length inner) nin); [|eapply IH; eauto].
    destruct (emit_tag k nout g inner).
    + eapply IH; [apply remove_key_ok; exact Hm|exact H].
    + inversion H; subst. apply remove_key_ok. exact Hm.
Qed.

Lemma round_state_ok k nin nout m heads : imap_ok m -> imap_ok (round_state k nin nout m heads).
Proof.
  intros Hm. unfold round_state, tg_fire. destruct (existsb is_term heads); [exact Hm|].
  destruct (process_tags k nin nout (map fst (group_by_tag 0 heads m)) (group_by_tag 0 heads m) (repeat [] nout))
    as [[m2 o] b] eqn:P.
  assert (imap_ok m2) by (eapply process_tags_ok; [apply group_by_tag_ok; exact Hm|exact P]).
  destruct b; exact H.
Qed.

(* for ANY sequence of rounds (any contents of the ports, any tags in any order) *)
Theorem rounds_inputs k nin nout : forall rounds m g ids, imap_ok m -> In (g, ids) (rounds_prov k nin nout m rounds) ->
  exists inner, ids = group_ids inner /\ inner_ok g inner /\ length inner = nin.
Proof.
  induction rounds as [|h r IH]; intros m g ids Hm H; simpl in H; [destruct H|].
  apply in_app_or in H. destruct H as [H|H]; [eapply round_inputs; eauto|].
  eapply IH; [apply round_state_ok; exact Hm|exact H].
Qed.

Lemma imap_ok_nil : imap_ok [].
Proof. split; [constructor|intros g inner []]. Qed.

(* ================================================================== GatherStep (from C01) *)
Module G := Gather.Model.
Module GP := Gather.Proofs.

Definition sizes_of (sid : GP.inst -> N) (insts : list GP.inst) : list (string * N * N) :=
  map (fun i => (GP.ikey i, N.of_nat (length (snd i)), sid i)) insts.

Lemma size_id_of sid : forall insts i, NoDup (map GP.ikey insts) -> In i insts ->
  size_id (GP.ikey i) (sizes_of sid insts) = Some (sid i).
Proof.
  induction insts as [|a r IH]; intros i ND Hi; [destruct Hi|]. inversion ND as [|? ? Hn ND']; subst. simpl.
  destruct Hi as [->|Hi].
  - assert (E : size_id (GP.ikey i) (sizes_of sid r) = None).
    { clear -Hn. induction r as [|b r IH]; simpl; auto. simpl in Hn.
      rewrite IH by (intros H; apply Hn; right; exact H).
      destruct (String.eqb (GP.ikey b) (GP.ikey i)) eqn:E; [apply String.eqb_eq in E; exfalso; apply Hn; left; exact E|reflexivity]. }
    rewrite E, String.eqb_refl. reflexivity.
  - rewrite (IH i ND' Hi). reflexivity.
Qed.

(* for every legal arrival order of the scattered instances at the gather: every emitted token is the list of one
   instance, and what _gather records for it is the size token of that key followed by every element token of
   that key, each once (in list order) *)
Theorem gather_inputs : forall (sid : GP.inst -> N) (insts : list GP.inst) l1 l2 p1 p2,
  Forall GP.inst_ok insts -> NoDup (map GP.ikey insts) ->
  Permutation (l1 ++ l2) (GP.all_arrivals insts) -> p1 <> p2 -> (forall a, In a l2 -> G.port_of a <> p1) ->
  let s := G.gather_run 1 (l1 ++ G.OnTerm p1 G.Completed :: l2 ++ [G.OnTerm p2 G.Completed]) in
  forall out, In out (G.gout (G.gd s)) ->
    exists i, In i insts /\ out = G.ListTok (GP.ikey i) (snd i) /\
              gather_prov (sizes_of sid insts) out = sid i :: map tok_id (snd i).
Proof.
  intros sid insts l1 l2 p1 p2 Hok Hnd Hp Hne Hl s out Hout.
  destruct (GP.gather_many_perm insts l1 l2 p1 p2 Hok Hnd Hp Hne Hl) as [P _].
  pose proof (Permutation_in out P Hout) as Hin. unfold GP.expected_out in Hin. apply in_map_iff in Hin.
  destruct Hin as [i [<- Hi]]. exists i. split; [exact Hi|]. split; [reflexivity|].
  simpl. rewrite (size_id_of sid insts i Hnd Hi). reflexivity.
Qed.

(* ================================================================== dot product (from C02) *)
Lemma schema_ids_combo (l : list Comb.Flat.arv) : schema_ids (Comb.Flat.combo l) = map (fun x : Comb.Flat.arv => fst (snd x)) l.
Proof. unfold schema_ids, Comb.Flat.combo, Comb.Model.retag. rewrite !map_map. reflexivity. Qed.

(* for every arrival order (C02's shape [wf]): every emitted combination is that of a tag g present on all the n ports,
   and CombinatorStep records for it the ids of exactly the n tokens tagged g, one per port *)
Theorem dot_inputs : forall items (arr : list Comb.Flat.arv), Comb.Flat.wf items arr ->
  snd (Comb.Model.run (Comb.Proofs.c1 items) Comb.Model.init_state arr) = None /\
  forall s, In s (concat (fst (Comb.Model.run (Comb.Proofs.c1 items) Comb.Model.init_state arr))) ->
    exists g, length (Comb.Flat.sel g arr) = length items /\ NoDup (map fst (Comb.Flat.sel g arr)) /\
              schema_ids s = map (fun x : Comb.Flat.arv => fst (snd x)) (Comb.Flat.sel g arr).
Proof.
  intros items arr W. rewrite (Comb.Flat.dot_flat items arr W). simpl. split; [reflexivity|].
  intros s Hs. pose proof (Permutation_in s (Comb.Flat.outs_done items arr W) Hs) as Hd.
  unfold Comb.Flat.done in Hd. apply in_map_iff in Hd. destruct Hd as [g [<- Hg]].
  apply filter_In in Hg. destruct Hg as [_ Hc]. unfold Comb.Flat.complete in Hc. apply Nat.eqb_eq in Hc.
  exists g. split; [exact Hc|]. split; [apply Comb.Flat.sel_ports_nodup; destruct W as [_ [_ [W3 _]]]; exact W3|].
  apply schema_ids_combo.
Qed.

(* ================================================================== cartesian product (from C02) *)
Lemma schema_ids_mk_out (ch : list Comb.Flat.arv) : schema_ids (Comb.Cart.mk_out ch) = map (fun x : Comb.Flat.arv => fst (snd x)) ch.
Proof. unfold schema_ids, Comb.Cart.mk_out. rewrite map_map. reflexivity. Qed.

(* every emitted combination is [mk_out] of a choice — one ARRIVED token per port, in port order, all of one group —
   and the recorded ids are exactly the ids of that choice *)
Theorem cart_inputs : forall items d (Hd : d <> 0) (arr : list Comb.Flat.arv), items <> [] -> Comb.Cart.wfc items d arr ->
  snd (Comb.Model.run (Comb.Cart.cc items d) Comb.Model.init_state arr) = None /\
  forall s, In s (concat (fst (Comb.Model.run (Comb.Cart.cc items d) Comb.Model.init_state arr))) ->
    exists ch, map fst ch = items /\ (forall y, In y ch -> In y arr) /\
               schema_ids s = map (fun x : Comb.Flat.arv => fst (snd x)) ch.
Proof.
  intros items d Hd arr Hne W. destruct (Comb.Cart.cart_full items d Hd arr Hne W) as [R [_ Hch]].
  rewrite R. simpl. split; [reflexivity|]. intros s Hs. rewrite <- concat_map in Hs. apply in_map_iff in Hs.
  destruct Hs as [ch [<- Hc]]. apply Hch in Hc. destruct Hc as [C1 [C2 _]].
  exists ch. split; [exact C1|]. split; [exact C2|apply schema_ids_mk_out].
Qed.

(* ================================================================== LoopOutputStep, policy OutAll (from C06) *)
Theorem loop_all_inputs : forall (insts : list GP.inst) (arr : list Loop.Model.larr),
  Forall GP.inst_ok insts -> NoDup (map GP.ikey insts) -> Permutation arr (Loop.Proofs.all_larr insts) ->
  forall out, In out (Loop.Model.lout (Loop.Model.loop_run Loop.Model.OutAll (arr ++ [Loop.Model.LTerm G.Completed]))) ->
    exists i, In i insts /\ out = G.ListTok (render (fst i)) (snd i) /\ loop_prov out = map tok_id (snd i).
Proof.
  intros insts arr Hok Hnd P out Hout.
  pose proof (Permutation_in out (Loop.Proofs.loop_step_all insts arr Hok Hnd P) Hout) as Hin.
  apply in_map_iff in Hin. destruct Hin as [i [<- Hi]]. exists i. split; [exact Hi|]. split; reflexivity.
Qed.

(* ================================================================== ExecuteStep._check_inputs *)
(* the job port delivers the jobs in the order the ScheduleStep completed the tags; the ExecuteStep may complete them in
   another order (its data ports deliver the tags in different orders): a tag then runs under another tag's job *)
Theorem job_pairing_refuted : exists jobs completed j t,
  Permutation jobs completed /\ In (j, t) (pair_jobs jobs completed) /\ j <> t.
Proof.
  exists ["0.0"; "0.1"], ["0.1"; "0.0"], "0.0", "0.1". split; [apply perm_swap|]. split; [left; reflexivity|discriminate].
Qed.

(* ================================================================== rounds: the recorded tokens were CONSUMED *)
(* [from Q m]: every (port, token) stored in the inputs_map satisfies Q; with Q = "was a head of some round at that
   port" this says a group only ever holds tokens the step read, at the port it read them from *)
Definition from (Q : nat * tok -> Prop) (m : imap) : Prop :=
  forall g inner, In (g, inner) m -> forall p, In p inner -> Q p.

Lemma group_one_from Q i t m : from Q m -> Q (i, t) -> from Q (group_one i t m).
Proof.
  intros Hm Hs g inner H p Hp. destruct (group_one_in i t m g inner H) as [H'|[_ [Hi|[old [Ho Hi]]]]].
  - eapply Hm; eauto.
  - subst. destruct Hp as [<-|[]]. exact Hs.
  - subst. destruct (set_inner_in i t old p Hp) as [->|Hq]; [exact Hs|eapply Hm; eauto].
Qed.

Lemma group_by_tag_from Q : forall heads i m, from Q m ->
  (forall j t, nth_error heads j = Some t -> Q (i + j, t)) -> from Q (group_by_tag i heads m).
Proof.
  induction heads as [|t r IH]; intros i m Hm Hh; simpl; [exact Hm|]. apply IH.
  - apply group_one_from; [exact Hm|]. specialize (Hh 0 t eq_refl). rewrite Nat.add_0_r in Hh. exact Hh.
  - intros j u Hj. replace (S i + j) with (i + S j) by lia. apply Hh. exact Hj.
Qed.

Lemma remove_key_from Q g m : from Q m -> from Q (remove_key g m).
Proof. intros Hm g0 inner H p Hp. eapply Hm; [eapply remove_key_in; eauto|exact Hp]. Qed.

Lemma process_prov_from Q k nin nout : forall keys m g ids, imap_ok m -> from Q m ->
  In (g, ids) (process_prov k nin nout keys m) ->
  exists inner, ids = group_ids inner /\ inner_ok g inner /\ length inner = nin /\ forall p, In p inner -> Q p.
Proof.
  induction keys as [|g0 r IH]; intros m g ids Hm Hf H; simpl in H; [destruct H|].
  destruct (lookup_key g0 m) as [inner|] eqn:L; [|eapply IH; eauto].
  destruct (Nat.eqb (length inner) nin) eqn:E; [|eapply IH; eauto].
  destruct (emit_tag k nout g0 inner) as [o|]; [|destruct H].
  apply in_app_or in H. destruct H as [H|H].
  - destruct (emits_something o); [|destruct H]. destruct H as [H|[]]. inversion H; subst.
    pose proof (lookup_key_in _ _ _ L) as Hin.
    exists inner. split; [reflexivity|]. split; [apply (proj2 Hm); exact Hin|]. split; [apply Nat.eqb_eq; exact E|].
    intros p Hp. eapply Hf; eauto.
  - eapply IH; [apply remove_key_ok; exact Hm|apply remove_key_from; exact Hf|exact H].
Qed.

Lemma process_tags_from Q k nin nout : forall keys m acc m' o b, from Q m ->
  process_tags k nin nout keys m acc = (m', o, b) -> from Q m'.
Proof.
  induction keys as [|g r IH]; intros m acc m' o b Hm H; simpl in H.
  - inversion H; subst. exact Hm.
  - destruct (lookup_key g m) as [inner|]; [|eapply IH; eauto].
    destruct (Nat.eqb (length inner) nin); [|eapply IH; eauto].
    destruct (emit_tag k nout g inner).
    + eapply IH; [apply remove_key_from; exact Hm|exact H].
    + inversion H; subst. apply remove_key_from. exact Hm.
Qed.

Lemma round_state_from Q k nin nout m heads : from Q m ->
  (forall j t, nth_error heads j = Some t -> Q (j, t)) -> from Q (round_state k nin nout m heads).
Proof.
  intros Hm Hh. unfold round_state, tg_fire. destruct (existsb is_term heads); [exact Hm|].
  destruct (process_tags k nin nout (map fst (group_by_tag 0 heads m)) (group_by_tag 0 heads m) (repeat [] nout))
    as [[m2 o] b] eqn:P.
  assert (from Q m2) by (eapply process_tags_from; [apply (group_by_tag_from Q heads 0); [exact Hm|intros j0 t0 Hj0; simpl; apply Hh; exact Hj0]|exact P]).
  destruct b; exact H.
Qed.

Theorem rounds_inputs_consumed k nin nout : forall rounds m g ids (Q : nat * tok -> Prop),
  imap_ok m -> from Q m ->
  (forall heads j t, In heads rounds -> nth_error heads j = Some t -> Q (j, t)) ->
  In (g, ids) (rounds_prov k nin nout m rounds) ->
  exists inner, ids = group_ids inner /\ inner_ok g inner /\ length inner = nin /\ forall p, In p inner -> Q p.
Proof.
  induction rounds as [|h r IH]; intros m g ids Q Hm Hf Hs H; simpl in H; [destruct H|].
  assert (Hh : forall j t, nth_error h j = Some t -> Q (j, t)) by (intros j t; apply Hs; left; reflexivity).
  apply in_app_or in H. destruct H as [H|H].
  - unfold round_prov in H. destruct (existsb is_term h); [destruct H|].
    eapply process_prov_from; [apply group_by_tag_ok; exact Hm|apply (group_by_tag_from Q h 0); [exact Hf|intros j0 t0 Hj0; simpl; apply Hh; exact Hj0]|exact H].
  - eapply IH; [apply round_state_ok; exact Hm|apply round_state_from; [exact Hf|exact Hh]| |exact H].
    intros heads j t Hin. apply Hs. right. exact Hin.
Qed.

(* ================================================================== get_entity_ids *)
Theorem get_entity_ids_spec : forall l i,
  In i (get_entity_ids l) <-> (In (Some i) l /\ i <> 0%N).
Proof.
  intros l i. unfold get_entity_ids. rewrite in_flat_map. split.
  - intros [x [Hx Hi]]. destruct x as [n|]; [|destruct Hi]. destruct (N.eqb n 0) eqn:E; [destruct Hi|].
    destruct Hi as [<-|[]]. split; [exact Hx|apply N.eqb_neq; exact E].
  - intros [Hx Hn]. exists (Some i). split; [exact Hx|]. apply N.eqb_neq in Hn. rewrite Hn. left. reflexivity.
Qed.

(* it is a filter: the order of the entities is kept, nothing is duplicated *)
Theorem get_entity_ids_app : forall a b, get_entity_ids (a ++ b) = get_entity_ids a ++ get_entity_ids b.
Proof. intros. unfold get_entity_ids. apply flat_map_app. Qed.
