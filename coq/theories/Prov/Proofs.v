(* Prov/Proofs.v — soundness of the provenance checker; invariants of the writing discipline. *)
From Coq Require Import List Bool NArith Lia.
From SF Require Import Prov.Model.
Import ListNotations.

Lemma mem_In x l : mem x l = true <-> In x l.
Proof.
  unfold mem. rewrite existsb_exists. split.
  - intros [y [Hy He]]. apply N.eqb_eq in He. subst. exact Hy.
  - intros H. exists x. split; auto. apply N.eqb_refl.
Qed.

Lemma dependees_In a t edges : In a (dependees t edges) <-> In (a, t) edges.
Proof.
  unfold dependees. rewrite in_map_iff. split.
  - intros [[x y] [Hx Hf]]. simpl in Hx. subst. apply filter_In in Hf. destruct Hf as [Hin He].
    simpl in He. apply N.eqb_eq in He. subst. exact Hin.
  - intros H. exists (a, t). split; auto. apply filter_In. split; auto. simpl. apply N.eqb_refl.
Qed.

Lemma set_eqb_iff a b : set_eqb a b = true -> forall x, In x a <-> In x b.
Proof.
  unfold set_eqb. intros H x. apply andb_true_iff in H. destruct H as [H1 H2].
  rewrite forallb_forall in H1, H2. split; intros Hx.
  - apply mem_In. apply H1. exact Hx.
  - apply mem_In. apply H2. exact Hx.
Qed.

Lemma path_lt E : (forall a b, In (a, b) E -> (a < b)%N) -> forall x y, path E x y -> (x < y)%N.
Proof.
  intros H x y P. induction P as [a b Hab|a b c Hab _ IH].
  - apply H. exact Hab.
  - specialize (H a b Hab). lia.
Qed.

Theorem prov_ok_sound : forall toks edges expected,
  prov_ok toks edges expected = true ->
  (forall a b, In (a, b) edges -> In a toks /\ In b toks /\ (a < b)%N) /\
  (forall x y, path edges x y -> (x < y)%N) /\
  (forall x, ~ path edges x x) /\
  (forall t ins, In (t, ins) expected -> In t toks /\ forall a, In (a, t) edges <-> In a ins) /\
  (forall a b, In (a, b) edges -> exists ins, In (b, ins) expected).
Proof.
  intros toks edges expected H. unfold prov_ok in H.
  apply andb_true_iff in H. destruct H as [H H3]. apply andb_true_iff in H. destruct H as [H1 H2].
  unfold edges_ok in H1. rewrite forallb_forall in H1.
  unfold expected_ok in H2. rewrite forallb_forall in H2.
  unfold no_stray in H3. rewrite forallb_forall in H3.
  assert (E : forall a b, In (a, b) edges -> In a toks /\ In b toks /\ (a < b)%N).
  { intros a b Hab. specialize (H1 _ Hab). simpl in H1.
    apply andb_true_iff in H1. destruct H1 as [H1 Hlt]. apply andb_true_iff in H1. destruct H1 as [Ha Hb].
    apply mem_In in Ha. apply mem_In in Hb. apply N.ltb_lt in Hlt. auto. }
  assert (P : forall x y, path edges x y -> (x < y)%N).
  { apply path_lt. intros a b Hab. apply E. exact Hab. }
  split; [exact E|]. split; [exact P|]. split; [|split].
  - intros x Hx. specialize (P x x Hx). lia.
  - intros t ins Hin. specialize (H2 _ Hin). simpl in H2. apply andb_true_iff in H2. destruct H2 as [Ht Hs].
    apply mem_In in Ht. split; auto. intros a. rewrite <- dependees_In. apply set_eqb_iff. exact Hs.
  - intros a b Hab. specialize (H3 _ Hab). simpl in H3. apply mem_In in H3. apply in_map_iff in H3.
    destruct H3 as [[t ins] [Ht Hin]]. simpl in Ht. subst. exists ins. exact Hin.
Qed.

(* ---------------------------------------------------------------- the writing discipline keeps the order *)
Definition pinv (d : pdb) : Prop :=
  (forall k ins i, In (k, ins) (pending d) -> In i ins -> (i < next d)%N) /\
  (forall k id ins, In (k, (id, ins)) (saved d) -> (id < next d)%N /\ forall i, In i ins -> (i < id)%N) /\
  (forall a b, In (a, b) (pedges d) -> (a < b)%N /\ (b < next d)%N).

Lemma take_In {A} k (l : list (nat * A)) x r : take k l = Some (x, r) ->
  In (k, x) l /\ forall y, In y r -> In y l.
Proof.
  revert x r. induction l as [|[j z] l IH]; intros x r H; simpl in H; [discriminate|].
  destruct (Nat.eqb j k) eqn:E.
  - inversion H; subst. apply PeanoNat.Nat.eqb_eq in E. subst. split; [left; auto|intros; right; auto].
  - destruct (take k l) as [[y r']|]; [|discriminate]. inversion H; subst.
    destruct (IH _ _ eq_refl) as [H1 H2]. split; [right; auto|].
    intros w [<-|Hw]; [left; auto|right; auto].
Qed.

Lemma pstep_inv d o d' : pinv d -> pstep d o = Some d' -> pinv d'.
Proof.
  intros [I1 [I2 I3]] H. destruct o as [k ins|k|k]; simpl in H.
  - destruct (forallb (fun i => N.ltb i (next d)) ins) eqn:F; [|discriminate]. inversion H; subst; clear H.
    rewrite forallb_forall in F. split; [|split]; simpl; auto.
    intros k0 ins0 i [E|Hin] Hi; [inversion E; subst; apply N.ltb_lt; auto|eapply I1; eauto].
  - destruct (take k (pending d)) as [[ins rest]|] eqn:T; [|discriminate]. inversion H; subst; clear H.
    destruct (take_In _ _ _ _ T) as [T1 T2]. split; [|split]; simpl.
    + intros k0 ins0 i Hin Hi. specialize (I1 k0 ins0 i (T2 _ Hin) Hi). lia.
    + intros k0 id ins0 [E|Hin].
      * inversion E; subst. split; [lia|]. intros i Hi. eapply I1; eauto.
      * destruct (I2 _ _ _ Hin) as [A B]. split; [lia|exact B].
    + intros a b Hab. destruct (I3 _ _ Hab). split; auto. lia.
  - destruct (take k (saved d)) as [[[id ins] rest]|] eqn:T; [|discriminate]. inversion H; subst; clear H.
    destruct (take_In _ _ _ _ T) as [T1 T2]. destruct (I2 _ _ _ T1) as [A B]. split; [|split]; simpl; auto.
    + intros k0 id0 ins0 Hin. apply I2 with (k := k0). apply T2. exact Hin.
    + intros a b Hab. apply in_app_or in Hab. destruct Hab as [Hab|Hab]; [|apply I3; auto].
      apply in_map_iff in Hab. destruct Hab as [i [E Hi]]. inversion E; subst. split; auto.
Qed.

Theorem discipline_keeps_order : forall ops n d,
  prun (pinit n) ops = Some d ->
  forall a b, In (a, b) (pedges d) -> (a < b)%N /\ (b < next d)%N.
Proof.
  intros ops n d H.
  assert (G : forall ops d0, pinv d0 -> prun d0 ops = Some d -> pinv d).
  { clear. induction ops as [|o r IH]; intros d0 I H; simpl in H.
    - inversion H; subst. exact I.
    - destruct (pstep d0 o) as [d1|] eqn:S; [|discriminate]. eapply IH; [eapply pstep_inv; eauto|exact H]. }
  assert (I0 : pinv (pinit n)).
  { split; [|split]; simpl; intros; contradiction. }
  destruct (G ops (pinit n) I0 H) as [_ [_ I3]]. exact I3.
Qed.
