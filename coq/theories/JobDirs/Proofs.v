(* JobDirs/Proofs.v *)
From Coq Require Import List Bool Arith Lia.
From SF Require Import Base.Str Base.Corr DataReg.Model DataReg.Rereg JobDirs.Model.
Import ListNotations.
Local Open Scope string_scope. Local Open Scope list_scope.

(* ---- distinctness ---- *)
Lemma role_idx_inj k1 r1 k2 r2 : 3 * k1 + role_idx r1 = 3 * k2 + role_idx r2 -> k1 = k2 /\ r1 = r2.
Proof. destruct r1, r2; simpl; intros H; split; try reflexivity; lia. Qed.

Lemma job_dir_distinct (fresh : nat -> string) :
  (forall a b, fresh a = fresh b -> a = b) ->
  forall w1 w2 f1 f2 k1 k2 r1 r2,
    fixed_of f1 r1 = None -> fixed_of f2 r2 = None ->
    job_dir fresh w1 f1 k1 r1 = job_dir fresh w2 f2 k2 r2 -> w1 = w2 /\ k1 = k2 /\ r1 = r2.
Proof.
  intros Hinj w1 w2 f1 f2 k1 k2 r1 r2 H1 H2. unfold job_dir, get_directory. rewrite H1, H2.
  intros H. apply app_inj_tail in H. destruct H as [Hw H']. apply Hinj in H'. apply role_idx_inj in H'. tauto.
Qed.

Lemma beneath_app w l : beneath w (w ++ l) = true.
Proof. unfold beneath. induction w as [|a w IH]; simpl; [reflexivity|]. rewrite String.eqb_refl. exact IH. Qed.
(* a drawn directory lies directly under the work directory of its target, so it differs from every directory
   that does not lie under that work directory - in particular from another job's fixed directory outside it *)
Lemma job_dir_under fresh w f k r : fixed_of f r = None -> beneath w (job_dir fresh w f k r) = true.
Proof. unfold job_dir, get_directory. intros ->. apply beneath_app. Qed.
Lemma job_dir_vs_fixed fresh w1 w2 f1 f2 k1 k2 r1 r2 d :
  fixed_of f1 r1 = None -> fixed_of f2 r2 = Some d -> beneath w1 d = false ->
  job_dir fresh w1 f1 k1 r1 <> job_dir fresh w2 f2 k2 r2.
Proof.
  intros H1 H2 Hd E. assert (B := job_dir_under fresh w1 f1 k1 r1 H1). rewrite E in B.
  unfold job_dir, get_directory in B. rewrite H2 in B. congruence.
Qed.

Lemma job_dir_fixed fresh w f k r d : fixed_of f r = Some d -> job_dir fresh w f k r = d.
Proof. unfold job_dir, get_directory. intros ->. reflexivity. Qed.

(* ---- existence ---- *)
Lemma fs_isdir_app x y key p : fs_isdir x key p = true -> fs_isdir (x ++ y) key p = true.
Proof. unfold fs_isdir. rewrite existsb_app. intros ->. reflexivity. Qed.
Lemma key_eqb_refl k : key_eqb k k = true.
Proof. unfold key_eqb. rewrite !String.eqb_refl. reflexivity. Qed.
Lemma mkdir_p_isdir key p x a : In a (prefixes p) -> fs_isdir (mkdir_p key p x) key a = true.
Proof.
  intros H. unfold fs_isdir, mkdir_p. rewrite existsb_app. apply orb_true_iff. right.
  apply existsb_exists. exists (key, a). split; [apply in_map; exact H|].
  simpl. rewrite key_eqb_refl, path_eqb_refl. reflexivity.
Qed.
Lemma mkdir_p_keeps key p x k a : fs_isdir x k a = true -> fs_isdir (mkdir_p key p x) k a = true.
Proof. apply fs_isdir_app. Qed.

(* ---- registration ---- *)
Lemma available_iff s p key :
  available s p key = true <->
  exists n r, find_node p (nodes s) = Some n /\ In r (locs_at n key) /\ not_invalid s r = true.
Proof.
  unfold available, get_dl, get_raw. destruct (find_node p (nodes s)) as [n|].
  - simpl. rewrite !app_nil_r.
    assert (E : (match dget (snd key) match dget (fst key) (nlocs n) with Some x => x | None => [] end with
                 | Some l => l | None => [] end) = locs_at n key).
    { unfold locs_at, dget2. destruct (dget (fst key) (nlocs n)); reflexivity. }
    rewrite E. split.
    + intros H. destruct (filter (not_invalid s) (filter (type_ok s None) (locs_at n key))) as [|r l] eqn:F;
        [discriminate|].
      assert (Hin : In r (r :: l)) by (left; reflexivity). rewrite <- F in Hin.
      apply filter_In in Hin. destruct Hin as [Hin Hv]. apply filter_In in Hin. destruct Hin as [Hin _].
      exists n, r. auto.
    + intros [n' [r [Hn [Hr Hv]]]]. inversion Hn; subst n'.
      assert (Hin : In r (filter (not_invalid s) (filter (type_ok s None) (locs_at n key)))).
      { apply filter_In. split; [apply filter_In; split; [exact Hr|reflexivity]|exact Hv]. }
      destruct (filter (not_invalid s) _); [destruct Hin|reflexivity].
  - split; [discriminate|]. intros [n [r [H _]]]. discriminate.
Qed.

Lemma available_le s s' p key : le s s' -> available s p key = true -> available s' p key = true.
Proof.
  intros [Hh Hn] H. apply available_iff in H. destruct H as [n [r [Hf [Hr Hv]]]].
  destruct (Hn _ _ Hf) as [n' [Hf' Hi]]. apply available_iff. exists n', r.
  repeat split; [exact Hf'|apply Hi; exact Hr|].
  unfold not_invalid in *. destruct (hget s r) eqn:E; [|discriminate]. rewrite (Hh _ _ E). exact Hv.
Qed.

Lemma le_register tab s li p t : le s (fst (register tab s li p t)).
Proof.
  unfold register, alloc. simpl.
  eapply le_trans; [apply le_alloc|]. eapply le_trans; [apply le_put_rec|apply le_reg_inner].
Qed.
Lemma le_reg_dir tab s e : le s (reg_dir tab s e).
Proof. unfold reg_dir. destruct (available s (snd e) (key_of tab (fst e))); [apply le_refl|apply le_register]. Qed.
Lemma le_reg_dirs tab l : forall s, le s (reg_dirs tab s l).
Proof. unfold reg_dirs. apply le_fold. intros. apply le_reg_dir. Qed.

Lemma reg_dir_available tab s e : available (reg_dir tab s e) (snd e) (key_of tab (fst e)) = true.
Proof.
  unfold reg_dir. destruct (available s (snd e) (key_of tab (fst e))) eqn:E; [exact E|].
  apply register_available; [discriminate|left; reflexivity].
Qed.

Lemma reg_dirs_available tab l : forall s e,
  In e l -> available (reg_dirs tab s l) (snd e) (key_of tab (fst e)) = true.
Proof.
  unfold reg_dirs. induction l as [|x l IH]; simpl; intros s e []; [subst x|].
  - eapply available_le; [apply (le_reg_dirs tab l)|apply reg_dir_available].
  - apply IH. assumption.
Qed.

Lemma in_loc_dirs locs dirs li d : In li locs -> In d dirs -> In (li, d) (loc_dirs locs dirs).
Proof. intros H1 H2. unfold loc_dirs. apply in_flat_map. exists li. split; [exact H1|apply in_map; exact H2]. Qed.

(* ---- registration with the realpath branch ---- *)
Lemma le_reg_dir_rp tab rp s e : le s (reg_dir_rp tab rp s e).
Proof.
  unfold reg_dir_rp. destruct (available s (snd e) (key_of tab (fst e))); [apply le_refl|].
  destruct (path_eqb (rp e) (snd e)); [apply le_register|].
  eapply le_trans; apply le_register.
Qed.
Lemma le_reg_dirs_rp tab rp l : forall s, le s (reg_dirs_rp tab rp s l).
Proof. unfold reg_dirs_rp. apply le_fold. intros. apply le_reg_dir_rp. Qed.
Lemma reg_dir_rp_available tab rp s e : available (reg_dir_rp tab rp s e) (snd e) (key_of tab (fst e)) = true.
Proof.
  unfold reg_dir_rp. destruct (available s (snd e) (key_of tab (fst e))) eqn:E; [exact E|].
  destruct (path_eqb (rp e) (snd e)); apply register_available; try discriminate; left; reflexivity.
Qed.
Lemma reg_dirs_rp_available tab rp l : forall s e,
  In e l -> available (reg_dirs_rp tab rp s l) (snd e) (key_of tab (fst e)) = true.
Proof.
  unfold reg_dirs_rp. induction l as [|x l IH]; simpl; intros s e []; [subst x|].
  - eapply available_le; [apply (le_reg_dirs_rp tab rp l)|apply reg_dir_rp_available].
  - apply IH. assumption.
Qed.
(* when the directory had to be registered and resolves elsewhere, the real path is registered too *)
Lemma reg_dir_rp_realpath tab rp s e :
  available s (snd e) (key_of tab (fst e)) = false -> rp e <> snd e ->
  available (reg_dir_rp tab rp s e) (rp e) (key_of tab (fst e)) = true.
Proof.
  intros A Hne. unfold reg_dir_rp. rewrite A.
  destruct (path_eqb (rp e) (snd e)) eqn:E; [apply path_eqb_eq in E; contradiction|].
  eapply available_le; [apply le_register|]. apply register_available; [discriminate|left; reflexivity].
Qed.
