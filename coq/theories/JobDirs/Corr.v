(* JobDirs/Corr.v — correspondence cases for JobDirs/Model.v (C15).  The oracle [fresh] of the model is
   instantiated with the names the implementation drew (canonicalised by the harness: equal names stay equal);
   the model must then produce exactly the observed directories, the drawn names must be pairwise distinct, and
   the implementation must report every directory as existing and registered on every location, as the model
   predicts (mkdir_p_isdir, reg_dirs_available). *)
From Coq Require Import List Bool Arith.
From SF Require Import Base.Str Base.Corr.
From SF Require Export DataReg.Model JobDirs.Model.
From SF Require DataReg.Corr.
Import ListNotations.
Local Open Scope string_scope. Local Open Scope list_scope.

Inductive cjob := CJob (d_in d_out d_tmp : path) (all_exist all_registered : bool).
Inductive ccase :=
| CJobs (workdir : path) (f : fixeddirs) (names : list string) (jobs : list cjob)
(* the same, plus the registry: on the locations [syms] of [tab] the work directory is a symbolic link to [realwd];
   obs = for every job, for each of its three directories, for every location of [tab], what
   get_data_locations(directory, deployment, name) answered *)
| CJobsRp (workdir realwd : path) (syms : list nat) (tab : list locinfo) (f : fixeddirs) (names : list string)
          (jobs : list cjob) (obs : list (list (list (list item)))).

Fixpoint nodupb (l : list string) : bool :=
  match l with [] => true | x :: l' => negb (existsb (String.eqb x) l') && nodupb l' end.
Fixpoint check_jobs (fresh : nat -> string) (w : path) (f : fixeddirs) (k : nat) (js : list cjob) : bool :=
  match js with
  | [] => true
  | CJob di do dt ex rg :: js' =>
      list_eqb path_eqb (job_dirs fresh w f k) [di; do; dt] && ex && rg && check_jobs fresh w f (S k) js'
  end.
Fixpoint drawn (f : fixeddirs) (names : list string) : list string :=
  match names with
  | a :: b :: c :: rest =>
      (match f_in f with None => [a] | Some _ => [] end) ++ (match f_out f with None => [b] | Some _ => [] end)
      ++ (match f_tmp f with None => [c] | Some _ => [] end) ++ drawn f rest
  | _ => []
  end.
Definition dirs_of (j : cjob) : list path := match j with CJob a b c _ _ => [a; b; c] end.
Definition loc_items (tab : list locinfo) (s : st) (d : path) (li : nat) : list item :=
  let k := key_of tab li in DataReg.Corr.items_of s (get_dl s d (Some (fst k)) (Some (snd k)) None).
Definition check_registry (w rw : path) (syms : list nat) (tab : list locinfo) (jobs : list cjob)
                          (obs : list (list (list (list item)))) : bool :=
  let locs := seq 0 (length tab) in
  let s := fold_left (fun s j => reg_dirs_rp tab (realpath_of w rw syms) s (loc_dirs locs (dirs_of j))) jobs init in
  forallb (fun k =>
    forallb (fun i =>
      forallb (fun li =>
        DataReg.Corr.ms_eqb (loc_items tab s (nth i (dirs_of (nth k jobs (CJob [] [] [] false false))) []) li)
                            (nth li (nth i (nth k obs []) []) []))
        locs) [0; 1; 2]) (seq 0 (length jobs))
  && Nat.eqb (length obs) (length jobs).
Definition check_case (c : ccase) : bool :=
  match c with
  | CJobs w f names jobs =>
      Nat.eqb (length names) (3 * length jobs) && nodupb (drawn f names)
      && check_jobs (fun n => nth n names "") w f 0 jobs
  | CJobsRp w rw syms tab f names jobs obs =>
      Nat.eqb (length names) (3 * length jobs) && nodupb (drawn f names)
      && check_jobs (fun n => nth n names "") w f 0 jobs
      && check_registry w rw syms tab jobs obs
  end.
