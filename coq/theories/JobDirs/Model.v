(* JobDirs/Model.v — job working directories chosen and registered by ScheduleStep (definitions only).

   ANCHORS:
     streamflow.workflow.step._get_directory
     streamflow.workflow.step.ScheduleStep._set_job_directories   (directory choice, mkdir -p on every location)
     streamflow.workflow.step.ScheduleStep._schedule              (registration loop, case realpath == directory)
     streamflow.core.utils.random_name                            (uuid4: the oracle [fresh], assumed injective)

   Paths are component lists as in DataReg/Model.v.  The k-th scheduled job draws the names fresh (3k),
   fresh (3k+1), fresh (3k+2) for its input, output and temporary directory; a directory fixed by the step
   (the binding / step arguments) is used verbatim and no name is drawn for it in the code — drawing one
   anyway in the model changes nothing observable because [fresh] is only assumed injective.
   A fixed directory is [Some d] for a NON-EMPTY string d: the code is `directory or join(workdir, random_name())`,
   so both None and "" draw a name and both are [None] here.
   ASSUMPTION the code makes silently: _set_job_directories overwrites the three directories with resolve() evaluated
   on the FIRST allocated location, and _schedule registers that string on ALL locations, i.e. the real path of a job
   directory is taken to be the same on every allocated location.  The model (and the harness) has
   realpath = directory on every location.
   The file system is the set of (location, directory) pairs that exist; [mkdir -p] adds the directory and its
   ancestors.  The registry is the C21 model.  Not modelled: symbolic-link work directories (realpath different
   from the directory, registered as SYMBOLIC_LINK plus the real path), remote shells. *)
From Coq Require Import List Bool Arith.
From SF Require Import Base.Str Base.Corr DataReg.Model.
Import ListNotations.
Local Open Scope string_scope. Local Open Scope list_scope.

Definition get_directory (fixed : option path) (workdir : path) (name : string) : path :=
  match fixed with Some d => d | None => workdir ++ [name] end.

Record fixeddirs := mkfixed { f_in : option path; f_out : option path; f_tmp : option path }.
Inductive role := RIn | ROut | RTmp.
Definition role_idx (r : role) : nat := match r with RIn => 0 | ROut => 1 | RTmp => 2 end.
Definition fixed_of (f : fixeddirs) (r : role) : option path :=
  match r with RIn => f_in f | ROut => f_out f | RTmp => f_tmp f end.

Section Fresh.
  Variable fresh : nat -> string.
  Definition job_dir (workdir : path) (f : fixeddirs) (k : nat) (r : role) : path :=
    get_directory (fixed_of f r) workdir (fresh (3 * k + role_idx r)).
  Definition job_dirs (workdir : path) (f : fixeddirs) (k : nat) : list path :=
    [job_dir workdir f k RIn; job_dir workdir f k ROut; job_dir workdir f k RTmp].
End Fresh.

Definition fs := list (lockey * path).
Definition mkdir_p (key : lockey) (p : path) (x : fs) : fs := x ++ map (pair key) (prefixes p).
Definition fs_isdir (x : fs) (key : lockey) (p : path) : bool :=
  existsb (fun e => key_eqb (fst e) key && path_eqb (snd e) p) x.

(* the registration loop body for one (location, directory) *)
Definition reg_dir (tab : list locinfo) (s : st) (e : nat * path) : st :=
  if available s (snd e) (key_of tab (fst e)) then s else fst (register tab s (fst e) (snd e) PRIMARY).
Definition reg_dirs (tab : list locinfo) (s : st) (l : list (nat * path)) : st := fold_left (reg_dir tab) l s.
Definition loc_dirs (locs : list nat) (dirs : list path) : list (nat * path) :=
  flat_map (fun li => map (pair li) dirs) locs.

(* ---- the registration loop body as the code has it, with the realpath branch ----
   _schedule, for every (location, directory) that get_data_locations does not report:
     realpath = resolve(directory) on that location            (file-system oracle [realpath])
     if realpath != directory: register_path(location, realpath)                        (PRIMARY)
     register_path(location, directory, PRIMARY if realpath == directory else SYMBOLIC_LINK) *)
Definition reg_dir_rp (tab : list locinfo) (realpath : nat * path -> path) (s : st) (e : nat * path) : st :=
  if available s (snd e) (key_of tab (fst e)) then s
  else let rp := realpath e in
       if path_eqb rp (snd e) then fst (register tab s (fst e) (snd e) PRIMARY)
       else fst (register tab (fst (register tab s (fst e) rp PRIMARY)) (fst e) (snd e) SYMBOLIC_LINK).
Definition reg_dirs_rp (tab : list locinfo) (realpath : nat * path -> path) (s : st) (l : list (nat * path)) : st :=
  fold_left (reg_dir_rp tab realpath) l s.
(* the oracle used by the correspondence: on the locations [syms] the work directory [w] is a symbolic link to [rw] *)
Definition realpath_of (w rw : path) (syms : list nat) (e : nat * path) : path :=
  if existsb (Nat.eqb (fst e)) syms
  then match strip_prefix w (snd e) with Some rest => rw ++ rest | None => snd e end
  else snd e.
