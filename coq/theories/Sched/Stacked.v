(* Sched/Stacked.v — stacked chains: _allocate_job and _free_resources decompose into independent per-level
   ledger updates when the levels of the chain have distinct names; chain-level versions of the C10/C11 laws. *)
From Coq Require Import List Bool ZArith NArith Lia.
From SF Require Import Base.Str Hardware.Model Hardware.Proofs Sched.Model Sched.Proofs Sched.History.
Import ListNotations.
Local Open Scope string_scope. Local Open Scope list_scope. Local Open Scope Z_scope.

Definition names (ls : list level) : list string := map lv_name ls.
Definition pairs (ls : list level) : list (string * string) := map (fun l => (lv_dep l, lv_name l)) ls.

Lemma reserve_level_err job reqs e l : reserve_level job reqs (Err e) l = Err e.
Proof. reflexivity. Qed.
Lemma fold_reserve_err job reqs ls e : fold_left (reserve_level job reqs) ls (Err e) = Err e.
Proof. induction ls as [|l ls IH]; simpl; [reflexivity|exact IH]. Qed.

Lemma reserve_level_ok job reqs s0 l s1 :
  reserve_level job reqs (Ok s0) l = Ok s1 ->
  jobs s1 = jobs s0 /\
  match lookup (req_key l) reqs with
  | Some rq => exists h, ledger_after s0 (lv_name l) rq = Ok h /\ hwloc s1 = dset (lv_name l) h (hwloc s0)
  | None => hwloc s1 = hwloc s0
  end.
Proof.
  unfold reserve_level, ledger_after. simpl. destruct (lookup (req_key l) reqs) as [rq|].
  - destruct (lookup (lv_name l) (hwloc s0)) as [cur|].
    + destruct (hw_add cur rq) as [h|]; simpl; [|discriminate]. intros H. inversion H. simpl. split; [reflexivity|]. exists h. auto.
    + destruct (normalized rq) as [h|]; simpl; [|discriminate]. intros H. inversion H. simpl. split; [reflexivity|]. exists h. auto.
  - intros H. inversion H. simpl. auto.
Qed.

(* _allocate_job over the levels of one chain: every level is updated from the ORIGINAL ledger of its own location *)
Lemma fold_reserve_spec job reqs ls : forall s0 s',
  fold_left (reserve_level job reqs) ls (Ok s0) = Ok s' -> NoDup (names ls) ->
  (forall l, In l ls -> lookup (req_key l) reqs <> None) ->
  jobs s' = jobs s0 /\
  (forall l, In l ls -> exists rq h, lookup (req_key l) reqs = Some rq /\ ledger_after s0 (lv_name l) rq = Ok h /\
                                     lookup (lv_name l) (hwloc s') = Some h) /\
  (forall nm, ~ In nm (names ls) -> lookup nm (hwloc s') = lookup nm (hwloc s0)).
Proof.
  induction ls as [|l ls IH]; cbn [fold_left]; intros s0 s' H Hnd Hreq.
  - inversion H. subst. split; [reflexivity|]. split; [intros l []|auto].
  - destruct (reserve_level job reqs (Ok s0) l) as [s1|e] eqn:E1; [|rewrite fold_reserve_err in H; discriminate].
    inversion Hnd as [|? ? Hni Hnd']. subst.
    destruct (reserve_level_ok _ _ _ _ _ E1) as [J1 H1].
    destruct (lookup (req_key l) reqs) as [rq|] eqn:Er; [|exfalso; apply (Hreq l (or_introl eq_refl)); exact Er].
    destruct H1 as (h & Eh & Ehw).
    destruct (IH s1 s' H Hnd' (fun l0 H0 => Hreq l0 (or_intror H0))) as (J & Hin & Hout).
    split; [congruence|]. split.
    + intros l0 [Hl0|Hl0].
      * subst l0. exists rq, h. split; [exact Er|]. split; [exact Eh|]. rewrite (Hout _ Hni), Ehw. apply lookup_dset.
      * destruct (Hin l0 Hl0) as (rq0 & h0 & E0 & El0 & Elk). exists rq0, h0. split; [exact E0|]. split; [|exact Elk].
        unfold ledger_after in *. rewrite Ehw in El0. rewrite lookup_dset_other in El0; [exact El0|].
        intros Heq. apply Hni. rewrite <- Heq. unfold names. apply in_map. exact Hl0.
    + intros nm Hnm. rewrite Hout by (intros Hx; apply Hnm; right; exact Hx). rewrite Ehw.
      apply lookup_dset_other. intros Heq. apply Hnm. left. symmetry. exact Heq.
Qed.

Lemma allocate_chain st job reqs l0 ls s' :
  allocate st job reqs [l0 :: ls] = Ok s' -> NoDup (names (l0 :: ls)) ->
  (forall l, In l (l0 :: ls) -> lookup (req_key l) reqs <> None) ->
  exists jh, lookup (req_key l0) reqs = Some jh /\
    jobs s' = dset job (mkalloc Fireable [pairs (l0 :: ls)] jh) (jobs st) /\
    (forall l, In l (l0 :: ls) -> exists rq h, lookup (req_key l) reqs = Some rq /\ ledger_after st (lv_name l) rq = Ok h /\
                                              lookup (lv_name l) (hwloc s') = Some h) /\
    (forall nm, ~ In nm (names (l0 :: ls)) -> lookup nm (hwloc s') = lookup nm (hwloc st)).
Proof.
  unfold allocate. destruct (lookup (req_key l0) reqs) as [jh|] eqn:Er; [|discriminate].
  cbn [concat]. rewrite app_nil_r. intros H Hnd Hreq.
  destruct (fold_reserve_spec _ _ _ _ _ H Hnd Hreq) as (J & Hin & Hout).
  exists jh. split; [reflexivity|]. split; [exact J|]. split; [exact Hin|exact Hout].
Qed.

(* ------------------------------------------------------------------ _free_resources on one chain *)
Fixpoint free_chain (ns : list string) (jh : hw) (fls : list free_level) (st : sstate) : res sstate :=
  match ns with
  | [] => Ok st
  | n :: ns' =>
      match fls with
      | [] => Err MissingMount
      | fl :: fls' =>
          jh1 <- norm' (match fl_hw fl with Some h => h | None => jh end) ;;
          s <- free_loc jh1 (fl_usage fl) (Ok st) n ;;
          free_chain ns' jh1 fls' s
      end
  end.

Lemma nth_names_single k (c : list (string * string)) :
  nth_names k [c] = match nth_error c k with Some dn => [snd dn] | None => [] end.
Proof. unfold nth_names. simpl. destruct (nth_error c k); simpl; reflexivity. Qed.

Lemma skipn_map_nth {A B} (f : A -> B) k (c : list A) :
  skipn k (map f c) = match nth_error c k with Some x => f x :: skipn (S k) (map f c) | None => [] end.
Proof.
  revert c. induction k as [|k IH]; intros c; destruct c as [|a c]; simpl; try reflexivity. apply IH.
Qed.

Lemma free_levels_is_chain fls : forall k c jh st,
  free_levels k [c] jh fls st = free_chain (skipn k (map snd c)) jh fls st.
Proof.
  induction fls as [|fl fls IH]; intros k c jh st.
  - rewrite free_levels_nil, nth_names_single, skipn_map_nth. destruct (nth_error c k); reflexivity.
  - rewrite free_levels_cons, nth_names_single, skipn_map_nth. destruct (nth_error c k) as [dn|]; [|reflexivity].
    cbn [free_chain]. destruct (norm' _) as [jh1|]; cbn [bind_res]; [|reflexivity].
    cbn [fold_left]. destruct (free_loc jh1 (fl_usage fl) (Ok st) (snd dn)) as [s|]; cbn [bind_res]; [|reflexivity].
    apply IH.
Qed.

(* per level: the hardware released (input below the first level), what du measured *)
Record rel := mkrel { rl_name : string; rl_jh : hw; rl_u : hw }.

Definition fl_usage_at (fl : free_level) (n : string) : option (list (string * Z)) :=
  match lookup n (fl_usage fl) with Some x => x | None => None end.
(* what is released and measured at every level, as a function of the inputs of the notification *)
Fixpoint rel_list (ns : list string) (jh : hw) (fls : list free_level) : list rel :=
  match ns, fls with
  | n :: ns', fl :: fls' =>
      match norm' (match fl_hw fl with Some h => h | None => jh end) with
      | Ok jh1 => mkrel n jh1 (match usage_hw jh1 (fl_usage_at fl n) with Ok u => u | Err _ => default_hw end)
                  :: rel_list ns' jh1 fls'
      | Err _ => []
      end
  | _, _ => []
  end.

(* the release of a chain with distinct names updates every level from the ORIGINAL ledger of its own location *)
Lemma free_chain_spec ns : forall jh fls st s',
  free_chain ns jh fls st = Ok s' -> NoDup ns ->
  jobs s' = jobs st /\ locjobs s' = locjobs st /\
  (forall nm, ~ In nm ns -> lookup nm (hwloc s') = lookup nm (hwloc st)) /\
  map rl_name (rel_list ns jh fls) = ns /\
    (forall r, In r (rel_list ns jh fls) ->
       match lookup (rl_name r) (hwloc st) with
       | None => lookup (rl_name r) (hwloc s') = None
       | Some cur => exists dd h, hw_sub cur (rl_jh r) = Ok dd /\ hw_add dd (rl_u r) = Ok h /\
                                  lookup (rl_name r) (hwloc s') = Some h
       end).
Proof.
  induction ns as [|n ns IH]; cbn [free_chain]; intros jh fls st s' H Hnd.
  - inversion H. subst. split; [reflexivity|]. split; [reflexivity|]. split; [auto|]. split; [reflexivity|intros r []].
  - destruct fls as [|fl fls]; [discriminate|].
    destruct (norm' _) as [jh1|] eqn:En; cbn [bind_res] in H; [|discriminate].
    destruct (free_loc jh1 (fl_usage fl) (Ok st) n) as [s1|] eqn:Ef; cbn [bind_res] in H; [|discriminate].
    inversion Hnd as [|? ? Hni Hnd']. subst.
    destruct (IH jh1 fls s1 s' H Hnd') as (J & LJ & Hout & Enames & Hrels).
    destruct (free_loc_frame _ _ _ _ _ Ef) as (st0 & E0 & J1 & LJ1). inversion E0. subst st0.
    assert (H1 : (forall nm, nm <> n -> lookup nm (hwloc s1) = lookup nm (hwloc st)) /\
                 match lookup n (hwloc st) with
                 | None => lookup n (hwloc s1) = None
                 | Some cur => exists u dd h, usage_hw jh1 (fl_usage_at fl n) = Ok u /\
                                              hw_sub cur jh1 = Ok dd /\ hw_add dd u = Ok h /\ lookup n (hwloc s1) = Some h
                 end).
    { unfold free_loc in Ef. cbn [bind_res] in Ef. destruct (lookup n (hwloc st)) as [cur|] eqn:Ec.
      - fold (fl_usage_at fl n) in Ef. destruct (usage_hw jh1 (fl_usage_at fl n)) as [u|] eqn:Eu; cbn [bind_res] in Ef; [|discriminate].
        destruct (hw_sub cur jh1) as [dd|] eqn:Ed; cbn [bind_res] in Ef; [|discriminate].
        destruct (hw_add dd u) as [h|] eqn:Eh; cbn [bind_res] in Ef; [|discriminate].
        inversion Ef. subst. simpl. split; [intros nm Hne; apply lookup_dset_other; exact Hne|].
        exists u, dd, h. split; [reflexivity|]. split; [reflexivity|]. split; [exact Eh|apply lookup_dset].
      - inversion Ef. subst. split; [reflexivity|exact Ec]. }
    destruct H1 as [Hother Hn].
    split; [congruence|]. split; [congruence|]. split.
    + intros nm Hnm. rewrite Hout by (intros Hx; apply Hnm; right; exact Hx). apply Hother. intros Heq. apply Hnm. left. symmetry. exact Heq.
    + cbn [rel_list]. rewrite En. cbn [map rl_name]. split; [f_equal; exact Enames|].
      intros r [Hr|Hr].
      * subst r. cbn [rl_name rl_jh rl_u]. destruct (lookup n (hwloc st)) as [cur|] eqn:Ec.
        -- destruct Hn as (u & dd & h & Eu & Ed & Eh & Elk). rewrite Eu.
           exists dd, h. split; [exact Ed|]. split; [exact Eh|]. rewrite (Hout n Hni). exact Elk.
        -- rewrite (Hout n Hni). exact Hn.
      * specialize (Hrels r Hr). assert (Hne : rl_name r <> n).
        { intros Heq. apply Hni. rewrite <- Heq, <- Enames. apply in_map. exact Hr. }
        rewrite (Hother _ Hne) in Hrels. exact Hrels.
Qed.
