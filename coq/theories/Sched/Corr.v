(* Sched/Corr.v — correspondence cases for Sched/Model.v (C10, C11, C12 checks).  A case is the list of
   events observed in one real run of DefaultScheduler, in lock order, each with what the implementation
   showed (valid locations and whether it allocated), interleaved with snapshots of the scheduler's
   state taken at quiescent points.  [check_case] replays the events on the model and compares. *)
From Coq Require Import List Bool ZArith NArith.
From SF Require Import Base.Str Base.Corr Hardware.Corr.
From SF Require Export Hardware.Model Sched.Model.
Import ListNotations.
Local Open Scope string_scope. Local Open Scope list_scope.

Inductive oitem :=
| OA (job : string) (cands : list chain) (reqs : list (string * hw)) (n : nat) (chosen : list string)
     (valid_obs : list string) (alloc_obs : bool)
| ON (job : string) (new : status) (fls : list free_level)
| OSnap (s : sstate)
| OQuiet (locked : bool) (nlock nparked nlive : nat).
  (* shape of the protocol state at a quiescent point of the real run: wait_queue's lock held?, tasks queued for the
     lock, tasks parked in the Condition, live _process_target tasks.  Sched/Wake.v: in a quiescent state nobody holds or
     queues for the lock (C12_quiescent_lock_free) and every ungranted request is parked (C12_no_lost_wakeup_partial) *)
Inductive ccase := CHist (items : list oitem).

Definition locs_eqb := list_eqb (list_eqb (pair_eqb String.eqb String.eqb)).
Definition alloc_eqb (a b : alloc) : bool :=
  status_eqb (a_status a) (a_status b) && locs_eqb (a_locs a) (a_locs b) && hw_eqb (a_hw a) (a_hw b).
Definition map_eqb {V} (eqb : V -> V -> bool) (a b : list (string * V)) : bool :=
  Nat.eqb (length a) (length b) &&
  forallb (fun kv => match lookup (fst kv) b with Some v => eqb (snd kv) v | None => false end) a.
Definition state_eqb (a b : sstate) : bool :=
  list_eqb (pair_eqb String.eqb alloc_eqb) (jobs a) (jobs b) &&
  map_eqb (list_eqb String.eqb) (locjobs a) (locjobs b) &&
  map_eqb hw_eqb (hwloc a) (hwloc b).

Fixpoint replay (st : sstate) (items : list oitem) : bool :=
  match items with
  | [] => true
  | OA job cands reqs n chosen vobs aobs :: r =>
      match attempt st job cands reqs n chosen with
      | Ok (s, vn, al) => list_eqb String.eqb vn vobs && Bool.eqb al aobs && replay s r
      | Err _ => false
      end
  | ON job new fls :: r =>
      match notify st job new fls with Ok s => replay s r | Err _ => false end
  | OSnap s :: r => state_eqb st s && replay st r
  | OQuiet locked nlock nparked nlive :: r => negb locked && Nat.eqb nlock 0 && Nat.eqb nparked nlive && replay st r
  end.

Definition check_case (c : ccase) : bool := match c with CHist items => replay init items end.
