(* Sched/Quiesce.v — C12_quiescent on the flat domain (hardware and slot locations): along a wake-up round (a history made
   of request evaluations only) reservations only grow, validity of a location is antitone in the ledger, so a
   request that found fewer valid locations than it needs at its turn still does at the end of the round. *)
From Coq Require Import List Bool ZArith NArith Lia.
From SF Require Import Base.Str Hardware.Model Hardware.Proofs Sched.Model Sched.Proofs Sched.History.
Import ListNotations.
Local Open Scope string_scope. Local Open Scope list_scope. Local Open Scope Z_scope.

Definition ledger_le (s1 s2 : sstate) : Prop :=
  forall nm, (forall x, mu_o (lookup nm (hwloc s1)) x <= mu_o (lookup nm (hwloc s2)) x) /\
             (forall m, In m (mounts_o (lookup nm (hwloc s1))) -> In m (mounts_o (lookup nm (hwloc s2)))).
Lemma ledger_le_refl s : ledger_le s s.
Proof. intros nm. split; [intros; lia|auto]. Qed.
Lemma ledger_le_trans a b c : ledger_le a b -> ledger_le b c -> ledger_le a c.
Proof.
  intros H1 H2 nm. destruct (H1 nm) as [A1 A2], (H2 nm) as [B1 B2]. split.
  - intros x. specialize (A1 x). specialize (B1 x). lia.
  - auto.
Qed.

Definition slots_le (s1 s2 : sstate) : Prop :=
  forall job l, (length (running_jobs s1 job l) <= length (running_jobs s2 job l))%nat.
Lemma slots_le_refl s : slots_le s s.
Proof. intros job l. lia. Qed.
Lemma slots_le_trans a b c : slots_le a b -> slots_le b c -> slots_le a c.
Proof. intros H1 H2 job l. specialize (H1 job l). specialize (H2 job l). lia. Qed.

Lemma filter_length_mono {A} (f g : A -> bool) l :
  (forall x, f x = true -> g x = true) -> (length (filter f l) <= length (filter g l))%nat.
Proof.
  intros H. induction l as [|a l IH]; simpl; [lia|].
  destruct (f a) eqn:Ef; [rewrite (H a Ef); simpl; lia|destruct (g a); simpl; lia].
Qed.
Lemma filter_length_app {A} (g : A -> bool) l x : (length (filter g l) <= length (filter g (l ++ [x])))%nat.
Proof. rewrite filter_app, app_length. lia. Qed.

Definition only_attempts (es : list event) : Prop :=
  forall e, In e es -> match e with EAttempt _ _ _ _ _ => True | ENotify _ _ _ => False end.

Section Quiesce.
Variable locs : list level.
Hypothesis locs_names : forall l1 l2, In l1 locs -> In l2 locs -> lv_name l1 = lv_name l2 -> l1 = l2.
Hypothesis locs_caps : forall l cap, In l locs -> lv_cap l = Some cap -> wfr cap /\ In "/" (mounts cap).

(* what the invariant says about "ledger or Hardware()" of a location with declared hardware *)
Lemma cur_pre st G l cap :
  Inv locs st G -> In l locs -> lv_cap l = Some cap ->
  let cur := match lookup (lv_name l) (hwloc st) with Some h => h | None => default_hw end in
  wf cur /\ (forall m, In m (mounts cur) -> In m (mounts cap)) /\ (forall m, size_at cur m <= size_at cap m) /\
  (forall x, mu cur x = mu_o (lookup (lv_name l) (hwloc st)) x).
Proof.
  intros (K & A & L & E & Gz & C) Hl Hc cur. destruct (locs_caps l cap Hl Hc) as [[Wc _] Hroot]. unfold cur.
  destruct (lookup (lv_name l) (hwloc st)) as [c0|] eqn:Ec.
  - destruct (C l cap c0 Hl Hc Ec) as [C1 C2]. split; [apply (L _ _ Ec)|]. split; [exact C2|].
    split; [intros m; apply (C1 (MS m))|reflexivity].
  - split; [apply wf_default|]. split; [intros m [Hm|[]]; subst; exact Hroot|].
    split; [intros m; rewrite size_at_default; apply total_nonneg; apply Wc|].
    intros [| |m]; simpl; try reflexivity. apply size_at_default.
Qed.

Lemma attempt_ledger_mono st G job cands reqs n chosen st' vn al :
  Inv locs st G -> ev_ok locs (EAttempt job cands reqs n chosen) ->
  attempt st job cands reqs n chosen = Ok (st', vn, al) -> ledger_le st st'.
Proof.
  intros HI (Hn & Hch & Hcands & Hreqs) Hat.
  destruct al; [|apply attempt_fail_unchanged in Hat; subst; apply ledger_le_refl].
  subst n. destruct (attempt_single _ _ _ _ _ _ _ Hch Hat) as (c & Hc & Hv & Hal).
  destruct (Hcands c Hc) as (l & Ec & Hl). subst c.
  destruct (allocate_single _ _ _ _ _ Hal) as (jh & h & Er & Eh & _ & Ehw & _).
  destruct HI as (K & A & L & E & Gz & C).
  assert (Wj : wfr jh) by (apply (Hreqs (req_key l)); apply lookup_some_in; exact Er).
  intros nm. rewrite Ehw. destruct (String.eqb_spec nm (lv_name l)) as [En|En].
  - subst nm. rewrite lookup_dset. unfold ledger_after in Eh.
    destruct (lookup (lv_name l) (hwloc st)) as [cur|] eqn:Ecur; simpl.
    + destruct (mu_add cur jh (L _ _ Ecur) (proj1 Wj)) as (r & Er' & _ & M1 & M2). rewrite Er' in Eh. inversion Eh. subst.
      split; [intros x; rewrite M1; pose proof (mu_nonneg jh x Wj); lia|intros m Hm; apply M2; left; exact Hm].
    + destruct (mu_normalized jh (proj1 Wj)) as (r & Er' & _ & M1 & _). rewrite Er' in Eh. inversion Eh. subst.
      split; [intros x; rewrite M1; apply mu_nonneg; exact Wj|intros m []].
  - rewrite lookup_dset_other by exact En. split; [intros; lia|auto].
Qed.

Lemma attempt_slots_mono st job cands reqs n chosen st' vn al :
  ev_ok locs (EAttempt job cands reqs n chosen) ->
  attempt st job cands reqs n chosen = Ok (st', vn, al) -> slots_le st st'.
Proof.
  intros (Hn & Hch & Hcands & Hreqs) Hat.
  destruct al; [|apply attempt_fail_unchanged in Hat; subst; apply slots_le_refl].
  subst n. destruct (attempt_single _ _ _ _ _ _ _ Hch Hat) as (c & Hc & Hv & Hal).
  destruct (Hcands c Hc) as (l & Ec & Hl). subst c.
  destruct (allocate_single _ _ _ _ _ Hal) as (jh & h & Er & Eh & Ej & _ & Elj).
  intros job2 l2.
  assert (Hcr : forall x, counts_as_running st job2 x = true -> counts_as_running st' job2 x = true).
  { intros x. unfold counts_as_running. rewrite Ej. destruct (String.eqb_spec x job) as [Ex|Ex].
    - subst x. rewrite lookup_dset. reflexivity.
    - rewrite lookup_dset_other by exact Ex. auto. }
  unfold running_jobs. rewrite Elj. destruct (String.eqb_spec (req_key l2) (req_key l)) as [Ek|Ek].
  - rewrite Ek, lookup_dset. destruct (lookup (req_key l) (locjobs st)) as [js|]; [|simpl; lia].
    eapply Nat.le_trans; [apply (filter_length_mono _ _ js Hcr)|apply filter_length_app].
  - rewrite lookup_dset_other by exact Ek. destruct (lookup (req_key l2) (locjobs st)) as [js|]; [|simpl; lia].
    apply filter_length_mono. exact Hcr.
Qed.

(* validity of a location can only be lost when the ledger / the set of counted jobs grows *)
Lemma level_valid_antitone s1 G1 s2 G2 reqs job l :
  Inv locs s1 G1 -> Inv locs s2 G2 -> ledger_le s1 s2 -> slots_le s1 s2 -> In l locs ->
  (forall k h, In (k, h) reqs -> wfr h) ->
  level_valid s2 reqs job l = Ok true -> level_valid s1 reqs job l = Ok true.
Proof.
  intros I1 I2 Hle Hsl Hl Hreqs Hv.
  destruct (lv_cap l) as [cap|] eqn:Hc.
  2:{ rewrite (slot_level_valid _ _ _ _ Hc) in Hv. rewrite (slot_level_valid _ _ _ _ Hc).
      injection Hv as Hlt. f_equal. apply N.ltb_lt in Hlt. apply N.ltb_lt. specialize (Hsl job l).
      eapply N.le_lt_trans; [|exact Hlt]. lia. }
  destruct (lookup (req_key l) reqs) as [rq|] eqn:Er.
  2:{ unfold level_valid in Hv. rewrite Hc, Er in Hv. discriminate. }
  assert (Wr : wfr rq) by (apply (Hreqs (req_key l)); apply lookup_some_in; exact Er).
  destruct (locs_caps l cap Hl Hc) as [[Wc _] _].
  destruct (cur_pre s1 G1 l cap I1 Hl Hc) as (W1 & M1 & S1 & E1).
  destruct (cur_pre s2 G2 l cap I2 Hl Hc) as (W2 & M2 & S2 & E2).
  destruct (Hle (lv_name l)) as [Hmu _].
  apply (cap_level_valid_iff s2 reqs job l cap rq _ Hc Er eq_refl Wc W2 (proj1 Wr) M2 S2) in Hv.
  destruct Hv as (F1 & F2 & F3).
  apply (cap_level_valid_iff s1 reqs job l cap rq _ Hc Er eq_refl Wc W1 (proj1 Wr) M1 S1).
  pose proof (Hmu MC) as HC. pose proof (Hmu MM) as HM. rewrite <- E1, <- E2 in HC, HM. simpl in HC, HM.
  split; [lia|]. split; [lia|]. intros m Hi. destruct (F3 m Hi) as [Hin Hs]. split; [exact Hin|].
  pose proof (Hmu (MS m)) as HS. rewrite <- E1, <- E2 in HS. simpl in HS. lia.
Qed.

Lemma valid_locations_antitone s1 G1 s2 G2 reqs job cands :
  Inv locs s1 G1 -> Inv locs s2 G2 -> ledger_le s1 s2 -> slots_le s1 s2 ->
  (forall c, In c cands -> exists l, c = [l] /\ In l locs) -> (forall k h, In (k, h) reqs -> wfr h) ->
  forall v1 v2, valid_locations s1 reqs job cands = Ok v1 -> valid_locations s2 reqs job cands = Ok v2 ->
  (length v2 <= length v1)%nat.
Proof.
  intros I1 I2 Hle Hsl Hcands Hreqs. induction cands as [|c cs IH]; simpl; intros v1 v2 H1 H2.
  - inversion H1. inversion H2. simpl. lia.
  - destruct (is_valid s1 reqs job c) as [b1|] eqn:E1; simpl in H1; [|discriminate].
    destruct (valid_locations s1 reqs job cs) as [r1|] eqn:R1; simpl in H1; [|discriminate].
    destruct (is_valid s2 reqs job c) as [b2|] eqn:E2; simpl in H2; [|discriminate].
    destruct (valid_locations s2 reqs job cs) as [r2|] eqn:R2; simpl in H2; [|discriminate].
    inversion H1. inversion H2. subst.
    assert (Hr : (length r2 <= length r1)%nat) by (apply IH; [intros c0 Hc0; apply Hcands; right; exact Hc0|reflexivity|reflexivity]).
    destruct b2; [|destruct b1; simpl; lia].
    destruct (Hcands c (or_introl eq_refl)) as (l & Ec & Hl). subst c.
    apply is_valid_single in E2. pose proof (level_valid_antitone _ _ _ _ _ _ _ I1 I2 Hle Hsl Hl Hreqs E2) as E1'.
    simpl in E1. rewrite E1' in E1. simpl in E1. inversion E1. subst. simpl. lia.
Qed.

(* along a round of evaluations the ledgers only grow (and the invariant is kept) *)
Lemma round_mono es : forall st G st',
  Inv locs st G -> conformant locs st es -> only_attempts es -> run st es = Ok st' ->
  ledger_le st st' /\ slots_le st st' /\ Inv locs st' G.
Proof.
  induction es as [|e es IH]; simpl; intros st G st' HI Hc Ho Hr.
  - inversion Hr. subst. split; [apply ledger_le_refl|]. split; [apply slots_le_refl|exact HI].
  - destruct Hc as (Hok & Hcf & Hrest). destruct (step st e) as [s|] eqn:Es; simpl in Hr; [|discriminate].
    assert (He : match e with EAttempt _ _ _ _ _ => True | ENotify _ _ _ => False end) by (apply Ho; left; reflexivity).
    destruct e as [job cands reqs n chosen|]; [|contradiction].
    simpl in Es. destruct (attempt st job cands reqs n chosen) as [[[s0 vn] al]|] eqn:Ea; simpl in Es; [|discriminate].
    inversion Es. subst s0.
    pose proof (inv_attempt locs locs_names locs_caps _ _ _ _ _ _ _ _ _ _ HI Hok Hcf Ea) as HI'.
    pose proof (attempt_ledger_mono _ _ _ _ _ _ _ _ _ _ HI Hok Ea) as Hle.
    pose proof (attempt_slots_mono _ _ _ _ _ _ _ _ _ Hok Ea) as Hsl.
    destruct (IH s G st' HI' Hrest (fun e0 H0 => Ho e0 (or_intror H0)) Hr) as (Hle' & Hsl' & HI'').
    split; [eapply ledger_le_trans; eauto|]. split; [eapply slots_le_trans; eauto|exact HI''].
Qed.

Lemma run_app p : forall st q, run st (p ++ q) = (s <- run st p ;; run s q).
Proof.
  induction p as [|e p IH]; simpl; intros st q; [reflexivity|]. destruct (step st e); simpl; [apply IH|reflexivity].
Qed.
Lemma conformant_app p : forall st q s, conformant locs st (p ++ q) -> run st p = Ok s -> conformant locs s q.
Proof.
  induction p as [|e p IH]; simpl; intros st q s Hc Hr.
  - inversion Hr. subst. exact Hc.
  - destruct Hc as (_ & _ & Hc). destruct (step st e) as [s0|]; simpl in Hr; [|discriminate]. apply (IH s0 q s Hc Hr).
Qed.

(* C12_quiescent (flat locations, hardware or slots): in a wake-up round [pre ++ e :: post] started in a state
   satisfying the invariant, a request that found fewer valid locations than it needs when it was evaluated (e) is
   still short of valid locations in the state at the end of the round: it could not be allocated there *)
Theorem round_quiescent st G pre job cands reqs n chosen post st' s_i vn :
  Inv locs st G ->
  conformant locs st (pre ++ EAttempt job cands reqs n chosen :: post) ->
  only_attempts (pre ++ EAttempt job cands reqs n chosen :: post) ->
  run st (pre ++ EAttempt job cands reqs n chosen :: post) = Ok st' ->
  run st pre = Ok s_i -> attempt s_i job cands reqs n chosen = Ok (s_i, vn, false) -> (length vn < n)%nat ->
  forall v', valid_locations st' reqs job cands = Ok v' ->
  (length v' < n)%nat /\ attempt st' job cands reqs n chosen = Ok (st', map chain_name v', false).
Proof.
  intros HI Hc Ho Hr Hpre Hat Hshort v' Hv'.
  assert (Ho1 : only_attempts pre) by (intros e He; apply Ho; apply in_or_app; left; exact He).
  assert (Ho2 : only_attempts post) by (intros e He; apply Ho; apply in_or_app; right; right; exact He).
  destruct (round_mono pre st G s_i HI (conformant_prefix locs pre st _ Hc) Ho1 Hpre) as (_ & _ & HIi).
  pose proof (conformant_app pre st _ s_i Hc Hpre) as Hc2. simpl in Hc2. destruct Hc2 as ((_ & _ & Hcands & Hreqs) & _ & Hc3).
  rewrite run_app, Hpre in Hr. simpl in Hr. rewrite Hat in Hr, Hc3. simpl in Hr, Hc3.
  destruct (round_mono post s_i G st' HIi Hc3 Ho2 Hr) as (Hle & Hsl & HIf).
  assert (Hlen : (length v' < n)%nat).
  { unfold attempt in Hat. destruct (valid_locations s_i reqs job cands) as [v|] eqn:Ev; simpl in Hat; [|discriminate].
    assert (vn = map chain_name v).
    { destruct (Nat.leb n (length v)); [|inversion Hat; reflexivity].
      destruct (if Nat.eqb (length v) n then v else pick v chosen) as [|c0 sel']; [inversion Hat; reflexivity|].
      destruct (allocate s_i job reqs (c0 :: sel')); simpl in Hat; inversion Hat. }
    subst vn. rewrite map_length in Hshort.
    pose proof (valid_locations_antitone s_i G st' G reqs job cands HIi HIf Hle Hsl Hcands Hreqs v v' Ev Hv'). lia. }
  split; [exact Hlen|]. apply attempt_waits_when_short; assumption.
Qed.
End Quiesce.
