(* Sched/Witness.v — concrete histories (definitions only) used by the _refuted theorems and Examples.
   They are the minimised corpus cases of the known findings, with the requirement maps that the real
   _resolve_hardware_requirement / `|=` merge produced. *)
From Coq Require Import List Bool ZArith NArith.
From SF Require Import Base.Str Hardware.Model Sched.Model.
Import ListNotations.
Local Open Scope string_scope. Local Open Scope list_scope. Local Open Scope Z_scope.

Definition root0 : smap := [("/", mkst "/" 0 [] None)].
Definition host_cap : hw := mkhw 16 16 [("/", mkst "/" 20 ["/vol"] None)].
Definition h0_hw : level := mklevel "host" "h0" (Some host_cap) None.
(* two outer slot locations stacked on the same host location *)
Definition shared_cands : list chain :=
  [[mklevel "d0" "d0l0" None (Some 1%N); h0_hw]; [mklevel "d0" "d0l1" None None; h0_hw]].
(* job cores=3 memory=8: the inner requirement is doubled by `hardware_requirements[key] |= hardware` *)
Definition shared_reqs (c m : Z) : list (string * hw) :=
  [("d0/d0l0", mkhw c m root0); ("host/h0", mkhw (c + c) (m + m) root0); ("d0/d0l1", mkhw c m root0)].

(* C11: one location of the two is used; run, complete *)
Definition leak_history : list event :=
  [EAttempt "/wf/s2/1" shared_cands (shared_reqs 2 1) 1 ["d0l0"];
   ENotify "/wf/s2/1" Running [];
   ENotify "/wf/s2/1" Completed
     [mkfl None [("d0l0", Some [("/", 0)])]; mkfl (Some (mkhw 2 1 root0)) [("h0", Some [("/", 0)])]]].

(* a plain location with declared hardware, one job, conformant and non-conformant continuations *)
Definition plain_cap : hw := mkhw 4 8 [("/", mkst "/" 10 ["/tmp"] None)].
Definition plain_cands : list chain := [[mklevel "d0" "n0" (Some plain_cap) None]].
Definition plain_rq : hw := mkhw 2 4 [("tmp", mkst "/" 6 ["/tmp"] None)].
Definition plain_reqs : list (string * hw) := [("d0/n0", plain_rq)].
Definition plain_free (u : Z) : list free_level := [mkfl None [("n0", Some [("/", u)])]].
Definition plain_history : list event :=
  [EAttempt "/s/0" plain_cands plain_reqs 1 []; ENotify "/s/0" Running []; ENotify "/s/0" Completed (plain_free 3)].
(* the same with a job that reserves no storage, then a non-conformant RUNNING after COMPLETED and a second COMPLETED *)
Definition double_release_history : list event :=
  [EAttempt "/s/0" plain_cands [("d0/n0", mkhw 2 4 root0)] 1 []; ENotify "/s/0" Running [];
   ENotify "/s/0" Completed (plain_free 0); ENotify "/s/0" Running []; ENotify "/s/0" Completed (plain_free 0)].
(* with storage the second release raises instead (Storage cannot have negative size) *)
Definition double_release_history_storage : list event :=
  plain_history ++ [ENotify "/s/0" Running []; ENotify "/s/0" Completed (plain_free 0)].

(* C12: an outer location stacked on a host location with one slot; /s0/1 is allocated and rolled back *)
Definition slot_cands : list chain := [[mklevel "d0" "d0l0" None None; mklevel "host" "h0" None (Some 1%N)]].
Definition slot_reqs (c m : Z) : list (string * hw) := [("d0/d0l0", mkhw c m root0); ("host/h0", mkhw c m root0)].
Definition rollback_history : list event :=
  [EAttempt "/s0/1" slot_cands (slot_reqs 1 2) 1 [];
   ENotify "/s0/1" Rollback
     [mkfl None [("d0l0", Some [("/", 0)])]; mkfl (Some (mkhw 1 2 root0)) [("h0", Some [("/", 0)])]]].

Definition ledger (s : res sstate) (nm : string) : option hw :=
  match s with Ok st => lookup nm (hwloc st) | Err _ => None end.
Definition no_active (s : res sstate) : bool :=
  match s with
  | Ok st => forallb (fun ja => match a_status (snd ja) with Fireable | Running => false | _ => true end) (jobs st)
  | Err _ => false
  end.
