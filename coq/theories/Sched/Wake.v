(* Sched/Wake.v — a coroutine-level transition system of the waiting/waking protocol of DefaultScheduler around the
   asyncio.Condition `wait_queue`, over the scheduler state of Sched/Model.v.

   ANCHORS:
     streamflow.scheduling.scheduler.DefaultScheduler._process_target   (async with self.wait_queue / wait())
     streamflow.scheduling.scheduler.DefaultScheduler.notify_status     (async with self.wait_queue / notify_all())
     asyncio.Condition.wait / notify_all, asyncio.Lock.acquire / release  (as used by the two above)

   Tasks are numbered; [prog t] says what task t is: a pending schedule() call for one target (KReq w, w the request as
   in [waiter]) or a notify_status call (KNot job status frees).  Program counters over the await points:
     PStart     before `async with self.wait_queue`
     PLockWait  inside Lock.acquire(), queued (also: woken by notify_all, re-acquiring at the end of Condition.wait())
     PHolding   holds the lock: about to run the loop body of _process_target / the body of notify_status
     PWaiting   inside `await self.wait_queue.wait()`: lock released, parked in the Condition's waiter FIFO
     PDone      returned (request granted / notification done)
   An action is one atomic stretch of one task between two suspensions that matter for the protocol:
     AArrive t  : Lock.acquire(): takes the lock if it is free and nobody queues, else joins the lock FIFO
     AStep t    : the lock holder runs its critical section up to the release of the lock:
                  request  : evaluate ([try_waiter] = one loop body); granted -> return (lock released);
                             not granted -> Condition.wait(): release the lock, join the waiter FIFO
                  notifier : notify ([notify]), notify_all(): EVERY parked waiter leaves the waiter FIFO and queues for
                             the lock (FIFO), return (lock released)
   Releasing hands the lock to the head of the lock FIFO (asyncio.Lock wakes its first waiter; a task calling acquire()
   meanwhile sees waiters and queues behind them).  The awaits INSIDE a critical section (get_available_locations, the
   resolver, du) do not release the lock, so the section is one action.
   Ghost fields (not in the code): [gbase] the scheduler state right after the last notification, [gpre] the history of
   scheduler events (lock order) up to and including that notification, [ground] the evaluations since.

   OUTSIDE this system (named, not modelled): an exception escaping a critical section — in notify_status it skips
   notify_all (the known multi-location release finding: the LTS has no step when [notify]/[try_waiter] raises);
   `retry_delay` timers (wait_for(..., timeout) waking a waiter without notification: only adds evaluations);
   cancellation of a parked task; several targets per request (one task per target sharing `JobContext.scheduled`). *)
From Coq Require Import List Bool Arith ZArith Lia.
From SF Require Import Base.Str Hardware.Model Sched.Model Sched.Proofs Sched.History Sched.Quiesce.
Import ListNotations.
Local Open Scope list_scope.

Inductive kind := KReq (w : waiter) | KNot (job : string) (new : status) (fls : list free_level).
Inductive pc := PStart | PLockWait | PHolding | PWaiting | PDone.
Definition pc_eqb (a b : pc) : bool :=
  match a, b with PStart, PStart | PLockWait, PLockWait | PHolding, PHolding | PWaiting, PWaiting | PDone, PDone => true | _, _ => false end.

Record cst := mkC { sched : sstate; holder : option nat; lockq : list nat; waitq : list nat; pcs : nat -> pc;
                    gbase : sstate; gpre : list event; ground : list event }.
Inductive act := AArrive (t : nat) | AStep (t : nat).

Definition ev_of (w : waiter) : event := EAttempt (w_job w) (w_cands w) (w_reqs w) (w_n w) (w_chosen w).
Definition upd (f : nat -> pc) (t : nat) (p : pc) : nat -> pc := fun k => if Nat.eqb k t then p else f k.
Definition upds (f : nat -> pc) (ts : list nat) (p : pc) : nat -> pc := fun k => if existsb (Nat.eqb k) ts then p else f k.

(* Lock.release(): hand over to the head of the lock FIFO *)
Definition release (lq : list nat) (f : nat -> pc) : option nat * list nat * (nat -> pc) :=
  match lq with [] => (None, [], f) | h :: q => (Some h, q, upd f h PHolding) end.

Section Wake.
Variable prog : nat -> kind.

Definition cstep (c : cst) (a : act) : option cst :=
  match a with
  | AArrive t =>
      match pcs c t with
      | PStart =>
          match holder c, lockq c with
          | None, [] => Some (mkC (sched c) (Some t) [] (waitq c) (upd (pcs c) t PHolding) (gbase c) (gpre c) (ground c))
          | _, _ => Some (mkC (sched c) (holder c) (lockq c ++ [t]) (waitq c) (upd (pcs c) t PLockWait) (gbase c) (gpre c) (ground c))
          end
      | _ => None
      end
  | AStep t =>
      match holder c, pcs c t with
      | Some h, PHolding =>
          if Nat.eqb h t then
            match prog t with
            | KReq w =>
                match try_waiter (sched c) w with
                | Ok (s', _, true) =>
                    let '(ho, lq, f) := release (lockq c) (upd (pcs c) t PDone) in
                    Some (mkC s' ho lq (waitq c) f (gbase c) (gpre c) (ground c ++ [ev_of w]))
                | Ok (s', _, false) =>
                    let '(ho, lq, f) := release (lockq c) (upd (pcs c) t PWaiting) in
                    Some (mkC s' ho lq (waitq c ++ [t]) f (gbase c) (gpre c) (ground c ++ [ev_of w]))
                | Err _ => None
                end
            | KNot job new fls =>
                match notify (sched c) job new fls with
                | Ok s' =>
                    (* notify_all(): every parked waiter queues for the lock, in FIFO order; then the lock is released *)
                    let '(ho, lq, f) := release (lockq c ++ waitq c) (upds (upd (pcs c) t PDone) (waitq c) PLockWait) in
                    Some (mkC s' ho lq [] f s' (gpre c ++ ground c ++ [ENotify job new fls]) [])
                | Err _ => None
                end
            end
          else None
      | _, _ => None
      end
  end.

Fixpoint execs (c : cst) (l : list act) : option cst :=
  match l with [] => Some c | a :: l' => match cstep c a with Some c' => execs c' l' | None => None end end.

Definition c0 : cst := mkC init None [] [] (fun _ => PStart) init [] [].

(* ------------------------------------------------------------------ the protocol invariant *)
Definition WInv (c : cst) : Prop :=
  (forall t, pcs c t = PWaiting -> In t (waitq c)) /\
  run init (gpre c) = Ok (gbase c) /\ run (gbase c) (ground c) = Ok (sched c) /\ only_attempts (ground c) /\
  (forall t w, pcs c t = PWaiting -> prog t = KReq w ->
     exists pre post s_i vn, ground c = pre ++ ev_of w :: post /\ run (gbase c) pre = Ok s_i /\
                             try_waiter s_i w = Ok (s_i, vn, false)).

Lemma winv0 : WInv c0.
Proof.
  unfold WInv, c0. simpl. split; [intros t H; discriminate|]. split; [reflexivity|]. split; [reflexivity|].
  split; [intros e []|intros t w H; discriminate].
Qed.

Lemma upd_same f t p : upd f t p t = p.
Proof. unfold upd. rewrite Nat.eqb_refl. reflexivity. Qed.
Lemma upd_other f t p k : k <> t -> upd f t p k = f k.
Proof. intros H. unfold upd. destruct (Nat.eqb_spec k t); [congruence|reflexivity]. Qed.

(* what release does to program counters: only the new holder changes, to PHolding *)
Lemma release_pcs lq f ho lq' f' : release lq f = (ho, lq', f') ->
  forall k, f' k = PWaiting -> f k = PWaiting.
Proof.
  unfold release. destruct lq as [|h q]; intros H; inversion H; subst; [auto|].
  intros k Hk. unfold upd in Hk. destruct (Nat.eqb k h); [discriminate|exact Hk].
Qed.
Lemma release_pcs_keep lq f ho lq' f' : release lq f = (ho, lq', f') ->
  forall k, f' k = PWaiting <-> (f k = PWaiting /\ hd_error lq <> Some k).
Proof.
  unfold release. destruct lq as [|h q]; intros H; inversion H; subst; intros k; simpl.
  - split; [intros Hk; split; [exact Hk|discriminate]|tauto].
  - unfold upd. destruct (Nat.eqb_spec k h); split.
    + discriminate.
    + intros [_ Hn]. subst. exfalso. apply Hn. reflexivity.
    + intros Hk. split; [exact Hk|]. intros Hx. inversion Hx. congruence.
    + tauto.
Qed.

Lemma run_snoc st es e s : run st es = Ok s -> run st (es ++ [e]) = step s e.
Proof. intros H. rewrite run_app, H. simpl. destruct (step s e); reflexivity. Qed.

Lemma only_attempts_snoc es w : only_attempts es -> only_attempts (es ++ [ev_of w]).
Proof. intros H e He. apply in_app_or in He. destruct He as [He|[He|[]]]; [apply H; exact He|subst; exact I]. Qed.

Lemma try_step st w s vn al : try_waiter st w = Ok (s, vn, al) -> step st (ev_of w) = Ok s.
Proof. unfold try_waiter, ev_of. simpl. intros H. rewrite H. reflexivity. Qed.

Theorem winv_step c a c' : WInv c -> cstep c a = Some c' -> WInv c'.
Proof.
  intros (W1 & W2 & W3 & W4 & W5) Hs. destruct a as [t|t]; simpl in Hs.
  - (* arrive *)
    destruct (pcs c t) eqn:Ept; try discriminate.
    assert (Hpc : forall p k, p <> PWaiting -> upd (pcs c) t p k = PWaiting -> pcs c k = PWaiting /\ k <> t).
    { intros p k Hp Hk. unfold upd in Hk. destruct (Nat.eqb_spec k t); [congruence|]. auto. }
    assert (HA : forall ho lq p, p <> PWaiting ->
              WInv (mkC (sched c) ho lq (waitq c) (upd (pcs c) t p) (gbase c) (gpre c) (ground c))).
    { intros ho lq p Hp. unfold WInv; simpl.
      split; [intros k Hk; apply W1; apply (Hpc p k Hp Hk)|]. split; [exact W2|]. split; [exact W3|]. split; [exact W4|].
      intros k w Hk Hw. apply (W5 k w); [apply (Hpc p k Hp Hk)|exact Hw]. }
    destruct (holder c); [inversion Hs; apply HA; discriminate|].
    destruct (lockq c); inversion Hs; apply HA; discriminate.
  - destruct (holder c) as [h|]; [|discriminate]. destruct (pcs c t) eqn:Ept; try discriminate.
    destruct (Nat.eqb_spec h t) as [Eh|Eh]; [|discriminate]. subst h.
    destruct (prog t) as [w|job new fls] eqn:Ep.
    + (* a request evaluates *)
      destruct (try_waiter (sched c) w) as [[[s' vn] al]|] eqn:Et; [|discriminate].
      pose proof (try_step _ _ _ _ _ Et) as Hst.
      assert (Hrun : run (gbase c) (ground c ++ [ev_of w]) = Ok s') by (rewrite (run_snoc _ _ _ _ W3); exact Hst).
      assert (Hext : forall k w0, pcs c k = PWaiting -> prog k = KReq w0 ->
                exists pre post s_i vn0, ground c ++ [ev_of w] = pre ++ ev_of w0 :: post /\ run (gbase c) pre = Ok s_i /\
                                          try_waiter s_i w0 = Ok (s_i, vn0, false)).
      { intros k w0 Hk Hw0. destruct (W5 k w0 Hk Hw0) as (pre & post & s_i & vn0 & E1 & E2 & E3).
        exists pre, (post ++ [ev_of w]), s_i, vn0. rewrite E1, <- app_assoc. simpl. auto. }
      destruct al.
      * destruct (release (lockq c) (upd (pcs c) t PDone)) as [[ho lq] f] eqn:Er. inversion Hs; subst; clear Hs.
        unfold WInv; simpl.
        assert (Hf : forall k, f k = PWaiting -> pcs c k = PWaiting).
        { intros k Hk. apply (release_pcs _ _ _ _ _ Er) in Hk. unfold upd in Hk. destruct (Nat.eqb k t); [discriminate|exact Hk]. }
        split; [intros k Hk; apply W1; apply Hf; exact Hk|]. split; [exact W2|]. split; [exact Hrun|].
        split; [apply only_attempts_snoc; exact W4|]. intros k w0 Hk Hw0. apply (Hext k w0 (Hf k Hk) Hw0).
      * assert (s' = sched c) by (unfold try_waiter in Et; eapply attempt_fail_unchanged; exact Et). subst s'.
        destruct (release (lockq c) (upd (pcs c) t PWaiting)) as [[ho lq] f] eqn:Er. inversion Hs; subst; clear Hs.
        unfold WInv; simpl.
        assert (Hf : forall k, f k = PWaiting -> k = t \/ pcs c k = PWaiting).
        { intros k Hk. apply (release_pcs _ _ _ _ _ Er) in Hk. unfold upd in Hk. destruct (Nat.eqb_spec k t); [left; assumption|right; exact Hk]. }
        split; [intros k Hk; apply in_or_app; destruct (Hf k Hk) as [E|E]; [right; left; symmetry; exact E|left; apply W1; exact E]|].
        split; [exact W2|]. split; [exact Hrun|]. split; [apply only_attempts_snoc; exact W4|].
        intros k w0 Hk Hw0. destruct (Hf k Hk) as [E|E].
        -- subst k. rewrite Ep in Hw0. inversion Hw0. subst w0.
           exists (ground c), [], (sched c), vn. split; [reflexivity|]. split; [exact W3|exact Et].
        -- apply (Hext k w0 E Hw0).
    + (* a notification: notify_all empties the waiter FIFO *)
      destruct (notify (sched c) job new fls) as [s'|] eqn:En; [|discriminate].
      destruct (release (lockq c ++ waitq c) (upds (upd (pcs c) t PDone) (waitq c) PLockWait)) as [[ho lq] f] eqn:Er.
      inversion Hs; subst; clear Hs. unfold WInv; simpl.
      assert (Hnone : forall k, f k <> PWaiting).
      { intros k Hk. apply (release_pcs _ _ _ _ _ Er) in Hk. unfold upds in Hk.
        destruct (existsb (Nat.eqb k) (waitq c)) eqn:Ee; [discriminate|].
        unfold upd in Hk. destruct (Nat.eqb k t); [discriminate|].
        assert (In k (waitq c)) by (apply W1; exact Hk).
        assert (existsb (Nat.eqb k) (waitq c) = true) by (apply existsb_exists; exists k; split; [assumption|apply Nat.eqb_refl]).
        congruence. }
      split; [intros k Hk; exfalso; exact (Hnone k Hk)|].
      split.
      { rewrite run_app, W2. simpl. rewrite (run_snoc _ _ _ _ W3). simpl. rewrite En. reflexivity. }
      split; [reflexivity|]. split; [intros e []|]. intros k w0 Hk. exfalso. exact (Hnone k Hk).
Qed.

Theorem winv_execs l : forall c c', WInv c -> execs c l = Some c' -> WInv c'.
Proof.
  induction l as [|a l IH]; simpl; intros c c' HW H; [inversion H; subst; exact HW|].
  destruct (cstep c a) as [c1|] eqn:E; [|discriminate]. apply (IH c1 c' (winv_step _ _ _ HW E) H).
Qed.
End Wake.

(* ------------------------------------------------------------------ queue discipline *)
Section WakeQueues.
Variable prog : nat -> kind.

Definition QInv (c : cst) : Prop :=
  (forall t, In t (lockq c) -> pcs c t = PLockWait) /\
  (forall t, In t (waitq c) -> pcs c t = PWaiting) /\
  NoDup (lockq c ++ waitq c) /\
  (forall h, holder c = Some h -> pcs c h = PHolding) /\
  (forall t, pcs c t = PHolding -> holder c = Some t).

Lemma qinv0 : QInv (c0).
Proof. unfold QInv, c0. simpl. repeat split; try (intros; contradiction); try (intros; discriminate). constructor. Qed.

Lemma release_qinv lq wq f0 ho lq' f sc gb gp gr :
  (forall k, In k lq -> f0 k = PLockWait) -> (forall k, In k wq -> f0 k = PWaiting) -> NoDup (lq ++ wq) ->
  (forall k, f0 k <> PHolding) -> release lq f0 = (ho, lq', f) ->
  QInv (mkC sc ho lq' wq f gb gp gr).
Proof.
  intros HA HB HC HE Hr. unfold release in Hr. destruct lq as [|h q]; inversion Hr; subst; unfold QInv; simpl.
  - split; [intros t []|]. split; [exact HB|]. split; [exact HC|]. split; [intros h H; discriminate|].
    intros t Ht. exfalso. exact (HE t Ht).
  - simpl in HC. inversion HC as [|? ? Hni HC']. subst.
    split; [intros t Ht; rewrite upd_other; [apply HA; right; exact Ht|intros E; subst; apply Hni; apply in_or_app; left; exact Ht]|].
    split; [intros t Ht; rewrite upd_other; [apply HB; exact Ht|intros E; subst; apply Hni; apply in_or_app; right; exact Ht]|].
    split; [exact HC'|]. split; [intros h0 H0; inversion H0; subst; apply upd_same|].
    intros t Ht. unfold upd in Ht. destruct (Nat.eqb_spec t h); [subst; reflexivity|exfalso; exact (HE t Ht)].
Qed.

Lemma NoDup_snoc_mid (a b : list nat) t : NoDup (a ++ b) -> ~ In t (a ++ b) -> NoDup ((a ++ [t]) ++ b).
Proof.
  intros H Hn. rewrite <- app_assoc. simpl. apply (NoDup_Add (Add_app t a b)). split; assumption.
Qed.

Theorem qinv_step c a c' : QInv c -> cstep prog c a = Some c' -> QInv c'.
Proof.
  intros (QA & QB & QC & QD & QE) Hs. destruct a as [t|t]; simpl in Hs.
  - destruct (pcs c t) eqn:Ept; try discriminate.
    assert (Hnl : ~ In t (lockq c ++ waitq c)).
    { intros Hi. apply in_app_or in Hi. destruct Hi as [Hi|Hi]; [rewrite (QA t Hi) in Ept|rewrite (QB t Hi) in Ept]; discriminate. }
    destruct (holder c) as [h|] eqn:Eh.
    + inversion Hs; subst; clear Hs. unfold QInv; simpl.
      split; [intros k Hk; apply in_app_or in Hk; destruct Hk as [Hk|[Hk|[]]];
              [rewrite upd_other; [apply QA; exact Hk|intros E; subst; apply Hnl; apply in_or_app; left; exact Hk]|subst; apply upd_same]|].
      split; [intros k Hk; rewrite upd_other; [apply QB; exact Hk|intros E; subst; apply Hnl; apply in_or_app; right; exact Hk]|].
      split; [apply NoDup_snoc_mid; assumption|].
      split; [intros h0 H0; inversion H0; subst; rewrite upd_other; [apply QD; reflexivity|intros E; subst; rewrite (QD _ eq_refl) in Ept; discriminate]|].
      intros k Hk. unfold upd in Hk. destruct (Nat.eqb k t); [discriminate|]. apply QE. exact Hk.
    + destruct (lockq c) as [|l0 lq] eqn:El.
      * inversion Hs; subst; clear Hs. unfold QInv; simpl.
        split; [intros k []|].
        split; [intros k Hk; rewrite upd_other; [apply QB; exact Hk|intros E; subst; apply Hnl; exact Hk]|].
        split; [exact QC|]. split; [intros h0 H0; inversion H0; subst; apply upd_same|].
        intros k Hk. unfold upd in Hk. destruct (Nat.eqb_spec k t); [subst; reflexivity|]. specialize (QE k Hk). discriminate.
      * inversion Hs; subst; clear Hs. unfold QInv; cbn [lockq waitq pcs holder].
        change (l0 :: lq ++ [t]) with ((l0 :: lq) ++ [t]).
        split; [intros k Hk; apply in_app_or in Hk; destruct Hk as [Hk|[Hk|[]]];
                [rewrite upd_other; [apply QA; exact Hk|intros E; subst; apply Hnl; apply in_or_app; left; exact Hk]|subst; apply upd_same]|].
        split; [intros k Hk; rewrite upd_other; [apply QB; exact Hk|intros E; subst; apply Hnl; apply in_or_app; right; exact Hk]|].
        split; [apply NoDup_snoc_mid; assumption|]. split; [intros h0 H0; discriminate|].
        intros k Hk. unfold upd in Hk. destruct (Nat.eqb k t); [discriminate|]. specialize (QE k Hk). discriminate.
  - destruct (holder c) as [h|] eqn:Eh; [|discriminate]. destruct (pcs c t) eqn:Ept; try discriminate.
    destruct (Nat.eqb_spec h t) as [Eht|Eht]; [|discriminate]. subst h.
    assert (Hnl : ~ In t (lockq c ++ waitq c)).
    { intros Hi. apply in_app_or in Hi. destruct Hi as [Hi|Hi]; [rewrite (QA t Hi) in Ept|rewrite (QB t Hi) in Ept]; discriminate. }
    assert (Hhold : forall p k, p <> PHolding -> upd (pcs c) t p k <> PHolding).
    { intros p k Hp Hk. unfold upd in Hk. destruct (Nat.eqb_spec k t); [congruence|]. specialize (QE k Hk). congruence. }
    destruct (prog t) as [w|job new fls].
    + destruct (try_waiter (sched c) w) as [[[s' vn] al]|]; [|discriminate]. destruct al.
      * destruct (release (lockq c) (upd (pcs c) t PDone)) as [[ho lq] f] eqn:Er. inversion Hs; subst; clear Hs.
        eapply release_qinv; [| | | |exact Er].
        -- intros k Hk. rewrite upd_other; [apply QA; exact Hk|intros E; subst; apply Hnl; apply in_or_app; left; exact Hk].
        -- intros k Hk. rewrite upd_other; [apply QB; exact Hk|intros E; subst; apply Hnl; apply in_or_app; right; exact Hk].
        -- exact QC.
        -- intros k. apply Hhold. discriminate.
      * destruct (release (lockq c) (upd (pcs c) t PWaiting)) as [[ho lq] f] eqn:Er. inversion Hs; subst; clear Hs.
        eapply release_qinv; [| | | |exact Er].
        -- intros k Hk. rewrite upd_other; [apply QA; exact Hk|intros E; subst; apply Hnl; apply in_or_app; left; exact Hk].
        -- intros k Hk. apply in_app_or in Hk. destruct Hk as [Hk|[Hk|[]]]; [|subst; apply upd_same].
           rewrite upd_other; [apply QB; exact Hk|intros E; subst; apply Hnl; apply in_or_app; right; exact Hk].
        -- rewrite app_assoc. pose proof (NoDup_snoc_mid (lockq c ++ waitq c) [] t) as Hmid.
           rewrite !app_nil_r in Hmid. apply Hmid; assumption.
        -- intros k. apply Hhold. discriminate.
    + destruct (notify (sched c) job new fls) as [s'|]; [|discriminate].
      destruct (release (lockq c ++ waitq c) (upds (upd (pcs c) t PDone) (waitq c) PLockWait)) as [[ho lq] f] eqn:Er.
      inversion Hs; subst; clear Hs.
      eapply release_qinv; [| | | |exact Er].
      -- intros k Hk. unfold upds. destruct (existsb (Nat.eqb k) (waitq c)) eqn:Ee; [reflexivity|].
         apply in_app_or in Hk. destruct Hk as [Hk|Hk].
         ++ rewrite upd_other; [apply QA; exact Hk|intros E; subst; apply Hnl; apply in_or_app; left; exact Hk].
         ++ exfalso. assert (existsb (Nat.eqb k) (waitq c) = true) by (apply existsb_exists; exists k; split; [exact Hk|apply Nat.eqb_refl]). congruence.
      -- intros k [].
      -- rewrite app_nil_r. exact QC.
      -- intros k Hk. unfold upds in Hk. destruct (existsb (Nat.eqb k) (waitq c)); [discriminate|]. revert Hk. apply Hhold. discriminate.
Qed.

Theorem qinv_execs l : forall c c', QInv c -> execs prog c l = Some c' -> QInv c'.
Proof.
  induction l as [|a l IH]; simpl; intros c c' HQ H; [inversion H; subst; exact HQ|].
  destruct (cstep prog c a) as [c1|] eqn:E; [|discriminate]. apply (IH c1 c' (qinv_step _ _ _ HQ E) H).
Qed.
End WakeQueues.

(* ------------------------------------------------------------------ (i) segments between notifications are wake rounds *)
Section WakeRound.
Variable prog : nat -> kind.

Definition is_req (t : nat) : bool := match prog t with KReq _ => true | KNot _ _ _ => false end.
(* a segment without notification: arrivals (of anybody) and critical sections of requests only *)
Definition no_notify (l : list act) : Prop := forall t, In (AStep t) l -> is_req t = true.
(* the requests evaluated along a segment, in order *)
Fixpoint evals (l : list act) : list nat :=
  match l with [] => [] | AStep t :: l' => t :: evals l' | AArrive _ :: l' => evals l' end.
Definition req_of (t : nat) : waiter :=
  match prog t with KReq w => w | KNot _ _ _ => mkwaiter EmptyString [] [] 0 [] end.
(* parked or finished *)
Definition settled (p : pc) : bool := match p with PWaiting | PDone => true | _ => false end.

Lemma release_settled lq f0 ho lq' f :
  release lq f0 = (ho, lq', f) -> (forall k, In k lq -> f0 k = PLockWait) ->
  forall k, settled (f0 k) = true -> f k = f0 k.
Proof.
  unfold release. destruct lq as [|h q]; intros H HA k Hk; inversion H; subst; [reflexivity|].
  apply upd_other. intros E. subst. rewrite (HA h (or_introl eq_refl)) in Hk. discriminate.
Qed.

Lemma cstep_facts c a c1 :
  QInv c -> cstep prog c a = Some c1 -> (forall t, a = AStep t -> is_req t = true) ->
  (forall k, settled (pcs c k) = true -> pcs c1 k = pcs c k) /\
  match a with
  | AArrive _ => sched c1 = sched c /\ ground c1 = ground c
  | AStep t => exists s vn al, try_waiter (sched c) (req_of t) = Ok (s, vn, al) /\ sched c1 = s /\
                               ground c1 = ground c ++ [ev_of (req_of t)] /\
                               settled (pcs c t) = false /\ settled (pcs c1 t) = true
  end.
Proof.
  intros (QA & QB & QC & QD & QE) Hs Hreq. destruct a as [t|t]; simpl in Hs.
  - destruct (pcs c t) eqn:Ept; try discriminate.
    assert (Hk : forall p k, settled (pcs c k) = true -> upd (pcs c) t p k = pcs c k).
    { intros p k Hk. apply upd_other. intros E. subst. rewrite Ept in Hk. discriminate. }
    destruct (holder c); [inversion Hs; simpl; auto|]. destruct (lockq c); inversion Hs; simpl; auto.
  - destruct (holder c) as [h|]; [|discriminate]. destruct (pcs c t) eqn:Ept; try discriminate.
    destruct (Nat.eqb_spec h t) as [Eh|Eh]; [|discriminate]. subst h.
    specialize (Hreq t eq_refl). unfold is_req in Hreq. unfold req_of. destruct (prog t) as [w|]; [|discriminate].
    assert (Hnl : ~ In t (lockq c)) by (intros Hi; rewrite (QA t Hi) in Ept; discriminate).
    destruct (try_waiter (sched c) w) as [[[s' vn] al]|] eqn:Et; [|discriminate].
    assert (Hgen : forall p ho lq f, settled p = true -> release (lockq c) (upd (pcs c) t p) = (ho, lq, f) ->
              (forall k, settled (pcs c k) = true -> f k = pcs c k) /\ f t = p).
    { intros p ho lq f Hp Hr.
      assert (HA' : forall k, In k (lockq c) -> upd (pcs c) t p k = PLockWait).
      { intros k Hk. rewrite upd_other; [apply QA; exact Hk|intros E; subst; exact (Hnl Hk)]. }
      split.
      - intros k Hk. assert (k <> t) by (intros E; subst; rewrite Ept in Hk; discriminate).
        rewrite (release_settled _ _ _ _ _ Hr HA' k); [apply upd_other; assumption|rewrite upd_other by assumption; exact Hk].
      - rewrite (release_settled _ _ _ _ _ Hr HA' t); [apply upd_same|rewrite upd_same; exact Hp]. }
    destruct al.
    + destruct (release (lockq c) (upd (pcs c) t PDone)) as [[ho lq] f] eqn:Er. inversion Hs; subst; clear Hs. simpl.
      destruct (Hgen PDone ho lq f eq_refl Er) as [H1 H2]. split; [exact H1|].
      exists s', vn, true. rewrite H2. auto.
    + destruct (release (lockq c) (upd (pcs c) t PWaiting)) as [[ho lq] f] eqn:Er. inversion Hs; subst; clear Hs. simpl.
      destruct (Hgen PWaiting ho lq f eq_refl Er) as [H1 H2]. split; [exact H1|].
      exists s', vn, false. rewrite H2. auto.
Qed.

(* C12_wake_refines_round: an execution segment without notification is a wake-up round over the requests it evaluates,
   each of them exactly once, none of them parked or finished at the start of the segment, all of them parked or
   finished at its end; tasks parked or finished at the start do not move *)
Theorem segment_is_round l : forall c c',
  QInv c -> execs prog c l = Some c' -> no_notify l ->
  (exists g, wake_round (sched c) (map req_of (evals l)) = Ok (sched c', g)) /\
  NoDup (evals l) /\
  (forall t, In t (evals l) -> settled (pcs c t) = false /\ settled (pcs c' t) = true) /\
  (forall k, settled (pcs c k) = true -> pcs c' k = pcs c k) /\
  ground c' = ground c ++ map (fun t => ev_of (req_of t)) (evals l).
Proof.
  induction l as [|a l IH]; intros c c' HQ He Hn.
  - simpl in He. inversion He. subst. simpl. split; [exists []; reflexivity|]. split; [constructor|].
    split; [intros t []|]. split; [auto|]. rewrite app_nil_r. reflexivity.
  - simpl in He. destruct (cstep prog c a) as [c1|] eqn:Es; [|discriminate].
    assert (Hreq : forall t, a = AStep t -> is_req t = true) by (intros t E; apply Hn; left; exact E).
    destruct (cstep_facts c a c1 HQ Es Hreq) as [Hset Hact].
    destruct (IH c1 c' (qinv_step prog _ _ _ HQ Es) He (fun t Ht => Hn t (or_intror Ht))) as ((g & Hw) & Hnd & Hev & Hset' & Hgr).
    assert (Hset2 : forall k, settled (pcs c k) = true -> pcs c' k = pcs c k).
    { intros k Hk. rewrite <- (Hset k Hk). apply Hset'. rewrite (Hset k Hk). exact Hk. }
    destruct a as [t|t]; cbn [evals].
    + destruct Hact as [Hs Hg]. rewrite <- Hs. split; [exists g; exact Hw|]. split; [exact Hnd|].
      split; [|split; [exact Hset2|rewrite Hgr, Hg; reflexivity]].
      intros t0 Ht0. destruct (Hev t0 Ht0) as [H1 H2]. split; [|exact H2].
      destruct (settled (pcs c t0)) eqn:E; [|reflexivity]. rewrite (Hset t0 E) in H1. congruence.
    + destruct Hact as (s & vn & al & Et & Hs & Hg & Hb & Ha).
      split.
      { cbn [map wake_round]. rewrite Et. cbn [bind_res fst snd]. rewrite <- Hs, Hw. cbn [bind_res fst snd]. eexists. reflexivity. }
      split.
      { constructor; [|exact Hnd]. intros Hi. destruct (Hev t Hi) as [H1 _]. congruence. }
      split; [|split; [exact Hset2|rewrite Hgr, Hg, <- app_assoc; reflexivity]].
      intros t0 [E|Ht0].
      * subst t0. split; [exact Hb|]. rewrite (Hset' t Ha). exact Ha.
      * destruct (Hev t0 Ht0) as [H1 H2]. split; [|exact H2].
        destruct (settled (pcs c t0)) eqn:E; [|reflexivity]. rewrite (Hset t0 E) in H1. congruence.
Qed.
End WakeRound.

(* ------------------------------------------------------------------ (ii) no lost wake-up *)
Section WakeSafe.
Variable prog : nat -> kind.
Variable locs : list level.
Hypothesis locs_names : forall l1 l2, In l1 locs -> In l2 locs -> lv_name l1 = lv_name l2 -> l1 = l2.
Hypothesis locs_caps : forall l cap, In l locs -> lv_cap l = Some cap -> wfr cap /\ In "/"%string (mounts cap).

(* every request parked in the Condition's waiter FIFO of a reachable state was evaluated after the last notification
   and found short of valid locations; by C12_quiescent it is still short in the current scheduler state *)
Theorem parked_not_grantable l c t w :
  execs prog c0 l = Some c -> conformant locs init (gpre c ++ ground c) ->
  pcs c t = PWaiting -> prog t = KReq w ->
  exists vn, (exists pre post s_i, ground c = pre ++ ev_of w :: post /\ run (gbase c) pre = Ok s_i /\
                                  try_waiter s_i w = Ok (s_i, vn, false)) /\
    ((length vn < w_n w)%nat -> forall v', valid_locations (sched c) (w_reqs w) (w_job w) (w_cands w) = Ok v' ->
       (length v' < w_n w)%nat /\ try_waiter (sched c) w = Ok (sched c, map chain_name v', false)).
Proof.
  intros He Hc Hp Hw.
  destruct (winv_execs prog l c0 c (winv0 prog) He) as (W1 & W2 & W3 & W4 & W5).
  destruct (W5 t w Hp Hw) as (pre & post & s_i & vn & Eg & Erun & Etry).
  exists vn. split; [exists pre, post, s_i; auto|]. intros Hshort v' Hv'.
  pose proof (inv_run locs locs_names locs_caps (gpre c) init g0 (gbase c) (inv_init locs)
                (conformant_prefix locs (gpre c) init (ground c) Hc) W2) as HI.
  pose proof (conformant_app locs (gpre c) init (ground c) (gbase c) Hc W2) as Hc2.
  unfold ev_of in Eg. rewrite Eg in Hc2, W3, W4.
  apply (round_quiescent locs locs_names locs_caps (gbase c) _ pre (w_job w) (w_cands w) (w_reqs w) (w_n w) (w_chosen w) post
           (sched c) s_i vn HI Hc2 W4 W3 Erun Etry Hshort v' Hv').
Qed.

(* quiescent = no task is inside the protocol: every task has not started yet, is parked, or has finished
   (nobody holds or queues for the lock; what can still happen are new external calls: AArrive of a PStart task) *)
Definition quiescent (c : cst) : Prop := forall t, pcs c t = PStart \/ settled (pcs c t) = true.

(* C12_no_lost_wakeup: in a reachable quiescent state every issued request that has not been granted is parked and,
   if it was short of valid locations when it was last evaluated, it still is: no waiter could be allocated *)
Theorem no_lost_wakeup l c :
  execs prog c0 l = Some c -> conformant locs init (gpre c ++ ground c) -> quiescent c ->
  forall t w, prog t = KReq w -> pcs c t <> PStart -> pcs c t <> PDone ->
  pcs c t = PWaiting /\ In t (waitq c) /\
  exists vn, (exists pre post s_i, ground c = pre ++ ev_of w :: post /\ run (gbase c) pre = Ok s_i /\
                                  try_waiter s_i w = Ok (s_i, vn, false)) /\
    ((length vn < w_n w)%nat -> forall v', valid_locations (sched c) (w_reqs w) (w_job w) (w_cands w) = Ok v' ->
       (length v' < w_n w)%nat /\ try_waiter (sched c) w = Ok (sched c, map chain_name v', false)).
Proof.
  intros He Hc Hq t w Hw Hns Hnd.
  assert (Hp : pcs c t = PWaiting).
  { destruct (Hq t) as [Hs|Hs]; [congruence|]. destruct (pcs c t); simpl in Hs; try discriminate; [reflexivity|congruence]. }
  split; [exact Hp|]. split; [apply (winv_execs prog l c0 c (winv0 prog) He); exact Hp|].
  apply (parked_not_grantable l c t w He Hc Hp Hw).
Qed.

(* in a quiescent state nobody holds the lock and nobody queues for it *)
Theorem quiescent_lock_free l c :
  execs prog c0 l = Some c -> quiescent c -> holder c = None /\ lockq c = [].
Proof.
  intros He Hq. destruct (qinv_execs prog l c0 c (qinv0) He) as (QA & QB & QC & QD & QE). split.
  - destruct (holder c) as [h|] eqn:Eh; [|reflexivity]. specialize (QD h eq_refl). destruct (Hq h) as [H|H]; rewrite QD in H; discriminate.
  - destruct (lockq c) as [|h q] eqn:El; [reflexivity|]. specialize (QA h (or_introl eq_refl)).
    destruct (Hq h) as [H|H]; rewrite QA in H; discriminate.
Qed.
End WakeSafe.
