(* Sched/WakeStacked.v — the no-lost-wake-up theorems of Sched/Wake.v composed with C12_quiescent_stacked: locations
   may be chains of stacked levels (hardware or slot levels, outer or inner), arbitrarily many tasks, jobs, locations. *)
From Coq Require Import List Bool Arith ZArith Lia.
From SF Require Import Base.Str Hardware.Model Sched.Model Sched.Proofs Sched.History Sched.Quiesce Sched.Stacked
                       Sched.StackedHist Sched.StackedQuiesce Sched.Wake.
Import ListNotations.
Local Open Scope list_scope.

Section WakeSafeStacked.
Variable prog : nat -> kind.
Variable locs : list level.
Hypothesis locs_names : forall l1 l2, In l1 locs -> In l2 locs -> lv_name l1 = lv_name l2 -> l1 = l2.
Hypothesis locs_caps : forall l cap, In l locs -> lv_cap l = Some cap -> wfr cap /\ In "/"%string (mounts cap).

Theorem parked_not_grantable_stacked l c t w :
  execs prog c0 l = Some c -> conformant2 locs init (fun _ => []) (gpre c ++ ground c) ->
  pcs c t = PWaiting -> prog t = KReq w ->
  exists vn, (exists pre post s_i, ground c = pre ++ ev_of w :: post /\ run (gbase c) pre = Ok s_i /\
                                  try_waiter s_i w = Ok (s_i, vn, false)) /\
    ((length vn < w_n w)%nat -> forall v', valid_locations (sched c) (w_reqs w) (w_job w) (w_cands w) = Ok v' ->
       (length v' < w_n w)%nat /\ try_waiter (sched c) w = Ok (sched c, map chain_name v', false)).
Proof.
  intros He Hc Hp Hw.
  destruct (winv_execs prog l c0 c (winv0 prog) He) as (W1 & W2 & W3 & W4 & W5).
  destruct (W5 t w Hp Hw) as (pre & post & s_i & vn & Eg & Erun & Etry).
  exists vn. split; [exists pre, post, s_i; auto|]. intros Hshort v' Hv'.
  pose proof (inv2_run locs locs_names locs_caps (gpre c) init g0 (fun _ => []) (gbase c) (inv2_init locs)
                (conformant2_prefix locs (gpre c) init _ (ground c) Hc) W2) as HI.
  pose proof (conformant2_app locs (gpre c) init (fun _ => []) (ground c) (gbase c) Hc W2) as Hc2.
  unfold ev_of in Eg. rewrite Eg in Hc2, W3, W4.
  apply (round_quiescent2 locs locs_names locs_caps (gbase c) _ _ pre (w_job w) (w_cands w) (w_reqs w) (w_n w) (w_chosen w) post
           (sched c) s_i vn HI Hc2 W4 W3 Erun Etry Hshort v' Hv').
Qed.

Theorem no_lost_wakeup_stacked l c :
  execs prog c0 l = Some c -> conformant2 locs init (fun _ => []) (gpre c ++ ground c) -> quiescent c ->
  forall t w, prog t = KReq w -> pcs c t <> PStart -> pcs c t <> PDone ->
  pcs c t = PWaiting /\ In t (waitq c) /\
  exists vn, (exists pre post s_i, ground c = pre ++ ev_of w :: post /\ run (gbase c) pre = Ok s_i /\
                                  try_waiter s_i w = Ok (s_i, vn, false)) /\
    ((length vn < w_n w)%nat -> forall v', valid_locations (sched c) (w_reqs w) (w_job w) (w_cands w) = Ok v' ->
       (length v' < w_n w)%nat /\ try_waiter (sched c) w = Ok (sched c, map chain_name v', false)).
Proof.
  intros He Hc Hq t w Hw Hns Hnd.
  assert (Hp : pcs c t = PWaiting).
  { destruct (Hq t) as [Hs|Hs]; [congruence|]. destruct (pcs c t); simpl in Hs; try discriminate; [reflexivity|congruence]. }
  split; [exact Hp|]. split; [apply (winv_execs prog l c0 c (winv0 prog) He); exact Hp|].
  apply (parked_not_grantable_stacked l c t w He Hc Hp Hw).
Qed.
End WakeSafeStacked.
