(* Sched/Examples.v — the hypotheses of the history theorems are satisfiable: a concrete configuration and a
   concrete conformant history (schedule, RUNNING twice, COMPLETED twice, a second job) with its reachable state. *)
From Coq Require Import List Bool ZArith NArith Lia.
From SF Require Import Base.Str Hardware.Model Hardware.Proofs Sched.Model Sched.Proofs Sched.History Sched.Slots Sched.Quiesce Sched.Witness.
Import ListNotations.
Local Open Scope string_scope. Local Open Scope list_scope. Local Open Scope Z_scope.

Definition ex_level : level := mklevel "d0" "n0" (Some plain_cap) None.
Definition ex_slot : level := mklevel "d1" "s0" None (Some 1%N).
Definition ex_locs : list level := [ex_level; ex_slot].
Definition ex_slot_reqs : list (string * hw) := [("d1/s0", mkhw 1 1 root0)].
Definition ex_history : list event :=
  [EAttempt "/s/0" [[ex_level]] plain_reqs 1 [];
   ENotify "/s/0" Running []; ENotify "/s/0" Running [];
   EAttempt "/s/1" [[ex_slot]] ex_slot_reqs 1 [];
   EAttempt "/s/2" [[ex_slot]] ex_slot_reqs 1 [];           (* waits: the slot is taken *)
   ENotify "/s/0" Completed (plain_free 3); ENotify "/s/0" Completed (plain_free 3);
   ENotify "/s/1" Failed [mkfl None [("s0", Some [("/", 0)])]]].

Lemma ex_names : forall l1 l2, In l1 ex_locs -> In l2 ex_locs -> lv_name l1 = lv_name l2 -> l1 = l2.
Proof.
  intros l1 l2 [H1|[H1|[]]] [H2|[H2|[]]]; subst; simpl; intros H; try reflexivity; discriminate.
Qed.
Lemma wfr_plain_cap : wfr plain_cap.
Proof. split; [split; [discriminate|intros d [H|[]]; subst; simpl; lia]|simpl; lia]. Qed.
Lemma ex_caps : forall l cap, In l ex_locs -> lv_cap l = Some cap -> wfr cap /\ In "/" (mounts cap).
Proof.
  intros l cap [H|[H|[]]] Hc; subst; simpl in Hc; [|discriminate]. inversion Hc. subst.
  split; [apply wfr_plain_cap|left; reflexivity].
Qed.
Lemma wfr_small c m k mt s : 0 <= c -> 0 <= m -> 0 <= s -> wfr (mkhw c m [(k, mkst mt s [] None)]).
Proof. intros. split; [split; [discriminate|intros d [Hd|[]]; subst; simpl; lia]|simpl; lia]. Qed.

Lemma ex_conformant : conformant ex_locs init ex_history.
Proof.
  unfold ex_history. cbn [conformant].
  (* 1: schedule /s/0 on n0 *)
  split; [split; [reflexivity|split; [simpl; lia|split]]|].
  { intros c [Hc|[]]. subst. exists ex_level. split; [reflexivity|left; reflexivity]. }
  { intros k h [Hi|[]]. inversion Hi. subst. split; [split; [discriminate|intros d [Hd|[]]; subst; simpl; lia]|simpl; lia]. }
  split; [reflexivity|]. vm_compute step. cbv iota beta.
  (* 2, 3: RUNNING, RUNNING again *)
  split; [intros fl rest Hf; discriminate|]. split; [simpl; split; [reflexivity|split; [discriminate|intros fl rest nm jh1 u Hf; discriminate]]|].
  vm_compute step. cbv iota beta.
  split; [intros fl rest Hf; discriminate|]. split; [simpl; split; [reflexivity|split; [discriminate|intros fl rest nm jh1 u Hf; discriminate]]|].
  vm_compute step. cbv iota beta.
  (* 4: schedule /s/1 on the slot location *)
  split; [split; [reflexivity|split; [simpl; lia|split]]|].
  { intros c [Hc|[]]. subst. exists ex_slot. split; [reflexivity|right; left; reflexivity]. }
  { intros k h [Hi|[]]. inversion Hi. subst. apply wfr_small; lia. }
  split; [reflexivity|]. vm_compute step. cbv iota beta.
  (* 5: /s/2 evaluated, keeps waiting *)
  split; [split; [reflexivity|split; [simpl; lia|split]]|].
  { intros c [Hc|[]]. subst. exists ex_slot. split; [reflexivity|right; left; reflexivity]. }
  { intros k h [Hi|[]]. inversion Hi. subst. apply wfr_small; lia. }
  split; [reflexivity|]. vm_compute step. cbv iota beta.
  (* 6: COMPLETED with du = 3 of 6 *)
  split; [intros fl rest Hf; inversion Hf; reflexivity|].
  split.
  { simpl. split; [discriminate|split; [discriminate|]]. intros fl rest nm jh1 u Hf Hloc Hn Hu m.
    inversion Hf. subst fl rest. vm_compute in Hloc. inversion Hloc. subst nm.
    vm_compute in Hn. inversion Hn. subst jh1. vm_compute in Hu. inversion Hu. subst u.
    unfold size_at. cbn [total values stor map snd mount size]. destruct (String.eqb "/" m); lia. }
  vm_compute step. cbv iota beta.
  (* 7: COMPLETED again: no release *)
  split; [intros fl rest Hf; inversion Hf; reflexivity|].
  split.
  { simpl. split; [discriminate|split; [discriminate|]]. intros fl rest nm jh1 u Hf Hloc Hn Hu m.
    inversion Hf. subst fl rest. vm_compute in Hloc. inversion Hloc. subst nm.
    vm_compute in Hn. inversion Hn. subst jh1. vm_compute in Hu. inversion Hu. subst u.
    unfold size_at. cbn [total values stor map snd mount size]. destruct (String.eqb "/" m); lia. }
  vm_compute step. cbv iota beta.
  (* 8: /s/1 FAILED while fireable *)
  split; [intros fl rest Hf; inversion Hf; reflexivity|].
  split.
  { simpl. split; [discriminate|split; [discriminate|]]. intros fl rest nm jh1 u Hf Hloc Hn Hu m.
    inversion Hf. subst fl rest. vm_compute in Hloc. inversion Hloc. subst nm.
    vm_compute in Hn. inversion Hn. subst jh1. vm_compute in Hu. inversion Hu. subst u.
    unfold size_at. cbn [total values stor map snd mount size]. destruct (String.eqb "/" m); lia. }
  vm_compute step. cbv iota beta. exact I.
Qed.

Definition ex_final : res sstate := run init ex_history.

(* a wake-up round on a configuration with declared hardware only: /s/9 needs 9 cores (capacity 4) and waits,
   then /s/0 is granted *)
Definition hw_locs : list level := [ex_level].
Definition big_reqs : list (string * hw) := [("d0/n0", mkhw 9 1 root0)].
Definition ex_round : list event :=
  [EAttempt "/s/9" [[ex_level]] big_reqs 1 []; EAttempt "/s/0" [[ex_level]] plain_reqs 1 []].
Lemma hw_names : forall l1 l2, In l1 hw_locs -> In l2 hw_locs -> lv_name l1 = lv_name l2 -> l1 = l2.
Proof. intros l1 l2 [H1|[]] [H2|[]] _. subst. reflexivity. Qed.
Lemma hw_caps : forall l cap, In l hw_locs -> lv_cap l = Some cap -> wfr cap /\ In "/" (mounts cap).
Proof.
  intros l cap [H|[]] Hc; subst; simpl in Hc. inversion Hc. subst. split; [apply wfr_plain_cap|left; reflexivity].
Qed.
Lemma ex_round_conformant : conformant hw_locs init ex_round.
Proof.
  unfold ex_round. cbn [conformant].
  split; [split; [reflexivity|split; [simpl; lia|split]]|].
  { intros c [Hc|[]]. subst. exists ex_level. split; [reflexivity|left; reflexivity]. }
  { intros k h [Hi|[]]. inversion Hi. subst. apply wfr_small; lia. }
  split; [reflexivity|]. vm_compute step. cbv iota beta.
  split; [split; [reflexivity|split; [simpl; lia|split]]|].
  { intros c [Hc|[]]. subst. exists ex_level. split; [reflexivity|left; reflexivity]. }
  { intros k h [Hi|[]]. inversion Hi. subst. split; [split; [discriminate|intros d [Hd|[]]; subst; simpl; lia]|simpl; lia]. }
  split; [reflexivity|]. vm_compute step. cbv iota beta. exact I.
Qed.
Lemma ex_round_attempts : Sched.Quiesce.only_attempts ex_round.
Proof. intros e [H|[H|[]]]; subst; exact I. Qed.

(* ------------------------------------------------------------------ a stacked chain: container c0 on host h0 *)
From SF Require Import Sched.Stacked Sched.StackedHist.
Definition st_outer : level := mklevel "d0" "c0" (Some plain_cap) None.
Definition st_inner : level := mklevel "host" "h0" (Some host_cap) None.
Definition st_locs : list level := [st_outer; st_inner].
Definition st_rq : hw := mkhw 2 4 [("/", mkst "/" 6 [] None)].
Definition st_reqs : list (string * hw) := [("d0/c0", st_rq); ("host/h0", st_rq)].
Definition st_fls : list free_level :=
  [mkfl None [("c0", Some [("/", 3)])]; mkfl (Some st_rq) [("h0", Some [("/", 1)])]].
Definition st_history : list event :=
  [EAttempt "/s/0" [[st_outer; st_inner]] st_reqs 1 []; ENotify "/s/0" Running []; ENotify "/s/0" Running [];
   ENotify "/s/0" Completed st_fls; ENotify "/s/0" Completed []].

Lemma st_names : forall l1 l2, In l1 st_locs -> In l2 st_locs -> lv_name l1 = lv_name l2 -> l1 = l2.
Proof. intros l1 l2 [H1|[H1|[]]] [H2|[H2|[]]]; subst; simpl; intros H; try reflexivity; discriminate. Qed.
Lemma wfr_host_cap : wfr host_cap.
Proof. split; [split; [discriminate|intros d [H|[]]; subst; simpl; lia]|simpl; lia]. Qed.
Lemma st_caps : forall l cap, In l st_locs -> lv_cap l = Some cap -> wfr cap /\ In "/" (mounts cap).
Proof.
  intros l cap [H|[H|[]]] Hc; subst; simpl in Hc; inversion Hc; subst.
  - split; [apply wfr_plain_cap|left; reflexivity].
  - split; [apply wfr_host_cap|left; reflexivity].
Qed.
Lemma wfr_st_rq : wfr st_rq.
Proof. split; [split; [discriminate|intros d [H|[]]; subst; simpl; lia]|simpl; lia]. Qed.

Lemma coherent_nil rs : coherent rs [].
Proof. intros r rq []. Qed.

Lemma st_conformant : conformant2 st_locs init (fun _ => []) st_history.
Proof.
  unfold st_history. cbn [conformant2].
  split; [split; [reflexivity|split; [simpl; lia|split]]|].
  { intros c [Hc|[]]. subst. split; [discriminate|]. split.
    - intros l [Hl|[Hl|[]]]; subst; (split; [simpl; auto|vm_compute; discriminate]).
    - simpl. constructor; [intros [H|[]]; discriminate|constructor; [intros []|constructor]]. }
  { intros k h [Hi|[Hi|[]]]; inversion Hi; subst; apply wfr_st_rq. }
  split; [reflexivity|].
  remember (gstepR init (EAttempt "/s/0" [[st_outer; st_inner]] st_reqs 1 []) (fun _ => [])) as R1 eqn:ER1.
  assert (HR1 : R1 "/s/0" = [("c0", st_rq); ("h0", st_rq)]) by (rewrite ER1; vm_compute; reflexivity).
  clear ER1.
  vm_compute step. cbv iota beta.
  (* RUNNING twice: nothing released, no release trace *)
  split; [exact I|]. split; [simpl; split; [reflexivity|split; [discriminate|]]; rewrite HR1; apply coherent_nil|].
  cbn [gstepR]. vm_compute step. cbv iota beta.
  split; [exact I|]. split; [simpl; split; [reflexivity|split; [discriminate|]]; rewrite HR1; apply coherent_nil|].
  cbn [gstepR]. vm_compute step. cbv iota beta.
  (* COMPLETED: both levels released coherently *)
  split; [exact I|]. split.
  { simpl. split; [discriminate|split; [discriminate|]]. rewrite HR1.
    match goal with |- coherent ?rs ?rl => let v := eval vm_compute in rl in change rl with v end.
    intros r rq [Hr|[Hr|[]]] Hq; subst r; cbn [rl_name rl_jh rl_u] in *;
      (assert (rq = st_rq) by (destruct Hq as [Hq|[Hq|[]]]; inversion Hq; reflexivity)); subst rq;
      (split; [exact (proj1 wfr_st_rq)|]); (split; [reflexivity|]); (split; [auto|]);
      intros m; unfold size_at; cbn [total values stor map snd mount size st_rq]; destruct (String.eqb "/" m); lia. }
  cbn [gstepR]. vm_compute step. cbv iota beta.
  (* COMPLETED again *)
  split; [exact I|]. split; [simpl; split; [discriminate|split; [discriminate|]]; rewrite HR1; apply coherent_nil|].
  cbn [gstepR]. vm_compute step. cbv iota beta. exact I.
Qed.

(* ------------------------------------------------------------------ a continuation of two phases (C12_eventually) *)
From Coq Require Import Permutation.
From SF Require Import Sched.Eventually.
Definition ev_reqs1 : list (string * hw) := [("d0/n0", mkhw 3 1 root0)].
Definition ev_w : event := EAttempt "/s/1" [[ex_level]] ev_reqs1 1 [].
Definition ev_pre : list event := [EAttempt "/s/0" [[ex_level]] plain_reqs 1 []; ev_w].      (* /s/1 waits: 2 of 4 cores free *)
Definition ev_fl1 : list free_level := [mkfl None [("n0", Some [("/", 0)])]].
Definition ev_H : list event :=
  ENotify "/s/0" Failed (plain_free 3) :: [ev_w] ++ (ENotify "/s/1" Completed ev_fl1 :: [] ++ []).

Lemma ev_conformant : conformant hw_locs init (ev_pre ++ ev_H).
Proof.
  unfold ev_pre, ev_H, ev_w. cbn [app conformant].
  split; [split; [reflexivity|split; [simpl; lia|split]]|].
  { intros c [Hc|[]]. subst. exists ex_level. split; [reflexivity|left; reflexivity]. }
  { intros k h [Hi|[]]. inversion Hi. subst. split; [split; [discriminate|intros d [Hd|[]]; subst; simpl; lia]|simpl; lia]. }
  split; [reflexivity|]. vm_compute step. cbv iota beta.
  split; [split; [reflexivity|split; [simpl; lia|split]]|].
  { intros c [Hc|[]]. subst. exists ex_level. split; [reflexivity|left; reflexivity]. }
  { intros k h [Hi|[]]. inversion Hi. subst. apply wfr_small; lia. }
  split; [reflexivity|]. vm_compute step. cbv iota beta.
  (* /s/0 FIREABLE -> FAILED, du 3 of 6 *)
  split; [intros fl rest Hf; inversion Hf; reflexivity|].
  split.
  { simpl. split; [discriminate|split; [discriminate|]]. intros fl rest nm jh1 u Hf Hloc Hn Hu m.
    inversion Hf. subst fl rest. vm_compute in Hloc. inversion Hloc. subst nm.
    vm_compute in Hn. inversion Hn. subst jh1. vm_compute in Hu. inversion Hu. subst u.
    unfold size_at. cbn [total values stor map snd mount size]. destruct (String.eqb "/" m); lia. }
  vm_compute step. cbv iota beta.
  (* the round: /s/1 is granted *)
  split; [split; [reflexivity|split; [simpl; lia|split]]|].
  { intros c [Hc|[]]. subst. exists ex_level. split; [reflexivity|left; reflexivity]. }
  { intros k h [Hi|[]]. inversion Hi. subst. apply wfr_small; lia. }
  split; [reflexivity|]. vm_compute step. cbv iota beta.
  (* /s/1 COMPLETED *)
  split; [intros fl rest Hf; inversion Hf; reflexivity|].
  split.
  { simpl. split; [discriminate|split; [discriminate|]]. intros fl rest nm jh1 u Hf Hloc Hn Hu m.
    inversion Hf. subst fl rest. vm_compute in Hloc. inversion Hloc. subst nm.
    vm_compute in Hn. inversion Hn. subst jh1. vm_compute in Hu. inversion Hu. subst u.
    unfold size_at. cbn [total values stor map snd mount size]. destruct (String.eqb "/" m); lia. }
  vm_compute step. cbv iota beta. exact I.
Qed.

Lemma ev_phases : exists st st', run init ev_pre = Ok st /\ phases_seq st [ev_w] ev_H st' [] 2 /\ nact st' = 0 /\ nact st = 1.
Proof.
  eexists. eexists. split; [vm_compute; reflexivity|]. split.
  { unfold ev_H. eapply (ps_cons _ _ "/s/0" Failed (plain_free 3) [ev_w]).
    - split; [vm_compute; reflexivity|]. split; [reflexivity|]. split; [apply Permutation_refl|].
      eexists. split; vm_compute; reflexivity.
    - eapply (ps_cons _ _ "/s/1" Completed ev_fl1 []).
      + split; [vm_compute; reflexivity|]. split; [reflexivity|]. split; [apply Permutation_refl|].
        eexists. split; vm_compute; reflexivity.
      + apply ps_nil. }
  split; vm_compute; reflexivity.
Qed.

(* ------------------------------------------------------------------ an execution of the wake LTS (Sched/Wake.v) *)
From SF Require Import Sched.Wake.
Definition wk_w0 : waiter := mkwaiter "/s/0" [[ex_level]] plain_reqs 1 [].
Definition wk_w9 : waiter := mkwaiter "/s/9" [[ex_level]] big_reqs 1 [].
Definition wk_prog (t : nat) : kind :=
  match t with 0%nat => KReq wk_w0 | 1%nat => KReq wk_w9 | 2%nat => KNot "/s/0" Completed (plain_free 3) | _ => KNot "" Waiting [] end.
(* /s/0 is granted; /s/9 (9 cores) is evaluated and parks; /s/0 COMPLETED: notify_all wakes /s/9, which re-evaluates and parks again *)
Definition wk_run : list act := [AArrive 0; AStep 0; AArrive 1; AStep 1; AArrive 2; AStep 2; AStep 1].
Definition wk_hist : list event :=
  [ev_of wk_w0; ev_of wk_w9; ENotify "/s/0" Completed (plain_free 3); ev_of wk_w9].

Lemma wk_conformant : conformant hw_locs init wk_hist.
Proof.
  unfold wk_hist, ev_of, wk_w0, wk_w9. cbn [w_job w_cands w_reqs w_n w_chosen conformant].
  split; [split; [reflexivity|split; [simpl; lia|split]]|].
  { intros c [Hc|[]]. subst. exists ex_level. split; [reflexivity|left; reflexivity]. }
  { intros k h [Hi|[]]. inversion Hi. subst. split; [split; [discriminate|intros d [Hd|[]]; subst; simpl; lia]|simpl; lia]. }
  split; [reflexivity|]. vm_compute step. cbv iota beta.
  split; [split; [reflexivity|split; [simpl; lia|split]]|].
  { intros c [Hc|[]]. subst. exists ex_level. split; [reflexivity|left; reflexivity]. }
  { intros k h [Hi|[]]. inversion Hi. subst. apply wfr_small; lia. }
  split; [reflexivity|]. vm_compute step. cbv iota beta.
  split; [intros fl rest Hf; inversion Hf; reflexivity|].
  split.
  { simpl. split; [discriminate|split; [discriminate|]]. intros fl rest nm jh1 u Hf Hloc Hn Hu m.
    inversion Hf. subst fl rest. vm_compute in Hloc. inversion Hloc. subst nm.
    vm_compute in Hn. inversion Hn. subst jh1. vm_compute in Hu. inversion Hu. subst u.
    unfold size_at. cbn [total values stor map snd mount size]. destruct (String.eqb "/" m); lia. }
  vm_compute step. cbv iota beta.
  split; [split; [reflexivity|split; [simpl; lia|split]]|].
  { intros c [Hc|[]]. subst. exists ex_level. split; [reflexivity|left; reflexivity]. }
  { intros k h [Hi|[]]. inversion Hi. subst. apply wfr_small; lia. }
  split; [reflexivity|]. vm_compute step. cbv iota beta. exact I.
Qed.

Lemma wk_execution : exists c, execs wk_prog c0 wk_run = Some c /\ quiescent c /\ pcs c 1%nat = PWaiting /\
  waitq c = [1%nat] /\ gpre c ++ ground c = wk_hist.
Proof.
  eexists. split; [vm_compute; reflexivity|]. split; [|vm_compute; auto].
  intros t. destruct t as [|[|[|t]]]; vm_compute; auto.
Qed.

(* ------------------------------------------------------------------ the wake LTS on a stacked chain *)
From SF Require Import Sched.WakeStacked.
Definition sk_big : list (string * hw) := [("d0/c0", mkhw 9 1 root0); ("host/h0", mkhw 9 1 root0)].
Definition sk_w0 : waiter := mkwaiter "/s/0" [[st_outer; st_inner]] st_reqs 1 [].
Definition sk_w9 : waiter := mkwaiter "/s/9" [[st_outer; st_inner]] sk_big 1 [].
Definition sk_prog (t : nat) : kind :=
  match t with 0%nat => KReq sk_w0 | 1%nat => KReq sk_w9 | 2%nat => KNot "/s/0" Completed st_fls | _ => KNot "" Waiting [] end.
Definition sk_run : list act := [AArrive 0; AStep 0; AArrive 1; AStep 1; AArrive 2; AStep 2; AStep 1].
Definition sk_hist : list event := [ev_of sk_w0; ev_of sk_w9; ENotify "/s/0" Completed st_fls; ev_of sk_w9].

Ltac eval_attempt :=
  match goal with |- context [attempt ?a ?b ?c ?d ?e ?f] =>
    let v := eval vm_compute in (attempt a b c d e f) in change (attempt a b c d e f) with v end.

Lemma sk_conformant : conformant2 st_locs init (fun _ => []) sk_hist.
Proof.
  unfold sk_hist, ev_of, sk_w0, sk_w9. cbn [w_job w_cands w_reqs w_n w_chosen conformant2].
  assert (Hcands : forall reqs : list (string * hw), (forall l, In l [st_outer; st_inner] -> lookup (req_key l) reqs <> None) ->
            forall c, In c [[st_outer; st_inner]] ->
            c <> [] /\ (forall l, In l c -> In l st_locs /\ lookup (req_key l) reqs <> None) /\ NoDup (names c)).
  { intros reqs Hr c [Hc|[]]. subst. split; [discriminate|]. split.
    - intros l Hl. split; [exact Hl|apply Hr; exact Hl].
    - simpl. constructor; [intros [H|[]]; discriminate|constructor; [intros []|constructor]]. }
  split; [split; [reflexivity|split; [simpl; lia|split]]|].
  { apply Hcands. intros l [Hl|[Hl|[]]]; subst; vm_compute; discriminate. }
  { intros k h [Hi|[Hi|[]]]; inversion Hi; subst; apply wfr_st_rq. }
  split; [reflexivity|].
  remember (gstepR init (EAttempt "/s/0" [[st_outer; st_inner]] st_reqs 1 []) (fun _ => [])) as R1 eqn:ER1.
  assert (HR1 : R1 "/s/0" = [("c0", st_rq); ("h0", st_rq)]) by (rewrite ER1; vm_compute; reflexivity).
  clear ER1. vm_compute step. cbv iota beta.
  (* /s/9: 9 cores, waits *)
  split; [split; [reflexivity|split; [simpl; lia|split]]|].
  { apply Hcands. intros l [Hl|[Hl|[]]]; subst; vm_compute; discriminate. }
  { intros k h [Hi|[Hi|[]]]; inversion Hi; subst; apply wfr_small; lia. }
  split; [reflexivity|].
  vm_compute step. cbv iota beta.
  match goal with |- context [gstepR ?s ?e R1] =>
    assert (E2 : gstepR s e R1 = R1) by (unfold gstepR; eval_attempt; reflexivity); rewrite E2; clear E2 end.
  (* /s/0 FIREABLE -> COMPLETED, both levels released coherently *)
  split; [exact I|]. split.
  { simpl. split; [discriminate|split; [discriminate|]]. rewrite HR1.
    match goal with |- coherent ?rs ?rl => let v := eval vm_compute in rl in change rl with v end.
    intros r rq [Hr|[Hr|[]]] Hq; subst r; cbn [rl_name rl_jh rl_u] in *;
      (assert (rq = st_rq) by (destruct Hq as [Hq|[Hq|[]]]; inversion Hq; reflexivity)); subst rq;
      (split; [exact (proj1 wfr_st_rq)|]); (split; [reflexivity|]); (split; [auto|]);
      intros m; unfold size_at; cbn [total values stor map snd mount size st_rq]; destruct (String.eqb "/" m); lia. }
  cbn [gstepR]. vm_compute step. cbv iota beta.
  (* /s/9 re-evaluated after the wake-up: still waits *)
  split; [split; [reflexivity|split; [simpl; lia|split]]|].
  { apply Hcands. intros l [Hl|[Hl|[]]]; subst; vm_compute; discriminate. }
  { intros k h [Hi|[Hi|[]]]; inversion Hi; subst; apply wfr_small; lia. }
  split; [reflexivity|]. vm_compute step. cbv iota beta. exact I.
Qed.

Lemma sk_execution : exists c, execs sk_prog c0 sk_run = Some c /\ quiescent c /\ pcs c 1%nat = PWaiting /\
  waitq c = [1%nat] /\ gpre c ++ ground c = sk_hist.
Proof.
  eexists. split; [vm_compute; reflexivity|]. split; [|vm_compute; auto].
  intros t. destruct t as [|[|[|t]]]; vm_compute; auto.
Qed.
