(* Sched/Proofs.v — lemmas about Sched/Model.v (C10, C11, C12). *)
From Coq Require Import List Bool ZArith NArith Lia.
From SF Require Import Base.Str Hardware.Model Hardware.Proofs Sched.Model.
Import ListNotations.
Local Open Scope string_scope. Local Open Scope list_scope.

Definition is_active (s : status) : bool := match s with Fireable | Running => true | _ => false end.

(* ------------------------------------------------------------------ release condition (C11) *)
Lemma releases_spec prev new :
  releases prev new = true <->
  (prev = Running /\ new <> Running) \/ (prev = Fireable /\ new <> Fireable /\ new <> Running).
Proof.
  unfold releases. destruct prev, new; simpl; split; intros H;
    try discriminate; try reflexivity;
    try (left; split; [reflexivity|discriminate]);
    try (right; split; [reflexivity|split; discriminate]);
    destruct H as [[H1 H2]|[H1 [H2 H3]]]; try discriminate; congruence.
Qed.

Lemma releases_same s : releases s s = false.
Proof. destruct s; reflexivity. Qed.

Lemma releases_only_active prev new : releases prev new = true -> is_active prev = true.
Proof. destruct prev, new; simpl; intros H; try discriminate; reflexivity. Qed.

(* leaving {Fireable, Running} always releases; staying inside it (Fireable -> Running) does not *)
Lemma leaving_active_releases prev new :
  is_active prev = true -> is_active new = false -> releases prev new = true.
Proof. destruct prev, new; simpl; intros H1 H2; try discriminate; reflexivity. Qed.
Lemma fireable_to_running_keeps : releases Fireable Running = false.
Proof. reflexivity. Qed.

(* ------------------------------------------------------------------ attempts (C10, C12) *)
Lemma valid_locations_spec st reqs job cs : forall v,
  valid_locations st reqs job cs = Ok v ->
  forall c, In c v -> In c cs /\ is_valid st reqs job c = Ok true.
Proof.
  induction cs as [|c0 cs IH]; simpl; intros v H c Hc.
  - inversion H. subst. contradiction.
  - destruct (is_valid st reqs job c0) as [b|] eqn:E0; simpl in H; [|discriminate].
    destruct (valid_locations st reqs job cs) as [r|] eqn:Er; simpl in H; [|discriminate].
    inversion H. subst. clear H. destruct b.
    + destruct Hc as [Hc|Hc].
      * subst. split; [left; reflexivity|exact E0].
      * destruct (IH r eq_refl c Hc). split; [right; assumption|assumption].
    + destruct (IH r eq_refl c Hc). split; [right; assumption|assumption].
Qed.

Lemma valid_locations_complete st reqs job cs : forall v,
  valid_locations st reqs job cs = Ok v ->
  forall c, In c cs -> is_valid st reqs job c = Ok true -> In c v.
Proof.
  induction cs as [|c0 cs IH]; simpl; intros v H c Hc Hv; [contradiction|].
  destruct (is_valid st reqs job c0) as [b|] eqn:E0; simpl in H; [|discriminate].
  destruct (valid_locations st reqs job cs) as [r|] eqn:Er; simpl in H; [|discriminate].
  inversion H. subst. clear H. destruct Hc as [Hc|Hc].
  - subst. rewrite Hv in E0. inversion E0. subst. left. reflexivity.
  - specialize (IH r eq_refl c Hc Hv). destruct b; [right|]; exact IH.
Qed.

Lemma pick_in v names c : In c (pick v names) -> In c v.
Proof.
  unfold pick. intros H. apply in_flat_map in H. destruct H as (nm & _ & H).
  destruct (find (fun c0 => String.eqb (chain_name c0) nm) v) eqn:E; [|contradiction].
  destruct H as [H|[]]. subst. apply find_some in E. apply E.
Qed.

(* an evaluation allocates only locations that passed the validity check, at every stacked level, in the
   state in which the evaluation started *)
Theorem attempt_allocates_valid st job cands reqs n chosen s' vn :
  attempt st job cands reqs n chosen = Ok (s', vn, true) ->
  exists sel, sel <> [] /\ allocate st job reqs sel = Ok s' /\
    forall c, In c sel -> In c cands /\ is_valid st reqs job c = Ok true.
Proof.
  unfold attempt. destruct (valid_locations st reqs job cands) as [v|] eqn:Ev; simpl; [|discriminate].
  destruct (Nat.leb n (length v)); [|intros H; inversion H].
  set (sel := if Nat.eqb (length v) n then v else pick v chosen).
  assert (Hsel : forall c, In c sel -> In c v).
  { intros c Hc. unfold sel in Hc. destruct (Nat.eqb (length v) n); [exact Hc|]. eapply pick_in. exact Hc. }
  destruct sel as [|c0 sel'] eqn:Es; [intros H; inversion H|].
  destruct (allocate st job reqs (c0 :: sel')) as [s|] eqn:Ea; simpl; [|discriminate].
  intros H. inversion H. subst. exists (c0 :: sel'). split; [discriminate|]. split; [exact Ea|].
  intros c Hc. apply (valid_locations_spec _ _ _ _ _ Ev). apply Hsel. exact Hc.
Qed.

(* an evaluation that does not allocate changes nothing *)
Theorem attempt_fail_unchanged st job cands reqs n chosen s' vn :
  attempt st job cands reqs n chosen = Ok (s', vn, false) -> s' = st.
Proof.
  unfold attempt. destruct (valid_locations st reqs job cands) as [v|]; simpl; [|discriminate].
  destruct (Nat.leb n (length v)); [|intros H; inversion H; reflexivity].
  destruct (if Nat.eqb (length v) n then v else pick v chosen) as [|c0 sel'].
  - intros H. inversion H. reflexivity.
  - destruct (allocate st job reqs (c0 :: sel')); simpl; intros H; inversion H.
Qed.

(* when exactly n >= 1 locations are valid the request is granted whatever the policy says
   (or the allocation itself raises, which C14 excludes for well-formed hardware) *)
Theorem attempt_grants_when_exact st job cands reqs n chosen v :
  valid_locations st reqs job cands = Ok v -> length v = n -> n <> 0%nat ->
  (exists s', attempt st job cands reqs n chosen = Ok (s', map chain_name v, true) /\ allocate st job reqs v = Ok s')
  \/ (exists e, attempt st job cands reqs n chosen = Err e /\ allocate st job reqs v = Err e).
Proof.
  intros Ev Hl Hn. unfold attempt. rewrite Ev. simpl. rewrite Hl, Nat.leb_refl, Nat.eqb_refl.
  destruct v as [|c0 v']; [simpl in Hl; congruence|].
  destruct (allocate st job reqs (c0 :: v')) as [s|e]; simpl.
  - left. exists s. split; reflexivity.
  - right. exists e. split; reflexivity.
Qed.

(* no valid location, or fewer than asked for: the request is not granted *)
Theorem attempt_waits_when_short st job cands reqs n chosen v :
  valid_locations st reqs job cands = Ok v -> (length v < n)%nat ->
  attempt st job cands reqs n chosen = Ok (st, map chain_name v, false).
Proof.
  intros Ev Hl. unfold attempt. rewrite Ev. simpl.
  destruct (Nat.leb_spec n (length v)); [lia|reflexivity].
Qed.

(* slot levels: valid exactly when fewer jobs count as running than there are slots *)
Theorem slot_level_valid st reqs job l :
  lv_cap l = None ->
  level_valid st reqs job l =
  Ok (N.ltb (N.of_nat (length (running_jobs st job l))) (match lv_slots l with Some s => s | None => 1%N end)).
Proof. intros H. unfold level_valid. rewrite H. reflexivity. Qed.

(* ------------------------------------------------------------------ capacity levels (C10) *)
Local Open Scope Z_scope.

Lemma wf_default : wf default_hw.
Proof. split; [discriminate|]. intros d [H|[]]. subst. simpl. lia. Qed.

Lemma size_at_notin a m : ~ In m (mounts a) -> size_at a m = 0.
Proof. unfold size_at, mounts. apply total_notin. Qed.

Lemma forallb_false_exists {A} (f : A -> bool) l : forallb f l = false -> exists x, In x l /\ f x = false.
Proof.
  induction l as [|a l IH]; simpl; [discriminate|].
  destruct (f a) eqn:E; simpl; intros H.
  - destruct (IH H) as (x & Hx & Hf). exists x. split; [right; exact Hx|exact Hf].
  - exists a. split; [left; reflexivity|exact E].
Qed.

(* what a successful validity check of a level with declared hardware means, when the ledger of the
   location is within its capacity: ledger + requirement fits, on cores, memory and every mount point *)
Theorem cap_level_valid_fits st reqs job l cap rq cur :
  lv_cap l = Some cap -> lookup (req_key l) reqs = Some rq ->
  cur = (match lookup (lv_name l) (hwloc st) with Some h => h | None => default_hw end) ->
  wf cap -> wf cur -> wf rq ->
  (forall m, In m (mounts cur) -> In m (mounts cap)) -> (forall m, size_at cur m <= size_at cap m) ->
  level_valid st reqs job l = Ok true ->
  cores cur + cores rq <= cores cap /\ mem cur + mem rq <= mem cap /\
  forall m, In m (mounts rq) -> In m (mounts cap) /\ size_at cur m + size_at rq m <= size_at cap m.
Proof.
  intros Hc Hr Hcur Wc Wu Wr Hm Hs. unfold level_valid. rewrite Hc, Hr, <- Hcur.
  destruct (hw_sub_spec cap cur Wc Wu Hm Hs) as (free & Ef & Wf & _ & _ & Fc & Fm & Fs & Fmt).
  rewrite Ef. simpl. intros Hsat.
  destruct (satisfies_spec free rq Wf Wr) as [S1 S2].
  destruct (forallb (fun m => mem_str m (mounts free)) (mounts rq)) eqn:Ein.
  - assert (Hin : forall m, In m (mounts rq) -> In m (mounts free)).
    { intros m Hi. apply mem_str_in. rewrite forallb_forall in Ein. apply Ein. exact Hi. }
    destruct (S1 Hin) as (b & Eb & Hb). rewrite Eb in Hsat. inversion Hsat. subst.
    destruct Hb as [Hb _]. destruct (Hb eq_refl) as (H1 & H2 & H3).
    split; [lia|]. split; [lia|]. intros m Hi. split; [apply Fmt; apply Hin; exact Hi|].
    specialize (H3 m Hi). rewrite Fs in H3. lia.
  - destruct (forallb_false_exists _ _ Ein) as (m & Hi & Hf).
    assert (Hn : ~ In m (mounts free)).
    { intros H. apply mem_str_in in H. congruence. }
    rewrite (S2 (ex_intro _ m (conj Hi Hn))) in Hsat.
    destruct ((cores rq <=? cores free) && (mem rq <=? mem free)); discriminate.
Qed.

(* hence the ledger after reserving on that level is again within the capacity *)
Theorem cap_level_reserve_within st reqs job l cap rq cur :
  lv_cap l = Some cap -> lookup (req_key l) reqs = Some rq ->
  cur = (match lookup (lv_name l) (hwloc st) with Some h => h | None => default_hw end) ->
  wf cap -> wf cur -> wf rq ->
  (forall m, In m (mounts cur) -> In m (mounts cap)) -> (forall m, size_at cur m <= size_at cap m) ->
  cores cur <= cores cap -> mem cur <= mem cap ->
  level_valid st reqs job l = Ok true ->
  exists h, hw_add cur rq = Ok h /\ wf h /\
    cores h = cores cur + cores rq /\ mem h = mem cur + mem rq /\
    (forall m, size_at h m = size_at cur m + size_at rq m) /\
    cores h <= cores cap /\ mem h <= mem cap /\
    (forall m, size_at h m <= size_at cap m) /\ (forall m, In m (mounts h) -> In m (mounts cap)).
Proof.
  intros Hc Hr Hcur Wc Wu Wr Hm Hs Hcc Hcm Hv.
  destruct (cap_level_valid_fits st reqs job l cap rq cur Hc Hr Hcur Wc Wu Wr Hm Hs Hv) as (F1 & F2 & F3).
  destruct (hw_add_spec cur rq Wu Wr) as (h & Eh & Wh & _ & _ & A1 & A2 & A3 & A4).
  exists h. split; [exact Eh|]. split; [exact Wh|]. split; [exact A1|]. split; [exact A2|]. split; [exact A3|].
  split; [lia|]. split; [lia|]. split.
  - intros m. rewrite A3. destruct (in_dec string_dec m (mounts rq)) as [Hi|Hi].
    + apply F3. exact Hi.
    + rewrite (size_at_notin rq m Hi). specialize (Hs m). lia.
  - intros m Hi. apply A4 in Hi. destruct Hi as [Hi|Hi]; [apply Hm; exact Hi|apply F3; exact Hi].
Qed.

(* ------------------------------------------------------------------ release arithmetic (C11) *)
(* what _allocate_job adds and _free_resources later subtracts and adds: (base + rq) - jh + usage, where jh
   is the job hardware (rq itself, or its normal form): cores and memory return to base, storage keeps
   base + measured usage, per mount point; none of the operations raises *)
Theorem free_after_reserve base rq jh u :
  wf base -> wf rq -> wf u -> (jh = rq \/ normalized rq = Ok jh) ->
  exists s d r, hw_add base rq = Ok s /\ hw_sub s jh = Ok d /\ hw_add d u = Ok r /\
    cores r = cores base + cores u /\ mem r = mem base + mem u /\
    forall m, size_at r m = size_at base m + size_at u m.
Proof.
  intros Wb Wr Wu Hj.
  assert (J : wf jh /\ cores jh = cores rq /\ mem jh = mem rq /\ (forall m, size_at jh m = size_at rq m) /\
              (forall m, In m (mounts jh) <-> In m (mounts rq))).
  { destruct Hj as [Hj|Hj].
    - subst. repeat split; auto; try apply Wr; tauto.
    - destruct (norm_spec rq Wr) as (n & En & Wn & _ & _ & _ & N1 & N2 & N3 & N4).
      rewrite En in Hj. inversion Hj. subst. auto. }
  destruct J as (Wj & J1 & J2 & J3 & J4).
  destruct (hw_add_spec base rq Wb Wr) as (s & Es & Ws & _ & _ & S1 & S2 & S3 & S4).
  destruct (hw_sub_spec s jh Ws Wj) as (d & Ed & Wd & _ & _ & D1 & D2 & D3 & _).
  { intros m Hi. apply S4. right. apply J4. exact Hi. }
  { intros m. rewrite S3, J3. destruct Wb as [_ Wb]. pose proof (total_nonneg _ m Wb). unfold size_at. lia. }
  destruct (hw_add_spec d u Wd Wu) as (r & Er & _ & _ & _ & R1 & R2 & R3 & _).
  exists s, d, r. split; [exact Es|]. split; [exact Ed|]. split; [exact Er|].
  split; [lia|]. split; [lia|]. intros m. rewrite R3, D3, S3, J3. lia.
Qed.

(* ------------------------------------------------------------------ the model performs exactly these operations *)
Lemma lookup_replace_same {V} k (v : V) m : lookup k m <> None -> lookup k (replace k v m) = Some v.
Proof.
  induction m as [|[k' v'] m IH]; simpl; [congruence|].
  destruct (String.eqb_spec k k') as [E|E]; simpl.
  - subst. rewrite String.eqb_refl. reflexivity.
  - destruct (String.eqb_spec k k'); [congruence|]. exact IH.
Qed.
Lemma lookup_app_none {V} k (v : V) m : lookup k m = None -> lookup k (m ++ [(k, v)]) = Some v.
Proof.
  induction m as [|[k' v'] m IH]; simpl; intros H.
  - rewrite String.eqb_refl. reflexivity.
  - destruct (String.eqb k k'); [discriminate|]. apply IH. exact H.
Qed.
Lemma lookup_dset {V} k (v : V) m : lookup k (dset k v m) = Some v.
Proof.
  unfold dset. destruct (lookup k m) eqn:E.
  - apply lookup_replace_same. congruence.
  - apply lookup_app_none. exact E.
Qed.

Theorem reserve_level_ledger job reqs s l rq cur h :
  lookup (req_key l) reqs = Some rq -> lookup (lv_name l) (hwloc s) = Some cur -> hw_add cur rq = Ok h ->
  exists s', reserve_level job reqs (Ok s) l = Ok s' /\ lookup (lv_name l) (hwloc s') = Some h /\ jobs s' = jobs s.
Proof.
  intros Hr Hc Ha. unfold reserve_level. simpl. rewrite Hr, Hc, Ha. simpl.
  eexists. split; [reflexivity|]. simpl. split; [apply lookup_dset|reflexivity].
Qed.

Theorem free_loc_ledger jh usage s nm cur u d r :
  lookup nm (hwloc s) = Some cur ->
  usage_hw jh (match lookup nm usage with Some x => x | None => None end) = Ok u ->
  hw_sub cur jh = Ok d -> hw_add d u = Ok r ->
  exists s', free_loc jh usage (Ok s) nm = Ok s' /\ lookup nm (hwloc s') = Some r /\ jobs s' = jobs s.
Proof.
  intros Hc Hu Hd Hr. unfold free_loc. simpl. rewrite Hc, Hu. simpl. rewrite Hd. simpl. rewrite Hr. simpl.
  eexists. split; [reflexivity|]. simpl. split; [apply lookup_dset|reflexivity].
Qed.

(* ------------------------------------------------------------------ validity = fits the free capacity (C12) *)
Theorem cap_level_valid_iff st reqs job l cap rq cur :
  lv_cap l = Some cap -> lookup (req_key l) reqs = Some rq ->
  cur = (match lookup (lv_name l) (hwloc st) with Some h => h | None => default_hw end) ->
  wf cap -> wf cur -> wf rq ->
  (forall m, In m (mounts cur) -> In m (mounts cap)) -> (forall m, size_at cur m <= size_at cap m) ->
  (level_valid st reqs job l = Ok true <->
   cores cur + cores rq <= cores cap /\ mem cur + mem rq <= mem cap /\
   forall m, In m (mounts rq) -> In m (mounts cap) /\ size_at cur m + size_at rq m <= size_at cap m).
Proof.
  intros Hc Hr Hcur Wc Wu Wr Hm Hs. split.
  - apply cap_level_valid_fits; assumption.
  - intros (F1 & F2 & F3). unfold level_valid. rewrite Hc, Hr, <- Hcur.
    destruct (hw_sub_spec cap cur Wc Wu Hm Hs) as (free & Ef & Wf & _ & _ & Fc & Fm & Fs & Fmt).
    rewrite Ef. simpl.
    destruct (satisfies_spec free rq Wf Wr) as [S1 _].
    destruct S1 as (b & Eb & Hb).
    { intros m Hi. apply Fmt. apply F3. exact Hi. }
    rewrite Eb. f_equal. apply Hb. split; [lia|]. split; [lia|]. intros m Hi. rewrite Fs. destruct (F3 m Hi). lia.
Qed.

(* ------------------------------------------------------------------ one wake-up round (C12) *)
Record waiter := mkwaiter { w_job : string; w_cands : list chain; w_reqs : list (string * hw); w_n : nat;
                            w_chosen : list string }.
Definition try_waiter (st : sstate) (w : waiter) : res (sstate * list string * bool) :=
  attempt st (w_job w) (w_cands w) (w_reqs w) (w_n w) (w_chosen w).
(* after notify_all every waiter re-evaluates its request once, in some order; returns the granted jobs *)
Fixpoint wake_round (st : sstate) (ws : list waiter) : res (sstate * list string) :=
  match ws with
  | [] => Ok (st, [])
  | w :: ws' =>
      r <- try_waiter st w ;;
      p <- wake_round (fst (fst r)) ws' ;;
      Ok (fst p, if snd r then w_job w :: snd p else snd p)
  end.

Theorem wake_round_quiescent ws : forall st st',
  wake_round st ws = Ok (st', []) ->
  st' = st /\ forall w, In w ws -> exists vn, try_waiter st w = Ok (st, vn, false).
Proof.
  induction ws as [|w ws IH]; simpl; intros st st' H.
  - inversion H. split; [reflexivity|intros w []].
  - destruct (try_waiter st w) as [[[s vn] al]|] eqn:Et; simpl in H; [|discriminate].
    destruct (wake_round s ws) as [[s2 g]|] eqn:Ew; simpl in H; [|discriminate].
    destruct al; [inversion H|]. inversion H. subst.
    assert (s = st) by (unfold try_waiter in Et; eapply attempt_fail_unchanged; exact Et). subst s.
    destruct (IH st st' Ew) as [E1 E2]. subst st'. split; [reflexivity|].
    intros w0 [Hw|Hw]; [subst; exists vn; exact Et|apply E2; exact Hw].
Qed.

(* progress of a wake-up round (C12): if some waiter would be granted when evaluated in the state right after the
   notification, the round grants at least one waiter (possibly another one that came first) *)
Theorem wake_round_progress ws st st' g w s1 vn :
  wake_round st ws = Ok (st', g) -> In w ws -> try_waiter st w = Ok (s1, vn, true) -> g <> [].
Proof.
  intros Hr Hw Ht Hg. subst g. destruct (wake_round_quiescent ws st st' Hr) as [_ Hq].
  destruct (Hq w Hw) as (vn' & E). rewrite E in Ht. discriminate.
Qed.

(* every job reported as granted by a round is allocated (fireable) right after its evaluation *)
Lemma wake_round_granted_in ws : forall st st' g,
  wake_round st ws = Ok (st', g) -> forall j, In j g -> exists w, In w ws /\ w_job w = j.
Proof.
  induction ws as [|w ws IH]; simpl; intros st st' g H j Hj.
  - inversion H. subst. contradiction.
  - destruct (try_waiter st w) as [[[s vn] al]|]; simpl in H; [|discriminate].
    destruct (wake_round s ws) as [[s2 g2]|] eqn:Ew; simpl in H; [|discriminate]. inversion H. subst.
    destruct al; simpl in Hj.
    + destruct Hj as [Hj|Hj]; [exists w; auto|]. destruct (IH _ _ _ Ew j Hj) as (w0 & H1 & H2). exists w0. auto.
    + destruct (IH _ _ _ Ew j Hj) as (w0 & H1 & H2). exists w0. auto.
Qed.

Theorem wake_round_progress_exact ws st st' g w v s1 :
  wake_round st ws = Ok (st', g) -> In w ws ->
  valid_locations st (w_reqs w) (w_job w) (w_cands w) = Ok v -> length v = w_n w -> w_n w <> 0%nat ->
  allocate st (w_job w) (w_reqs w) v = Ok s1 -> g <> [].
Proof.
  intros Hr Hw Hv Hl Hn Ha.
  destruct (attempt_grants_when_exact st (w_job w) (w_cands w) (w_reqs w) (w_n w) (w_chosen w) v Hv Hl Hn)
    as [(s' & E & _)|(e & _ & E)].
  - eapply wake_round_progress; eauto.
  - rewrite Ha in E. discriminate.
Qed.
