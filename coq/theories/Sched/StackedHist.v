(* Sched/StackedHist.v — C10_capacity / C11_release over whole histories for stacked chains.
   Domain: one location per allocation; a location is a chain of stacked levels with pairwise distinct names, each
   level in [locs]; the resolver gives a requirement for every level; releases are COHERENT: at every level the
   hardware released (the allocation's own at the first level, the re-bound one below: an input) has the measures of
   the hardware reserved at that level, and du reports no more than it.  Inner levels may be shared by the chains of
   different outer locations: what breaks the property in the shared-inner findings is the incoherence (the doubled
   inner requirement is reserved, the single one released), which is exactly what the _refuted witnesses exhibit. *)
From Coq Require Import List Bool ZArith NArith Lia.
From SF Require Import Base.Str Hardware.Model Hardware.Proofs Sched.Model Sched.Proofs Sched.History Sched.Stacked.
Import ListNotations.
Local Open Scope string_scope. Local Open Scope list_scope. Local Open Scope Z_scope.

Definition rmap := string -> list (string * hw).          (* ghost: job -> [(level name, hardware reserved there)] *)
Definition upd (R : rmap) (j : string) (rs : list (string * hw)) : rmap := fun k => if String.eqb k j then rs else R k.
Definition rget (reqs : list (string * hw)) (l : level) : hw :=
  match lookup (req_key l) reqs with Some r => r | None => default_hw end.
Definition resv (reqs : list (string * hw)) (c : chain) : list (string * hw) := map (fun l => (lv_name l, rget reqs l)) c.

Fixpoint csum (nm : string) (x : meas) (rs : list (string * hw)) : Z :=
  match rs with [] => 0 | (n, r) :: rs' => (if String.eqb n nm then mu r x else 0) + csum nm x rs' end.
Fixpoint gsum (nm : string) (x : meas) (rels : list rel) : Z :=
  match rels with [] => 0 | r :: rels' => (if String.eqb (rl_name r) nm then mu (rl_u r) x else 0) + gsum nm x rels' end.

Lemma csum_notin nm x rs : ~ In nm (map fst rs) -> csum nm x rs = 0.
Proof.
  induction rs as [|[n r] rs IH]; simpl; intros H; [reflexivity|].
  destruct (String.eqb_spec n nm); [exfalso; apply H; left; assumption|]. rewrite IH; [lia|]. intros Hi. apply H. right. exact Hi.
Qed.
Lemma csum_in nm x rs r : NoDup (map fst rs) -> In (nm, r) rs -> csum nm x rs = mu r x.
Proof.
  induction rs as [|[n r0] rs IH]; simpl; intros Hn Hi; [contradiction|]. inversion Hn as [|? ? Hni Hn']. subst.
  destruct Hi as [Hi|Hi].
  - inversion Hi. subst. rewrite String.eqb_refl, csum_notin by exact Hni. lia.
  - destruct (String.eqb_spec n nm) as [E|E].
    + subst. exfalso. apply Hni. change nm with (fst (nm, r)). apply in_map. exact Hi.
    + rewrite IH by assumption. lia.
Qed.
Lemma csum_nonneg nm x rs : (forall n r, In (n, r) rs -> wfr r) -> 0 <= csum nm x rs.
Proof.
  induction rs as [|[n r] rs IH]; simpl; intros H; [lia|].
  assert (0 <= mu r x) by (apply mu_nonneg; apply (H n); left; reflexivity).
  assert (0 <= csum nm x rs) by (apply IH; intros n0 r0 Hi; apply (H n0); right; exact Hi).
  destruct (String.eqb n nm); lia.
Qed.
Lemma gsum_notin nm x rels : ~ In nm (map rl_name rels) -> gsum nm x rels = 0.
Proof.
  induction rels as [|r rels IH]; simpl; intros H; [reflexivity|].
  destruct (String.eqb_spec (rl_name r) nm); [exfalso; apply H; left; assumption|]. rewrite IH; [lia|]. intros Hi. apply H. right. exact Hi.
Qed.
Lemma gsum_in nm x rels r : NoDup (map rl_name rels) -> In r rels -> rl_name r = nm -> gsum nm x rels = mu (rl_u r) x.
Proof.
  induction rels as [|r0 rels IH]; simpl; intros Hn Hi He; [contradiction|]. inversion Hn as [|? ? Hni Hn']. subst.
  destruct Hi as [Hi|Hi].
  - subst. rewrite String.eqb_refl, gsum_notin by exact Hni. lia.
  - destruct (String.eqb_spec (rl_name r0) (rl_name r)) as [E|E].
    + exfalso. apply Hni. rewrite E. apply in_map. exact Hi.
    + rewrite IH by auto. lia.
Qed.

Fixpoint sumk (f : string -> alloc -> Z) (m : list (string * alloc)) : Z :=
  match m with [] => 0 | (k, a) :: m' => f k a + sumk f m' end.
Lemma sumk_app f a b : sumk f (a ++ b) = sumk f a + sumk f b.
Proof. induction a as [|[k v] a IH]; simpl; [reflexivity|]. rewrite IH. lia. Qed.
Lemma sumk_replace f k v m old :
  lookup k m = Some old -> sumk f (replace k v m) = sumk f m - f k old + f k v.
Proof.
  induction m as [|[k0 v0] m IH]; simpl; [discriminate|].
  destruct (String.eqb_spec k k0) as [E|E]; intros H.
  - inversion H. subst. simpl. lia.
  - simpl. rewrite IH by exact H. lia.
Qed.
Lemma sumk_dset f k v m :
  sumk f (dset k v m) = sumk f m - (match lookup k m with Some old => f k old | None => 0 end) + f k v.
Proof.
  unfold dset. destruct (lookup k m) eqn:E; [apply sumk_replace; exact E|]. rewrite sumk_app. simpl. lia.
Qed.
Lemma sumk_ext f g m : (forall k a, In (k, a) m -> f k a = g k a) -> sumk f m = sumk g m.
Proof.
  induction m as [|[k v] m IH]; simpl; intros H; [reflexivity|].
  rewrite (H k v) by (left; reflexivity). rewrite IH; [reflexivity|]. intros k' a' Hi. apply H. right. exact Hi.
Qed.
Lemma sumk_nonneg f m : (forall k a, In (k, a) m -> 0 <= f k a) -> 0 <= sumk f m.
Proof.
  induction m as [|[k v] m IH]; simpl; intros H; [lia|].
  assert (0 <= f k v) by (apply H; left; reflexivity).
  assert (0 <= sumk f m) by (apply IH; intros k' a' Hi; apply H; right; exact Hi). lia.
Qed.
Lemma sumk_ge f m k a : (forall k a, In (k, a) m -> 0 <= f k a) -> In (k, a) m -> f k a <= sumk f m.
Proof.
  induction m as [|[k0 v0] m IH]; simpl; intros H Hi; [contradiction|].
  assert (0 <= f k0 v0) by (apply H; left; reflexivity).
  assert (0 <= sumk f m) by (apply sumk_nonneg; intros k' a' Hi'; apply H; right; exact Hi').
  destruct Hi as [Hi|Hi].
  - inversion Hi. subst. lia.
  - assert (f k a <= sumk f m) by (apply IH; [intros k' a' Hi'; apply H; right; exact Hi'|exact Hi]). lia.
Qed.
Lemma sumk_zero f m : (forall k a, In (k, a) m -> f k a = 0) -> sumk f m = 0.
Proof.
  induction m as [|[k v] m IH]; simpl; intros H; [reflexivity|].
  rewrite (H k v) by (left; reflexivity). rewrite IH; [reflexivity|]. intros k' a' Hi. apply H. right. exact Hi.
Qed.

Definition contrib2 (R : rmap) (nm : string) (x : meas) (j : string) (a : alloc) : Z :=
  if is_active (a_status a) then csum nm x (R j) else 0.
Definition reserved2 (st : sstate) (R : rmap) (nm : string) (x : meas) : Z := sumk (contrib2 R nm x) (jobs st).

(* the chain selected by an evaluation (mirrors [attempt]) *)
Definition sel_chain (st : sstate) (job : string) (cands : list chain) (reqs : list (string * hw)) (n : nat)
                     (chosen : list string) : option chain :=
  match valid_locations st reqs job cands with
  | Ok v => if Nat.leb n (length v) then hd_error (if Nat.eqb (length v) n then v else pick v chosen) else None
  | Err _ => None
  end.

Lemma attempt_single' st job cands reqs chosen s' vn :
  (length chosen <= 1)%nat ->
  attempt st job cands reqs 1 chosen = Ok (s', vn, true) ->
  exists c, sel_chain st job cands reqs 1 chosen = Some c /\ In c cands /\ is_valid st reqs job c = Ok true /\
            allocate st job reqs [c] = Ok s'.
Proof.
  intros Hch. unfold attempt, sel_chain. destruct (valid_locations st reqs job cands) as [v|] eqn:Ev; cbn [bind_res]; [|discriminate].
  destruct (Nat.leb 1 (length v)); [|intros H; inversion H].
  assert (Hsel : (forall c, In c (if Nat.eqb (length v) 1 then v else pick v chosen) -> In c v) /\
                 (length (if Nat.eqb (length v) 1 then v else pick v chosen) <= 1)%nat).
  { destruct (Nat.eqb_spec (length v) 1) as [E|E].
    - split; [auto|lia].
    - split; [intros c Hc; eapply pick_in; exact Hc|]. pose proof (pick_length v chosen). lia. }
  destruct Hsel as [Hin Hlen].
  destruct (if Nat.eqb (length v) 1 then v else pick v chosen) as [|c0 sel']; [intros H; inversion H|].
  destruct sel' as [|c1 sel'']; [|simpl in Hlen; lia].
  destruct (allocate st job reqs [c0]) as [s|] eqn:Ea; cbn [bind_res fst]; [|discriminate].
  intros H. inversion H. subst. exists c0. split; [reflexivity|].
  destruct (valid_locations_spec _ _ _ _ _ Ev c0 (Hin c0 (or_introl eq_refl))) as [H1 H2]. auto.
Qed.

Lemma is_valid_all st reqs job c : is_valid st reqs job c = Ok true -> forall l, In l c -> level_valid st reqs job l = Ok true.
Proof.
  induction c as [|l0 c IH]; simpl; intros H l Hl; [contradiction|].
  destruct (level_valid st reqs job l0) as [b|] eqn:E; simpl in H; [|discriminate]. destruct b; [|discriminate].
  destruct Hl as [Hl|Hl]; [subst; exact E|apply IH; assumption].
Qed.

Section StackedHist.
Variable locs : list level.
Hypothesis locs_names : forall l1 l2, In l1 locs -> In l2 locs -> lv_name l1 = lv_name l2 -> l1 = l2.
Hypothesis locs_caps : forall l cap, In l locs -> lv_cap l = Some cap -> wfr cap /\ In "/" (mounts cap).

Definition ev_ok2 (e : event) : Prop :=
  match e with
  | EAttempt job cands reqs n chosen =>
      n = 1%nat /\ (length chosen <= 1)%nat /\
      (forall c, In c cands -> c <> [] /\ (forall l, In l c -> In l locs /\ lookup (req_key l) reqs <> None) /\ NoDup (names c)) /\
      (forall k h, In (k, h) reqs -> wfr h)
  | ENotify job new fls => True
  end.

(* coherent release: per level, released hardware ~ reserved hardware, du within it *)
Definition coherent (rs : list (string * hw)) (rels : list rel) : Prop :=
  forall r rq, In r rels -> In (rl_name r, rq) rs ->
    wf (rl_jh r) /\ (forall x, mu (rl_jh r) x = mu rq x) /\ (forall m, In m (mounts (rl_jh r)) -> In m (mounts rq)) /\
    (forall m, size_at (rl_u r) m <= size_at (rl_jh r) m).

Definition conf2 (st : sstate) (R : rmap) (e : event) : Prop :=
  match e with
  | EAttempt job _ _ _ _ => job_active st job = false
  | ENotify job new fls =>
      match lookup job (jobs st) with
      | None => True
      | Some a =>
          (new = Running -> is_active (a_status a) = true) /\ (new = Fireable -> a_status a = Fireable) /\
          coherent (R job) (rel_list (map fst (R job)) (a_hw a) fls)
      end
  end.

Definition gstepG (st : sstate) (R : rmap) (e : event) (G : ghost) : ghost :=
  match e with
  | ENotify job new fls =>
      match lookup job (jobs st) with
      | Some a => if releases (a_status a) new
                  then fun n x => G n x + gsum n x (rel_list (map fst (R job)) (a_hw a) fls)
                  else G
      | None => G
      end
  | _ => G
  end.
Definition gstepR (st : sstate) (e : event) (R : rmap) : rmap :=
  match e with
  | EAttempt job cands reqs n chosen =>
      match attempt st job cands reqs n chosen with
      | Ok (_, _, true) => match sel_chain st job cands reqs n chosen with Some c => upd R job (resv reqs c) | None => R end
      | _ => R
      end
  | _ => R
  end.

Definition Inv2 (st : sstate) (G : ghost) (R : rmap) : Prop :=
  NoDup (keys (jobs st)) /\
  (forall j a, In (j, a) (jobs st) -> is_active (a_status a) = true ->
     exists ls, (forall l, In l ls -> In l locs) /\ NoDup (names ls) /\ a_locs a = [pairs ls] /\ map fst (R j) = names ls /\
       hd_error (map snd (R j)) = Some (a_hw a) /\
       forall n r, In (n, r) (R j) -> wfr r /\ exists h, lookup n (hwloc st) = Some h /\ forall m, In m (mounts r) -> In m (mounts h)) /\
  (forall nm h, lookup nm (hwloc st) = Some h -> wf h) /\
  (forall nm x, mu_o (lookup nm (hwloc st)) x = reserved2 st R nm x + G nm x) /\
  (forall nm, G nm MC = 0 /\ G nm MM = 0 /\ forall m, 0 <= G nm (MS m)) /\
  (forall l cap h, In l locs -> lv_cap l = Some cap -> lookup (lv_name l) (hwloc st) = Some h ->
     (forall x, mu h x <= mu cap x) /\ (forall m, In m (mounts h) -> In m (mounts cap))).

Lemma inv2_init : Inv2 init g0 (fun _ => []).
Proof.
  unfold Inv2, init, reserved2. simpl. repeat split; try (intros; contradiction); try (intros; discriminate); try reflexivity; try lia.
  constructor.
Qed.

(* one level: what the ledger becomes and why it stays within capacity *)
Lemma level_reserve_facts st G R reqs job l rq h :
  Inv2 st G R -> In l locs -> wfr rq -> lookup (req_key l) reqs = Some rq ->
  level_valid st reqs job l = Ok true -> ledger_after st (lv_name l) rq = Ok h ->
  wf h /\ (forall x, mu h x = mu_o (lookup (lv_name l) (hwloc st)) x + mu rq x) /\
  (forall m, In m (mounts h) <-> In m (mounts_o (lookup (lv_name l) (hwloc st))) \/ In m (mounts rq)) /\
  (forall cap, lv_cap l = Some cap -> (forall x, mu h x <= mu cap x) /\ (forall m, In m (mounts h) -> In m (mounts cap))).
Proof.
  intros (K & A & L & E & Gz & C) Hl Wj Er Hv Eh. set (name := lv_name l) in *.
  assert (F : wf h /\ (forall x, mu h x = mu_o (lookup name (hwloc st)) x + mu rq x) /\
              (forall m, In m (mounts h) <-> In m (mounts_o (lookup name (hwloc st))) \/ In m (mounts rq))).
  { unfold ledger_after in Eh. destruct (lookup name (hwloc st)) as [cur|] eqn:Ec.
    - destruct (mu_add cur rq (L _ _ Ec) (proj1 Wj)) as (r & Er' & Wr & M1 & M2).
      rewrite Er' in Eh. inversion Eh. subst. simpl. auto.
    - destruct (mu_normalized rq (proj1 Wj)) as (r & Er' & Wr & M1 & M2).
      rewrite Er' in Eh. inversion Eh. subst. simpl. split; [exact Wr|]. split; [intros x; rewrite M1; lia|].
      intros m. rewrite M2. tauto. }
  destruct F as (Wh & Fm & Fmt). split; [exact Wh|]. split; [exact Fm|]. split; [exact Fmt|].
  intros cap2 Hc2. destruct (locs_caps l cap2 Hl Hc2) as [[Wc _] Hroot].
  set (cur := match lookup name (hwloc st) with Some h0 => h0 | None => default_hw end).
  assert (Pc : wf cur /\ (forall m, In m (mounts cur) -> In m (mounts cap2)) /\
               (forall m, size_at cur m <= size_at cap2 m) /\
               (forall x, mu cur x = mu_o (lookup name (hwloc st)) x) /\
               (forall m, In m (mounts_o (lookup name (hwloc st))) -> In m (mounts cap2))).
  { unfold cur. destruct (lookup name (hwloc st)) as [c0|] eqn:Ec.
    - destruct (C l cap2 c0 Hl Hc2 Ec) as [C1 C2]. split; [apply (L _ _ Ec)|]. split; [exact C2|].
      split; [intros m; apply (C1 (MS m))|]. split; [reflexivity|exact C2].
    - split; [apply wf_default|]. split; [intros m [Hm|[]]; subst; exact Hroot|].
      split; [intros m; rewrite size_at_default; apply total_nonneg; apply Wc|].
      split; [intros [| |m]; simpl; try reflexivity; apply size_at_default|intros m []]. }
  destruct Pc as (Wcur & Pm & Ps & Pmu & Pmo).
  destruct (cap_level_valid_fits st reqs job l cap2 rq cur Hc2 Er eq_refl Wc Wcur (proj1 Wj) Pm Ps Hv) as (F1 & F2 & F3).
  split.
  - intros x. rewrite Fm, <- Pmu. destruct x as [| |m]; simpl; try lia.
    destruct (in_dec string_dec m (mounts rq)) as [Hi|Hi].
    + apply F3. exact Hi.
    + rewrite (size_at_notin rq m Hi). specialize (Ps m). lia.
  - intros m Hm. apply Fmt in Hm. destruct Hm as [Hm|Hm]; [apply Pmo; exact Hm|apply F3; exact Hm].
Qed.

Lemma resv_in reqs c n r : In (n, r) (resv reqs c) -> exists l, In l c /\ n = lv_name l /\ r = rget reqs l.
Proof. unfold resv. intros H. apply in_map_iff in H. destruct H as (l & E & Hl). inversion E. exists l. auto. Qed.
Lemma resv_names reqs c : map fst (resv reqs c) = names c.
Proof. unfold resv, names. rewrite map_map. reflexivity. Qed.

Lemma inv2_attempt st G R job cands reqs n chosen st' vn al :
  Inv2 st G R -> ev_ok2 (EAttempt job cands reqs n chosen) -> job_active st job = false ->
  attempt st job cands reqs n chosen = Ok (st', vn, al) ->
  Inv2 st' G (gstepR st (EAttempt job cands reqs n chosen) R).
Proof.
  intros HI (Hn & Hch & Hcands & Hreqs) Hna Hat. unfold gstepR. rewrite Hat.
  destruct al; [|apply attempt_fail_unchanged in Hat; subst; exact HI].
  subst n. destruct (attempt_single' _ _ _ _ _ _ _ Hch Hat) as (c & Esel & Hc & Hv & Hal). rewrite Esel.
  destruct (Hcands c Hc) as (Hne & Hlv & Hnd). destruct c as [|l0 ls]; [congruence|]. clear Hne.
  destruct (allocate_chain _ _ _ _ _ _ Hal Hnd (fun l Hl => proj2 (Hlv l Hl))) as (jh & Er0 & Ej & Hin & Hout).
  pose proof (is_valid_all _ _ _ _ Hv) as Hvl.
  set (c := l0 :: ls) in *. set (R' := upd R job (resv reqs c)).
  (* facts about every level of the chain *)
  assert (Flev : forall l, In l c -> exists h, lookup (lv_name l) (hwloc st') = Some h /\ wfr (rget reqs l) /\
            wf h /\ (forall x, mu h x = mu_o (lookup (lv_name l) (hwloc st)) x + mu (rget reqs l) x) /\
            (forall m, In m (mounts h) <-> In m (mounts_o (lookup (lv_name l) (hwloc st))) \/ In m (mounts (rget reqs l))) /\
            (forall cap, lv_cap l = Some cap -> (forall x, mu h x <= mu cap x) /\ (forall m, In m (mounts h) -> In m (mounts cap)))).
  { intros l Hl. destruct (Hin l Hl) as (rq & h & Er & Eh & Elk). exists h. split; [exact Elk|].
    assert (Wq : wfr rq) by (apply (Hreqs (req_key l)); apply lookup_some_in; exact Er).
    assert (Eg : rget reqs l = rq) by (unfold rget; rewrite Er; reflexivity). rewrite Eg. split; [exact Wq|].
    apply (level_reserve_facts st G R reqs job l rq h HI (proj1 (Hlv l Hl)) Wq Er (Hvl l Hl) Eh). }
  destruct HI as (K & A & L & E & Gz & C).
  assert (HR' : forall j, j <> job -> R' j = R j).
  { intros j Hj. unfold R', upd. destruct (String.eqb_spec j job); [congruence|reflexivity]. }
  assert (HRj : R' job = resv reqs c) by (unfold R', upd; rewrite String.eqb_refl; reflexivity).
  (* the ledger of any location after the allocation *)
  assert (Hled : forall nm, (exists l, In l c /\ lv_name l = nm) \/ (~ In nm (names c) /\ lookup nm (hwloc st') = lookup nm (hwloc st))).
  { intros nm. destruct (in_dec string_dec nm (names c)) as [Hi|Hi].
    - left. unfold names in Hi. apply in_map_iff in Hi. destruct Hi as (l & E1 & E2). exists l. auto.
    - right. split; [exact Hi|apply Hout; exact Hi]. }
  unfold Inv2. rewrite Ej. split; [apply NoDup_keys_dset; exact K|]. split; [|split; [|split; [|split; [exact Gz|]]]].
  - (* A *)
    intros j a Hi Ha. apply in_dset in Hi; [|exact K]. destruct Hi as [[Ej' Ea]|[Hne Hi]].
    + subst j a. exists c. split; [intros l Hl; apply (Hlv l Hl)|]. split; [exact Hnd|]. split; [reflexivity|].
      rewrite HRj. split; [apply resv_names|]. split.
      * unfold resv, c. simpl. unfold rget. rewrite Er0. reflexivity.
      * intros n r Hnr. apply resv_in in Hnr. destruct Hnr as (l & Hl & En & Erq). subst n r.
        destruct (Flev l Hl) as (h & Elk & Wq & _ & _ & Fmt & _). split; [exact Wq|]. exists h. split; [exact Elk|].
        intros m Hm. apply Fmt. right. exact Hm.
    + rewrite (HR' j Hne). destruct (A j a Hi Ha) as (ls0 & H1 & H2 & H3 & H4 & H5 & H6).
      exists ls0. split; [exact H1|]. split; [exact H2|]. split; [exact H3|]. split; [exact H4|]. split; [exact H5|].
      intros n r Hnr. destruct (H6 n r Hnr) as (Wr & h0 & Elk0 & Hm0). split; [exact Wr|].
      destruct (Hled n) as [(l & Hl & En)|[_ Esame]].
      * destruct (Flev l Hl) as (h & Elk & _ & _ & _ & Fmt & _). exists h. rewrite <- En. split; [exact Elk|].
        intros m Hm. apply Fmt. left. rewrite En, Elk0. simpl. apply Hm0. exact Hm.
      * exists h0. rewrite Esame. auto.
  - (* L *)
    intros nm h1 Hlk. destruct (Hled nm) as [(l & Hl & En)|[_ Esame]].
    + destruct (Flev l Hl) as (h & Elk & _ & Wh & _). rewrite <- En, Elk in Hlk. inversion Hlk. subst. exact Wh.
    + rewrite Esame in Hlk. apply (L _ _ Hlk).
  - (* E *)
    intros nm x. unfold reserved2. rewrite Ej, sumk_dset.
    assert (Hold : match lookup job (jobs st) with Some old => contrib2 R' nm x job old | None => 0 end = 0).
    { unfold job_active in Hna. destruct (lookup job (jobs st)) as [old|]; [|reflexivity]. unfold contrib2. rewrite Hna. reflexivity. }
    rewrite Hold.
    assert (Hext : sumk (contrib2 R' nm x) (jobs st) = reserved2 st R nm x).
    { unfold reserved2. apply sumk_ext. intros k a Hi. unfold contrib2.
      destruct (String.eqb_spec k job) as [Ek|Ek]; [|rewrite (HR' k Ek); reflexivity].
      subst k. unfold job_active in Hna. rewrite (in_lookup _ _ _ K Hi) in Hna. rewrite Hna. reflexivity. }
    rewrite Hext. unfold contrib2 at 1. cbn [a_status is_active]. rewrite HRj.
    destruct (Hled nm) as [(l & Hl & En)|[Hni Esame]].
    + destruct (Flev l Hl) as (h & Elk & _ & _ & Fm & _). rewrite <- En, Elk. cbn [mu_o]. rewrite Fm, E.
      rewrite (csum_in _ x _ (rget reqs l)).
      * lia.
      * rewrite resv_names. exact Hnd.
      * unfold resv. apply in_map_iff. exists l. auto.
    + rewrite Esame, E, csum_notin by (rewrite resv_names; exact Hni). lia.
  - (* C *)
    intros l2 cap2 h2 Hl2 Hc2 Hlk2. destruct (Hled (lv_name l2)) as [(l & Hl & En)|[_ Esame]].
    + assert (l = l2) by (apply locs_names; [apply (Hlv l Hl)|exact Hl2|exact En]). subst l2.
      destruct (Flev l Hl) as (h & Elk & _ & _ & _ & _ & Fc). rewrite Elk in Hlk2. inversion Hlk2. subst. apply Fc. exact Hc2.
    + rewrite Esame in Hlk2. apply (C l2 cap2 h2 Hl2 Hc2 Hlk2).
Qed.

Lemma pairs_names ls : map snd (pairs ls) = names ls.
Proof. unfold pairs, names. rewrite map_map. reflexivity. Qed.

Lemma notify_release_chain st job new fls a st' ls :
  lookup job (jobs st) = Some a -> notify st job new fls = Ok st' -> releases (a_status a) new = true ->
  a_locs a = [pairs ls] -> NoDup (names ls) ->
  (forall nm, ~ In nm (names ls) -> lookup nm (hwloc st') = lookup nm (hwloc st)) /\
  map rl_name (rel_list (names ls) (a_hw a) fls) = names ls /\
  (forall r, In r (rel_list (names ls) (a_hw a) fls) ->
     match lookup (rl_name r) (hwloc st) with
     | None => lookup (rl_name r) (hwloc st') = None
     | Some cur => exists dd h, hw_sub cur (rl_jh r) = Ok dd /\ hw_add dd (rl_u r) = Ok h /\
                                lookup (rl_name r) (hwloc st') = Some h
     end).
Proof.
  intros Hl Hno Hrel Hlocs Hnd. unfold notify in Hno. rewrite Hl in Hno. cbn [bind_res] in Hno. rewrite Hrel, Hlocs in Hno.
  rewrite free_levels_is_chain in Hno. cbn [skipn] in Hno. rewrite pairs_names in Hno.
  destruct (free_chain (names ls) (a_hw a) fls _) as [s2|] eqn:Ef; cbn [bind_res] in Hno; [|discriminate].
  assert (Hh : hwloc st' = hwloc s2) by (destruct (status_eqb new Rollback); inversion Hno; reflexivity).
  destruct (free_chain_spec _ _ _ _ _ Ef Hnd) as (_ & _ & Hout & Hnames & Hrels). cbn [hwloc] in Hout, Hrels.
  rewrite Hh. auto.
Qed.

Lemma rel_list_u ns : forall jh fls r, In r (rel_list ns jh fls) ->
  wf (rl_u r) /\ cores (rl_u r) = 0 /\ mem (rl_u r) = 0 /\ (forall m, In m (mounts (rl_u r)) -> In m (mounts (rl_jh r)) \/ m = "/").
Proof.
  induction ns as [|n ns IH]; intros jh fls r; [intros []|]. cbn [rel_list]. destruct fls as [|fl fls]; [intros []|].
  destruct (norm' _) as [jh1|]; [|intros []]. intros [Hr|Hr]; [|apply (IH _ _ _ Hr)]. subst r. cbn [rl_u rl_jh].
  destruct (usage_hw jh1 (fl_usage_at fl n)) as [u|] eqn:Eu.
  - apply (usage_hw_spec _ _ _ Eu).
  - split; [apply wf_default|]. split; [reflexivity|]. split; [reflexivity|]. intros m [Hm|[]]. right. symmetry. exact Hm.
Qed.

Lemma inv2_notify st G R job new fls st' :
  Inv2 st G R -> conf2 st R (ENotify job new fls) ->
  notify st job new fls = Ok st' -> Inv2 st' (gstepG st R (ENotify job new fls) G) R.
Proof.
  intros HI Hconf Hno. simpl in Hconf. unfold gstepG.
  destruct (lookup job (jobs st)) as [a|] eqn:Hl.
  2:{ unfold notify in Hno. rewrite Hl in Hno. inversion Hno. subst. exact HI. }
  destruct Hconf as (Hc1 & Hc2 & Hcoh).
  pose proof (notify_jobs _ _ _ _ _ _ Hl Hno) as Ej.
  destruct (notify_hwloc _ _ _ _ _ _ Hl Hno) as [Hh1 _].
  destruct (status_cases (a_status a) new Hc1 Hc2) as [Hs1 Hs2].
  set (a' := mkalloc new (if status_eqb new Rollback then [] else a_locs a) (a_hw a)) in *.
  rewrite <- (dset_present job a' a _ Hl) in Ej.
  destruct HI as (K & A & L & E & Gz & C).
  pose proof (lookup_some_in _ _ _ Hl) as Hina.
  assert (Hnn : forall nm x k a0, In (k, a0) (jobs st) -> 0 <= contrib2 R nm x k a0).
  { intros nm x k a0 Hi. unfold contrib2. destruct (is_active (a_status a0)) eqn:Ea; [|lia].
    destruct (A k a0 Hi Ea) as (ls0 & _ & _ & _ & _ & _ & H6). apply csum_nonneg. intros n r Hnr. apply (H6 n r Hnr). }
  destruct (releases (a_status a) new) eqn:Erel.
  - destruct (Hs2 eq_refl) as [Hap Han].
    destruct (A job a Hina Hap) as (ls & Hlv & Hnd & Hlocs & Hfst & Hhd & Hrs).
    rewrite Hfst in Hcoh |- *.
    destruct (notify_release_chain _ _ _ _ _ _ ls Hl Hno Erel Hlocs Hnd) as (Hout & Hnames & Hrels).
    set (rels := rel_list (names ls) (a_hw a) fls) in *.
    assert (Hndr : NoDup (map rl_name rels)) by (rewrite Hnames; exact Hnd).
    (* per released level *)
    assert (Flev : forall r, In r rels -> exists rq cur h, In (rl_name r, rq) (R job) /\ lookup (rl_name r) (hwloc st) = Some cur /\
              lookup (rl_name r) (hwloc st') = Some h /\ wf h /\
              (forall x, mu h x = mu cur x - mu rq x + mu (rl_u r) x) /\
              (forall x, mu (rl_u r) x <= mu rq x) /\ (forall x, 0 <= mu (rl_u r) x) /\ mu (rl_u r) MC = 0 /\ mu (rl_u r) MM = 0 /\
              (forall m, In m (mounts cur) -> In m (mounts h)) /\
              (forall m, In m (mounts h) -> In m (mounts cur) \/ m = "/")).
    { intros r Hr.
      assert (Hnm : In (rl_name r) (map fst (R job))) by (rewrite Hfst, <- Hnames; apply in_map; exact Hr).
      apply in_map_iff in Hnm. destruct Hnm as ([n rq] & En & Hnr). simpl in En. subst n.
      destruct (Hrs _ _ Hnr) as (Wq & cur & Ecur & Hmq).
      destruct (Hcoh r rq Hr Hnr) as (Wjh & Mjh & Mtjh & Hus).
      destruct (rel_list_u _ _ _ _ Hr) as (Wu & Uc & Um & Umt).
      specialize (Hrels r Hr). rewrite Ecur in Hrels. destruct Hrels as (dd & h & Ed & Eh & Elk).
      destruct (mu_sub cur (rl_jh r) (L _ _ Ecur) Wjh) as (d0 & Ed0 & Wd & Md & Mtd).
      { intros m Hm. apply Hmq. apply Mtjh. exact Hm. }
      { intros m. specialize (E (rl_name r) (MS m)). rewrite Ecur in E. simpl in E.
        assert (contrib2 R (rl_name r) (MS m) job a <= reserved2 st R (rl_name r) (MS m)).
        { unfold reserved2. apply (sumk_ge _ _ job a); [intros k a0 Hi; apply Hnn; exact Hi|exact Hina]. }
        unfold contrib2 in H. rewrite Hap in H.
        rewrite (csum_in _ _ _ rq) in H by (try (rewrite Hfst; exact Hnd); exact Hnr).
        pose proof (proj2 (proj2 (Gz (rl_name r))) m). specialize (Mjh (MS m)). simpl in Mjh, H. lia. }
      rewrite Ed in Ed0. inversion Ed0. subst d0.
      destruct (mu_add dd (rl_u r) Wd Wu) as (h0 & Eh0 & Wh & Mh & Mth). rewrite Eh in Eh0. inversion Eh0. subst h0.
      exists rq, cur, h. split; [exact Hnr|]. split; [exact Ecur|]. split; [exact Elk|]. split; [exact Wh|].
      split; [intros x; rewrite Mh, Md, Mjh; lia|].
      split.
      { intros x. rewrite <- Mjh. destruct x as [| |m]; simpl.
        - rewrite Uc. pose proof (Mjh MC) as Hx. simpl in Hx. destruct Wq as (_ & Wc & _). lia.
        - rewrite Um. pose proof (Mjh MM) as Hx. simpl in Hx. destruct Wq as (_ & _ & Wm). lia.
        - apply Hus. }
      split; [intros [| |m]; simpl; [lia|lia|apply total_nonneg; apply Wu]|]. split; [exact Uc|]. split; [exact Um|].
      split; [intros m Hm; apply Mth; left; apply Mtd; exact Hm|].
      intros m Hm. apply Mth in Hm. destruct Hm as [Hm|Hm]; [left; apply Mtd; exact Hm|].
      destruct (Umt m Hm) as [Hj|Hj]; [left; apply Hmq; apply Mtjh; exact Hj|right; exact Hj]. }
    assert (Hled : forall nm, (exists r, In r rels /\ rl_name r = nm) \/ (~ In nm (names ls) /\ lookup nm (hwloc st') = lookup nm (hwloc st))).
    { intros nm. destruct (in_dec string_dec nm (names ls)) as [Hi|Hi].
      - left. rewrite <- Hnames in Hi. apply in_map_iff in Hi. destruct Hi as (r & E1 & E2). exists r. auto.
      - right. split; [exact Hi|apply Hout; exact Hi]. }
    assert (Ha'0 : forall nm x, contrib2 R nm x job a' = 0) by (intros; unfold contrib2; change (a_status a') with new; rewrite Han; reflexivity).
    unfold Inv2. rewrite Ej. split; [apply NoDup_keys_dset; exact K|]. split; [|split; [|split; [|split]]].
    + intros j a0 Hi Ha. apply in_dset in Hi; [|exact K]. destruct Hi as [[Ej' Ea]|[Hne Hi]].
      * subst. change (a_status a') with new in Ha. congruence.
      * destruct (A j a0 Hi Ha) as (ls0 & H1 & H2 & H3 & H4 & H5 & H6).
        exists ls0. split; [exact H1|]. split; [exact H2|]. split; [exact H3|]. split; [exact H4|]. split; [exact H5|].
        intros n r0 Hnr. destruct (H6 n r0 Hnr) as (Wr & h0 & Elk0 & Hm0). split; [exact Wr|].
        destruct (Hled n) as [(r & Hr & En)|[_ Esame]].
        -- destruct (Flev r Hr) as (rq & cur & h & _ & Ecur & Elk & _ & _ & _ & _ & _ & _ & Hsub & _).
           exists h. rewrite <- En. split; [exact Elk|]. intros m Hm. apply Hsub. rewrite En in Ecur. rewrite Elk0 in Ecur. inversion Ecur. subst.
           apply Hm0. exact Hm.
        -- exists h0. rewrite Esame. auto.
    + intros nm h1 Hlk. destruct (Hled nm) as [(r & Hr & En)|[_ Esame]].
      * destruct (Flev r Hr) as (rq & cur & h & _ & _ & Elk & Wh & _). rewrite <- En, Elk in Hlk. inversion Hlk. subst. exact Wh.
      * rewrite Esame in Hlk. apply (L _ _ Hlk).
    + intros nm x. unfold reserved2. rewrite Ej, sumk_dset, Hl, Ha'0. fold (reserved2 st R nm x).
      unfold contrib2 at 1. rewrite Hap.
      destruct (Hled nm) as [(r & Hr & En)|[Hni Esame]].
      * destruct (Flev r Hr) as (rq & cur & h & Hnr & Ecur & Elk & _ & Mh & _).
        rewrite (gsum_in nm x rels r Hndr Hr En). rewrite <- En in *. rewrite Elk. cbn [mu_o]. rewrite Mh.
        rewrite (csum_in _ x _ rq) by (try (rewrite Hfst; exact Hnd); exact Hnr).
        specialize (E (rl_name r) x). rewrite Ecur in E. cbn [mu_o] in E. lia.
      * rewrite Esame, E. rewrite csum_notin by (rewrite Hfst; exact Hni).
        rewrite gsum_notin by (rewrite Hnames; exact Hni). lia.
    + intros nm. destruct (Gz nm) as (G1 & G2 & G3).
      destruct (Hled nm) as [(r & Hr & En)|[Hni _]].
      * destruct (Flev r Hr) as (rq & cur & h & _ & _ & _ & _ & _ & _ & Hu0 & Uc & Um & _).
        split; [rewrite (gsum_in nm MC rels r Hndr Hr En); lia|]. split; [rewrite (gsum_in nm MM rels r Hndr Hr En); lia|].
        intros m. rewrite (gsum_in nm (MS m) rels r Hndr Hr En). specialize (G3 m). specialize (Hu0 (MS m)). lia.
      * split; [rewrite gsum_notin by (rewrite Hnames; exact Hni); lia|]. split; [rewrite gsum_notin by (rewrite Hnames; exact Hni); lia|].
        intros m. rewrite gsum_notin by (rewrite Hnames; exact Hni). specialize (G3 m). lia.
    + intros l2 cap2 h2 Hl2 Hcap2 Hlk2. destruct (Hled (lv_name l2)) as [(r & Hr & En)|[_ Esame]].
      * destruct (Flev r Hr) as (rq & cur & h & _ & Ecur & Elk & _ & Mh & Hule & _ & _ & _ & _ & Hsup).
        rewrite En in Ecur, Elk. rewrite Elk in Hlk2. inversion Hlk2. subst h2.
        destruct (C l2 cap2 cur Hl2 Hcap2 Ecur) as [C1 C2]. destruct (locs_caps l2 cap2 Hl2 Hcap2) as [_ Hroot].
        split; [intros x; rewrite Mh; specialize (C1 x); specialize (Hule x); lia|].
        intros m Hm. destruct (Hsup m Hm) as [Hc|Hc]; [apply C2; exact Hc|subst; exact Hroot].
      * rewrite Esame in Hlk2. apply (C l2 cap2 h2 Hl2 Hcap2 Hlk2).
  - specialize (Hh1 eq_refl). specialize (Hs1 eq_refl).
    assert (Hlocs' : is_active new = true -> a_locs a' = a_locs a).
    { intros Hx. unfold a'. simpl. destruct new; simpl in *; try discriminate; reflexivity. }
    assert (Hca : forall nm x, contrib2 R nm x job a' = contrib2 R nm x job a).
    { intros nm x. unfold contrib2. change (a_status a') with new. rewrite Hs1. reflexivity. }
    unfold Inv2. rewrite Ej, Hh1. split; [apply NoDup_keys_dset; exact K|]. split; [|split; [exact L|split; [|split; [exact Gz|exact C]]]].
    + intros j a0 Hi Ha. apply in_dset in Hi; [|exact K]. destruct Hi as [[Ej' Ea]|[Hne Hi]].
      * subst. change (a_status a') with new in Ha. rewrite Hlocs' by exact Ha. apply (A job a Hina). rewrite <- Hs1. exact Ha.
      * apply (A j a0 Hi Ha).
    + intros nm x. unfold reserved2. rewrite Ej, sumk_dset, Hl, Hca. fold (reserved2 st R nm x). rewrite E. lia.
Qed.

(* ------------------------------------------------------------------ histories *)
Fixpoint conformant2 (st : sstate) (R : rmap) (es : list event) : Prop :=
  match es with
  | [] => True
  | e :: es' => ev_ok2 e /\ conf2 st R e /\
                match step st e with Ok s => conformant2 s (gstepR st e R) es' | Err _ => True end
  end.
Fixpoint measured2 (st : sstate) (R : rmap) (es : list event) (G : ghost) : ghost :=
  match es with
  | [] => G
  | e :: es' => match step st e with Ok s => measured2 s (gstepR st e R) es' (gstepG st R e G) | Err _ => G end
  end.
Fixpoint reservations (st : sstate) (R : rmap) (es : list event) : rmap :=
  match es with
  | [] => R
  | e :: es' => match step st e with Ok s => reservations s (gstepR st e R) es' | Err _ => R end
  end.

Lemma inv2_step st G R e st' :
  Inv2 st G R -> ev_ok2 e -> conf2 st R e -> step st e = Ok st' -> Inv2 st' (gstepG st R e G) (gstepR st e R).
Proof.
  intros HI Hok Hc Hs. destruct e as [job cands reqs n chosen|job new fls].
  - simpl in Hs. destruct (attempt st job cands reqs n chosen) as [[[s vn] al]|] eqn:Ea; simpl in Hs; [|discriminate].
    inversion Hs. subst. cbn [gstepG]. eapply inv2_attempt; eauto.
  - simpl in Hs. cbn [gstepR]. apply inv2_notify; assumption.
Qed.

Theorem inv2_run es : forall st G R st',
  Inv2 st G R -> conformant2 st R es -> run st es = Ok st' -> Inv2 st' (measured2 st R es G) (reservations st R es).
Proof.
  induction es as [|e es IH]; simpl; intros st G R st' HI Hc Hr.
  - inversion Hr. subst. exact HI.
  - destruct Hc as (Hok & Hcf & Hrest). destruct (step st e) as [s|] eqn:Es; simpl in Hr; [|discriminate].
    apply (IH s _ _ st' (inv2_step _ _ _ _ _ HI Hok Hcf Es) Hrest Hr).
Qed.

Lemma conformant2_prefix p : forall st R q, conformant2 st R (p ++ q) -> conformant2 st R p.
Proof.
  induction p as [|e p IH]; simpl; intros st R q H; [exact I|].
  destruct H as (H1 & H2 & H3). split; [exact H1|]. split; [exact H2|].
  destruct (step st e); [apply (IH _ _ q H3)|exact I].
Qed.

(* C10_capacity_stacked *)
Theorem capacity_stacked p q st l cap :
  conformant2 init (fun _ => []) (p ++ q) -> run init p = Ok st -> In l locs -> lv_cap l = Some cap ->
  let G := measured2 init (fun _ => []) p g0 in
  let R := reservations init (fun _ => []) p in
  let led := mu_o (lookup (lv_name l) (hwloc st)) in
  (forall x, reserved2 st R (lv_name l) x = led x - G (lv_name l) x) /\
  G (lv_name l) MC = 0 /\ G (lv_name l) MM = 0 /\ (forall m, 0 <= G (lv_name l) (MS m)) /\
  (forall x, reserved2 st R (lv_name l) x <= led x) /\ (forall x, led x <= mu cap x) /\
  (forall x, reserved2 st R (lv_name l) x <= mu cap x).
Proof.
  intros Hc Hr Hl Hcap G R led. apply conformant2_prefix in Hc.
  destruct (inv2_run p init g0 _ st inv2_init Hc Hr) as (K & A & L & E & Gz & C). fold G in E, Gz. fold R in A, E.
  destruct (Gz (lv_name l)) as (G1 & G2 & G3).
  assert (Hres : forall x, reserved2 st R (lv_name l) x = led x - G (lv_name l) x) by (intros x; unfold led; rewrite E; lia).
  assert (Hgx : forall x, 0 <= G (lv_name l) x) by (intros [| |m]; [lia|lia|apply G3]).
  assert (Hled : forall x, led x <= mu cap x).
  { intros x. unfold led. destruct (lookup (lv_name l) (hwloc st)) as [h|] eqn:Eh.
    - apply (C l cap h Hl Hcap Eh).
    - simpl. destruct (locs_caps l cap Hl Hcap) as [Wc _]. apply mu_nonneg. exact Wc. }
  repeat split; auto.
  - intros x. rewrite Hres. specialize (Hgx x). lia.
  - intros x. rewrite Hres. specialize (Hgx x). specialize (Hled x). lia.
Qed.

(* C11_release_stacked *)
Theorem release_stacked es st nm h :
  conformant2 init (fun _ => []) es -> run init es = Ok st ->
  (forall j a, In (j, a) (jobs st) -> is_active (a_status a) = false) ->
  lookup nm (hwloc st) = Some h ->
  cores h = 0 /\ mem h = 0 /\ forall m, size_at h m = measured2 init (fun _ => []) es g0 nm (MS m).
Proof.
  intros Hc Hr Hna Hlk.
  destruct (inv2_run es init g0 _ st inv2_init Hc Hr) as (K & A & L & E & Gz & C).
  assert (Hz : forall x, reserved2 st (reservations init (fun _ => []) es) nm x = 0).
  { intros x. unfold reserved2. apply sumk_zero. intros k a Hi. unfold contrib2. rewrite (Hna k a Hi). reflexivity. }
  destruct (Gz nm) as (G1 & G2 & _).
  split; [|split].
  - specialize (E nm MC). rewrite Hlk, Hz in E. simpl in E. lia.
  - specialize (E nm MM). rewrite Hlk, Hz in E. simpl in E. lia.
  - intros m. specialize (E nm (MS m)). rewrite Hlk, Hz in E. simpl in E. lia.
Qed.
End StackedHist.

(* ------------------------------------------------------------------ wrapped but NOT stacked locations
   A location whose [wraps] is set but whose [stacked] flag is false (queue managers wrapping a host) is the one-level
   chain [l]: _allocate_job's `loc.wraps if loc.stacked else None` and _free_resources's `[loc.wraps for loc in locations
   if loc.stacked]` both stop at the first level.  Nothing is reserved or released on the wrapped host. *)
Lemma alloc_first_level_only st job reqs l s' :
  allocate st job reqs [[l]] = Ok s' -> lookup (req_key l) reqs <> None ->
  forall nm, nm <> lv_name l -> lookup nm (hwloc s') = lookup nm (hwloc st).
Proof.
  intros Hal Hreq nm Hne.
  destruct (allocate_chain st job reqs l [] s' Hal) as (_ & _ & _ & _ & Hout).
  - simpl. constructor; [intros []|constructor].
  - intros l0 [Hl0|[]]. subst. exact Hreq.
  - apply Hout. simpl. intros [H|[]]. congruence.
Qed.

Lemma release_first_level_only st job new fls a st' l :
  lookup job (jobs st) = Some a -> notify st job new fls = Ok st' -> a_locs a = [[(lv_dep l, lv_name l)]] ->
  forall nm, nm <> lv_name l -> lookup nm (hwloc st') = lookup nm (hwloc st).
Proof.
  intros Hl Hno Hlocs nm Hne. destruct (releases (a_status a) new) eqn:Erel.
  - destruct (notify_release_chain st job new fls a st' [l] Hl Hno Erel Hlocs) as (Hout & _).
    + simpl. constructor; [intros []|constructor].
    + apply Hout. simpl. intros [H|[]]. congruence.
  - destruct (notify_hwloc _ _ _ _ _ _ Hl Hno) as [Hh _]. rewrite (Hh Erel). reflexivity.
Qed.
