(* Sched/Slots.v — the slot part of C10_capacity over whole histories: on every location without declared
   hardware the number of fireable/running jobs never exceeds its slots (flat, single-location domain of
   Sched/History.v). *)
From Coq Require Import List Bool ZArith NArith Lia.
From SF Require Import Base.Str Hardware.Model Hardware.Proofs Sched.Model Sched.Proofs Sched.History.
Import ListNotations.
Local Open Scope string_scope. Local Open Scope list_scope. Local Open Scope Z_scope.

Definition slots_of (l : level) : N := match lv_slots l with Some s => s | None => 1%N end.
Definition act_on (nm : string) (ja : string * alloc) : bool := is_active (a_status (snd ja)) && on nm (snd ja).

Lemma nactive_length st nm : nactive st nm = Z.of_nat (length (filter (act_on nm) (jobs st))).
Proof.
  unfold nactive. induction (jobs st) as [|[k a] m IH]; simpl; [reflexivity|].
  unfold act_on at 1, cnt at 1. simpl. destruct (is_active (a_status a) && on nm a); simpl length; rewrite IH; lia.
Qed.

Lemma NoDup_filter_keys {V} (m : list (string * V)) f : NoDup (keys m) -> NoDup (map fst (filter f m)).
Proof.
  induction m as [|[k v] m IH]; simpl; intros H; [constructor|].
  inversion H as [|? ? Hni Hn]. subst. destruct (f (k, v)); simpl; [|apply IH; exact Hn].
  constructor; [|apply IH; exact Hn]. intros Hi. apply Hni. apply in_map_iff in Hi. destruct Hi as ([k' v'] & E & Hi).
  simpl in E. subst. apply filter_In in Hi. destruct Hi as [Hi _]. unfold keys. change k with (fst (k, v')). apply in_map. exact Hi.
Qed.

Lemma in_remove_first x y l : In x l -> x <> y -> In x (remove_first y l).
Proof.
  unfold remove_first. induction l as [|z l IH]; simpl; intros Hi Hne; [contradiction|].
  destruct (String.eqb_spec y z) as [E|E].
  - destruct Hi as [Hi|Hi]; [congruence|exact Hi].
  - destruct Hi as [Hi|Hi]; [left; exact Hi|right; apply IH; assumption].
Qed.

Lemma cnt_at s d n jh nm : cnt nm (mkalloc s [[(d, n)]] jh) = if is_active s && String.eqb n nm then 1 else 0.
Proof. reflexivity. Qed.
Lemma cnt_nonneg nm a : 0 <= cnt nm a.
Proof. unfold cnt. destruct (_ && _); lia. Qed.

Section SlotsHist.
Variable locs : list level.
Hypothesis locs_names : forall l1 l2, In l1 locs -> In l2 locs -> lv_name l1 = lv_name l2 -> l1 = l2.
Hypothesis locs_caps : forall l cap, In l locs -> lv_cap l = Some cap -> wfr cap /\ In "/" (mounts cap).

Definition InvS (st : sstate) : Prop :=
  (forall j a l, In (j, a) (jobs st) -> is_active (a_status a) = true -> a_locs a = [[(lv_dep l, lv_name l)]] ->
     exists js, lookup (req_key l) (locjobs st) = Some js /\ In j js) /\
  (forall l, In l locs -> lv_cap l = None -> nactive st (lv_name l) <= Z.of_N (slots_of l)).

Lemma invs_init : InvS init.
Proof. split; [intros j a l []|]. intros l _ _. unfold nactive, init. simpl. lia. Qed.

(* the fireable/running jobs of a location are among the jobs _get_running_jobs counts for any candidate job *)
Lemma count_le st G job l :
  Inv locs st G -> InvS st -> In l locs ->
  nactive st (lv_name l) <= Z.of_nat (length (running_jobs st job l)).
Proof.
  intros (K & A & _) [J _] Hl. rewrite nactive_length.
  rewrite <- (map_length fst). apply inj_le. apply NoDup_incl_length; [apply NoDup_filter_keys; exact K|].
  intros x Hx. apply in_map_iff in Hx. destruct Hx as ([x' a] & Ex & Hi). simpl in Ex. subst x'.
  apply filter_In in Hi. destruct Hi as [Hi Hact]. unfold act_on in Hact. simpl in Hact.
  apply andb_true_iff in Hact. destruct Hact as [Ha Hon].
  destruct (A x a Hi) as [_ Hacta]. destruct (Hacta Ha) as (l0 & h0 & Hl0 & Hlocs & _).
  assert (l0 = l).
  { apply locs_names; [exact Hl0|exact Hl|]. unfold on, loc_of in Hon. rewrite Hlocs in Hon.
    apply String.eqb_eq in Hon. exact Hon. }
  subst l0. destruct (J x a l Hi Ha Hlocs) as (js & Elj & Hjs).
  unfold running_jobs. rewrite Elj. apply filter_In. split; [exact Hjs|].
  unfold counts_as_running. rewrite (in_lookup _ _ _ K Hi).
  destruct (a_status a); simpl in Ha; try discriminate; reflexivity.
Qed.

Lemma invs_attempt st G job cands reqs n chosen st' vn al :
  Inv locs st G -> InvS st -> ev_ok locs (EAttempt job cands reqs n chosen) -> job_active st job = false ->
  attempt st job cands reqs n chosen = Ok (st', vn, al) -> InvS st'.
Proof.
  intros HI HS (Hn & Hch & Hcands & Hreqs) Hna Hat. destruct al; [|apply attempt_fail_unchanged in Hat; subst; exact HS].
  subst n. destruct (attempt_single _ _ _ _ _ _ _ Hch Hat) as (c & Hc & Hv & Hal).
  destruct (Hcands c Hc) as (l & Ec & Hl). subst c. apply is_valid_single in Hv.
  destruct (allocate_single _ _ _ _ _ Hal) as (jh & h & Er & Eh & Ej & Ehw & Elj).
  pose proof (count_le st G job l HI HS Hl) as Hcount.
  destruct HS as [J N]. destruct HI as (K & _).
  assert (Hold : forall nm, match lookup job (jobs st) with Some old => cnt nm old | None => 0 end = 0).
  { intros nm. unfold job_active in Hna. destruct (lookup job (jobs st)) as [old|]; [|reflexivity].
    apply cnt_inactive. exact Hna. }
  split.
  - intros j a l1 Hi Ha Hlocs. rewrite Ej in Hi. apply in_dset in Hi; [|exact K]. rewrite Elj.
    destruct Hi as [[Ej' Ea]|[Hne Hi]].
    + subst. simpl in Hlocs. inversion Hlocs as [[Hd Hnm]].
      assert (Ek : req_key l1 = req_key l) by (unfold req_key; congruence). rewrite Ek, lookup_dset.
      eexists. split; [reflexivity|]. destruct (lookup (req_key l) (locjobs st)); [apply in_or_app; right|]; left; reflexivity.
    + destruct (J j a l1 Hi Ha Hlocs) as (js & Ejs & Hjs).
      destruct (String.eqb_spec (req_key l1) (req_key l)) as [Ek|Ek].
      * rewrite Ek, lookup_dset. rewrite Ek in Ejs. rewrite Ejs. eexists. split; [reflexivity|]. apply in_or_app. left. exact Hjs.
      * rewrite lookup_dset_other by exact Ek. exists js. split; assumption.
  - intros l2 Hl2 Hc2. unfold nactive. rewrite Ej, sumf_dset, Hold. fold (nactive st (lv_name l2)).
    rewrite cnt_at. cbn [is_active andb].
    destruct (String.eqb_spec (lv_name l) (lv_name l2)) as [En|En].
    + assert (l2 = l) by (apply locs_names; [exact Hl2|exact Hl|symmetry; exact En]). subst l2.
      rewrite (slot_level_valid st reqs job l Hc2) in Hv. inversion Hv as [Hlt]. apply N.ltb_lt in Hlt.
      fold (slots_of l) in Hlt.
      assert (Z.of_nat (length (running_jobs st job l)) < Z.of_N (slots_of l)).
      { rewrite <- nat_N_Z. apply N2Z.inj_lt. exact Hlt. }
      lia.
    + specialize (N l2 Hl2 Hc2). lia.
Qed.

Lemma rollback_fold_keeps job key j0 (Hne : j0 <> job) (dns : list (string * string)) : forall m js,
  lookup key m = Some js -> In j0 js ->
  exists js', lookup key (fold_left (fun m dn =>
                               match lookup (fst dn ++ "/" ++ snd dn) m with
                               | Some js => replace (fst dn ++ "/" ++ snd dn) (remove_first job js) m
                               | None => m
                               end) dns m) = Some js' /\ In j0 js'.
Proof.
  induction dns as [|[d nm] dns IH]; cbn [fold_left fst snd]; intros m js Hl Hi; [exists js; auto|].
  destruct (lookup (d ++ "/" ++ nm) m) as [js1|] eqn:E1; [|apply (IH m js Hl Hi)].
  destruct (String.eqb_spec key (d ++ "/" ++ nm)) as [Ek|Ek].
  - subst key. rewrite E1 in Hl. inversion Hl. subst js1.
    apply (IH _ (remove_first job js)); [apply lookup_replace_same; congruence|apply in_remove_first; assumption].
  - apply (IH _ js); [rewrite lookup_replace_other by exact Ek; exact Hl|exact Hi].
Qed.

Lemma notify_locjobs st job new fls a st' :
  lookup job (jobs st) = Some a -> notify st job new fls = Ok st' ->
  (status_eqb new Rollback = false -> locjobs st' = locjobs st) /\
  (forall key js j0, lookup key (locjobs st) = Some js -> In j0 js -> j0 <> job ->
     exists js', lookup key (locjobs st') = Some js' /\ In j0 js').
Proof.
  intros Hl. unfold notify. rewrite Hl. cbn [bind_res].
  destruct (if releases (a_status a) new then _ else _) as [s2|] eqn:E2; cbn [bind_res]; [|discriminate].
  assert (Hlj : locjobs s2 = locjobs st).
  { destruct (releases (a_status a) new).
    - apply free_levels_frame in E2. destruct E2 as [_ E2]. exact E2.
    - inversion E2. reflexivity. }
  destruct (status_eqb new Rollback); intros H; inversion H; subst; cbn [locjobs].
  - split; [discriminate|]. intros key js j0 Hk Hi Hne. rewrite Hlj. apply (rollback_fold_keeps job key j0 Hne _ _ js); assumption.
  - split; [intros _; exact Hlj|]. intros key js j0 Hk Hi Hne. rewrite Hlj. exists js. auto.
Qed.

Lemma invs_notify st G job new fls st' :
  Inv locs st G -> InvS st -> conf st (ENotify job new fls) ->
  notify st job new fls = Ok st' -> InvS st'.
Proof.
  intros HI HS Hconf Hno. simpl in Hconf.
  destruct (lookup job (jobs st)) as [a|] eqn:Hl.
  2:{ unfold notify in Hno. rewrite Hl in Hno. inversion Hno. subst. exact HS. }
  destruct Hconf as (Hc1 & Hc2 & _).
  pose proof (notify_jobs _ _ _ _ _ _ Hl Hno) as Ej.
  destruct (notify_locjobs _ _ _ _ _ _ Hl Hno) as [Hlj1 Hlj2].
  destruct (status_cases (a_status a) new Hc1 Hc2) as [Hs1 Hs2].
  set (a' := mkalloc new (if status_eqb new Rollback then [] else a_locs a) (a_hw a)) in *.
  rewrite <- (dset_present job a' a _ Hl) in Ej.
  destruct HI as (K & _). destruct HS as [J N].
  pose proof (lookup_some_in _ _ _ Hl) as Hina.
  assert (Hact' : is_active new = true -> is_active (a_status a) = true /\ a_locs a' = a_locs a /\ status_eqb new Rollback = false).
  { intros Hx. split.
    - destruct (releases (a_status a) new) eqn:Erel; [destruct (Hs2 eq_refl); congruence|rewrite <- (Hs1 eq_refl); exact Hx].
    - unfold a'. simpl. destruct new; simpl in *; try discriminate; auto. }
  assert (Hcnt : forall nm, cnt nm a' <= cnt nm a).
  { intros nm. unfold cnt. change (a_status a') with new. destruct (is_active new) eqn:En; [|simpl; destruct (_ && _); lia].
    destruct (Hact' eq_refl) as (Hp & Hlocs & _). rewrite Hp. unfold on, loc_of. rewrite Hlocs. lia. }
  split.
  - intros j a0 l1 Hi Ha Hlocs. rewrite Ej in Hi. apply in_dset in Hi; [|exact K].
    destruct Hi as [[Ej' Ea]|[Hne Hi]].
    + subst. change (a_status a') with new in Ha. destruct (Hact' Ha) as (Hp & Hlocs' & Hnr).
      rewrite (Hlj1 Hnr). rewrite Hlocs' in Hlocs. apply (J job a l1 Hina Hp Hlocs).
    + destruct (J j a0 l1 Hi Ha Hlocs) as (js & Ejs & Hjs). apply (Hlj2 _ _ _ Ejs Hjs Hne).
  - intros l2 Hl2 Hcap2. unfold nactive. rewrite Ej, sumf_dset, Hl. fold (nactive st (lv_name l2)).
    specialize (N l2 Hl2 Hcap2). specialize (Hcnt (lv_name l2)). lia.
Qed.

Theorem invs_run es : forall st G st',
  Inv locs st G -> InvS st -> conformant locs st es -> run st es = Ok st' -> InvS st'.
Proof.
  induction es as [|e es IH]; simpl; intros st G st' HI HS Hc Hr.
  - inversion Hr. subst. exact HS.
  - destruct Hc as (Hok & Hcf & Hrest). destruct (step st e) as [s|] eqn:Es; simpl in Hr; [|discriminate].
    apply (IH s (gstep st e G) st'); [eapply inv_step; eauto| |exact Hrest|exact Hr].
    destruct e as [job cands reqs n chosen|job new fls]; simpl in Es.
    + destruct (attempt st job cands reqs n chosen) as [[[s0 vn] al]|] eqn:Ea; simpl in Es; [|discriminate].
      inversion Es. subst. eapply invs_attempt; eauto.
    + eapply invs_notify; eauto.
Qed.

(* C10_capacity (slot part) *)
Theorem slots_invariant p q st l :
  conformant locs init (p ++ q) -> run init p = Ok st -> In l locs -> lv_cap l = None ->
  nactive st (lv_name l) <= Z.of_N (slots_of l).
Proof.
  intros Hc Hr Hl Hcap. apply conformant_prefix in Hc.
  destruct (invs_run p init g0 st (inv_init locs) invs_init Hc Hr) as [_ N]. apply N; assumption.
Qed.
End SlotsHist.
