(* Sched/Model.v — executable model of the bookkeeping of streamflow/scheduling/scheduler.py
   (DefaultScheduler), on top of Hardware/Model.v.  Definitions only.

   ANCHORS:
     streamflow.scheduling.scheduler.DefaultScheduler._is_valid
     streamflow.scheduling.scheduler.DefaultScheduler._get_running_jobs
     streamflow.scheduling.scheduler.DefaultScheduler._allocate_job
     streamflow.scheduling.scheduler.DefaultScheduler._process_target     (one iteration of the retry loop)
     streamflow.scheduling.scheduler.DefaultScheduler._get_locations      (policy choice = input)
     streamflow.scheduling.scheduler.DefaultScheduler._free_resources
     streamflow.scheduling.scheduler.DefaultScheduler.notify_status

   Granularity.  Both the body of the retry loop of _process_target and the body of notify_status run
   while holding the asyncio.Condition `wait_queue`, so each is ONE atomic event of the model:
     EAttempt  = one evaluation of a (job, target) request: compute valid locations, maybe allocate;
     ENotify   = one notify_status call.
   A history is a list of events in the order in which the lock was taken.

   Inputs that the model does not compute (oracles, supplied per event, observed from the real run):
     * the dict `hardware_requirements` (key "deployment/location" -> Hardware) produced by
       _resolve_hardware_requirement / bind_mount_point (mount-point resolution);
     * the locations chosen by the Policy among the valid ones;
     * in _free_resources: the measured storage usage per location (du) and, below the first level of a
       stacked location, the job hardware re-bound by bind_mount_point.
   A location is the chain of its stacked levels, outermost first (loc, loc.wraps, ... while .stacked). *)
From Coq Require Import List Bool ZArith NArith.
From SF Require Import Base.Str Tags.Model Hardware.Model.
Import ListNotations.
Local Open Scope string_scope. Local Open Scope list_scope.

Inductive status := Waiting | Fireable | Running | Skipped | Completed | Failed | Cancelled
                  | Rollback | Recovery | Recovered.
Definition status_eqb (a b : status) : bool :=
  match a, b with
  | Waiting, Waiting | Fireable, Fireable | Running, Running | Skipped, Skipped | Completed, Completed
  | Failed, Failed | Cancelled, Cancelled | Rollback, Rollback | Recovery, Recovery | Recovered, Recovered => true
  | _, _ => false
  end.

(* one level of an available location *)
Record level := mklevel { lv_dep : string;           (* deployment_name of the connector at this level *)
                          lv_name : string;
                          lv_cap : option hw;        (* AvailableLocation.hardware *)
                          lv_slots : option N }.     (* AvailableLocation.slots *)
Definition chain := list level.
Definition req_key (l : level) : string := lv_dep l ++ "/" ++ lv_name l.   (* posixpath.join(dep, name) *)

Record alloc := mkalloc { a_status : status;
                          a_locs : list (list (string * string));   (* per selected location: (deployment, name) per level *)
                          a_hw : hw }.
Record sstate := mkstate { jobs : list (string * alloc);                       (* job_allocations *)
                           locjobs : list (string * list string);              (* location_allocations, key "deployment/name" *)
                           hwloc : list (string * hw) }.                       (* hardware_locations, keyed by location NAME only *)
Definition init : sstate := mkstate [] [] [].

(* dict assignment d[k] = v : replace in place or append *)
Definition dset {V} (k : string) (v : V) (m : list (string * V)) : list (string * V) :=
  match lookup k m with Some _ => replace k v m | None => m ++ [(k, v)] end.

(* ---- _get_running_jobs ---- *)
Definition counts_as_running (st : sstate) (job : string) (x : string) : bool :=
  match lookup x (jobs st) with
  | None => false
  | Some a =>
      match a_status a with
      | Running | Fireable => true
      | Rollback =>
          String.eqb (job_step_name x) (job_step_name job) &&
          match compare_tags_s (job_tag x) (job_tag job) with Some z => (z <? 0)%Z | None => false end
      | _ => false
      end
  end.
Definition running_jobs (st : sstate) (job : string) (l : level) : list string :=
  match lookup (req_key l) (locjobs st) with
  | Some js => filter (counts_as_running st job) js
  | None => []
  end.

(* ---- _is_valid : walks the stacked chain ---- *)
Definition level_valid (st : sstate) (reqs : list (string * hw)) (job : string) (l : level) : res bool :=
  match lv_cap l with
  | Some cap =>
      match lookup (req_key l) reqs with
      | None => Err MissingMount                                    (* KeyError; not produced by the real resolver *)
      | Some rq =>
          free <- hw_sub cap (match lookup (lv_name l) (hwloc st) with Some h => h | None => default_hw end) ;;
          satisfies free rq
      end
  | None =>
      let slots := match lv_slots l with Some s => s | None => 1%N end in
      Ok (N.ltb (N.of_nat (length (running_jobs st job l))) slots)
  end.
Fixpoint is_valid (st : sstate) (reqs : list (string * hw)) (job : string) (c : chain) : res bool :=
  match c with
  | [] => Ok true
  | l :: c' => b <- level_valid st reqs job l ;; if b then is_valid st reqs job c' else Ok false
  end.

Fixpoint valid_locations (st : sstate) (reqs : list (string * hw)) (job : string) (cs : list chain) : res (list chain) :=
  match cs with
  | [] => Ok []
  | c :: cs' =>
      b <- is_valid st reqs job c ;; r <- valid_locations st reqs job cs' ;;
      Ok (if b then c :: r else r)
  end.

(* ---- _allocate_job ---- *)
Definition chain_name (c : chain) : string := match c with l :: _ => lv_name l | [] => "" end.
Definition hw_truthy (h : hw) : bool := true.     (* `hardware[key]` has no __bool__/__len__: always truthy *)

Definition reserve_level (job : string) (reqs : list (string * hw)) (st : res sstate) (l : level) : res sstate :=
  s <- st ;;
  let lj := match lookup (req_key l) (locjobs s) with Some js => js ++ [job] | None => [job] end in
  let s1 := mkstate (jobs s) (dset (req_key l) lj (locjobs s)) (hwloc s) in
  match lookup (req_key l) reqs with
  | None => Ok s1
  | Some rq =>
      match lookup (lv_name l) (hwloc s1) with
      | Some cur => h <- hw_add cur rq ;; Ok (mkstate (jobs s1) (locjobs s1) (dset (lv_name l) h (hwloc s1)))
      | None => h <- normalized rq ;; Ok (mkstate (jobs s1) (locjobs s1) (dset (lv_name l) h (hwloc s1)))
      end
  end.

Definition allocate (st : sstate) (job : string) (reqs : list (string * hw)) (sel : list chain) : res sstate :=
  match sel with
  | [] => Err MissingMount                                         (* next(...) on an empty selection: StopIteration *)
  | c0 :: _ =>
      match c0 with
      | [] => Err MissingMount
      | l0 :: _ =>
          match lookup (req_key l0) reqs with
          | None => Err MissingMount
          | Some jh =>
              let a := mkalloc Fireable (map (map (fun l => (lv_dep l, lv_name l))) sel) jh in
              let s0 := mkstate (dset job a (jobs st)) (locjobs st) (hwloc st) in
              fold_left (reserve_level job reqs) (concat sel) (Ok s0)
          end
      end
  end.

(* ---- one iteration of the retry loop of _process_target ----
   cands: connector.get_available_locations(service) as chains, dict order; n: target.locations;
   chosen: names picked by the policy (ignored when exactly n locations are valid).
   Result: new state and whether the job was allocated. *)
Definition pick (valid : list chain) (names : list string) : list chain :=
  flat_map (fun nm => match find (fun c => String.eqb (chain_name c) nm) valid with Some c => [c] | None => [] end) names.

Definition attempt (st : sstate) (job : string) (cands : list chain) (reqs : list (string * hw)) (n : nat)
                   (chosen : list string) : res (sstate * list string * bool) :=
  v <- valid_locations st reqs job cands ;;
  let vn := map chain_name v in
  if Nat.leb n (length v) then
    let sel := if Nat.eqb (length v) n then v else pick v chosen in
    match sel with
    | [] => Ok (st, vn, false)
    | _ => s <- allocate st job reqs sel ;; Ok (s, vn, true)
    end
  else Ok (st, vn, false).

(* ---- _free_resources ----
   per level k: fl_hw = job hardware used at this level (None at level 0: the allocation's own hardware,
   normalised if needed; Some h below = result of bind_mount_point, an input);
   fl_usage: for each location name the measured usage per storage key (None = measurement failed). *)
Record free_level := mkfl { fl_hw : option hw; fl_usage : list (string * option (list (string * Z))) }.

Definition usage_hw (jh : hw) (u : option (list (string * Z))) : res hw :=
  match u with
  | None => Ok default_hw
  | Some kv =>
      s <- fold_left (fun acc ks => a <- acc ;;
                        match lookup (fst ks) (stor jh) with
                        | None => Err MissingMount
                        | Some d => st <- new_storage (mount d) (snd ks) [] None ;; Ok (a ++ [(fst ks, st)])
                        end) kv (Ok []) ;;
      Ok (new_hw 0 0 s)
  end.

Definition free_loc (jh : hw) (usage : list (string * option (list (string * Z)))) (st : res sstate) (nm : string) : res sstate :=
  s <- st ;;
  match lookup nm (hwloc s) with
  | None => Ok s
  | Some cur =>
      u <- usage_hw jh (match lookup nm usage with Some x => x | None => None end) ;;
      d <- hw_sub cur jh ;; h <- hw_add d u ;;
      Ok (mkstate (jobs s) (locjobs s) (dset nm h (hwloc s)))
  end.

Definition nth_names (k : nat) (locs : list (list (string * string))) : list string :=
  flat_map (fun c => match nth_error c k with Some dn => [snd dn] | None => [] end) locs.

Fixpoint free_levels (k : nat) (locs : list (list (string * string))) (jh : hw) (fls : list free_level) (st : sstate)
  : res sstate :=
  match nth_names k locs with
  | [] => Ok st
  | names =>
      match fls with
      | [] => Err MissingMount                      (* the trace must supply every level that exists *)
      | fl :: fls' =>
          let jh0 := match fl_hw fl with Some h => h | None => jh end in
          jh1 <- (if is_normalized jh0 then Ok jh0 else normalized jh0) ;;
          s <- fold_left (free_loc jh1 (fl_usage fl)) names (Ok st) ;;
          free_levels (S k) locs jh1 fls' s
      end
  end.

(* ---- notify_status ---- *)
Definition releases (prev new : status) : bool :=
  negb (status_eqb new prev) &&
  (status_eqb prev Running || (status_eqb prev Fireable && negb (status_eqb new Running))).

Definition remove_first (x : string) (l : list string) : list string :=
  (fix go l := match l with [] => [] | y :: l' => if String.eqb x y then l' else y :: go l' end) l.

Definition notify (st : sstate) (job : string) (new : status) (fls : list free_level) : res sstate :=
  match lookup job (jobs st) with
  | None => Ok st                                         (* get_connector raises before anything changes *)
  | Some a =>
      let prev := a_status a in
      let s1 := mkstate (replace job (mkalloc new (a_locs a) (a_hw a)) (jobs st)) (locjobs st) (hwloc st) in
      s2 <- (if releases prev new then free_levels 0 (a_locs a) (a_hw a) fls s1 else Ok s1) ;;
      if status_eqb new Rollback then
        (* the job leaves the job list of every stacked level of every location it was allocated on *)
        let lj := fold_left (fun m dn =>
                               match lookup (fst dn ++ "/" ++ snd dn) m with
                               | Some js => replace (fst dn ++ "/" ++ snd dn) (remove_first job js) m
                               | None => m
                               end) (concat (a_locs a)) (locjobs s2) in
        Ok (mkstate (replace job (mkalloc new [] (a_hw a)) (jobs s2)) lj (hwloc s2))
      else Ok s2
  end.

(* ---- events and histories ---- *)
Inductive event :=
| EAttempt (job : string) (cands : list chain) (reqs : list (string * hw)) (n : nat) (chosen : list string)
| ENotify (job : string) (new : status) (fls : list free_level).

Definition step (st : sstate) (e : event) : res sstate :=
  match e with
  | EAttempt job cands reqs n chosen => r <- attempt st job cands reqs n chosen ;; Ok (fst (fst r))
  | ENotify job new fls => notify st job new fls
  end.

Fixpoint run (st : sstate) (es : list event) : res sstate :=
  match es with
  | [] => Ok st
  | e :: es' => s <- step st e ;; run s es'
  end.
