(* Sched/StackedSlots.v — slot part of C10_capacity for chains of stacked levels: on every level without declared
   hardware (outer or inner) the number of fireable/running jobs whose chain goes through it never exceeds its slots. *)
From Coq Require Import List Bool ZArith NArith Lia.
From SF Require Import Base.Str Hardware.Model Hardware.Proofs Sched.Model Sched.Proofs Sched.History Sched.Slots
                       Sched.Stacked Sched.StackedHist.
Import ListNotations.
Local Open Scope string_scope. Local Open Scope list_scope. Local Open Scope Z_scope.

Definition cnt2 (R : rmap) (nm : string) (j : string) (a : alloc) : Z :=
  if is_active (a_status a) && mem_str nm (map fst (R j)) then 1 else 0.
Definition nactive2 (st : sstate) (R : rmap) (nm : string) : Z := sumk (cnt2 R nm) (jobs st).
Definition act2 (R : rmap) (nm : string) (ja : string * alloc) : bool :=
  is_active (a_status (snd ja)) && mem_str nm (map fst (R (fst ja))).

Lemma nactive2_length st R nm : nactive2 st R nm = Z.of_nat (length (filter (act2 R nm) (jobs st))).
Proof.
  unfold nactive2. induction (jobs st) as [|[k a] m IH]; simpl; [reflexivity|].
  unfold act2 at 1, cnt2 at 1. simpl. destruct (is_active (a_status a) && mem_str nm (map fst (R k))); simpl length; rewrite IH; lia.
Qed.

Lemma reserve_level_locjobs job reqs s0 l s1 :
  reserve_level job reqs (Ok s0) l = Ok s1 ->
  locjobs s1 = dset (req_key l) (match lookup (req_key l) (locjobs s0) with Some js => js ++ [job] | None => [job] end) (locjobs s0).
Proof.
  unfold reserve_level. simpl. destruct (lookup (req_key l) reqs) as [rq|].
  - destruct (lookup (lv_name l) (hwloc s0)) as [cur|].
    + destruct (hw_add cur rq) as [h|]; simpl; [|discriminate]. intros H. inversion H. reflexivity.
    + destruct (normalized rq) as [h|]; simpl; [|discriminate]. intros H. inversion H. reflexivity.
  - intros H. inversion H. reflexivity.
Qed.

Lemma fold_reserve_locjobs job reqs ls : forall s0 s',
  fold_left (reserve_level job reqs) ls (Ok s0) = Ok s' ->
  (forall key js j0, lookup key (locjobs s0) = Some js -> In j0 js -> exists js', lookup key (locjobs s') = Some js' /\ In j0 js') /\
  (forall l, In l ls -> exists js', lookup (req_key l) (locjobs s') = Some js' /\ In job js').
Proof.
  induction ls as [|l ls IH]; cbn [fold_left]; intros s0 s' H.
  - inversion H. subst. split; [intros key js j0 H1 H2; exists js; auto|intros l []].
  - destruct (reserve_level job reqs (Ok s0) l) as [s1|e] eqn:E1; [|rewrite fold_reserve_err in H; discriminate].
    pose proof (reserve_level_locjobs _ _ _ _ _ E1) as Elj.
    destruct (IH s1 s' H) as [Hmono Hin].
    assert (Hstep : forall key js j0, lookup key (locjobs s0) = Some js -> In j0 js ->
                                      exists js', lookup key (locjobs s1) = Some js' /\ In j0 js').
    { intros key js j0 Hk Hj. rewrite Elj. destruct (String.eqb_spec key (req_key l)) as [Ek|Ek].
      - subst key. rewrite lookup_dset, Hk. eexists. split; [reflexivity|]. apply in_or_app. left. exact Hj.
      - rewrite lookup_dset_other by exact Ek. exists js. auto. }
    split.
    + intros key js j0 Hk Hj. destruct (Hstep key js j0 Hk Hj) as (js1 & H1 & H2). apply (Hmono key js1 j0 H1 H2).
    + intros l1 [Hl1|Hl1]; [|apply Hin; exact Hl1]. subst l1.
      assert (exists js1, lookup (req_key l) (locjobs s1) = Some js1 /\ In job js1).
      { rewrite Elj, lookup_dset. eexists. split; [reflexivity|].
        destruct (lookup (req_key l) (locjobs s0)); [apply in_or_app; right|]; left; reflexivity. }
      destruct H0 as (js1 & H1 & H2). apply (Hmono _ js1 job H1 H2).
Qed.

Section StackedSlots.
Variable locs : list level.
Hypothesis locs_names : forall l1 l2, In l1 locs -> In l2 locs -> lv_name l1 = lv_name l2 -> l1 = l2.
Hypothesis locs_caps : forall l cap, In l locs -> lv_cap l = Some cap -> wfr cap /\ In "/" (mounts cap).

Definition InvS2 (st : sstate) (R : rmap) : Prop :=
  (forall j a c d n, In (j, a) (jobs st) -> is_active (a_status a) = true -> a_locs a = [c] -> In (d, n) c ->
     exists js, lookup (d ++ "/" ++ n) (locjobs st) = Some js /\ In j js) /\
  (forall l, In l locs -> lv_cap l = None -> nactive2 st R (lv_name l) <= Z.of_N (slots_of l)).

Lemma invs2_init : InvS2 init (fun _ => []).
Proof. split; [intros j a c d n []|]. intros l _ _. unfold nactive2, init. simpl. lia. Qed.

Lemma count_le2 st G R job l :
  Inv2 locs st G R -> InvS2 st R -> In l locs ->
  nactive2 st R (lv_name l) <= Z.of_nat (length (running_jobs st job l)).
Proof.
  intros (K & A & _) [J _] Hl. rewrite nactive2_length.
  rewrite <- (map_length fst). apply inj_le. apply NoDup_incl_length; [apply NoDup_filter_keys; exact K|].
  intros x Hx. apply in_map_iff in Hx. destruct Hx as ([x' a] & Ex & Hi). simpl in Ex. subst x'.
  apply filter_In in Hi. destruct Hi as [Hi Hact]. unfold act2 in Hact. simpl in Hact.
  apply andb_true_iff in Hact. destruct Hact as [Ha Hon]. apply mem_str_in in Hon.
  destruct (A x a Hi Ha) as (ls & Hlv & Hnd & Hlocs & Hfst & _). rewrite Hfst in Hon.
  unfold names in Hon. apply in_map_iff in Hon. destruct Hon as (l' & En & Hl').
  assert (l' = l) by (apply locs_names; [apply Hlv; exact Hl'|exact Hl|exact En]). subst l'.
  assert (Hp : In (lv_dep l, lv_name l) (pairs ls)) by (unfold pairs; apply in_map_iff; exists l; auto).
  destruct (J x a (pairs ls) _ _ Hi Ha Hlocs Hp) as (js & Elj & Hjs).
  unfold running_jobs, req_key. rewrite Elj. apply filter_In. split; [exact Hjs|].
  unfold counts_as_running. rewrite (in_lookup _ _ _ K Hi).
  destruct (a_status a); simpl in Ha; try discriminate; reflexivity.
Qed.

Lemma invs2_attempt st G R job cands reqs n chosen st' vn al :
  Inv2 locs st G R -> InvS2 st R -> ev_ok2 locs (EAttempt job cands reqs n chosen) -> job_active st job = false ->
  attempt st job cands reqs n chosen = Ok (st', vn, al) ->
  InvS2 st' (gstepR st (EAttempt job cands reqs n chosen) R).
Proof.
  intros HI HS (Hn & Hch & Hcands & Hreqs) Hna Hat. unfold gstepR. rewrite Hat.
  destruct al; [|apply attempt_fail_unchanged in Hat; subst; exact HS].
  subst n. destruct (attempt_single' _ _ _ _ _ _ _ Hch Hat) as (c & Esel & Hc & Hv & Hal). rewrite Esel.
  destruct (Hcands c Hc) as (Hne & Hlv & Hnd). destruct c as [|l0 ls]; [congruence|]. clear Hne.
  destruct (allocate_chain _ _ _ _ _ _ Hal Hnd (fun l Hl => proj2 (Hlv l Hl))) as (jh & Er0 & Ej & _ & _).
  pose proof (is_valid_all _ _ _ _ Hv) as Hvl.
  (* locjobs after the allocation *)
  assert (Hlj : (forall key js j0, lookup key (locjobs st) = Some js -> In j0 js -> exists js', lookup key (locjobs st') = Some js' /\ In j0 js') /\
                (forall l, In l (l0 :: ls) -> exists js', lookup (req_key l) (locjobs st') = Some js' /\ In job js')).
  { unfold allocate in Hal. rewrite Er0 in Hal. cbn [concat] in Hal. rewrite app_nil_r in Hal.
    apply fold_reserve_locjobs in Hal. exact Hal. }
  destruct Hlj as [Hmono Hnew].
  set (c := l0 :: ls) in *. set (R' := upd R job (resv reqs c)).
  assert (HR' : forall j, j <> job -> R' j = R j).
  { intros j Hj. unfold R', upd. destruct (String.eqb_spec j job); [congruence|reflexivity]. }
  assert (HRj : R' job = resv reqs c) by (unfold R', upd; rewrite String.eqb_refl; reflexivity).
  assert (Hcounts : forall l, In l locs -> nactive2 st R (lv_name l) <= Z.of_nat (length (running_jobs st job l)))
    by (intros l Hl; apply (count_le2 st G R job l HI HS Hl)).
  destruct HS as [J N]. destruct HI as (K & _).
  split.
  - intros j a c1 d n Hi Ha Hlocs Hdn. rewrite Ej in Hi. apply in_dset in Hi; [|exact K].
    destruct Hi as [[Ej' Ea]|[Hne Hi]].
    + subst j a. simpl in Hlocs. inversion Hlocs. subst c1.
      assert (Hdn' : In (d, n) (map (fun l => (lv_dep l, lv_name l)) (l0 :: ls))) by exact Hdn. apply in_map_iff in Hdn'.
      destruct Hdn' as (l & Ep & Hl). inversion Ep. subst d n. apply (Hnew l Hl).
    + destruct (J j a c1 d n Hi Ha Hlocs Hdn) as (js & Ejs & Hjs). apply (Hmono _ _ _ Ejs Hjs).
  - intros l2 Hl2 Hc2. unfold nactive2. rewrite Ej, sumk_dset.
    assert (Hold : match lookup job (jobs st) with Some old => cnt2 R' (lv_name l2) job old | None => 0 end = 0).
    { unfold job_active in Hna. destruct (lookup job (jobs st)) as [old|]; [|reflexivity]. unfold cnt2. rewrite Hna. reflexivity. }
    rewrite Hold.
    assert (Hext : sumk (cnt2 R' (lv_name l2)) (jobs st) = nactive2 st R (lv_name l2)).
    { unfold nactive2. apply sumk_ext. intros k a Hi. unfold cnt2.
      destruct (String.eqb_spec k job) as [Ek|Ek]; [|rewrite (HR' k Ek); reflexivity].
      subst k. unfold job_active in Hna. rewrite (in_lookup _ _ _ K Hi) in Hna. rewrite Hna. reflexivity. }
    rewrite Hext. unfold cnt2. cbn [a_status is_active andb]. rewrite HRj, resv_names.
    destruct (mem_str (lv_name l2) (names c)) eqn:Em.
    + apply mem_str_in in Em. unfold names in Em. apply in_map_iff in Em. destruct Em as (l & En & Hl).
      assert (l = l2) by (apply locs_names; [apply (Hlv l Hl)|exact Hl2|exact En]). subst l.
      pose proof (Hvl l2 Hl) as Hv2. rewrite (slot_level_valid st reqs job l2 Hc2) in Hv2. injection Hv2 as Hlt.
      apply N.ltb_lt in Hlt. fold (slots_of l2) in Hlt. specialize (Hcounts l2 Hl2).
      assert (Z.of_nat (length (running_jobs st job l2)) < Z.of_N (slots_of l2)) by lia. lia.
    + specialize (N l2 Hl2 Hc2). lia.
Qed.

Lemma invs2_notify st G R job new fls st' :
  Inv2 locs st G R -> InvS2 st R -> conf2 st R (ENotify job new fls) ->
  notify st job new fls = Ok st' -> InvS2 st' R.
Proof.
  intros HI HS Hconf Hno. simpl in Hconf.
  destruct (lookup job (jobs st)) as [a|] eqn:Hl.
  2:{ unfold notify in Hno. rewrite Hl in Hno. inversion Hno. subst. exact HS. }
  destruct Hconf as (Hc1 & Hc2 & _).
  pose proof (notify_jobs _ _ _ _ _ _ Hl Hno) as Ej.
  destruct (notify_locjobs _ _ _ _ _ _ Hl Hno) as [Hlj1 Hlj2].
  destruct (status_cases (a_status a) new Hc1 Hc2) as [Hs1 Hs2].
  set (a' := mkalloc new (if status_eqb new Rollback then [] else a_locs a) (a_hw a)) in *.
  rewrite <- (dset_present job a' a _ Hl) in Ej.
  destruct HI as (K & _). destruct HS as [J N].
  pose proof (lookup_some_in _ _ _ Hl) as Hina.
  assert (Hact' : is_active new = true -> is_active (a_status a) = true /\ a_locs a' = a_locs a /\ status_eqb new Rollback = false).
  { intros Hx. split.
    - destruct (releases (a_status a) new) eqn:Erel; [destruct (Hs2 eq_refl); congruence|rewrite <- (Hs1 eq_refl); exact Hx].
    - unfold a'. simpl. destruct new; simpl in *; try discriminate; auto. }
  assert (Hcnt : forall nm, cnt2 R nm job a' <= cnt2 R nm job a).
  { intros nm. unfold cnt2. change (a_status a') with new. destruct (is_active new) eqn:En.
    - destruct (Hact' eq_refl) as (Hp & _). rewrite Hp. lia.
    - simpl. destruct (_ && _); lia. }
  split.
  - intros j a0 c d n Hi Ha Hlocs Hdn. rewrite Ej in Hi. apply in_dset in Hi; [|exact K].
    destruct Hi as [[Ej' Ea]|[Hne Hi]].
    + subst. change (a_status a') with new in Ha. destruct (Hact' Ha) as (Hp & Hlocs' & Hnr).
      rewrite (Hlj1 Hnr). rewrite Hlocs' in Hlocs. apply (J job a c d n Hina Hp Hlocs Hdn).
    + destruct (J j a0 c d n Hi Ha Hlocs Hdn) as (js & Ejs & Hjs). apply (Hlj2 _ _ _ Ejs Hjs Hne).
  - intros l2 Hl2 Hcap2. unfold nactive2. rewrite Ej, sumk_dset, Hl. fold (nactive2 st R (lv_name l2)).
    specialize (N l2 Hl2 Hcap2). specialize (Hcnt (lv_name l2)). lia.
Qed.

Theorem invs2_run es : forall st G R st',
  Inv2 locs st G R -> InvS2 st R -> conformant2 locs st R es -> run st es = Ok st' -> InvS2 st' (reservations st R es).
Proof.
  induction es as [|e es IH]; simpl; intros st G R st' HI HS Hc Hr.
  - inversion Hr. subst. exact HS.
  - destruct Hc as (Hok & Hcf & Hrest). destruct (step st e) as [s|] eqn:Es; simpl in Hr; [|discriminate].
    apply (IH s (gstepG st R e G) _ st'); [eapply inv2_step; eauto| |exact Hrest|exact Hr].
    destruct e as [job cands reqs n chosen|job new fls]; simpl in Es.
    + destruct (attempt st job cands reqs n chosen) as [[[s0 vn] al]|] eqn:Ea; simpl in Es; [|discriminate].
      inversion Es. subst. eapply invs2_attempt; eauto.
    + cbn [gstepR]. eapply invs2_notify; eauto.
Qed.

(* C10_capacity_slots_stacked *)
Theorem slots_stacked p q st l :
  conformant2 locs init (fun _ => []) (p ++ q) -> run init p = Ok st -> In l locs -> lv_cap l = None ->
  nactive2 st (reservations init (fun _ => []) p) (lv_name l) <= Z.of_N (slots_of l).
Proof.
  intros Hc Hr Hl Hcap. apply conformant2_prefix in Hc.
  destruct (invs2_run p init g0 _ st (inv2_init locs) invs2_init Hc Hr) as [_ N]. apply N; assumption.
Qed.
End StackedSlots.
