(* Sched/History.v — invariants over whole histories of Sched/Model.v (C10_capacity, C11_release).

   Domain (stated as hypotheses of the theorems, nothing else is assumed):
     * locations are flat (one level: not stacked) and every allocation takes ONE location (target.locations = 1);
       the boundary is witnessed by C10_shared_inner_refuted / C11_shared_inner_leak_refuted (shared inner level,
       several locations per target);
     * location names identify locations; declared capacities are well formed and have a "/" mount point;
     * requirements are well formed with non-negative cores and memory;
     * lifecycle (conformance): a job is evaluated for scheduling only while it is not fireable/running; RUNNING is
       notified only to a fireable or running job, FIREABLE only to a fireable one (i.e. repeated);
       any other status at any time, repeated any number of times, in any order;
     * du never reports more than was reserved on a mount point (otherwise the ledger may exceed the capacity and
       the real code raises in the next _is_valid). *)
From Coq Require Import List Bool ZArith NArith Lia.
From SF Require Import Base.Str Hardware.Model Hardware.Proofs Sched.Model Sched.Proofs.
Import ListNotations.
Local Open Scope string_scope. Local Open Scope list_scope. Local Open Scope Z_scope.

(* ------------------------------------------------------------------ measures *)
Inductive meas := MC | MM | MS (m : string).
Definition mu (h : hw) (x : meas) : Z :=
  match x with MC => cores h | MM => mem h | MS m => size_at h m end.
Definition mu_o (o : option hw) (x : meas) : Z := match o with Some h => mu h x | None => 0 end.
Definition mounts_o (o : option hw) : list string := match o with Some h => mounts h | None => [] end.
(* well-formed requirement: Python Hardware with non-negative cores and memory *)
Definition wfr (h : hw) : Prop := wf h /\ 0 <= cores h /\ 0 <= mem h.

Lemma mu_nonneg h x : wfr h -> 0 <= mu h x.
Proof.
  intros [[_ Hn] [Hc Hm]]. destruct x; simpl; auto. unfold size_at. apply total_nonneg. exact Hn.
Qed.

(* ------------------------------------------------------------------ association lists *)
Lemma lookup_replace_other {V} k k' (v : V) m : k' <> k -> lookup k' (replace k v m) = lookup k' m.
Proof.
  intros Hne. induction m as [|[k0 v0] m IH]; simpl; [reflexivity|].
  destruct (String.eqb_spec k k0) as [E|E]; simpl.
  - subst. destruct (String.eqb_spec k' k0); [congruence|reflexivity].
  - rewrite IH. reflexivity.
Qed.
Lemma lookup_app_other {V} k k' (v : V) m : k' <> k -> lookup k' (m ++ [(k, v)]) = lookup k' m.
Proof.
  intros Hne. induction m as [|[k0 v0] m IH]; simpl.
  - destruct (String.eqb_spec k' k); [congruence|reflexivity].
  - rewrite IH. reflexivity.
Qed.
Lemma lookup_dset_other {V} k k' (v : V) m : k' <> k -> lookup k' (dset k v m) = lookup k' m.
Proof.
  intros Hne. unfold dset. destruct (lookup k m); [apply lookup_replace_other|apply lookup_app_other]; exact Hne.
Qed.
Lemma keys_dset {V} k (v : V) m :
  keys (dset k v m) = match lookup k m with Some _ => keys m | None => keys m ++ [k] end.
Proof. unfold dset. destruct (lookup k m); [apply keys_replace|rewrite keys_app; reflexivity]. Qed.
Lemma NoDup_keys_dset {V} k (v : V) m : NoDup (keys m) -> NoDup (keys (dset k v m)).
Proof.
  intros H. rewrite keys_dset. destruct (lookup k m) eqn:E; [exact H|].
  apply NoDup_snoc; [exact H|apply lookup_none_notin; exact E].
Qed.
Lemma in_lookup {V} k (v : V) m : NoDup (keys m) -> In (k, v) m -> lookup k m = Some v.
Proof.
  induction m as [|[k0 v0] m IH]; simpl; intros Hn Hi; [contradiction|].
  inversion Hn as [|? ? Hni Hn']. subst. destruct Hi as [Hi|Hi].
  - inversion Hi. subst. rewrite String.eqb_refl. reflexivity.
  - destruct (String.eqb_spec k k0) as [E|E].
    + subst. exfalso. apply Hni. unfold keys. change k0 with (fst (k0, v)). apply in_map. exact Hi.
    + apply IH; assumption.
Qed.
Lemma in_dset {V} k (v : V) m j a :
  NoDup (keys m) -> In (j, a) (dset k v m) -> (j = k /\ a = v) \/ (j <> k /\ In (j, a) m).
Proof.
  intros Hn Hi. pose proof (NoDup_keys_dset k v m Hn) as Hn'.
  apply (in_lookup _ _ _ Hn') in Hi.
  destruct (String.eqb_spec j k) as [E|E].
  - subst. rewrite lookup_dset in Hi. inversion Hi. left. split; reflexivity.
  - rewrite lookup_dset_other in Hi by exact E. right. split; [exact E|]. apply lookup_some_in. exact Hi.
Qed.

(* ------------------------------------------------------------------ sums over the job table *)
Fixpoint sumf (f : alloc -> Z) (m : list (string * alloc)) : Z :=
  match m with [] => 0 | (_, a) :: m' => f a + sumf f m' end.
Lemma sumf_app f a b : sumf f (a ++ b) = sumf f a + sumf f b.
Proof. induction a as [|[k v] a IH]; simpl; [reflexivity|]. rewrite IH. lia. Qed.
Lemma sumf_replace f k v m old :
  lookup k m = Some old -> sumf f (replace k v m) = sumf f m - f old + f v.
Proof.
  induction m as [|[k0 v0] m IH]; simpl; [discriminate|].
  destruct (String.eqb k k0); intros H.
  - inversion H. subst. simpl. lia.
  - simpl. rewrite IH by exact H. lia.
Qed.
Lemma sumf_dset f k v m :
  sumf f (dset k v m) = sumf f m - (match lookup k m with Some old => f old | None => 0 end) + f v.
Proof.
  unfold dset. destruct (lookup k m) eqn:E.
  - apply sumf_replace. exact E.
  - rewrite sumf_app. simpl. lia.
Qed.
Lemma sumf_nonneg f m : (forall k a, In (k, a) m -> 0 <= f a) -> 0 <= sumf f m.
Proof.
  induction m as [|[k v] m IH]; simpl; intros H; [lia|].
  assert (0 <= f v) by (apply (H k); left; reflexivity).
  assert (0 <= sumf f m) by (apply IH; intros k' a' Hi; apply (H k'); right; exact Hi). lia.
Qed.
Lemma sumf_ge f m k a : (forall k a, In (k, a) m -> 0 <= f a) -> In (k, a) m -> f a <= sumf f m.
Proof.
  induction m as [|[k0 v0] m IH]; simpl; intros H Hi; [contradiction|].
  assert (0 <= f v0) by (apply (H k0); left; reflexivity).
  assert (0 <= sumf f m) by (apply sumf_nonneg; intros k' a' Hi'; apply (H k'); right; exact Hi').
  destruct Hi as [Hi|Hi].
  - inversion Hi. subst. lia.
  - assert (f a <= sumf f m) by (apply IH; [intros k' a' Hi'; apply (H k'); right; exact Hi'|exact Hi]). lia.
Qed.
Lemma sumf_zero f m : (forall k a, In (k, a) m -> f a = 0) -> sumf f m = 0.
Proof.
  induction m as [|[k v] m IH]; simpl; intros H; [reflexivity|].
  rewrite (H k v) by (left; reflexivity). rewrite IH; [reflexivity|]. intros k' a' Hi. apply (H k'). right. exact Hi.
Qed.

(* the single location of an allocation (None: no location / not of the flat single-location shape) *)
Definition loc_of (a : alloc) : option string :=
  match a_locs a with
  | [c] => match c with [(_, n)] => Some n | _ => None end
  | _ => None
  end.
Definition on (nm : string) (a : alloc) : bool :=
  match loc_of a with Some n => String.eqb n nm | None => false end.
(* contribution of one job to the hardware reserved on location nm *)
Definition contrib (nm : string) (x : meas) (a : alloc) : Z :=
  if is_active (a_status a) && on nm a then mu (a_hw a) x else 0.
(* ... and to the number of fireable/running jobs there *)
Definition cnt (nm : string) (a : alloc) : Z := if is_active (a_status a) && on nm a then 1 else 0.
Definition reserved (st : sstate) (nm : string) (x : meas) : Z := sumf (contrib nm x) (jobs st).
Definition nactive (st : sstate) (nm : string) : Z := sumf (cnt nm) (jobs st).
Definition job_active (st : sstate) (j : string) : bool :=
  match lookup j (jobs st) with Some a => is_active (a_status a) | None => false end.

(* ------------------------------------------------------------------ the C14 laws in terms of measures *)
Lemma mu_add a b : wf a -> wf b ->
  exists r, hw_add a b = Ok r /\ wf r /\ (forall x, mu r x = mu a x + mu b x) /\
    (forall m, In m (mounts r) <-> In m (mounts a) \/ In m (mounts b)).
Proof.
  intros Wa Wb. destruct (hw_add_spec a b Wa Wb) as (r & E & W & _ & _ & H1 & H2 & H3 & H4).
  exists r. split; [exact E|]. split; [exact W|]. split; [|exact H4].
  intros [| |m]; simpl; auto.
Qed.

Lemma mu_sub x b : wf x -> wf b ->
  (forall m, In m (mounts b) -> In m (mounts x)) -> (forall m, size_at b m <= size_at x m) ->
  exists r, hw_sub x b = Ok r /\ wf r /\ (forall y, mu r y = mu x y - mu b y) /\
    (forall m, In m (mounts r) <-> In m (mounts x)).
Proof.
  intros Wx Wb Hm Hs. destruct (hw_sub_spec x b Wx Wb Hm Hs) as (r & E & W & _ & _ & H1 & H2 & H3 & H4).
  exists r. split; [exact E|]. split; [exact W|]. split; [|exact H4].
  intros [| |m]; simpl; auto.
Qed.

Definition norm' (a : hw) : res hw := if is_normalized a then Ok a else normalized a.
Lemma mu_norm' a : wf a ->
  exists j, norm' a = Ok j /\ wf j /\ (forall x, mu j x = mu a x) /\ (forall m, In m (mounts j) <-> In m (mounts a)).
Proof.
  intros W. unfold norm'. destruct (is_normalized a).
  - exists a. split; [reflexivity|]. split; [exact W|]. split; [reflexivity|]. intros m. tauto.
  - destruct (norm_spec a W) as (n & E & Wn & _ & _ & _ & H1 & H2 & H3 & H4).
    exists n. split; [exact E|]. split; [exact Wn|]. split; [|exact H4]. intros [| |m]; simpl; auto.
Qed.
Lemma mu_normalized a : wf a ->
  exists n, normalized a = Ok n /\ wf n /\ (forall x, mu n x = mu a x) /\ (forall m, In m (mounts n) <-> In m (mounts a)).
Proof.
  intros W. destruct (norm_spec a W) as (n & E & Wn & _ & _ & _ & H1 & H2 & H3 & H4).
  exists n. split; [exact E|]. split; [exact Wn|]. split; [|exact H4]. intros [| |m]; simpl; auto.
Qed.

(* the hardware built from a du result *)
Lemma usage_fold_spec jh kv : forall acc s,
  fold_left (fun acc ks => a <- acc ;;
               match lookup (fst ks) (stor jh) with
               | None => Err MissingMount
               | Some d => st <- new_storage (mount d) (snd ks) [] None ;; Ok (a ++ [(fst ks, st)])
               end) kv (Ok acc) = Ok s ->
  nonneg (values acc) -> (forall m, In m (map mount (values acc)) -> In m (mounts jh)) ->
  nonneg (values s) /\ (forall m, In m (map mount (values s)) -> In m (mounts jh)).
Proof.
  induction kv as [|[k v] kv IH]; simpl; intros acc s H Hn Hm.
  - inversion H. subst. split; assumption.
  - destruct (lookup k (stor jh)) as [d|] eqn:El.
    + unfold new_storage in H. destruct (Z.ltb_spec v 0).
      * simpl in H. clear -H. exfalso. induction kv as [|[k' v'] kv IH]; simpl in H; [discriminate|]. apply IH. exact H.
      * simpl in H. apply (IH _ _ H).
        -- rewrite values_app. apply nonneg_app; [exact Hn|]. intros d' [Hd|[]]. subst. simpl. exact H0.
        -- intros m. rewrite values_app, map_app, in_app_iff. simpl. intros [Hi|[Hi|[]]]; [apply Hm; exact Hi|].
           subst. unfold mounts. apply in_map. apply lookup_some_in in El.
           unfold values. change d with (snd (k, d)). apply in_map. exact El.
    + exfalso. clear -H. induction kv as [|[k' v'] kv IH]; simpl in H; [discriminate|]. apply IH. exact H.
Qed.

Lemma usage_hw_spec jh u_in u : usage_hw jh u_in = Ok u ->
  wf u /\ cores u = 0 /\ mem u = 0 /\ (forall m, In m (mounts u) -> In m (mounts jh) \/ m = "/").
Proof.
  unfold usage_hw. destruct u_in as [kv|].
  - destruct (fold_left _ kv (Ok [])) as [s|] eqn:Ef; simpl; [|discriminate].
    intros H. inversion H. subst. clear H.
    destruct (usage_fold_spec jh kv [] s Ef) as [Hn Hm]; [intros d []|intros m []|].
    destruct s as [|p s].
    + simpl. split; [split; [discriminate|intros d [Hd|[]]; subst; simpl; lia]|].
      split; [reflexivity|]. split; [reflexivity|]. intros m [Hm'|[]]. right. symmetry. exact Hm'.
    + unfold new_hw. split; [split; [discriminate|exact Hn]|]. split; [reflexivity|]. split; [reflexivity|].
      intros m Hi. left. apply Hm. exact Hi.
  - intros H. inversion H. subst. split; [apply wf_default|]. split; [reflexivity|]. split; [reflexivity|].
    intros m [Hm|[]]. right. symmetry. exact Hm.
Qed.
