(* Sched/History.v — invariants over whole histories of Sched/Model.v (C10_capacity, C11_release).

   Domain (stated as hypotheses of the theorems, nothing else is assumed):
     * locations are flat (one level: not stacked) and every allocation takes ONE location (target.locations = 1);
       the boundary is witnessed by C10_shared_inner_refuted / C11_shared_inner_leak_refuted (shared inner level,
       several locations per target);
     * location names identify locations; declared capacities are well formed, non-negative and have a "/" mount point;
     * requirements are well formed with non-negative cores and memory;
     * lifecycle (conformance): a job is evaluated for scheduling only while it is not fireable/running; RUNNING is
       notified only to a fireable or running job, FIREABLE only to a fireable one (i.e. repeated);
       any other status at any time, repeated any number of times, in any order;
     * du never reports more than was reserved on a mount point (otherwise the ledger may exceed the capacity and
       the real code raises in the next _is_valid). *)
From Coq Require Import List Bool ZArith NArith Lia.
From SF Require Import Base.Str Hardware.Model Hardware.Proofs Sched.Model Sched.Proofs.
Import ListNotations.
Local Open Scope string_scope. Local Open Scope list_scope. Local Open Scope Z_scope.

(* ------------------------------------------------------------------ measures *)
Inductive meas := MC | MM | MS (m : string).
Definition mu (h : hw) (x : meas) : Z :=
  match x with MC => cores h | MM => mem h | MS m => size_at h m end.
Definition mu_o (o : option hw) (x : meas) : Z := match o with Some h => mu h x | None => 0 end.
Definition mounts_o (o : option hw) : list string := match o with Some h => mounts h | None => [] end.
(* well-formed requirement: Python Hardware with non-negative cores and memory *)
Definition wfr (h : hw) : Prop := wf h /\ 0 <= cores h /\ 0 <= mem h.

Lemma mu_nonneg h x : wfr h -> 0 <= mu h x.
Proof.
  intros [[_ Hn] [Hc Hm]]. destruct x; simpl; auto. unfold size_at. apply total_nonneg. exact Hn.
Qed.

(* ------------------------------------------------------------------ association lists *)
Lemma lookup_replace_other {V} k k' (v : V) m : k' <> k -> lookup k' (replace k v m) = lookup k' m.
Proof.
  intros Hne. induction m as [|[k0 v0] m IH]; simpl; [reflexivity|].
  destruct (String.eqb_spec k k0) as [E|E]; simpl.
  - subst. destruct (String.eqb_spec k' k0); [congruence|reflexivity].
  - rewrite IH. reflexivity.
Qed.
Lemma lookup_app_other {V} k k' (v : V) m : k' <> k -> lookup k' (m ++ [(k, v)]) = lookup k' m.
Proof.
  intros Hne. induction m as [|[k0 v0] m IH]; simpl.
  - destruct (String.eqb_spec k' k); [congruence|reflexivity].
  - rewrite IH. reflexivity.
Qed.
Lemma lookup_dset_other {V} k k' (v : V) m : k' <> k -> lookup k' (dset k v m) = lookup k' m.
Proof.
  intros Hne. unfold dset. destruct (lookup k m); [apply lookup_replace_other|apply lookup_app_other]; exact Hne.
Qed.
Lemma keys_dset {V} k (v : V) m :
  keys (dset k v m) = match lookup k m with Some _ => keys m | None => keys m ++ [k] end.
Proof. unfold dset. destruct (lookup k m); [apply keys_replace|rewrite keys_app; reflexivity]. Qed.
Lemma NoDup_keys_dset {V} k (v : V) m : NoDup (keys m) -> NoDup (keys (dset k v m)).
Proof.
  intros H. rewrite keys_dset. destruct (lookup k m) eqn:E; [exact H|].
  apply NoDup_snoc; [exact H|apply lookup_none_notin; exact E].
Qed.
Lemma in_lookup {V} k (v : V) m : NoDup (keys m) -> In (k, v) m -> lookup k m = Some v.
Proof.
  induction m as [|[k0 v0] m IH]; simpl; intros Hn Hi; [contradiction|].
  inversion Hn as [|? ? Hni Hn']. subst. destruct Hi as [Hi|Hi].
  - inversion Hi. subst. rewrite String.eqb_refl. reflexivity.
  - destruct (String.eqb_spec k k0) as [E|E].
    + subst. exfalso. apply Hni. unfold keys. change k0 with (fst (k0, v)). apply in_map. exact Hi.
    + apply IH; assumption.
Qed.
Lemma in_dset {V} k (v : V) m j a :
  NoDup (keys m) -> In (j, a) (dset k v m) -> (j = k /\ a = v) \/ (j <> k /\ In (j, a) m).
Proof.
  intros Hn Hi. pose proof (NoDup_keys_dset k v m Hn) as Hn'.
  apply (in_lookup _ _ _ Hn') in Hi.
  destruct (String.eqb_spec j k) as [E|E].
  - subst. rewrite lookup_dset in Hi. inversion Hi. left. split; reflexivity.
  - rewrite lookup_dset_other in Hi by exact E. right. split; [exact E|]. apply lookup_some_in. exact Hi.
Qed.

(* ------------------------------------------------------------------ sums over the job table *)
Fixpoint sumf (f : alloc -> Z) (m : list (string * alloc)) : Z :=
  match m with [] => 0 | (_, a) :: m' => f a + sumf f m' end.
Lemma sumf_app f a b : sumf f (a ++ b) = sumf f a + sumf f b.
Proof. induction a as [|[k v] a IH]; simpl; [reflexivity|]. rewrite IH. lia. Qed.
Lemma sumf_replace f k v m old :
  lookup k m = Some old -> sumf f (replace k v m) = sumf f m - f old + f v.
Proof.
  induction m as [|[k0 v0] m IH]; simpl; [discriminate|].
  destruct (String.eqb k k0); intros H.
  - inversion H. subst. simpl. lia.
  - simpl. rewrite IH by exact H. lia.
Qed.
Lemma sumf_dset f k v m :
  sumf f (dset k v m) = sumf f m - (match lookup k m with Some old => f old | None => 0 end) + f v.
Proof.
  unfold dset. destruct (lookup k m) eqn:E.
  - apply sumf_replace. exact E.
  - rewrite sumf_app. simpl. lia.
Qed.
Lemma sumf_nonneg f m : (forall k a, In (k, a) m -> 0 <= f a) -> 0 <= sumf f m.
Proof.
  induction m as [|[k v] m IH]; simpl; intros H; [lia|].
  assert (0 <= f v) by (apply (H k); left; reflexivity).
  assert (0 <= sumf f m) by (apply IH; intros k' a' Hi; apply (H k'); right; exact Hi). lia.
Qed.
Lemma sumf_ge f m k a : (forall k a, In (k, a) m -> 0 <= f a) -> In (k, a) m -> f a <= sumf f m.
Proof.
  induction m as [|[k0 v0] m IH]; simpl; intros H Hi; [contradiction|].
  assert (0 <= f v0) by (apply (H k0); left; reflexivity).
  assert (0 <= sumf f m) by (apply sumf_nonneg; intros k' a' Hi'; apply (H k'); right; exact Hi').
  destruct Hi as [Hi|Hi].
  - inversion Hi. subst. lia.
  - assert (f a <= sumf f m) by (apply IH; [intros k' a' Hi'; apply (H k'); right; exact Hi'|exact Hi]). lia.
Qed.
Lemma sumf_zero f m : (forall k a, In (k, a) m -> f a = 0) -> sumf f m = 0.
Proof.
  induction m as [|[k v] m IH]; simpl; intros H; [reflexivity|].
  rewrite (H k v) by (left; reflexivity). rewrite IH; [reflexivity|]. intros k' a' Hi. apply (H k'). right. exact Hi.
Qed.

(* the single location of an allocation (None: no location / not of the flat single-location shape) *)
Definition loc_of (a : alloc) : option string :=
  match a_locs a with
  | [c] => match c with [(_, n)] => Some n | _ => None end
  | _ => None
  end.
Definition on (nm : string) (a : alloc) : bool :=
  match loc_of a with Some n => String.eqb n nm | None => false end.
(* contribution of one job to the hardware reserved on location nm *)
Definition contrib (nm : string) (x : meas) (a : alloc) : Z :=
  if is_active (a_status a) && on nm a then mu (a_hw a) x else 0.
(* ... and to the number of fireable/running jobs there *)
Definition cnt (nm : string) (a : alloc) : Z := if is_active (a_status a) && on nm a then 1 else 0.
Definition reserved (st : sstate) (nm : string) (x : meas) : Z := sumf (contrib nm x) (jobs st).
Definition nactive (st : sstate) (nm : string) : Z := sumf (cnt nm) (jobs st).
Definition job_active (st : sstate) (j : string) : bool :=
  match lookup j (jobs st) with Some a => is_active (a_status a) | None => false end.

(* ------------------------------------------------------------------ the C14 laws in terms of measures *)
Lemma mu_add a b : wf a -> wf b ->
  exists r, hw_add a b = Ok r /\ wf r /\ (forall x, mu r x = mu a x + mu b x) /\
    (forall m, In m (mounts r) <-> In m (mounts a) \/ In m (mounts b)).
Proof.
  intros Wa Wb. destruct (hw_add_spec a b Wa Wb) as (r & E & W & _ & _ & H1 & H2 & H3 & H4).
  exists r. split; [exact E|]. split; [exact W|]. split; [|exact H4].
  intros [| |m]; simpl; auto.
Qed.

Lemma mu_sub x b : wf x -> wf b ->
  (forall m, In m (mounts b) -> In m (mounts x)) -> (forall m, size_at b m <= size_at x m) ->
  exists r, hw_sub x b = Ok r /\ wf r /\ (forall y, mu r y = mu x y - mu b y) /\
    (forall m, In m (mounts r) <-> In m (mounts x)).
Proof.
  intros Wx Wb Hm Hs. destruct (hw_sub_spec x b Wx Wb Hm Hs) as (r & E & W & _ & _ & H1 & H2 & H3 & H4).
  exists r. split; [exact E|]. split; [exact W|]. split; [|exact H4].
  intros [| |m]; simpl; auto.
Qed.

Definition norm' (a : hw) : res hw := if is_normalized a then Ok a else normalized a.
Lemma mu_norm' a : wf a ->
  exists j, norm' a = Ok j /\ wf j /\ (forall x, mu j x = mu a x) /\ (forall m, In m (mounts j) <-> In m (mounts a)).
Proof.
  intros W. unfold norm'. destruct (is_normalized a).
  - exists a. split; [reflexivity|]. split; [exact W|]. split; [reflexivity|]. intros m. tauto.
  - destruct (norm_spec a W) as (n & E & Wn & _ & _ & _ & H1 & H2 & H3 & H4).
    exists n. split; [exact E|]. split; [exact Wn|]. split; [|exact H4]. intros [| |m]; simpl; auto.
Qed.
Lemma mu_normalized a : wf a ->
  exists n, normalized a = Ok n /\ wf n /\ (forall x, mu n x = mu a x) /\ (forall m, In m (mounts n) <-> In m (mounts a)).
Proof.
  intros W. destruct (norm_spec a W) as (n & E & Wn & _ & _ & _ & H1 & H2 & H3 & H4).
  exists n. split; [exact E|]. split; [exact Wn|]. split; [|exact H4]. intros [| |m]; simpl; auto.
Qed.

(* the hardware built from a du result *)
Lemma usage_fold_spec jh kv : forall acc s,
  fold_left (fun acc ks => a <- acc ;;
               match lookup (fst ks) (stor jh) with
               | None => Err MissingMount
               | Some d => st <- new_storage (mount d) (snd ks) [] None ;; Ok (a ++ [(fst ks, st)])
               end) kv (Ok acc) = Ok s ->
  nonneg (values acc) -> (forall m, In m (map mount (values acc)) -> In m (mounts jh)) ->
  nonneg (values s) /\ (forall m, In m (map mount (values s)) -> In m (mounts jh)).
Proof.
  induction kv as [|[k v] kv IH]; simpl; intros acc s H Hn Hm.
  - inversion H. subst. split; assumption.
  - destruct (lookup k (stor jh)) as [d|] eqn:El.
    + unfold new_storage in H. destruct (Z.ltb_spec v 0).
      * simpl in H. clear -H. exfalso. induction kv as [|[k' v'] kv IH]; simpl in H; [discriminate|]. apply IH. exact H.
      * simpl in H. apply (IH _ _ H).
        -- rewrite values_app. apply nonneg_app; [exact Hn|]. intros d' [Hd|[]]. subst. simpl. exact H0.
        -- intros m. rewrite values_app, map_app, in_app_iff. simpl. intros [Hi|[Hi|[]]]; [apply Hm; exact Hi|].
           subst. unfold mounts. apply in_map. apply lookup_some_in in El.
           unfold values. change d with (snd (k, d)). apply in_map. exact El.
    + exfalso. clear -H. induction kv as [|[k' v'] kv IH]; simpl in H; [discriminate|]. apply IH. exact H.
Qed.

Lemma usage_hw_spec jh u_in u : usage_hw jh u_in = Ok u ->
  wf u /\ cores u = 0 /\ mem u = 0 /\ (forall m, In m (mounts u) -> In m (mounts jh) \/ m = "/").
Proof.
  unfold usage_hw. destruct u_in as [kv|].
  - destruct (fold_left _ kv (Ok [])) as [s|] eqn:Ef; simpl; [|discriminate].
    intros H. inversion H. subst. clear H.
    destruct (usage_fold_spec jh kv [] s Ef) as [Hn Hm]; [intros d []|intros m []|].
    destruct s as [|p s].
    + simpl. split; [split; [discriminate|intros d [Hd|[]]; subst; simpl; lia]|].
      split; [reflexivity|]. split; [reflexivity|]. intros m [Hm'|[]]. right. symmetry. exact Hm'.
    + unfold new_hw. split; [split; [discriminate|exact Hn]|]. split; [reflexivity|]. split; [reflexivity|].
      intros m Hi. left. apply Hm. exact Hi.
  - intros H. inversion H. subst. split; [apply wf_default|]. split; [reflexivity|]. split; [reflexivity|].
    intros m [Hm|[]]. right. symmetry. exact Hm.
Qed.

(* ------------------------------------------------------------------ shapes of the two events on the flat domain *)
Lemma pick_length v names : (length (pick v names) <= length names)%nat.
Proof.
  unfold pick. induction names as [|nm names IH]; simpl; [lia|].
  rewrite app_length. destruct (find _ v); simpl; lia.
Qed.

Lemma attempt_single st job cands reqs chosen s' vn :
  (length chosen <= 1)%nat ->
  attempt st job cands reqs 1 chosen = Ok (s', vn, true) ->
  exists c, In c cands /\ is_valid st reqs job c = Ok true /\ allocate st job reqs [c] = Ok s'.
Proof.
  intros Hch. unfold attempt. destruct (valid_locations st reqs job cands) as [v|] eqn:Ev; cbn [bind_res]; [|discriminate].
  destruct (Nat.leb 1 (length v)); [|intros H; inversion H].
  assert (Hsel : (forall c, In c (if Nat.eqb (length v) 1 then v else pick v chosen) -> In c v) /\
                 (length (if Nat.eqb (length v) 1 then v else pick v chosen) <= 1)%nat).
  { destruct (Nat.eqb_spec (length v) 1) as [E|E].
    - split; [auto|lia].
    - split; [intros c Hc; eapply pick_in; exact Hc|]. pose proof (pick_length v chosen). lia. }
  destruct Hsel as [Hin Hlen].
  destruct (if Nat.eqb (length v) 1 then v else pick v chosen) as [|c0 sel']; [intros H; inversion H|].
  destruct sel' as [|c1 sel'']; [|simpl in Hlen; lia].
  destruct (allocate st job reqs [c0]) as [s|] eqn:Ea; cbn [bind_res fst]; [|discriminate].
  intros H. inversion H. subst. exists c0.
  destruct (valid_locations_spec _ _ _ _ _ Ev c0 (Hin c0 (or_introl eq_refl))) as [H1 H2].
  split; [exact H1|]. split; [exact H2|exact Ea].
Qed.

Lemma is_valid_single st reqs job l : is_valid st reqs job [l] = Ok true -> level_valid st reqs job l = Ok true.
Proof.
  simpl. destruct (level_valid st reqs job l) as [b|]; simpl; [|discriminate]. destruct b; [reflexivity|discriminate].
Qed.

Definition ledger_after (st : sstate) (nm : string) (rq : hw) : res hw :=
  match lookup nm (hwloc st) with Some cur => hw_add cur rq | None => normalized rq end.

Lemma allocate_single st job reqs l s' :
  allocate st job reqs [[l]] = Ok s' ->
  exists jh h, lookup (req_key l) reqs = Some jh /\ ledger_after st (lv_name l) jh = Ok h /\
    jobs s' = dset job (mkalloc Fireable [[(lv_dep l, lv_name l)]] jh) (jobs st) /\
    hwloc s' = dset (lv_name l) h (hwloc st) /\
    locjobs s' = dset (req_key l) (match lookup (req_key l) (locjobs st) with Some js => js ++ [job] | None => [job] end)
                      (locjobs st).
Proof.
  unfold allocate. destruct (lookup (req_key l) reqs) as [jh|] eqn:Er; [|discriminate].
  simpl. rewrite Er. unfold ledger_after.
  destruct (lookup (lv_name l) (hwloc st)) as [cur|] eqn:Ec; simpl.
  - destruct (hw_add cur jh) as [h|] eqn:Eh; simpl; [|discriminate].
    intros H. inversion H. subst. exists jh, h. simpl. auto.
  - destruct (normalized jh) as [h|] eqn:Eh; simpl; [|discriminate].
    intros H. inversion H. subst. exists jh, h. simpl. auto.
Qed.

Lemma status_cases prev new :
  (new = Running -> is_active prev = true) -> (new = Fireable -> prev = Fireable) ->
  (releases prev new = false -> is_active new = is_active prev) /\
  (releases prev new = true -> is_active prev = true /\ is_active new = false).
Proof.
  intros H1 H2. destruct prev, new; simpl; split; intros H; try discriminate; try reflexivity; try (split; reflexivity);
    try (specialize (H1 eq_refl); discriminate); try (specialize (H2 eq_refl); discriminate).
Qed.

Lemma replace_replace {V} k (v v' : V) m : replace k v' (replace k v m) = replace k v' m.
Proof.
  induction m as [|[k0 v0] m IH]; simpl; [reflexivity|].
  destruct (String.eqb k k0) eqn:E; simpl; rewrite E; [reflexivity|]. rewrite IH. reflexivity.
Qed.

(* _free_resources touches only hardware_locations *)
Lemma free_loc_frame jh usage acc nm s1 :
  free_loc jh usage acc nm = Ok s1 -> exists st, acc = Ok st /\ jobs s1 = jobs st /\ locjobs s1 = locjobs st.
Proof.
  unfold free_loc. destruct acc as [st|]; simpl; [|discriminate].
  destruct (lookup nm (hwloc st)) as [cur|].
  - destruct (usage_hw jh _) as [u|]; simpl; [|discriminate].
    destruct (hw_sub cur jh) as [d|]; simpl; [|discriminate].
    destruct (hw_add d u) as [h|]; simpl; [|discriminate].
    intros H. inversion H. exists st. simpl. auto.
  - intros H. inversion H. exists s1. auto.
Qed.
Lemma free_loc_fold_frame' jh usage names : forall acc s,
  fold_left (free_loc jh usage) names acc = Ok s -> exists st, acc = Ok st /\ jobs s = jobs st /\ locjobs s = locjobs st.
Proof.
  induction names as [|nm names IH]; simpl; intros acc s H.
  - exists s. auto.
  - destruct (IH _ _ H) as (s1 & E1 & J1 & L1). destruct (free_loc_frame _ _ _ _ _ E1) as (st & E & J & L).
    exists st. split; [exact E|]. split; congruence.
Qed.
Lemma free_loc_fold_frame jh usage names st s :
  fold_left (free_loc jh usage) names (Ok st) = Ok s -> jobs s = jobs st /\ locjobs s = locjobs st.
Proof.
  intros H. destruct (free_loc_fold_frame' _ _ _ _ _ H) as (st0 & E & J & L). inversion E. subst. auto.
Qed.

Lemma free_levels_cons k locs jh fl fls st :
  free_levels k locs jh (fl :: fls) st =
  match nth_names k locs with
  | [] => Ok st
  | names =>
      jh1 <- norm' (match fl_hw fl with Some h => h | None => jh end) ;;
      s <- fold_left (free_loc jh1 (fl_usage fl)) names (Ok st) ;;
      free_levels (S k) locs jh1 fls s
  end.
Proof. reflexivity. Qed.
Lemma free_levels_nil k locs jh st :
  free_levels k locs jh [] st = match nth_names k locs with [] => Ok st | _ => Err MissingMount end.
Proof. reflexivity. Qed.

Lemma free_levels_frame fls : forall k locs jh st s,
  free_levels k locs jh fls st = Ok s -> jobs s = jobs st /\ locjobs s = locjobs st.
Proof.
  induction fls as [|fl fls IH]; intros k locs jh st s.
  - rewrite free_levels_nil. destruct (nth_names k locs); intros H; [inversion H; split; reflexivity|discriminate].
  - rewrite free_levels_cons. destruct (nth_names k locs) as [|n0 ns] eqn:En; intros H; [inversion H; split; reflexivity|].
    destruct (norm' _) as [jh1|]; cbn [bind_res] in H; [|discriminate].
    destruct (fold_left (free_loc jh1 (fl_usage fl)) (n0 :: ns) (Ok st)) as [s1|] eqn:Ef; cbn [bind_res] in H; [|discriminate].
    apply free_loc_fold_frame in Ef. apply IH in H. destruct Ef, H. split; congruence.
Qed.

(* releasing a flat single-location allocation *)
Lemma free_levels_flat d nm jh fls st s :
  free_levels 0 [[(d, nm)]] jh fls st = Ok s ->
  match lookup nm (hwloc st) with
  | None => hwloc s = hwloc st
  | Some cur =>
      exists fl rest jh1 u dd r, fls = fl :: rest /\
        norm' (match fl_hw fl with Some h => h | None => jh end) = Ok jh1 /\
        usage_hw jh1 (match lookup nm (fl_usage fl) with Some x => x | None => None end) = Ok u /\
        hw_sub cur jh1 = Ok dd /\ hw_add dd u = Ok r /\ hwloc s = dset nm r (hwloc st)
  end.
Proof.
  destruct fls as [|fl rest]; [rewrite free_levels_nil; simpl; discriminate|].
  rewrite free_levels_cons. cbn [nth_names flat_map nth_error app snd].
  destruct (norm' _) as [jh1|] eqn:En; cbn [bind_res]; [|discriminate].
  cbn [fold_left]. unfold free_loc at 1. cbn [bind_res].
  destruct (lookup nm (hwloc st)) as [cur|] eqn:Ec.
  - destruct (usage_hw jh1 _) as [u|] eqn:Eu; cbn [bind_res]; [|discriminate].
    destruct (hw_sub cur jh1) as [dd|] eqn:Ed; cbn [bind_res]; [|discriminate].
    destruct (hw_add dd u) as [r|] eqn:Er; cbn [bind_res]; [|discriminate].
    intros H. assert (Hs : hwloc s = dset nm r (hwloc st)).
    { destruct rest; simpl in H; inversion H; reflexivity. }
    exists fl, rest, jh1, u, dd, r. auto 10.
  - intros H. destruct rest; simpl in H; inversion H; reflexivity.
Qed.

Lemma notify_jobs st job new fls a st' :
  lookup job (jobs st) = Some a -> notify st job new fls = Ok st' ->
  jobs st' = replace job (mkalloc new (if status_eqb new Rollback then [] else a_locs a) (a_hw a)) (jobs st).
Proof.
  intros Hl. unfold notify. rewrite Hl. simpl.
  destruct (if releases (a_status a) new then _ else _) as [s2|] eqn:E2; simpl; [|discriminate].
  assert (Hj : jobs s2 = replace job (mkalloc new (a_locs a) (a_hw a)) (jobs st)).
  { destruct (releases (a_status a) new).
    - apply free_levels_frame in E2. destruct E2 as [E2 _]. exact E2.
    - inversion E2. reflexivity. }
  destruct (status_eqb new Rollback); intros H; inversion H; subst; simpl.
  - rewrite Hj. apply replace_replace.
  - exact Hj.
Qed.

Lemma notify_hwloc st job new fls a st' :
  lookup job (jobs st) = Some a -> notify st job new fls = Ok st' ->
  (releases (a_status a) new = false -> hwloc st' = hwloc st) /\
  (releases (a_status a) new = true -> forall d nm, a_locs a = [[(d, nm)]] ->
     match lookup nm (hwloc st) with
     | None => hwloc st' = hwloc st
     | Some cur =>
         exists fl rest jh1 u dd r, fls = fl :: rest /\
           norm' (match fl_hw fl with Some h => h | None => a_hw a end) = Ok jh1 /\
           usage_hw jh1 (match lookup nm (fl_usage fl) with Some x => x | None => None end) = Ok u /\
           hw_sub cur jh1 = Ok dd /\ hw_add dd u = Ok r /\ hwloc st' = dset nm r (hwloc st)
     end).
Proof.
  intros Hl. unfold notify. rewrite Hl. simpl.
  destruct (releases (a_status a) new) eqn:Erel.
  - destruct (free_levels 0 (a_locs a) (a_hw a) fls _) as [s2|] eqn:E2; simpl; [|discriminate].
    intros H. assert (Hh : hwloc st' = hwloc s2) by (destruct (status_eqb new Rollback); inversion H; reflexivity).
    split; [discriminate|]. intros _ d nm Hloc. rewrite Hloc in E2. apply free_levels_flat in E2. simpl in E2.
    rewrite Hh. exact E2.
  - simpl. intros H. split; [|discriminate]. intros _.
    destruct (status_eqb new Rollback); inversion H; reflexivity.
Qed.

(* ------------------------------------------------------------------ contributions *)
Lemma contrib_inactive nm x a : is_active (a_status a) = false -> contrib nm x a = 0.
Proof. intros H. unfold contrib. rewrite H. reflexivity. Qed.
Lemma contrib_at s d n jh nm x :
  contrib nm x (mkalloc s [[(d, n)]] jh) = if is_active s && String.eqb n nm then mu jh x else 0.
Proof. reflexivity. Qed.
Lemma contrib_nonneg nm x a : wfr (a_hw a) -> 0 <= contrib nm x a.
Proof. intros H. unfold contrib. destruct (_ && _); [apply mu_nonneg; exact H|lia]. Qed.
Lemma cnt_inactive nm a : is_active (a_status a) = false -> cnt nm a = 0.
Proof. intros H. unfold cnt. rewrite H. reflexivity. Qed.

Lemma dset_present {V} k (v old : V) m : lookup k m = Some old -> dset k v m = replace k v m.
Proof. intros H. unfold dset. rewrite H. reflexivity. Qed.

Lemma size_at_default m : size_at default_hw m = 0.
Proof.
  unfold size_at. change (values (stor default_hw)) with [root_storage]. unfold total.
  destruct (String.eqb (mount root_storage) m); reflexivity.
Qed.

Section Hist.
Variable locs : list level.
Hypothesis locs_names : forall l1 l2, In l1 locs -> In l2 locs -> lv_name l1 = lv_name l2 -> l1 = l2.
Hypothesis locs_caps : forall l cap, In l locs -> lv_cap l = Some cap -> wfr cap /\ In "/" (mounts cap).

Definition ghost := string -> meas -> Z.
Definition g0 : ghost := fun _ _ => 0.

(* static conditions on the events of the domain *)
Definition ev_ok (e : event) : Prop :=
  match e with
  | EAttempt job cands reqs n chosen =>
      n = 1%nat /\ (length chosen <= 1)%nat /\ (forall c, In c cands -> exists l, c = [l] /\ In l locs) /\
      (forall k h, In (k, h) reqs -> wfr h)
  | ENotify job new fls => forall fl rest, fls = fl :: rest -> fl_hw fl = None
  end.

(* lifecycle conformance of an event in a state *)
Definition conf (st : sstate) (e : event) : Prop :=
  match e with
  | EAttempt job _ _ _ _ => job_active st job = false
  | ENotify job new fls =>
      match lookup job (jobs st) with
      | None => True
      | Some a =>
          (new = Running -> is_active (a_status a) = true) /\ (new = Fireable -> a_status a = Fireable) /\
          (forall fl rest nm jh1 u, fls = fl :: rest -> loc_of a = Some nm -> norm' (a_hw a) = Ok jh1 ->
             usage_hw jh1 (match lookup nm (fl_usage fl) with Some x => x | None => None end) = Ok u ->
             forall m, size_at u m <= size_at jh1 m)
      end
  end.

(* the measured usage recorded by an event (ghost state: what du reported for released reservations) *)
Definition gstep (st : sstate) (e : event) (G : ghost) : ghost :=
  match e with
  | ENotify job new (fl :: _) =>
      match lookup job (jobs st) with
      | Some a =>
          if releases (a_status a) new then
            match loc_of a with
            | Some nm =>
                match lookup nm (hwloc st) with
                | Some _ =>
                    match norm' (a_hw a) with
                    | Ok jh1 =>
                        match usage_hw jh1 (match lookup nm (fl_usage fl) with Some x => x | None => None end) with
                        | Ok u => fun n x => if String.eqb n nm then G n x + mu u x else G n x
                        | Err _ => G
                        end
                    | Err _ => G
                    end
                | None => G
                end
            | None => G
            end
          else G
      | None => G
      end
  | _ => G
  end.

Definition Inv (st : sstate) (G : ghost) : Prop :=
  NoDup (keys (jobs st)) /\
  (forall j a, In (j, a) (jobs st) -> wfr (a_hw a) /\
     (is_active (a_status a) = true ->
        exists l h, In l locs /\ a_locs a = [[(lv_dep l, lv_name l)]] /\ lookup (lv_name l) (hwloc st) = Some h /\
                    forall m, In m (mounts (a_hw a)) -> In m (mounts h))) /\
  (forall nm h, lookup nm (hwloc st) = Some h -> wf h) /\
  (forall nm x, mu_o (lookup nm (hwloc st)) x = reserved st nm x + G nm x) /\
  (forall nm, G nm MC = 0 /\ G nm MM = 0 /\ forall m, 0 <= G nm (MS m)) /\
  (forall l cap h, In l locs -> lv_cap l = Some cap -> lookup (lv_name l) (hwloc st) = Some h ->
     (forall x, mu h x <= mu cap x) /\ (forall m, In m (mounts h) -> In m (mounts cap))).

Lemma inv_init : Inv init g0.
Proof.
  unfold Inv, init, reserved. simpl. repeat split; try (intros; contradiction); try (intros; discriminate); try reflexivity; try lia.
  constructor.
Qed.

Lemma inv_attempt st G job cands reqs n chosen st' vn al :
  Inv st G -> ev_ok (EAttempt job cands reqs n chosen) -> job_active st job = false ->
  attempt st job cands reqs n chosen = Ok (st', vn, al) -> Inv st' G.
Proof.
  intros HI (Hn & Hch & Hcands & Hreqs) Hna Hat. destruct al; [|apply attempt_fail_unchanged in Hat; subst; exact HI].
  subst n. destruct (attempt_single _ _ _ _ _ _ _ Hch Hat) as (c & Hc & Hv & Hal).
  destruct (Hcands c Hc) as (l & Ec & Hl). subst c.
  apply is_valid_single in Hv.
  destruct (allocate_single _ _ _ _ _ Hal) as (jh & h & Er & Eh & Ej & Ehw & _).
  destruct HI as (K & A & L & E & Gz & C).
  assert (Wj : wfr jh) by (apply (Hreqs (req_key l)); apply lookup_some_in; exact Er).
  set (name := lv_name l) in *.
  assert (F : wf h /\ (forall x, mu h x = mu_o (lookup name (hwloc st)) x + mu jh x) /\
              (forall m, In m (mounts h) <-> In m (mounts_o (lookup name (hwloc st))) \/ In m (mounts jh))).
  { unfold ledger_after in Eh. destruct (lookup name (hwloc st)) as [cur|] eqn:Ec.
    - destruct (mu_add cur jh (L _ _ Ec) (proj1 Wj)) as (r & Er' & Wr & M1 & M2).
      rewrite Er' in Eh. inversion Eh. subst. simpl. auto.
    - destruct (mu_normalized jh (proj1 Wj)) as (r & Er' & Wr & M1 & M2).
      rewrite Er' in Eh. inversion Eh. subst. simpl. split; [exact Wr|]. split; [intros x; rewrite M1; lia|].
      intros m. rewrite M2. tauto. }
  destruct F as (Wh & Fm & Fmt).
  assert (Hold : forall nm x, match lookup job (jobs st) with Some old => contrib nm x old | None => 0 end = 0).
  { intros nm x. unfold job_active in Hna. destruct (lookup job (jobs st)) as [old|]; [|reflexivity].
    apply contrib_inactive. exact Hna. }
  unfold Inv. rewrite Ej, Ehw. split; [apply NoDup_keys_dset; exact K|]. split; [|split; [|split; [|split; [exact Gz|]]]].
  - (* A *)
    intros j a Hi. apply in_dset in Hi; [|exact K]. destruct Hi as [[Ej' Ea]|[Hne Hi]].
    + subst. simpl. split; [exact Wj|]. intros _. exists l, h. split; [exact Hl|]. split; [reflexivity|].
      split; [apply lookup_dset|]. intros m Hm. apply Fmt. right. exact Hm.
    + destruct (A j a Hi) as [Hw Hact]. split; [exact Hw|]. intros Ha.
      destruct (Hact Ha) as (l0 & h0 & Hl0 & Hlocs & Hlk & Hm0).
      destruct (String.eqb_spec (lv_name l0) name) as [En|En].
      * exists l0, h. split; [exact Hl0|]. split; [exact Hlocs|]. rewrite En. split; [apply lookup_dset|].
        intros m Hm. apply Fmt. left. rewrite <- En, Hlk. simpl. apply Hm0. exact Hm.
      * exists l0, h0. split; [exact Hl0|]. split; [exact Hlocs|]. split; [rewrite lookup_dset_other by exact En; exact Hlk|exact Hm0].
  - (* L *)
    intros nm h1 Hlk. destruct (String.eqb_spec nm name) as [En|En].
    + subst nm. rewrite lookup_dset in Hlk. inversion Hlk. subst. exact Wh.
    + rewrite lookup_dset_other in Hlk by exact En. apply (L _ _ Hlk).
  - (* E *)
    intros nm x. unfold reserved. rewrite Ej, sumf_dset, Hold.
    fold (reserved st nm x). rewrite contrib_at. cbn [is_active andb].
    destruct (String.eqb_spec name nm) as [En|En].
    + subst nm. rewrite lookup_dset. simpl. rewrite Fm, E. lia.
    + rewrite lookup_dset_other by congruence. rewrite E. lia.
  - (* C *)
    intros l2 cap2 h2 Hl2 Hc2 Hlk2. destruct (String.eqb_spec (lv_name l2) name) as [En|En].
    + assert (l2 = l) by (apply locs_names; assumption). subst l2. fold name in Hlk2.
      rewrite lookup_dset in Hlk2. inversion Hlk2. subst h2. clear Hlk2.
      destruct (locs_caps l cap2 Hl Hc2) as [[Wc _] Hroot].
      set (cur := match lookup name (hwloc st) with Some h0 => h0 | None => default_hw end).
      assert (Pc : wf cur /\ (forall m, In m (mounts cur) -> In m (mounts cap2)) /\
                   (forall m, size_at cur m <= size_at cap2 m) /\
                   (forall x, mu cur x = mu_o (lookup name (hwloc st)) x) /\
                   (forall m, In m (mounts_o (lookup name (hwloc st))) -> In m (mounts cap2))).
      { unfold cur. destruct (lookup name (hwloc st)) as [c0|] eqn:Ec.
        - destruct (C l cap2 c0 Hl Hc2 Ec) as [C1 C2]. split; [apply (L _ _ Ec)|]. split; [exact C2|].
          split; [intros m; apply (C1 (MS m))|]. split; [reflexivity|exact C2].
        - split; [apply wf_default|]. split; [intros m [Hm|[]]; subst; exact Hroot|].
          split; [intros m; rewrite size_at_default; apply total_nonneg; apply Wc|].
          split; [intros [| |m]; simpl; try reflexivity; apply size_at_default|intros m []]. }
      destruct Pc as (Wcur & Pm & Ps & Pmu & Pmo).
      destruct (cap_level_valid_fits st reqs job l cap2 jh cur Hc2 Er eq_refl Wc Wcur (proj1 Wj) Pm Ps Hv)
        as (F1 & F2 & F3).
      split.
      * intros x. rewrite Fm, <- Pmu. destruct x as [| |m]; simpl; try lia.
        destruct (in_dec string_dec m (mounts jh)) as [Hi|Hi].
        -- apply F3. exact Hi.
        -- rewrite (size_at_notin jh m Hi). specialize (Ps m). lia.
      * intros m Hm. apply Fmt in Hm. destruct Hm as [Hm|Hm]; [apply Pmo; exact Hm|apply F3; exact Hm].
    + rewrite lookup_dset_other in Hlk2 by exact En. apply (C l2 cap2 h2 Hl2 Hc2 Hlk2).
Qed.

Lemma inv_notify st G job new fls st' :
  Inv st G -> ev_ok (ENotify job new fls) -> conf st (ENotify job new fls) ->
  notify st job new fls = Ok st' -> Inv st' (gstep st (ENotify job new fls) G).
Proof.
  intros HI Hok Hconf Hno. simpl in Hconf.
  destruct (lookup job (jobs st)) as [a|] eqn:Hl.
  2:{ unfold notify in Hno. rewrite Hl in Hno. inversion Hno. subst.
      unfold gstep. rewrite Hl. destruct fls; exact HI. }
  destruct Hconf as (Hc1 & Hc2 & Hc3).
  pose proof (notify_jobs _ _ _ _ _ _ Hl Hno) as Ej.
  destruct (notify_hwloc _ _ _ _ _ _ Hl Hno) as [Hh1 Hh2].
  destruct (status_cases (a_status a) new Hc1 Hc2) as [Hs1 Hs2].
  set (a' := mkalloc new (if status_eqb new Rollback then [] else a_locs a) (a_hw a)) in *.
  rewrite <- (dset_present job a' a _ Hl) in Ej.
  destruct HI as (K & A & L & E & Gz & C).
  pose proof (lookup_some_in _ _ _ Hl) as Hina.
  destruct (A job a Hina) as [Wa Hacta].
  destruct (releases (a_status a) new) eqn:Erel.
  - (* the notification releases the reservation *)
    destruct (Hs2 eq_refl) as [Hap Han].
    destruct (Hacta Hap) as (l & cur & Hlin & Hlocs & Hlk & Hmnt).
    set (name := lv_name l) in *.
    specialize (Hh2 eq_refl _ _ Hlocs). fold name in Hh2. rewrite Hlk in Hh2.
    destruct Hh2 as (fl & rest & jh1 & u & dd & r & Efls & En & Eu & Ed & Er & Ehw).
    rewrite (Hok fl rest Efls) in En.
    assert (Hloc : loc_of a = Some name) by (unfold loc_of; rewrite Hlocs; reflexivity).
    destruct (mu_norm' (a_hw a) (proj1 Wa)) as (j0 & En0 & Wj & Mj & Mtj). rewrite En in En0. inversion En0. subst j0. clear En0.
    destruct (usage_hw_spec _ _ _ Eu) as (Wu & Uc & Um & Umt).
    assert (Hcontrib : forall x, contrib name x a = mu (a_hw a) x).
    { intros x. unfold contrib, on. rewrite Hap, Hloc, String.eqb_refl. reflexivity. }
    assert (Hnn : forall k a0, In (k, a0) (jobs st) -> forall x, 0 <= contrib name x a0).
    { intros k a0 Hi x. apply contrib_nonneg. apply (A k a0 Hi). }
    destruct (mu_sub cur jh1 (L _ _ Hlk) Wj) as (d0 & Ed0 & Wd & Md & Mtd).
    { intros m Hm. apply Hmnt. apply Mtj. exact Hm. }
    { intros m. specialize (E name (MS m)). rewrite Hlk in E. simpl in E.
      assert (contrib name (MS m) a <= reserved st name (MS m)).
      { unfold reserved. apply (sumf_ge _ _ job a); [intros k a0 Hi; apply (Hnn k a0 Hi)|exact Hina]. }
      rewrite Hcontrib in H. simpl in H. pose proof (proj2 (proj2 (Gz name)) m).
      specialize (Mj (MS m)). simpl in Mj. lia. }
    rewrite Ed in Ed0. inversion Ed0. subst d0. clear Ed0.
    destruct (mu_add dd u Wd Wu) as (r0 & Er0 & Wr & Mr & Mtr). rewrite Er in Er0. inversion Er0. subst r0. clear Er0.
    assert (Hg : gstep st (ENotify job new fls) G = fun n x => if String.eqb n name then G n x + mu u x else G n x).
    { unfold gstep. rewrite Efls, Hl, Erel, Hloc, Hlk, En, Eu. reflexivity. }
    rewrite Hg. clear Hg.
    assert (Ha'0 : forall nm x, contrib nm x a' = 0) by (intros; apply contrib_inactive; exact Han).
    unfold Inv. rewrite Ej, Ehw. split; [apply NoDup_keys_dset; exact K|]. split; [|split; [|split; [|split]]].
    + (* A *)
      intros j a0 Hi. apply in_dset in Hi; [|exact K]. destruct Hi as [[Ej' Ea]|[Hne Hi]].
      * subst. split; [exact Wa|]. intros Hx. simpl in Hx. congruence.
      * destruct (A j a0 Hi) as [Hw Hact]. split; [exact Hw|]. intros Ha.
        destruct (Hact Ha) as (l0 & h0 & Hl0 & Hlocs0 & Hlk0 & Hm0).
        destruct (String.eqb_spec (lv_name l0) name) as [Enm|Enm].
        -- exists l0, r. split; [exact Hl0|]. split; [exact Hlocs0|]. rewrite Enm. split; [apply lookup_dset|].
           intros m Hm. apply Mtr. left. apply Mtd. rewrite Enm in Hlk0. rewrite Hlk in Hlk0. inversion Hlk0. subst h0.
           apply Hm0. exact Hm.
        -- exists l0, h0. split; [exact Hl0|]. split; [exact Hlocs0|].
           split; [rewrite lookup_dset_other by exact Enm; exact Hlk0|exact Hm0].
    + (* L *)
      intros nm h1 Hlk1. destruct (String.eqb_spec nm name) as [Enm|Enm].
      * subst nm. rewrite lookup_dset in Hlk1. inversion Hlk1. subst. exact Wr.
      * rewrite lookup_dset_other in Hlk1 by exact Enm. apply (L _ _ Hlk1).
    + (* E *)
      intros nm x. unfold reserved. rewrite Ej, sumf_dset, Hl, Ha'0. fold (reserved st nm x).
      destruct (String.eqb_spec nm name) as [Enm|Enm].
      * subst nm. rewrite lookup_dset. simpl. rewrite Mr, Md, Mj, Hcontrib.
        specialize (E name x). rewrite Hlk in E. simpl in E. lia.
      * rewrite lookup_dset_other by exact Enm. rewrite E.
        assert (contrib nm x a = 0).
        { unfold contrib, on. rewrite Hloc. destruct (String.eqb_spec name nm); [congruence|]. rewrite andb_false_r. reflexivity. }
        lia.
    + (* Gz *)
      intros nm. destruct (Gz nm) as (G1 & G2 & G3). destruct (String.eqb nm name); [|auto].
      simpl. split; [lia|]. split; [lia|]. intros m. specialize (G3 m).
      assert (0 <= size_at u m) by (apply total_nonneg; apply Wu). lia.
    + (* C *)
      intros l2 cap2 h2 Hl2 Hcap2 Hlk2. destruct (String.eqb_spec (lv_name l2) name) as [Enm|Enm].
      * assert (l2 = l) by (apply locs_names; assumption). subst l2. fold name in Hlk2.
        rewrite lookup_dset in Hlk2. inversion Hlk2. subst h2. clear Hlk2.
        destruct (C l cap2 cur Hlin Hcap2 Hlk) as [C1 C2].
        destruct (locs_caps l cap2 Hlin Hcap2) as [_ Hroot].
        split.
        -- intros x. rewrite Mr, Md. specialize (C1 x).
           assert (mu u x <= mu jh1 x).
           { destruct x as [| |m]; simpl.
             - rewrite Uc. specialize (Mj MC). simpl in Mj. destruct Wa as (_ & Wc & _). lia.
             - rewrite Um. specialize (Mj MM). simpl in Mj. destruct Wa as (_ & _ & Wm). lia.
             - apply (Hc3 fl rest name jh1 u Efls Hloc En Eu). }
           lia.
        -- intros m Hm. apply Mtr in Hm. destruct Hm as [Hm|Hm].
           ++ apply C2. apply Mtd. exact Hm.
           ++ destruct (Umt m Hm) as [Hj|Hj]; [|subst; exact Hroot]. apply C2. apply Hmnt. apply Mtj. exact Hj.
      * rewrite lookup_dset_other in Hlk2 by exact Enm. apply (C l2 cap2 h2 Hl2 Hcap2 Hlk2).
  - (* no release: the ledger is untouched and the job's contribution does not change *)
    specialize (Hh1 eq_refl). specialize (Hs1 eq_refl).
    assert (Hg : gstep st (ENotify job new fls) G = G).
    { unfold gstep. destruct fls; [reflexivity|]. rewrite Hl, Erel. reflexivity. }
    rewrite Hg. clear Hg.
    assert (Hlocs' : is_active new = true -> a_locs a' = a_locs a).
    { intros Hx. unfold a'. simpl. destruct new; simpl in *; try discriminate; reflexivity. }
    assert (Hca : forall nm x, contrib nm x a' = contrib nm x a).
    { intros nm x. unfold contrib. change (a_status a') with new. rewrite Hs1.
      destruct (is_active (a_status a)) eqn:Eact; [|reflexivity].
      unfold on, loc_of. rewrite Hlocs' by (rewrite Hs1; reflexivity). reflexivity. }
    unfold Inv. rewrite Ej, Hh1. split; [apply NoDup_keys_dset; exact K|]. split; [|split; [exact L|split; [|split; [exact Gz|exact C]]]].
    + intros j a0 Hi. apply in_dset in Hi; [|exact K]. destruct Hi as [[Ej' Ea]|[Hne Hi]].
      * subst. split; [exact Wa|]. intros Hx. change (a_status a') with new in Hx.
        rewrite Hlocs' by exact Hx. apply Hacta. rewrite <- Hs1. exact Hx.
      * apply (A j a0 Hi).
    + intros nm x. unfold reserved. rewrite Ej, sumf_dset, Hl, Hca. fold (reserved st nm x). rewrite E. lia.
Qed.

(* ------------------------------------------------------------------ histories *)
Fixpoint conformant (st : sstate) (es : list event) : Prop :=
  match es with
  | [] => True
  | e :: es' => ev_ok e /\ conf st e /\ match step st e with Ok s => conformant s es' | Err _ => True end
  end.
Fixpoint measured (st : sstate) (es : list event) (G : ghost) : ghost :=
  match es with
  | [] => G
  | e :: es' => match step st e with Ok s => measured s es' (gstep st e G) | Err _ => G end
  end.

Lemma inv_step st G e st' : Inv st G -> ev_ok e -> conf st e -> step st e = Ok st' -> Inv st' (gstep st e G).
Proof.
  intros HI Hok Hc Hs. destruct e as [job cands reqs n chosen|job new fls].
  - simpl in Hs. destruct (attempt st job cands reqs n chosen) as [[[s vn] al]|] eqn:Ea; simpl in Hs; [|discriminate].
    inversion Hs. subst. simpl. eapply inv_attempt; eauto.
  - simpl in Hs. apply inv_notify; assumption.
Qed.

Theorem inv_run es : forall st G st', Inv st G -> conformant st es -> run st es = Ok st' -> Inv st' (measured st es G).
Proof.
  induction es as [|e es IH]; simpl; intros st G st' HI Hc Hr.
  - inversion Hr. subst. exact HI.
  - destruct Hc as (Hok & Hcf & Hrest). destruct (step st e) as [s|] eqn:Es; simpl in Hr; [|discriminate].
    apply (IH s _ st' (inv_step _ _ _ _ HI Hok Hcf Es) Hrest Hr).
Qed.

Lemma conformant_prefix p : forall st q, conformant st (p ++ q) -> conformant st p.
Proof.
  induction p as [|e p IH]; simpl; intros st q H; [exact I|].
  destruct H as (H1 & H2 & H3). split; [exact H1|]. split; [exact H2|].
  destruct (step st e); [apply (IH _ q H3)|exact I].
Qed.

(* C10_capacity (hardware part): after any prefix of a conformant history, on every location with declared
   hardware, what the fireable/running jobs reserve is the ledger minus the measured residue, the residue is
   non-negative (zero on cores and memory), and the ledger is within the capacity: on cores, memory and every
   mount point. *)
Theorem capacity_invariant p q st l cap :
  conformant init (p ++ q) -> run init p = Ok st -> In l locs -> lv_cap l = Some cap ->
  let G := measured init p g0 in
  let led := mu_o (lookup (lv_name l) (hwloc st)) in
  (forall x, reserved st (lv_name l) x = led x - G (lv_name l) x) /\
  G (lv_name l) MC = 0 /\ G (lv_name l) MM = 0 /\ (forall m, 0 <= G (lv_name l) (MS m)) /\
  (forall x, reserved st (lv_name l) x <= led x) /\ (forall x, led x <= mu cap x) /\
  (forall x, reserved st (lv_name l) x <= mu cap x).
Proof.
  intros Hc Hr Hl Hcap G led. apply conformant_prefix in Hc.
  destruct (inv_run p init g0 st inv_init Hc Hr) as (K & A & L & E & Gz & C). fold G in E, Gz.
  destruct (Gz (lv_name l)) as (G1 & G2 & G3).
  assert (Hres : forall x, reserved st (lv_name l) x = led x - G (lv_name l) x) by (intros x; unfold led; rewrite E; lia).
  assert (Hgx : forall x, 0 <= G (lv_name l) x) by (intros [| |m]; [lia|lia|apply G3]).
  assert (Hled : forall x, led x <= mu cap x).
  { intros x. unfold led. destruct (lookup (lv_name l) (hwloc st)) as [h|] eqn:Eh.
    - apply (C l cap h Hl Hcap Eh).
    - simpl. specialize (E (lv_name l) x). rewrite Eh in E. simpl in E.
      destruct (locs_caps l cap Hl Hcap) as [[Wc [Wc1 Wc2]] _].
      assert (0 <= reserved st (lv_name l) x).
      { unfold reserved. apply sumf_nonneg. intros k a Hi. apply contrib_nonneg. apply (A k a Hi). }
      specialize (Hgx x). assert (reserved st (lv_name l) x = 0) by lia.
      destruct x as [| |m]; simpl.
      + exact Wc1.
      + exact Wc2.
      + apply total_nonneg. apply Wc. }
  repeat split; auto.
  - intros x. rewrite Hres. specialize (Hgx x). lia.
  - intros x. rewrite Hres. specialize (Hgx x). specialize (Hled x). lia.
Qed.

(* C11_release: after any conformant history (any notification order, any repetitions), in a state where no job is
   fireable or running, every ledger has cores = memory = 0 and, per mount point, exactly the measured usage *)
Theorem release_invariant es st nm h :
  conformant init es -> run init es = Ok st ->
  (forall j a, In (j, a) (jobs st) -> is_active (a_status a) = false) ->
  lookup nm (hwloc st) = Some h ->
  cores h = 0 /\ mem h = 0 /\ forall m, size_at h m = measured init es g0 nm (MS m).
Proof.
  intros Hc Hr Hna Hlk.
  destruct (inv_run es init g0 st inv_init Hc Hr) as (K & A & L & E & Gz & C).
  assert (Hz : forall x, reserved st nm x = 0).
  { intros x. unfold reserved. apply sumf_zero. intros k a Hi. apply contrib_inactive. apply (Hna k a Hi). }
  destruct (Gz nm) as (G1 & G2 & _).
  split; [|split].
  - specialize (E nm MC). rewrite Hlk, Hz in E. simpl in E. lia.
  - specialize (E nm MM). rewrite Hlk, Hz in E. simpl in E. lia.
  - intros m. specialize (E nm (MS m)). rewrite Hlk, Hz in E. simpl in E. lia.
Qed.

(* the same per location: a location on which no job is fireable/running holds exactly its measured residue *)
Theorem release_invariant_loc es st nm h :
  conformant init es -> run init es = Ok st ->
  (forall j a, In (j, a) (jobs st) -> is_active (a_status a) = true -> loc_of a <> Some nm) ->
  lookup nm (hwloc st) = Some h ->
  cores h = 0 /\ mem h = 0 /\ forall m, size_at h m = measured init es g0 nm (MS m).
Proof.
  intros Hc Hr Hna Hlk.
  destruct (inv_run es init g0 st inv_init Hc Hr) as (K & A & L & E & Gz & C).
  assert (Hz : forall x, reserved st nm x = 0).
  { intros x. unfold reserved. apply sumf_zero. intros k a Hi. unfold contrib.
    destruct (is_active (a_status a)) eqn:Ea; [|reflexivity]. simpl. unfold on.
    specialize (Hna k a Hi Ea). destruct (loc_of a) as [n|]; [|reflexivity].
    destruct (String.eqb_spec n nm); [subst; congruence|reflexivity]. }
  destruct (Gz nm) as (G1 & G2 & _).
  split; [|split].
  - specialize (E nm MC). rewrite Hlk, Hz in E. simpl in E. lia.
  - specialize (E nm MM). rewrite Hlk, Hz in E. simpl in E. lia.
  - intros m. specialize (E nm (MS m)). rewrite Hlk, Hz in E. simpl in E. lia.
Qed.
End Hist.
