(* Sched/Eventually.v — C12_eventually (flat domain): no fitting request is left waiting at an idle point, and the
   accounting of fireable/running jobs that makes idle points inevitable. *)
From Coq Require Import List Bool ZArith NArith Lia.
From SF Require Import Base.Str Hardware.Model Hardware.Proofs Sched.Model Sched.Proofs Sched.History Sched.Quiesce.
Import ListNotations.
Local Open Scope string_scope. Local Open Scope list_scope. Local Open Scope Z_scope.

(* number of fireable/running jobs *)
Definition act1 (a : alloc) : Z := if is_active (a_status a) then 1 else 0.
Definition nact (st : sstate) : Z := sumf act1 (jobs st).

Lemma act1_range a : 0 <= act1 a <= 1.
Proof. unfold act1. destruct (is_active _); lia. Qed.
Lemma nact_nonneg st : 0 <= nact st.
Proof. unfold nact. apply sumf_nonneg. intros k a _. apply act1_range. Qed.
Lemma nact_zero_inactive st : nact st = 0 -> forall j a, In (j, a) (jobs st) -> is_active (a_status a) = false.
Proof.
  intros H j a Hi. assert (act1 a <= nact st) by (unfold nact; apply (sumf_ge _ _ j a); [intros k a0 _; apply act1_range|exact Hi]).
  unfold act1 in H0. destruct (is_active (a_status a)); [lia|reflexivity].
Qed.
Lemma nact_zero_job st j : nact st = 0 -> job_active st j = false.
Proof.
  intros H. unfold job_active. destruct (lookup j (jobs st)) as [a|] eqn:E; [|reflexivity].
  apply (nact_zero_inactive st H j a). apply lookup_some_in. exact E.
Qed.

Section Eventually.
Variable locs : list level.
Hypothesis locs_names : forall l1 l2, In l1 locs -> In l2 locs -> lv_name l1 = lv_name l2 -> l1 = l2.
Hypothesis locs_caps : forall l cap, In l locs -> lv_cap l = Some cap -> wfr cap /\ In "/" (mounts cap).

(* an evaluation never deactivates anybody; granting a request of a job that is not fireable/running adds one *)
Lemma attempt_nact st job cands reqs n chosen s vn al :
  ev_ok locs (EAttempt job cands reqs n chosen) ->
  attempt st job cands reqs n chosen = Ok (s, vn, al) ->
  nact st <= nact s /\ (al = true -> job_active st job = false -> nact s = nact st + 1) /\ (al = false -> s = st).
Proof.
  intros (Hn & Hch & Hcands & Hreqs) Hat.
  destruct al.
  - subst n. destruct (attempt_single _ _ _ _ _ _ _ Hch Hat) as (c & Hc & Hv & Hal).
    destruct (Hcands c Hc) as (l & Ec & Hl). subst c.
    destruct (allocate_single _ _ _ _ _ Hal) as (jh & h & _ & _ & Ej & _ & _).
    unfold nact. rewrite Ej, sumf_dset. unfold job_active.
    destruct (lookup job (jobs st)) as [old|]; cbn [act1 a_status is_active].
    + pose proof (act1_range old). split; [lia|]. split; [|discriminate]. intros _ Hold. unfold act1. rewrite Hold. lia.
    + split; [lia|]. split; [intros; lia|discriminate].
  - apply attempt_fail_unchanged in Hat. subst. split; [lia|]. split; [discriminate|reflexivity].
Qed.

(* a round of evaluations that ends with nobody fireable/running has granted nothing *)
Lemma idle_round_unchanged es : forall st st',
  (forall e, In e es -> ev_ok locs e) -> only_attempts es -> run st es = Ok st' -> nact st' = 0 ->
  st' = st /\ forall job cands reqs n chosen, In (EAttempt job cands reqs n chosen) es ->
                exists vn, attempt st job cands reqs n chosen = Ok (st, vn, false).
Proof.
  induction es as [|e es IH]; simpl; intros st st' Hok Ho Hr Hz.
  - inversion Hr. subst. split; [reflexivity|]. intros ? ? ? ? ? [].
  - destruct (step st e) as [s|] eqn:Es; simpl in Hr; [|discriminate].
    assert (He : match e with EAttempt _ _ _ _ _ => True | ENotify _ _ _ => False end) by (apply Ho; left; reflexivity).
    destruct e as [job cands reqs n chosen|]; [|contradiction].
    simpl in Es. destruct (attempt st job cands reqs n chosen) as [[[s0 vn] al]|] eqn:Ea; simpl in Es; [|discriminate].
    inversion Es. subst s0.
    destruct (IH s st' (fun e0 H0 => Hok e0 (or_intror H0)) (fun e0 H0 => Ho e0 (or_intror H0)) Hr Hz) as [E1 E2]. subst st'.
    destruct (attempt_nact _ _ _ _ _ _ _ _ _ (Hok _ (or_introl eq_refl)) Ea) as (Hmono & Hgrant & Hfail).
    pose proof (nact_nonneg st) as Hnn.
    assert (Hst0 : nact st = 0) by lia.
    destruct al.
    + specialize (Hgrant eq_refl (nact_zero_job st job Hst0)). lia.
    + specialize (Hfail eq_refl). subst s. split; [reflexivity|].
      intros job2 cands2 reqs2 n2 chosen2 [Hin|Hin].
      * inversion Hin. subst. exists vn. exact Ea.
      * apply E2. exact Hin.
Qed.

(* a request for the single location l whose requirement fits capacity - measured residue is valid when nobody is
   fireable/running *)
Lemma idle_fits_valid st G job reqs l cap rq :
  Inv locs st G -> nact st = 0 -> In l locs -> lv_cap l = Some cap -> lookup (req_key l) reqs = Some rq -> wfr rq ->
  cores rq <= cores cap -> mem rq <= mem cap ->
  (forall m, In m (mounts rq) -> In m (mounts cap) /\ G (lv_name l) (MS m) + size_at rq m <= size_at cap m) ->
  level_valid st reqs job l = Ok true.
Proof.
  intros HI Hz Hl Hc Er Wr F1 F2 F3.
  destruct (cur_pre locs locs_caps st G l cap HI Hl Hc) as (Wcur & Pm & Ps & Pmu).
  destruct (locs_caps l cap Hl Hc) as [[Wc _] _].
  destruct HI as (K & A & L & E & Gz & C).
  assert (Hres : forall x, reserved st (lv_name l) x = 0).
  { intros x. unfold reserved. apply sumf_zero. intros k a Hi. apply contrib_inactive. apply (nact_zero_inactive st Hz k a Hi). }
  destruct (Gz (lv_name l)) as (G1 & G2 & _).
  apply (cap_level_valid_iff st reqs job l cap rq _ Hc Er eq_refl Wc Wcur (proj1 Wr) Pm Ps).
  pose proof (Pmu MC) as HC. pose proof (Pmu MM) as HM. rewrite E, Hres in HC, HM. simpl in HC, HM.
  split; [lia|]. split; [lia|]. intros m Hm. destruct (F3 m Hm) as [Hin Hs]. split; [exact Hin|].
  pose proof (Pmu (MS m)) as HS. rewrite E, Hres in HS. simpl in HS. lia.
Qed.

Lemma conformant_ev_ok es : forall st st', conformant locs st es -> run st es = Ok st' -> forall e, In e es -> ev_ok locs e.
Proof.
  induction es as [|e es IH]; simpl; intros st st' Hc Hr e0 Hin; [contradiction|].
  destruct Hc as (Hok & _ & Hrest). destruct (step st e) as [s|]; simpl in Hr; [|discriminate].
  destruct Hin as [Hin|Hin]; [subst; exact Hok|apply (IH s st' Hrest Hr e0 Hin)].
Qed.

(* C12_eventually (core): a conformant history [pre ++ round] whose last part is a full round of evaluations and
   which ends with no fireable/running job cannot contain, in that round, a request for a location with declared
   hardware whose requirement fits the capacity minus the measured residue: such a request would have been granted *)
Theorem no_fitting_request_left_at_idle pre round s1 st' jw l cap reqs rq chosen :
  conformant locs init (pre ++ round) -> only_attempts round ->
  run init pre = Ok s1 -> run s1 round = Ok st' -> nact st' = 0 ->
  In (EAttempt jw [[l]] reqs 1 chosen) round ->
  In l locs -> lv_cap l = Some cap -> lookup (req_key l) reqs = Some rq ->
  cores rq <= cores cap -> mem rq <= mem cap ->
  (forall m, In m (mounts rq) -> In m (mounts cap) /\
             measured init pre g0 (lv_name l) (MS m) + size_at rq m <= size_at cap m) ->
  False.
Proof.
  intros Hc Ho Hpre Hround Hz Hin Hl Hcap Er F1 F2 F3.
  pose proof (inv_run locs locs_names locs_caps pre init g0 s1 (inv_init locs) (conformant_prefix locs pre init round Hc) Hpre) as HI.
  pose proof (conformant_app locs pre init round s1 Hc Hpre) as Hc2.
  pose proof (conformant_ev_ok round s1 st' Hc2 Hround) as Hok.
  destruct (idle_round_unchanged round s1 st' Hok Ho Hround Hz) as [Est Hall]. subst st'.
  destruct (Hall _ _ _ _ _ Hin) as (vn & Hat).
  destruct (Hok _ Hin) as (_ & _ & _ & Hreqs).
  assert (Wr : wfr rq) by (apply (Hreqs (req_key l)); apply lookup_some_in; exact Er).
  pose proof (idle_fits_valid s1 _ jw reqs l cap rq HI Hz Hl Hcap Er Wr F1 F2 F3) as Hv.
  assert (Hvl : valid_locations s1 reqs jw [[l]] = Ok [[l]]).
  { cbn [valid_locations is_valid]. rewrite Hv. reflexivity. }
  destruct (attempt_grants_when_exact s1 jw [[l]] reqs 1 chosen [[l]] Hvl eq_refl) as [(s' & E & _)|(e & E & _)]; [discriminate| |];
    rewrite Hat in E; discriminate.
Qed.
End Eventually.

(* ------------------------------------------------------------------ phases: terminal notification + full wake-up round *)
From Coq Require Import Permutation.

(* evaluates the pending requests in the given order; returns the final state and the requests still pending *)
Fixpoint round_out (st : sstate) (ws : list event) : res (sstate * list event) :=
  match ws with
  | [] => Ok (st, [])
  | EAttempt job cands reqs n chosen :: ws' =>
      r <- attempt st job cands reqs n chosen ;;
      p <- round_out (fst (fst r)) ws' ;;
      Ok (fst p, if snd r then snd p else EAttempt job cands reqs n chosen :: snd p)
  | ENotify _ _ _ :: _ => Err MissingMount
  end.

Section Phases.
Variable locs : list level.
Hypothesis locs_names : forall l1 l2, In l1 locs -> In l2 locs -> lv_name l1 = lv_name l2 -> l1 = l2.
Hypothesis locs_caps : forall l cap, In l locs -> lv_cap l = Some cap -> wfr cap /\ In "/" (mounts cap).

Lemma round_out_spec ws : forall st st' ws',
  round_out st ws = Ok (st', ws') -> conformant locs st ws ->
  only_attempts ws /\ run st ws = Ok st' /\ nact st' + Z.of_nat (length ws') = nact st + Z.of_nat (length ws) /\
  (forall e, In e ws' -> In e ws).
Proof.
  induction ws as [|e ws IH]; intros st st' ws' H Hc.
  - simpl in H. inversion H. subst. split; [intros e []|]. split; [reflexivity|]. split; [reflexivity|auto].
  - destruct e as [job cands reqs n chosen|]; [|simpl in H; discriminate].
    cbn [round_out] in H. destruct (attempt st job cands reqs n chosen) as [[[s vn] al]|] eqn:Ea; cbn [bind_res fst snd] in H; [|discriminate].
    destruct (round_out s ws) as [[s2 w2]|] eqn:Er; cbn [bind_res fst snd] in H; [|discriminate]. inversion H. subst. clear H.
    cbn [conformant] in Hc. destruct Hc as (Hok & Hcf & Hrest). cbn [step] in Hrest. rewrite Ea in Hrest. cbn [bind_res fst] in Hrest.
    destruct (IH s st' w2 Er Hrest) as (Ho & Hr & Hm & Hsub).
    destruct (attempt_nact locs _ _ _ _ _ _ _ _ _ Hok Ea) as (_ & Hgrant & Hfail).
    split; [intros e [He|He]; [subst; exact I|apply Ho; exact He]|].
    split; [cbn [run step]; rewrite Ea; cbn [bind_res fst]; exact Hr|].
    destruct al.
    + specialize (Hgrant eq_refl Hcf). split; [cbn [length]; lia|]. intros e He. right. apply Hsub. exact He.
    + specialize (Hfail eq_refl). subst s. split; [cbn [length]; lia|]. intros e [He|He]; [left; exact He|right; apply Hsub; exact He].
Qed.

(* a terminal notification of a fireable/running job takes exactly one job out of {fireable, running} *)
Lemma notify_nact st job new fls s1 :
  job_active st job = true -> is_active new = false -> notify st job new fls = Ok s1 -> nact s1 = nact st - 1.
Proof.
  unfold job_active. destruct (lookup job (jobs st)) as [a|] eqn:Hl; [|discriminate]. intros Ha Hn Hno.
  pose proof (notify_jobs _ _ _ _ _ _ Hl Hno) as Ej. unfold nact. rewrite Ej.
  rewrite (sumf_replace act1 job _ (jobs st) a Hl). unfold act1 at 2 3. cbn [a_status]. rewrite Ha, Hn. lia.
Qed.

(* one phase: st, pending requests W  --[job new fls; order]-->  st', W' *)
Definition phase (st : sstate) (W : list event) (job : string) (new : status) (fls : list free_level) (order : list event)
                 (st' : sstate) (W' : list event) : Prop :=
  job_active st job = true /\ is_active new = false /\ Permutation order W /\
  exists s1, notify st job new fls = Ok s1 /\ round_out s1 order = Ok (st', W').

(* the measure #fireable/running + #pending decreases by exactly one in every phase: after at most that many
   terminal notifications nobody is fireable/running *)
Theorem phase_measure st W job new fls order st' W' :
  phase st W job new fls order st' W' -> conformant locs st (ENotify job new fls :: order) ->
  nact st' + Z.of_nat (length W') + 1 = nact st + Z.of_nat (length W) /\ (forall e, In e W' -> In e W).
Proof.
  intros (Ha & Hn & Hp & s1 & Hno & Hro) Hc. cbn [conformant step] in Hc. destruct Hc as (_ & _ & Hc). rewrite Hno in Hc.
  destruct (round_out_spec order s1 st' W' Hro Hc) as (_ & _ & Hm & Hsub).
  rewrite (notify_nact _ _ _ _ _ Ha Hn Hno) in Hm. rewrite (Permutation_length Hp) in Hm. split; [lia|].
  intros e He. apply (Permutation_in _ Hp). apply Hsub. exact He.
Qed.

(* C12_eventually_partial: if a phase ends with nobody fireable/running, no request that fits (single candidate location with declared hardware; capacity minus measured residue) is still pending *)
Theorem phase_grants_fitting pre st W job new fls order st' W' jw l cap reqs rq chosen :
  conformant locs init (pre ++ ENotify job new fls :: order) -> run init pre = Ok st ->
  phase st W job new fls order st' W' -> nact st' = 0 ->
  In l locs -> lv_cap l = Some cap -> lookup (req_key l) reqs = Some rq ->
  cores rq <= cores cap -> mem rq <= mem cap ->
  (forall m, In m (mounts rq) -> In m (mounts cap) /\
             measured init (pre ++ [ENotify job new fls]) g0 (lv_name l) (MS m) + size_at rq m <= size_at cap m) ->
  ~ In (EAttempt jw [[l]] reqs 1 chosen) W'.
Proof.
  intros Hc Hpre (Ha & Hn & Hp & s1 & Hno & Hro) Hz Hl Hcap Er F1 F2 F3 Hstill.
  assert (Hc' : conformant locs init ((pre ++ [ENotify job new fls]) ++ order)) by (rewrite <- app_assoc; exact Hc).
  assert (Hpre' : run init (pre ++ [ENotify job new fls]) = Ok s1).
  { rewrite run_app, Hpre. cbn [bind_res run step]. rewrite Hno. reflexivity. }
  pose proof (conformant_app locs _ init order s1 Hc' Hpre') as Hc2.
  destruct (round_out_spec order s1 st' W' Hro Hc2) as (Ho & Hr & _ & Hsub).
  apply (no_fitting_request_left_at_idle locs locs_names locs_caps (pre ++ [ENotify job new fls]) order s1 st' jw l cap reqs rq chosen
           Hc' Ho Hpre' Hr Hz (Hsub _ Hstill) Hl Hcap Er F1 F2 F3).
Qed.

(* sequences of phases; the history they generate; their number *)
Inductive phases_seq : sstate -> list event -> list event -> sstate -> list event -> nat -> Prop :=
| ps_nil st W : phases_seq st W [] st W 0
| ps_cons st W job new fls order s1 W1 H st' W' k :
    phase st W job new fls order s1 W1 -> phases_seq s1 W1 H st' W' k ->
    phases_seq st W (ENotify job new fls :: order ++ H) st' W' (S k).

Lemma phase_run st W job new fls order s1 W1 rest :
  phase st W job new fls order s1 W1 -> conformant locs st (ENotify job new fls :: order ++ rest) ->
  run st (ENotify job new fls :: order) = Ok s1 /\ conformant locs st (ENotify job new fls :: order) /\ conformant locs s1 rest.
Proof.
  intros (Ha & Hn & Hp & sn & Hno & Hro) Hc.
  assert (Hc1 : conformant locs st (ENotify job new fls :: order)).
  { apply (conformant_prefix locs (ENotify job new fls :: order) st rest). exact Hc. }
  pose proof Hc1 as Hc1'. cbn [conformant step] in Hc1'. destruct Hc1' as (_ & _ & Hc2). rewrite Hno in Hc2.
  destruct (round_out_spec order sn s1 W1 Hro Hc2) as (_ & Hr & _ & _).
  assert (Hrun : run st (ENotify job new fls :: order) = Ok s1) by (cbn [run step]; rewrite Hno; cbn [bind_res]; exact Hr).
  split; [exact Hrun|]. split; [exact Hc1|].
  apply (conformant_app locs (ENotify job new fls :: order) st rest s1 Hc Hrun).
Qed.

(* well-founded measure: k phases consume exactly k units of #fireable/running + #pending *)
Theorem phases_measure st W H st' W' k :
  phases_seq st W H st' W' k -> conformant locs st H ->
  nact st' + Z.of_nat (length W') + Z.of_nat k = nact st + Z.of_nat (length W) /\ (forall e, In e W' -> In e W).
Proof.
  induction 1 as [st W|st W job new fls order s1 W1 H st' W' k Hph Hseq IH]; intros Hc.
  - split; [simpl; lia|auto].
  - destruct (phase_run _ _ _ _ _ _ _ _ _ Hph Hc) as (_ & Hc1 & Hc2).
    destruct (phase_measure _ _ _ _ _ _ _ _ Hph Hc1) as [Hm Hsub]. destruct (IH Hc2) as [Hm' Hsub'].
    split; [rewrite Nat2Z.inj_succ; lia|]. intros e He. apply Hsub. apply Hsub'. exact He.
Qed.

(* C12_eventually_partial over a whole continuation *)
Theorem eventually_granted st W H st' W' k : phases_seq st W H st' W' k -> forall pre jw l cap reqs rq chosen,
  (k >= 1)%nat -> conformant locs init (pre ++ H) -> run init pre = Ok st -> nact st' = 0 ->
  In l locs -> lv_cap l = Some cap -> lookup (req_key l) reqs = Some rq ->
  cores rq <= cores cap -> mem rq <= mem cap ->
  (forall p q m, pre ++ H = p ++ q -> In m (mounts rq) ->
     In m (mounts cap) /\ measured init p g0 (lv_name l) (MS m) + size_at rq m <= size_at cap m) ->
  ~ In (EAttempt jw [[l]] reqs 1 chosen) W'.
Proof.
  induction 1 as [st W|st W job new fls order s1 W1 H st' W' k Hph Hseq IH]; intros pre jw l cap reqs rq chosen Hk Hc Hpre Hz Hl Hcap Er F1 F2 F3.
  - lia.
  - pose proof (conformant_app locs pre init _ st Hc Hpre) as Hcst.
    destruct (phase_run _ _ _ _ _ _ _ _ _ Hph Hcst) as (Hrun & Hc1 & Hc2).
    destruct k as [|k].
    + (* last phase *)
      inversion Hseq; subst. rewrite app_nil_r in *.
      apply (phase_grants_fitting pre st W job new fls order st' W' jw l cap reqs rq chosen Hc Hpre Hph Hz); try assumption.
      * intros m Hm. apply (F3 (pre ++ [ENotify job new fls]) order m); [rewrite <- app_assoc; reflexivity|exact Hm].
    + apply (IH (pre ++ ENotify job new fls :: order) jw l cap reqs rq chosen); try assumption; try lia.
      * rewrite <- app_assoc. exact Hc.
      * rewrite run_app, Hpre. cbn [bind_res]. exact Hrun.
      * intros p q m Heq Hm. apply (F3 p q m); [rewrite <- Heq, <- app_assoc; reflexivity|exact Hm].
Qed.
End Phases.
