(* Sched/StackedQuiesce.v — C12_quiescent for chains of stacked levels (hardware or slot levels, outer or inner): along a
   wake-up round ledgers and the job lists counted by _get_running_jobs only grow, validity of every level is antitone
   in them, so a request short of valid locations at its turn is still short at the end of the round. *)
From Coq Require Import List Bool ZArith NArith Lia.
From SF Require Import Base.Str Hardware.Model Hardware.Proofs Sched.Model Sched.Proofs Sched.History Sched.Quiesce
                       Sched.Stacked Sched.StackedHist Sched.StackedSlots.
Import ListNotations.
Local Open Scope string_scope. Local Open Scope list_scope. Local Open Scope Z_scope.

(* job lists only get longer along _allocate_job *)
Lemma fold_reserve_locjobs_ext job reqs ls : forall s0 s' key js,
  fold_left (reserve_level job reqs) ls (Ok s0) = Ok s' -> lookup key (locjobs s0) = Some js ->
  exists ext, lookup key (locjobs s') = Some (js ++ ext).
Proof.
  induction ls as [|l ls IH]; cbn [fold_left]; intros s0 s' key js H Hk.
  - inversion H. subst. exists []. rewrite app_nil_r. exact Hk.
  - destruct (reserve_level job reqs (Ok s0) l) as [s1|e] eqn:E1; [|rewrite fold_reserve_err in H; discriminate].
    pose proof (reserve_level_locjobs _ _ _ _ _ E1) as Elj.
    assert (exists e1, lookup key (locjobs s1) = Some (js ++ e1)).
    { rewrite Elj. destruct (String.eqb_spec key (req_key l)) as [Ek|Ek].
      - subst key. rewrite lookup_dset, Hk. exists [job]. reflexivity.
      - rewrite lookup_dset_other by exact Ek. exists []. rewrite app_nil_r. exact Hk. }
    destruct H0 as (e1 & H1). destruct (IH s1 s' key (js ++ e1) H H1) as (e2 & H2).
    exists (e1 ++ e2). rewrite H2, app_assoc. reflexivity.
Qed.

Section StackedQuiesce.
Variable locs : list level.
Hypothesis locs_names : forall l1 l2, In l1 locs -> In l2 locs -> lv_name l1 = lv_name l2 -> l1 = l2.
Hypothesis locs_caps : forall l cap, In l locs -> lv_cap l = Some cap -> wfr cap /\ In "/" (mounts cap).

Lemma cur_pre2 st G R l cap :
  Inv2 locs st G R -> In l locs -> lv_cap l = Some cap ->
  let cur := match lookup (lv_name l) (hwloc st) with Some h => h | None => default_hw end in
  wf cur /\ (forall m, In m (mounts cur) -> In m (mounts cap)) /\ (forall m, size_at cur m <= size_at cap m) /\
  (forall x, mu cur x = mu_o (lookup (lv_name l) (hwloc st)) x).
Proof.
  intros (K & A & L & E & Gz & C) Hl Hc cur. destruct (locs_caps l cap Hl Hc) as [[Wc _] Hroot]. unfold cur.
  destruct (lookup (lv_name l) (hwloc st)) as [c0|] eqn:Ec.
  - destruct (C l cap c0 Hl Hc Ec) as [C1 C2]. split; [apply (L _ _ Ec)|]. split; [exact C2|].
    split; [intros m; apply (C1 (MS m))|reflexivity].
  - split; [apply wf_default|]. split; [intros m [Hm|[]]; subst; exact Hroot|].
    split; [intros m; rewrite size_at_default; apply total_nonneg; apply Wc|].
    intros [| |m]; simpl; try reflexivity. apply size_at_default.
Qed.

Lemma attempt_mono2 st G R job cands reqs n chosen st' vn al :
  Inv2 locs st G R -> ev_ok2 locs (EAttempt job cands reqs n chosen) ->
  attempt st job cands reqs n chosen = Ok (st', vn, al) -> ledger_le st st' /\ slots_le st st'.
Proof.
  intros HI (Hn & Hch & Hcands & Hreqs) Hat.
  destruct al; [|apply attempt_fail_unchanged in Hat; subst; split; [apply ledger_le_refl|apply slots_le_refl]].
  subst n. destruct (attempt_single' _ _ _ _ _ _ _ Hch Hat) as (c & _ & Hc & Hv & Hal).
  destruct (Hcands c Hc) as (Hne & Hlv & Hnd). destruct c as [|l0 ls]; [congruence|]. clear Hne.
  destruct (allocate_chain _ _ _ _ _ _ Hal Hnd (fun l Hl => proj2 (Hlv l Hl))) as (jh & Er0 & Ej & Hin & Hout).
  destruct HI as (K & A & L & E & Gz & C).
  split.
  - intros nm. destruct (in_dec string_dec nm (names (l0 :: ls))) as [Hi|Hi].
    + unfold names in Hi. apply in_map_iff in Hi. destruct Hi as (l & En & Hl). subst nm.
      destruct (Hin l Hl) as (rq & h & Er & Eh & Elk). rewrite Elk.
      assert (Wq : wfr rq) by (apply (Hreqs (req_key l)); apply lookup_some_in; exact Er).
      unfold ledger_after in Eh. destruct (lookup (lv_name l) (hwloc st)) as [cur|] eqn:Ecur; simpl.
      * destruct (mu_add cur rq (L _ _ Ecur) (proj1 Wq)) as (r & Er' & _ & M1 & M2). rewrite Er' in Eh. inversion Eh. subst.
        split; [intros x; rewrite M1; pose proof (mu_nonneg rq x Wq); lia|intros m Hm; apply M2; left; exact Hm].
      * destruct (mu_normalized rq (proj1 Wq)) as (r & Er' & _ & M1 & _). rewrite Er' in Eh. inversion Eh. subst.
        split; [intros x; rewrite M1; apply mu_nonneg; exact Wq|intros m []].
    + rewrite (Hout nm Hi). split; [intros; lia|auto].
  - intros job2 l2.
    assert (Hcr : forall x, counts_as_running st job2 x = true -> counts_as_running st' job2 x = true).
    { intros x. unfold counts_as_running. rewrite Ej. destruct (String.eqb_spec x job) as [Ex|Ex].
      - subst x. rewrite lookup_dset. reflexivity.
      - rewrite lookup_dset_other by exact Ex. auto. }
    unfold running_jobs. destruct (lookup (req_key l2) (locjobs st)) as [js|] eqn:Ejs; [|simpl; lia].
    assert (Hext : exists ext, lookup (req_key l2) (locjobs st') = Some (js ++ ext)).
    { unfold allocate in Hal. rewrite Er0 in Hal. cbn [concat] in Hal. rewrite app_nil_r in Hal.
      apply (fold_reserve_locjobs_ext _ _ _ _ _ _ _ Hal). exact Ejs. }
    destruct Hext as (ext & Eext). rewrite Eext. rewrite filter_app, app_length.
    pose proof (filter_length_mono _ _ js Hcr). lia.
Qed.

Lemma level_valid_antitone2 s1 G1 R1 s2 G2 R2 reqs job l :
  Inv2 locs s1 G1 R1 -> Inv2 locs s2 G2 R2 -> ledger_le s1 s2 -> slots_le s1 s2 -> In l locs ->
  (forall k h, In (k, h) reqs -> wfr h) ->
  level_valid s2 reqs job l = Ok true -> level_valid s1 reqs job l = Ok true.
Proof.
  intros I1 I2 Hle Hsl Hl Hreqs Hv.
  destruct (lv_cap l) as [cap|] eqn:Hc.
  2:{ rewrite (slot_level_valid _ _ _ _ Hc) in Hv. rewrite (slot_level_valid _ _ _ _ Hc).
      injection Hv as Hlt. f_equal. apply N.ltb_lt in Hlt. apply N.ltb_lt. specialize (Hsl job l).
      eapply N.le_lt_trans; [|exact Hlt]. lia. }
  destruct (lookup (req_key l) reqs) as [rq|] eqn:Er.
  2:{ unfold level_valid in Hv. rewrite Hc, Er in Hv. discriminate. }
  assert (Wr : wfr rq) by (apply (Hreqs (req_key l)); apply lookup_some_in; exact Er).
  destruct (locs_caps l cap Hl Hc) as [[Wc _] _].
  destruct (cur_pre2 s1 G1 R1 l cap I1 Hl Hc) as (W1 & M1 & S1 & E1).
  destruct (cur_pre2 s2 G2 R2 l cap I2 Hl Hc) as (W2 & M2 & S2 & E2).
  destruct (Hle (lv_name l)) as [Hmu _].
  apply (cap_level_valid_iff s2 reqs job l cap rq _ Hc Er eq_refl Wc W2 (proj1 Wr) M2 S2) in Hv.
  destruct Hv as (F1 & F2 & F3).
  apply (cap_level_valid_iff s1 reqs job l cap rq _ Hc Er eq_refl Wc W1 (proj1 Wr) M1 S1).
  pose proof (Hmu MC) as HC. pose proof (Hmu MM) as HM. rewrite <- E1, <- E2 in HC, HM. simpl in HC, HM.
  split; [lia|]. split; [lia|]. intros m Hi. destruct (F3 m Hi) as [Hin Hs]. split; [exact Hin|].
  pose proof (Hmu (MS m)) as HS. rewrite <- E1, <- E2 in HS. simpl in HS. lia.
Qed.

Lemma is_valid_of_all st reqs job c : (forall l, In l c -> level_valid st reqs job l = Ok true) -> is_valid st reqs job c = Ok true.
Proof.
  induction c as [|l c IH]; simpl; intros H; [reflexivity|].
  rewrite (H l (or_introl eq_refl)). simpl. apply IH. intros l0 Hl0. apply H. right. exact Hl0.
Qed.

Lemma valid_locations_antitone2 s1 G1 R1 s2 G2 R2 reqs job cands :
  Inv2 locs s1 G1 R1 -> Inv2 locs s2 G2 R2 -> ledger_le s1 s2 -> slots_le s1 s2 ->
  (forall c, In c cands -> forall l, In l c -> In l locs) -> (forall k h, In (k, h) reqs -> wfr h) ->
  forall v1 v2, valid_locations s1 reqs job cands = Ok v1 -> valid_locations s2 reqs job cands = Ok v2 ->
  (length v2 <= length v1)%nat.
Proof.
  intros I1 I2 Hle Hsl Hcands Hreqs. induction cands as [|c cs IH]; simpl; intros v1 v2 H1 H2.
  - inversion H1. inversion H2. simpl. lia.
  - destruct (is_valid s1 reqs job c) as [b1|] eqn:E1; simpl in H1; [|discriminate].
    destruct (valid_locations s1 reqs job cs) as [r1|] eqn:R1'; simpl in H1; [|discriminate].
    destruct (is_valid s2 reqs job c) as [b2|] eqn:E2; simpl in H2; [|discriminate].
    destruct (valid_locations s2 reqs job cs) as [r2|] eqn:R2'; simpl in H2; [|discriminate].
    inversion H1. inversion H2. subst.
    assert (Hr : (length r2 <= length r1)%nat) by (apply IH; [intros c0 Hc0; apply Hcands; right; exact Hc0|reflexivity|reflexivity]).
    destruct b2; [|destruct b1; simpl; lia].
    assert (E1' : is_valid s1 reqs job c = Ok true).
    { apply is_valid_of_all. intros l Hl. apply (level_valid_antitone2 _ _ _ _ _ _ _ _ _ I1 I2 Hle Hsl (Hcands c (or_introl eq_refl) l Hl) Hreqs).
      apply (is_valid_all _ _ _ _ E2 l Hl). }
    rewrite E1' in E1. inversion E1. subst. simpl. lia.
Qed.

Lemma round_mono2 es : forall st G R st',
  Inv2 locs st G R -> conformant2 locs st R es -> only_attempts es -> run st es = Ok st' ->
  ledger_le st st' /\ slots_le st st' /\ Inv2 locs st' G (reservations st R es).
Proof.
  induction es as [|e es IH]; simpl; intros st G R st' HI Hc Ho Hr.
  - inversion Hr. subst. split; [apply ledger_le_refl|]. split; [apply slots_le_refl|exact HI].
  - destruct Hc as (Hok & Hcf & Hrest). destruct (step st e) as [s|] eqn:Es; simpl in Hr; [|discriminate].
    assert (He : match e with EAttempt _ _ _ _ _ => True | ENotify _ _ _ => False end) by (apply Ho; left; reflexivity).
    destruct e as [job cands reqs n chosen|]; [|contradiction].
    simpl in Es. destruct (attempt st job cands reqs n chosen) as [[[s0 vn] al]|] eqn:Ea; simpl in Es; [|discriminate].
    inversion Es. subst s0.
    pose proof (inv2_attempt locs locs_names locs_caps _ _ _ _ _ _ _ _ _ _ _ HI Hok Hcf Ea) as HI'.
    destruct (attempt_mono2 _ _ _ _ _ _ _ _ _ _ _ HI Hok Ea) as [Hle Hsl].
    destruct (IH s G _ st' HI' Hrest (fun e0 H0 => Ho e0 (or_intror H0)) Hr) as (Hle' & Hsl' & HI'').
    split; [eapply ledger_le_trans; eauto|]. split; [eapply slots_le_trans; eauto|exact HI''].
Qed.

Lemma conformant2_app p : forall st R q s, conformant2 locs st R (p ++ q) -> run st p = Ok s ->
  conformant2 locs s (reservations st R p) q.
Proof.
  induction p as [|e p IH]; simpl; intros st R q s Hc Hr.
  - inversion Hr. subst. exact Hc.
  - destruct Hc as (_ & _ & Hc). destruct (step st e) as [s0|]; simpl in Hr; [|discriminate]. apply (IH s0 _ q s Hc Hr).
Qed.

(* C12_quiescent_stacked *)
Theorem round_quiescent2 st G R pre job cands reqs n chosen post st' s_i vn :
  Inv2 locs st G R ->
  conformant2 locs st R (pre ++ EAttempt job cands reqs n chosen :: post) ->
  only_attempts (pre ++ EAttempt job cands reqs n chosen :: post) ->
  run st (pre ++ EAttempt job cands reqs n chosen :: post) = Ok st' ->
  run st pre = Ok s_i -> attempt s_i job cands reqs n chosen = Ok (s_i, vn, false) -> (length vn < n)%nat ->
  forall v', valid_locations st' reqs job cands = Ok v' ->
  (length v' < n)%nat /\ attempt st' job cands reqs n chosen = Ok (st', map chain_name v', false).
Proof.
  intros HI Hc Ho Hr Hpre Hat Hshort v' Hv'.
  assert (Ho1 : only_attempts pre) by (intros e He; apply Ho; apply in_or_app; left; exact He).
  assert (Ho2 : only_attempts post) by (intros e He; apply Ho; apply in_or_app; right; right; exact He).
  destruct (round_mono2 pre st G R s_i HI (conformant2_prefix locs pre st R _ Hc) Ho1 Hpre) as (_ & _ & HIi).
  pose proof (conformant2_app pre st R _ s_i Hc Hpre) as Hc2. cbn [conformant2] in Hc2.
  destruct Hc2 as ((_ & _ & Hcands & Hreqs) & _ & Hc3).
  rewrite run_app, Hpre in Hr. cbn [bind_res run step] in Hr. rewrite Hat in Hr. cbn [bind_res fst] in Hr.
  cbn [step] in Hc3. rewrite Hat in Hc3. cbn [bind_res fst] in Hc3. unfold gstepR in Hc3. rewrite Hat in Hc3.
  destruct (round_mono2 post s_i G _ st' HIi Hc3 Ho2 Hr) as (Hle & Hsl & HIf).
  assert (Hlen : (length v' < n)%nat).
  { unfold attempt in Hat. destruct (valid_locations s_i reqs job cands) as [v|] eqn:Ev; simpl in Hat; [|discriminate].
    assert (vn = map chain_name v).
    { destruct (Nat.leb n (length v)); [|inversion Hat; reflexivity].
      destruct (if Nat.eqb (length v) n then v else pick v chosen) as [|c0 sel']; [inversion Hat; reflexivity|].
      destruct (allocate s_i job reqs (c0 :: sel')); simpl in Hat; inversion Hat. }
    subst vn. rewrite map_length in Hshort.
    pose proof (valid_locations_antitone2 s_i G _ st' G _ reqs job cands HIi HIf Hle Hsl
                  (fun c Hc0 l Hl => proj1 (proj1 (proj2 (Hcands c Hc0)) l Hl)) Hreqs v v' Ev Hv'). lia. }
  split; [exact Hlen|]. apply attempt_waits_when_short; assumption.
Qed.
End StackedQuiesce.
