(* Base/Corr.v — shared scaffolding for the correspondence check.  The harness writes a file
     Definition cases : list <ccase> := [ ... ].
     Eval vm_compute in mismatches check_case cases.
   where each case carries the input AND the observation the Python implementation produced;
   [check_case] runs the model and compares.  The kernel's own evaluator therefore decides
   agreement; no extraction is involved. *)
From Coq Require Import List Bool NArith ZArith Ascii.
From SF Require Import Base.Str.
Import ListNotations.

Fixpoint mismatches_from {A} (i : nat) (chk : A -> bool) (l : list A) : list nat :=
  match l with
  | [] => []
  | x :: l' => if chk x then mismatches_from (S i) chk l' else i :: mismatches_from (S i) chk l'
  end.
Definition mismatches {A} (chk : A -> bool) (l : list A) : list nat := mismatches_from 0 chk l.

Definition opt_eqb {A} (eqb : A -> A -> bool) (a b : option A) : bool :=
  match a, b with
  | Some x, Some y => eqb x y
  | None, None => true
  | _, _ => false
  end.

Fixpoint list_eqb {A} (eqb : A -> A -> bool) (a b : list A) : bool :=
  match a, b with
  | [], [] => true
  | x :: a', y :: b' => eqb x y && list_eqb eqb a' b'
  | _, _ => false
  end.

Definition pair_eqb {A B} (ea : A -> A -> bool) (eb : B -> B -> bool) (a b : A * B) : bool :=
  ea (fst a) (fst b) && eb (snd a) (snd b).

(* strings with bytes outside printable ASCII are written by the harness as [sb [b1;b2;...]] *)
Definition sb (l : list N) : string :=
  fold_right (fun n s => String (ascii_of_N n) s) EmptyString l.
