(* Base/Dec.v — decimal rendering of naturals, mirroring Python's str(int) for n >= 0 and int(s)
   restricted to s in [0-9]+ (the leniencies of int(): sign, blanks, underscores, non-ASCII digits
   are outside the model; the correspondence only feeds strings on which [undec] answers Some). *)
From Coq Require Import List Ascii Bool NArith Lia Decimal DecimalFacts DecimalN DecimalString.
From SF Require Import Base.Str.
Import ListNotations.

Definition dec (n : N) : string := NilEmpty.string_of_uint (N.to_uint n).

Definition undec (s : string) : option N :=
  match s with
  | EmptyString => None
  | _ => option_map N.of_uint (NilEmpty.uint_of_string s)
  end.

Definition is_digit (a : ascii) : bool :=
  let n := N_of_ascii a in (48 <=? n)%N && (n <=? 57)%N.

Fixpoint all_digits (s : string) : bool :=
  match s with
  | EmptyString => true
  | String a s' => is_digit a && all_digits s'
  end.

Lemma string_of_uint_digits d : all_digits (NilEmpty.string_of_uint d) = true.
Proof. induction d; simpl; auto. Qed.

Lemma dec_digits n : all_digits (dec n) = true.
Proof. apply string_of_uint_digits. Qed.

Lemma dec_nonempty n : dec n <> EmptyString.
Proof.
  unfold dec. intros H.
  pose proof (NilEmpty.usu (N.to_uint n)) as U. rewrite H in U. simpl in U.
  injection U as U.
  pose proof (DecimalN.Unsigned.of_to n) as E. rewrite <- U in E. simpl in E. subst n.
  discriminate U.
Qed.

Lemma undec_dec n : undec (dec n) = Some n.
Proof.
  unfold undec. pose proof (dec_nonempty n) as H.
  destruct (dec n) eqn:E; [congruence|].
  rewrite <- E. unfold dec. rewrite NilEmpty.usu. simpl.
  rewrite DecimalN.Unsigned.of_to. reflexivity.
Qed.

Lemma dec_inj a b : dec a = dec b -> a = b.
Proof.
  intros H. pose proof (undec_dec a) as Ha. rewrite H in Ha. rewrite undec_dec in Ha. congruence.
Qed.

Lemma digits_no_char c s : is_digit c = false -> all_digits s = true -> has_char c s = false.
Proof.
  intros Hc. induction s as [|a s IH]; simpl; intros H; [reflexivity|].
  apply andb_true_iff in H. destruct H as [Ha Hs].
  rewrite (IH Hs). rewrite orb_false_r.
  destruct (Ascii.eqb a c) eqn:E; [|reflexivity].
  apply Ascii.eqb_eq in E. subst. congruence.
Qed.

Lemma dec_no_dot n : has_char "."%char (dec n) = false.
Proof. apply digits_no_char; [reflexivity|apply dec_digits]. Qed.

Lemma dec_no_slash n : has_char "/"%char (dec n) = false.
Proof. apply digits_no_char; [reflexivity|apply dec_digits]. Qed.

Lemma dec_length_pos n : 1 <= String.length (dec n).
Proof. pose proof (dec_nonempty n). destruct (dec n); [congruence|simpl; lia]. Qed.
