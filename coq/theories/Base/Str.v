(* Base/Str.v — Python-string helpers over Coq [string]: split on one character, join, and the
   round-trip lemmas the tag / path / shell models need.  Definitions and their lemmas live
   together here because this is library code, not a model of StreamFlow. *)
From Coq Require Import Ascii Bool Arith Lia.
From Coq Require Export String.
From Coq Require Export List.    (* after String, so that [length], [concat] are the list ones *)
Import ListNotations.
Local Open Scope string_scope. Local Open Scope list_scope.

(* Python: s.split(c) for a one-character separator. Always returns a non-empty list. *)
Fixpoint split_on (c : ascii) (s : string) : list string :=
  match s with
  | EmptyString => [EmptyString]
  | String a s' =>
      if Ascii.eqb a c then EmptyString :: split_on c s'
      else match split_on c s' with
           | [] => [String a EmptyString]      (* unreachable: split_on never returns [] *)
           | w :: ws => String a w :: ws
           end
  end.

(* Python: sep.join(l) *)
Fixpoint join (sep : string) (l : list string) : string :=
  match l with
  | [] => EmptyString
  | [x] => x
  | x :: xs => String.append x (String.append sep (join sep xs))
  end.

Fixpoint has_char (c : ascii) (s : string) : bool :=
  match s with
  | EmptyString => false
  | String a s' => Ascii.eqb a c || has_char c s'
  end.

Definition sep1 (c : ascii) : string := String c EmptyString.

Lemma split_on_nonnil c s : split_on c s <> [].
Proof.
  induction s as [|a s IH]; simpl; [discriminate|].
  destruct (Ascii.eqb a c); [discriminate|].
  destruct (split_on c s); [congruence|discriminate].
Qed.

Lemma split_on_nochar c s : has_char c s = false -> split_on c s = [s].
Proof.
  induction s as [|a s IH]; simpl; intros H; [reflexivity|].
  apply orb_false_iff in H. destruct H as [Ha Hs].
  rewrite Ha. rewrite (IH Hs). reflexivity.
Qed.

Lemma split_on_app_nochar c x rest :
  has_char c x = false ->
  split_on c (String.append x (String c rest)) = x :: split_on c rest.
Proof.
  induction x as [|a x IH]; simpl; intros H.
  - rewrite Ascii.eqb_refl. reflexivity.
  - apply orb_false_iff in H. destruct H as [Ha Hx].
    rewrite Ha. rewrite (IH Hx). reflexivity.
Qed.

Lemma split_join c l :
  l <> [] -> forallb (fun x => negb (has_char c x)) l = true ->
  split_on c (join (sep1 c) l) = l.
Proof.
  induction l as [|x l IH]; intros Hne Hall; [congruence|].
  simpl in Hall. apply andb_true_iff in Hall. destruct Hall as [Hx Hl].
  apply negb_true_iff in Hx.
  destruct l as [|y l].
  - simpl. apply split_on_nochar. exact Hx.
  - change (join (sep1 c) (x :: y :: l))
      with (String.append x (String.append (sep1 c) (join (sep1 c) (y :: l)))).
    assert (E : String.append (sep1 c) (join (sep1 c) (y :: l)) = String c (join (sep1 c) (y :: l)))
      by reflexivity.
    rewrite E. rewrite split_on_app_nochar by exact Hx.
    rewrite IH; [reflexivity|discriminate|exact Hl].
Qed.

Lemma has_char_append c a b :
  has_char c (String.append a b) = has_char c a || has_char c b.
Proof.
  induction a as [|x a IH]; simpl; [reflexivity|].
  rewrite IH. apply orb_assoc.
Qed.

Lemma length_append a b :
  String.length (String.append a b) = String.length a + String.length b.
Proof. induction a as [|x a IH]; simpl; [reflexivity|]. rewrite IH. reflexivity. Qed.

Lemma append_nil_r a : String.append a EmptyString = a.
Proof. induction a as [|x a IH]; simpl; [reflexivity|]. rewrite IH. reflexivity. Qed.

Lemma append_assoc a b c :
  String.append (String.append a b) c = String.append a (String.append b c).
Proof. induction a as [|x a IH]; simpl; [reflexivity|]. rewrite IH. reflexivity. Qed.

(* join of a list extended on the right *)
Lemma join_snoc sep l x :
  l <> [] -> join sep (l ++ [x]) = String.append (join sep l) (String.append sep x).
Proof.
  induction l as [|y l IH]; intros Hne; [congruence|].
  destruct l as [|z l].
  - simpl. reflexivity.
  - change ((y :: z :: l) ++ [x]) with (y :: ((z :: l) ++ [x])).
    change (join sep (y :: (z :: l) ++ [x]))
      with (String.append y (String.append sep (join sep ((z :: l) ++ [x])))).
    rewrite IH by discriminate.
    change (join sep (y :: z :: l)) with (String.append y (String.append sep (join sep (z :: l)))).
    rewrite !append_assoc. reflexivity.
Qed.

Definition string_eqb := String.eqb.
Lemma string_eqb_eq a b : String.eqb a b = true <-> a = b.
Proof. apply String.eqb_eq. Qed.

(* Python: s.startswith(p) *)
Fixpoint startswith (p s : string) : bool :=
  match p, s with
  | EmptyString, _ => true
  | String a p', String b s' => Ascii.eqb a b && startswith p' s'
  | String _ _, EmptyString => false
  end.
