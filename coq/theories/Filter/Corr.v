(* Filter/Corr.v — correspondence cases for Filter/Model.v (used by the C13 check). *)
From Coq Require Import List Bool NArith.
From SF Require Import Base.Str Base.Corr.
From SF Require Export Filter.Model.   (* the generated case files name its constructors *)
Import ListNotations.

Definition T (i : N) (d : string) (s : option string) : target := Build_target i d s.
Definition R (d : string) (s : option string) (j : list (string * string)) : rulecfg := Build_rulecfg d s j.

Inductive ccase :=
(* the filter chain applied as DefaultScheduler.schedule applies it; obs = indices of the returned
   targets in the order returned, or the exception *)
| CFilter (ts : list target) (fs : list (list rulecfg)) (job : job_inputs) (obs : res (list N))
(* a whole DefaultScheduler.schedule call followed by releases: busy = for each pass the locations
   (deployment, service) that cannot host; order = order in which _process_target was started (or the
   exception raised by schedule); allocs = JobAllocation.target after each pass *)
| CSched (ts : list target) (fs : list (list rulecfg)) (job : job_inputs)
         (busy : list (list (string * option string)))
         (order : res (list N)) (allocs : list (option N))
(* the SAME filter objects (one per element of fs) evaluated on a sequence of jobs: each call = (step name,
   inputs, indices of the declared targets that make up this job's binding); obs per call *)
| CFilterSeq (ts : list target) (fs : list (list rulecfg))
             (calls : list (string * job_inputs * list N)) (obs : list (res (list N)))
(* several jobs scheduled one after the other through one scheduler (hence the same cached filter objects);
   busy0 = locations occupied from the start; every allocated job keeps its location (one slot each);
   obs per job = exception of schedule() or the allocation after the scheduler went quiescent *)
| CSchedSeq (ts : list target) (fs : list (list rulecfg)) (busy0 : list (string * option string))
            (jobs : list job_inputs) (obs : list (res (option N))).

Definition ferr_eqb (a b : ferr) : bool :=
  match a, b with
  | EMissingInput, EMissingInput | EUnsupported, EUnsupported | ENoTargets, ENoTargets => true
  | _, _ => false
  end.

Definition res_eqb {A} (eqb : A -> A -> bool) (a b : res A) : bool :=
  match a, b with
  | Ok x, Ok y => eqb x y
  | Err e, Err f => ferr_eqb e f
  | _, _ => false
  end.

Definition res_map {A B} (f : A -> B) (a : res A) : res B :=
  match a with Ok x => Ok (f x) | Err e => Err e end.

Definition host_of (busy : list (string * option string)) (t : target) : bool :=
  negb (existsb (fun l => String.eqb (fst l) (t_dep t) && srv_eqb (snd l) (t_srv t)) busy).

Definition select (ts : list target) (sel : list N) : list target :=
  flat_map (fun i => filter (fun t => N.eqb (t_idx t) i) ts) sel.

Definition mk_state (f : list rulecfg) : fstate := {| f_rules := map mk_rule f; f_seen := [] |}.

Fixpoint sched_seq (rules : list (list rule)) (ts : list target) (busy : list (string * option string))
         (jobs : list job_inputs) : list (res (option N)) :=
  match jobs with
  | [] => []
  | j :: js =>
      match schedule rules j ts [host_of busy] with
      | Err e => Err e :: sched_seq rules ts busy js
      | Ok (Some t :: _) => Ok (Some (t_idx t)) :: sched_seq rules ts (busy ++ [(t_dep t, t_srv t)]) js
      | Ok _ => Ok None :: sched_seq rules ts busy js
      end
  end.

Definition check_case (c : ccase) : bool :=
  match c with
  | CFilter ts fs job obs =>
      res_eqb (list_eqb N.eqb) (res_map (map t_idx) (chain (map (map mk_rule) fs) job ts)) obs
  | CSched ts fs job busy order allocs =>
      let rules := map (map mk_rule) fs in
      res_eqb (list_eqb N.eqb) (res_map (map t_idx) (chain rules job ts)) order
      && match schedule rules job ts (map host_of busy) with
         | Ok tr => list_eqb (opt_eqb N.eqb) (map (option_map t_idx) tr) allocs
         | Err _ => match allocs with [] => true | _ => false end
         end
  | CFilterSeq ts fs calls obs =>
      list_eqb (res_eqb (list_eqb N.eqb))
        (map (res_map (map t_idx))
             (run_calls (map mk_state fs)
                        (map (fun c => match c with (st, job, sel) => Build_call st job (select ts sel) end) calls)))
        obs
  | CSchedSeq ts fs busy0 jobs obs =>
      list_eqb (res_eqb (opt_eqb N.eqb)) (sched_seq (map (map mk_rule) fs) ts busy0 jobs) obs
  end.
