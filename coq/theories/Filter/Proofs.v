(* Filter/Proofs.v — lemmas about Filter/Model.v. *)
From Coq Require Import List Bool NArith Lia Permutation.
From SF Require Import Base.Str Base.Corr Filter.Model.
Import ListNotations.
Local Open Scope string_scope. Local Open Scope list_scope.

(* ---------- rule evaluation agrees with the property's wording whenever it returns ---------- *)
Lemma eval_preds_ok job ps b :
  eval_preds job ps = Ok b -> b = forallb (pred_holds job) ps.
Proof.
  induction ps as [|[p m] ps IH]; simpl; intros H.
  - congruence.
  - unfold pred_holds at 1. simpl.
    destruct (lookup p job) as [[k v]|]; [|discriminate].
    destruct k; try discriminate.
    destruct (String.eqb m v); simpl.
    + apply IH. exact H.
    + congruence.
Qed.

Lemma eval_preds_wf job ps :
  forallb (pred_wf job) ps = true -> eval_preds job ps = Ok (forallb (pred_holds job) ps).
Proof.
  induction ps as [|[p m] ps IH]; simpl; intros H; [reflexivity|].
  apply andb_true_iff in H. destruct H as [H1 H2].
  unfold pred_wf in H1. unfold pred_holds at 1. simpl in *.
  destruct (lookup p job) as [[k v]|]; [|discriminate].
  destruct k; try discriminate.
  destruct (String.eqb m v); simpl; [apply IH; exact H2|reflexivity].
Qed.

Lemma rule_eval_ok r job t b : rule_eval r job t = Ok b -> b = rule_matches job t r.
Proof.
  unfold rule_eval, rule_matches.
  destruct (String.eqb (t_dep t) (r_dep r)); cbn [negb andb]; [|intros Hx; injection Hx as Hx; subst; reflexivity].
  destruct (r_srv r) as [s|].
  - destruct (srv_eqb (Some s) (t_srv t)); simpl; [|intros Hx; injection Hx as Hx; subst; reflexivity].
    apply eval_preds_ok.
  - simpl. apply eval_preds_ok.
Qed.

Lemma rule_eval_wf r job t :
  forallb (pred_wf job) (r_preds r) = true -> rule_eval r job t = Ok (rule_matches job t r).
Proof.
  intros H. unfold rule_eval, rule_matches.
  destruct (String.eqb (t_dep t) (r_dep r)); cbn [negb andb]; [|reflexivity].
  destruct (r_srv r) as [s|].
  - destruct (srv_eqb (Some s) (t_srv t)); simpl; [|reflexivity].
    apply eval_preds_wf. exact H.
  - simpl. apply eval_preds_wf. exact H.
Qed.

Lemma any_rule_ok rules job t b : any_rule rules job t = Ok b -> b = keeps rules job t.
Proof.
  unfold keeps. induction rules as [|r rs IH]; simpl; intros H; [congruence|].
  destruct (rule_eval r job t) as [b'|e] eqn:E; [|discriminate].
  apply rule_eval_ok in E. rewrite <- E.
  destruct b'; simpl; [congruence|apply IH; exact H].
Qed.

Lemma any_rule_wf rules job t :
  rules_wf rules job = true -> any_rule rules job t = Ok (keeps rules job t).
Proof.
  unfold keeps, rules_wf. induction rules as [|r rs IH]; simpl; intros H; [reflexivity|].
  apply andb_true_iff in H. destruct H as [H1 H2].
  rewrite (rule_eval_wf r job t H1).
  destruct (rule_matches job t r); simpl; [reflexivity|apply IH; exact H2].
Qed.

Lemma collect_ok rules job ts l :
  collect rules job ts = Ok l -> l = filter (keeps rules job) ts.
Proof.
  revert l. induction ts as [|t ts IH]; simpl; intros l H; [congruence|].
  destruct (any_rule rules job t) as [b|e] eqn:E; [|discriminate].
  apply any_rule_ok in E. rewrite <- E.
  destruct (collect rules job ts) as [l'|e]; [|discriminate].
  rewrite <- (IH l' eq_refl). destruct b; congruence.
Qed.

Lemma collect_wf rules job ts :
  rules_wf rules job = true -> collect rules job ts = Ok (filter (keeps rules job) ts).
Proof.
  intros W. induction ts as [|t ts IH]; simpl; [reflexivity|].
  rewrite (any_rule_wf rules job t W). rewrite IH.
  destruct (keeps rules job t); reflexivity.
Qed.

(* ---------- get_targets ---------- *)
Lemma get_targets_ok rules job ts l :
  get_targets rules job ts = Ok l -> l = filter (keeps rules job) ts /\ l <> [].
Proof.
  unfold get_targets. destruct (collect rules job ts) as [l'|e] eqn:E; [|discriminate].
  apply collect_ok in E. destruct l' as [|x l']; [discriminate|].
  intros H. injection H as H. subst l. split; [exact E|discriminate].
Qed.

Lemma get_targets_wf rules job ts :
  rules_wf rules job = true ->
  get_targets rules job ts =
    match filter (keeps rules job) ts with [] => Err ENoTargets | l => Ok l end.
Proof.
  intros W. unfold get_targets. rewrite (collect_wf rules job ts W).
  destruct (filter (keeps rules job) ts); reflexivity.
Qed.

Lemma get_targets_raises_only_if_ill_formed rules job ts e :
  get_targets rules job ts = Err e -> e <> ENoTargets -> rules_wf rules job = false.
Proof.
  intros H Hne. destruct (rules_wf rules job) eqn:W; [|reflexivity].
  rewrite (get_targets_wf rules job ts W) in H.
  destruct (filter (keeps rules job) ts); congruence.
Qed.

Lemma get_targets_set_perm order rules job ts l :
  (forall x, Permutation (order x) x) ->
  get_targets_set order rules job ts = Ok l -> Permutation l (filter (keeps rules job) ts).
Proof.
  intros P. unfold get_targets_set.
  destruct (collect rules job ts) as [l'|e] eqn:E; [|discriminate].
  apply collect_ok in E. destruct l' as [|x l']; [discriminate|].
  intros H. injection H as H. subst l. rewrite <- E. apply P.
Qed.

(* ---------- chains of filters ---------- *)
Lemma filter_filter {A} (p q : A -> bool) l :
  filter q (filter p l) = filter (fun x => p x && q x) l.
Proof.
  induction l as [|x l IH]; simpl; [reflexivity|].
  destruct (p x); simpl; [destruct (q x); simpl; congruence|exact IH].
Qed.

Definition survives (fs : list (list rule)) (job : job_inputs) (t : target) : bool :=
  forallb (fun f => keeps f job t) fs.

Lemma filter_ext_in' {A} (p q : A -> bool) l :
  (forall x, p x = q x) -> filter p l = filter q l.
Proof. intros H. apply filter_ext. exact H. Qed.

Lemma filter_true {A} (l : list A) : filter (fun _ => true) l = l.
Proof. induction l; simpl; congruence. Qed.

Lemma chain_ok fs job ts l :
  chain fs job ts = Ok l -> l = filter (survives fs job) ts.
Proof.
  revert ts. induction fs as [|f fs IH]; simpl; intros ts H.
  - injection H as H. subst. unfold survives. simpl. symmetry. apply filter_true.
  - destruct (get_targets f job ts) as [l'|e] eqn:E; [|discriminate].
    apply get_targets_ok in E. destruct E as [E _]. apply IH in H. subst l l'.
    rewrite filter_filter. apply filter_ext. intros x. reflexivity.
Qed.

(* ---------- the attempt loop ---------- *)
Fixpoint take_until (h : target -> bool) (q : list target) : list target :=
  match q with
  | [] => []
  | t :: q' => if h t then [] else t :: take_until h q'
  end.

Lemma fold_scheduled h q w t :
  fold_left (task_step h) q {| waiting := w; scheduled := Some t |}
  = {| waiting := w; scheduled := Some t |}.
Proof. induction q as [|x q IH]; simpl; [reflexivity|]. unfold task_step at 2. simpl. exact IH. Qed.

Lemma fold_unscheduled h q w :
  fold_left (task_step h) q {| waiting := w; scheduled := None |}
  = {| waiting := w ++ take_until h q; scheduled := find h q |}.
Proof.
  revert w. induction q as [|x q IH]; intros w; simpl.
  - rewrite app_nil_r. reflexivity.
  - unfold task_step at 2. simpl. destruct (h x).
    + rewrite fold_scheduled. rewrite app_nil_r. reflexivity.
    + rewrite IH. rewrite <- app_assoc. reflexivity.
Qed.

Lemma take_until_none h q : find h q = None -> take_until h q = q.
Proof.
  induction q as [|x q IH]; simpl; [reflexivity|].
  destruct (h x); [discriminate|]. intros H. rewrite IH by exact H. reflexivity.
Qed.

Lemma pass_unscheduled h w :
  pass h {| waiting := w; scheduled := None |}
  = {| waiting := take_until h w; scheduled := find h w |}.
Proof. unfold pass. simpl. rewrite fold_unscheduled. reflexivity. Qed.

Lemma pass_scheduled h w t :
  pass h {| waiting := w; scheduled := Some t |} = {| waiting := []; scheduled := Some t |}.
Proof. unfold pass. simpl. apply fold_scheduled. Qed.

(* None until the first pass in which some target can host; from then on the first such target *)
Fixpoint trace_spec (hosts : list (target -> bool)) (ts : list target) : list (option target) :=
  match hosts with
  | [] => []
  | h :: hs =>
      match find h ts with
      | Some t => Some t :: map (fun _ => Some t) hs
      | None => None :: trace_spec hs ts
      end
  end.

Fixpoint first_alloc (hosts : list (target -> bool)) (ts : list target) : option target :=
  match hosts with
  | [] => None
  | h :: hs => match find h ts with Some t => Some t | None => first_alloc hs ts end
  end.

Lemma run_trace_scheduled hs w t :
  run_trace hs {| waiting := w; scheduled := Some t |} = map (fun _ => Some t) hs.
Proof.
  revert w. induction hs as [|h hs IH]; intros w; simpl; [reflexivity|].
  rewrite pass_scheduled. simpl. rewrite IH. reflexivity.
Qed.

Lemma run_trace_spec hosts ts :
  run_trace hosts {| waiting := ts; scheduled := None |} = trace_spec hosts ts.
Proof.
  induction hosts as [|h hs IH]; simpl; [reflexivity|].
  rewrite pass_unscheduled. simpl.
  destruct (find h ts) as [t|] eqn:F.
  - rewrite run_trace_scheduled. reflexivity.
  - rewrite (take_until_none h ts F). rewrite IH. reflexivity.
Qed.

Lemma fold_pass_scheduled hs w t :
  scheduled (fold_left (fun st h => pass h st) hs {| waiting := w; scheduled := Some t |}) = Some t.
Proof.
  revert w. induction hs as [|h hs IH]; intros w; simpl; [reflexivity|].
  rewrite pass_scheduled. apply IH.
Qed.

Lemma run_first_alloc hosts ts :
  scheduled (run hosts ts) = first_alloc hosts ts /\
  (first_alloc hosts ts = None -> waiting (run hosts ts) = ts).
Proof.
  unfold run. induction hosts as [|h hs IH]; simpl.
  - split; reflexivity.
  - rewrite pass_unscheduled. destruct (find h ts) as [t|] eqn:F.
    + split; [apply fold_pass_scheduled|discriminate].
    + rewrite (take_until_none h ts F). exact IH.
Qed.

Lemma find_split {A} (h : A -> bool) l t :
  find h l = Some t ->
  exists l1 l2, l = l1 ++ t :: l2 /\ h t = true /\ (forall x, In x l1 -> h x = false).
Proof.
  induction l as [|x l IH]; simpl; [discriminate|].
  destruct (h x) eqn:E.
  - intros H. injection H as H. subst x. exists [], l. repeat split; [exact E|intros y []].
  - intros H. destruct (IH H) as (l1 & l2 & E1 & E2 & E3).
    exists (x :: l1), l2. subst l. repeat split; [exact E2|].
    intros y [Hy|Hy]; [subst; exact E|apply E3; exact Hy].
Qed.

Lemma first_alloc_some hosts ts t :
  first_alloc hosts ts = Some t ->
  exists k h l1 l2,
    nth_error hosts k = Some h /\ ts = l1 ++ t :: l2 /\ h t = true /\
    (forall x, In x l1 -> h x = false) /\
    (forall k' h', k' < k -> nth_error hosts k' = Some h' -> forall x, In x ts -> h' x = false).
Proof.
  induction hosts as [|h hs IH]; simpl; [discriminate|].
  destruct (find h ts) as [t'|] eqn:F.
  - intros H. injection H as H. subst t'.
    destruct (find_split h ts t F) as (l1 & l2 & E1 & E2 & E3).
    exists 0, h, l1, l2. repeat split; try assumption. intros k' h' Hk. lia.
  - intros H. destruct (IH H) as (k & h0 & l1 & l2 & E0 & E1 & E2 & E3 & E4).
    exists (S k), h0, l1, l2. repeat split; try assumption.
    intros k' h' Hk Hn x Hx. destruct k' as [|k'].
    + simpl in Hn. injection Hn as Hn. subst h'. apply (find_none h ts F x Hx).
    + simpl in Hn. apply (E4 k' h'); [lia|exact Hn|exact Hx].
Qed.

Lemma first_alloc_none hosts ts :
  first_alloc hosts ts = None <-> (forall h, In h hosts -> forall x, In x ts -> h x = false).
Proof.
  induction hosts as [|h hs IH]; simpl.
  - split; [intros _ h []|reflexivity].
  - destruct (find h ts) as [t|] eqn:F.
    + split; [discriminate|]. intros H. exfalso.
      destruct (find_some _ _ F) as [Hin Ht].
      rewrite (H h (or_introl eq_refl) t Hin) in Ht. discriminate.
    + rewrite IH. split.
      * intros H h' [Hh|Hh] x Hx; [subst h'; apply (find_none h ts F x Hx)|apply (H h' Hh x Hx)].
      * intros H h' Hh. apply H. right. exact Hh.
Qed.

Lemma run_first hosts ts t :
  scheduled (run hosts ts) = Some t ->
  exists k h l1 l2,
    nth_error hosts k = Some h /\ ts = l1 ++ t :: l2 /\ h t = true /\
    (forall x, In x l1 -> h x = false) /\
    (forall k' h', k' < k -> nth_error hosts k' = Some h' -> forall x, In x ts -> h' x = false).
Proof.
  intros H. apply first_alloc_some.
  rewrite <- (proj1 (run_first_alloc hosts ts)). exact H.
Qed.

Lemma run_unscheduled hosts ts :
  scheduled (run hosts ts) = None ->
  (forall h, In h hosts -> forall x, In x ts -> h x = false) /\ waiting (run hosts ts) = ts.
Proof.
  intros H. destruct (run_first_alloc hosts ts) as [E W]. rewrite E in H.
  split; [apply first_alloc_none; exact H|apply W; exact H].
Qed.

Lemma find_filter {A} (p h : A -> bool) l :
  find h (filter p l) = find (fun x => p x && h x) l.
Proof.
  induction l as [|x l IH]; simpl; [reflexivity|].
  destruct (p x); simpl; [destruct (h x); [reflexivity|exact IH]|exact IH].
Qed.

Lemma schedule_ok fs job ts hosts tr :
  schedule fs job ts hosts = Ok tr -> tr = trace_spec hosts (filter (survives fs job) ts).
Proof.
  unfold schedule. destruct (chain fs job ts) as [l|e] eqn:E; [|discriminate].
  apply chain_ok in E. intros H. injection H as H. subst tr l. apply run_trace_spec.
Qed.

(* ---------- dict construction ---------- *)
Lemma lookup_dict_set_same {V} k (v : V) d : lookup k (dict_set k v d) = Some v.
Proof.
  induction d as [|[k' v'] d IH]; simpl.
  - rewrite String.eqb_refl. reflexivity.
  - destruct (String.eqb k k') eqn:E; simpl; rewrite E; [reflexivity|exact IH].
Qed.

Lemma lookup_dict_set_other {V} k k' (v : V) d :
  k <> k' -> lookup k' (dict_set k v d) = lookup k' d.
Proof.
  intros Hne. induction d as [|[k0 v0] d IH]; simpl.
  - destruct (String.eqb_spec k' k); [congruence|reflexivity].
  - destruct (String.eqb_spec k k0); simpl.
    + subst k0. destruct (String.eqb_spec k' k); [congruence|reflexivity].
    + rewrite IH. reflexivity.
Qed.

(* ---------- filter objects carry nothing from one job to the next ---------- *)
Lemma chain_call_stateless sts : forall step job ts,
  map f_rules (fst (chain_call sts step job ts)) = map f_rules sts /\
  snd (chain_call sts step job ts) = chain (map f_rules sts) job ts.
Proof.
  induction sts as [|st sts IH]; intros step job ts; [split; reflexivity|].
  cbn [chain_call filter_call map chain].
  destruct (get_targets (f_rules st) job ts) as [l|e]; [|split; reflexivity].
  destruct (IH step job l) as [H1 H2].
  destruct (chain_call sts step job l) as [sts'' r'] eqn:E. cbn [fst snd] in *.
  split; [cbn [map f_rules]; rewrite H1; reflexivity|exact H2].
Qed.

Theorem run_calls_stateless cs : forall sts,
  run_calls sts cs = map (fun c => chain (map f_rules sts) (c_inputs c) (c_ts c)) cs.
Proof.
  induction cs as [|c cs IH]; intros sts; [reflexivity|].
  cbn [run_calls map].
  destruct (chain_call_stateless sts (c_step c) (c_inputs c) (c_ts c)) as [H1 H2].
  destruct (chain_call sts (c_step c) (c_inputs c) (c_ts c)) as [sts' r]. cbn [fst snd] in *.
  rewrite IH, H1, H2. reflexivity.
Qed.

(* hence every job of a sequence is judged on its own: survivors of all filters, in its binding's order *)
Theorem run_calls_each cs sts k c l :
  nth_error cs k = Some c -> nth_error (run_calls sts cs) k = Some (Ok l) ->
  l = filter (survives (map f_rules sts) (c_inputs c)) (c_ts c).
Proof.
  intros Hc Hr. rewrite run_calls_stateless in Hr.
  rewrite nth_error_map, Hc in Hr. simpl in Hr. injection Hr as Hr. apply chain_ok in Hr. exact Hr.
Qed.
