(* Filter/Model.v — model of the matching binding filter and of the way the scheduler tries the
   surviving targets.
   ANCHORS: streamflow.deployment.filter.matching.MatchingRule.eval,
            streamflow.deployment.filter.matching.MatchingBindingFilter.__init__,
            streamflow.deployment.filter.matching.MatchingBindingFilter.get_targets,
            streamflow.scheduling.scheduler.DefaultScheduler.schedule,
            streamflow.scheduling.scheduler.DefaultScheduler._process_target
   Definitions only.  [get_targets] mirrors the code AFTER the fix that keeps the survivors in a list;
   [get_targets_set] is the code before the fix (survivors in a set() of id-hashed objects, returned as
   list(set)): the iteration order of the set is the explicit argument [order]. *)
From Coq Require Import List Bool NArith.
From SF Require Import Base.Str Base.Corr.
Import ListNotations.
Local Open Scope string_scope. Local Open Scope list_scope.

(* what MatchingRule.eval distinguishes about a job input token *)
Inductive kind := KPlain | KFile | KList | KObject.

(* a Target as far as filters and scheduler look at it; [t_idx] is the position in the binding's
   declared target list and plays the role of object identity *)
Record target := { t_idx : N; t_dep : string; t_srv : option string }.

(* one entry of the filter's configuration: target deployment, optional service, job: [{port, match}] *)
Record rulecfg := { c_dep : string; c_srv : option string; c_job : list (string * string) }.
(* a MatchingRule: predicates is a dict *)
Record rule := { r_dep : string; r_srv : option string; r_preds : list (string * string) }.

(* job.inputs : port -> (kind of token, str(token.value)) *)
Definition job_inputs := list (string * (kind * string)).

Inductive ferr :=
| EMissingInput      (* ValueError: job has no input of that name *)
| EUnsupported       (* WorkflowDefinitionException: file, list or object token *)
| ENoTargets.        (* WorkflowExecutionException: nothing survived *)

Inductive res (A : Type) := Ok (a : A) | Err (e : ferr).
Arguments Ok {A} a. Arguments Err {A} e.

(* ---- Python dict as an association list in insertion order ---- *)
Fixpoint lookup {V} (k : string) (d : list (string * V)) : option V :=
  match d with
  | [] => None
  | (k', v) :: d' => if String.eqb k k' then Some v else lookup k d'
  end.

(* d[k] = v : replaces the value in place when the key exists, appends otherwise *)
Fixpoint dict_set {V} (k : string) (v : V) (d : list (string * V)) : list (string * V) :=
  match d with
  | [] => [(k, v)]
  | (k', v') :: d' => if String.eqb k k' then (k', v) :: d' else (k', v') :: dict_set k v d'
  end.

(* {job["port"]: job["match"] for job in deployments["job"]} *)
Definition dict_of {V} (l : list (string * V)) : list (string * V) :=
  fold_left (fun d kv => dict_set (fst kv) (snd kv) d) l [].

(* MatchingBindingFilter.__init__ *)
Definition mk_rule (c : rulecfg) : rule :=
  {| r_dep := c_dep c; r_srv := c_srv c; r_preds := dict_of (c_job c) |}.

(* ---- MatchingRule.eval ---- *)
(* for input_name, match in self.predicates.items(): missing -> ValueError; file/list/object ->
   WorkflowDefinitionException; match != str(value) -> return False *)
Fixpoint eval_preds (job : job_inputs) (ps : list (string * string)) : res bool :=
  match ps with
  | [] => Ok true
  | (p, m) :: ps' =>
      match lookup p job with
      | None => Err EMissingInput
      | Some (KPlain, v) => if String.eqb m v then eval_preds job ps' else Ok false
      | Some (_, _) => Err EUnsupported
      end
  end.

Definition srv_eqb (a b : option string) : bool := opt_eqb String.eqb a b.

Definition rule_eval (r : rule) (job : job_inputs) (t : target) : res bool :=
  if negb (String.eqb (t_dep t) (r_dep r)) then Ok false
  else match r_srv r with
       | Some s => if negb (srv_eqb (Some s) (t_srv t)) then Ok false else eval_preds job (r_preds r)
       | None => eval_preds job (r_preds r)
       end.

(* any(rule.eval(...) for rule in self.matching_rules): in order, stops at the first True, an
   exception raised by an earlier rule propagates *)
Fixpoint any_rule (rules : list rule) (job : job_inputs) (t : target) : res bool :=
  match rules with
  | [] => Ok false
  | r :: rs =>
      match rule_eval r job t with
      | Err e => Err e
      | Ok true => Ok true
      | Ok false => any_rule rs job t
      end
  end.

(* the loop over targets: the first target (in the order received) whose evaluation raises decides *)
Fixpoint collect (rules : list rule) (job : job_inputs) (ts : list target) : res (list target) :=
  match ts with
  | [] => Ok []
  | t :: ts' =>
      match any_rule rules job t with
      | Err e => Err e
      | Ok b =>
          match collect rules job ts' with
          | Err e => Err e
          | Ok l => Ok (if b then t :: l else l)
          end
      end
  end.

(* MatchingBindingFilter.get_targets, repaired code: filtered_targets is a list *)
Definition get_targets (rules : list rule) (job : job_inputs) (ts : list target) : res (list target) :=
  match collect rules job ts with
  | Err e => Err e
  | Ok [] => Err ENoTargets
  | Ok l => Ok l
  end.

(* the code before the fix: filtered_targets = set(); ...; return list(filtered_targets) *)
Definition get_targets_set (order : list target -> list target)
           (rules : list rule) (job : job_inputs) (ts : list target) : res (list target) :=
  match collect rules job ts with
  | Err e => Err e
  | Ok [] => Err ENoTargets
  | Ok l => Ok (order l)
  end.

(* DefaultScheduler.schedule: for f in filters: targets = await f.get_targets(job, targets) *)
Fixpoint chain (fs : list (list rule)) (job : job_inputs) (ts : list target) : res (list target) :=
  match fs with
  | [] => Ok ts
  | f :: fs' =>
      match get_targets f job ts with
      | Err e => Err e
      | Ok l => chain fs' job l
      end
  end.

(* ---- the scheduler's attempt loop ----
   schedule() creates one task per surviving target, in list order.  Every task takes the scheduler's
   condition lock (FIFO), and under it: returns if the job is already scheduled; allocates on its
   target if the target can host the job now; otherwise waits on the condition, which queues it behind
   the tasks that waited before it.  notify_all() wakes the waiters in that same order.  One [pass] =
   the initial run of the tasks, or the re-evaluation after one notify_all; [host] says which targets
   have enough valid locations during that pass. *)
Record sstate := { waiting : list target; scheduled : option target }.

Definition task_step (host : target -> bool) (st : sstate) (t : target) : sstate :=
  match scheduled st with
  | Some _ => st                                           (* job_context.scheduled: return *)
  | None => if host t then {| waiting := waiting st; scheduled := Some t |}
            else {| waiting := waiting st ++ [t]; scheduled := None |}
  end.

Definition pass (host : target -> bool) (st : sstate) : sstate :=
  fold_left (task_step host) (waiting st) {| waiting := []; scheduled := scheduled st |}.

(* the allocation seen after each pass *)
Fixpoint run_trace (hosts : list (target -> bool)) (st : sstate) : list (option target) :=
  match hosts with
  | [] => []
  | h :: hs => let st' := pass h st in scheduled st' :: run_trace hs st'
  end.

Definition run (hosts : list (target -> bool)) (ts : list target) : sstate :=
  fold_left (fun st h => pass h st) hosts {| waiting := ts; scheduled := None |}.

(* schedule(): filters, then the attempt loop *)
Definition schedule (fs : list (list rule)) (job : job_inputs) (ts : list target)
           (hosts : list (target -> bool)) : res (list (option target)) :=
  match chain fs job ts with
  | Err e => Err e
  | Ok l => Ok (run_trace hosts {| waiting := l; scheduled := None |})
  end.

(* ---- the property's own words, independent of evaluation order and exceptions ---- *)
(* "some rule for that deployment and service has all port predicates equal to the job's input values" *)
Definition pred_holds (job : job_inputs) (pm : string * string) : bool :=
  match lookup (fst pm) job with
  | Some (KPlain, v) => String.eqb (snd pm) v
  | _ => false
  end.
Definition rule_matches (job : job_inputs) (t : target) (r : rule) : bool :=
  String.eqb (t_dep t) (r_dep r)
  && match r_srv r with Some s => srv_eqb (Some s) (t_srv t) | None => true end
  && forallb (pred_holds job) (r_preds r).
Definition keeps (rules : list rule) (job : job_inputs) (t : target) : bool :=
  existsb (rule_matches job t) rules.

(* every predicate of every rule names an existing, plain (non file/list/object) job input *)
Definition pred_wf (job : job_inputs) (pm : string * string) : bool :=
  match lookup (fst pm) job with Some (KPlain, _) => true | _ => false end.
Definition rules_wf (rules : list rule) (job : job_inputs) : bool :=
  forallb (fun r => forallb (pred_wf job) (r_preds r)) rules.

(* ---- a filter OBJECT evaluated on a sequence of jobs ----
   What a MatchingBindingFilter instance holds between calls: its rules and _evaluated_steps (the step
   names for which the two "typo" warnings were already logged).  get_targets never assigns
   self.matching_rules; it adds the job's step name to _evaluated_steps, which only gates logging. *)
Record fstate := { f_rules : list rule; f_seen : list string }.

Definition filter_call (st : fstate) (step : string) (job : job_inputs) (ts : list target)
  : fstate * res (list target) :=
  ({| f_rules := f_rules st;
      f_seen := if existsb (String.eqb step) (f_seen st) then f_seen st else step :: f_seen st |},
   get_targets (f_rules st) job ts).

(* schedule(): for f in filters: targets = await f.get_targets(job, targets) — on the cached objects;
   a filter that raises ends the call, the later filter objects are not touched *)
Fixpoint chain_call (sts : list fstate) (step : string) (job : job_inputs) (ts : list target)
  : list fstate * res (list target) :=
  match sts with
  | [] => ([], Ok ts)
  | st :: sts' =>
      let (st', r) := filter_call st step job ts in
      match r with
      | Err e => (st' :: sts', Err e)
      | Ok l => let (sts'', r') := chain_call sts' step job l in (st' :: sts'', r')
      end
  end.

(* one call = (step name of the job, its inputs, the targets of its binding) *)
Record call := { c_step : string; c_inputs : job_inputs; c_ts : list target }.

Fixpoint run_calls (sts : list fstate) (cs : list call) : list (res (list target)) :=
  match cs with
  | [] => []
  | c :: cs' => let (sts', r) := chain_call sts (c_step c) (c_inputs c) (c_ts c) in r :: run_calls sts' cs'
  end.
