(* Tags/Model.v — model of the tag helpers of streamflow/core/utils.py and workflow/step.py.
   ANCHORS: streamflow.core.utils.compare_tags, streamflow.core.utils.get_tag,
            streamflow.core.utils.get_job_step_name, streamflow.core.utils.get_job_tag,
            streamflow.workflow.step._is_parent_tag
   Two layers: the list level ([tag = list N]), on which the order theorems are stated, and the
   string level, which mirrors the Python text line by line and is what the correspondence runs. *)
From Coq Require Import List Ascii Bool NArith ZArith Lia.
From SF Require Import Base.Str Base.Dec.
Import ListNotations.
Local Open Scope string_scope. Local Open Scope list_scope.

Definition tag := list N.

Definition render (t : tag) : string := join "." (map dec t).

(* ---- list level ---- *)
Fixpoint cmp_comps (a b : list N) : Z :=
  match a, b with
  | x :: a', y :: b' =>
      let d := (Z.of_N x - Z.of_N y)%Z in
      if (d =? 0)%Z then cmp_comps a' b' else d
  | _, _ => 0%Z
  end.

Definition compare_tags (a b : tag) : Z :=
  let d := (Z.of_nat (List.length a) - Z.of_nat (List.length b))%Z in
  if (d =? 0)%Z then cmp_comps a b else d.

(* ---- string level: def compare_tags(tag1, tag2) ---- *)
(* zip(list1, list2, strict=True) after the length test; int() is applied lazily, pair by pair *)
Fixpoint cmp_strs (a b : list string) : option Z :=
  match a, b with
  | x :: a', y :: b' =>
      match undec x, undec y with
      | Some nx, Some ny =>
          let d := (Z.of_N nx - Z.of_N ny)%Z in
          if (d =? 0)%Z then cmp_strs a' b' else Some d
      | _, _ => None                                  (* ValueError from int() *)
      end
  | _, _ => Some 0%Z
  end.

Definition compare_tags_s (t1 t2 : string) : option Z :=
  let l1 := split_on "." t1 in
  let l2 := split_on "." t2 in
  let d := (Z.of_nat (List.length l1) - Z.of_nat (List.length l2))%Z in
  if (d =? 0)%Z then cmp_strs l1 l2 else Some d.

(* ---- def get_tag(tokens): output_tag = "0"; for tag in ...: if len(tag) > len(output_tag) ---- *)
Definition get_tag_s (ts : list string) : string :=
  fold_left (fun out t => if Nat.ltb (String.length out) (String.length t) then t else out) ts "0".

(* ---- def _is_parent_tag(tag, parent): split both; len(parent) <= len(tag) and prefix equal ---- *)
Fixpoint list_prefixb (p l : list string) : bool :=
  match p, l with
  | [], _ => true
  | x :: p', y :: l' => String.eqb x y && list_prefixb p' l'
  | _ :: _, [] => false
  end.
Definition is_parent_tag_s (t parent : string) : bool :=
  list_prefixb (split_on "." parent) (split_on "." t).

(* ---- PurePosixPath fragment used by get_job_step_name / get_job_tag ---- *)
Definition pp_root (s : string) : string :=
  match s with
  | String "/" (String "/" (String "/" _)) => "/"
  | String "/" (String "/" _) => "//"
  | String "/" _ => "/"
  | _ => ""
  end.

Definition pp_parts (s : string) : list string :=
  filter (fun p => negb (String.eqb p "") && negb (String.eqb p ".")) (split_on "/" s).

(* PurePosixPath(s).name *)
Definition pp_name (s : string) : string := last (pp_parts s) "".

(* PurePosixPath(s).parent.as_posix() *)
Definition pp_parent (s : string) : string :=
  let r := pp_root s in
  match pp_parts s with
  | [] => if String.eqb r "" then "." else r
  | ps => let ps' := removelast ps in
          if String.eqb r "" && (match ps' with [] => true | _ => false end) then "."
          else String.append r (join "/" ps')
  end.

Definition job_step_name (s : string) : string := pp_parent s.
Definition job_tag (s : string) : string := pp_name s.

(* posixpath.join(a, b) for two components *)
Fixpoint ends_with_slash (s : string) : bool :=
  match s with
  | EmptyString => false
  | String a EmptyString => Ascii.eqb a "/"
  | String _ s' => ends_with_slash s'
  end.
Definition posix_join (a b : string) : string :=
  match b with
  | String "/" _ => b
  | _ => if String.eqb a "" || ends_with_slash a then String.append a b
         else String.append a (String "/" b)
  end.
