(* Tags/Proofs.v — lemmas about Tags/Model.v. *)
From Coq Require Import List Ascii Bool NArith ZArith Lia Arith.
From SF Require Import Base.Str Base.Dec Tags.Model.
Import ListNotations.
Local Open Scope string_scope. Local Open Scope list_scope.

(* ------------------------------------------------------------------ *)
(* compare_tags on lists                                               *)

Lemma cmp_comps_refl a : cmp_comps a a = 0%Z.
Proof. induction a as [|x a IH]; simpl; [reflexivity|]. rewrite Z.sub_diag. simpl. exact IH. Qed.

Lemma compare_refl a : compare_tags a a = 0%Z.
Proof. unfold compare_tags. rewrite Z.sub_diag. simpl. apply cmp_comps_refl. Qed.

Lemma cmp_comps_antisym a : forall b, cmp_comps b a = (- cmp_comps a b)%Z.
Proof.
  induction a as [|x a IH]; intros [|y b]; simpl; try reflexivity.
  destruct (Z.eqb_spec (Z.of_N x - Z.of_N y) 0) as [E|E];
  destruct (Z.eqb_spec (Z.of_N y - Z.of_N x) 0) as [E'|E']; try lia.
  apply IH.
Qed.

Lemma compare_antisym a b : compare_tags b a = (- compare_tags a b)%Z.
Proof.
  unfold compare_tags.
  destruct (Z.eqb_spec (Z.of_nat (length a) - Z.of_nat (length b)) 0) as [E|E];
  destruct (Z.eqb_spec (Z.of_nat (length b) - Z.of_nat (length a)) 0) as [E'|E']; try lia.
  apply cmp_comps_antisym.
Qed.

Lemma cmp_comps_eq a : forall b, length a = length b -> cmp_comps a b = 0%Z -> a = b.
Proof.
  induction a as [|x a IH]; intros [|y b] Hl H; simpl in *; try congruence; try lia.
  destruct (Z.eqb_spec (Z.of_N x - Z.of_N y) 0) as [E|E]; [|lia].
  f_equal; [lia|]. apply IH; [lia|exact H].
Qed.

Lemma compare_eq a b : compare_tags a b = 0%Z -> a = b.
Proof.
  unfold compare_tags.
  destruct (Z.eqb_spec (Z.of_nat (length a) - Z.of_nat (length b)) 0) as [E|E]; [|lia].
  apply cmp_comps_eq. lia.
Qed.

(* strict lexicographic order on component lists *)
Inductive lex_lt : list N -> list N -> Prop :=
| lex_here x y a b : (x < y)%N -> lex_lt (x :: a) (y :: b)
| lex_next x a b : lex_lt a b -> lex_lt (x :: a) (x :: b).

Lemma cmp_comps_lt a : forall b, length a = length b -> ((cmp_comps a b < 0)%Z <-> lex_lt a b).
Proof.
  induction a as [|x a IH]; intros [|y b] Hl; simpl in *; try lia.
  - split; [lia|]. intros H; inversion H.
  - destruct (Z.eqb_spec (Z.of_N x - Z.of_N y) 0) as [E|E].
    + assert (x = y) by lia. subst y. rewrite IH by lia.
      split; [intros H; apply lex_next; exact H|].
      intros H; inversion H; subst; [lia|assumption].
    + split.
      * intros H. apply lex_here. lia.
      * intros H; inversion H; subst; lia.
Qed.

Lemma compare_depth_first a b : length a < length b -> (compare_tags a b < 0)%Z.
Proof.
  intros H. unfold compare_tags.
  destruct (Z.eqb_spec (Z.of_nat (length a) - Z.of_nat (length b)) 0); lia.
Qed.

Lemma compare_same_depth a b :
  length a = length b -> ((compare_tags a b < 0)%Z <-> lex_lt a b).
Proof.
  intros H. unfold compare_tags.
  destruct (Z.eqb_spec (Z.of_nat (length a) - Z.of_nat (length b)) 0); [|lia].
  apply cmp_comps_lt. exact H.
Qed.

Lemma cmp_comps_trans a : forall b c,
  length a = length b -> length b = length c ->
  (cmp_comps a b <= 0)%Z -> (cmp_comps b c <= 0)%Z ->
  (cmp_comps a c <= 0)%Z /\ ((cmp_comps a b < 0)%Z \/ (cmp_comps b c < 0)%Z -> (cmp_comps a c < 0)%Z).
Proof.
  induction a as [|x a IH]; intros [|y b] [|z c] H1 H2 Hab Hbc; simpl in *; try lia.
  destruct (Z.eqb_spec (Z.of_N x - Z.of_N y) 0) as [E1|E1];
  destruct (Z.eqb_spec (Z.of_N y - Z.of_N z) 0) as [E2|E2];
  destruct (Z.eqb_spec (Z.of_N x - Z.of_N z) 0) as [E3|E3]; try lia.
  apply IH; lia.
Qed.

Lemma compare_trans a b c :
  (compare_tags a b <= 0)%Z -> (compare_tags b c <= 0)%Z ->
  (compare_tags a c <= 0)%Z /\
  ((compare_tags a b < 0)%Z \/ (compare_tags b c < 0)%Z -> (compare_tags a c < 0)%Z).
Proof.
  unfold compare_tags.
  destruct (Z.eqb_spec (Z.of_nat (length a) - Z.of_nat (length b)) 0) as [E1|E1];
  destruct (Z.eqb_spec (Z.of_nat (length b) - Z.of_nat (length c)) 0) as [E2|E2];
  destruct (Z.eqb_spec (Z.of_nat (length a) - Z.of_nat (length c)) 0) as [E3|E3]; try lia.
  intros. apply cmp_comps_trans with (b := b); lia.
Qed.

(* ------------------------------------------------------------------ *)
(* string level = list level on rendered tags                          *)

Lemma split_render t : t <> [] -> split_on "." (render t) = map dec t.
Proof.
  intros H. unfold render. apply (split_join "."%char).
  - destruct t; [congruence|discriminate].
  - clear H. induction t as [|x t IH]; simpl; [reflexivity|].
    rewrite dec_no_dot. simpl. exact IH.
Qed.

Lemma cmp_strs_dec a : forall b, cmp_strs (map dec a) (map dec b) = Some (cmp_comps a b).
Proof.
  induction a as [|x a IH]; intros [|y b]; simpl; try reflexivity.
  rewrite !undec_dec.
  destruct (Z.eqb_spec (Z.of_N x - Z.of_N y) 0); [apply IH|reflexivity].
Qed.

Lemma compare_tags_s_render a b :
  a <> [] -> b <> [] -> compare_tags_s (render a) (render b) = Some (compare_tags a b).
Proof.
  intros Ha Hb. unfold compare_tags_s, compare_tags.
  rewrite (split_render a Ha), (split_render b Hb), !map_length.
  destruct (Z.eqb_spec (Z.of_nat (length a) - Z.of_nat (length b)) 0); [|reflexivity].
  apply cmp_strs_dec.
Qed.

(* ------------------------------------------------------------------ *)
(* get_tag on prefix chains                                            *)

Definition is_prefix (p d : tag) : Prop := exists r, d = p ++ r.

Lemma render_snoc t x : t <> [] -> render (t ++ [x]) = String.append (render t) (String.append "." (dec x)).
Proof.
  intros H. unfold render. rewrite map_app. simpl map.
  apply join_snoc. destruct t; [congruence|discriminate].
Qed.

Lemma render_length_app p r :
  p <> [] -> r <> [] -> String.length (render p) < String.length (render (p ++ r)).
Proof.
  intros Hp. revert p Hp. induction r as [|x r IH]; intros p Hp Hr; [congruence|].
  replace (p ++ x :: r) with ((p ++ [x]) ++ r) by (rewrite <- app_assoc; reflexivity).
  assert (L1 : String.length (render p) < String.length (render (p ++ [x]))).
  { rewrite render_snoc by exact Hp. rewrite !length_append. simpl. lia. }
  destruct r as [|y r].
  - rewrite app_nil_r. exact L1.
  - eapply Nat.lt_trans; [exact L1|]. apply IH; [|discriminate].
    destruct p; discriminate.
Qed.

Lemma get_tag_fold_inv (d : tag) (ts : list tag) (o : tag) :
  o <> [] -> is_prefix o d ->
  (forall t, In t ts -> t <> [] /\ is_prefix t d) ->
  exists o', o' <> [] /\ is_prefix o' d /\
    fold_left (fun out t => if Nat.ltb (String.length out) (String.length t) then t else out)
              (map render ts) (render o) = render o' /\
    String.length (render o) <= String.length (render o') /\
    (forall t, In t ts -> String.length (render t) <= String.length (render o')).
Proof.
  revert o. induction ts as [|t ts IH]; intros o Ho Hpo Hall; simpl.
  - exists o. repeat split; auto. intros t [].
  - destruct (Hall t (or_introl eq_refl)) as [Ht Hpt].
    assert (Hall' : forall t', In t' ts -> t' <> [] /\ is_prefix t' d)
      by (intros t' Hin; apply Hall; right; exact Hin).
    destruct (Nat.ltb_spec (String.length (render o)) (String.length (render t))) as [L|L].
    + destruct (IH t Ht Hpt Hall') as (o' & Ho' & Hpo' & Hf & Hl & Hmax).
      exists o'. repeat split; auto; [lia|].
      intros t' [<-|Hin]; [exact Hl|apply Hmax; exact Hin].
    + destruct (IH o Ho Hpo Hall') as (o' & Ho' & Hpo' & Hf & Hl & Hmax).
      exists o'. repeat split; auto.
      intros t' [<-|Hin]; [lia|apply Hmax; exact Hin].
Qed.

Lemma get_tag_chain (d : tag) (ts : list tag) :
  is_prefix [0%N] d -> In d ts ->
  (forall t, In t ts -> t <> [] /\ is_prefix t d) ->
  get_tag_s (map render ts) = render d.
Proof.
  intros Hroot Hin Hall. unfold get_tag_s.
  change "0" with (render [0%N]).
  destruct (get_tag_fold_inv d ts [0%N] ltac:(discriminate) Hroot Hall)
    as (o' & Ho' & [r Hr] & Hf & _ & Hmax).
  rewrite Hf. f_equal.
  destruct r as [|x r]; [rewrite app_nil_r in Hr; congruence|].
  exfalso. pose proof (Hmax d Hin) as L.
  pose proof (render_length_app o' (x :: r) Ho' ltac:(discriminate)) as L'.
  rewrite <- Hr in L'. lia.
Qed.

(* ------------------------------------------------------------------ *)
(* job names                                                           *)

Definition good_comp (c : string) : Prop :=
  c <> "" /\ c <> "." /\ has_char "/"%char c = false.

Lemma ends_with_slash_noslash s : has_char "/"%char s = false -> ends_with_slash s = false.
Proof.
  induction s as [|a s IH]; simpl; intros H; [reflexivity|].
  apply orb_false_iff in H. destruct H as [Ha Hs].
  destruct s; [exact Ha|apply IH; exact Hs].
Qed.

Lemma ends_with_slash_append a b : b <> "" -> ends_with_slash (String.append a b) = ends_with_slash b.
Proof.
  intros Hb. induction a as [|x a IH]; simpl; [reflexivity|].
  destruct (String.append a b) eqn:E; [|exact IH].
  destruct a; simpl in E; [congruence|discriminate].
Qed.

Lemma ends_with_slash_cons a s : s <> "" -> ends_with_slash (String a s) = ends_with_slash s.
Proof. destruct s; [congruence|reflexivity]. Qed.

Lemma join_nonempty sep x l : x <> "" -> join sep (x :: l) <> "".
Proof.
  intros Hx. destruct l; simpl; [exact Hx|].
  destruct x; [congruence|discriminate].
Qed.

Lemma ends_with_slash_join l :
  l <> [] -> (forall c, In c l -> good_comp c) -> ends_with_slash (join "/" l) = false.
Proof.
  induction l as [|x l IH]; intros Hne Hall; [congruence|].
  destruct l as [|y l].
  - simpl. apply ends_with_slash_noslash. apply (Hall x). left; reflexivity.
  - change (join "/" (x :: y :: l)) with (String.append x (String.append "/" (join "/" (y :: l)))).
    rewrite ends_with_slash_append by discriminate.
    simpl String.append.
    assert (Hy : join "/" (y :: l) <> "").
    { apply join_nonempty. apply (Hall y). right; left; reflexivity. }
    rewrite ends_with_slash_cons by exact Hy.
    apply IH; [discriminate|]. intros c Hc. apply Hall. right; exact Hc.
Qed.

Definition abs_path (comps : list string) : string := String "/" (join "/" comps).

Lemma posix_join_abs comps t :
  (forall c, In c comps -> good_comp c) -> good_comp t ->
  posix_join (abs_path comps) t = abs_path (comps ++ [t]).
Proof.
  intros Hall (Ht1 & Ht2 & Ht3). unfold posix_join.
  assert (Hb : match t with String "/" _ => False | _ => True end).
  { destruct t as [|a t]; [exact I|]. simpl in Ht3. apply orb_false_iff in Ht3.
    destruct Ht3 as [Ha _]. destruct (Ascii.eqb_spec a "/"); [discriminate|].
    destruct a as [[|] [|] [|] [|] [|] [|] [|] [|]]; try exact I. congruence. }
  assert (Hgoal : (if String.eqb (abs_path comps) "" || ends_with_slash (abs_path comps)
            then String.append (abs_path comps) t
            else String.append (abs_path comps) (String "/" t)) = abs_path (comps ++ [t])).
  { destruct comps as [|c comps].
    - simpl. reflexivity.
    - assert (E : ends_with_slash (abs_path (c :: comps)) = false).
      { unfold abs_path.
        assert (Hj : join "/" (c :: comps) <> "").
        { apply join_nonempty. apply (Hall c). left; reflexivity. }
        rewrite ends_with_slash_cons by exact Hj.
        apply ends_with_slash_join; [discriminate|exact Hall]. }
      rewrite E. simpl orb. unfold abs_path. simpl String.append. f_equal.
      rewrite join_snoc by discriminate. reflexivity. }
  destruct t as [|a t]; [exact Hgoal|].
  destruct a as [[|] [|] [|] [|] [|] [|] [|] [|]]; try exact Hgoal. contradiction.
Qed.

Lemma good_filter l :
  (forall c, In c l -> good_comp c) ->
  filter (fun p => negb (String.eqb p "") && negb (String.eqb p ".")) l = l.
Proof.
  induction l as [|x l IH]; intros Hall; simpl; [reflexivity|].
  destruct (Hall x (or_introl eq_refl)) as (H1 & H2 & _).
  destruct (String.eqb_spec x ""); [congruence|].
  destruct (String.eqb_spec x "."); [congruence|]. simpl.
  f_equal. apply IH. intros c Hc. apply Hall. right; exact Hc.
Qed.

Lemma good_noslash l :
  (forall c, In c l -> good_comp c) -> forallb (fun x => negb (has_char "/"%char x)) l = true.
Proof.
  induction l as [|x l IH]; intros Hall; simpl; [reflexivity|].
  destruct (Hall x (or_introl eq_refl)) as (_ & _ & H3). rewrite H3. simpl.
  apply IH. intros c Hc. apply Hall. right; exact Hc.
Qed.

Lemma pp_parts_abs l :
  l <> [] -> (forall c, In c l -> good_comp c) -> pp_parts (abs_path l) = l.
Proof.
  intros Hne Hall. unfold pp_parts, abs_path.
  change (String "/" (join "/" l)) with (String.append "" (String "/" (join "/" l))).
  rewrite split_on_app_nochar by reflexivity.
  rewrite (split_join "/"%char) by (auto using good_noslash).
  simpl. apply good_filter. exact Hall.
Qed.

Lemma pp_root_abs l :
  l <> [] -> (forall c, In c l -> good_comp c) -> pp_root (abs_path l) = "/".
Proof.
  intros Hne Hall. destruct l as [|c l]; [congruence|].
  destruct (Hall c (or_introl eq_refl)) as (H1 & _ & H3).
  unfold abs_path.
  assert (exists a r, join "/" (c :: l) = String a r /\ a <> "/"%char) as (a & r & E & Ha).
  { destruct c as [|a c]; [congruence|]. simpl in H3. apply orb_false_iff in H3.
    destruct H3 as [Ha _]. exists a.
    destruct l; simpl; eexists; (split; [reflexivity|]);
      intros ->; discriminate. }
  rewrite E. unfold pp_root.
  destruct a as [[|] [|] [|] [|] [|] [|] [|] [|]]; try reflexivity. congruence.
Qed.

Lemma job_name_split comps t :
  (forall c, In c comps -> good_comp c) -> good_comp t ->
  job_step_name (posix_join (abs_path comps) t) = abs_path comps /\
  job_tag (posix_join (abs_path comps) t) = t.
Proof.
  intros Hall Ht. rewrite posix_join_abs by assumption.
  assert (Hall' : forall c, In c (comps ++ [t]) -> good_comp c).
  { intros c Hc. apply in_app_or in Hc. destruct Hc as [Hc|[<-|[]]]; auto. }
  assert (Hne : comps ++ [t] <> []) by (destruct comps; discriminate).
  unfold job_step_name, job_tag, pp_parent, pp_name.
  rewrite pp_parts_abs by assumption. rewrite pp_root_abs by assumption.
  split.
  - destruct (comps ++ [t]) eqn:E; [congruence|]. rewrite <- E.
    rewrite removelast_last. simpl. reflexivity.
  - apply last_last.
Qed.

(* a rendered non-empty tag is a good path component *)
Lemma render_good t : t <> [] -> good_comp (render t).
Proof.
  intros H. destruct t as [|x t]; [congruence|].
  assert (Hs : has_char "/"%char (render (x :: t)) = false).
  { clear H. revert x. induction t as [|y t IH]; intros x.
    - unfold render; simpl. apply dec_no_slash.
    - change (render (x :: y :: t)) with (String.append (dec x) (String.append "." (render (y :: t)))).
      rewrite !has_char_append, dec_no_slash, IH. reflexivity. }
  assert (Hd : exists a r, render (x :: t) = String a r /\ is_digit a = true).
  { pose proof (dec_nonempty x) as Hx. pose proof (dec_digits x) as Hdx.
    destruct (dec x) as [|a r] eqn:E; [congruence|].
    simpl in Hdx. apply andb_true_iff in Hdx. destruct Hdx as [Ha _].
    destruct t as [|y t].
    - exists a, r. unfold render; simpl. rewrite E. auto.
    - exists a. eexists.
      change (render (x :: y :: t)) with (String.append (dec x) (String.append "." (render (y :: t)))).
      rewrite E. simpl. auto. }
  destruct Hd as (a & r & E & Ha).
  repeat split; [rewrite E; discriminate| |exact Hs].
  rewrite E. intros H'. injection H' as -> _. discriminate Ha.
Qed.
