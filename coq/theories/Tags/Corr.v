(* Tags/Corr.v — correspondence cases for Tags/Model.v (used by the C33 check). *)
From Coq Require Import List Bool NArith ZArith.
From SF Require Import Base.Str Base.Dec Base.Corr Tags.Model.
Import ListNotations.

Inductive ccase :=
| CCompare (a b : string) (r : option Z)           (* compare_tags(a,b) = r, None = ValueError *)
| CGetTag (ts : list string) (r : string)
| CIsParent (t p : string) (r : bool)
| CJob (a b name step tag : string).   (* name = posixpath.join(a,b); get_job_step_name / get_job_tag of it *)

Definition check_case (c : ccase) : bool :=
  match c with
  | CCompare a b r => opt_eqb Z.eqb (compare_tags_s a b) r
  | CGetTag ts r => String.eqb (get_tag_s ts) r
  | CIsParent t p r => Bool.eqb (is_parent_tag_s t p) r
  | CJob a b n s t =>
      String.eqb (posix_join a b) n && String.eqb (job_step_name n) s && String.eqb (job_tag n) t
  end.
