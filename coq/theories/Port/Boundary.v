(* Port/Boundary.v — the history of an InterWorkflowPort and of its boundary targets as ONE formula of the
   operation history: a queue-free, removal-free specification in which a rule remembers its boundary tags and
   the tags it has been shown, and fires on a token iff the tag multiset is covered (C03_boundary). *)
From Coq Require Import List Bool NArith Arith Lia.
From SF Require Import Base.Str Port.Model Port.Proofs.
Import ListNotations.
Local Open Scope string_scope. Local Open Scope list_scope.

Record srule := mksr { sprop : bool; sterm : bool; stgt : nat; sT : list string; sseen : list string }.

(* the boundary tag set is complete: every boundary tag has been seen at least as often as it is required *)
Definition covered (T seen : list string) : bool :=
  forallb (fun g => Nat.leb (count_occ string_dec T g) (count_occ string_dec seen g)) T.
Definition show (g : string) (r : srule) : srule := mksr (sprop r) (sterm r) (stgt r) (sT r) (sseen r ++ [g]).
(* what a complete rule does with the token it has just been shown *)
Definition sact (r : srule) (t : tok) : list prim :=
  (if sprop r then [PPut (stgt r) t] else []) ++ (if sterm r then [PPut (stgt r) (Term RECOVERED)] else []).
Definition sfire (t : tok) (r : srule) : list prim := if covered (sT r) (sseen r) then sact r t else [].
Definition sself_hit (rs : list srule) : bool :=
  existsb (fun r => covered (sT r) (sseen r) && Nat.eqb (stgt r) 0) rs.

Fixpoint sreplay (r : srule) (toks : list tok) : srule * list prim :=
  match toks with
  | [] => (r, [])
  | t :: rest => let r' := show (tag_of t) r in let '(r2, l) := sreplay r' rest in (r2, sfire t r' ++ l)
  end.

(* specification state: the rules and the history of the port itself *)
Record sstate := mkss { srules : list srule; hist0 : list tok }.
Definition sexpand (ss : sstate) (o : op) : list prim * list srule :=
  match o with
  | Put 0 t =>
      if is_term t then ([PPut 0 t], srules ss)
      else let rs' := map (show (tag_of t)) (srules ss) in
           (flat_map (sfire t) rs' ++ (if sself_hit rs' then [] else [PPut 0 t]), rs')
  | Put k t => ([PPut k t], srules ss)
  | Get k c => ([PGet k c], srules ss)
  | AddInter tgt tags pr te =>
      let '(r', l) := sreplay (mksr pr te tgt tags []) (filter (fun t => negb (is_term t)) (hist0 ss)) in
      (l, srules ss ++ [r'])
  end.
Definition sstep (ss : sstate) (o : op) : sstate * list prim :=
  let '(l, rs) := sexpand ss o in (mkss rs (hist0 ss ++ pputs 0 l), l).
(* everything the operations put on the ports of the system *)
Fixpoint strace (ss : sstate) (ops : list op) : list prim :=
  match ops with
  | [] => []
  | o :: r => let '(ss', l) := sstep ss o in l ++ strace ss' r
  end.
Definition sinit : sstate := mkss [] [].

(* ---------- the implementation's rule is the specification's rule with the seen tags removed ---------- *)
Definition impl_of (r : srule) : rule := mkrule (sprop r) (sterm r) (stgt r) (remaining (sT r) (sseen r)).

Lemma covered_spec T seen :
  covered T seen = true <-> forall g, count_occ string_dec T g <= count_occ string_dec seen g.
Proof.
  unfold covered. rewrite forallb_forall. split.
  - intros H g. destruct (in_dec string_dec g T) as [i|ni].
    + apply Nat.leb_le. now apply H.
    + rewrite (proj1 (count_occ_not_In string_dec T g) ni). lia.
  - intros H g _. apply Nat.leb_le. apply H.
Qed.

Lemma sat_cov r : is_satisfied (impl_of r) = covered (sT r) (sseen r).
Proof.
  pose proof (remaining_nil_iff (sT r) (sseen r)) as R. pose proof (covered_spec (sT r) (sseen r)) as C.
  unfold is_satisfied, impl_of. simpl. destruct (remaining (sT r) (sseen r)) eqn:E; destruct (covered (sT r) (sseen r)); auto.
  - exfalso. assert (false = true) by (apply C, R; reflexivity). discriminate.
  - exfalso. assert (s :: l = []) by (apply R, C; reflexivity). discriminate.
Qed.

Lemma impl_show g r : remove_tag g (impl_of r) = impl_of (show g r).
Proof. unfold remove_tag, impl_of, show, remaining. simpl. now rewrite fold_left_app. Qed.

Lemma fire_eq t r : fire_prims t (impl_of r) = sfire t r.
Proof. unfold fire_prims, sfire. rewrite sat_cov. reflexivity. Qed.

Lemma self_hit_eq rs : self_hit (map impl_of rs) = sself_hit rs.
Proof.
  unfold self_hit, sself_hit. induction rs as [|r rs IH]; simpl; auto. now rewrite sat_cov, IH.
Qed.

Lemma replay_eq : forall toks r,
  replay_prims (impl_of r) toks = let '(r2, l) := sreplay r toks in (impl_of r2, l).
Proof.
  induction toks as [|t rest IH]; intros r; simpl; auto.
  rewrite impl_show, IH, fire_eq. destruct (sreplay (show (tag_of t) r) rest). reflexivity.
Qed.

Lemma map_show g rs : map (remove_tag g) (map impl_of rs) = map impl_of (map (show g) rs).
Proof. induction rs as [|r rs IH]; simpl; auto. now rewrite impl_show, IH. Qed.
Lemma flat_fire t rs : flat_map (fire_prims t) (map impl_of rs) = flat_map (sfire t) rs.
Proof. induction rs as [|r rs IH]; simpl; auto. now rewrite fire_eq, IH. Qed.

Lemma expand_eq s ss o :
  kind s = KInter -> rules s = map impl_of (srules ss) -> self_tl (ports s) = hist0 ss ->
  expand s o = let '(l, rs) := sexpand ss o in (l, map impl_of rs).
Proof.
  intros K R H. destruct o as [k t|k c|tgt tags pr te]; simpl.
  - destruct k as [|k]; simpl; [|now rewrite R]. rewrite K. destruct (is_term t); [now rewrite R|].
    rewrite R, map_show, self_hit_eq, flat_fire. reflexivity.
  - now rewrite R.
  - rewrite K, H. change (mkrule pr te tgt tags) with (impl_of (mksr pr te tgt tags [])).
    rewrite replay_eq. destruct (sreplay _ _) as [r2 l]. rewrite R, map_app. reflexivity.
Qed.

(* ---------- the history of port 0 grows by the puts made on it ---------- *)
Lemma pstep_tl0 ps x ps' e :
  pstep ps x = (ps', e) -> ps <> [] -> self_tl ps' = self_tl ps ++ pputs 0 [x] /\ ps' <> [].
Proof.
  intros H Hne. destruct ps as [|p0 rest]; [congruence|]. destruct x as [k t|k c]; simpl in H.
  - unfold sput in H. destruct (nth_error (p0 :: rest) k) as [p|] eqn:En.
    + destruct (put_p k t p) as [p' e'] eqn:Ep. inversion H; subst; clear H.
      destruct k as [|k]; simpl in *.
      * inversion En; subst. unfold put_p in Ep. destruct (qs_put 0 t (qs p)). inversion Ep; subst. simpl.
        split; [reflexivity|discriminate].
      * split; [now rewrite app_nil_r|discriminate].
    + inversion H; subst. simpl. destruct k; simpl in *; [discriminate|]. split; [now rewrite app_nil_r|discriminate].
  - unfold sget in H. destruct (nth_error (p0 :: rest) k) as [p|] eqn:En.
    + destruct (get_p k c p) as [p' e'] eqn:Ep. inversion H; subst; clear H.
      assert (tl p' = tl p).
      { unfold get_p in Ep. destruct (qs_get k c (qs p)) as [[q1 e1]|].
        - inversion Ep; subst. reflexivity.
        - destruct (cq_get (mkcq (tl p) 0)). inversion Ep; subst. reflexivity. }
      destruct k as [|k]; simpl in *.
      * inversion En; subst. rewrite app_nil_r. split; [exact H|discriminate].
      * split; [now rewrite app_nil_r|discriminate].
    + inversion H; subst. simpl. split; [now rewrite app_nil_r|discriminate].
Qed.

Lemma prun_tl0 : forall l ps ps' e,
  prun ps l = (ps', e) -> ps <> [] -> self_tl ps' = self_tl ps ++ pputs 0 l /\ ps' <> [].
Proof.
  induction l as [|x l IH]; simpl; intros ps ps' e H Hne.
  - inversion H; subst. now rewrite app_nil_r.
  - destruct (pstep ps x) as [ps1 e1] eqn:E1. destruct (prun ps1 l) as [ps2 e2] eqn:E2.
    inversion H; subst; clear H. destruct (pstep_tl0 _ _ _ _ E1 Hne) as [T1 N1].
    destruct (IH _ _ _ E2 N1) as [T2 N2]. split; auto.
    rewrite T2, T1. unfold pputs. simpl. now rewrite app_nil_r, app_assoc.
Qed.

(* ---------- simulation ---------- *)
Lemma trace_strace : forall ops s ss,
  kind s = KInter -> ports s <> [] -> rules s = map impl_of (srules ss) -> self_tl (ports s) = hist0 ss ->
  trace s ops = strace ss ops.
Proof.
  induction ops as [|o r IH]; intros s ss K Hne R H; simpl; auto.
  pose proof (expand_eq s ss o K R H) as E. pose proof (step_expand s o) as S.
  unfold sstep. destruct (sexpand ss o) as [l rs]. rewrite E in *. simpl.
  destruct (prun (ports s) l) as [ps' e] eqn:P. rewrite S. simpl. f_equal.
  destruct (prun_tl0 _ _ _ _ P Hne) as [T N]. apply IH; simpl; auto. now rewrite T, H.
Qed.

(* C03, boundary: the history of every port of an inter-workflow system is what the specification puts on it *)
Theorem boundary_formula n ops s es k p :
  run (init KInter n) ops = (s, es) -> 0 < n -> nth_error (ports s) k = Some p ->
  tl p = pputs k (strace sinit ops).
Proof.
  intros H Hn Hp. rewrite (history_is_trace _ _ _ _ _ _ _ H Hp). f_equal.
  apply trace_strace; simpl; auto.
  - destruct n; [lia|discriminate].
  - destruct n; [lia|reflexivity].
Qed.

(* and therefore what every consumer of every port (the boundary targets included) receives *)
Theorem boundary_delivery n ops s es k p c :
  run (init KInter n) ops = (s, es) -> 0 < n -> nth_error (ports s) k = Some p ->
  recv k c (concat es) = firstn (gets k c ops) (pputs k (strace sinit ops)).
Proof.
  intros H Hn Hp. rewrite (delivery _ _ _ _ _ _ _ c H Hp). now rewrite (boundary_formula _ _ _ _ _ _ H Hn Hp).
Qed.

(* a complete rule stays complete: it fires on every later token as well *)
Theorem covered_monotone T seen more : covered T seen = true -> covered T (seen ++ more) = true.
Proof.
  rewrite !covered_spec. intros H g. specialize (H g). rewrite count_occ_app. lia.
Qed.

(* ---------- the port itself manufactures tokens after a termination token ---------- *)
(* a PROPAGATE|TERMINATE rule towards port 1 for tag 0.1, then two ordinary puts on port 0, none of them a
   termination token and none on port 1: the consumer x of port 1 observes a token after a termination token *)
Definition w_ops : list op :=
  [AddInter 1 ["0.1"] true true; Put 0 (Tok 1 "0.1"); Put 0 (Tok 2 "0.2");
   Get 1 "x"; Get 1 "x"; Get 1 "x"; Get 1 "x"].
Theorem inter_term_then_token_refuted :
  exists ops s es,
    run (init KInter 2) ops = (s, es) /\
    forallb (fun t => negb (is_term t)) (puts 0 ops) = true /\ puts 1 ops = [] /\
    recv 1 "x" (concat es) = [Tok 1 "0.1"; Term RECOVERED; Tok 2 "0.2"; Term RECOVERED].
Proof.
  exists w_ops, (fst (run (init KInter 2) w_ops)), (snd (run (init KInter 2) w_ops)).
  split; [now destruct (run (init KInter 2) w_ops)|]. vm_compute. repeat split; reflexivity.
Qed.
