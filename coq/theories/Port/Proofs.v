(* Port/Proofs.v — delivery theorems for Port/Model.v (C03). *)
From Coq Require Import List Bool NArith Arith Lia.
From SF Require Import Base.Str Port.Model.
Import ListNotations.
Local Open Scope string_scope. Local Open Scope list_scope.

(* ---------- observables ---------- *)
Definition evkey (k : nat) (c : string) (e : ev) : bool :=
  Nat.eqb (fst (fst e)) k && String.eqb (snd (fst e)) c.
(* the tokens Port.get returned to consumer c of port k, in order *)
Definition recv (k : nat) (c : string) (es : list ev) : list tok := map snd (filter (evkey k c) es).

Lemma recv_app k c a b : recv k c (a ++ b) = recv k c a ++ recv k c b.
Proof. unfold recv. now rewrite filter_app, map_app. Qed.

(* ---------- primitive port operations: everything a step does to the ports ---------- *)
Inductive prim := PPut (k : nat) (t : tok) | PGet (k : nat) (c : string).
Definition pstep (ps : list port) (x : prim) : list port * list ev :=
  match x with PPut k t => sput k t ps | PGet k c => sget k c ps end.
Fixpoint prun (ps : list port) (l : list prim) : list port * list ev :=
  match l with
  | [] => (ps, [])
  | x :: r => let '(ps1, e1) := pstep ps x in let '(ps2, e2) := prun ps1 r in (ps2, e1 ++ e2)
  end.
Definition pputs (k : nat) (l : list prim) : list tok :=
  flat_map (fun x => match x with PPut k' t => if Nat.eqb k' k then [t] else [] | _ => [] end) l.
Definition pgets (k : nat) (c : string) (l : list prim) : nat :=
  length (filter (fun x => match x with PGet k' c' => Nat.eqb k' k && String.eqb c' c | _ => false end) l).

Lemma prun_app a : forall ps b,
  prun ps (a ++ b) = let '(ps1, e1) := prun ps a in let '(ps2, e2) := prun ps1 b in (ps2, e1 ++ e2).
Proof.
  induction a as [|x a IH]; intros ps b; simpl.
  - destruct (prun ps b); reflexivity.
  - destruct (pstep ps x) as [ps1 e1]. rewrite IH.
    destruct (prun ps1 a) as [ps2 e2]. destruct (prun ps2 b) as [ps3 e3]. now rewrite app_assoc.
Qed.

(* ---------- one queue ---------- *)
Fixpoint lookup (c : string) (l : list (string * cq)) : option cq :=
  match l with
  | [] => None
  | (c', q) :: r => if String.eqb c c' then Some q else lookup c r
  end.
Definition olist {A} (o : option A) : list A := match o with Some x => [x] | None => [] end.

(* what a consumer's queue must look like given the port history T, the tokens R it has received and the
   number G of gets it has issued *)
Definition good (v : option cq) (T R : list tok) (G : nat) : Prop :=
  match v with
  | Some q => R ++ items q = T /\ (waiting q <> 0 -> items q = []) /\ length R + waiting q = G
  | None => R = [] /\ G = 0
  end.

Lemma good_put q T R G t :
  good (Some q) T R G ->
  good (Some (fst (cq_put t q))) (T ++ [t]) (R ++ olist (snd (cq_put t q))) G.
Proof.
  unfold good, cq_put. intros (H1 & H2 & H3). destruct q as [its w]; simpl in *.
  destruct w as [|w].
  - simpl. rewrite app_nil_r. repeat split; try lia; try (intros; lia). now rewrite app_assoc, H1.
  - assert (its = []) by (apply H2; lia). subst its. simpl.
    rewrite app_nil_r in H1. subst T. repeat split; auto.
    + now rewrite app_nil_r.
    + rewrite app_length. simpl. lia.
Qed.

Lemma good_get q T R G :
  good (Some q) T R G ->
  good (Some (fst (cq_get q))) T (R ++ olist (snd (cq_get q))) (S G).
Proof.
  unfold good, cq_get. intros (H1 & H2 & H3). destruct q as [its w]; simpl in *.
  destruct its as [|x r]; simpl.
  - rewrite !app_nil_r in *. repeat split; auto. lia.
  - assert (w = 0). { destruct w; auto. discriminate H2. lia. } subst w.
    repeat split.
    + now rewrite <- app_assoc.
    + intros. lia.
    + rewrite app_length. simpl. lia.
Qed.

Lemma good_final v T R G : good v T R G -> R = firstn G T.
Proof.
  destruct v as [q|]; simpl.
  - intros (H1 & H2 & H3). destruct (Nat.eq_dec (waiting q) 0) as [E|E].
    + subst T. replace G with (length R + 0) by lia.
      rewrite firstn_app_2. simpl. now rewrite app_nil_r.
    + rewrite (H2 E), app_nil_r in H1. subst T. symmetry. apply firstn_all2. lia.
  - intros (-> & ->). reflexivity.
Qed.

(* ---------- one port ---------- *)
Lemma lookup_notin c l : ~ In c (map fst l) -> lookup c l = None.
Proof.
  induction l as [|[c' q] l IH]; simpl; intros H; auto.
  destruct (String.eqb_spec c c'); [exfalso; auto|]. apply IH. tauto.
Qed.

Lemma recv_cons k c k' c' t e :
  recv k c ((k', c', t) :: e) = (if Nat.eqb k' k && String.eqb c' c then [t] else []) ++ recv k c e.
Proof. unfold recv, evkey. simpl. destruct (Nat.eqb k' k && String.eqb c' c); reflexivity. Qed.

Lemma qs_put_spec k t : forall l l' e,
  qs_put k t l = (l', e) ->
  map fst l' = map fst l /\
  (forall c, lookup c l' = option_map (fun q => fst (cq_put t q)) (lookup c l)) /\
  (forall k' c, k' <> k -> recv k' c e = []) /\
  (forall c, ~ In c (map fst l) -> recv k c e = []) /\
  (NoDup (map fst l) -> forall c,
     recv k c e = match lookup c l with Some q => olist (snd (cq_put t q)) | None => [] end).
Proof.
  induction l as [|[c0 q0] l IH]; simpl; intros l' e H.
  - inversion H; subst. simpl. repeat split; auto.
  - destruct (cq_put t q0) as [q' d] eqn:Eq. destruct (qs_put k t l) as [r' e'] eqn:Er.
    inversion H; subst; clear H. destruct (IH _ _ eq_refl) as (I1 & I2 & I3 & I4 & I5).
    simpl. repeat split.
    + now rewrite I1.
    + intros c. destruct (String.eqb c c0); auto. simpl. now rewrite Eq.
    + intros k' c Hk. destruct d; auto. rewrite recv_cons.
      destruct (Nat.eqb_spec k k'); [congruence|]. simpl. auto.
    + intros c Hc. destruct d; [|apply I4; tauto]. rewrite recv_cons.
      destruct (String.eqb_spec c0 c); [exfalso; auto|]. rewrite andb_false_r. simpl. apply I4. tauto.
    + intros ND c. inversion ND; subst.
      destruct (String.eqb_spec c c0).
      * subst c. rewrite Eq. simpl. destruct d; simpl.
        -- rewrite recv_cons, Nat.eqb_refl, String.eqb_refl. simpl. now rewrite I4.
        -- now rewrite I4.
      * destruct d; [|auto]. rewrite recv_cons.
        destruct (String.eqb_spec c0 c); [congruence|]. rewrite andb_false_r. simpl. auto.
Qed.

Lemma qs_get_spec k c : forall l,
  match qs_get k c l with
  | None => lookup c l = None
  | Some (l', e) =>
      exists q, lookup c l = Some q /\ map fst l' = map fst l /\
        lookup c l' = Some (fst (cq_get q)) /\
        (forall c', c' <> c -> lookup c' l' = lookup c' l) /\
        e = map (fun x => (k, c, x)) (olist (snd (cq_get q)))
  end.
Proof.
  induction l as [|[c0 q0] l IH]; simpl; auto.
  destruct (String.eqb_spec c c0).
  - subst c0. destruct (cq_get q0) as [q' d] eqn:Eq. exists q0. rewrite Eq. simpl.
    rewrite String.eqb_refl. repeat split; auto.
    all: try (intros c' Hc; destruct (String.eqb_spec c' c); congruence).
    all: try (destruct d; reflexivity).
  - destruct (qs_get k c l) as [[r' e]|]; auto.
    destruct IH as (q & I1 & I2 & I3 & I4 & I5). exists q. simpl.
    destruct (String.eqb_spec c c0); [congruence|]. repeat split; auto.
    + now rewrite I2.
    + intros c' Hc. destruct (String.eqb c' c0); auto.
Qed.

Lemma recv_map_same k c l : recv k c (map (fun x => (k, c, x)) l) = l.
Proof.
  induction l; simpl; auto. rewrite recv_cons, Nat.eqb_refl, String.eqb_refl. simpl. now f_equal.
Qed.
Lemma recv_map_other k c k' c' l : (k', c') <> (k, c) -> recv k c (map (fun x => (k', c', x)) l) = [].
Proof.
  intros H. induction l; simpl; auto. rewrite recv_cons.
  destruct (Nat.eqb_spec k' k); destruct (String.eqb_spec c' c); simpl; auto. congruence.
Qed.

Lemma lookup_app_notin c l c0 q : lookup c (l ++ [(c0, q)]) =
  match lookup c l with Some x => Some x | None => if String.eqb c c0 then Some q else None end.
Proof. induction l as [|[c' q'] l IH]; simpl; auto. destruct (String.eqb c c'); auto. Qed.

(* the invariant of one port: history T, per-consumer received tokens and number of gets *)
Definition pinv (k : nat) (p : port) (es : list ev) (l : list prim) : Prop :=
  NoDup (map fst (qs p)) /\ tl p = pputs k l /\
  forall c, good (lookup c (qs p)) (tl p) (recv k c es) (pgets k c l).

Lemma pputs_app k a b : pputs k (a ++ b) = pputs k a ++ pputs k b.
Proof. unfold pputs. now rewrite flat_map_app. Qed.
Lemma pgets_app k c a b : pgets k c (a ++ b) = pgets k c a + pgets k c b.
Proof. unfold pgets. now rewrite filter_app, app_length. Qed.

Lemma NoDup_snoc {A} (l : list A) x : NoDup l -> ~ In x l -> NoDup (l ++ [x]).
Proof.
  induction l as [|y l IH]; simpl; intros ND H.
  - constructor; auto.
  - inversion ND; subst. constructor.
    + rewrite in_app_iff. simpl. intros [?|[?|[]]]; auto.
    + apply IH; auto.
Qed.
Lemma lookup_none_notin c l : lookup c l = None -> ~ In c (map fst l).
Proof.
  induction l as [|[c0 q0] r IH]; simpl; auto.
  destruct (String.eqb_spec c c0); [discriminate|]. intros H [?|?]; [congruence|]. now apply IH.
Qed.

Lemma pgets_single k c k' c' :
  pgets k' c' [PGet k c] = if Nat.eqb k k' && String.eqb c c' then 1 else 0.
Proof. unfold pgets. simpl. destruct (Nat.eqb k k' && String.eqb c c'); reflexivity. Qed.
Lemma pgets_put k c k' t : pgets k c [PPut k' t] = 0.
Proof. reflexivity. Qed.

Lemma put_p_inv k t p p' e es l :
  pinv k p es l -> put_p k t p = (p', e) -> pinv k p' (es ++ e) (l ++ [PPut k t]).
Proof.
  unfold put_p. intros (ND & HT & HG) H. destruct (qs_put k t (qs p)) as [qs' e'] eqn:E.
  inversion H; subst; clear H. destruct (qs_put_spec _ _ _ _ _ E) as (I1 & I2 & I3 & I4 & I5).
  unfold pinv; simpl. repeat split.
  - now rewrite I1.
  - rewrite pputs_app, HT. simpl. now rewrite Nat.eqb_refl.
  - intros c. rewrite recv_app, pgets_app, I2, (I5 ND), pgets_put, Nat.add_0_r.
    specialize (HG c). destruct (lookup c (qs p)) as [q|]; simpl.
    + now apply good_put.
    + simpl in HG. now rewrite app_nil_r.
Qed.

Lemma put_p_other k k' t p p' e es c :
  put_p k t p = (p', e) -> k' <> k -> recv k' c (es ++ e) = recv k' c es.
Proof.
  unfold put_p. intros H Hk. destruct (qs_put k t (qs p)) as [qs' e'] eqn:E. inversion H; subst.
  destruct (qs_put_spec _ _ _ _ _ E) as (_ & _ & I3 & _). now rewrite recv_app, I3, app_nil_r.
Qed.

Lemma get_p_inv k c p p' e es l :
  pinv k p es l -> get_p k c p = (p', e) -> pinv k p' (es ++ e) (l ++ [PGet k c]).
Proof.
  unfold get_p. intros (ND & HT & HG) H.
  pose proof (qs_get_spec k c (qs p)) as HS. destruct (qs_get k c (qs p)) as [[qs' e']|].
  - inversion H; subst; clear H. destruct HS as (q & S1 & S2 & S3 & S4 & S5). subst e.
    unfold pinv; simpl. repeat split.
    + now rewrite S2.
    + rewrite pputs_app. simpl. now rewrite app_nil_r.
    + intros c'. rewrite recv_app, pgets_app, pgets_single. destruct (String.eqb_spec c c').
      * subst c'. rewrite Nat.eqb_refl. simpl. rewrite recv_map_same, S3.
        specialize (HG c). rewrite S1 in HG. replace (pgets k c l + 1) with (S (pgets k c l)) by lia.
        now apply good_get.
      * rewrite andb_false_r. simpl. rewrite Nat.add_0_r, recv_map_other, app_nil_r by congruence.
        rewrite S4 by congruence. apply HG.
  - destruct (cq_get (mkcq (tl p) 0)) as [q' d] eqn:Eq. inversion H; subst; clear H.
    unfold pinv; simpl. repeat split.
    + rewrite map_app. simpl. apply NoDup_snoc; auto. now apply lookup_none_notin.
    + rewrite pputs_app. simpl. now rewrite app_nil_r.
    + intros c'. rewrite recv_app, pgets_app, lookup_app_notin, pgets_single.
      destruct (String.eqb_spec c c').
      * subst c'. rewrite Nat.eqb_refl, HS, String.eqb_refl. simpl.
        specialize (HG c). rewrite HS in HG. destruct HG as (HR & HGz).
        replace (match d with Some x => [(k, c, x)] | None => [] end) with (map (fun x => (k, c, x)) (olist d))
          by (destruct d; reflexivity).
        rewrite recv_map_same. replace (pgets k c l + 1) with (S (pgets k c l)) by lia.
        replace q' with (fst (cq_get (mkcq (tl p) 0))) by now rewrite Eq.
        replace d with (snd (cq_get (mkcq (tl p) 0))) by now rewrite Eq.
        rewrite HR, HGz. apply (good_get (mkcq (tl p) 0) (tl p) [] 0). simpl. repeat split; auto. intros; lia.
      * rewrite andb_false_r. simpl. rewrite Nat.add_0_r.
        replace (match d with Some x => [(k, c, x)] | None => [] end) with (map (fun x => (k, c, x)) (olist d))
          by (destruct d; reflexivity).
        rewrite recv_map_other, app_nil_r by congruence.
        specialize (HG c'). destruct (lookup c' (qs p)); auto.
        destruct (String.eqb_spec c' c); [congruence|]. auto.
Qed.

Lemma get_p_other k k' c c' p p' e es :
  get_p k c p = (p', e) -> k' <> k -> recv k' c' (es ++ e) = recv k' c' es.
Proof.
  unfold get_p. intros H Hk. rewrite recv_app.
  pose proof (qs_get_spec k c (qs p)) as HS. destruct (qs_get k c (qs p)) as [[qs' e']|].
  - inversion H; subst. destruct HS as (q & _ & _ & _ & _ & ->).
    rewrite recv_map_other, app_nil_r; congruence.
  - destruct (cq_get (mkcq (tl p) 0)) as [q' d]. inversion H; subst.
    replace (match d with Some x => [(k, c, x)] | None => [] end) with (map (fun x => (k, c, x)) (olist d))
      by (destruct d; reflexivity).
    rewrite recv_map_other, app_nil_r; congruence.
Qed.

(* ---------- the list of ports ---------- *)
Lemma nth_upd_nth {A} (f : A -> A) : forall (l : list A) k k',
  nth_error (upd_nth k f l) k' = if Nat.eqb k k' then option_map f (nth_error l k) else nth_error l k'.
Proof.
  induction l as [|x l IH]; intros [|k] [|k']; simpl; auto;
    try (destruct (Nat.eqb k k'); reflexivity); try apply IH.
Qed.
Lemma upd_nth_length {A} (f : A -> A) : forall (l : list A) k, length (upd_nth k f l) = length l.
Proof. induction l; intros [|k]; simpl; auto. Qed.

Definition sinv (ps : list port) (es : list ev) (l : list prim) : Prop :=
  forall k p, nth_error ps k = Some p -> pinv k p es l.

Lemma pinv_frame k p es l e x :
  pinv k p es l -> (forall c, recv k c (es ++ e) = recv k c es) ->
  pputs k [x] = [] -> (forall c, pgets k c [x] = 0) -> pinv k p (es ++ e) (l ++ [x]).
Proof.
  intros (ND & HT & HG) H1 H2 H3. unfold pinv. repeat split; auto.
  - now rewrite pputs_app, H2, app_nil_r.
  - intros c. now rewrite H1, pgets_app, H3, Nat.add_0_r.
Qed.

Lemma pstep_inv ps x ps' e es l :
  sinv ps es l -> pstep ps x = (ps', e) -> sinv ps' (es ++ e) (l ++ [x]) /\ length ps' = length ps.
Proof.
  intros I H. destruct x as [k t|k c]; simpl in H.
  - unfold sput in H. destruct (nth_error ps k) as [p|] eqn:En.
    + destruct (put_p k t p) as [p' e'] eqn:Ep. inversion H; subst; clear H.
      split; [|apply upd_nth_length]. intros k' q Hq. rewrite nth_upd_nth in Hq.
      destruct (Nat.eqb_spec k k').
      * subst k'. rewrite En in Hq. simpl in Hq. inversion Hq; subst. eapply put_p_inv; eauto.
      * apply pinv_frame; auto.
        -- intros c. eapply put_p_other; eauto.
        -- simpl. destruct (Nat.eqb_spec k k'); [congruence|reflexivity].
    + inversion H; subst; clear H. split; auto. intros k' q Hq.
      assert (k' <> k) by (intros ->; congruence).
      apply pinv_frame; auto; try (intros; now rewrite app_nil_r).
      * simpl. destruct (Nat.eqb_spec k k'); [congruence|reflexivity].
  - unfold sget in H. destruct (nth_error ps k) as [p|] eqn:En.
    + destruct (get_p k c p) as [p' e'] eqn:Ep. inversion H; subst; clear H.
      split; [|apply upd_nth_length]. intros k' q Hq. rewrite nth_upd_nth in Hq.
      destruct (Nat.eqb_spec k k').
      * subst k'. rewrite En in Hq. simpl in Hq. inversion Hq; subst. eapply get_p_inv; eauto.
      * apply pinv_frame; auto.
        -- intros c'. eapply get_p_other; eauto.
        -- intros c'. rewrite pgets_single. destruct (Nat.eqb_spec k k'); [congruence|reflexivity].
    + inversion H; subst; clear H. split; auto. intros k' q Hq.
      assert (k' <> k) by (intros ->; congruence).
      apply pinv_frame; auto; try (intros; now rewrite app_nil_r).
      * intros c'. rewrite pgets_single. destruct (Nat.eqb_spec k k'); [congruence|reflexivity].
Qed.

Lemma prun_inv : forall l ps ps' e es l0,
  sinv ps es l0 -> prun ps l = (ps', e) -> sinv ps' (es ++ e) (l0 ++ l) /\ length ps' = length ps.
Proof.
  induction l as [|x l IH]; simpl; intros ps ps' e es l0 I H.
  - inversion H; subst. now rewrite !app_nil_r.
  - destruct (pstep ps x) as [ps1 e1] eqn:E1. destruct (prun ps1 l) as [ps2 e2] eqn:E2.
    inversion H; subst; clear H. destruct (pstep_inv _ _ _ _ _ _ I E1) as [I1 L1].
    destruct (IH _ _ _ _ _ I1 E2) as [I2 L2]. split; [|congruence].
    replace (l0 ++ x :: l) with ((l0 ++ [x]) ++ l) by now rewrite <- app_assoc.
    now rewrite app_assoc.
Qed.

Lemma sinv_init n : sinv (repeat empty_port n) [] [].
Proof.
  intros k p H. apply nth_error_In, repeat_spec in H. subst p.
  unfold pinv; simpl. repeat split; auto. constructor.
Qed.

(* delivery at the level of primitive operations: from empty ports, each port's history is the puts made
   on it and each consumer has received exactly the first (number of its gets) tokens of that history *)
Theorem prim_delivery n l ps e k p :
  prun (repeat empty_port n) l = (ps, e) -> nth_error ps k = Some p ->
  tl p = pputs k l /\ forall c, recv k c e = firstn (pgets k c l) (pputs k l).
Proof.
  intros H Hp. destruct (prun_inv _ _ _ _ _ _ (sinv_init n) H) as [I _]. simpl in I.
  destruct (I k p Hp) as (_ & HT & HG). split; auto.
  intros c. rewrite <- HT. eapply good_final. apply HG.
Qed.

(* ---------- every operation is a sequence of primitive operations ---------- *)
Definition act_prims (r : rule) (t : tok) : list prim :=
  (if rprop r then [PPut (rtgt r) t] else []) ++ (if rterm r then [PPut (rtgt r) (Term RECOVERED)] else []).
Definition fire_prims (t : tok) (r' : rule) : list prim := if is_satisfied r' then act_prims r' t else [].
Definition self_hit (rs' : list rule) : bool := existsb (fun r' => is_satisfied r' && Nat.eqb (rtgt r') 0) rs'.

Lemma exec_action_prims r t ps : exec_action r t ps = prun ps (act_prims r t).
Proof.
  unfold exec_action, act_prims. destruct (rprop r), (rterm r); simpl.
  - destruct (sput (rtgt r) t ps) as [ps1 e1]. destruct (sput (rtgt r) (Term RECOVERED) ps1) as [ps2 e2].
    now rewrite app_nil_r.
  - destruct (sput (rtgt r) t ps) as [ps1 e1]. reflexivity.
  - destruct (sput (rtgt r) (Term RECOVERED) ps) as [ps2 e2]. now rewrite app_nil_r.
  - reflexivity.
Qed.

Lemma iput_loop_prims t : forall rs ps m,
  iput_loop t rs ps m =
  let rs' := map (remove_tag (tag_of t)) rs in
  let '(ps', e) := prun ps (flat_map (fire_prims t) rs') in
  (ps', rs', m || self_hit rs', e).
Proof.
  induction rs as [|r rs IH]; intros ps m; simpl.
  - now rewrite orb_false_r.
  - unfold fire_prims at 1. destruct (is_satisfied (remove_tag (tag_of t) r)) eqn:Es.
    + rewrite exec_action_prims, prun_app.
      destruct (prun ps (act_prims (remove_tag (tag_of t) r) t)) as [ps1 e1].
      rewrite IH. simpl.
      destruct (prun ps1 (flat_map (fire_prims t) (map (remove_tag (tag_of t)) rs))) as [ps2 e2].
      now rewrite orb_assoc.
    + rewrite IH. simpl.
      destruct (prun ps (flat_map (fire_prims t) (map (remove_tag (tag_of t)) rs))) as [ps2 e2].
      reflexivity.
Qed.

Fixpoint replay_prims (r : rule) (toks : list tok) : rule * list prim :=
  match toks with
  | [] => (r, [])
  | t :: rest =>
      let r' := remove_tag (tag_of t) r in
      let '(r2, l) := replay_prims r' rest in (r2, fire_prims t r' ++ l)
  end.

Lemma replay_prims_ok : forall toks r ps,
  replay r toks ps = let '(r2, l) := replay_prims r toks in let '(ps', e) := prun ps l in (r2, ps', e).
Proof.
  induction toks as [|t rest IH]; intros r ps; simpl; auto.
  destruct (replay_prims (remove_tag (tag_of t) r) rest) as [r2 l] eqn:Er.
  unfold fire_prims. destruct (is_satisfied (remove_tag (tag_of t) r)).
  - rewrite exec_action_prims, prun_app.
    destruct (prun ps (act_prims (remove_tag (tag_of t) r) t)) as [ps1 e1].
    rewrite IH, Er. destruct (prun ps1 l); reflexivity.
  - rewrite IH, Er. simpl. destruct (prun ps l); reflexivity.
Qed.

Definition expand (s : sys) (o : op) : list prim * list rule :=
  match o with
  | Put 0 t =>
      match kind s with
      | KPlain => ([PPut 0 t], rules s)
      | KFilter a => (if is_term t || a t then [PPut 0 t] else [], rules s)
      | KInter =>
          if is_term t then ([PPut 0 t], rules s)
          else let rs' := map (remove_tag (tag_of t)) (rules s) in
               (flat_map (fire_prims t) rs' ++ (if self_hit rs' then [] else [PPut 0 t]), rs')
      end
  | Put k t => ([PPut k t], rules s)
  | Get k c => ([PGet k c], rules s)
  | AddInter tgt tags pr te =>
      match kind s with
      | KInter =>
          let '(r', l) := replay_prims (mkrule pr te tgt tags)
                            (filter (fun t => negb (is_term t)) (self_tl (ports s))) in
          (l, rules s ++ [r'])
      | _ => ([], rules s)
      end
  end.

Lemma prun_single ps x : prun ps [x] = pstep ps x.
Proof. simpl. destruct (pstep ps x). now rewrite app_nil_r. Qed.

Lemma step_expand s o :
  step s o = let '(l, rs) := expand s o in let '(ps, e) := prun (ports s) l in (mksys (kind s) ps rs, e).
Proof.
  destruct s as [kd ps rs]. destruct o as [k t|k c|tgt tags pr te]; simpl.
  - destruct k as [|k].
    + destruct kd as [|a|]; simpl.
      * destruct (sput 0 t ps) as [ps1 e1]. now rewrite app_nil_r.
      * destruct (is_term t || a t); simpl; auto.
        destruct (sput 0 t ps) as [ps1 e1]. now rewrite app_nil_r.
      * unfold iput. simpl. destruct (is_term t); simpl.
        -- destruct (sput 0 t ps) as [ps1 e1]. now rewrite app_nil_r.
        -- rewrite iput_loop_prims. simpl. rewrite prun_app.
           destruct (prun ps (flat_map (fire_prims t) (map (remove_tag (tag_of t)) rs))) as [ps1 e1].
           destruct (self_hit (map (remove_tag (tag_of t)) rs)); simpl.
           ++ now rewrite app_nil_r.
           ++ destruct (sput 0 t ps1) as [ps2 e2]. now rewrite app_nil_r.
    + simpl. destruct (sput (S k) t ps) as [ps1 e1]. now rewrite app_nil_r.
  - destruct (sget k c ps) as [ps1 e1]. now rewrite app_nil_r.
  - destruct kd as [|a|]; simpl; auto. unfold iadd. simpl. rewrite replay_prims_ok.
    destruct (replay_prims (mkrule pr te tgt tags) (filter (fun t => negb (is_term t)) (self_tl ps))) as [r2 l].
    destruct (prun ps l); reflexivity.
Qed.

Fixpoint trace (s : sys) (ops : list op) : list prim :=
  match ops with
  | [] => []
  | o :: r => fst (expand s o) ++ trace (fst (step s o)) r
  end.

Lemma run_trace : forall ops s s' es,
  run s ops = (s', es) -> prun (ports s) (trace s ops) = (ports s', concat es).
Proof.
  induction ops as [|o r IH]; simpl; intros s s' es H.
  - inversion H; subst. reflexivity.
  - pose proof (step_expand s o) as E. destruct (step s o) as [s1 e1] eqn:Es.
    destruct (run s1 r) as [s2 es2] eqn:Er. inversion H; subst; clear H.
    destruct (expand s o) as [l rs]. simpl. rewrite prun_app.
    destruct (prun (ports s) l) as [ps1 e1']. inversion E; subst; clear E. simpl in *.
    pose proof (IH _ _ _ Er) as IH'. simpl in IH'. rewrite IH'. reflexivity.
Qed.

(* ---------- gets and puts of an operation history ---------- *)
Definition gets (k : nat) (c : string) (ops : list op) : nat :=
  length (filter (fun o => match o with Get k' c' => Nat.eqb k' k && String.eqb c' c | _ => false end) ops).
Definition puts (k : nat) (ops : list op) : list tok :=
  flat_map (fun o => match o with Put k' t => if Nat.eqb k' k then [t] else [] | _ => [] end) ops.

Definition is_pput (x : prim) : bool := match x with PPut _ _ => true | _ => false end.
Lemma pgets_all_puts k c l : forallb is_pput l = true -> pgets k c l = 0.
Proof.
  unfold pgets. induction l as [|x l IH]; simpl; auto. destruct x; simpl; [auto|discriminate].
Qed.
Lemma act_prims_puts r t : forallb is_pput (act_prims r t) = true.
Proof. unfold act_prims. destruct (rprop r), (rterm r); reflexivity. Qed.
Lemma fire_prims_puts t : forall rs, forallb is_pput (flat_map (fire_prims t) rs) = true.
Proof.
  induction rs as [|r rs IH]; simpl; auto. rewrite forallb_app, IH, andb_true_r.
  unfold fire_prims. destruct (is_satisfied r); auto using act_prims_puts.
Qed.
Lemma replay_prims_puts : forall toks r, forallb is_pput (snd (replay_prims r toks)) = true.
Proof.
  induction toks as [|t rest IH]; intros r; simpl; auto.
  specialize (IH (remove_tag (tag_of t) r)). destruct (replay_prims (remove_tag (tag_of t) r) rest) as [r2 l].
  simpl in *. rewrite forallb_app, IH, andb_true_r.
  unfold fire_prims. destruct (is_satisfied _); auto using act_prims_puts.
Qed.

Lemma pgets_expand k c s o :
  pgets k c (fst (expand s o)) =
  match o with Get k' c' => if Nat.eqb k' k && String.eqb c' c then 1 else 0 | _ => 0 end.
Proof.
  destruct o as [k' t|k' c'|tgt tags pr te]; simpl.
  - apply pgets_all_puts. destruct k'; simpl; auto. destruct (kind s); simpl; auto.
    + destruct (is_term t || accepts t); reflexivity.
    + destruct (is_term t); simpl; auto. rewrite forallb_app, fire_prims_puts.
      destruct (self_hit _); reflexivity.
  - apply pgets_single.
  - apply pgets_all_puts. destruct (kind s); simpl; auto.
    pose proof (replay_prims_puts (filter (fun t => negb (is_term t)) (self_tl (ports s))) (mkrule pr te tgt tags)).
    destruct (replay_prims _ _); auto.
Qed.

Lemma pgets_trace k c : forall ops s, pgets k c (trace s ops) = gets k c ops.
Proof.
  unfold gets. induction ops as [|o r IH]; intros s; simpl; auto.
  rewrite pgets_app, pgets_expand, IH. destruct o; simpl; auto.
  destruct (Nat.eqb k0 k && String.eqb c0 c); simpl; auto.
Qed.

Lemma init_ports kd n : ports (init kd n) = repeat empty_port n.
Proof. reflexivity. Qed.

(* C03, delivery: in every history of operations on a system of ports, every consumer of every port has
   received exactly the first (number of its gets) tokens of that port's history *)
Theorem delivery kd n ops s es k p c :
  run (init kd n) ops = (s, es) -> nth_error (ports s) k = Some p ->
  recv k c (concat es) = firstn (gets k c ops) (tl p).
Proof.
  intros H Hp. apply run_trace in H. rewrite init_ports in H.
  destruct (prim_delivery _ _ _ _ _ _ H Hp) as [HT HR].
  now rewrite HR, pgets_trace, HT.
Qed.

(* ---------- histories per kind of port ---------- *)
Lemma step_kind s o : kind (fst (step s o)) = kind s.
Proof.
  rewrite step_expand. destruct (expand s o) as [l rs]. destruct (prun (ports s) l). reflexivity.
Qed.

Lemma prun_length : forall l ps, length (fst (prun ps l)) = length ps.
Proof.
  induction l as [|x l IH]; intros ps; simpl; auto.
  destruct (pstep ps x) as [ps1 e1] eqn:E1. specialize (IH ps1). destruct (prun ps1 l) as [ps2 e2].
  simpl in *. rewrite IH. destruct x; simpl in E1.
  - unfold sput in E1. destruct (nth_error ps k); [destruct (put_p k t p)|]; inversion E1; subst; auto using upd_nth_length.
  - unfold sget in E1. destruct (nth_error ps k); [destruct (get_p k c p)|]; inversion E1; subst; auto using upd_nth_length.
Qed.

Lemma run_length kd n ops s es : run (init kd n) ops = (s, es) -> length (ports s) = n.
Proof.
  intros H. apply run_trace in H. pose proof (prun_length (trace (init kd n) ops) (ports (init kd n))) as L.
  rewrite H in L. simpl in L. now rewrite repeat_length in L.
Qed.

Lemma history_is_trace kd n ops s es k p :
  run (init kd n) ops = (s, es) -> nth_error (ports s) k = Some p -> tl p = pputs k (trace (init kd n) ops).
Proof.
  intros H Hp. apply run_trace in H. rewrite init_ports in H.
  now destruct (prim_delivery _ _ _ _ _ _ H Hp).
Qed.

Lemma pputs_plain k : forall ops s, kind s = KPlain -> pputs k (trace s ops) = puts k ops.
Proof.
  induction ops as [|o r IH]; intros s Hk; simpl; auto.
  rewrite pputs_app, IH by now rewrite step_kind. f_equal.
  destruct o as [k' t|k' c|]; simpl; rewrite ?Hk; simpl; auto.
  destruct k'; simpl; rewrite ?Hk; simpl; now rewrite app_nil_r.
Qed.

Definition admitted (a : tok -> bool) (t : tok) : bool := is_term t || a t.

Lemma pputs_filter a k : forall ops s, kind s = KFilter a ->
  pputs k (trace s ops) = if Nat.eqb k 0 then filter (admitted a) (puts 0 ops) else puts k ops.
Proof.
  induction ops as [|o r IH]; intros s Hk; simpl.
  - destruct (Nat.eqb k 0); reflexivity.
  - rewrite pputs_app, IH by now rewrite step_kind.
    destruct o as [k' t|k' c|]; simpl; rewrite ?Hk; simpl; auto.
    destruct k' as [|k']; simpl; rewrite ?Hk; simpl.
    + destruct k; simpl.
      * unfold admitted at 2. destruct (is_term t || a t); simpl; auto.
      * destruct (is_term t || a t); simpl; auto.
    + destruct k; simpl; auto. destruct (Nat.eqb k' k); simpl; auto.
Qed.

Theorem plain_delivery n ops s es k c :
  run (init KPlain n) ops = (s, es) -> k < n ->
  recv k c (concat es) = firstn (gets k c ops) (puts k ops).
Proof.
  intros H Hk. pose proof (run_length _ _ _ _ _ H) as L.
  destruct (nth_error (ports s) k) as [p|] eqn:Ep; [|apply nth_error_None in Ep; lia].
  rewrite (delivery _ _ _ _ _ _ _ c H Ep), (history_is_trace _ _ _ _ _ _ _ H Ep).
  now rewrite pputs_plain.
Qed.

Theorem filter_delivery a n ops s es c :
  run (init (KFilter a) n) ops = (s, es) -> 0 < n ->
  recv 0 c (concat es) = firstn (gets 0 c ops) (filter (admitted a) (puts 0 ops)).
Proof.
  intros H Hk. pose proof (run_length _ _ _ _ _ H) as L.
  destruct (nth_error (ports s) 0) as [p|] eqn:Ep; [|apply nth_error_None in Ep; lia].
  rewrite (delivery _ _ _ _ _ _ _ c H Ep), (history_is_trace _ _ _ _ _ _ _ H Ep).
  now rewrite (pputs_filter a 0) by reflexivity.
Qed.

(* nothing follows a termination token unless it was put after it: a consumer's sequence is a prefix of the
   port's history, so a token seen after a termination token is after it in the history as well *)
Theorem after_term kd n ops s es k p c l1 st l2 :
  run (init kd n) ops = (s, es) -> nth_error (ports s) k = Some p ->
  recv k c (concat es) = l1 ++ Term st :: l2 ->
  exists l3, tl p = l1 ++ Term st :: l2 ++ l3.
Proof.
  intros H Hp HR. rewrite (delivery _ _ _ _ _ _ _ c H Hp) in HR.
  exists (skipn (gets k c ops) (tl p)).
  rewrite <- (firstn_skipn (gets k c ops) (tl p)) at 1. rewrite HR, <- app_assoc. reflexivity.
Qed.

(* producer discipline: termination is the last put on a port => consumers see nothing after it *)
Theorem term_last n ops s es k c l1 st l2 :
  run (init KPlain n) ops = (s, es) -> k < n ->
  (forall a b t, puts k ops = a ++ t :: b -> is_term t = true -> b = []) ->
  recv k c (concat es) = l1 ++ Term st :: l2 -> l2 = [].
Proof.
  intros H Hk D HR. pose proof (run_length _ _ _ _ _ H) as L.
  destruct (nth_error (ports s) k) as [p|] eqn:Ep; [|apply nth_error_None in Ep; lia].
  destruct (after_term _ _ _ _ _ _ _ _ _ _ _ H Ep HR) as [l3 E].
  rewrite (history_is_trace _ _ _ _ _ _ _ H Ep), pputs_plain in E by reflexivity.
  apply D in E; auto. now apply app_eq_nil in E.
Qed.

(* ---------- boundary rules ---------- *)
(* tags still missing after the rule has been shown the tags [seen], as BoundaryRule.remove_tag computes *)
Definition remaining (T seen : list string) : list string := fold_left (fun l g => remove1 g l) seen T.

Lemma count_remove1 x g : forall l,
  count_occ string_dec (remove1 x l) g = count_occ string_dec l g - (if string_dec x g then 1 else 0).
Proof.
  induction l as [|y r IH]; simpl; auto.
  destruct (String.eqb_spec x y).
  - subst y. destruct (string_dec x g); lia.
  - simpl. rewrite IH. destruct (string_dec y g); destruct (string_dec x g); try lia. congruence.
Qed.

Lemma count_remaining g : forall seen T,
  count_occ string_dec (remaining T seen) g = count_occ string_dec T g - count_occ string_dec seen g.
Proof.
  unfold remaining. induction seen as [|x s IH]; intros T; simpl; [lia|].
  rewrite IH, count_remove1. destruct (string_dec x g); lia.
Qed.

(* the boundary tag set is complete (is_satisfied) exactly when the multiset of its tags is covered by
   the multiset of the tags of the tokens shown to the rule *)
Theorem remaining_nil_iff T seen :
  remaining T seen = [] <-> forall g, count_occ string_dec T g <= count_occ string_dec seen g.
Proof.
  rewrite <- (count_occ_inv_nil string_dec). split; intros H g; specialize (H g);
    rewrite count_remaining in *; lia.
Qed.

Lemma rule_history : forall seen r,
  rtags (fold_left (fun r g => remove_tag g r) seen r) = remaining (rtags r) seen /\
  rtgt (fold_left (fun r g => remove_tag g r) seen r) = rtgt r /\
  rprop (fold_left (fun r g => remove_tag g r) seen r) = rprop r /\
  rterm (fold_left (fun r g => remove_tag g r) seen r) = rterm r.
Proof.
  unfold remaining. induction seen as [|x s IH]; intros r; simpl; auto.
  destruct (IH (remove_tag x r)) as (A & B & C & D). simpl in *. auto.
Qed.

(* one put of a non-termination token on an inter-workflow port: every rule is shown the tag; every rule
   whose tag list is (now or already) empty puts the token (PROPAGATE) and a RECOVERED termination
   (TERMINATE) on its target, in rule order; the port keeps the token iff no such rule targets itself *)
Theorem boundary_put s t :
  kind s = KInter -> is_term t = false ->
  step s (Put 0 t) =
  let rs' := map (remove_tag (tag_of t)) (rules s) in
  let '(ps, e) := prun (ports s)
                    (flat_map (fire_prims t) rs' ++ (if self_hit rs' then [] else [PPut 0 t])) in
  (mksys KInter ps rs', e).
Proof. intros Hk Ht. rewrite step_expand. simpl. rewrite Hk, Ht. simpl. reflexivity. Qed.

(* add_inter_port: the new rule is shown the non-termination tokens already in the port's history *)
Theorem boundary_add s tgt tags pr te :
  kind s = KInter ->
  step s (AddInter tgt tags pr te) =
  let '(r', l) := replay_prims (mkrule pr te tgt tags)
                    (filter (fun t => negb (is_term t)) (self_tl (ports s))) in
  let '(ps, e) := prun (ports s) l in (mksys KInter ps (rules s ++ [r']), e).
Proof.
  intros Hk. rewrite step_expand. simpl. rewrite Hk.
  destruct (replay_prims _ _) as [r' l]. reflexivity.
Qed.

Theorem boundary_complete (r : rule) (seen : list string) :
  is_satisfied (fold_left (fun r g => remove_tag g r) seen r) = true <->
  forall g, count_occ string_dec (rtags r) g <= count_occ string_dec seen g.
Proof.
  rewrite <- remaining_nil_iff. destruct (rule_history seen r) as (E & _).
  unfold is_satisfied. rewrite E. destruct (remaining (rtags r) seen); split; congruence.
Qed.

(* ---------- producer discipline on a FilterTokenPort ---------- *)
Lemma filter_decomp {A} (P : A -> bool) : forall l a t b,
  filter P l = a ++ t :: b -> exists a0 b0, l = a0 ++ t :: b0 /\ filter P a0 = a /\ filter P b0 = b.
Proof.
  induction l as [|x l IH]; intros a t b H; simpl in H.
  - destruct a; discriminate.
  - destruct (P x) eqn:Px.
    + destruct a as [|y a]; simpl in H.
      * inversion H; subst. exists [], l. simpl. auto.
      * inversion H; subst. destruct (IH _ _ _ H2) as (a0 & b0 & -> & E1 & E2).
        exists (y :: a0), b0. simpl. rewrite Px. subst. auto.
    + destruct (IH _ _ _ H) as (a0 & b0 & -> & E1 & E2). exists (x :: a0), b0. simpl. rewrite Px. auto.
Qed.

Theorem term_last_filter acc n ops s es c l1 st l2 :
  run (init (KFilter acc) n) ops = (s, es) -> 0 < n ->
  (forall a b t, puts 0 ops = a ++ t :: b -> is_term t = true -> b = []) ->
  recv 0 c (concat es) = l1 ++ Term st :: l2 -> l2 = [].
Proof.
  intros H Hn D HR. rewrite (filter_delivery acc n ops s es c H Hn) in HR.
  pose proof (firstn_skipn (gets 0 c ops) (filter (admitted acc) (puts 0 ops))) as FS. rewrite HR in FS.
  rewrite <- app_assoc in FS. simpl in FS. symmetry in FS.
  destruct (filter_decomp _ _ _ _ _ FS) as (a0 & b0 & E & _ & E2).
  assert (b0 = []) by (eapply D; [exact E|reflexivity]). subst b0. simpl in E2.
  symmetry in E2. now apply app_eq_nil in E2.
Qed.
