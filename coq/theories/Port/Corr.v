(* Port/Corr.v — correspondence cases for Port/Model.v (C03). *)
From Coq Require Import List Bool NArith Arith.
From SF Require Import Base.Str Base.Corr.
From SF Require Export Port.Model.
Import ListNotations.
Local Open Scope string_scope. Local Open Scope list_scope.

(* filter functions used by the harness: tag in a list / id below a bound / id even *)
Inductive fdesc := FTags (l : list string) | FIdLt (n : N) | FIdEven.
Definition accepts_of (f : fdesc) (t : tok) : bool :=
  match t with
  | Term _ => false
  | Tok i g =>
      match f with
      | FTags l => existsb (String.eqb g) l
      | FIdLt n => N.ltb i n
      | FIdEven => N.even i
      end
  end.
Inductive ckind := CKPlain | CKFilter (f : fdesc) | CKInter.
Definition kind_of (k : ckind) : pkind :=
  match k with CKPlain => KPlain | CKFilter f => KFilter (accepts_of f) | CKInter => KInter end.

(* input (kind, number of ports, operations) and observation (deliveries of each operation, in any
   order across distinct (port, consumer) pairs; final token_list of every port) *)
Inductive ccase := CCase (k : ckind) (nports : nat) (ops : list op) (obs : list (list ev)) (tls : list (list tok)).

Definition tok_eqb (a b : tok) : bool :=
  match a, b with
  | Tok i g, Tok j h => N.eqb i j && String.eqb g h
  | Term s, Term s' => N.eqb s s'
  | _, _ => false
  end.
Definition same_key (a b : ev) : bool :=
  Nat.eqb (fst (fst a)) (fst (fst b)) && String.eqb (snd (fst a)) (snd (fst b)).
Definition ev_eqb (a b : ev) : bool := same_key a b && tok_eqb (snd a) (snd b).
Definition evs_equiv (a b : list ev) : bool :=
  Nat.eqb (length a) (length b) &&
  forallb (fun e => list_eqb ev_eqb (filter (same_key e) a) (filter (same_key e) b)) (a ++ b).

Definition check_case (c : ccase) : bool :=
  match c with
  | CCase k n ops obs tls =>
      let '(s, es) := run (init (kind_of k) n) ops in
      list_eqb evs_equiv es obs && list_eqb (list_eqb tok_eqb) (map tl (ports s)) tls
  end.
