(* Port/Model.v — model of StreamFlow ports (definitions only).
   ANCHORS: streamflow.core.workflow.Port._init_consumer, streamflow.core.workflow.Port.get,
            streamflow.core.workflow.Port.put, streamflow.workflow.port.BoundaryRule.remove_tag,
            streamflow.workflow.port.BoundaryRule.is_satisfied, streamflow.workflow.port.FilterTokenPort.put,
            streamflow.workflow.port.InterWorkflowPort._execute_boundary_action,
            streamflow.workflow.port.InterWorkflowPort.add_inter_port, streamflow.workflow.port.InterWorkflowPort.put
   A system is a list of ports; port 0 is the port under examination (a plain Port, a FilterTokenPort or
   an InterWorkflowPort), ports 1.. are plain Ports that may be targets of boundary rules.
   asyncio.Queue is modelled as (pending items, number of getters blocked on the empty queue): put_nowait
   appends and wakes one blocked getter, which pops the front.  Port.close / task_done accounting is not
   modelled (it does not affect delivery). *)
From Coq Require Import List Bool NArith Arith.
From SF Require Import Base.Str.
Import ListNotations.
Local Open Scope string_scope. Local Open Scope list_scope.

Inductive tok := Tok (id : N) (tag : string) | Term (st : N).
Definition is_term (t : tok) : bool := match t with Term _ => true | _ => false end.
Definition RECOVERED : N := 9%N.

Record cq := mkcq { items : list tok; waiting : nat }.
Record port := mkport { tl : list tok; qs : list (string * cq) }.
Definition empty_port : port := mkport [] [].

(* a delivery: Port.get of consumer c on port k returned token t *)
Definition ev := (nat * string * tok)%type.

(* asyncio.Queue.put_nowait: append, then wake the first blocked getter (it pops the front) *)
Definition cq_put (t : tok) (q : cq) : cq * option tok :=
  let its := items q ++ [t] in
  match waiting q, its with
  | S w, x :: r => (mkcq r w, Some x)
  | _, _ => (mkcq its (waiting q), None)
  end.

(* asyncio.Queue.get: pop the front or block *)
Definition cq_get (q : cq) : cq * option tok :=
  match items q with
  | x :: r => (mkcq r (waiting q), Some x)
  | [] => (mkcq [] (S (waiting q)), None)
  end.

(* Port.put: token_list.append(token); for q in queues.values(): q.put_nowait(token) *)
Fixpoint qs_put (k : nat) (t : tok) (l : list (string * cq)) : list (string * cq) * list ev :=
  match l with
  | [] => ([], [])
  | (c, q) :: r =>
      let '(q', d) := cq_put t q in
      let '(r', e) := qs_put k t r in
      ((c, q') :: r', match d with Some x => (k, c, x) :: e | None => e end)
  end.
Definition put_p (k : nat) (t : tok) (p : port) : port * list ev :=
  let '(qs', e) := qs_put k t (qs p) in (mkport (tl p ++ [t]) qs', e).

(* Port.get: first get of a consumer creates its queue and replays token_list *)
Fixpoint qs_get (k : nat) (c : string) (l : list (string * cq)) : option (list (string * cq) * list ev) :=
  match l with
  | [] => None
  | (c', q) :: r =>
      if String.eqb c c' then
        let '(q', d) := cq_get q in
        Some ((c', q') :: r, match d with Some x => [(k, c, x)] | None => [] end)
      else match qs_get k c r with
           | Some (r', e) => Some ((c', q) :: r', e)
           | None => None
           end
  end.
Definition get_p (k : nat) (c : string) (p : port) : port * list ev :=
  match qs_get k c (qs p) with
  | Some (qs', e) => (mkport (tl p) qs', e)
  | None =>
      let '(q', d) := cq_get (mkcq (tl p) 0) in
      (mkport (tl p) (qs p ++ [(c, q')]), match d with Some x => [(k, c, x)] | None => [] end)
  end.

(* ---- the system ---- *)
Inductive pkind := KPlain | KFilter (accepts : tok -> bool) | KInter.
(* BoundaryRule: action flags, target port (0 = the InterWorkflowPort itself), tags still missing *)
Record rule := mkrule { rprop : bool; rterm : bool; rtgt : nat; rtags : list string }.
Record sys := mksys { kind : pkind; ports : list port; rules : list rule }.

Fixpoint upd_nth {A} (n : nat) (f : A -> A) (l : list A) : list A :=
  match l, n with
  | [], _ => []
  | x :: r, O => f x :: r
  | x :: r, S n' => x :: upd_nth n' f r
  end.

(* plain Port.put on port k of the system *)
Definition sput (k : nat) (t : tok) (ps : list port) : list port * list ev :=
  match nth_error ps k with
  | Some p => let '(p', e) := put_p k t p in (upd_nth k (fun _ => p') ps, e)
  | None => (ps, [])
  end.
Definition sget (k : nat) (c : string) (ps : list port) : list port * list ev :=
  match nth_error ps k with
  | Some p => let '(p', e) := get_p k c p in (upd_nth k (fun _ => p') ps, e)
  | None => (ps, [])
  end.

(* BoundaryRule.remove_tag: if tag in self.tags: self.tags.remove(tag)  (first occurrence) *)
Fixpoint remove1 (x : string) (l : list string) : list string :=
  match l with
  | [] => []
  | y :: r => if String.eqb x y then r else y :: remove1 x r
  end.
Definition remove_tag (x : string) (r : rule) : rule := mkrule (rprop r) (rterm r) (rtgt r) (remove1 x (rtags r)).
Definition is_satisfied (r : rule) : bool := match rtags r with [] => true | _ => false end.

(* InterWorkflowPort._execute_boundary_action: target.put(token) / target.put(TerminationToken(RECOVERED));
   for target = self it is Port.put (super()), which is what sput does for every port here *)
Definition exec_action (r : rule) (t : tok) (ps : list port) : list port * list ev :=
  let '(ps1, e1) := if rprop r then sput (rtgt r) t ps else (ps, []) in
  let '(ps2, e2) := if rterm r then sput (rtgt r) (Term RECOVERED) ps1 else (ps1, []) in
  (ps2, e1 ++ e2).

Definition tag_of (t : tok) : string := match t with Tok _ g => g | Term _ => "0" end.

(* the loop of InterWorkflowPort.put over self.boundaries; returns ports, updated rules, matched_self, events *)
Fixpoint iput_loop (t : tok) (rs : list rule) (ps : list port) (m : bool)
  : list port * list rule * bool * list ev :=
  match rs with
  | [] => (ps, [], m, [])
  | r :: rest =>
      let r' := remove_tag (tag_of t) r in
      if is_satisfied r' then
        let '(ps1, e1) := exec_action r' t ps in
        let '(ps2, rs2, m2, e2) := iput_loop t rest ps1 (m || Nat.eqb (rtgt r') 0) in
        (ps2, r' :: rs2, m2, e1 ++ e2)
      else
        let '(ps2, rs2, m2, e2) := iput_loop t rest ps m in
        (ps2, r' :: rs2, m2, e2)
  end.

Definition iput (t : tok) (s : sys) : sys * list ev :=
  if is_term t then let '(ps, e) := sput 0 t (ports s) in (mksys (kind s) ps (rules s), e)
  else
    let '(ps, rs, m, e) := iput_loop t (rules s) (ports s) false in
    if m then (mksys (kind s) ps rs, e)
    else let '(ps', e') := sput 0 t ps in (mksys (kind s) ps' rs, e ++ e').

(* add_inter_port: append the rule, then show it the non-termination tokens of a copy of token_list *)
Fixpoint replay (r : rule) (toks : list tok) (ps : list port) : rule * list port * list ev :=
  match toks with
  | [] => (r, ps, [])
  | t :: rest =>
      let r' := remove_tag (tag_of t) r in
      if is_satisfied r' then
        let '(ps1, e1) := exec_action r' t ps in
        let '(r2, ps2, e2) := replay r' rest ps1 in (r2, ps2, e1 ++ e2)
      else replay r' rest ps
  end.

Definition self_tl (ps : list port) : list tok := match ps with p :: _ => tl p | [] => [] end.

Definition iadd (tgt : nat) (tags : list string) (pr te : bool) (s : sys) : sys * list ev :=
  let r := mkrule pr te tgt tags in
  let toks := filter (fun t => negb (is_term t)) (self_tl (ports s)) in
  let '(r', ps, e) := replay r toks (ports s) in
  (mksys (kind s) ps (rules s ++ [r']), e).

Inductive op :=
| Put (k : nat) (t : tok)
| Get (k : nat) (c : string)
| AddInter (tgt : nat) (tags : list string) (pr te : bool).

Definition step (s : sys) (o : op) : sys * list ev :=
  match o with
  | Put 0 t =>
      match kind s with
      | KPlain => let '(ps, e) := sput 0 t (ports s) in (mksys (kind s) ps (rules s), e)
      | KFilter accepts =>
          if is_term t || accepts t then let '(ps, e) := sput 0 t (ports s) in (mksys (kind s) ps (rules s), e)
          else (s, [])
      | KInter => iput t s
      end
  | Put k t => let '(ps, e) := sput k t (ports s) in (mksys (kind s) ps (rules s), e)
  | Get k c => let '(ps, e) := sget k c (ports s) in (mksys (kind s) ps (rules s), e)
  | AddInter tgt tags pr te =>
      match kind s with
      | KInter => iadd tgt tags pr te s
      | _ => (s, [])
      end
  end.

(* run: final state and the deliveries of each operation *)
Fixpoint run (s : sys) (ops : list op) : sys * list (list ev) :=
  match ops with
  | [] => (s, [])
  | o :: r => let '(s1, e) := step s o in let '(s2, es) := run s1 r in (s2, e :: es)
  end.

Definition init (kd : pkind) (n : nat) : sys := mksys kd (repeat empty_port n) [].
