(* Persist/Proofs.v — load (save t) = t for every nested token, on every database state. *)
From Coq Require Import List Bool NArith ZArith Arith Lia.
From SF Require Import Base.Str DbCache.Model Persist.Model.
Import ListNotations.
Local Open Scope string_scope. Local Open Scope list_scope.

(* ------------------------------------------------------------------ induction over nested tokens *)
Section PtokInd.
  Variable P : ptok -> Prop.
  Hypothesis HTok : forall c tag v rc, P (PTok c tag v rc).
  Hypothesis HList : forall tag l, Forall P l -> P (PList tag l).
  Hypothesis HObj : forall tag keys l, Forall P l -> P (PObj tag keys l).
  Hypothesis HTerm : forall z, P (PTerm z).
  Hypothesis HIter : forall tag, P (PIter tag).
  Hypothesis HJob : forall tag rc n w ds keys l, Forall P l -> P (PJob tag rc n w ds keys l).

  Fixpoint ptok_ind' (t : ptok) : P t :=
    match t with
    | PTok c tag v rc => HTok c tag v rc
    | PList tag l =>
        HList tag l ((fix go (l : list ptok) : Forall P l :=
                        match l with [] => Forall_nil P | c :: cs => Forall_cons c (ptok_ind' c) (go cs) end) l)
    | PObj tag keys l =>
        HObj tag keys l ((fix go (l : list ptok) : Forall P l :=
                            match l with [] => Forall_nil P | c :: cs => Forall_cons c (ptok_ind' c) (go cs) end) l)
    | PTerm z => HTerm z
    | PIter tag => HIter tag
    | PJob tag rc n w ds keys l =>
        HJob tag rc n w ds keys l
             ((fix go (l : list ptok) : Forall P l :=
                 match l with [] => Forall_nil P | c :: cs => Forall_cons c (ptok_ind' c) (go cs) end) l)
    end.
End PtokInd.

(* ------------------------------------------------------------------ unfolding equations *)
Lemma save_list tag l d :
  save (PList tag l) d = let '(ids, d') := save_all l d in (S (length d'), d' ++ [mkrow c_list tag (VIds ids) false]).
Proof. reflexivity. Qed.

Lemma save_obj tag keys l d :
  save (PObj tag keys l) d =
  let '(ids, d') := save_all l d in (S (length d'), d' ++ [mkrow c_obj tag (VMap keys ids) false]).
Proof. reflexivity. Qed.

Lemma save_job tag rc n w ds keys l d :
  save (PJob tag rc n w ds keys l) d =
  let '(ids, d') := save_all l d in (S (length d'), d' ++ [mkrow c_job tag (VJob n w ds keys ids) rc]).
Proof. reflexivity. Qed.

Definition wf_all (l : list ptok) : Prop := Forall wf l.

Lemma wf_inner l :
  (fix all (l : list ptok) : Prop := match l with [] => True | c :: cs => wf c /\ all cs end) l <-> Forall wf l.
Proof.
  induction l as [|c cs IH]; split; intros H.
  - constructor.
  - exact I.
  - destruct H as [H1 H2]. constructor; [exact H1 | apply IH; exact H2].
  - inversion H; subst. split; [assumption | apply IH; assumption].
Qed.

(* ------------------------------------------------------------------ mapM *)
Lemma mapM_impl {A B} (f g : A -> option B) l ys :
  (forall x y, In x l -> f x = Some y -> g x = Some y) -> mapM f l = Some ys -> mapM g l = Some ys.
Proof.
  revert ys. induction l as [|x xs IH]; intros ys H E; simpl in *; [exact E|].
  destruct (f x) as [y|] eqn:Ef; [|discriminate].
  rewrite (H x y (or_introl eq_refl) Ef).
  destruct (mapM f xs) as [ys'|] eqn:Em; [|discriminate].
  rewrite (IH ys' (fun x' y' Hin => H x' y' (or_intror Hin)) eq_refl). exact E.
Qed.

(* ------------------------------------------------------------------ load is stable under appending rows and adding fuel *)
Lemma row_of_app d e id r : row_of d id = Some r -> row_of (d ++ e) id = Some r.
Proof.
  destruct id as [|k]; simpl; [discriminate|]. intros H.
  rewrite nth_error_app1; [exact H | apply nth_error_Some; rewrite H; discriminate].
Qed.

Lemma load_app f : forall d e id t, load f d id = Some t -> load f (d ++ e) id = Some t.
Proof.
  induction f as [|f IH]; intros d e id t H; simpl in *; [discriminate|].
  destruct (row_of d id) as [r|] eqn:Er; [|discriminate].
  rewrite (row_of_app d e id r Er).
  destruct (r_val r); try exact H.
  - destruct (String.eqb (r_type r) c_list); [|discriminate].
    destruct (mapM (load f d) ids) as [l|] eqn:Em; [|discriminate].
    rewrite (mapM_impl (load f d) (load f (d ++ e)) ids l (fun x y _ Hx => IH d e x y Hx) Em). exact H.
  - destruct (String.eqb (r_type r) c_obj); [|discriminate].
    destruct (mapM (load f d) ids) as [l|] eqn:Em; [|discriminate].
    rewrite (mapM_impl (load f d) (load f (d ++ e)) ids l (fun x y _ Hx => IH d e x y Hx) Em). exact H.
  - destruct (String.eqb (r_type r) c_job); [|discriminate].
    destruct (mapM (load f d) ids) as [l|] eqn:Em; [|discriminate].
    rewrite (mapM_impl (load f d) (load f (d ++ e)) ids l (fun x y _ Hx => IH d e x y Hx) Em). exact H.
Qed.

Lemma load_fuel_S f : forall d id t, load f d id = Some t -> load (S f) d id = Some t.
Proof.
  induction f as [|f IH]; intros d id t H; [discriminate|].
  change (load (S f) d id) with
    (match row_of d id with
     | None => None
     | Some r =>
         match r_val r with
         | VJson v => if reserved (r_type r) then None else Some (PTok (r_type r) (r_tag r) v (r_rec r))
         | VIds ids => if String.eqb (r_type r) c_list then option_map (PList (r_tag r)) (mapM (load f d) ids) else None
         | VMap keys ids => if String.eqb (r_type r) c_obj then option_map (PObj (r_tag r) keys) (mapM (load f d) ids) else None
         | VStatus z => if String.eqb (r_type r) c_term then Some (PTerm z) else None
         | VNull => if String.eqb (r_type r) c_iter then Some (PIter (r_tag r)) else None
         | VJob jn jw jd keys1 ids => if String.eqb (r_type r) c_job
             then option_map (PJob (r_tag r) (r_rec r) jn jw jd keys1) (mapM (load f d) ids) else None
         end
     end) in H.
  change (load (S (S f)) d id) with
    (match row_of d id with
     | None => None
     | Some r =>
         match r_val r with
         | VJson v => if reserved (r_type r) then None else Some (PTok (r_type r) (r_tag r) v (r_rec r))
         | VIds ids => if String.eqb (r_type r) c_list then option_map (PList (r_tag r)) (mapM (load (S f) d) ids) else None
         | VMap keys ids => if String.eqb (r_type r) c_obj then option_map (PObj (r_tag r) keys) (mapM (load (S f) d) ids) else None
         | VStatus z => if String.eqb (r_type r) c_term then Some (PTerm z) else None
         | VNull => if String.eqb (r_type r) c_iter then Some (PIter (r_tag r)) else None
         | VJob jn jw jd keys1 ids => if String.eqb (r_type r) c_job
             then option_map (PJob (r_tag r) (r_rec r) jn jw jd keys1) (mapM (load (S f) d) ids) else None
         end
     end).
  destruct (row_of d id) as [r|]; [|discriminate].
  destruct (r_val r); try exact H.
  - destruct (String.eqb (r_type r) c_list); [|discriminate].
    destruct (mapM (load f d) ids) as [l|] eqn:Em; [|discriminate].
    rewrite (mapM_impl (load f d) (load (S f) d) ids l (fun x y _ Hx => IH d x y Hx) Em). exact H.
  - destruct (String.eqb (r_type r) c_obj); [|discriminate].
    destruct (mapM (load f d) ids) as [l|] eqn:Em; [|discriminate].
    rewrite (mapM_impl (load f d) (load (S f) d) ids l (fun x y _ Hx => IH d x y Hx) Em). exact H.
  - destruct (String.eqb (r_type r) c_job); [|discriminate].
    destruct (mapM (load f d) ids) as [l|] eqn:Em; [|discriminate].
    rewrite (mapM_impl (load f d) (load (S f) d) ids l (fun x y _ Hx => IH d x y Hx) Em). exact H.
Qed.

Lemma load_fuel_le f f' d id t : f <= f' -> load f d id = Some t -> load f' d id = Some t.
Proof. intros Hle. induction Hle as [|m Hle IH]; [auto | intros E; apply load_fuel_S; auto]. Qed.

(* ------------------------------------------------------------------ save only appends; the id is the last row *)
Definition good (t : ptok) : Prop :=
  forall d, (exists e, snd (save t d) = d ++ e) /\
            (wf t -> load (height t) (snd (save t d)) (fst (save t d)) = Some t).

Definition hmax (l : list ptok) : nat := fold_right (fun c m => Nat.max (height c) m) O l.

Lemma save_all_good l :
  Forall good l -> forall d,
  (exists e, snd (save_all l d) = d ++ e) /\
  (Forall wf l -> mapM (load (hmax l) (snd (save_all l d))) (fst (save_all l d)) = Some l).
Proof.
  induction 1 as [|c cs Hc Hcs IH]; intros d.
  - simpl. split; [exists []; rewrite app_nil_r; reflexivity | reflexivity].
  - simpl. destruct (save c d) as [i d1] eqn:Es.
    destruct (save_all cs d1) as [is d2] eqn:Ea. simpl.
    destruct (Hc d) as [[e1 He1] Hl1]. rewrite Es in He1, Hl1. simpl in He1, Hl1.
    destruct (IH d1) as [[e2 He2] Hl2]. rewrite Ea in He2, Hl2. simpl in He2, Hl2.
    split.
    + exists (e1 ++ e2). rewrite He2, He1, app_assoc. reflexivity.
    + intros W. pose proof (Forall_inv W) as W1. pose proof (Forall_inv_tail W) as W2.
      assert (L1 : load (Nat.max (height c) (hmax cs)) d2 i = Some c).
      { apply (load_fuel_le (height c)); [lia|]. rewrite He2. apply load_app. apply Hl1. exact W1. }
      change (hmax (c :: cs)) with (Nat.max (height c) (hmax cs)).
      rewrite L1.
      assert (L2 : mapM (load (Nat.max (height c) (hmax cs)) d2) is = Some cs).
      { apply (mapM_impl (load (hmax cs) d2)); [|apply Hl2; exact W2].
        intros x y _ Hx. apply (load_fuel_le (hmax cs)); [lia | exact Hx]. }
      rewrite L2. reflexivity.
Qed.

Lemma row_last (d : tdb) r : row_of (d ++ [r]) (S (length d)) = Some r.
Proof. simpl. rewrite nth_error_app2 by lia. rewrite Nat.sub_diag. reflexivity. Qed.

Lemma all_good : forall t, good t.
Proof.
  apply ptok_ind'.
  - intros c tag v rc d. simpl. split; [eexists; reflexivity|].
    intros W. rewrite nth_error_app2 by lia. rewrite Nat.sub_diag. simpl. rewrite W. reflexivity.
  - intros tag l Hl d. rewrite save_list.
    destruct (save_all_good l Hl d) as [[e He] Hm].
    destruct (save_all l d) as [ids d'] eqn:Ea. simpl in He, Hm. simpl fst. simpl snd.
    split; [exists (e ++ [mkrow c_list tag (VIds ids) false]); rewrite He, app_assoc; reflexivity|].
    intros W. apply wf_inner in W.
    change (height (PList tag l)) with (S (hmax l)).
    change (load (S (hmax l)) (d' ++ [mkrow c_list tag (VIds ids) false]) (S (length d')))
      with (match row_of (d' ++ [mkrow c_list tag (VIds ids) false]) (S (length d')) with
            | None => None
            | Some r =>
                match r_val r with
                | VJson v => if reserved (r_type r) then None else Some (PTok (r_type r) (r_tag r) v (r_rec r))
                | VIds ids0 => if String.eqb (r_type r) c_list
                               then option_map (PList (r_tag r))
                                      (mapM (load (hmax l) (d' ++ [mkrow c_list tag (VIds ids) false])) ids0) else None
                | VMap keys ids0 => if String.eqb (r_type r) c_obj
                                    then option_map (PObj (r_tag r) keys)
                                           (mapM (load (hmax l) (d' ++ [mkrow c_list tag (VIds ids) false])) ids0) else None
                | VStatus z => if String.eqb (r_type r) c_term then Some (PTerm z) else None
                | VNull => if String.eqb (r_type r) c_iter then Some (PIter (r_tag r)) else None
                | VJob jn jw jd keys1 ids0 => if String.eqb (r_type r) c_job
                    then option_map (PJob (r_tag r) (r_rec r) jn jw jd keys1) (mapM (load (hmax l) (d' ++ [mkrow c_list tag (VIds ids) false])) ids0) else None
                end
            end).
    rewrite row_last. cbn [r_val r_type r_tag]. rewrite String.eqb_refl.
    rewrite (mapM_impl (load (hmax l) d') _ ids l (fun x y _ Hx => load_app _ _ _ _ _ Hx) (Hm W)). reflexivity.
  - intros tag keys l Hl d. rewrite save_obj.
    destruct (save_all_good l Hl d) as [[e He] Hm].
    destruct (save_all l d) as [ids d'] eqn:Ea. simpl in He, Hm. simpl fst. simpl snd.
    split; [exists (e ++ [mkrow c_obj tag (VMap keys ids) false]); rewrite He, app_assoc; reflexivity|].
    intros W. destruct W as [_ W]. apply wf_inner in W.
    change (height (PObj tag keys l)) with (S (hmax l)).
    change (load (S (hmax l)) (d' ++ [mkrow c_obj tag (VMap keys ids) false]) (S (length d')))
      with (match row_of (d' ++ [mkrow c_obj tag (VMap keys ids) false]) (S (length d')) with
            | None => None
            | Some r =>
                match r_val r with
                | VJson v => if reserved (r_type r) then None else Some (PTok (r_type r) (r_tag r) v (r_rec r))
                | VIds ids0 => if String.eqb (r_type r) c_list
                               then option_map (PList (r_tag r))
                                      (mapM (load (hmax l) (d' ++ [mkrow c_obj tag (VMap keys ids) false])) ids0) else None
                | VMap keys0 ids0 => if String.eqb (r_type r) c_obj
                                    then option_map (PObj (r_tag r) keys0)
                                           (mapM (load (hmax l) (d' ++ [mkrow c_obj tag (VMap keys ids) false])) ids0) else None
                | VStatus z => if String.eqb (r_type r) c_term then Some (PTerm z) else None
                | VNull => if String.eqb (r_type r) c_iter then Some (PIter (r_tag r)) else None
                | VJob jn jw jd keys1 ids0 => if String.eqb (r_type r) c_job
                    then option_map (PJob (r_tag r) (r_rec r) jn jw jd keys1) (mapM (load (hmax l) (d' ++ [mkrow c_obj tag (VMap keys ids) false])) ids0) else None
                end
            end).
    rewrite row_last. cbn [r_val r_type r_tag]. rewrite String.eqb_refl.
    rewrite (mapM_impl (load (hmax l) d') _ ids l (fun x y _ Hx => load_app _ _ _ _ _ Hx) (Hm W)). reflexivity.
  - intros z d. simpl. split; [eexists; reflexivity|].
    intros _. rewrite nth_error_app2 by lia. rewrite Nat.sub_diag. reflexivity.
  - intros tag d. simpl. split; [eexists; reflexivity|].
    intros _. rewrite nth_error_app2 by lia. rewrite Nat.sub_diag. reflexivity.
  - intros tag rc jn0 jw0 jd0 keys l Hl d. rewrite save_job.
    destruct (save_all_good l Hl d) as [[e He] Hm].
    destruct (save_all l d) as [ids d'] eqn:Ea. simpl in He, Hm. simpl fst. simpl snd.
    split; [exists (e ++ [mkrow c_job tag (VJob jn0 jw0 jd0 keys ids) rc]); rewrite He, app_assoc; reflexivity|].
    intros W. destruct W as [_ W]. apply wf_inner in W.
    change (height (PJob tag rc jn0 jw0 jd0 keys l)) with (S (hmax l)).
    change (load (S (hmax l)) (d' ++ [mkrow c_job tag (VJob jn0 jw0 jd0 keys ids) rc]) (S (length d')))
      with (match row_of (d' ++ [mkrow c_job tag (VJob jn0 jw0 jd0 keys ids) rc]) (S (length d')) with
            | None => None
            | Some r =>
                match r_val r with
                | VJson v => if reserved (r_type r) then None else Some (PTok (r_type r) (r_tag r) v (r_rec r))
                | VIds ids0 => if String.eqb (r_type r) c_list
                               then option_map (PList (r_tag r))
                                      (mapM (load (hmax l) (d' ++ [mkrow c_job tag (VJob jn0 jw0 jd0 keys ids) rc])) ids0) else None
                | VMap keys0 ids0 => if String.eqb (r_type r) c_obj
                                    then option_map (PObj (r_tag r) keys0)
                                           (mapM (load (hmax l) (d' ++ [mkrow c_job tag (VJob jn0 jw0 jd0 keys ids) rc])) ids0) else None
                | VStatus z => if String.eqb (r_type r) c_term then Some (PTerm z) else None
                | VNull => if String.eqb (r_type r) c_iter then Some (PIter (r_tag r)) else None
                | VJob jn jw jd keys1 ids0 => if String.eqb (r_type r) c_job
                    then option_map (PJob (r_tag r) (r_rec r) jn jw jd keys1) (mapM (load (hmax l) (d' ++ [mkrow c_job tag (VJob jn0 jw0 jd0 keys ids) rc])) ids0) else None
                end
            end).
    rewrite row_last. cbn [r_val r_type r_tag]. rewrite String.eqb_refl.
    rewrite (mapM_impl (load (hmax l) d') _ ids l (fun x y _ Hx => load_app _ _ _ _ _ Hx) (Hm W)). reflexivity.
Qed.

Theorem token_roundtrip t d :
  wf t -> load (height t) (snd (save t d)) (fst (save t d)) = Some t.
Proof. intros W. apply (all_good t d). exact W. Qed.

(* rows already in the database are never touched by a save *)
Theorem save_appends t d : exists e, snd (save t d) = d ++ e.
Proof. apply (all_good t d). Qed.

Theorem save_keeps_loaded t d f id u : load f d id = Some u -> load f (snd (save t d)) id = Some u.
Proof. intros H. destruct (save_appends t d) as [e ->]. apply load_app. exact H. Qed.

(* ------------------------------------------------------------------ independence of loaded copies
   Every load builds its objects from rows handed out by the cached getters (DbCache/Model.v).  With deep-copy
   post-processing a caller changing one handed-out row changes no other handed-out row and no cached cell. *)
From SF Require Import DbCache.Proofs.

Lemma nth_error_lset_other {A} (l : list A) h j x : j <> h -> nth_error (lset h x l) j = nth_error l j.
Proof.
  revert h j. induction l as [|y l IH]; intros h j Hn; [destruct h; reflexivity|].
  destruct h, j; simpl; try reflexivity; [contradiction | apply IH; congruence].
Qed.

Lemma mutate_handles_other s h p m j :
  j <> h -> nth_error (handles (fst (mutate s h p m))) j = nth_error (handles s) j.
Proof.
  intros Hn. unfold mutate. destruct (nth_error (handles s) h) as [hd|]; [|reflexivity].
  destruct p as [|[c|i] p']; try reflexivity.
  destruct p' as [|e p'']; destruct m as [v|v|]; simpl;
    repeat match goal with
           | |- context [match ?x with _ => _ end] => destruct x; simpl
           end; try reflexivity; apply nth_error_lset_other; exact Hn.
Qed.

Theorem deep_rows_independent s h p m :
  deep_handles s ->
  let s' := fst (mutate s h p m) in
  db s' = db s /\ cache s' = cache s /\ cells s' = cells s /\
  forall j hj, j <> h -> nth_error (handles s) j = Some hj ->
    nth_error (handles s') j = Some hj /\ resolve (cells s') hj = resolve (cells s) hj.
Proof.
  intros D. destruct (mutate_deep s h p m D) as [H1 [H2 [H3 _]]].
  cbv zeta. repeat split; auto.
  - rewrite mutate_handles_other by assumption. assumption.
  - rewrite H3. reflexivity.
Qed.

(* before the fix: two reads of one row share their nested objects *)
Definition shared_witness : list op :=
  [Add TStep [("name", JStr "s"); ("workflow", JNum 1); ("status", JNum 0);
              ("type", JStr "streamflow.workflow.step.CombinatorStep");
              ("params", JObj [("items", JArr [JStr "a"])])];
   Get TStep false 1%N; Get TStep false 1%N;
   Mutate 0 [PKey "params"; PKey "items"] (MAppend (JStr "b"))].

Lemma shared_witness_differs :
  let s := fst (run Shallow init shared_witness) in
  let s0 := fst (run Shallow init (firstn 3 shared_witness)) in
  map (resolve (cells s)) (skipn 1 (handles s)) <> map (resolve (cells s0)) (skipn 1 (handles s0)).
Proof. vm_compute. intros H. inversion H. Qed.

Lemma shared_witness_deep_ok :
  let s := fst (run Deep init shared_witness) in
  let s0 := fst (run Deep init (firstn 3 shared_witness)) in
  map (resolve (cells s)) (skipn 1 (handles s)) = map (resolve (cells s0)) (skipn 1 (handles s0)).
Proof. vm_compute. reflexivity. Qed.
