(* Persist/WfProofs.v — load_wf (save_wf w d) = w for every well-formed workflow on every consistent database. *)
From Coq Require Import List Bool NArith ZArith Arith Lia.
From SF Require Import Base.Str DbCache.Model Persist.Model Persist.Proofs Persist.CfgModel Persist.CfgProofs Persist.TreeModel Persist.TreeProofs Persist.WfModel.
Import ListNotations.
Local Open Scope string_scope. Local Open Scope list_scope.

(* ------------------------------------------------------------------ combinator trees *)
Section PcombInd.
  Variable P : pcomb -> Prop.
  Hypothesis H : forall cls n it cm ks subs, Forall P subs -> P (PComb cls n it cm ks subs).
  Fixpoint pcomb_ind' (c : pcomb) : P c :=
    match c with
    | PComb cls n it cm ks subs =>
        H cls n it cm ks subs
          ((fix go (l : list pcomb) : Forall P l :=
              match l with [] => Forall_nil P | x :: r => Forall_cons x (pcomb_ind' x) (go r) end) subs)
    end.
End PcombInd.

Definition load_combs (wid : nat) : list dcomb -> option (list pcomb) :=
  fix go (l : list dcomb) : option (list pcomb) :=
    match l with
    | [] => Some []
    | x :: r => match load_comb wid x with
                | None => None
                | Some y => match go r with None => None | Some ys => Some (y :: ys) end
                end
    end.

Lemma load_comb_eq wid cls n w it cm ks subs :
  load_comb wid (DComb cls n w it cm ks subs) =
  if Nat.eqb w wid then option_map (PComb cls n it cm ks) (load_combs wid subs) else None.
Proof. reflexivity. Qed.

Lemma comb_roundtrip wid : forall c, load_comb wid (save_comb wid c) = Some c.
Proof.
  apply pcomb_ind'. intros cls n it cm ks subs Hs.
  change (save_comb wid (PComb cls n it cm ks subs)) with (DComb cls n wid it cm ks (map (save_comb wid) subs)).
  rewrite load_comb_eq, Nat.eqb_refl.
  assert (E : load_combs wid (map (save_comb wid) subs) = Some subs).
  { induction Hs as [|x r Hx Hr IH]; [reflexivity|]. simpl. simpl in IH. rewrite Hx, IH. reflexivity. }
  rewrite E. reflexivity.
Qed.

(* ------------------------------------------------------------------ lists *)
Lemma mem_In n l : mem n l = true <-> In n l.
Proof.
  induction l as [|x r IH]; simpl; [split; [discriminate | tauto]|].
  rewrite orb_true_iff, IH, String.eqb_eq. split; intros [A|A]; auto.
Qed.

Lemma nodupb_NoDup l : nodupb l = true -> NoDup l.
Proof.
  induction l as [|x r IH]; simpl; intros Hn; [constructor|].
  apply andb_true_iff in Hn. destruct Hn as [H1 H2]. constructor; [|apply IH; exact H2].
  intros Hin. apply mem_In in Hin. rewrite Hin in H1. discriminate.
Qed.

Lemma index_of_nth n l i : index_of n l = Some i -> nth_error l i = Some n.
Proof.
  revert i. induction l as [|x r IH]; simpl; intros i Hi; [discriminate|].
  destruct (String.eqb n x) eqn:E.
  - inversion Hi. subst. apply String.eqb_eq in E. subst. reflexivity.
  - destruct (index_of n r) as [j|]; [|discriminate]. inversion Hi. subst. simpl. apply IH. reflexivity.
Qed.

Lemma index_of_mem n l : mem n l = true -> exists i, index_of n l = Some i.
Proof.
  induction l as [|x r IH]; simpl; [discriminate|]. intros Hm.
  destruct (String.eqb n x); [eexists; reflexivity|].
  simpl in Hm. destruct (IH Hm) as [i Hi]. rewrite Hi. eexists; reflexivity.
Qed.

Lemma alookup_In_snd {V} k (l : list (string * V)) v : alookup k l = Some v -> In v (map snd l).
Proof.
  induction l as [|[k' v'] l IH]; simpl; [discriminate|].
  destruct (String.eqb k k'); [intros E; inversion E; left; reflexivity | intros E; right; apply IH; exact E].
Qed.

Lemma filter_none {A} (f : A -> bool) l : (forall x, In x l -> f x = false) -> filter f l = [].
Proof.
  induction l as [|x r IH]; simpl; intros Hf; [reflexivity|].
  rewrite (Hf x (or_introl eq_refl)). apply IH. intros y Hy. apply Hf. right. exact Hy.
Qed.

Lemma filter_all {A} (f : A -> bool) l : (forall x, In x l -> f x = true) -> filter f l = l.
Proof.
  induction l as [|x r IH]; simpl; intros Hf; [reflexivity|].
  rewrite (Hf x (or_introl eq_refl)). f_equal. apply IH. intros y Hy. apply Hf. right. exact Hy.
Qed.

Lemma with_ids_app {A} (l1 l2 : list A) b : with_ids b (l1 ++ l2) = with_ids b l1 ++ with_ids (b + length l1) l2.
Proof.
  revert b. induction l1 as [|x r IH]; intros b; simpl; [rewrite Nat.add_0_r; reflexivity|].
  rewrite IH. replace (b + S (length r)) with (S b + length r) by lia. reflexivity.
Qed.

Lemma with_ids_snd {A} (l : list A) b ix : In ix (with_ids b l) -> In (snd ix) l.
Proof.
  revert b. induction l as [|x r IH]; intros b; simpl; [tauto|].
  intros [E|Hin]; [subst; left; reflexivity | right; eapply IH; exact Hin].
Qed.

Lemma row_at_last {A} (l : list A) x : row_at (l ++ [x]) (S (length l)) = Some x.
Proof. simpl. rewrite nth_error_app2 by lia. rewrite Nat.sub_diag. reflexivity. Qed.

Lemma existsb_false {A} (f : A -> bool) l : (forall x, In x l -> f x = false) -> existsb f l = false.
Proof.
  intros Hf. destruct (existsb f l) eqn:E; [|reflexivity].
  apply existsb_exists in E. destruct E as [x [Hin Hx]]. rewrite (Hf x Hin) in Hx. discriminate.
Qed.

(* ------------------------------------------------------------------ INSERT OR IGNORE without conflicts appends *)
Lemma insert_fresh sid : forall rs t0 acc,
  (forall r, In r t0 -> d_step r <> sid) ->
  (forall r, In r (acc ++ rs) -> d_step r = sid) ->
  NoDup (map d_port (acc ++ rs)) ->
  fold_left dep_insert rs (t0 ++ acc) = t0 ++ acc ++ rs.
Proof.
  induction rs as [|a rs IH]; intros t0 acc H0 Hs Hn; simpl; [rewrite app_nil_r; reflexivity|].
  assert (Ha : d_step a = sid) by (apply Hs; apply in_or_app; right; left; reflexivity).
  unfold dep_insert at 2.
  rewrite existsb_false.
  - rewrite <- app_assoc.
    replace (acc ++ a :: rs) with ((acc ++ [a]) ++ rs) by (rewrite <- app_assoc; reflexivity).
    apply IH; [exact H0 | |]; rewrite <- app_assoc; simpl; assumption.
  - intros r' Hin. apply in_app_or in Hin. destruct Hin as [Hin|Hin].
    + rewrite Ha. destruct (Nat.eqb (d_step r') sid) eqn:E; [|reflexivity].
      apply Nat.eqb_eq in E. exfalso. exact (H0 r' Hin E).
    + destruct (Nat.eqb (d_port r') (d_port a)) eqn:E; [|apply andb_false_r].
      apply Nat.eqb_eq in E. exfalso.
      rewrite map_app in Hn. simpl in Hn. apply NoDup_remove_2 in Hn. apply Hn.
      apply in_or_app. left. rewrite <- E. apply in_map. exact Hin.
Qed.

Lemma insert_fresh0 sid rs t0 :
  (forall r, In r t0 -> d_step r <> sid) -> (forall r, In r rs -> d_step r = sid) -> NoDup (map d_port rs) ->
  fold_left dep_insert rs t0 = t0 ++ rs.
Proof.
  intros H0 Hs Hn. pose proof (insert_fresh sid rs t0 [] H0 Hs Hn) as E. rewrite app_nil_r in E. exact E.
Qed.

(* ------------------------------------------------------------------ one workflow being saved *)
Section OneWorkflow.
  Variable tpold : list prow.
  Variable ports : list pport.
  Variable wid : nat.
  Let names := map p_name ports.
  Let P0 := length tpold.
  Let tp := tpold ++ map (fun p => mkprow (p_name p) wid (p_cls p)) ports.
  Let pidf := port_id P0 ports.
  Hypothesis names_nodup : NoDup names.

  Definition pidn (pn : string) : nat := S (P0 + match index_of pn names with Some i => i | None => O end).

  Lemma pidf_mem pn : mem pn names = true -> pidf pn = Some (pidn pn).
  Proof.
    intros Hm. unfold pidf, port_id, pidn. fold names. destruct (index_of_mem pn names Hm) as [i Hi]. rewrite Hi.
    reflexivity.
  Qed.

  Lemma pidn_inj a b : mem a names = true -> mem b names = true -> pidn a = pidn b -> a = b.
  Proof.
    intros Ha Hb E. unfold pidn in E.
    destruct (index_of_mem a names Ha) as [i Hi]. destruct (index_of_mem b names Hb) as [j Hj].
    rewrite Hi, Hj in E. assert (i = j) by lia. subst j.
    apply index_of_nth in Hi. apply index_of_nth in Hj. rewrite Hi in Hj. inversion Hj. reflexivity.
  Qed.

  Lemma port_row_name pn : mem pn names = true -> exists p, row_at tp (pidn pn) = Some p /\ pr_name p = pn.
  Proof.
    intros Hm. destruct (index_of_mem pn names Hm) as [i Hi]. unfold pidn. rewrite Hi.
    apply index_of_nth in Hi. unfold names in Hi. rewrite nth_error_map in Hi.
    destruct (nth_error ports i) as [p|] eqn:Ep; [|discriminate]. simpl in Hi. inversion Hi as [Hn].
    exists (mkprow (p_name p) wid (p_cls p)). split; [|reflexivity].
    simpl. unfold tp. rewrite nth_error_app2 by (unfold P0; lia).
    replace (P0 + i - length tpold) with i by (unfold P0; lia).
    rewrite nth_error_map, Ep. reflexivity.
  Qed.

  Opaque pidn.

  Definition mkdeps (sid : nat) (b : bool) (l : list (string * string)) : list drow :=
    map (fun np => mkdrow sid (pidn (snd np)) b (fst np)) l.

  Lemma dep_rows_ok sid b l :
    forallb (fun pn => mem pn names) (map snd l) = true -> dep_rows pidf sid b l = Some (mkdeps sid b l).
  Proof.
    unfold dep_rows, mkdeps. induction l as [|[n pn] l IH]; simpl; intros Hm; [reflexivity|].
    apply andb_true_iff in Hm. destruct Hm as [H1 H2]. rewrite (pidf_mem pn H1). simpl. rewrite (IH H2). reflexivity.
  Qed.

  Lemma mkdeps_ports sid b l : map d_port (mkdeps sid b l) = map pidn (map snd l).
  Proof. unfold mkdeps. rewrite !map_map. reflexivity. Qed.

  Lemma NoDup_pidn l : (forall x, In x l -> mem x names = true) -> NoDup l -> NoDup (map pidn l).
  Proof.
    induction l as [|x r IH]; simpl; intros Hm Hn; [constructor|].
    inversion Hn as [|? ? Hx Hr]; subst. constructor.
    - intros Hin. apply in_map_iff in Hin. destruct Hin as [y [Ey Hy]].
      apply pidn_inj in Ey; [subst; contradiction | apply Hm; right; exact Hy | apply Hm; left; reflexivity].
    - apply IH; [intros y Hy; apply Hm; right; exact Hy | exact Hr].
  Qed.

  Lemma load_back sid b l :
    (forall x, In x (map snd l) -> mem x names = true) ->
    mapM (fun r => option_map (fun p => (d_name r, pr_name p)) (row_at tp (d_port r))) (mkdeps sid b l) = Some l.
  Proof.
    unfold mkdeps. induction l as [|[n pn] l IH]; simpl; intros Hm; [reflexivity|].
    destruct (port_row_name pn (Hm pn (or_introl eq_refl))) as [p [Hp Hn]].
    change (d_port (mkdrow sid (pidn pn) b n)) with (pidn pn). rewrite Hp. simpl.
    rewrite IH by (intros x Hx; apply Hm; right; exact Hx). rewrite Hn. reflexivity.
  Qed.

  Lemma forallb_mem l : forallb (fun pn => mem pn names) l = true -> forall x, In x l -> mem x names = true.
  Proof. intros Hf x Hx. rewrite forallb_forall in Hf. apply Hf. exact Hx. Qed.

  Lemma In_filter_snd (f : string * string -> bool) l x : In x (map snd (filter f l)) -> In x (map snd l).
  Proof.
    intros H. apply in_map_iff in H. destruct H as [np [E Hin]]. apply filter_In in Hin. destruct Hin as [Hin _].
    apply in_map_iff. exists np. auto.
  Qed.

  Definition conn_rows (l : list (string * string)) : list (string * nat) :=
    map (fun np => (fst np, pidn (snd np))) (filter is_connector l).

  Lemma conn_ids_ok l : (forall x, In x (map snd l) -> mem x names = true) -> conn_ids pidf l = Some (conn_rows l).
  Proof.
    intros Hm. unfold conn_ids, conn_rows.
    assert (Hf : forall x, In x (map snd (filter is_connector l)) -> mem x names = true)
      by (intros x Hx; apply Hm; eapply In_filter_snd; exact Hx).
    induction (filter is_connector l) as [|[n pn] r IH]; simpl; [reflexivity|].
    rewrite (pidf_mem pn (Hf pn (or_introl eq_refl))). simpl.
    rewrite IH by (intros x Hx; apply Hf; right; exact Hx). reflexivity.
  Qed.

  Lemma conn_rows_exist l : (forall x, In x (map snd l) -> mem x names = true) ->
    forallb (fun cp => match row_at tp (snd cp) with Some _ => true | None => false end) (conn_rows l) = true.
  Proof.
    intros Hm. unfold conn_rows.
    assert (Hf : forall x, In x (map snd (filter is_connector l)) -> mem x names = true)
      by (intros x Hx; apply Hm; eapply In_filter_snd; exact Hx).
    induction (filter is_connector l) as [|[n pn] r IH]; simpl; [reflexivity|].
    destruct (port_row_name pn (Hf pn (or_introl eq_refl))) as [p [Hp _]].
    change (snd (n, pidn pn)) with (pidn pn). rewrite Hp. simpl.
    apply IH. intros x Hx. apply Hf. right. exact Hx.
  Qed.

  Definition step_deps (sid : nat) (s : pstep) : list drow := mkdeps sid true (s_in s) ++ mkdeps sid false (s_out s).

  Lemma step_deps_step sid s r : In r (step_deps sid s) -> d_step r = sid.
  Proof.
    unfold step_deps, mkdeps. intros Hin. apply in_app_or in Hin.
    destruct Hin as [Hin|Hin]; apply in_map_iff in Hin; destruct Hin as [x [E _]]; subst; reflexivity.
  Qed.

  Lemma filter_step_deps sid s b :
    filter (fun r => Nat.eqb (d_step r) sid && Bool.eqb (d_in r) b) (step_deps sid s) =
    if b then mkdeps sid true (s_in s) else mkdeps sid false (s_out s).
  Proof.
    unfold step_deps. rewrite filter_app.
    assert (A : forall b' l, filter (fun r => Nat.eqb (d_step r) sid && Bool.eqb (d_in r) b) (mkdeps sid b' l) =
                             if Bool.eqb b' b then mkdeps sid b' l else []).
    { intros b' l. destruct (Bool.eqb b' b) eqn:E.
      - apply filter_all. intros r Hin. apply in_map_iff in Hin. destruct Hin as [x [Ex _]]. subst r. simpl.
        rewrite Nat.eqb_refl, E. reflexivity.
      - apply filter_none. intros r Hin. apply in_map_iff in Hin. destruct Hin as [x [Ex _]]. subst r. simpl.
        rewrite Nat.eqb_refl, E. reflexivity. }
    rewrite !A. destruct b; simpl; [rewrite app_nil_r|]; reflexivity.
  Qed.

  (* the inductive statement over the steps still to be saved *)
  Lemma save_steps_ok : forall steps ts td cfg,
    forallb (ok_step names) steps = true ->
    (forall r, In r td -> d_step r <= length ts) ->
    exists R Dd cfgR,
      save_steps pidf wid steps ts td cfg = Some (ts ++ R, td ++ Dd, cfgR) /\
      cext cfg cfgR /\
      (forall r, In r R -> sr_wf r = wid) /\
      (forall r, In r Dd -> length ts < d_step r <= length ts + length steps) /\
      (forall X Y cfgF, cext cfgR cfgF ->
         (forall r, In r X -> d_step r <= length ts) ->
         (forall r, In r Y -> ~ (length ts < d_step r <= length ts + length steps)) ->
         mapM (load_step tp (X ++ Dd ++ Y) cfgF wid) (with_ids (length ts) R) = Some steps).
  Proof.
    induction steps as [|s rest IH]; intros ts td cfg Hok Htd.
    - exists [], [], cfg. simpl. rewrite !app_nil_r. split; [reflexivity|]. split; [apply cext_refl|].
      split; [intros r []|]. split; [intros r []|]. intros X Y cfgF _ _ _. reflexivity.
    - simpl in Hok. apply andb_true_iff in Hok. destruct Hok as [Hs Hrest].
      unfold ok_step in Hs. repeat rewrite andb_true_iff in Hs. destruct Hs as [[[[Hnd Hmem] _] _] Hkind].
      rewrite map_app in Hnd, Hmem. rewrite forallb_app in Hmem. apply andb_true_iff in Hmem. destruct Hmem as [Hmi Hmo].
      set (sid := S (length ts)).
      set (Ds := step_deps sid s).
      (* the parameters of the step row *)
      assert (Hp : exists dp cfg1, step_params pidf wid s cfg = Some (dp, cfg1) /\ cext cfg cfg1 /\
                   forall cfgF, cext cfg1 cfgF -> load_kind tp cfgF wid dp = Some (s_kind s)).
      { unfold step_params. destruct (s_kind s) as [|dp|lp c|cls|cls|conns pkeys procs cmd|dc|b prefix dirs] eqn:Ek.
        - destruct (alookup "__size__" (s_out s)) as [pn|] eqn:El; [|discriminate].
          assert (Hm : mem pn names = true) by (apply (forallb_mem _ Hmo); apply (alookup_In_snd _ _ _ El)).
          rewrite (pidf_mem pn Hm). eexists _, cfg. split; [reflexivity|]. split; [apply cext_refl|]. intros cfgF _. simpl.
          destruct (port_row_name pn Hm) as [p [Hp' _]]. rewrite Hp'. reflexivity.
        - destruct (alookup "__size__" (s_in s)) as [pn|] eqn:El; [|discriminate].
          assert (Hm : mem pn names = true) by (apply (forallb_mem _ Hmi); apply (alookup_In_snd _ _ _ El)).
          rewrite (pidf_mem pn Hm). eexists _, cfg. split; [reflexivity|]. split; [apply cext_refl|]. intros cfgF _. simpl.
          destruct (port_row_name pn Hm) as [p [Hp' _]]. rewrite Hp'. reflexivity.
        - eexists _, cfg. split; [reflexivity|]. split; [apply cext_refl|]. intros cfgF _. simpl.
          rewrite comb_roundtrip. reflexivity.
        - eexists _, cfg. split; [reflexivity|]. split; [apply cext_refl|]. intros cfgF _. reflexivity.
        - destruct (alookup "__job__" (s_in s)) as [pn|] eqn:El; [|discriminate].
          assert (Hm : mem pn names = true) by (apply (forallb_mem _ Hmi); apply (alookup_In_snd _ _ _ El)).
          rewrite (pidf_mem pn Hm). eexists _, cfg. split; [reflexivity|]. split; [apply cext_refl|]. intros cfgF _. simpl.
          destruct (port_row_name pn Hm) as [p [Hp' _]]. rewrite Hp'. reflexivity.
        - destruct (alookup "__job__" (s_in s)) as [pn|] eqn:El; [|discriminate].
          assert (Hm : mem pn names = true) by (apply (forallb_mem _ Hmi); apply (alookup_In_snd _ _ _ El)).
          rewrite (pidf_mem pn Hm). eexists _, cfg. split; [reflexivity|]. split; [apply cext_refl|]. intros cfgF _. simpl.
          destruct (port_row_name pn Hm) as [p [Hp' _]]. rewrite Hp'.
          rewrite trees_roundtrip. destruct cmd as [c0|]; simpl; [rewrite tree_roundtrip|]; reflexivity.
        - destruct (alookup (dp_name dc) (s_out s)) as [pn|] eqn:El; [|discriminate].
          assert (Hm : mem pn names = true) by (apply (forallb_mem _ Hmo); apply (alookup_In_snd _ _ _ El)).
          rewrite (pidf_mem pn Hm). eexists _, _. split; [reflexivity|]. split; [apply save_deploy_ext|].
          intros cfgF E. cbn [load_kind].
          rewrite (load_deploy_ext _ _ _ _ E (deploy_roundtrip dc cfg)).
          destruct (port_row_name pn Hm) as [p [Hp' _]]. rewrite Hp'. reflexivity.
        - destruct (alookup "__job__" (s_out s)) as [pn|] eqn:El; [|discriminate].
          assert (Hm : mem pn names = true) by (apply (forallb_mem _ Hmo); apply (alookup_In_snd _ _ _ El)).
          rewrite (conn_ids_ok (s_in s) (forallb_mem _ Hmi)), (pidf_mem pn Hm).
          eexists _, _. split; [reflexivity|]. split; [apply (proj2 (binding_roundtrip b cfg))|].
          intros cfgF E. cbn [load_kind].
          rewrite <- (surjective_pairing (fst (save_binding b cfg))).
          rewrite (load_binding_ext _ _ _ _ E (proj1 (binding_roundtrip b cfg))).
          destruct (port_row_name pn Hm) as [p [Hp' _]]. rewrite Hp'.
          rewrite (conn_rows_exist (s_in s) (forallb_mem _ Hmi)). reflexivity. }
      destruct Hp as [dp [cfg1 [Hdp [Hc1 Hlk]]]].
      (* its dependency rows go in without conflict *)
      assert (Hins : fold_left dep_insert (mkdeps sid true (s_in s) ++ mkdeps sid false (s_out s)) td = td ++ Ds).
      { apply (insert_fresh0 sid).
        - intros r Hr E. apply Htd in Hr. unfold sid in E. lia.
        - intros r Hr. apply (step_deps_step sid s). exact Hr.
        - unfold Ds, step_deps. rewrite map_app, !mkdeps_ports, <- map_app. apply NoDup_pidn.
          + intros x Hx. apply in_app_or in Hx. destruct Hx; [apply (forallb_mem _ Hmi) | apply (forallb_mem _ Hmo)]; assumption.
          + apply nodupb_NoDup. exact Hnd. }
      set (row := mksrow (s_name s) wid (s_status s) dp).
      assert (Hlen : length (ts ++ [row]) = S (length ts)) by (rewrite app_length; simpl; lia).
      destruct (IH (ts ++ [row]) (td ++ Ds) cfg1 Hrest) as [R' [Dd' [cfgR [Hsave [HcR [Hwf [Hrange Hload]]]]]]].
      { intros r Hr. rewrite Hlen. apply in_app_or in Hr. destruct Hr as [Hr|Hr].
        - apply Htd in Hr. lia.
        - apply (step_deps_step sid s) in Hr. unfold sid in Hr. lia. }
      exists (row :: R'), (Ds ++ Dd'), cfgR. split; [|split; [exact (cext_trans _ _ _ Hc1 HcR)|split; [|split]]].
      + simpl. rewrite Hdp, (dep_rows_ok _ _ _ Hmi), (dep_rows_ok _ _ _ Hmo).
        fold sid. rewrite Hins. unfold row in Hsave |- *. rewrite Hsave. rewrite <- !app_assoc. reflexivity.
      + intros r [E|Hr]; [subst; reflexivity | apply Hwf; exact Hr].
      + intros r Hr. simpl. apply in_app_or in Hr. destruct Hr as [Hr|Hr].
        * apply (step_deps_step sid s) in Hr. unfold sid in Hr. lia.
        * apply Hrange in Hr. rewrite Hlen in Hr. lia.
      + intros X Y cfgF HcF HX HY. simpl with_ids.
        (* the step just saved *)
        assert (Hf : forall b, filter (fun r => Nat.eqb (d_step r) sid && Bool.eqb (d_in r) b) (X ++ (Ds ++ Dd') ++ Y) =
                               if b then mkdeps sid true (s_in s) else mkdeps sid false (s_out s)).
        { intros b. rewrite !filter_app.
          rewrite (filter_none _ X), (filter_none _ Dd'), (filter_none _ Y).
          - simpl. rewrite !app_nil_r. apply filter_step_deps.
          - intros r Hr. destruct (Nat.eqb (d_step r) sid) eqn:E; [|reflexivity].
            apply Nat.eqb_eq in E. exfalso. apply (HY r Hr). unfold sid in E. simpl. lia.
          - intros r Hr. apply Hrange in Hr. rewrite Hlen in Hr.
            destruct (Nat.eqb (d_step r) sid) eqn:E; [|reflexivity]. apply Nat.eqb_eq in E. unfold sid in E. lia.
          - intros r Hr. apply HX in Hr.
            destruct (Nat.eqb (d_step r) sid) eqn:E; [|reflexivity]. apply Nat.eqb_eq in E. unfold sid in E. lia. }
        assert (H1 : load_step tp (X ++ (Ds ++ Dd') ++ Y) cfgF wid (S (length ts), row) = Some s).
        { unfold load_step. simpl fst. simpl snd. unfold row at 1. simpl sr_params. rewrite (Hlk cfgF (cext_trans _ _ _ HcR HcF)).
          unfold load_deps. fold sid. rewrite (Hf true), (Hf false).
          rewrite (load_back sid true (s_in s) (forallb_mem _ Hmi)), (load_back sid false (s_out s) (forallb_mem _ Hmo)).
          unfold row. simpl. destruct s; reflexivity. }
        change (mapM (load_step tp (X ++ (Ds ++ Dd') ++ Y) cfgF wid) ((S (length ts), row) :: with_ids (S (length ts)) R'))
          with (match load_step tp (X ++ (Ds ++ Dd') ++ Y) cfgF wid (S (length ts), row) with
                | None => None
                | Some y => match mapM (load_step tp (X ++ (Ds ++ Dd') ++ Y) cfgF wid) (with_ids (S (length ts)) R') with
                            | None => None | Some ys => Some (y :: ys) end
                end).
        rewrite H1.
        replace (X ++ (Ds ++ Dd') ++ Y) with ((X ++ Ds) ++ Dd' ++ Y) by (rewrite <- !app_assoc; reflexivity).
        rewrite <- Hlen. rewrite (Hload _ _ cfgF HcF); [reflexivity | |].
        * intros r Hr. rewrite Hlen. apply in_app_or in Hr. destruct Hr as [Hr|Hr].
          -- apply HX in Hr. lia.
          -- apply (step_deps_step sid s) in Hr. unfold sid in Hr. lia.
        * intros r Hr Hc. apply (HY r Hr). rewrite Hlen in Hc. simpl. lia.
  Qed.

End OneWorkflow.
Transparent pidn.

Lemma ports_back wid (ports : list pport) : forall b,
  map (fun ip => mkport (pr_name (snd ip)) (pr_cls (snd ip)))
      (with_ids b (map (fun p => mkprow (p_name p) wid (p_cls p)) ports)) = ports.
Proof.
  induction ports as [|p r IH]; intros b; simpl; [reflexivity|].
  rewrite IH. destruct p; reflexivity.
Qed.

(* ------------------------------------------------------------------ the round trip *)
Theorem workflow_roundtrip w d :
  ok_db d = true -> ok_wf w = true ->
  exists wid d', save_wf w d = Some (wid, d') /\ load_wf d' wid = Some w /\ wid = S (length (t_wf d)).
Proof.
  intros Hdb Hw. unfold ok_db in Hdb. unfold ok_wf in Hw.
  repeat rewrite andb_true_iff in Hdb. repeat rewrite andb_true_iff in Hw.
  destruct Hdb as [[Hdp Hds] Hdd]. destruct Hw as [[Hnp _] Hsteps].
  set (wid := S (length (t_wf d))).
  assert (Htd : forall r, In r (t_dep d) -> d_step r <= length (t_step d)).
  { intros r Hr. rewrite forallb_forall in Hdd. apply Nat.leb_le. apply Hdd. exact Hr. }
  destruct (save_steps_ok (t_port d) (w_ports w) wid (w_steps w) (t_step d) (t_dep d) (t_cfg d) Hsteps Htd)
    as [R [Dd [cfgR [Hsave [_ [Hwf [_ Hload]]]]]]].
  exists wid. eexists. split; [|split; [|reflexivity]].
  - unfold save_wf. fold wid. rewrite Hsave. reflexivity.
  - unfold load_wf. simpl t_wf. unfold wid at 1. rewrite row_at_last. simpl t_port. simpl t_step. simpl t_dep. simpl t_cfg.
    rewrite !with_ids_app, !filter_app.
    rewrite (filter_none _ (with_ids 0 (t_port d))).
    2:{ intros ix Hin. apply with_ids_snd in Hin. rewrite forallb_forall in Hdp. apply Hdp in Hin.
        apply Nat.leb_le in Hin. apply Nat.eqb_neq. unfold wid. lia. }
    rewrite (filter_none _ (with_ids 0 (t_step d))).
    2:{ intros ix Hin. apply with_ids_snd in Hin. rewrite forallb_forall in Hds. apply Hds in Hin.
        apply Nat.leb_le in Hin. apply Nat.eqb_neq. unfold wid. lia. }
    rewrite (filter_all _ (with_ids (0 + length (t_step d)) R)).
    2:{ intros ix Hin. apply with_ids_snd in Hin. apply Nat.eqb_eq. apply Hwf. exact Hin. }
    rewrite filter_all.
    2:{ intros ix Hin. apply with_ids_snd in Hin. apply in_map_iff in Hin. destruct Hin as [p [E _]]. rewrite <- E.
        simpl. apply Nat.eqb_refl. }
    simpl app. simpl Nat.add. rewrite ports_back.
    specialize (Hload (t_dep d) [] cfgR (cext_refl cfgR) Htd (fun r (Hr : In r []) => match Hr with end)).
    rewrite app_nil_r in Hload. rewrite Hload. simpl. destruct w; reflexivity.
Qed.

Theorem builder_copy_structure w d :
  ok_db d = true -> ok_wf w = true ->
  exists wid d', save_wf w d = Some (wid, d') /\
    builder_copy d' wid =
      Some (mkwf (w_name w) (w_config w) (w_inp w) (w_outp w) (w_ports w)
                 (map (fun s => mkstep (s_name s) (s_kind s) 0%Z (s_in s) (s_out s)) (w_steps w))).
Proof.
  intros Hdb Hw. destruct (workflow_roundtrip w d Hdb Hw) as [wid [d' [Hs [Hl _]]]].
  exists wid, d'. split; [exact Hs|]. unfold builder_copy. rewrite Hl. reflexivity.
Qed.

(* the two known findings, on the model: a step using one port under two names loses one of them *)
Definition twice_witness : pwf :=
  mkwf "wf" JNull [] [] [mkport "port0" "Port"]
       [mkstep "/s" (KComb false (PComb CDot "c0" ["a"] [] [] [])) 0%Z [("a", "port0")] [("o", "port0")]].

Lemma twice_witness_loses :
  ok_db (mkwdb [] [] [] [] (mkcdb [] [] [])) = true /\
  exists d', save_wf twice_witness (mkwdb [] [] [] [] (mkcdb [] [] [])) = Some (1, d') /\
             load_wf d' 1 <> Some twice_witness /\ load_wf d' 1 <> None.
Proof.
  split; [reflexivity|]. eexists. split; [vm_compute; reflexivity|].
  split; vm_compute; intros H; inversion H.
Qed.
