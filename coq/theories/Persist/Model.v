(* Persist/Model.v — saving and loading the token family through the token table.

   ANCHORS:
     streamflow.core.workflow.Token.save / Token.load / Token._load / Token._save_value
     streamflow.workflow.token.ListToken._save_value / ListToken._load
     streamflow.workflow.token.ObjectToken._save_value / ObjectToken._load
     streamflow.workflow.token.TerminationToken._save_value / TerminationToken._load
     streamflow.workflow.token.IterationTerminationToken._load
     streamflow.workflow.token.JobToken._save_value / JobToken._load
     streamflow.core.workflow.Job.save / Job.load / Job._save_additional_params / Job._load
     streamflow.persistence.sqlite.SqliteDatabase.add_token / get_token     (value column = json text; recoverable
                                                                             = membership in table `recoverable`)
     streamflow.persistence.loading_context.DefaultDatabaseLoadingContext.load_token

   What is mirrored:
   * Token.save: one row (type, tag, json(_save_value()), recoverable flag); the persistent id is the row id;
   * ListToken / ObjectToken._save_value first save the inner tokens, then store the list / the key->id map of
     their ids; the container row itself is stored with recoverable = False (the constructor forces it; the
     property `recoverable` is derived from the inner tokens);
   * TerminationToken stores {"status": n} and is rebuilt from it with tag "0"; IterationTerminationToken stores
     null and is rebuilt from its tag;
   * Token.load reads the row, picks the class named in the row and lets it rebuild itself, containers loading
     their inner tokens by id through the loading context.
   Ids are allocated by SQLite (row id = number of rows + 1, nothing is ever deleted).  The order in which the
   asyncio tasks of the inner saves reach the database is not modelled: [save] uses depth-first order, the
   round-trip theorem does not depend on the order, and the correspondence compares row sets up to renaming of
   ids ([rows_match]) and the loader on the rows the real save produced ([load] on observed rows).
   JobToken: the Job (class streamflow.core.workflow.Job: name, workflow id, directories) with its input tokens,
   saved before the job token's own row (Job._save_additional_params).  CWL file tokens and Job subclasses are
   outside this model. *)
From Coq Require Import List Bool NArith ZArith Arith.
From SF Require Import Base.Str DbCache.Model.
Import ListNotations.
Local Open Scope string_scope. Local Open Scope list_scope.

(* the token family as values: what "the same type, tag, value and recoverable flag" is about *)
Inductive ptok :=
| PTok (cls : string) (tag : string) (v : jv) (rc : bool)   (* Token or a subclass that stores a plain JSON value *)
| PList (tag : string) (l : list ptok)
| PObj (tag : string) (keys : list string) (l : list ptok)  (* dict as parallel key / token lists *)
| PTerm (status : Z)
| PIter (tag : string)
| PJob (tag : string) (rc : bool) (name : string) (wfid : Z) (dirs : list jv)   (* JobToken: a Job and its inputs *)
       (keys : list string) (l : list ptok).

Definition c_list := "streamflow.workflow.token.ListToken".
Definition c_obj := "streamflow.workflow.token.ObjectToken".
Definition c_term := "streamflow.workflow.token.TerminationToken".
Definition c_iter := "streamflow.workflow.token.IterationTerminationToken".
Definition c_job := "streamflow.workflow.token.JobToken".
Definition reserved (c : string) : bool :=
  String.eqb c c_list || String.eqb c c_obj || String.eqb c c_term || String.eqb c c_iter || String.eqb c c_job.

(* what a row's value column holds, decoded *)
Inductive tval :=
| VJson (v : jv)                       (* Token *)
| VIds (ids : list nat)                (* ListToken: [id, ...] *)
| VMap (keys : list string) (ids : list nat)   (* ObjectToken: {key: id, ...} *)
| VStatus (z : Z)                      (* TerminationToken: {"status": z} *)
| VNull                                (* IterationTerminationToken *)
| VJob (name : string) (wfid : Z) (dirs : list jv) (keys : list string) (ids : list nat).
                                       (* JobToken: {"job": {"type": Job, "params": {name, workflow_id, inputs:
                                          {key: token id}, input/output/tmp directory}}} *)

Record trow := mkrow { r_type : string; r_tag : string; r_val : tval; r_rec : bool }.
Definition tdb := list trow.            (* row id = position + 1 *)

Fixpoint save (t : ptok) (d : tdb) : nat * tdb :=
  let save_all :=
    fix go (l : list ptok) (d : tdb) : list nat * tdb :=
      match l with
      | [] => ([], d)
      | c :: cs => let '(i, d1) := save c d in
                   let '(is, d2) := go cs d1 in (i :: is, d2)
      end in
  match t with
  | PTok cls tag v rc => (S (length d), d ++ [mkrow cls tag (VJson v) rc])
  | PList tag l => let '(ids, d') := save_all l d in
                   (S (length d'), d' ++ [mkrow c_list tag (VIds ids) false])
  | PObj tag keys l => let '(ids, d') := save_all l d in
                       (S (length d'), d' ++ [mkrow c_obj tag (VMap keys ids) false])
  | PTerm z => (S (length d), d ++ [mkrow c_term "0" (VStatus z) false])
  | PIter tag => (S (length d), d ++ [mkrow c_iter tag VNull false])
  | PJob tag rc name wfid dirs keys l =>
      let '(ids, d') := save_all l d in
      (S (length d'), d' ++ [mkrow c_job tag (VJob name wfid dirs keys ids) rc])
  end.

Fixpoint save_all (l : list ptok) (d : tdb) : list nat * tdb :=
  match l with
  | [] => ([], d)
  | c :: cs => let '(i, d1) := save c d in
               let '(is, d2) := save_all cs d1 in (i :: is, d2)
  end.

Fixpoint mapM {A B} (f : A -> option B) (l : list A) : option (list B) :=
  match l with
  | [] => Some []
  | x :: xs => match f x with
               | None => None
               | Some y => match mapM f xs with None => None | Some ys => Some (y :: ys) end
               end
  end.

Definition row_of (d : tdb) (id : nat) : option trow :=
  match id with O => None | S k => nth_error d k end.

(* Token.load through a loading context; fuel bounds the nesting depth followed *)
Fixpoint load (fuel : nat) (d : tdb) (id : nat) : option ptok :=
  match fuel with
  | O => None
  | S f =>
      match row_of d id with
      | None => None
      | Some r =>
          match r_val r with
          | VJson v => if reserved (r_type r) then None else Some (PTok (r_type r) (r_tag r) v (r_rec r))
          | VIds ids => if String.eqb (r_type r) c_list
                        then option_map (PList (r_tag r)) (mapM (load f d) ids) else None
          | VMap keys ids => if String.eqb (r_type r) c_obj
                             then option_map (PObj (r_tag r) keys) (mapM (load f d) ids) else None
          | VStatus z => if String.eqb (r_type r) c_term then Some (PTerm z) else None
          | VNull => if String.eqb (r_type r) c_iter then Some (PIter (r_tag r)) else None
          | VJob name wfid dirs keys ids =>
              if String.eqb (r_type r) c_job
              then option_map (PJob (r_tag r) (r_rec r) name wfid dirs keys) (mapM (load f d) ids) else None
          end
      end
  end.

Fixpoint height (t : ptok) : nat :=
  match t with
  | PList _ l | PObj _ _ l | PJob _ _ _ _ _ _ l => S (fold_right (fun c m => Nat.max (height c) m) O l)
  | _ => 1
  end.

(* a token the classes can represent: a plain token is not labelled with a container / terminator class, an
   object has as many keys as values *)
Fixpoint wf (t : ptok) : Prop :=
  match t with
  | PTok cls _ _ _ => reserved cls = false
  | PList _ l => (fix all (l : list ptok) : Prop := match l with [] => True | c :: cs => wf c /\ all cs end) l
  | PObj _ keys l | PJob _ _ _ _ _ keys l =>
      length keys = length l /\
      (fix all (l : list ptok) : Prop := match l with [] => True | c :: cs => wf c /\ all cs end) l
  | _ => True
  end.
