(* Persist/CfgModel.v — deployment, target and filter configurations, and the binding of a ScheduleStep.

   ANCHORS:
     streamflow.core.deployment.DeploymentConfig.save / load
     streamflow.core.deployment.Target.save / load / _load / _save_additional_params
     streamflow.core.deployment.LocalTarget._load
     streamflow.core.deployment.FilterConfig.save / load
     streamflow.core.deployment.WrapsConfig.save / load
     streamflow.core.config.Config.save / load
     streamflow.core.config.BindingConfig.save / load
     streamflow.persistence.sqlite.SqliteDatabase.add_deployment / add_target / add_filter /
       get_deployment / get_target / get_filter

   A deployment row holds what the object holds (config and scheduling policy as JSON, wraps as
   {"deployment", "service"?} or NULL); [external] and [lazy] are stored in INTEGER columns and come back as 0 / 1,
   which Python compares equal to False / True: the model keeps them as booleans.  A target row refers to its
   deployment by id; Target.save saves the deployment first; Target.load loads it with DeploymentConfig.load.
   A LocalTarget saves its fixed "__LOCAL__" deployment too, but is rebuilt from its working directory alone.
   BindingConfig.save saves every target and every filter and returns their ids; BindingConfig.load loads them.
   Shared objects (one DeploymentConfig used by two targets) are saved once by the code; this model is a tree and
   saves every occurrence (the correspondence uses distinct objects). *)
From Coq Require Import List Bool NArith ZArith Arith.
From SF Require Import Base.Str DbCache.Model Persist.Model.
Import ListNotations.
Local Open Scope string_scope. Local Open Scope list_scope.

Record pdeploy := mkdeploy {
  dp_name : string; dp_type : string; dp_config : jv; dp_external : bool; dp_lazy : bool;
  dp_policy : string * string * jv;                  (* Config(name, type, config) *)
  dp_workdir : option string;
  dp_wraps : option (string * option string) }.      (* WrapsConfig(deployment, service) *)

Inductive ptarget :=
| PTarget (dep : pdeploy) (locations : Z) (service : option string) (workdir : string)
| PLocal (workdir : string).

Record pfilter := mkfilter { f_name : string; f_type : string; f_config : jv }.
Record pbinding := mkbinding { b_targets : list ptarget; b_filters : list pfilter }.

Record tgrow := mktgrow { tg_local : bool; tg_dep : nat; tg_locations : Z; tg_service : option string; tg_workdir : string }.
Record cdb := mkcdb { c_dep : list pdeploy; c_tgt : list tgrow; c_flt : list pfilter }.

Definition local_deploy : pdeploy :=
  mkdeploy "__LOCAL__" "local" (JObj []) true false ("__DEFAULT__", "data_locality", JObj []) None None.

Definition at_id {A} (l : list A) (id : nat) : option A := match id with O => None | S k => nth_error l k end.

Definition save_deploy (x : pdeploy) (d : cdb) : nat * cdb :=
  (S (length (c_dep d)), mkcdb (c_dep d ++ [x]) (c_tgt d) (c_flt d)).
Definition load_deploy (d : cdb) (id : nat) : option pdeploy := at_id (c_dep d) id.

Definition save_filter (x : pfilter) (d : cdb) : nat * cdb :=
  (S (length (c_flt d)), mkcdb (c_dep d) (c_tgt d) (c_flt d ++ [x])).
Definition load_filter (d : cdb) (id : nat) : option pfilter := at_id (c_flt d) id.

Definition save_target (x : ptarget) (d : cdb) : nat * cdb :=
  match x with
  | PTarget dep loc svc wd =>
      let '(i, d1) := save_deploy dep d in
      (S (length (c_tgt d1)), mkcdb (c_dep d1) (c_tgt d1 ++ [mktgrow false i loc svc wd]) (c_flt d1))
  | PLocal wd =>
      let '(i, d1) := save_deploy local_deploy d in
      (S (length (c_tgt d1)), mkcdb (c_dep d1) (c_tgt d1 ++ [mktgrow true i 1%Z None wd]) (c_flt d1))
  end.

Definition load_target (d : cdb) (id : nat) : option ptarget :=
  match at_id (c_tgt d) id with
  | None => None
  | Some r =>
      if tg_local r then Some (PLocal (tg_workdir r))
      else match load_deploy d (tg_dep r) with
           | Some dep => Some (PTarget dep (tg_locations r) (tg_service r) (tg_workdir r))
           | None => None
           end
  end.

Fixpoint save_targets (l : list ptarget) (d : cdb) : list nat * cdb :=
  match l with
  | [] => ([], d)
  | x :: r => let '(i, d1) := save_target x d in let '(is, d2) := save_targets r d1 in (i :: is, d2)
  end.
Fixpoint save_filters (l : list pfilter) (d : cdb) : list nat * cdb :=
  match l with
  | [] => ([], d)
  | x :: r => let '(i, d1) := save_filter x d in let '(is, d2) := save_filters r d1 in (i :: is, d2)
  end.

(* BindingConfig.save -> {"targets": [ids], "filters": [ids]} *)
Definition save_binding (b : pbinding) (d : cdb) : (list nat * list nat) * cdb :=
  let '(ts, d1) := save_targets (b_targets b) d in
  let '(fs, d2) := save_filters (b_filters b) d1 in
  ((ts, fs), d2).

Definition load_binding (d : cdb) (ids : list nat * list nat) : option pbinding :=
  match mapM (load_target d) (fst ids), mapM (load_filter d) (snd ids) with
  | Some ts, Some fs => Some (mkbinding ts fs)
  | _, _ => None
  end.
