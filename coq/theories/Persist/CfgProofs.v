(* Persist/CfgProofs.v — load (save x) = x for deployment, target, filter configurations and bindings. *)
From Coq Require Import List Bool NArith ZArith Arith Lia.
From SF Require Import Base.Str DbCache.Model Persist.Model Persist.Proofs Persist.CfgModel.
Import ListNotations.
Local Open Scope string_scope. Local Open Scope list_scope.

Definition cext (d d' : cdb) : Prop :=
  exists a b c, c_dep d' = c_dep d ++ a /\ c_tgt d' = c_tgt d ++ b /\ c_flt d' = c_flt d ++ c.

Lemma cext_refl d : cext d d.
Proof. exists [], [], []. rewrite !app_nil_r. auto. Qed.

Lemma cext_trans a b c : cext a b -> cext b c -> cext a c.
Proof.
  intros [x1 [y1 [z1 [A1 [B1 C1]]]]] [x2 [y2 [z2 [A2 [B2 C2]]]]].
  exists (x1 ++ x2), (y1 ++ y2), (z1 ++ z2). rewrite A2, B2, C2, A1, B1, C1, !app_assoc. auto.
Qed.

Lemma at_id_app {A} (l e : list A) id x : at_id l id = Some x -> at_id (l ++ e) id = Some x.
Proof.
  destruct id as [|k]; simpl; [discriminate|]. intros H.
  rewrite nth_error_app1; [exact H | apply nth_error_Some; rewrite H; discriminate].
Qed.

Lemma at_id_last {A} (l : list A) x : at_id (l ++ [x]) (S (length l)) = Some x.
Proof. simpl. rewrite nth_error_app2 by lia. rewrite Nat.sub_diag. reflexivity. Qed.

Lemma load_deploy_ext d d' id x : cext d d' -> load_deploy d id = Some x -> load_deploy d' id = Some x.
Proof. intros [a [b [c [A _]]]] H. unfold load_deploy in *. rewrite A. apply at_id_app. exact H. Qed.

Lemma load_filter_ext d d' id x : cext d d' -> load_filter d id = Some x -> load_filter d' id = Some x.
Proof. intros [a [b [c [_ [_ C]]]]] H. unfold load_filter in *. rewrite C. apply at_id_app. exact H. Qed.

Lemma load_target_ext d d' id x : cext d d' -> load_target d id = Some x -> load_target d' id = Some x.
Proof.
  intros E H. unfold load_target in *. destruct E as [a [b [c [A [B C]]]]].
  destruct (at_id (c_tgt d) id) as [r|] eqn:Er; [|discriminate].
  rewrite B, (at_id_app _ b _ _ Er). destruct (tg_local r); [exact H|].
  unfold load_deploy in *. destruct (at_id (c_dep d) (tg_dep r)) as [dep|] eqn:Ed; [|discriminate].
  rewrite A, (at_id_app _ a _ _ Ed). exact H.
Qed.

Theorem deploy_roundtrip x d : load_deploy (snd (save_deploy x d)) (fst (save_deploy x d)) = Some x.
Proof. unfold load_deploy, save_deploy. simpl fst. simpl snd. simpl c_dep. apply at_id_last. Qed.

Theorem filter_roundtrip x d : load_filter (snd (save_filter x d)) (fst (save_filter x d)) = Some x.
Proof. unfold load_filter, save_filter. simpl fst. simpl snd. simpl c_flt. apply at_id_last. Qed.

Lemma save_deploy_ext x d : cext d (snd (save_deploy x d)).
Proof. exists [x], [], []. simpl. rewrite !app_nil_r. auto. Qed.
Lemma save_filter_ext x d : cext d (snd (save_filter x d)).
Proof. exists [], [], [x]. simpl. rewrite !app_nil_r. auto. Qed.

Lemma save_target_ext x d : cext d (snd (save_target x d)).
Proof.
  destruct x as [dep loc svc wd|wd]; simpl.
  - exists [dep], [mktgrow false (S (length (c_dep d))) loc svc wd], []. simpl. rewrite app_nil_r. auto.
  - exists [local_deploy], [mktgrow true (S (length (c_dep d))) 1%Z None wd], []. simpl. rewrite app_nil_r. auto.
Qed.

Theorem target_roundtrip x d : load_target (snd (save_target x d)) (fst (save_target x d)) = Some x.
Proof.
  destruct x as [dep loc svc wd|wd]; unfold load_target; simpl.
  - rewrite nth_error_app2 by lia. rewrite Nat.sub_diag. simpl.
    unfold load_deploy. simpl. rewrite nth_error_app2 by lia. rewrite Nat.sub_diag. reflexivity.
  - rewrite nth_error_app2 by lia. rewrite Nat.sub_diag. reflexivity.
Qed.

Lemma save_targets_ok l : forall d,
  cext d (snd (save_targets l d)) /\ mapM (load_target (snd (save_targets l d))) (fst (save_targets l d)) = Some l.
Proof.
  induction l as [|x r IH]; intros d; [simpl; split; [apply cext_refl | reflexivity]|].
  change (save_targets (x :: r) d) with
    (let '(i, d1) := save_target x d in let '(is, d2) := save_targets r d1 in (i :: is, d2)).
  destruct (save_target x d) as [i d1] eqn:E1. destruct (save_targets r d1) as [is d2] eqn:E2. simpl.
  pose proof (save_target_ext x d) as X1. pose proof (target_roundtrip x d) as R1. rewrite E1 in X1, R1. simpl in X1, R1.
  destruct (IH d1) as [X2 R2]. rewrite E2 in X2, R2. simpl in X2, R2.
  split; [exact (cext_trans _ _ _ X1 X2)|].
  rewrite (load_target_ext d1 d2 i x X2 R1), R2. reflexivity.
Qed.

Lemma save_filters_ok l : forall d,
  cext d (snd (save_filters l d)) /\ mapM (load_filter (snd (save_filters l d))) (fst (save_filters l d)) = Some l.
Proof.
  induction l as [|x r IH]; intros d; [simpl; split; [apply cext_refl | reflexivity]|].
  change (save_filters (x :: r) d) with
    (let '(i, d1) := save_filter x d in let '(is, d2) := save_filters r d1 in (i :: is, d2)).
  destruct (save_filter x d) as [i d1] eqn:E1. destruct (save_filters r d1) as [is d2] eqn:E2. simpl.
  pose proof (save_filter_ext x d) as X1. pose proof (filter_roundtrip x d) as R1. rewrite E1 in X1, R1. simpl in X1, R1.
  destruct (IH d1) as [X2 R2]. rewrite E2 in X2, R2. simpl in X2, R2.
  split; [exact (cext_trans _ _ _ X1 X2)|].
  rewrite (load_filter_ext d1 d2 i x X2 R1), R2. reflexivity.
Qed.

Theorem binding_roundtrip b d :
  load_binding (snd (save_binding b d)) (fst (save_binding b d)) = Some b /\ cext d (snd (save_binding b d)).
Proof.
  unfold save_binding. destruct (save_targets (b_targets b) d) as [ts d1] eqn:E1.
  destruct (save_filters (b_filters b) d1) as [fs d2] eqn:E2. simpl.
  destruct (save_targets_ok (b_targets b) d) as [X1 R1]. rewrite E1 in X1, R1. simpl in X1, R1.
  destruct (save_filters_ok (b_filters b) d1) as [X2 R2]. rewrite E2 in X2, R2. simpl in X2, R2.
  split; [|exact (cext_trans _ _ _ X1 X2)].
  unfold load_binding. simpl.
  rewrite (mapM_impl (load_target d1) (load_target d2) ts (b_targets b) (fun x y _ Hx => load_target_ext d1 d2 x y X2 Hx) R1).
  rewrite R2. destruct b; reflexivity.
Qed.

Lemma load_binding_ext d d' ids x : cext d d' -> load_binding d ids = Some x -> load_binding d' ids = Some x.
Proof.
  intros E H. unfold load_binding in *.
  destruct (mapM (load_target d) (fst ids)) as [ts|] eqn:Et; [|discriminate].
  destruct (mapM (load_filter d) (snd ids)) as [fs|] eqn:Ef; [|discriminate].
  rewrite (mapM_impl _ (load_target d') _ _ (fun a y _ Ha => load_target_ext _ _ a y E Ha) Et).
  rewrite (mapM_impl _ (load_filter d') _ _ (fun a y _ Ha => load_filter_ext _ _ a y E Ha) Ef).
  exact H.
Qed.

(* later saves never change what stored ids load to *)
Theorem binding_kept b d ids x : load_binding d ids = Some x -> load_binding (snd (save_binding b d)) ids = Some x.
Proof.
  intros H. destruct (binding_roundtrip b d) as [_ E]. unfold load_binding in *.
  destruct (mapM (load_target d) (fst ids)) as [ts|] eqn:Et; [|discriminate].
  destruct (mapM (load_filter d) (snd ids)) as [fs|] eqn:Ef; [|discriminate].
  rewrite (mapM_impl _ (load_target (snd (save_binding b d))) _ _ (fun a y _ Ha => load_target_ext _ _ a y E Ha) Et).
  rewrite (mapM_impl _ (load_filter (snd (save_binding b d))) _ _ (fun a y _ Ha => load_filter_ext _ _ a y E Ha) Ef).
  exact H.
Qed.
