(* Persist/Corr.v — correspondence cases for Persist/Model.v (used by the C08 check).
   CTok orig rows root loaded: the token [orig] was saved by the real Token.save into an empty token table whose
   rows afterwards are [rows] (root row id [root]); the real Token.load of [root] produced [loaded].
   Checked: the model's loader on the real rows yields the same token; the model's save of [orig] yields the
   same rows up to renaming of ids (the order in which concurrent inner saves reach SQLite is not modelled). *)
From Coq Require Import List Bool NArith ZArith.
From SF Require Import Base.Str Base.Corr DbCache.Corr.
From SF Require Export DbCache.Model Persist.Model.
Import ListNotations.

Fixpoint ptok_eqb (a b : ptok) : bool :=
  let all2 := fix go (x y : list ptok) : bool :=
                match x, y with
                | [], [] => true
                | a :: x', b :: y' => ptok_eqb a b && go x' y'
                | _, _ => false
                end in
  match a, b with
  | PTok c t v r, PTok c' t' v' r' => String.eqb c c' && String.eqb t t' && jv_eqb v v' && Bool.eqb r r'
  | PList t l, PList t' l' => String.eqb t t' && all2 l l'
  | PObj t k l, PObj t' k' l' => String.eqb t t' && list_eqb String.eqb k k' && all2 l l'
  | PTerm z, PTerm z' => Z.eqb z z'
  | PIter t, PIter t' => String.eqb t t'
  | PJob t r n w ds k l, PJob t' r' n' w' ds' k' l' =>
      String.eqb t t' && Bool.eqb r r' && String.eqb n n' && Z.eqb w w' && list_eqb jv_eqb ds ds' &&
      list_eqb String.eqb k k' && all2 l l'
  | _, _ => false
  end.

Fixpoint all2 {A B} (f : A -> B -> bool) (x : list A) (y : list B) : bool :=
  match x, y with
  | [], [] => true
  | a :: x', b :: y' => f a b && all2 f x' y'
  | _, _ => false
  end.

Fixpoint rows_match (fuel : nat) (a : tdb) (ia : nat) (b : tdb) (ib : nat) : bool :=
  match fuel with
  | O => false
  | S f =>
      match row_of a ia, row_of b ib with
      | Some ra, Some rb =>
          String.eqb (r_type ra) (r_type rb) && String.eqb (r_tag ra) (r_tag rb) && Bool.eqb (r_rec ra) (r_rec rb) &&
          match r_val ra, r_val rb with
          | VJson x, VJson y => jv_eqb x y
          | VIds x, VIds y => all2 (fun i j => rows_match f a i b j) x y
          | VMap k x, VMap k' y => list_eqb String.eqb k k' && all2 (fun i j => rows_match f a i b j) x y
          | VStatus x, VStatus y => Z.eqb x y
          | VNull, VNull => true
          | VJob n w ds k x, VJob n' w' ds' k' y =>
              String.eqb n n' && Z.eqb w w' && list_eqb jv_eqb ds ds' && list_eqb String.eqb k k' &&
              all2 (fun i j => rows_match f a i b j) x y
          | _, _ => false
          end
      | _, _ => false
      end
  end.

Inductive tcase :=
| CTok (orig : ptok) (rows : tdb) (root : nat) (loaded : option ptok).

Definition check_tcase (c : tcase) : bool :=
  match c with
  | CTok orig rows root loaded =>
      let fuel := S (length rows) in
      opt_eqb ptok_eqb (load fuel rows root) loaded &&
      (let '(i, d) := save orig [] in rows_match (S (length d)) d i rows root && Nat.eqb (length d) (length rows))
  end.

(* ------------------------------------------------------------------ whole workflows (Persist/WfModel.v)
   CWf orig db wid loaded: the workflow [orig] was saved by the real Workflow.save into an empty database whose
   workflow / port / step / dependency tables afterwards are [db]; the real load of [wid] produced [loaded].
   Checked: the model's loader on the real tables yields the real result; the model's save of [orig] into the empty
   database yields the same tables.  Maps, ports, steps and dependency rows are compared by name / as sets (dict
   insertion order, the interleaving of concurrent INSERTs and SQLite's row order are not modelled); step ids are
   matched through the step names. *)
From SF Require Export Persist.CfgModel Persist.TreeModel.

Definition ostr_eqb (a b : option string) : bool := opt_eqb String.eqb a b.
Definition pdeploy_eqb (a b : pdeploy) : bool :=
  String.eqb (dp_name a) (dp_name b) && String.eqb (dp_type a) (dp_type b) && jv_eqb (dp_config a) (dp_config b) &&
  Bool.eqb (dp_external a) (dp_external b) && Bool.eqb (dp_lazy a) (dp_lazy b) &&
  String.eqb (fst (fst (dp_policy a))) (fst (fst (dp_policy b))) &&
  String.eqb (snd (fst (dp_policy a))) (snd (fst (dp_policy b))) && jv_eqb (snd (dp_policy a)) (snd (dp_policy b)) &&
  ostr_eqb (dp_workdir a) (dp_workdir b) &&
  opt_eqb (fun x y => String.eqb (fst x) (fst y) && ostr_eqb (snd x) (snd y)) (dp_wraps a) (dp_wraps b).
Definition ptarget_eqb (a b : ptarget) : bool :=
  match a, b with
  | PTarget d l s w, PTarget d' l' s' w' => pdeploy_eqb d d' && Z.eqb l l' && ostr_eqb s s' && String.eqb w w'
  | PLocal w, PLocal w' => String.eqb w w'
  | _, _ => false
  end.
Definition pfilter_eqb (a b : pfilter) : bool :=
  String.eqb (f_name a) (f_name b) && String.eqb (f_type a) (f_type b) && jv_eqb (f_config a) (f_config b).
Definition pbinding_eqb (a b : pbinding) : bool :=
  list_eqb ptarget_eqb (b_targets a) (b_targets b) && list_eqb pfilter_eqb (b_filters a) (b_filters b).
Definition tgrow_eqb (a b : tgrow) : bool :=
  Bool.eqb (tg_local a) (tg_local b) && Nat.eqb (tg_dep a) (tg_dep b) && Z.eqb (tg_locations a) (tg_locations b) &&
  ostr_eqb (tg_service a) (tg_service b) && String.eqb (tg_workdir a) (tg_workdir b).
Definition cdb_eqb (a b : cdb) : bool :=
  list_eqb pdeploy_eqb (c_dep a) (c_dep b) && list_eqb tgrow_eqb (c_tgt a) (c_tgt b) && list_eqb pfilter_eqb (c_flt a) (c_flt b).


From SF Require Export Persist.WfModel.

Definition jmap_eqb (a b : list (string * jv)) : bool :=
  Nat.eqb (length a) (length b) &&
  forallb (fun kv => match alookup (fst kv) b with Some v => jv_eqb v (snd kv) | None => false end) a.

Fixpoint ptree_eqb (a b : ptree) : bool :=
  match a, b with
  | PNode c ps ks subs, PNode c' ps' ks' subs' =>
      String.eqb c c' && jmap_eqb ps ps' && list_eqb String.eqb ks ks' &&
      (fix go (x y : list ptree) : bool :=
         match x, y with
         | [], [] => true
         | a :: x', b :: y' => ptree_eqb a b && go x' y'
         | _, _ => false
         end) subs subs'
  end.

Fixpoint dtree_eqb (a b : dtree) : bool :=
  match a, b with
  | DNode c ps w ks subs, DNode c' ps' w' ks' subs' =>
      String.eqb c c' && jmap_eqb ps ps' && onat_eqb w w' && list_eqb String.eqb ks ks' &&
      (fix go (x y : list dtree) : bool :=
         match x, y with
         | [], [] => true
         | a :: x', b :: y' => dtree_eqb a b && go x' y'
         | _, _ => false
         end) subs subs'
  end.

Definition smap_eqb (a b : list (string * string)) : bool :=
  Nat.eqb (length a) (length b) &&
  forallb (fun kv => match alookup (fst kv) b with Some v => String.eqb v (snd kv) | None => false end) a.

Definition ccls_eqb (a b : ccls) : bool :=
  match a, b with
  | CDot, CDot => true
  | CCart x, CCart y => Z.eqb x y
  | CLoop, CLoop => true
  | CLoopTerm x, CLoopTerm y => list_eqb String.eqb x y
  | _, _ => false
  end.

Fixpoint pcomb_eqb (a b : pcomb) : bool :=
  match a, b with
  | PComb c n it cm ks subs, PComb c' n' it' cm' ks' subs' =>
      ccls_eqb c c' && String.eqb n n' && list_eqb String.eqb it it' && smap_eqb cm cm' && list_eqb String.eqb ks ks' &&
      (fix go (x y : list pcomb) : bool :=
         match x, y with
         | [], [] => true
         | a :: x', b :: y' => pcomb_eqb a b && go x' y'
         | _, _ => false
         end) subs subs'
  end.

Fixpoint dcomb_eqb (a b : dcomb) : bool :=
  match a, b with
  | DComb c n w it cm ks subs, DComb c' n' w' it' cm' ks' subs' =>
      ccls_eqb c c' && String.eqb n n' && Nat.eqb w w' && list_eqb String.eqb it it' && smap_eqb cm cm' &&
      list_eqb String.eqb ks ks' &&
      (fix go (x y : list dcomb) : bool :=
         match x, y with
         | [], [] => true
         | a :: x', b :: y' => dcomb_eqb a b && go x' y'
         | _, _ => false
         end) subs subs'
  end.

Definition skind_eqb (a b : skind) : bool :=
  match a, b with
  | KScatter, KScatter => true
  | KGather x, KGather y => Z.eqb x y
  | KComb l x, KComb l' y => Bool.eqb l l' && pcomb_eqb x y
  | KPlain x, KPlain y => String.eqb x y
  | KJobIn x, KJobIn y => String.eqb x y
  | KExecute x k p c, KExecute y k' p' c' =>
      smap_eqb x y && list_eqb String.eqb k k' && list_eqb ptree_eqb p p' && opt_eqb ptree_eqb c c'
  | KDeploy x, KDeploy y => pdeploy_eqb x y
  | KSchedule b p ds, KSchedule b' p' ds' => pbinding_eqb b b' && String.eqb p p' && list_eqb jv_eqb ds ds'
  | _, _ => false
  end.

Definition pstep_eqb (a b : pstep) : bool :=
  String.eqb (s_name a) (s_name b) && skind_eqb (s_kind a) (s_kind b) && Z.eqb (s_status a) (s_status b) &&
  smap_eqb (s_in a) (s_in b) && smap_eqb (s_out a) (s_out b).

Definition pport_eqb (a b : pport) : bool := String.eqb (p_name a) (p_name b) && String.eqb (p_cls a) (p_cls b).

Definition set_eqb {A} (eqb : A -> A -> bool) (a b : list A) : bool :=
  Nat.eqb (length a) (length b) && forallb (fun x => existsb (eqb x) b) a && forallb (fun y => existsb (fun x => eqb x y) a) b.

Definition pwf_eqb (a b : pwf) : bool :=
  String.eqb (w_name a) (w_name b) && jv_eqb (w_config a) (w_config b) && smap_eqb (w_inp a) (w_inp b) &&
  smap_eqb (w_outp a) (w_outp b) && set_eqb pport_eqb (w_ports a) (w_ports b) && set_eqb pstep_eqb (w_steps a) (w_steps b).

(* a step row together with its dependency rows, ids of the step replaced by its position-independent content *)
Definition dparams_eqb (a b : dparams) : bool :=
  match a, b with
  | DScatter x, DScatter y => Nat.eqb x y
  | DGather d x, DGather d' y => Z.eqb d d' && Nat.eqb x y
  | DCombP l x, DCombP l' y => Bool.eqb l l' && dcomb_eqb x y
  | DPlain x, DPlain y => String.eqb x y
  | DJobIn c x, DJobIn c' y => String.eqb c c' && Nat.eqb x y
  | DExecute x m k p c, DExecute y m' k' p' c' =>
      Nat.eqb x y && smap_eqb m m' && list_eqb String.eqb k k' && list_eqb dtree_eqb p p' && opt_eqb dtree_eqb c c'
  (* configuration ids are compared through what they load to (canon_steps), not as numbers *)
  | DDeploy _ cp, DDeploy _ cp' => Nat.eqb cp cp'
  | DSchedule ts fs jp cps p ds, DSchedule ts' fs' jp' cps' p' ds' =>
      Nat.eqb (length ts) (length ts') && Nat.eqb (length fs) (length fs') && Nat.eqb jp jp' &&
      set_eqb (fun a b => String.eqb (fst a) (fst b) && Nat.eqb (snd a) (snd b)) cps cps' && String.eqb p p' &&
      list_eqb jv_eqb ds ds'
  | _, _ => false
  end.

Definition dep_eqb (a b : nat * bool * string) : bool :=
  Nat.eqb (fst (fst a)) (fst (fst b)) && Bool.eqb (snd (fst a)) (snd (fst b)) && String.eqb (snd a) (snd b).

Definition canon_steps (d : wdb) : list (srow * option skind * list (nat * bool * string)) :=
  map (fun ir => (snd ir, load_kind (t_port d) (t_cfg d) (sr_wf (snd ir)) (sr_params (snd ir)),
                  map (fun r => (d_port r, d_in r, d_name r))
                      (filter (fun r => Nat.eqb (d_step r) (fst ir)) (t_dep d))))
      (with_ids 0 (t_step d)).

Definition cstep_eqb (a b : srow * option skind * list (nat * bool * string)) : bool :=
  let ra := fst (fst a) in let rb := fst (fst b) in
  String.eqb (sr_name ra) (sr_name rb) && Nat.eqb (sr_wf ra) (sr_wf rb) &&
  Z.eqb (sr_status ra) (sr_status rb) && dparams_eqb (sr_params ra) (sr_params rb) &&
  opt_eqb skind_eqb (snd (fst a)) (snd (fst b)) && set_eqb dep_eqb (snd a) (snd b).

Definition wrow_eqb (a b : wrow) : bool :=
  String.eqb (wr_name a) (wr_name b) && jv_eqb (wr_config a) (wr_config b) && smap_eqb (wr_inp a) (wr_inp b) &&
  smap_eqb (wr_outp a) (wr_outp b).
Definition prow_eqb (a b : prow) : bool :=
  String.eqb (pr_name a) (pr_name b) && Nat.eqb (pr_wf a) (pr_wf b) && String.eqb (pr_cls a) (pr_cls b).

Definition wdb_eqb (a b : wdb) : bool :=
  list_eqb wrow_eqb (t_wf a) (t_wf b) && list_eqb prow_eqb (t_port a) (t_port b) &&
  set_eqb cstep_eqb (canon_steps a) (canon_steps b) && Nat.eqb (length (t_dep a)) (length (t_dep b)) &&
  (* configuration tables up to renaming of ids: same deployments, same targets (with the deployment they load),
     same filters, as multisets *)
  set_eqb pdeploy_eqb (c_dep (t_cfg a)) (c_dep (t_cfg b)) &&
  set_eqb (opt_eqb ptarget_eqb) (map (fun i => load_target (t_cfg a) (S i)) (seq 0 (length (c_tgt (t_cfg a)))))
                                (map (fun i => load_target (t_cfg b) (S i)) (seq 0 (length (c_tgt (t_cfg b))))) &&
  set_eqb pfilter_eqb (c_flt (t_cfg a)) (c_flt (t_cfg b)).

Inductive wcase :=
| CWf (orig : pwf) (db : wdb) (wid : nat) (loaded : option pwf).

Definition check_wcase (c : wcase) : bool :=
  match c with
  | CWf orig db wid loaded =>
      opt_eqb pwf_eqb (load_wf db wid) loaded &&
      match save_wf orig (mkwdb [] [] [] [] (mkcdb [] [] [])) with
      | Some (i, d) => Nat.eqb i wid && wdb_eqb d db
      | None => false
      end
  end.

(* ------------------------------------------------------------------ configurations (Persist/CfgModel.v)
   CCfg orig db ids loaded: the binding [orig] was saved by the real BindingConfig.save into empty deployment /
   target / filter tables, which afterwards are [db]; it returned [ids]; the real BindingConfig.load produced
   [loaded]. *)
Inductive fcase :=
| CCfg (orig : pbinding) (db : cdb) (tids fids : list nat) (loaded : option pbinding).

Definition check_fcase (c : fcase) : bool :=
  match c with
  | CCfg orig db tids fids loaded =>
      opt_eqb pbinding_eqb (load_binding db (tids, fids)) loaded &&
      (let '(ids, d) := save_binding orig (mkcdb [] [] []) in
       list_eqb Nat.eqb (fst ids) tids && list_eqb Nat.eqb (snd ids) fids && cdb_eqb d db)
  end.

(* ------------------------------------------------------------------ standalone trees (Persist/TreeModel.v)
   CTree w orig stored loaded: [orig] (what the harness read from the attributes of the real object) was saved by the
   real save(); [stored] is the nested {"type", "params"} it produced; the real load() produced [loaded]. *)
Inductive rcase := CTree (w : option nat) (orig : ptree) (stored : dtree) (loaded : option ptree).
Definition check_rcase (c : rcase) : bool :=
  match c with
  | CTree w orig stored loaded =>
      dtree_eqb (save_tree w orig) stored && opt_eqb ptree_eqb (load_tree w stored) loaded
  end.

(* one case type for the harness *)
Inductive ccase := XTok (c : tcase) | XWf (c : wcase) | XCfg (c : fcase) | XTree (c : rcase).
Definition check_case (c : ccase) : bool :=
  match c with XTok c => check_tcase c | XWf c => check_wcase c | XCfg c => check_fcase c | XTree c => check_rcase c end.
