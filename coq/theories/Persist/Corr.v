(* Persist/Corr.v — correspondence cases for Persist/Model.v (used by the C08 check).
   CTok orig rows root loaded: the token [orig] was saved by the real Token.save into an empty token table whose
   rows afterwards are [rows] (root row id [root]); the real Token.load of [root] produced [loaded].
   Checked: the model's loader on the real rows yields the same token; the model's save of [orig] yields the
   same rows up to renaming of ids (the order in which concurrent inner saves reach SQLite is not modelled). *)
From Coq Require Import List Bool NArith ZArith.
From SF Require Import Base.Str Base.Corr DbCache.Corr.
From SF Require Export DbCache.Model Persist.Model.
Import ListNotations.

Fixpoint ptok_eqb (a b : ptok) : bool :=
  let all2 := fix go (x y : list ptok) : bool :=
                match x, y with
                | [], [] => true
                | a :: x', b :: y' => ptok_eqb a b && go x' y'
                | _, _ => false
                end in
  match a, b with
  | PTok c t v r, PTok c' t' v' r' => String.eqb c c' && String.eqb t t' && jv_eqb v v' && Bool.eqb r r'
  | PList t l, PList t' l' => String.eqb t t' && all2 l l'
  | PObj t k l, PObj t' k' l' => String.eqb t t' && list_eqb String.eqb k k' && all2 l l'
  | PTerm z, PTerm z' => Z.eqb z z'
  | PIter t, PIter t' => String.eqb t t'
  | _, _ => false
  end.

Fixpoint all2 {A B} (f : A -> B -> bool) (x : list A) (y : list B) : bool :=
  match x, y with
  | [], [] => true
  | a :: x', b :: y' => f a b && all2 f x' y'
  | _, _ => false
  end.

Fixpoint rows_match (fuel : nat) (a : tdb) (ia : nat) (b : tdb) (ib : nat) : bool :=
  match fuel with
  | O => false
  | S f =>
      match row_of a ia, row_of b ib with
      | Some ra, Some rb =>
          String.eqb (r_type ra) (r_type rb) && String.eqb (r_tag ra) (r_tag rb) && Bool.eqb (r_rec ra) (r_rec rb) &&
          match r_val ra, r_val rb with
          | VJson x, VJson y => jv_eqb x y
          | VIds x, VIds y => all2 (fun i j => rows_match f a i b j) x y
          | VMap k x, VMap k' y => list_eqb String.eqb k k' && all2 (fun i j => rows_match f a i b j) x y
          | VStatus x, VStatus y => Z.eqb x y
          | VNull, VNull => true
          | _, _ => false
          end
      | _, _ => false
      end
  end.

Inductive ccase :=
| CTok (orig : ptok) (rows : tdb) (root : nat) (loaded : option ptok).

Definition check_case (c : ccase) : bool :=
  match c with
  | CTok orig rows root loaded =>
      let fuel := S (length rows) in
      opt_eqb ptok_eqb (load fuel rows root) loaded &&
      (let '(i, d) := save orig [] in rows_match (S (length d)) d i rows root && Nat.eqb (length d) (length rows))
  end.
