(* Persist/TreeProofs.v — load_tree (save_tree t) = t for every tree. *)
From Coq Require Import List Bool NArith ZArith Arith.
From SF Require Import Base.Str DbCache.Model Persist.Model Persist.TreeModel.
Import ListNotations.

Section PtreeInd.
  Variable P : ptree -> Prop.
  Hypothesis H : forall c ps ks subs, Forall P subs -> P (PNode c ps ks subs).
  Fixpoint ptree_ind' (t : ptree) : P t :=
    match t with
    | PNode c ps ks subs =>
        H c ps ks subs
          ((fix go (l : list ptree) : Forall P l :=
              match l with [] => Forall_nil P | x :: r => Forall_cons x (ptree_ind' x) (go r) end) subs)
    end.
End PtreeInd.

Lemma load_tree_eq w c ps w' ks subs :
  load_tree w (DNode c ps w' ks subs) =
  if onat_eqb w' w then option_map (PNode c ps ks) (load_trees w subs) else None.
Proof. reflexivity. Qed.

Lemma onat_eqb_refl w : onat_eqb w w = true.
Proof. destruct w; simpl; [apply Nat.eqb_refl | reflexivity]. Qed.

Theorem tree_roundtrip w : forall t, load_tree w (save_tree w t) = Some t.
Proof.
  apply ptree_ind'. intros c ps ks subs Hs.
  change (save_tree w (PNode c ps ks subs)) with (DNode c ps w ks (map (save_tree w) subs)).
  rewrite load_tree_eq, onat_eqb_refl.
  assert (E : load_trees w (map (save_tree w) subs) = Some subs).
  { induction Hs as [|x r Hx Hr IH]; [reflexivity|]. simpl. simpl in IH. rewrite Hx, IH. reflexivity. }
  rewrite E. reflexivity.
Qed.

Theorem trees_roundtrip w l : load_trees w (map (save_tree w) l) = Some l.
Proof.
  induction l as [|x r IH]; [reflexivity|]. simpl. simpl in IH. rewrite tree_roundtrip, IH. reflexivity.
Qed.

(* a tree saved for one workflow is not accepted for another *)
Theorem tree_other_workflow a b c ps ks subs :
  a <> b -> load_tree (Some b) (save_tree (Some a) (PNode c ps ks subs)) = None.
Proof.
  intros Hn. change (save_tree (Some a) (PNode c ps ks subs)) with (DNode c ps (Some a) ks (map (save_tree (Some a)) subs)).
  rewrite load_tree_eq. simpl. destruct (Nat.eqb a b) eqn:E; [apply Nat.eqb_eq in E; contradiction | reflexivity].
Qed.
