(* Persist/TreeModel.v — the recursive "type + params" entities that are stored as nested JSON inside a step row:
   command token processors (and the command that owns them), command output processors, token processors.

   ANCHORS:
     streamflow.core.workflow.Command.save / load / _load / _save_additional_params
     streamflow.core.workflow.CommandTokenProcessor.save / load / _load / _save_additional_params
     streamflow.workflow.command.TokenizedCommand._save_additional_params / _load_command_token_processors
     streamflow.workflow.command.MapCommandTokenProcessor / ObjectCommandTokenProcessor / UnionCommandTokenProcessor
     streamflow.cwl.command.CWLCommand / CWLCommandTokenProcessor / CWLForwardCommandTokenProcessor /
       CWLMapCommandTokenProcessor / CWLObjectCommandTokenProcessor            (_save_additional_params, _load)
     streamflow.core.processor.CommandOutputProcessor / MapCommandOutputProcessor / PopCommandOutputProcessor /
       ObjectCommandOutputProcessor / UnionCommandOutputProcessor             (save, load, _save_additional_params, _load)
     streamflow.core.processor.TokenProcessor / MapTokenProcessor / ObjectTokenProcessor / UnionTokenProcessor
     streamflow.workflow.step.DefaultCommandOutputProcessor
     streamflow.cwl.processor.CWLTokenProcessor / CWLCommandOutputProcessor   (their own parameters)

   Every such entity saves {"type": class, "params": {its own parameters..., its children saved the same way}} and
   is loaded by the class named in "type" from exactly those params.  A node here is: class, own parameters (a JSON
   map: what the harness reads from the object's attributes on one side and from the stored params on the other),
   and children -- one optional child (Map / Pop / CWLCommandTokenProcessor.processor), a list (Union, a command's
   processors) or a dict (Object: [keys] parallel to [subs]).  The output- and token-processor families also store
   the id of their workflow in every node and are loaded for that workflow ([w = Some id]); command token
   processors store none ([w = None]).  A processor's optional [target] is a Target row (Persist/CfgModel.v): this
   tree model covers target = None only; nodes with a target are outside it. *)
From Coq Require Import List Bool NArith ZArith Arith.
From SF Require Import Base.Str DbCache.Model Persist.Model.
Import ListNotations.
Local Open Scope string_scope. Local Open Scope list_scope.

Inductive ptree := PNode (cls : string) (params : list (string * jv)) (keys : list string) (subs : list ptree).
Inductive dtree :=
  DNode (cls : string) (params : list (string * jv)) (wid : option nat) (keys : list string) (subs : list dtree).

Fixpoint save_tree (w : option nat) (t : ptree) : dtree :=
  match t with
  | PNode c ps ks subs => DNode c ps w ks (map (save_tree w) subs)
  end.

Definition onat_eqb (a b : option nat) : bool :=
  match a, b with Some x, Some y => Nat.eqb x y | None, None => true | _, _ => false end.

Fixpoint load_tree (w : option nat) (d : dtree) : option ptree :=
  match d with
  | DNode c ps w' ks subs =>
      if onat_eqb w' w
      then option_map (PNode c ps ks)
             ((fix go (l : list dtree) : option (list ptree) :=
                 match l with
                 | [] => Some []
                 | x :: r => match load_tree w x with
                             | None => None
                             | Some y => match go r with None => None | Some ys => Some (y :: ys) end
                             end
                 end) subs)
      else None
  end.

Definition load_trees (w : option nat) : list dtree -> option (list ptree) :=
  fix go (l : list dtree) : option (list ptree) :=
    match l with
    | [] => Some []
    | x :: r => match load_tree w x with
                | None => None
                | Some y => match go r with None => None | Some ys => Some (y :: ys) end
                end
    end.
