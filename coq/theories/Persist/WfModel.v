(* Persist/WfModel.v — saving and loading a whole workflow: ports, steps, wiring, combinator trees.

   ANCHORS:
     streamflow.core.workflow.Workflow.save / Workflow.load / Workflow._save_additional_params / Workflow._load
     streamflow.core.workflow.Port.save / Port.load / Port._load
     streamflow.core.workflow.Step.save / Step.load / Step._load
     streamflow.workflow.step.ScatterStep._save_additional_params / _load
     streamflow.workflow.step.GatherStep._save_additional_params / _load
     streamflow.workflow.step.CombinatorStep._save_additional_params / _load
     streamflow.workflow.step.Combinator.save / Combinator.load / _save_additional_params / _load
     streamflow.workflow.combinator.CartesianProductCombinator / LoopTerminationCombinator (_save_additional_params, _load)
     streamflow.persistence.sqlite.SqliteDatabase.add_workflow / add_port / add_step / add_dependency (INSERT OR IGNORE,
       PRIMARY KEY (step, port)) / get_workflow / get_workflow_ports / get_workflow_steps / get_input_ports /
       get_output_ports / get_port / get_step
     streamflow.persistence.loading_context.DefaultDatabaseLoadingContext (memo of workflows, ports, steps)
     streamflow.persistence.loading_context.WorkflowBuilder (deep_copy=True)

   In memory ([pwf]): name, config (JSON), input_ports / output_ports (name -> port name), ports (name, class; the
   three generic port classes have no parameters), steps (name, kind, status, input / output dependency maps
   name -> port name).  Kinds (besides the three described next): parameterless classes, classes whose only parameter
   is the job port, ExecuteStep with its output_connectors map.  Kinds: ScatterStep (its size port is the output dependency "__size__"), GatherStep (depth; size
   port = input dependency "__size__"), CombinatorStep (a combinator tree: class with its own parameter, name, items,
   combinators_map, sub-combinators by key).
   In the database ([wdb]): the workflow / port / step / dependency tables; ids are row positions + 1 (nothing is
   ever deleted).  A step row's params hold the persistent id of the size port and the combinator tree with the
   workflow id in every node; a dependency row is (step id, port id, direction, name) and a second row with the
   same (step id, port id) is IGNORED, as the table's primary key and INSERT OR IGNORE make it.
   Loading: Workflow.load reads the row, then the port rows of the workflow (dict by name), then its step rows;
   Step.load rebuilds the step from its class and params (the size port must be loadable; every combinator node
   must name the workflow being loaded) and then REPLACES the dependency maps by what the dependency table says.

   Deliberately not modelled (stated, not hidden):
   * order: asyncio.gather interleaves the INSERTs of different steps, and SQLite returns dependency rows in
     primary-key order; both only permute ids / dict insertion order.  The model saves steps one after the other
     and reads dependencies in table order; dependency maps, ports and steps are compared as maps (by name) in the
     correspondence.
   * Python dicts cannot hold duplicate keys: duplicate port / step / dependency names are excluded by [ok_wf].
   * processors with a target, hardware requirements of a ScheduleStep, port classes with parameters, CWL step and
     port classes: outside the model.  Configuration objects shared between steps are saved once by the
     code and once per occurrence by this (tree) model; ids of configuration rows are compared up to renaming.
   * Workflow.load reads params.get("input_ports", {}) (commit eb1f2ee): a row written before input ports were
     persisted loads with an empty map; the model's rows always have the field, a missing key is presented to it
     as the empty map. *)
From Coq Require Import List Bool NArith ZArith Arith.
From SF Require Import Base.Str DbCache.Model Persist.Model Persist.CfgModel Persist.TreeModel.
Import ListNotations.
Local Open Scope string_scope. Local Open Scope list_scope.

(* ------------------------------------------------------------------ in memory *)
Inductive ccls := CDot | CCart (depth : Z) | CLoop | CLoopTerm (outs : list string).
Inductive pcomb :=
| PComb (cls : ccls) (name : string) (items : list string) (cmap : list (string * string))
        (keys : list string) (subs : list pcomb).

Inductive skind :=
| KScatter | KGather (depth : Z)
| KComb (loop : bool) (c : pcomb)        (* CombinatorStep / LoopCombinatorStep *)
| KPlain (cls : string)                  (* a step class without parameters of its own: subclasses of Transformer,
                                            ConditionalStep, LoopOutputStep *)
| KJobIn (cls : string)                  (* a class whose only parameter is its job port = input dependency "__job__":
                                            subclasses of TransferStep, InputInjectorStep *)
| KExecute (conns : list (string * string)) (pkeys : list string) (procs : list ptree) (cmd : option ptree)
                                         (* ExecuteStep: job port, output_connectors, output_processors (a dict of
                                            command output processor trees, Persist/TreeModel.v), optional command (a
                                            tree whose children are its command token processors) *)
| KDeploy (dc : pdeploy)                 (* DeployStep: its DeploymentConfig; connector port = output dependency named
                                            after the deployment *)
| KSchedule (b : pbinding) (prefix : string) (dirs : list jv).
                                         (* ScheduleStep: binding (targets, filters), job prefix, the three directories;
                                            job port = output "__job__"; connector ports = the inputs "__connector__*";
                                            no hardware requirement *)
Record pstep := mkstep { s_name : string; s_kind : skind; s_status : Z;
                         s_in : list (string * string); s_out : list (string * string) }.
Record pport := mkport { p_name : string; p_cls : string }.
Record pwf := mkwf { w_name : string; w_config : jv; w_inp : list (string * string); w_outp : list (string * string);
                     w_ports : list pport; w_steps : list pstep }.

(* ------------------------------------------------------------------ in the database *)
Inductive dcomb :=
| DComb (cls : ccls) (name : string) (wid : nat) (items : list string) (cmap : list (string * string))
        (keys : list string) (subs : list dcomb).
Inductive dparams :=
| DScatter (size_port : nat) | DGather (depth : Z) (size_port : nat) | DCombP (loop : bool) (c : dcomb)
| DPlain (cls : string) | DJobIn (cls : string) (job_port : nat)
| DExecute (job_port : nat) (conns : list (string * string)) (pkeys : list string) (procs : list dtree) (cmd : option dtree)
| DDeploy (deployment : nat) (connector_port : nat)
| DSchedule (targets filters : list nat) (job_port : nat) (conn_ports : list (string * nat)) (prefix : string) (dirs : list jv).

Record wrow := mkwrow { wr_name : string; wr_config : jv; wr_inp : list (string * string); wr_outp : list (string * string) }.
Record prow := mkprow { pr_name : string; pr_wf : nat; pr_cls : string }.
Record srow := mksrow { sr_name : string; sr_wf : nat; sr_status : Z; sr_params : dparams }.
Record drow := mkdrow { d_step : nat; d_port : nat; d_in : bool; d_name : string }.
Record wdb := mkwdb { t_wf : list wrow; t_port : list prow; t_step : list srow; t_dep : list drow; t_cfg : cdb }.

Definition row_at {A} (l : list A) (id : nat) : option A := match id with O => None | S k => nth_error l k end.

(* ------------------------------------------------------------------ combinator trees *)
Fixpoint save_comb (wid : nat) (c : pcomb) : dcomb :=
  match c with
  | PComb cls n it cm ks subs => DComb cls n wid it cm ks (map (save_comb wid) subs)
  end.

Fixpoint load_comb (wid : nat) (c : dcomb) : option pcomb :=
  match c with
  | DComb cls n w it cm ks subs =>
      if Nat.eqb w wid
      then option_map (PComb cls n it cm ks)
             ((fix go (l : list dcomb) : option (list pcomb) :=
                 match l with
                 | [] => Some []
                 | x :: r => match load_comb wid x with
                             | None => None
                             | Some y => match go r with None => None | Some ys => Some (y :: ys) end
                             end
                 end) subs)
      else None
  end.

(* ------------------------------------------------------------------ save *)
Fixpoint index_of (n : string) (l : list string) : option nat :=
  match l with
  | [] => None
  | x :: r => if String.eqb n x then Some O else option_map S (index_of n r)
  end.

(* workflow.ports[name].persistent_id, the ports having been saved in dict order after [P0] older rows *)
Definition port_id (P0 : nat) (ports : list pport) (n : string) : option nat :=
  option_map (fun i => S (P0 + i)) (index_of n (map p_name ports)).

(* INSERT OR IGNORE INTO dependency ... PRIMARY KEY (step, port) *)
Definition dep_insert (t : list drow) (r : drow) : list drow :=
  if existsb (fun r' => Nat.eqb (d_step r') (d_step r) && Nat.eqb (d_port r') (d_port r)) t then t else t ++ [r].

Definition dep_rows (pid : string -> option nat) (sid : nat) (is_in : bool) (l : list (string * string))
  : option (list drow) :=
  mapM (fun np => option_map (fun p => mkdrow sid p is_in (fst np)) (pid (snd np))) l.

Definition is_connector (np : string * string) : bool := startswith "__connector__" (fst np).

Definition conn_ids (pid : string -> option nat) (l : list (string * string)) : option (list (string * nat)) :=
  mapM (fun np => option_map (fun p => (fst np, p)) (pid (snd np))) (filter is_connector l).

(* the params of the step row; saving a DeployStep / ScheduleStep saves its configuration objects first *)
Definition step_params (pid : string -> option nat) (wid : nat) (s : pstep) (cfg : cdb) : option (dparams * cdb) :=
  match s_kind s with
  | KScatter => match alookup "__size__" (s_out s) with
                | Some pn => option_map (fun p => (DScatter p, cfg)) (pid pn)
                | None => None
                end
  | KGather dp => match alookup "__size__" (s_in s) with
                  | Some pn => option_map (fun p => (DGather dp p, cfg)) (pid pn)
                  | None => None
                  end
  | KComb lp c => Some (DCombP lp (save_comb wid c), cfg)
  | KPlain cls => Some (DPlain cls, cfg)
  | KJobIn cls => match alookup "__job__" (s_in s) with
                  | Some pn => option_map (fun p => (DJobIn cls p, cfg)) (pid pn)
                  | None => None
                  end
  | KExecute conns pkeys procs cmd =>
      match alookup "__job__" (s_in s) with
      | Some pn => option_map (fun j => (DExecute j conns pkeys (map (save_tree (Some wid)) procs)
                                                  (option_map (save_tree None) cmd), cfg)) (pid pn)
      | None => None
      end
  | KDeploy dc => match alookup (dp_name dc) (s_out s) with
                  | Some pn => option_map (fun p => (DDeploy (fst (save_deploy dc cfg)) p, snd (save_deploy dc cfg))) (pid pn)
                  | None => None
                  end
  | KSchedule b prefix dirs =>
      match alookup "__job__" (s_out s), conn_ids pid (s_in s) with
      | Some pn, Some cps =>
          option_map (fun j => (DSchedule (fst (fst (save_binding b cfg))) (snd (fst (save_binding b cfg))) j cps prefix dirs,
                                snd (save_binding b cfg))) (pid pn)
      | _, _ => None
      end
  end.

Fixpoint save_steps (pid : string -> option nat) (wid : nat) (steps : list pstep) (ts : list srow) (td : list drow)
                    (cfg : cdb) : option (list srow * list drow * cdb) :=
  match steps with
  | [] => Some (ts, td, cfg)
  | s :: rest =>
      let sid := S (length ts) in
      match step_params pid wid s cfg, dep_rows pid sid true (s_in s), dep_rows pid sid false (s_out s) with
      | Some (dp, cfg1), Some di, Some do =>
          save_steps pid wid rest (ts ++ [mksrow (s_name s) wid (s_status s) dp])
                     (fold_left dep_insert (di ++ do) td) cfg1
      | _, _, _ => None     (* a dependency on a port that is not in workflow.ports: KeyError *)
      end
  end.

Definition save_wf (w : pwf) (d : wdb) : option (nat * wdb) :=
  let wid := S (length (t_wf d)) in
  let tp := t_port d ++ map (fun p => mkprow (p_name p) wid (p_cls p)) (w_ports w) in
  match save_steps (port_id (length (t_port d)) (w_ports w)) wid (w_steps w) (t_step d) (t_dep d) (t_cfg d) with
  | Some (ts, td, cfg) =>
      Some (wid, mkwdb (t_wf d ++ [mkwrow (w_name w) (w_config w) (w_inp w) (w_outp w)]) tp ts td cfg)
  | None => None
  end.

(* ------------------------------------------------------------------ load *)
Fixpoint with_ids {A} (base : nat) (l : list A) : list (nat * A) :=
  match l with
  | [] => []
  | x :: r => (S base, x) :: with_ids (S base) r
  end.

Definition load_deps (tp : list prow) (tdp : list drow) (sid : nat) (is_in : bool) : option (list (string * string)) :=
  mapM (fun r => option_map (fun p => (d_name r, pr_name p)) (row_at tp (d_port r)))
       (filter (fun r => Nat.eqb (d_step r) sid && Bool.eqb (d_in r) is_in) tdp).

Definition load_kind (tp : list prow) (cfg : cdb) (wid : nat) (p : dparams) : option skind :=
  match p with
  | DScatter sz => match row_at tp sz with Some _ => Some KScatter | None => None end
  | DGather dp sz => match row_at tp sz with Some _ => Some (KGather dp) | None => None end
  | DCombP lp c => option_map (KComb lp) (load_comb wid c)
  | DPlain cls => Some (KPlain cls)
  | DJobIn cls jp => match row_at tp jp with Some _ => Some (KJobIn cls) | None => None end
  | DExecute jp conns pkeys dprocs dcmd =>
      match row_at tp jp, load_trees (Some wid) dprocs with
      | Some _, Some procs =>
          match dcmd with
          | None => Some (KExecute conns pkeys procs None)
          | Some d => option_map (fun c => KExecute conns pkeys procs (Some c)) (load_tree None d)
          end
      | _, _ => None
      end
  | DDeploy did cp => match load_deploy cfg did, row_at tp cp with
                      | Some dc, Some _ => Some (KDeploy dc)
                      | _, _ => None
                      end
  | DSchedule tids fids jp cps prefix dirs =>
      match load_binding cfg (tids, fids), row_at tp jp with
      | Some b, Some _ =>
          if forallb (fun cp => match row_at tp (snd cp) with Some _ => true | None => false end) cps
          then Some (KSchedule b prefix dirs) else None
      | _, _ => None
      end
  end.

Definition load_step (tp : list prow) (tdp : list drow) (cfg : cdb) (wid : nat) (ir : nat * srow) : option pstep :=
  match load_kind tp cfg wid (sr_params (snd ir)) with
  | None => None
  | Some k =>
      match load_deps tp tdp (fst ir) true, load_deps tp tdp (fst ir) false with
      | Some i, Some o => Some (mkstep (sr_name (snd ir)) k (sr_status (snd ir)) i o)
      | _, _ => None
      end
  end.

Definition load_wf (d : wdb) (wid : nat) : option pwf :=
  match row_at (t_wf d) wid with
  | None => None
  | Some r =>
      let ports := map (fun ip => mkport (pr_name (snd ip)) (pr_cls (snd ip)))
                       (filter (fun ip => Nat.eqb (pr_wf (snd ip)) wid) (with_ids 0 (t_port d))) in
      match mapM (load_step (t_port d) (t_dep d) (t_cfg d) wid)
                 (filter (fun ir => Nat.eqb (sr_wf (snd ir)) wid) (with_ids 0 (t_step d))) with
      | Some steps => Some (mkwf (wr_name r) (wr_config r) (wr_inp r) (wr_outp r) ports steps)
      | None => None
      end
  end.

(* WorkflowBuilder(deep_copy=True).load_workflow: the same loader, persistent ids dropped afterwards; step
   statuses are reset to WAITING (0) on purpose *)
Definition builder_copy (d : wdb) (wid : nat) : option pwf :=
  option_map (fun w => mkwf (w_name w) (w_config w) (w_inp w) (w_outp w) (w_ports w)
                            (map (fun s => mkstep (s_name s) (s_kind s) 0%Z (s_in s) (s_out s)) (w_steps w)))
             (load_wf d wid).

(* ------------------------------------------------------------------ domain *)
Fixpoint mem (n : string) (l : list string) : bool :=
  match l with [] => false | x :: r => String.eqb n x || mem n r end.
Fixpoint nodupb (l : list string) : bool :=
  match l with [] => true | x :: r => negb (mem x r) && nodupb r end.

(* a step refers to existing ports, to each of them under ONE name only (the dependency table cannot say more:
   known finding of C08), its dependency maps are dicts, and it has the size port its class needs *)
Definition ok_step (names : list string) (s : pstep) : bool :=
  nodupb (map snd (s_in s ++ s_out s)) &&
  forallb (fun pn => mem pn names) (map snd (s_in s ++ s_out s)) &&
  nodupb (map fst (s_in s)) && nodupb (map fst (s_out s)) &&
  match s_kind s with
  | KScatter => match alookup "__size__" (s_out s) with Some _ => true | None => false end
  | KGather _ => match alookup "__size__" (s_in s) with Some _ => true | None => false end
  | KJobIn _ | KExecute _ _ _ _ => match alookup "__job__" (s_in s) with Some _ => true | None => false end
  | KDeploy dc => match alookup (dp_name dc) (s_out s) with Some _ => true | None => false end
  | KSchedule _ _ _ => match alookup "__job__" (s_out s) with Some _ => true | None => false end
  | KComb _ _ | KPlain _ => true
  end.

Definition ok_wf (w : pwf) : bool :=
  nodupb (map p_name (w_ports w)) && nodupb (map s_name (w_steps w)) &&
  forallb (ok_step (map p_name (w_ports w))) (w_steps w).

(* rows only refer to workflows / steps that exist (true of every database the code has written) *)
Definition ok_db (d : wdb) : bool :=
  forallb (fun r => Nat.leb (pr_wf r) (length (t_wf d))) (t_port d) &&
  forallb (fun r => Nat.leb (sr_wf r) (length (t_wf d))) (t_step d) &&
  forallb (fun r => Nat.leb (d_step r) (length (t_step d))) (t_dep d).
