(* Shell/Model.v — how StreamFlow builds POSIX-shell command lines, and how /bin/sh reads them.
   Definitions only (the correspondence keeps running when a proof breaks).

   ANCHORS:
     shlex.quote                                              -> quote
     streamflow.core.utils.create_command                     -> create_command
     streamflow.deployment.shell._build_shell_command         -> build_inner / build_shell_command
     streamflow.deployment.template.CommandTemplateMap.get_command (streamflow_environment) -> template_env
   The reader side, [sh_lex], is a fragment of the POSIX token recogniser (XCU 2.3) + quote removal
   (2.2, 2.6.7): blanks, '…', "…" with backslash escapes, the operators ; & && | || newline and the
   redirection operators < > >> >& <& with a one-digit IO number.  It answers [None] as soon as a
   character would be *interpreted* in a way the fragment does not cover (expansion by $ or `,
   unquoted backslash, glob characters, ~ # ( ) { } !, here-documents, any unquoted character outside
   the shlex "safe" set, an all-digit word in front of a redirection).  So [sh_lex s = Some ts] is a
   positive statement: every character of every word of [ts] reached the command verbatim.
   General on purpose: C24 (remote paths), C22 and C30 reuse [quote], [sh_lex] and the lemmas of
   Shell/Proofs.v. *)
From Coq Require Import Ascii Bool NArith.
From SF Require Import Base.Str.
Import ListNotations.
Local Open Scope list_scope. Local Open Scope string_scope.   (* ++ is string append; list append is written app *)

(* ---------------------------------------------------------------- characters *)
Definition ch (c : ascii) : string := String c EmptyString.
Definition code (c : ascii) : N := N_of_ascii c.
Definition between (lo hi : N) (c : ascii) : bool := (N.leb lo (code c)) && (N.leb (code c) hi).
Definition is_digit (c : ascii) : bool := between 48 57 c.
Definition is_alpha (c : ascii) : bool := between 65 90 c || between 97 122 c.

Definition c_sq : ascii := "'"%char.
Definition c_dq : ascii := """"%char.
Definition c_nl : ascii := "010"%char.
Definition c_tab : ascii := "009"%char.
Definition c_bs : ascii := "\"%char.
Definition c_dollar : ascii := "$"%char.
Definition c_bq : ascii := "`"%char.

(* shlex: _find_unsafe = re.compile(r'[^\w@%+=:,./-]', re.ASCII).search *)
Definition safe_char (c : ascii) : bool :=
  is_alpha c || is_digit c ||
  existsb (Ascii.eqb c) ["_"; "@"; "%"; "+"; "="; ":"; ","; "."; "/"; "-"]%char.

Fixpoint all_chars (p : ascii -> bool) (s : string) : bool :=
  match s with
  | EmptyString => true
  | String c s' => p c && all_chars p s'
  end.

(* ---------------------------------------------------------------- shlex.quote *)
(* s.replace("'", "'\"'\"'") *)
Fixpoint esc_sq (s : string) : string :=
  match s with
  | EmptyString => EmptyString
  | String c s' =>
      if Ascii.eqb c c_sq then String c_sq (String c_dq (String c_sq (String c_dq (String c_sq (esc_sq s')))))
      else String c (esc_sq s')
  end.

Definition quote (s : string) : string :=
  match s with
  | EmptyString => "''"
  | _ => if all_chars safe_char s then s else String c_sq (esc_sq s ++ ch c_sq)
  end.

(* ---------------------------------------------------------------- /bin/sh token recogniser *)
Inductive tok := W (w : string) | Op (o : string).
Inductive mode := Norm | SQ | DQ.

Definition tok_eqb (a b : tok) : bool :=
  match a, b with
  | W x, W y => String.eqb x y
  | Op x, Op y => String.eqb x y
  | _, _ => false
  end.

Definition is_blank (c : ascii) : bool := Ascii.eqb c " "%char || Ascii.eqb c c_tab.
(* inside "…": backslash keeps its special meaning only before these *)
Definition dq_escapable (c : ascii) : bool :=
  Ascii.eqb c c_dollar || Ascii.eqb c c_bq || Ascii.eqb c c_dq || Ascii.eqb c c_bs.
Definition is_redir (c : ascii) : bool := Ascii.eqb c ">"%char || Ascii.eqb c "<"%char.
Definition snoc (s : string) (c : ascii) : string := s ++ ch c.

(* the operator that starts with the redirection character [c]; [s] is what follows it.
   Result: operator text and whether one more character of [s] belongs to it. None: here-document. *)
Definition redir_op (c : ascii) (s : string) : option (string * bool) :=
  match s with
  | String d _ =>
      if Ascii.eqb d "&"%char then Some (ch c ++ "&", true)
      else if Ascii.eqb c ">"%char && Ascii.eqb d ">"%char then Some (">>", true)
      else if Ascii.eqb c "<"%char && Ascii.eqb d "<"%char then None
      else if Ascii.eqb c "<"%char && Ascii.eqb d ">"%char then None
      else if Ascii.eqb c ">"%char && Ascii.eqb d "|"%char then None
      else Some (ch c, false)
  | EmptyString => Some (ch c, false)
  end.

(* [inw]: a word is in progress (so that '' yields an empty word); [cur]: its text so far;
   [acc]: tokens already delimited. *)
Fixpoint lex (m : mode) (inw : bool) (cur : string) (acc : list tok) (s : string) {struct s}
  : option (list tok) :=
  let flush := if inw then app acc [W cur] else acc in
  match s with
  | EmptyString => match m with Norm => Some flush | _ => None end
  | String c s' =>
    match m with
    | SQ => if Ascii.eqb c c_sq then lex Norm true cur acc s' else lex SQ true (snoc cur c) acc s'
    | DQ =>
        if Ascii.eqb c c_dq then lex Norm true cur acc s'
        else if Ascii.eqb c c_dollar || Ascii.eqb c c_bq then None
        else if Ascii.eqb c c_bs then
          match s' with
          | String d s'' =>
              if dq_escapable d then lex DQ true (snoc cur d) acc s''
              else if Ascii.eqb d c_nl then None
              else lex DQ true (snoc cur c) acc s'
          | EmptyString => None
          end
        else lex DQ true (snoc cur c) acc s'
    | Norm =>
        if Ascii.eqb c c_sq then lex SQ true cur acc s'
        else if Ascii.eqb c c_dq then lex DQ true cur acc s'
        else if is_blank c then lex Norm false EmptyString flush s'
        else if Ascii.eqb c c_nl then lex Norm false EmptyString (app flush [Op (ch c_nl)]) s'
        else if Ascii.eqb c ";"%char then lex Norm false EmptyString (app flush [Op ";"]) s'
        else if Ascii.eqb c "&"%char || Ascii.eqb c "|"%char then
          match s' with
          | String d s'' =>
              if Ascii.eqb d c then lex Norm false EmptyString (app flush [Op (ch c ++ ch c)]) s''
              else lex Norm false EmptyString (app flush [Op (ch c)]) s'
          | EmptyString => lex Norm false EmptyString (app flush [Op (ch c)]) s'
          end
        else if is_redir c then
          if inw && all_chars is_digit cur then None     (* IO number of several digits / quoted digits: not modelled *)
          else match redir_op c s' with
               | None => None
               | Some (o, false) => lex Norm false EmptyString (app flush [Op o]) s'
               | Some (o, true) =>
                   match s' with
                   | String _ s'' => lex Norm false EmptyString (app flush [Op o]) s''
                   | EmptyString => None
                   end
               end
        else if safe_char c then
          (* one unquoted digit at the start of a word, immediately followed by < or >: IO number *)
          if negb inw && is_digit c then
            match s' with
            | String d s'' =>
                if is_redir d then
                  match redir_op d s'' with
                  | None => None
                  | Some (o, false) => lex Norm false EmptyString (app acc [Op (ch c ++ o)]) s''
                  | Some (o, true) =>
                      match s'' with
                      | String _ s3 => lex Norm false EmptyString (app acc [Op (ch c ++ o)]) s3
                      | EmptyString => None
                      end
                  end
                else lex Norm true (snoc cur c) acc s'
            | EmptyString => lex Norm true (snoc cur c) acc s'
            end
          else lex Norm true (snoc cur c) acc s'
        else None
    end
  end.

Definition sh_lex (s : string) : option (list tok) := lex Norm false EmptyString [] s.

Fixpoint words_of (ts : list tok) : option (list string) :=
  match ts with
  | [] => Some []
  | W w :: r => option_map (cons w) (words_of r)
  | Op _ :: _ => None
  end.

(* the argument vector of a line that is one simple command without operators *)
Definition sh_words (s : string) : option (list string) :=
  match sh_lex s with Some ts => words_of ts | None => None end.

(* ---------------------------------------------------------------- streamflow.core.utils.create_command *)
(* asyncio.subprocess: PIPE = -1, STDOUT = -2, DEVNULL = -3; anything else reaching here is a str *)
Inductive stream := SPipe | SStdout | SDevnull | SStr (s : string).
Inductive cerr := ErrStdoutPipe.

Definition stream_eqb (a b : stream) : bool :=
  match a, b with
  | SPipe, SPipe | SStdout, SStdout | SDevnull, SDevnull => true
  | SStr x, SStr y => String.eqb x y
  | _, _ => false
  end.

(* str(x) for the values that reach shlex.quote(str(x)) *)
Definition stream_str (a : stream) : string :=
  match a with SPipe => "-1" | SStdout => "-2" | SDevnull => "-3" | SStr s => s end.

Definition env := list (string * string).
(* "".join(l) *)
Definition cat (l : list string) : string := fold_right String.append EmptyString l.

(* f"export {key}={shlex.quote(value)} && "  (after the fix of this property; before it: export K="v" && ) *)
Definition export_and (kv : string * string) : string :=
  "export " ++ fst kv ++ "=" ++ quote (snd kv) ++ " && ".

Definition stdin_str (stdin : option stream) : string :=
  match stdin with
  | None | Some SDevnull => ""
  | Some x => " < " ++ quote (stream_str x)
  end.
Definition stderr_str (stdout stderr : stream) : string :=
  (* if stderr == DEVNULL: stderr = "/dev/null" *)
  let stderr1 := match stderr with SDevnull => SStr "/dev/null" | x => x end in
  if stream_eqb stderr1 stdout then " 2>&1"
  else match stderr1 with
       | SStdout => ""
       | x => " 2>" ++ quote (stream_str x)
       end.
Definition stdout_str (stdout : stream) : string :=
  match stdout with
  | SDevnull => " > /dev/null"
  | SStdout | SPipe => ""
  | x => " > " ++ quote (stream_str x)
  end.

Definition create_command (command : list string) (environment : option env) (workdir : option string)
    (stdin : option stream) (stdout stderr : stream) : string + cerr :=
  match stdout with
  | SPipe => inr ErrStdoutPipe
  | _ =>
    (* the later test [stderr == PIPE] compares a str with an int: never true *)
    inl ((match workdir with Some w => "cd " ++ quote w ++ " && " | None => "" end)
         ++ (match environment with Some e => cat (map export_and e) | None => "" end)
         ++ join " " command ++ stdin_str stdin ++ stdout_str stdout ++ stderr_str stdout stderr)
  end.

(* ---------------------------------------------------------------- streamflow.deployment.shell._build_shell_command *)
Definition nonempty_env (e : option env) : bool := match e with Some (_ :: _) => true | _ => false end.
Definition nonempty_str (s : option string) : bool :=
  match s with Some (String _ _) => true | _ => false end.

(* ' && '.join(subshell_parts) *)
Definition build_inner (command : list string) (environment : option env) (workdir : option string) : string :=
  join " && "
    (app (if nonempty_str workdir then match workdir with Some w => ["cd " ++ quote w] | None => [] end else [])
     (app (if nonempty_env environment
         then match environment with
              | Some e => map (fun kv => "export " ++ fst kv ++ "=" ++ quote (snd kv)) e
              | None => [] end
         else [])
      [join " " command])).

(* the first line written to the persistent shell: always a child shell, with an empty standard input *)
Definition build_cmd_line (command : list string) (environment : option env) (workdir : option string) : string :=
  "sh -c " ++ quote (build_inner command environment workdir) ++ " < /dev/null 2>&1".

Definition build_shell_command (marker : string) (command : list string) (environment : option env)
    (workdir : option string) : string :=
  build_cmd_line command environment workdir ++ ch c_nl ++ "echo """ ++ marker ++ ":$?""" ++ ch c_nl.

(* ---------------------------------------------------------------- CommandTemplateMap.get_command *)
(* streamflow_environment = " && ".join(f'export {key}="{value}"' ...)   — the code as it is (see C25 notes) *)
Definition template_export (kv : string * string) : string :=
  "export " ++ fst kv ++ "=""" ++ snd kv ++ """".
Definition template_env (environment : option env) : string :=
  match environment with Some e => join " && " (map template_export e) | None => "" end.
