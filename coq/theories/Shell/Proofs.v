(* Shell/Proofs.v — what /bin/sh's token recogniser (fragment [lex]) makes of text built with
   shlex.quote.  The step lemmas ([lex_quote], [lex_plain], [lex_lit_*]) rewrite a command line from left
   to right and are the reusable interface for every property that interpolates into a shell line. *)
From Coq Require Import Ascii Bool NArith Lia.
From SF Require Import Base.Str Shell.Model.
Import ListNotations.
Local Open Scope list_scope. Local Open Scope string_scope.

(* ---------------------------------------------------------------- strings *)
Lemma snoc_app cur c s : snoc cur c ++ s = cur ++ String c s.
Proof. unfold snoc, ch. rewrite append_assoc. reflexivity. Qed.

Lemma all_chars_app p a b : all_chars p (a ++ b) = all_chars p a && all_chars p b.
Proof. induction a as [|c a IH]; simpl; [reflexivity|]. rewrite IH. apply andb_assoc. Qed.

(* ---------------------------------------------------------------- character classes *)
Definition no_redir_head (s : string) : bool :=
  match s with String d _ => negb (is_redir d) | EmptyString => true end.

Lemma safe_class c : safe_char c = true ->
  Ascii.eqb c c_sq = false /\ Ascii.eqb c c_dq = false /\ is_blank c = false /\
  Ascii.eqb c c_nl = false /\ Ascii.eqb c ";"%char = false /\
  (Ascii.eqb c "&"%char || Ascii.eqb c "|"%char) = false /\ is_redir c = false.
Proof.
  destruct c as [[|] [|] [|] [|] [|] [|] [|] [|]]; vm_compute; intros H;
    try discriminate H; repeat split; reflexivity.
Qed.

(* one unquoted safe character, when no redirection follows it *)
Lemma lex_safe1 c s inw cur acc :
  safe_char c = true -> no_redir_head s = true ->
  lex Norm inw cur acc (String c s) = lex Norm true (snoc cur c) acc s.
Proof.
  intros Hs Hr. destruct (safe_class c Hs) as (H1 & H2 & H3 & H4 & H5 & H6 & H7).
  cbn [lex]. rewrite H1, H2, H3, H4, H5, H6, H7, Hs.
  destruct (negb inw && is_digit c); [|reflexivity].
  destruct s as [|d s]; [reflexivity|]. simpl in Hr.
  destruct (is_redir d); [discriminate|reflexivity].
Qed.

Lemma no_redir_head_app p rest :
  all_chars safe_char p = true -> no_redir_head rest = true -> no_redir_head (p ++ rest) = true.
Proof.
  destruct p as [|c p]; simpl; intros Hp Hr; [exact Hr|].
  apply andb_true_iff in Hp. destruct Hp as [Hc _].
  destruct (safe_class c Hc) as (_ & _ & _ & _ & _ & _ & H7). rewrite H7. reflexivity.
Qed.

Definition nonempty (s : string) : bool := match s with EmptyString => false | _ => true end.

(* a run of unquoted safe characters extends the current word *)
Lemma lex_plain p : forall inw cur acc rest,
  all_chars safe_char p = true -> no_redir_head rest = true ->
  lex Norm inw cur acc (p ++ rest) = lex Norm (inw || nonempty p) (cur ++ p) acc rest.
Proof.
  induction p as [|c p IH]; intros inw cur acc rest Hp Hr.
  - simpl. rewrite orb_false_r, append_nil_r. reflexivity.
  - simpl in Hp. apply andb_true_iff in Hp. destruct Hp as [Hc Hp].
    change (String c p ++ rest) with (String c (p ++ rest)).
    rewrite lex_safe1; [|exact Hc|apply no_redir_head_app; assumption].
    rewrite IH by assumption. simpl. rewrite orb_true_r, snoc_app. reflexivity.
Qed.

(* ---------------------------------------------------------------- shlex.quote, slow path *)
Lemma lex_sq_body s : forall cur acc rest,
  lex SQ true cur acc (esc_sq s ++ String c_sq rest) = lex Norm true (cur ++ s) acc rest.
Proof.
  induction s as [|c s IH]; intros cur acc rest.
  - simpl. rewrite append_nil_r. reflexivity.
  - cbn [esc_sq]. destruct (Ascii.eqb c c_sq) eqn:E.
    + apply Ascii.eqb_eq in E. subst c.
      change (lex SQ true cur acc
                (String c_sq (String c_dq (String c_sq (String c_dq (String c_sq (esc_sq s ++ String c_sq rest)))))) =
              lex Norm true (cur ++ String c_sq s) acc rest).
      cbn [lex]. change (Ascii.eqb c_sq c_sq) with true. change (Ascii.eqb c_dq c_sq) with false.
      change (Ascii.eqb c_dq c_dq) with true. change (Ascii.eqb c_sq c_dq) with false.
      change (Ascii.eqb c_sq c_dollar || Ascii.eqb c_sq c_bq) with false.
      change (Ascii.eqb c_sq c_bs) with false. cbv iota.
      rewrite IH. rewrite snoc_app. reflexivity.
    + change (String c (esc_sq s) ++ String c_sq rest) with (String c (esc_sq s ++ String c_sq rest)).
      cbn [lex]. rewrite E. rewrite IH. rewrite snoc_app. reflexivity.
Qed.

(* THE lemma: whatever the string, its shlex.quote image adds exactly that string to the current word *)
Lemma lex_quote s inw cur acc rest :
  no_redir_head rest = true ->
  lex Norm inw cur acc (quote s ++ rest) = lex Norm true (cur ++ s) acc rest.
Proof.
  intros Hr. destruct s as [|c s].
  - simpl. rewrite append_nil_r. reflexivity.
  - unfold quote. destruct (all_chars safe_char (String c s)) eqn:E.
    + rewrite lex_plain by assumption. simpl. rewrite orb_true_r. reflexivity.
    + change (String c_sq (esc_sq (String c s) ++ ch c_sq) ++ rest)
        with (String c_sq ((esc_sq (String c s) ++ ch c_sq) ++ rest)).
      rewrite append_assoc. change (ch c_sq ++ rest) with (String c_sq rest).
      cbn [lex]. change (Ascii.eqb c_sq c_sq) with true. cbv iota.
      apply lex_sq_body.
Qed.

(* ---------------------------------------------------------------- literal pieces (by computation) *)
Definition flushed (inw : bool) (cur : string) (acc : list tok) : list tok :=
  if inw then app acc [W cur] else acc.

Lemma lex_end inw cur acc : lex Norm inw cur acc EmptyString = Some (flushed inw cur acc).
Proof. reflexivity. Qed.
Lemma lex_lit_blank inw cur acc rest :
  lex Norm inw cur acc (" " ++ rest) = lex Norm false EmptyString (flushed inw cur acc) rest.
Proof. reflexivity. Qed.
Lemma lex_lit_andand inw cur acc rest :
  lex Norm inw cur acc (" && " ++ rest) = lex Norm false EmptyString (app (flushed inw cur acc) [Op "&&"]) rest.
Proof. reflexivity. Qed.
Lemma lex_lit_semi inw cur acc rest :
  lex Norm inw cur acc ("; " ++ rest) = lex Norm false EmptyString (app (flushed inw cur acc) [Op ";"]) rest.
Proof. reflexivity. Qed.
Lemma lex_lit_cd acc rest :
  lex Norm false EmptyString acc ("cd " ++ rest) = lex Norm false EmptyString (app acc [W "cd"]) rest.
Proof. reflexivity. Qed.
Lemma lex_lit_export acc rest :
  lex Norm false EmptyString acc ("export " ++ rest) = lex Norm false EmptyString (app acc [W "export"]) rest.
Proof. reflexivity. Qed.
Lemma lex_lit_eq cur acc rest :
  lex Norm true cur acc ("=" ++ rest) = lex Norm true (cur ++ "=") acc rest.
Proof. reflexivity. Qed.
Lemma lex_lit_in inw cur acc rest :
  lex Norm inw cur acc (" < " ++ rest) = lex Norm false EmptyString (app (flushed inw cur acc) [Op "<"]) rest.
Proof. reflexivity. Qed.
Lemma lex_lit_out inw cur acc rest :
  lex Norm inw cur acc (" > " ++ rest) = lex Norm false EmptyString (app (flushed inw cur acc) [Op ">"]) rest.
Proof. reflexivity. Qed.
Lemma quote_head s rest : exists a r, quote s ++ rest = String a r /\ (Ascii.eqb a c_sq = true \/ safe_char a = true).
Proof.
  destruct s as [|c s]; [exists c_sq; eexists; split; [reflexivity|left; reflexivity]|].
  unfold quote. destruct (all_chars safe_char (String c s)) eqn:E.
  - exists c; eexists; split; [reflexivity|]. simpl in E. apply andb_true_iff in E. right; tauto.
  - exists c_sq; eexists; split; [reflexivity|left; reflexivity].
Qed.
Lemma lex_lit_err inw cur acc s rest :
  lex Norm inw cur acc (" 2>" ++ quote s ++ rest)
  = lex Norm false EmptyString (app (flushed inw cur acc) [Op "2>"]) (quote s ++ rest).
Proof.
  destruct (quote_head s rest) as (a & r & -> & Ha).
  assert (Ascii.eqb a "&"%char = false /\ Ascii.eqb a ">"%char = false /\ Ascii.eqb a "|"%char = false) as (H1 & H2 & H3).
  { destruct Ha as [Ha|Ha].
    - apply Ascii.eqb_eq in Ha. subst a. repeat split; reflexivity.
    - destruct (safe_class a Ha) as (_ & _ & _ & _ & _ & H6 & H7).
      apply orb_false_iff in H6. unfold is_redir in H7. apply orb_false_iff in H7. tauto. }
  change (" 2>" ++ String a r) with (String " " (String "2" (String ">" (String a r)))).
  cbn [lex]. change (Ascii.eqb " " c_sq) with false. change (Ascii.eqb " " c_dq) with false.
  change (is_blank " ") with true. cbv iota.
  change (Ascii.eqb "2" c_sq) with false. change (Ascii.eqb "2" c_dq) with false.
  change (is_blank "2") with false. change (Ascii.eqb "2" c_nl) with false.
  change (Ascii.eqb "2" ";") with false. change (Ascii.eqb "2" "&" || Ascii.eqb "2" "|") with false.
  change (is_redir "2") with false. change (safe_char "2") with true.
  change (negb false && is_digit "2") with true. change (is_redir ">") with true. cbv iota.
  unfold redir_op. rewrite H1. change (Ascii.eqb ">" ">") with true. rewrite H2.
  change (Ascii.eqb ">" "<") with false. rewrite H3. cbn [andb]. cbv iota.
  unfold flushed. destruct inw; reflexivity.
Qed.
Lemma lex_lit_err2out inw cur acc :
  lex Norm inw cur acc " 2>&1" = Some (app (app (flushed inw cur acc) [Op "2>&"]) [W "1"]).
Proof. reflexivity. Qed.
Lemma lex_lit_sh_c acc rest :
  lex Norm false EmptyString acc ("sh -c " ++ rest) = lex Norm false EmptyString (app (app acc [W "sh"]) [W "-c"]) rest.
Proof. reflexivity. Qed.

(* ---------------------------------------------------------------- one quoted word, a list of quoted words *)
Theorem quote_verbatim s : sh_lex (quote s) = Some [W s].
Proof.
  unfold sh_lex. rewrite <- (append_nil_r (quote s)).
  rewrite lex_quote by reflexivity. reflexivity.
Qed.

(* [cmd] is shell text that lexes to [ts] wherever it stands at the start of a word and is followed by
   nothing or by a blank: the shape of " ".join(command) that StreamFlow's call sites produce *)
Definition cmd_ok (cmd : string) (ts : list tok) : Prop :=
  forall acc rest, rest = EmptyString \/ (exists r, rest = String " " r) ->
    lex Norm false EmptyString acc (cmd ++ rest) = lex Norm false EmptyString (app acc ts) rest.

Lemma blank_head_no_redir rest :
  rest = EmptyString \/ (exists r, rest = String " " r) -> no_redir_head rest = true.
Proof. intros [->|[r ->]]; reflexivity. Qed.

Lemma cmd_ok_quoted args : args <> [] -> cmd_ok (join " " (map quote args)) (map W args).
Proof.
  induction args as [|a args IH]; intros Hne; [congruence|].
  intros acc rest Hrest. destruct args as [|b args].
  - simpl. rewrite lex_quote by (apply blank_head_no_redir; exact Hrest).
    destruct Hrest as [->|[r ->]]; reflexivity.
  - change (join " " (map quote (a :: b :: args)))
      with (quote a ++ " " ++ join " " (map quote (b :: args))).
    rewrite append_assoc. rewrite lex_quote by reflexivity.
    rewrite append_assoc. rewrite lex_lit_blank. simpl flushed.
    rewrite (IH ltac:(discriminate) _ rest Hrest).
    rewrite <- app_assoc. reflexivity.
Qed.

Theorem join_verbatim args : sh_lex (join " " (map quote args)) = Some (map W args).
Proof.
  destruct args as [|a args]; [reflexivity|].
  unfold sh_lex. rewrite <- (append_nil_r (join " " (map quote (a :: args)))).
  rewrite (cmd_ok_quoted (a :: args) ltac:(discriminate) [] EmptyString (or_introl eq_refl)).
  reflexivity.
Qed.

Lemma words_of_map_W l : words_of (map W l) = Some l.
Proof. induction l as [|x l IH]; simpl; [reflexivity|]. rewrite IH. reflexivity. Qed.

Theorem join_words args : sh_words (join " " (map quote args)) = Some args.
Proof. unfold sh_words. rewrite join_verbatim. apply words_of_map_W. Qed.

(* ---------------------------------------------------------------- create_command *)
Definition key_ok (k : string) : bool := nonempty k && all_chars safe_char k.

Definition export_toks (sep : string) (e : env) : list tok :=
  flat_map (fun kv => [W "export"; W (fst kv ++ "=" ++ snd kv); Op sep]) e.

Lemma lex_exports e : forall acc rest,
  forallb (fun kv => key_ok (fst kv)) e = true ->
  lex Norm false EmptyString acc (cat (map export_and e) ++ rest)
  = lex Norm false EmptyString (app acc (export_toks "&&" e)) rest.
Proof.
  induction e as [|[k v] e IH]; intros acc rest Hk.
  - simpl. rewrite app_nil_r. reflexivity.
  - simpl in Hk. apply andb_true_iff in Hk. destruct Hk as [Hk He].
    unfold key_ok in Hk. apply andb_true_iff in Hk. destruct Hk as [Hne Hsafe].
    change (cat (map export_and ((k, v) :: e))) with (export_and (k, v) ++ cat (map export_and e)).
    unfold export_and. cbn [fst snd]. rewrite !append_assoc.
    rewrite lex_lit_export.
    rewrite lex_plain by (try assumption; reflexivity).
    cbn [orb]. rewrite Hne. change (EmptyString ++ k) with k.
    rewrite lex_lit_eq.
    rewrite lex_quote by reflexivity.
    rewrite lex_lit_andand. cbn [flushed].
    rewrite IH by exact He.
    f_equal. cbn [export_toks flat_map]. rewrite append_assoc.
    rewrite <- !app_assoc. reflexivity.
Qed.

Definition wd_toks (sep : string) (w : option string) : list tok :=
  match w with Some w => [W "cd"; W w; Op sep] | None => [] end.
Definition opt_env (e : option env) : env := match e with Some e => e | None => [] end.

Definition stdin_toks (i : option stream) : list tok :=
  match i with None | Some SDevnull => [] | Some x => [Op "<"; W (stream_str x)] end.
Definition stdout_toks (o : stream) : list tok :=
  match o with SStdout | SPipe => [] | SDevnull => [Op ">"; W "/dev/null"] | SStr f => [Op ">"; W f] end.
Definition stderr_toks (o e : stream) : list tok :=
  let e1 := match e with SDevnull => SStr "/dev/null" | x => x end in
  if stream_eqb e1 o then [Op "2>&"; W "1"]
  else match e1 with SStdout => [] | x => [Op "2>"; W (stream_str x)] end.

Definition blankhead (rest : string) : Prop := rest = EmptyString \/ (exists r, rest = String " " r).

Lemma lex_stdin i inw cur acc rest : blankhead rest ->
  exists inw' cur' acc', lex Norm inw cur acc (stdin_str i ++ rest) = lex Norm inw' cur' acc' rest /\
    flushed inw' cur' acc' = app (flushed inw cur acc) (stdin_toks i).
Proof.
  intros Hb. pose proof (blank_head_no_redir rest Hb) as Hr.
  assert (Hn : exists inw' cur' acc', lex Norm inw cur acc rest = lex Norm inw' cur' acc' rest /\
               flushed inw' cur' acc' = app (flushed inw cur acc) [])
    by (exists inw, cur, acc; rewrite app_nil_r; split; reflexivity).
  destruct i as [[| | |s]|]; unfold stdin_str, stdin_toks; cbn [stream_str]; try exact Hn;
    rewrite append_assoc, lex_lit_in, lex_quote by exact Hr; eexists _, _, _; (split; [reflexivity|]);
    cbn [flushed append]; rewrite <- app_assoc; reflexivity.
Qed.

Lemma lex_lit_out_devnull inw cur acc rest :
  lex Norm inw cur acc (" > /dev/null" ++ rest) = lex Norm true "/dev/null" (app (flushed inw cur acc) [Op ">"]) rest.
Proof. reflexivity. Qed.

Lemma lex_stdout o inw cur acc rest : blankhead rest ->
  exists inw' cur' acc', lex Norm inw cur acc (stdout_str o ++ rest) = lex Norm inw' cur' acc' rest /\
    flushed inw' cur' acc' = app (flushed inw cur acc) (stdout_toks o).
Proof.
  intros Hb. pose proof (blank_head_no_redir rest Hb) as Hr.
  assert (Hn : exists inw' cur' acc', lex Norm inw cur acc rest = lex Norm inw' cur' acc' rest /\
               flushed inw' cur' acc' = app (flushed inw cur acc) [])
    by (exists inw, cur, acc; rewrite app_nil_r; split; reflexivity).
  destruct o as [| | |s]; unfold stdout_str, stdout_toks; cbn [stream_str]; try exact Hn.
  - rewrite lex_lit_out_devnull. eexists _, _, _. split; [reflexivity|].
    cbn [flushed]. rewrite <- app_assoc. reflexivity.
  - rewrite append_assoc, lex_lit_out, lex_quote by exact Hr. eexists _, _, _. split; [reflexivity|].
    cbn [flushed append]. rewrite <- app_assoc. reflexivity.
Qed.

Lemma lex_stderr o er inw cur acc :
  lex Norm inw cur acc (stderr_str o er) = Some (app (flushed inw cur acc) (stderr_toks o er)).
Proof.
  unfold stderr_str, stderr_toks.
  destruct (stream_eqb match er with SDevnull => SStr "/dev/null" | _ => er end o).
  - rewrite lex_lit_err2out. rewrite <- app_assoc. reflexivity.
  - destruct er as [| | |g]; cbn [stream_str];
      try (rewrite lex_end, app_nil_r; reflexivity);
      rewrite <- (append_nil_r (quote _)), lex_lit_err, lex_quote, lex_end by reflexivity;
      cbn [flushed append]; rewrite <- app_assoc; reflexivity.
Qed.

Lemma blankhead_stdout o rest : blankhead rest -> blankhead (stdout_str o ++ rest).
Proof.
  intros Hb. destruct o as [| | |s]; unfold stdout_str; try exact Hb; right; eexists; reflexivity.
Qed.
Lemma blankhead_stderr o er : blankhead (stderr_str o er).
Proof.
  unfold stderr_str. destruct (stream_eqb _ _); [right; eexists; reflexivity|].
  destruct er; try (left; reflexivity); right; eexists; reflexivity.
Qed.
Lemma blankhead_stdin i rest : blankhead rest -> blankhead (stdin_str i ++ rest).
Proof.
  intros Hb. destruct i as [[| | |s]|]; unfold stdin_str; try exact Hb; right; eexists; reflexivity.
Qed.

(* every interpolated string — working directory, environment values, redirection targets — is one
   word, verbatim *)
Theorem create_command_tokens cmd ts e w i o er :
  cmd_ok (join " " cmd) ts ->
  forallb (fun kv => key_ok (fst kv)) (opt_env e) = true ->
  o <> SPipe ->
  exists line,
    create_command cmd e w i o er = inl line /\
    sh_lex line = Some (app (wd_toks "&&" w) (app (export_toks "&&" (opt_env e))
                        (app ts (app (stdin_toks i) (app (stdout_toks o) (stderr_toks o er)))))).
Proof.
  intros Hcmd Hk Ho1. unfold create_command.
  assert (Hline : exists line, (match o with SPipe => inr ErrStdoutPipe | _ =>
            inl ((match w with Some w0 => "cd " ++ quote w0 ++ " && " | None => "" end)
                 ++ (match e with Some e0 => cat (map export_and e0) | None => "" end)
                 ++ join " " cmd ++ stdin_str i ++ stdout_str o ++ stderr_str o er) end) = inl line /\
            line = (match w with Some w0 => "cd " ++ quote w0 ++ " && " | None => "" end)
                 ++ (match e with Some e0 => cat (map export_and e0) | None => "" end)
                 ++ join " " cmd ++ stdin_str i ++ stdout_str o ++ stderr_str o er)
    by (destruct o; try congruence; eexists; split; reflexivity).
  destruct Hline as (line & -> & ->). eexists. split; [reflexivity|]. unfold sh_lex.
  assert (Hw : forall acc rest,
         lex Norm false EmptyString acc
           ((match w with Some w0 => "cd " ++ quote w0 ++ " && " | None => "" end) ++ rest)
         = lex Norm false EmptyString (app acc (wd_toks "&&" w)) rest).
  { intros acc rest. destruct w as [w0|].
    - rewrite !append_assoc, lex_lit_cd, lex_quote by reflexivity.
      rewrite lex_lit_andand. cbn [flushed wd_toks append]. rewrite <- !app_assoc. reflexivity.
    - cbn [append wd_toks]. rewrite app_nil_r. reflexivity. }
  assert (He : forall acc rest,
         lex Norm false EmptyString acc
           ((match e with Some e0 => cat (map export_and e0) | None => "" end) ++ rest)
         = lex Norm false EmptyString (app acc (export_toks "&&" (opt_env e))) rest).
  { intros acc rest. destruct e as [e0|].
    - apply lex_exports. exact Hk.
    - cbn [append opt_env export_toks flat_map]. rewrite app_nil_r. reflexivity. }
  rewrite Hw, He. cbn [app].
  pose proof (blankhead_stderr o er) as B3.
  pose proof (blankhead_stdout o _ B3) as B2.
  pose proof (blankhead_stdin i _ B2) as B1.
  rewrite (Hcmd _ _ B1).
  destruct (lex_stdin i false EmptyString
              (app (app (wd_toks "&&" w) (export_toks "&&" (opt_env e))) ts) _ B2) as (i1 & c1 & a1 & -> & F1).
  destruct (lex_stdout o i1 c1 a1 _ B3) as (i2 & c2 & a2 & -> & F2).
  rewrite lex_stderr. rewrite F2, F1. cbn [flushed]. rewrite <- !app_assoc. reflexivity.
Qed.

(* ---------------------------------------------------------------- _build_shell_command *)
Lemma join_app_last sep l x : join sep (app l [x]) = cat (map (fun y => y ++ sep) l) ++ x.
Proof.
  induction l as [|y l IH]; [reflexivity|].
  change (app (y :: l) [x]) with (y :: app l [x]).
  destruct l as [|z l].
  - simpl. rewrite !append_assoc. reflexivity.
  - change (join sep (y :: app (z :: l) [x])) with (y ++ sep ++ join sep (app (z :: l) [x])).
    rewrite IH. cbn [map cat fold_right]. rewrite !append_assoc. reflexivity.
Qed.

Definition eff_w (w : option string) : option string := if nonempty_str w then w else None.
Definition eff_e (e : option env) : env := if nonempty_env e then opt_env e else [].

Lemma build_inner_eq cmd e w :
  build_inner cmd e w =
  (match eff_w w with Some w0 => "cd " ++ quote w0 ++ " && " | None => "" end)
  ++ cat (map export_and (eff_e e)) ++ join " " cmd.
Proof.
  unfold build_inner. rewrite app_assoc, join_app_last. rewrite map_app. unfold cat at 1.
  rewrite fold_right_app. fold (cat (map (fun y => y ++ " && ")
     (if nonempty_env e then match e with Some e0 => map (fun kv => "export " ++ fst kv ++ "=" ++ quote (snd kv)) e0 | None => [] end else []))).
  assert (E : cat (map (fun y => y ++ " && ")
     (if nonempty_env e then match e with Some e0 => map (fun kv => "export " ++ fst kv ++ "=" ++ quote (snd kv)) e0 | None => [] end else []))
     = cat (map export_and (eff_e e))).
  { unfold eff_e. destruct (nonempty_env e); [|reflexivity]. destruct e as [e0|]; [|reflexivity].
    cbn [opt_env]. rewrite map_map. f_equal. apply map_ext. intros [k v]. unfold export_and.
    cbn [fst snd]. rewrite !append_assoc. reflexivity. }
  rewrite E. unfold eff_w. destruct (nonempty_str w) eqn:Ew.
  - destruct w as [w0|]; [|discriminate]. cbn [map fold_right]. rewrite !append_assoc. reflexivity.
  - cbn [map fold_right append]. reflexivity.
Qed.

(* the script handed to the child [sh -c]: cd and every export receive their operand verbatim, and the
   command comes after && (it does not run when cd or export fails) *)
Theorem build_inner_tokens cmd ts e w :
  cmd_ok (join " " cmd) ts ->
  forallb (fun kv => key_ok (fst kv)) (eff_e e) = true ->
  sh_lex (build_inner cmd e w) = Some (app (wd_toks "&&" (eff_w w)) (app (export_toks "&&" (eff_e e)) ts)).
Proof.
  intros Hcmd Hk. rewrite build_inner_eq. unfold sh_lex.
  assert (Hw : lex Norm false EmptyString []
      ((match eff_w w with Some w0 => "cd " ++ quote w0 ++ " && " | None => "" end)
       ++ cat (map export_and (eff_e e)) ++ join " " cmd)
      = lex Norm false EmptyString (wd_toks "&&" (eff_w w)) (cat (map export_and (eff_e e)) ++ join " " cmd)).
  { destruct (eff_w w) as [w0|]; [|reflexivity].
    rewrite !append_assoc, lex_lit_cd, lex_quote by reflexivity. rewrite lex_lit_andand. reflexivity. }
  rewrite Hw. rewrite lex_exports by exact Hk.
  rewrite <- (append_nil_r (join " " cmd)). rewrite (Hcmd _ EmptyString (or_introl eq_refl)).
  rewrite lex_end. cbn [flushed]. rewrite <- app_assoc. reflexivity.
Qed.

(* without environment and working directory the script of the child shell is the command, nothing else *)
Theorem build_inner_plain cmd ts e w :
  nonempty_env e || nonempty_str w = false -> cmd_ok (join " " cmd) ts ->
  build_inner cmd e w = join " " cmd /\ sh_lex (build_inner cmd e w) = Some ts.
Proof.
  intros H Hcmd. apply orb_false_iff in H. destruct H as [He Hw].
  assert (E : build_inner cmd e w = join " " cmd).
  { rewrite build_inner_eq. unfold eff_w, eff_e. rewrite He, Hw. reflexivity. }
  split; [exact E|]. rewrite E. unfold sh_lex.
  rewrite <- (append_nil_r (join " " cmd)). rewrite (Hcmd _ EmptyString (or_introl eq_refl)). reflexivity.
Qed.

Lemma lex_lit_devnull_err2out inw cur acc :
  lex Norm inw cur acc " < /dev/null 2>&1"
  = Some (app (app (app (app (flushed inw cur acc) [Op "<"]) [W "/dev/null"]) [Op "2>&"]) [W "1"]).
Proof. reflexivity. Qed.

(* the line written to the persistent shell, for EVERY command, environment and working directory: the whole
   script is ONE argument of a child sh -c whose standard input is /dev/null *)
Theorem build_cmd_line_wrapped cmd e w :
  sh_lex (build_cmd_line cmd e w)
  = Some [W "sh"; W "-c"; W (build_inner cmd e w); Op "<"; W "/dev/null"; Op "2>&"; W "1"].
Proof.
  unfold build_cmd_line, sh_lex.
  rewrite lex_lit_sh_c, lex_quote by reflexivity. rewrite lex_lit_devnull_err2out. reflexivity.
Qed.

(* ---------------------------------------------------------------- the unquoted forms *)
(* export K="v" (CommandTemplateMap today; create_command before its fix): not verbatim *)
Definition export_dq_and (kv : string * string) : string := template_export kv ++ " && ".

Lemma template_export_not_verbatim :
  sh_lex (template_env (Some [("K", "a""b""c")])) = Some [W "export"; W "K=abc"] /\
  sh_lex (template_env (Some [("K", "$HOME")])) = None /\
  sh_lex (template_env (Some [("K", "`id`")])) = None /\
  sh_lex (template_env (Some [("K", "q""uote")])) = None /\
  sh_lex (template_env (Some [("K", "a""; touch x; echo """)])) =
     Some [W "export"; W "K=a"; Op ";"; W "touch"; W "x"; Op ";"; W "echo"; W ""].
Proof. vm_compute. repeat split; reflexivity. Qed.

(* a path interpolated raw (cd {workdir} before the fix; several remotepath operations) *)
Lemma raw_not_verbatim :
  sh_lex ("cd " ++ "/tmp/a b") = Some [W "cd"; W "/tmp/a"; W "b"] /\
  sh_lex ("cd " ++ "/tmp/x;y") = Some [W "cd"; W "/tmp/x"; Op ";"; W "y"] /\
  sh_lex ("cd " ++ "/tmp/$x") = None.
Proof. vm_compute. repeat split; reflexivity. Qed.
