(* CwlCmd/Model.v — how a CWL CommandLineTool's command line is built: twice.
   Definitions only (the correspondence keeps running when a proof breaks).

   [spec_*] : the CWL v1.2 CommandLineBinding rules as the reference runner (cwltool 3.2) applies them:
              collect bindings (arguments with key [position, index], inputs with key [position, name]),
              sort with the Python-2-like comparison (a str and an int compare by their str()), turn each
              binding into arguments (prefix / separate / itemSeparator / arrays / booleans / null), and
              -- only with ShellCommandRequirement -- shlex-quote every piece unless shellQuote is false
              and run "/bin/sh -c <pieces joined by a blank>"; without it the pieces ARE the argv (execve).
   [sf_*]   : StreamFlow.  ANCHORS:
     streamflow.cwl.command._get_value_for_command            -> sf_value_for_command
     streamflow.cwl.command._get_value_repr                   -> repr / dec_repr (ScalarFloat branch on the job's spelling)
     streamflow.cwl.command._escape_value                     -> sf_escape
     streamflow.cwl.command.CWLCommandTokenProcessor.bind     -> sf_bind
     streamflow.cwl.command._merge_tokens + the sort in
       streamflow.cwl.command.CWLCommand._get_executable_command -> sf_tokens / sf_sorted / sf_cmd
     streamflow.cwl.translator._create_command,
       _get_command_token_processor(_from_input)               -> sf_arg_flags / sf_input_flags
         (incl. _is_forward_only: "By default, do not escape composite command tokens" applies only to
          arrays whose items are bound themselves, which are outside this model)
     streamflow.cwl.command.CWLCommand.execute                -> sf_streams (stdout/stderr defaults), sf_line (cmd joined by " "; with
         ShellCommandRequirement it is what the inner /bin/sh -c receives after the base64 round trip,
         which is not modelled) ; streamflow.core.utils.create_command is Shell.Model.create_command.
   The binding language modelled: string / int / boolean / null scalars, arrays of such with a binding on
   the array and/or on its items (no records, no File), valueFrom restricted to a literal, $(self)
   or $(inputs.<name>), integer positions, baseCommand list, arguments. *)
From Coq Require Import Ascii Bool NArith ZArith.
From SF Require Import Base.Str Base.Dec Shell.Model.
Import ListNotations.
Local Open Scope string_scope. Local Open Scope list_scope.   (* ++ is list append here *)

Definition sapp := String.append.
Infix "^^" := String.append (at level 60, right associativity).

(* ---------------------------------------------------------------- values *)
(* VDec: a float as the input object SPELLS it (JSON number with a fraction and/or an exponent): sign, integer digits,
   fraction digits, exponent.  Both runners load the job with ruamel's round-trip loader, which keeps the spelling
   (ScalarFloat), and render it through decimal.Decimal. *)
Inductive sval := VNull | VBool (b : bool) | VInt (z : Z) | VStr (s : string)
                | VDec (neg : bool) (ip fp : string) (ex : option Z).
Inductive value := Sc (v : sval) | Arr (l : list sval).

(* str(int) *)
Definition zstr (z : Z) : string :=
  match z with Zneg p => "-" ^^ dec (Npos p) | _ => dec (Z.to_N z) end.

(* ---- the ScalarFloat branch of _get_value_repr (= cwltool Builder.tostr):
        dec_value = Decimal(rep.represent_scalar_float(value).value)
        return str(dec_value.quantize(1)) if "E" in str(dec_value) else str(dec_value)
   on the literal: Decimal._int = the digits without leading zeros, Decimal._exp = exponent - #fraction digits;
   Decimal.__str__ is positional iff _exp <= 0 and _exp + len(_int) > -6, otherwise scientific ("E"), and then
   quantize(1) gives the integer value (every such literal with _exp < 0 is below 1e-6 and rounds to 0).
   Not modelled: spellings of more than 15 significant digits (ruamel goes through a binary float), huge exponents. *)
Fixpoint strip0 (s : string) : string :=
  match s with
  | String c r => if Ascii.eqb c "0"%char then strip0 r else s
  | EmptyString => EmptyString
  end.
Fixpoint zeros (n : nat) : string := match n with O => "" | S k => String "0"%char (zeros k) end.
Fixpoint stake (n : nat) (s : string) : string :=
  match n, s with S k, String c r => String c (stake k r) | _, _ => "" end.
Fixpoint sdrop (n : nat) (s : string) : string :=
  match n, s with S k, String _ r => sdrop k r | _, _ => s end.
Definition dec_int (ip fp : string) : string :=
  match strip0 (ip ^^ fp) with EmptyString => "0" | d => d end.
Definition dec_repr (neg : bool) (ip fp : string) (ex : option Z) : string :=
  let digits := dec_int ip fp in
  let e := ((match ex with Some x => x | None => 0 end) - Z.of_nat (String.length fp))%Z in
  let left := (e + Z.of_nat (String.length digits))%Z in
  let body :=
    if Z.ltb 0 e then (if String.eqb digits "0" then "0" else digits ^^ zeros (Z.to_nat e))     (* quantize(1) *)
    else if Z.ltb (-6) left then
      (if Z.eqb e 0 then digits
       else if Z.leb left 0 then "0." ^^ zeros (Z.to_nat (- left)) ^^ digits
       else stake (Z.to_nat left) digits ^^ "." ^^ sdrop (Z.to_nat left) digits)
    else "0" in                                                                                (* quantize(1) of < 1e-6 *)
  if neg then "-" ^^ body else body.

(* _get_value_repr / cwltool Builder.tostr on the modelled scalars: str(v), floats through Decimal *)
Definition repr (v : sval) : string :=
  match v with
  | VNull => "None"
  | VBool true => "True"
  | VBool false => "False"
  | VInt z => zstr z
  | VStr s => s
  | VDec n i f e => dec_repr n i f e
  end.

(* ---------------------------------------------------------------- tools *)
Inductive vfrom := VfNone | VfLit (s : string) | VfSelf | VfIn (n : string).

Record binding := mkB {
  b_pos : Z; b_prefix : option string; b_sep : bool; b_isep : option string;
  b_quote : option bool;                 (* shellQuote; None = not written *)
  b_vf : vfrom }.

(* i_item: the inputBinding written INSIDE the array type (on the items); only for array inputs *)
Record input := mkI { i_name : string; i_arr : bool; i_bind : option binding; i_item : option binding }.
Record tool := mkT { t_shell : bool; t_base : list string; t_args : list binding; t_inputs : list input }.
Definition job := list (string * value).

Fixpoint lookup (j : job) (n : string) : value :=
  match j with
  | [] => Sc VNull
  | (k, v) :: r => if String.eqb k n then v else lookup r n
  end.

(* valueFrom (parameter references only); [self] is the input's own value, null for an argument *)
Definition eval_vf (b : binding) (j : job) (self : value) : value :=
  match b_vf b with
  | VfNone => self
  | VfLit s => Sc (VStr s)
  | VfSelf => self
  | VfIn n => lookup j n
  end.

Definition is_null (v : value) : bool := match v with Sc VNull => true | _ => false end.
Definition opt_default (d : bool) (o : option bool) : bool := match o with Some x => x | None => d end.
Definition nonempty_s (s : string) : bool := match s with EmptyString => false | _ => true end.

(* ================================================================ the reference rules *)
(* a piece of the command line and whether it is shell-quoted when a shell is used *)
Definition piece := (string * bool)%type.

(* an array item that generates an argument when it is bound on its own with a binding without prefix
   (generate_arg: `case bool() | None: return []`) *)
Definition printable (it : sval) : bool := match it with VNull | VBool _ => false | _ => true end.

(* Builder.generate_arg, together with the one-by-one binding of the items of an array that bind_input sets up when the
   array's binding has neither itemSeparator nor valueFrom.  On a list, in cwltool's order of tests:
     itemSeparator (non-empty) and a non-empty list -> the joined str() of ALL items (True, None included)
     valueFrom present                             -> [prefix] + the str() of ALL items   (also for an EMPTY list)
     prefix and a non-empty list                   -> [prefix]; the items, each with a fresh binding: a boolean or
                                                      null item generates nothing
     otherwise                                     -> nothing *)
Definition spec_generate (b : binding) (v : value) : list string :=
  let pre := match b_prefix b with Some p => if nonempty_s p then [p] else [] | None => [] end in
  let one (s : string) :=
    if b_sep b then (match b_prefix b with Some p => [p] | None => [] end) ++ [s]
    else [match b_prefix b with Some p => p ^^ s | None => s end] in
  let has_vf := match b_vf b with VfNone => false | _ => true end in
  match v with
  | Arr l =>
      match l, b_isep b with
      | _ :: _, Some s =>
          if nonempty_s s then one (join s (map repr l))
          else if has_vf then pre ++ map repr l else pre
      | _ :: _, None => if has_vf then pre ++ map repr l else pre ++ map repr (filter printable l)
      | [], _ => if has_vf then pre else []
      end
  | Sc VNull => []
  | Sc (VBool true) => pre
  | Sc (VBool false) => []
  | Sc s => one (repr s)
  end.

(* read off cwltool (Builder.bind_input, instrumented): an array WITH a binding of its own has key [pos, name] and its
   items [pos, name, n, itempos, name, name] -- they sort right behind it, in index order, whatever itempos is, so
   the group is ONE entry here (KIn); the items of an array WITHOUT a binding of its own have key
   [n, itempos, name, name]: the item INDEX comes first and is compared with the POSITIONS of the other bindings (KItem). *)
Inductive skey := KArg (pos : Z) (idx : N) | KIn (pos : Z) (name : string) | KItem (n : N) (ipos : Z) (name : string).
Definition key_pos (k : skey) : Z := match k with KArg p _ | KIn p _ => p | KItem n _ _ => Z.of_N n end.

(* cmp_like_py2 on two keys of length 2: strictly less *)
Definition spec_lt (a b : skey) : bool :=
  if Z.ltb (key_pos a) (key_pos b) then true
  else if Z.ltb (key_pos b) (key_pos a) then false
  else match a, b with
       | KArg _ i, KArg _ j => N.ltb i j
       | KArg _ i, KIn _ n => String.ltb (dec i) n      (* an int and a str compare as str *)
       | KIn _ n, KArg _ j => String.ltb n (dec j)
       | KIn _ n, KIn _ m => String.ltb n m
       (* [n, ipos, x, x] against [pos, idx] / [pos, name] with n = pos: second components *)
       | KItem _ ip _, KArg _ j => Z.ltb ip (Z.of_N j)
       | KArg _ i, KItem _ ip _ => Z.ltb (Z.of_N i) ip
       | KItem _ ip _, KIn _ m => String.ltb (zstr ip) m
       | KIn _ n, KItem _ ip _ => String.ltb n (zstr ip)
       | KItem _ ip x, KItem _ iq y => if Z.ltb ip iq then true else if Z.ltb iq ip then false else String.ltb x y
       end.

(* stable insertion sort: [x] is earlier in the input than every element of [l] *)
Fixpoint insert {A K} (lt : K -> K -> bool) (key : A -> K) (x : A) (l : list A) : list A :=
  match l with
  | [] => [x]
  | y :: r => if lt (key y) (key x) then y :: insert lt key x r else x :: y :: r
  end.
Definition isort {A K} (lt : K -> K -> bool) (key : A -> K) (l : list A) : list A :=
  fold_right (insert lt key) [] l.

Definition quoted (shell : bool) (b : binding) : bool := negb shell || opt_default true (b_quote b).

(* The items of an array bound without valueFrom and without itemSeparator are bound one by one, each with a FRESH
   binding (cwltool: st["inputBinding"] = {}): they are quoted whatever the array's own shellQuote says; only the
   prefix follows it. *)
Definition items_fresh (b : binding) (v : value) : bool :=
  match b_vf b, b_isep b, v with
  | VfNone, None, Arr (_ :: _) => true
  | _, _, _ => false
  end.
Definition spec_pre (b : binding) : list string :=
  match b_prefix b with Some p => if nonempty_s p then [p] else [] | None => [] end.
Definition spec_gen_pieces (q : bool) (b : binding) (v : value) : list piece :=
  if items_fresh b v then
    match v with
    | Arr l => map (fun s => (s, q)) (spec_pre b) ++ map (fun s => (s, true)) (map repr (filter printable l))
    | Sc _ => []
    end
  else map (fun s => (s, q)) (spec_generate b v).

(* a binding that generates no argument takes no part (it has nothing to place) *)
Definition spec_entry (k : skey) (l : list piece) : list (skey * list piece) :=
  match l with [] => [] | _ => [(k, l)] end.

Fixpoint spec_args (t : tool) (j : job) (i : N) (l : list binding) : list (skey * list piece) :=
  match l with
  | [] => []
  | b :: r =>
      spec_entry (KArg (b_pos b) i) (spec_gen_pieces (quoted (t_shell t) b) b (eval_vf b j (Sc VNull)))
      ++ spec_args t j (N.succ i) r
  end.

Definition spec_input (t : tool) (j : job) (i : input) : list (skey * list piece) :=
  match i_bind i with
  | None => []
  | Some b =>
      let v := lookup j (i_name i) in
      if is_null v then []                       (* a null input is not bound at all *)
      else spec_entry (KIn (b_pos b) (i_name i)) (spec_gen_pieces (quoted (t_shell t) b) b (eval_vf b j v))
  end.

(* ---- arrays whose items carry a binding of their own (no valueFrom on it) *)
Definition spec_item_pieces (t : tool) (ib : binding) (it : sval) : list piece :=
  map (fun s => (s, quoted (t_shell t) ib)) (spec_generate ib (Sc it)).
Fixpoint spec_item_entries (t : tool) (ib : binding) (x : string) (n : N) (l : list sval) : list (skey * list piece) :=
  match l with
  | [] => []
  | it :: r => spec_entry (KItem n (b_pos ib) x) (spec_item_pieces t ib it) ++ spec_item_entries t ib x (N.succ n) r
  end.
Definition spec_item_input (t : tool) (j : job) (i : input) (ib : binding) : list (skey * list piece) :=
  match lookup j (i_name i) with
  | Arr l =>
      match i_bind i with
      | None => spec_item_entries t ib (i_name i) 0%N l
      | Some ob =>          (* the array's own binding gives its prefix; the items follow in index order *)
          match l with
          | [] => []
          | _ => spec_entry (KIn (b_pos ob) (i_name i))
                   (map (fun s => (s, quoted (t_shell t) ob)) (spec_pre ob) ++ flat_map (spec_item_pieces t ib) l)
          end
      end
  | Sc _ => []
  end.
Definition spec_input' (t : tool) (j : job) (i : input) : list (skey * list piece) :=
  match i_item i with None => spec_input t j i | Some ib => spec_item_input t j i ib end.

Definition spec_bindings (t : tool) (j : job) : list (skey * list piece) :=
  spec_args t j 0%N (t_args t) ++ flat_map (spec_input' t j) (t_inputs t).

(* baseCommand has key [-1000000, index]: first, for every position above -1000000 *)
Definition spec_pieces (t : tool) (j : job) : list piece :=
  map (fun s => (s, true)) (t_base t) ++ flat_map snd (isort spec_lt fst (spec_bindings t j)).

(* what execve receives when no shell is involved *)
Definition spec_argv (t : tool) (j : job) : list string := map fst (spec_pieces t j).

Definition render (p : piece) : string := if snd p then quote (fst p) else fst p.
(* with ShellCommandRequirement: the argument of /bin/sh -c *)
Definition spec_line (t : tool) (j : job) : string := join " " (map render (spec_pieces t j)).

(* ================================================================ StreamFlow *)
(* the result of _get_value_for_command, then of the prefix block of bind *)
Inductive fval := FNone | FBool (b : bool) | FScal (v : sval) | FList (l : list sval).

Definition sf_value_for_command (v : value) (isep : option string) : fval :=
  match v with
  | Arr l =>
      match l, isep with
      | _ :: _, Some s => FScal (VStr (join s (map repr l)))     (* "if value and item_separator is not None" *)
      | [], _ => FNone                                           (* value or None *)
      | _, None => FList l
      end
  | Sc VNull => FNone
  | Sc (VBool b) => FBool b
  | Sc s => FScal s
  end.

(* the translator's (is_shell_command, shell_quote) for an argument and for an input *)
Definition sf_arg_flags (t : tool) (b : binding) : bool * bool :=
  (t_shell t, opt_default true (b_quote b)).
(* For an array input the translator keeps "By default, do not escape composite command tokens"
   (shell_quote=False, is_shell_command=True) only when the nested processors are themselves bound
   (_is_forward_only false); arrays of the modelled language have no binding on their items, so they get the
   same flags as a scalar (after the fix of finding 1, see design/notes/C30.md). *)
Definition sf_input_flags (t : tool) (i : input) (b : binding) : bool * bool :=
  (t_shell t, opt_default true (b_quote b)).

Definition sf_escape (v : sval) : sval := VStr (quote (repr v)).

(* CWLCommandTokenProcessor.bind: None = no command token *)
Definition sf_bind (flags : bool * bool) (b : binding) (v : value) : option (list sval) :=
  match sf_value_for_command v (b_isep b) with
  | FNone => None
  | fv =>
      let fv1 :=
        match b_prefix b with
        | None => fv
        | Some p =>
            match fv with
            | FBool bb => if bb then FList [VStr p] else fv
            | FList l => FList (VStr p :: l)                    (* both the separate and the joined branch *)
            | FScal s => if b_sep b then FList [VStr p; s] else FList [VStr (p ^^ repr s)]
            | FNone => FNone
            end
        end in
      match fv1 with
      | FNone | FBool _ => None
      | FScal s => Some (if negb (fst flags) || snd flags then [sf_escape s] else [s])
      | FList l => Some (if negb (fst flags) || snd flags then map sf_escape l else l)
      end
  end.

(* a CommandToken: (name, position, value) *)
Definition ctoken := (option string * Z * list sval)%type.
Definition tok_key (c : ctoken) : Z * option string := (snd (fst c), fst (fst c)).

(* Python list comparison of [position] / [position, name] *)
Definition sf_lt (a b : Z * option string) : bool :=
  if Z.ltb (fst a) (fst b) then true
  else if Z.ltb (fst b) (fst a) then false
  else match snd a, snd b with
       | None, None => false
       | None, Some _ => true
       | Some _, None => false
       | Some n, Some m => String.ltb n m
       end.

Definition sf_arg_token (t : tool) (j : job) (b : binding) : list ctoken :=
  match sf_bind (sf_arg_flags t b) b (eval_vf b j (Sc VNull)) with
  | Some l => [(None, b_pos b, l)]
  | None => []
  end.

Definition sf_input_token (t : tool) (j : job) (i : input) : list ctoken :=
  match i_bind i with
  | None => []                                  (* forward processor: position None, filtered out *)
  | Some b =>
      let v := lookup j (i_name i) in
      if is_null v then []                      (* "If input is None, skip the command token" *)
      else match sf_bind (sf_input_flags t i b) b (eval_vf b j v) with
           | Some l => [(Some (i_name i), b_pos b, l)]
           | None => []
           end
  end.

(* ---- arrays with a binding on the items: CWLMapCommandTokenProcessor over a CWLCommandTokenProcessor per item;
   _merge_tokens(ListCommandToken) keeps the index order.  Without a binding on the array the item tokens are
   placed one by one (position = the item binding's); with one, bind() takes their values, flattened, as its value,
   and the translator's "do not escape composite command tokens" default applies (_is_forward_only is false). *)
Definition sf_item_tokens (t : tool) (ib : binding) (x : string) (l : list sval) : list ctoken :=
  flat_map (fun it => match sf_bind (t_shell t, opt_default true (b_quote ib)) ib (Sc it) with
                      | Some v => [(Some x, b_pos ib, v)]
                      | None => [] end) l.
Definition sf_composite_flags (t : tool) (ob : binding) : bool * bool :=
  match b_quote ob with None => (true, false) | Some q => (t_shell t, q) end.
Definition sf_item_input (t : tool) (j : job) (i : input) (ib : binding) : list ctoken :=
  match lookup j (i_name i) with
  | Arr l =>
      match i_bind i with
      | None => sf_item_tokens t ib (i_name i) l
      | Some ob =>
          match sf_bind (sf_composite_flags t ob) ob (Arr (flat_map (fun c => snd c) (sf_item_tokens t ib (i_name i) l))) with
          | Some v => [(Some (i_name i), b_pos ob, v)]
          | None => []
          end
      end
  | Sc _ => []
  end.
Definition sf_input_token' (t : tool) (j : job) (i : input) : list ctoken :=
  match i_item i with None => sf_input_token t j i | Some ib => sf_item_input t j i ib end.

Definition sf_tokens (t : tool) (j : job) : list ctoken :=
  flat_map (sf_arg_token t j) (t_args t) ++ flat_map (sf_input_token' t j) (t_inputs t).

Definition sf_sorted (t : tool) (j : job) : list ctoken := isort sf_lt tok_key (sf_tokens t j).

(* _get_executable_command *)
Definition sf_cmd (t : tool) (j : job) : list string :=
  (match t_base t with [] => [] | _ => [join " " (map quote (t_base t))] end)     (* shlex.join *)
  ++ flat_map (fun c => map repr (snd c)) (sf_sorted t j).

(* " ".join(cmd): the text a POSIX shell parses (directly through create_command, or as the argument of
   the inner /bin/sh -c with ShellCommandRequirement) *)
Definition sf_line (t : tool) (j : job) : string := join " " (sf_cmd t j).

(* the argument vector the tool receives, as far as the shell fragment of Shell.Model can tell *)
Definition sf_argv (t : tool) (j : job) : option (list string) := sh_words (sf_line t j).

(* CWLCommand.execute: stdout = eval(self.stdout) if not None else STDOUT; stderr likewise, else STDOUT
   (before the fix of finding 4: else stdout, i.e. 2>&1 into the stdout file) *)
Definition sf_streams (stdout stderr : option string) : stream * stream :=
  (match stdout with Some f => SStr f | None => SStdout end,
   match stderr with Some f => SStr f | None => SStdout end).

(* the file fd 1 / fd 2 of the tool end up on, read off create_command's redirections; None = not a file *)
Definition sf_stdout_target (stdout stderr : option string) : option string :=
  match fst (sf_streams stdout stderr) with SStr f => Some f | _ => None end.
Definition sf_stderr_target (stdout stderr : option string) : option string :=
  let (o, e) := sf_streams stdout stderr in
  let e1 := match e with SDevnull => SStr "/dev/null" | x => x end in
  if stream_eqb e1 o then (match o with SStr f => Some f | _ => None end)      (* 2>&1 *)
  else match e1 with SStr f => Some f | _ => None end.

(* EnvVarRequirement: parsed_env = {k: str(eval_expression(v))}; a literal or $(inputs.<string input>) here.  The values
   reach the tool through create_command's  export K=<shlex.quote(v)> &&  (Shell.Proofs.create_command_tokens). *)
Definition env_value (j : job) (v : vfrom) : string :=
  match v with
  | VfLit s => s
  | VfIn n => match lookup j n with Sc x => repr x | Arr _ => "" end
  | _ => ""
  end.
Definition sf_env (defs : list (string * vfrom)) (j : job) : list (string * string) :=
  map (fun kv => (fst kv, env_value j (snd kv))) defs.
