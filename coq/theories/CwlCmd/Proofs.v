(* CwlCmd/Proofs.v — StreamFlow's command line against the reference rules (C30). *)
From Coq Require Import Ascii Bool NArith ZArith Lia.
From SF Require Import Base.Str Base.Dec Shell.Model Shell.Proofs CwlCmd.Model.
Import ListNotations.
Local Open Scope string_scope. Local Open Scope list_scope.

(* ================================================================ one binding *)
Definition flags_q (f : bool * bool) : bool := negb (fst f) || snd f.
Definition q_str (q : bool) (s : string) : string := if q then quote s else s.

Lemma repr_escape x : repr (sf_escape x) = quote (repr x).
Proof. reflexivity. Qed.

Lemma map_repr_escape l : map repr (map sf_escape l) = map quote (map repr l).
Proof. rewrite !map_map. apply map_ext. intros; apply repr_escape. Qed.

Lemma map_id_ext {A} (l : list A) : map (fun s => s) l = l.
Proof. apply map_id. Qed.

Lemma nonempty_s_true p : p <> "" -> nonempty_s p = true.
Proof. destruct p; [congruence|reflexivity]. Qed.

(* an item that is neither null nor a boolean: the reference prints it when it is bound on its own *)
Definition item_ok (it : sval) : Prop := match it with VNull | VBool _ => False | _ => True end.
Lemma filter_printable l : Forall item_ok l -> filter printable l = l.
Proof.
  induction 1 as [|x l Hx _ IH]; [reflexivity|]. simpl. rewrite IH. destruct x; try reflexivity; destruct Hx.
Qed.

(* the values on which StreamFlow and the reference agree for a binding [b]:
   - an EMPTY list must not come out of a valueFrom under a prefix (cwltool: the bare prefix; StreamFlow: nothing);
   - a list bound without valueFrom and without itemSeparator must not hold null or boolean items (cwltool binds the
     items one by one and prints nothing for them; StreamFlow prints None / True / False).
   Outside: C30_empty_valuefrom_refuted, C30_bool_null_items_refuted. *)
Definition value_ok (b : binding) (v : value) : Prop :=
  match v with
  | Arr [] => b_vf b = VfNone \/ b_prefix b = None
  | Arr l => b_vf b = VfNone -> b_isep b = None -> Forall item_ok l
  | Sc _ => True
  end.

Lemma bind_arr_all f b x l :
  b_prefix b <> Some "" -> b_isep b = None ->
  match sf_bind f b (Arr (x :: l)) with
  | None => False
  | Some l' => map repr l' = map (q_str (flags_q f)) (spec_pre b ++ map repr (x :: l))
  end.
Proof.
  intros Hp Hs. unfold sf_bind, spec_pre, flags_q, q_str, sf_value_for_command. rewrite Hs.
  destruct (b_prefix b) as [p|] eqn:EP.
  - rewrite (nonempty_s_true p) by congruence. cbn [app]. destruct (negb (fst f) || snd f).
    + change (VStr (quote p) :: sf_escape x :: map sf_escape l) with (map sf_escape (VStr p :: x :: l)).
      rewrite map_repr_escape. reflexivity.
    + rewrite map_id. reflexivity.
  - cbn [app]. destruct (negb (fst f) || snd f).
    + change (sf_escape x :: map sf_escape l) with (map sf_escape (x :: l)).
      rewrite map_repr_escape. reflexivity.
    + rewrite map_id. reflexivity.
Qed.

Lemma spec_arr_all b x l :
  b_isep b = None -> value_ok b (Arr (x :: l)) -> spec_generate b (Arr (x :: l)) = spec_pre b ++ map repr (x :: l).
Proof.
  intros Hs Hv. unfold spec_generate, spec_pre. rewrite Hs. cbn [value_ok] in Hv.
  destruct (b_vf b) eqn:V; try reflexivity. rewrite (filter_printable (x :: l)) by (apply Hv; [reflexivity|exact Hs]). reflexivity.
Qed.

(* CWLCommandTokenProcessor.bind produces, piece for piece, what Builder.generate_arg produces, quoted or not
   as its flags say; it produces no token exactly when generate_arg produces no argument.  For every binding with a
   non-empty prefix/itemSeparator and every value in [value_ok] (all scalars, null, arrays of any length). *)
Lemma bind_equiv f b v :
  b_prefix b <> Some "" -> b_isep b <> Some "" -> value_ok b v ->
  match sf_bind f b v with
  | None => spec_generate b v = []
  | Some l => spec_generate b v <> [] /\ map repr l = map (q_str (flags_q f)) (spec_generate b v)
  end.
Proof.
  intros Hp Hs Hv.
  destruct v as [sv|[|x l]].
  - (* scalars *)
    clear Hv. unfold sf_bind, spec_generate, flags_q, q_str.
    destruct b as [pos pre sep isep qu vf]; cbn [b_prefix b_sep b_isep b_vf] in *.
    assert (Hp' : forall p, pre = Some p -> nonempty_s p = true)
      by (intros p ->; apply nonempty_s_true; congruence).
    destruct sv as [|[|]|z|s|dn di df de]; cbn [sf_value_for_command].
    + reflexivity.
    + destruct pre as [p|]; [rewrite (Hp' p eq_refl)|]; cbn.
      * split; [discriminate|]. destruct (negb (fst f) || snd f); reflexivity.
      * reflexivity.
    + destruct pre; reflexivity.
    + destruct pre as [p|]; [destruct sep|]; cbn; (split; [try discriminate; destruct sep; discriminate|]);
        destruct (negb (fst f) || snd f); try reflexivity; destruct sep; reflexivity.
    + destruct pre as [p|]; [destruct sep|]; cbn; (split; [try discriminate; destruct sep; discriminate|]);
        destruct (negb (fst f) || snd f); try reflexivity; destruct sep; reflexivity.
    + destruct pre as [p|]; [destruct sep|]; cbn; (split; [try discriminate; destruct sep; discriminate|]);
        destruct (negb (fst f) || snd f); try reflexivity; destruct sep; reflexivity.
  - (* the empty list *)
    cbn [value_ok] in Hv. unfold sf_bind, spec_generate. cbn [sf_value_for_command].
    destruct Hv as [Hv|Hv]; rewrite Hv; [reflexivity|]. destruct (b_vf b); reflexivity.
  - destruct (b_isep b) as [s|] eqn:ES.
    + (* joined *)
      clear Hv. unfold sf_bind, spec_generate, flags_q, q_str. rewrite ES.
      rewrite (nonempty_s_true s) by congruence. cbn [sf_value_for_command].
      destruct (b_prefix b) as [p|]; [destruct (b_sep b)|]; cbn; (split; [try discriminate; destruct (b_sep b); discriminate|]);
        destruct (negb (fst f) || snd f); try reflexivity; destruct (b_sep b); reflexivity.
    + rewrite (spec_arr_all b x l ES Hv). pose proof (bind_arr_all f b x l Hp ES) as H.
      destruct (sf_bind f b (Arr (x :: l))); [|destruct H]. split; [|exact H].
      destruct (spec_pre b); discriminate.
Qed.

(* ================================================================ sorting two lists in lock-step *)
Section Sort2.
  Context {A B K1 K2 : Type} (lt1 : K1 -> K1 -> bool) (k1 : A -> K1) (lt2 : K2 -> K2 -> bool) (k2 : B -> K2).

  (* [x] earlier than [y] in both lists: the two comparisons "does y go before x" agree *)
  Definition agree (x1 : A) (x2 : B) (y1 : A) (y2 : B) : Prop := lt1 (k1 y1) (k1 x1) = lt2 (k2 y2) (k2 x2).

  Lemma F2_impl (P Q : A -> B -> Prop) l1 l2 :
    (forall a b, P a b -> Q a b) -> Forall2 P l1 l2 -> Forall2 Q l1 l2.
  Proof. intros H F. induction F; constructor; auto. Qed.

  Lemma insert2 (R : A -> B -> Prop) x1 x2 s1 s2 :
    R x1 x2 -> Forall2 (fun y1 y2 => R y1 y2 /\ agree x1 x2 y1 y2) s1 s2 ->
    Forall2 R (insert lt1 k1 x1 s1) (insert lt2 k2 x2 s2).
  Proof.
    intros Hx H. induction H as [|y1 y2 r1 r2 [Hy Ha] Hr IH]; simpl.
    - constructor; [exact Hx|constructor].
    - unfold agree in Ha. rewrite Ha. destruct (lt2 (k2 y2) (k2 x2)).
      + constructor; [exact Hy|exact IH].
      + constructor; [exact Hx|]. constructor; [exact Hy|].
        eapply F2_impl; [|exact Hr]. intros ? ? [? _]; assumption.
  Qed.

  Inductive ord2 (R : A -> B -> Prop) : list A -> list B -> Prop :=
  | ord2_nil : ord2 R [] []
  | ord2_cons x1 x2 r1 r2 :
      R x1 x2 -> Forall2 (agree x1 x2) r1 r2 -> ord2 R r1 r2 -> ord2 R (x1 :: r1) (x2 :: r2).

  Lemma ord2_and (R P : A -> B -> Prop) l1 l2 :
    ord2 R l1 l2 -> Forall2 P l1 l2 -> ord2 (fun a b => R a b /\ P a b) l1 l2.
  Proof.
    induction 1 as [|x1 x2 r1 r2 Hx Ha Ho IH]; intros HP; inversion HP; subst; constructor; auto.
  Qed.

  Lemma isort2 l1 : forall l2 (R : A -> B -> Prop),
    ord2 R l1 l2 -> Forall2 R (isort lt1 k1 l1) (isort lt2 k2 l2).
  Proof.
    induction l1 as [|x1 r1 IH]; intros l2 R H; inversion H; subst; simpl.
    - constructor.
    - apply insert2; [assumption|]. apply IH. apply ord2_and; assumption.
  Qed.

  (* ord2 from a pointwise relation and an "earlier" relation on the first list *)
  Fixpoint ordpairs (E : A -> A -> Prop) (l : list A) : Prop :=
    match l with [] => True | x :: r => Forall (E x) r /\ ordpairs E r end.

  Lemma ord2_from (R : A -> B -> Prop) (E : A -> A -> Prop) :
    (forall x1 x2 y1 y2, R x1 x2 -> R y1 y2 -> E x1 y1 -> agree x1 x2 y1 y2) ->
    forall l1 l2, Forall2 R l1 l2 -> ordpairs E l1 -> ord2 R l1 l2.
  Proof.
    intros HA l1 l2 F. induction F as [|x1 x2 r1 r2 Hx Hr IH]; intros HO.
    - constructor.
    - destruct HO as [HE HO]. constructor; [exact Hx| |apply IH; exact HO].
      clear IH HO. induction Hr as [|y1 y2 s1 s2 Hy Hs IH2]; [constructor|].
      inversion HE; subst. constructor; [eapply HA; eauto|apply IH2; assumption].
  Qed.

  Lemma ordpairs_app (E : A -> A -> Prop) l1 l2 :
    ordpairs E l1 -> ordpairs E l2 -> (forall x y, In x l1 -> In y l2 -> E x y) -> ordpairs E (l1 ++ l2).
  Proof.
    induction l1 as [|x r IH]; simpl; intros H1 H2 H; [exact H2|].
    destruct H1 as [Hx Hr]. split.
    - apply Forall_app. split; [exact Hx|]. apply Forall_forall. intros y Hy. apply H; [left; reflexivity|exact Hy].
    - apply IH; auto.
  Qed.
End Sort2.

Lemma insert_In {A K} (lt : K -> K -> bool) (k : A -> K) x y s : In y (insert lt k x s) -> y = x \/ In y s.
Proof.
  induction s as [|z r IH]; simpl.
  - intros [H|[]]; left; congruence.
  - destruct (lt (k z) (k x)); simpl.
    + intros [H|H]; [right; left; exact H|]. destruct (IH H); [left|right; right]; assumption.
    + intros [H|H]; [left; symmetry; exact H|right; exact H].
Qed.

Lemma isort_In {A K} (lt : K -> K -> bool) (k : A -> K) y l : In y (isort lt k l) -> In y l.
Proof.
  induction l as [|x r IH]; simpl; [tauto|]. intros H. apply insert_In in H. destruct H; [left; congruence|right; auto].
Qed.

(* ================================================================ strings *)
Lemma join_cons_ne sep x l : l <> [] -> join sep (x :: l) = x ^^ sep ^^ join sep l.
Proof. destruct l; [congruence|reflexivity]. Qed.

Lemma join_app sep a r : a <> [] -> r <> [] -> join sep (a ++ r) = join sep a ^^ sep ^^ join sep r.
Proof.
  intros Ha Hr. induction a as [|x a IH]; [congruence|].
  destruct a as [|y a].
  - simpl app. rewrite join_cons_ne by exact Hr. reflexivity.
  - change ((x :: y :: a) ++ r) with (x :: ((y :: a) ++ r)).
    rewrite join_cons_ne by discriminate. rewrite IH by discriminate.
    rewrite (join_cons_ne sep x (y :: a)) by discriminate. rewrite !append_assoc. reflexivity.
Qed.

(* shlex.join(base) as ONE element of cmd gives the same line as its words as separate elements *)
Lemma join_flatten sep a r : a <> [] -> join sep (join sep a :: r) = join sep (a ++ r).
Proof.
  intros Ha. destruct r as [|y r].
  - rewrite app_nil_r. reflexivity.
  - rewrite join_cons_ne by discriminate. rewrite join_app by (try exact Ha; discriminate). reflexivity.
Qed.

Lemma map_flat_map {A B C} (f : B -> C) (g : A -> list B) l : map f (flat_map g l) = flat_map (fun x => map f (g x)) l.
Proof. induction l as [|x l IH]; simpl; [reflexivity|]. rewrite map_app, IH. reflexivity. Qed.

(* names that sort after every argument index in cwltool's comparison (str(int) against the name) *)
Definition name_ok (n : string) : Prop := forall i, String.ltb n (dec i) = false.

Lemma name_ok_head c s : (57 < N_of_ascii c)%N -> name_ok (String c s).
Proof.
  intros Hc i. unfold String.ltb. pose proof (dec_nonempty i) as Hn. pose proof (dec_digits i) as Hd.
  destruct (dec i) as [|d r]; [congruence|]. simpl in Hd. apply andb_true_iff in Hd. destruct Hd as [Hd _].
  unfold Dec.is_digit in Hd. apply andb_true_iff in Hd. destruct Hd as [_ Hd]. apply N.leb_le in Hd.
  simpl. unfold Ascii.compare. destruct (N.compare_spec (N_of_ascii c) (N_of_ascii d)) as [E|E|E]; try reflexivity; lia.
Qed.

(* ================================================================ the whole command line *)
Definition binding_ok (b : binding) : Prop := b_prefix b <> Some "" /\ b_isep b <> Some "".
(* [shell]: the tool has ShellCommandRequirement.  An ARRAY input bound without valueFrom / itemSeparator must not say
   shellQuote: false under it: cwltool would still quote the items (fresh item bindings), StreamFlow would not. *)
Definition input_ok (shell : bool) (i : input) : Prop :=
  name_ok (i_name i) /\
  match i_item i with
  | None =>
      match i_bind i with
      | None => True
      | Some b => binding_ok b /\
                  (i_arr i = true -> b_vf b = VfNone -> b_isep b = None -> quoted shell b = true)
      end
  | Some ib =>
      (* a binding on the items: only under a binding on the array itself (without one cwltool orders the items by
         their INDEX first: item_only_order_refuted), which leaves shellQuote unwritten (else StreamFlow quotes the items
         twice: item_twice_refuted) and whose prefix, left unquoted by StreamFlow, is shell-safe *)
      binding_ok ib /\ b_vf ib = VfNone /\
      match i_bind i with
      | None => False
      | Some ob => binding_ok ob /\ b_quote ob = None /\ b_isep ob = None /\ b_vf ob = VfNone /\
                   match b_prefix ob with None => True | Some p => quote p = p end
      end
  end.
Definition tool_ok (t : tool) : Prop :=
  Forall binding_ok (t_args t) /\ Forall (input_ok (t_shell t)) (t_inputs t).
(* the input object respects the declared types as far as arrays go *)
Definition input_typed (j : job) (i : input) : Prop :=
  (i_arr i = false -> forall l, lookup j (i_name i) <> Arr l) /\
  (i_item i <> None -> forall l, lookup j (i_name i) = Arr l -> Forall item_ok l) /\
  (i_item i = None -> forall b, i_bind i = Some b -> value_ok b (eval_vf b j (lookup j (i_name i)))).
(* ... and every binding meets a value in [value_ok] (no null/boolean items printed one by one, no empty list out of a
   valueFrom under a prefix) *)
Definition job_typed (t : tool) (j : job) : Prop :=
  Forall (input_typed j) (t_inputs t) /\ Forall (fun b => value_ok b (eval_vf b j (Sc VNull))) (t_args t).

Definition key_of (k : skey) : Z * option string :=
  match k with KArg p _ => (p, None) | KIn p n => (p, Some n) | KItem _ p n => (p, Some n) end.
Definition earlier (a b : skey) : Prop :=
  match a, b with
  | KArg _ i, KArg _ j => (i < j)%N
  | KArg _ _, KIn _ n => name_ok n
  | KIn _ _, KArg _ _ => False
  | KIn _ _, KIn _ _ => True
  | _, _ => False          (* item keys are not ordered like this: they are outside tool_ok *)
  end.

Definition Rel (e : skey * list piece) (c : ctoken) : Prop :=
  tok_key c = key_of (fst e) /\ map render (snd e) = map repr (snd c).

Lemma lt_agree x1 x2 y1 y2 :
  Rel x1 x2 -> Rel y1 y2 -> earlier (fst x1) (fst y1) -> agree spec_lt fst sf_lt tok_key x1 x2 y1 y2.
Proof.
  intros [Hx _] [Hy _] He. unfold agree. rewrite Hx, Hy. clear Hx Hy.
  destruct x1 as [[pa i|pa n|na pa n] ?], y1 as [[pb j|pb m|nb pb m] ?]; cbn [fst key_of earlier] in *;
    try (destruct He; fail);
    unfold spec_lt, sf_lt; cbn [key_pos fst snd];
    destruct (Z.ltb pb pa); try reflexivity; destruct (Z.ltb pa pb); try reflexivity.
  - apply N.ltb_ge. lia.
  - apply He.
Qed.

Lemma render_pieces q l : map render (map (fun s => (s, q)) l) = map (q_str q) l.
Proof. rewrite map_map. apply map_ext. intros s. reflexivity. Qed.

Lemma gen_pieces_uniform q b v :
  items_fresh b v = false \/ q = true -> spec_gen_pieces q b v = map (fun s => (s, q)) (spec_generate b v).
Proof.
  intros H. unfold spec_gen_pieces. destruct (items_fresh b v) eqn:E; [|reflexivity].
  destruct H as [H| ->]; [discriminate|].
  unfold items_fresh in E. unfold spec_generate, spec_pre.
  destruct (b_vf b); try discriminate. destruct (b_isep b); try discriminate.
  destruct v as [?|[|x l]]; try discriminate. rewrite map_app. reflexivity.
Qed.

(* one binding: no entry on either side, or one entry on each, related *)
Lemma entry_equiv k q f b v name :
  binding_ok b -> flags_q f = q -> key_of k = (b_pos b, name) -> items_fresh b v = false \/ q = true ->
  value_ok b v ->
  Forall2 Rel (spec_entry k (spec_gen_pieces q b v))
              (match sf_bind f b v with Some l => [(name, b_pos b, l)] | None => [] end).
Proof.
  intros [Hp Hs] Hq Hk Hf Hvo. rewrite (gen_pieces_uniform _ _ _ Hf). pose proof (bind_equiv f b v Hp Hs Hvo) as H.
  destruct (sf_bind f b v) as [l|].
  - destruct H as [Hne Hm]. unfold spec_entry. destruct (spec_generate b v) as [|s r] eqn:E; [congruence|].
    cbn [map]. constructor; [|constructor]. split; [cbn; symmetry; exact Hk|].
    cbn [snd]. change ((s, q) :: map (fun s0 => (s0, q)) r) with (map (fun s0 => (s0, q)) (s :: r)).
    rewrite render_pieces, Hm, Hq. reflexivity.
  - rewrite H. constructor.
Qed.

Lemma fresh_scalar_vf b j self : b_vf b <> VfNone \/ self = Sc VNull -> items_fresh b (eval_vf b j self) = false.
Proof.
  unfold items_fresh, eval_vf. intros [H| ->]; destruct (b_vf b); try congruence; try reflexivity;
    destruct (b_isep b); reflexivity.
Qed.

Lemma args_rel t j : forall l i, Forall binding_ok l -> Forall (fun b => value_ok b (eval_vf b j (Sc VNull))) l ->
  Forall2 Rel (spec_args t j i l) (flat_map (sf_arg_token t j) l).
Proof.
  induction l as [|b r IH]; intros i Hok Hvo; [constructor|].
  inversion Hok; subst. inversion Hvo; subst. cbn [spec_args flat_map]. apply Forall2_app; [|apply IH; assumption].
  unfold sf_arg_token. apply entry_equiv; [assumption|reflexivity|reflexivity| |assumption].
  left. apply fresh_scalar_vf. right. reflexivity.
Qed.

Lemma gen_scalar_nonempty b it : item_ok it -> spec_generate b (Sc it) <> [].
Proof.
  unfold spec_generate. destruct it as [|?|?|?|? ? ? ?]; cbn; try tauto; intros _;
    destruct (b_sep b), (b_prefix b); discriminate.
Qed.

Lemma sf_item_tokens_cons t ib x it r :
  sf_item_tokens t ib x (it :: r)
  = (match sf_bind (t_shell t, opt_default true (b_quote ib)) ib (Sc it) with
     | Some v => [(Some x, b_pos ib, v)] | None => [] end) ++ sf_item_tokens t ib x r.
Proof. reflexivity. Qed.

(* the items of an array with a binding on the items: value for value what the reference generates, quoted alike *)
Lemma item_values t ib x : binding_ok ib -> forall l, Forall item_ok l ->
  map repr (flat_map (fun c : ctoken => snd c) (sf_item_tokens t ib x l))
  = map render (flat_map (spec_item_pieces t ib) l).
Proof.
  intros [Hp Hs]. induction l as [|it r IH]; intros Hl; [reflexivity|]. inversion Hl; subst.
  rewrite sf_item_tokens_cons, flat_map_app, map_app.
  change (flat_map (spec_item_pieces t ib) (it :: r)) with (spec_item_pieces t ib it ++ flat_map (spec_item_pieces t ib) r).
  rewrite map_app. f_equal; [|apply IH; assumption].
  pose proof (bind_equiv (t_shell t, opt_default true (b_quote ib)) ib (Sc it) Hp Hs I) as H.
  destruct (sf_bind _ ib (Sc it)) as [v|].
  - destruct H as [_ Hm]. cbn [flat_map snd app]. rewrite app_nil_r, Hm. unfold spec_item_pieces.
    rewrite render_pieces. reflexivity.
  - exfalso. eapply gen_scalar_nonempty; eauto.
Qed.

Lemma item_pieces_nonempty t ib it r : item_ok it -> flat_map (spec_item_pieces t ib) (it :: r) <> [].
Proof.
  intros H. cbn [flat_map]. unfold spec_item_pieces at 1. pose proof (gen_scalar_nonempty ib it H).
  destruct (spec_generate ib (Sc it)); [congruence|discriminate].
Qed.

Lemma composite_bind t ob V :
  b_quote ob = None -> b_isep ob = None -> V <> [] ->
  sf_bind (sf_composite_flags t ob) ob (Arr V)
  = Some (match b_prefix ob with Some p => VStr p :: V | None => V end).
Proof.
  intros Hq Hs HV. unfold sf_bind, sf_composite_flags, sf_value_for_command. rewrite Hq, Hs.
  destruct V as [|v0 V0]; [congruence|]. destruct (b_prefix ob); reflexivity.
Qed.

Lemma inputs_rel t j : forall l, Forall (input_ok (t_shell t)) l -> Forall (input_typed j) l ->
  Forall2 Rel (flat_map (spec_input' t j) l) (flat_map (sf_input_token' t j) l).
Proof.
  induction l as [|i r IH]; intros Hok Hty; [constructor|].
  inversion Hok as [|? ? [_ Hi] Hr]; subst. inversion Hty as [|? ? (Ht & Hit & Hvo) Htr]; subst.
  cbn [flat_map]. apply Forall2_app; [|apply IH; assumption].
  unfold spec_input', sf_input_token'. destruct (i_item i) as [ib|] eqn:EI.
  - (* binding on the items, under a binding on the array *)
    destruct Hi as (Hib & Hvf & Hi). unfold spec_item_input, sf_item_input.
    destruct (i_bind i) as [ob|]; [|destruct Hi]. destruct Hi as ((Hop & Hos) & Hq & Hs & Hv & Hsafe).
    destruct (lookup j (i_name i)) as [?|l] eqn:L; [constructor|].
    assert (Hl : Forall item_ok l) by (apply Hit; [discriminate|reflexivity]).
    destruct l as [|it r0]; [cbn; unfold sf_bind; cbn; constructor|].
    pose proof (item_values t ib (i_name i) Hib _ Hl) as HV.
    pose proof (item_pieces_nonempty t ib it r0 ltac:(inversion Hl; assumption)) as HN.
    rewrite composite_bind; [|assumption|assumption|].
    2:{ intros E. apply (f_equal (map repr)) in E. pose proof (eq_trans (eq_sym HV) E) as E2. cbn [map] in E2.
        destruct (flat_map (spec_item_pieces t ib) (it :: r0)); [congruence|discriminate]. }
    unfold spec_entry, spec_pre.
    destruct (b_prefix ob) as [p|] eqn:EP.
    + rewrite (nonempty_s_true p) by (intros ->; apply Hop; reflexivity). cbn [map app].
      constructor; [|constructor]. split; [reflexivity|]. cbn [snd map]. unfold render at 1. cbn [fst snd].
      rewrite Hsafe. f_equal; [destruct (quoted (t_shell t) ob); reflexivity|exact (eq_sym HV)].
    + cbn [map app]. destruct (flat_map (spec_item_pieces t ib) (it :: r0)) as [|p0 P0] eqn:EPP; [congruence|].
      constructor; [|constructor]. split; [reflexivity|]. cbn [snd]. symmetry. exact HV.
  - unfold spec_input, sf_input_token. destruct (i_bind i) as [b|]; [|constructor].
    destruct Hi as [Hb Hq]. cbn zeta. destruct (is_null (lookup j (i_name i))); [constructor|].
    apply entry_equiv; [assumption|reflexivity|reflexivity| |apply Hvo; reflexivity].
    destruct (items_fresh b (eval_vf b j (lookup j (i_name i)))) eqn:E; [right|left; reflexivity].
    unfold items_fresh, eval_vf in E. destruct (b_vf b) eqn:V; try discriminate.
    destruct (b_isep b) eqn:S; try discriminate.
    destruct (lookup j (i_name i)) as [?|l] eqn:L; try discriminate.
    unfold flags_q, sf_input_flags, quoted in *. cbn [fst snd].
    destruct (i_arr i) eqn:A; [apply Hq; reflexivity|]. exfalso. apply (Ht eq_refl l). reflexivity.
Qed.

Definition Ekey (x y : skey * list piece) : Prop := earlier (fst x) (fst y).

Lemma spec_entry_in e k l : In e (spec_entry k l) -> fst e = k.
Proof. unfold spec_entry. destruct l; [intros []|]. intros [<-|[]]. reflexivity. Qed.

Lemma args_keys t j : forall l i e, In e (spec_args t j i l) -> exists p k, fst e = KArg p k /\ (i <= k)%N.
Proof.
  induction l as [|b r IH]; intros i e H; [destruct H|]. cbn [spec_args] in H. apply in_app_or in H. destruct H as [H|H].
  - apply spec_entry_in in H. exists (b_pos b), i. split; [exact H|lia].
  - destruct (IH _ _ H) as (p & k & E & L). exists p, k. split; [exact E|lia].
Qed.

Lemma args_ord t j : forall l i, ordpairs Ekey (spec_args t j i l).
Proof.
  induction l as [|b r IH]; intros i; [exact I|]. cbn [spec_args]. apply ordpairs_app; [|apply IH|].
  - unfold spec_entry. destruct (spec_gen_pieces _ _ _); simpl; auto.
  - intros x y Hx Hy. apply spec_entry_in in Hx. destruct (args_keys _ _ _ _ _ Hy) as (p & k & E & L).
    unfold Ekey. rewrite Hx, E. cbn. lia.
Qed.

Lemma inputs_keys t j : forall l e, Forall (input_ok (t_shell t)) l -> In e (flat_map (spec_input' t j) l) ->
  exists p n, fst e = KIn p n /\ name_ok n.
Proof.
  induction l as [|i r IH]; intros e Hok H; [destruct H|]. inversion Hok as [|? ? [Hn Hi] Hr]; subst.
  cbn [flat_map] in H. apply in_app_or in H. destruct H as [H|H]; [|apply IH; assumption].
  unfold spec_input' in H. destruct (i_item i) as [ib|].
  - unfold spec_item_input in H. destruct (lookup j (i_name i)) as [?|l0]; [destruct H|].
    destruct (i_bind i) as [ob|]; [|destruct Hi as (_ & _ & [])]. destruct l0; [destruct H|].
    apply spec_entry_in in H. eauto.
  - unfold spec_input in H. destruct (i_bind i) as [b|]; [|destruct H]. cbn zeta in H.
    destruct (is_null _); [destruct H|]. apply spec_entry_in in H. eauto.
Qed.

Lemma kin_ord l : (forall e, In e l -> exists p n, fst e = KIn p n /\ name_ok n) -> ordpairs Ekey l.
Proof.
  induction l as [|x r IH]; intros H; [exact I|]. split; [|apply IH; intros; apply H; right; assumption].
  apply Forall_forall. intros y Hy. destruct (H x (or_introl eq_refl)) as (p & n & E & _).
  destruct (H y (or_intror Hy)) as (p' & n' & E' & _). unfold Ekey. rewrite E, E'. exact I.
Qed.

Lemma bindings_ord2 t j : tool_ok t -> job_typed t j ->
  ord2 spec_lt fst sf_lt tok_key Rel (spec_bindings t j) (sf_tokens t j).
Proof.
  intros [Ha Hi] [Hty Hta]. apply ord2_from with (E := Ekey).
  - intros; apply lt_agree; assumption.
  - apply Forall2_app; [apply args_rel; [exact Ha|exact Hta]|apply inputs_rel; [exact Hi|exact Hty]].
  - apply ordpairs_app; [apply args_ord|apply kin_ord; intros; eapply inputs_keys; eauto|].
    intros x y Hx Hy. destruct (args_keys _ _ _ _ _ Hx) as (p & k & E & _).
    destruct (inputs_keys _ _ _ _ Hi Hy) as (p' & n & E' & Hn). unfold Ekey. rewrite E, E'. exact Hn.
Qed.

Lemma rel_flat l1 l2 : Forall2 Rel l1 l2 ->
  flat_map (fun e => map render (snd e)) l1 = flat_map (fun c => map repr (snd c)) l2.
Proof. induction 1 as [|x y r1 r2 [_ H] _ IH]; simpl; [reflexivity|]. rewrite H, IH. reflexivity. Qed.

(* StreamFlow hands the shell exactly the reference text: for every tool of the modelled language whose bindings
   have non-empty prefix / itemSeparator and whose input names sort after argument indexes, and for every input object (any strings, any array lengths, any number of bindings and ties). *)
Theorem line_equiv t j : tool_ok t -> job_typed t j -> sf_line t j = spec_line t j.
Proof.
  intros Hok Hty. unfold sf_line, spec_line, sf_cmd, spec_pieces, sf_sorted.
  pose proof (isort2 _ _ _ _ _ _ _ (bindings_ord2 t j Hok Hty)) as HS. apply rel_flat in HS.
  rewrite map_app, map_flat_map, render_pieces.
  match goal with |- join _ (_ ++ ?a) = join _ (_ ++ ?b) => assert (Hab : a = b) by (symmetry; exact HS) end.
  rewrite Hab. clear Hab HS.
  change (map (q_str true) (t_base t)) with (map quote (t_base t)).
  destruct (t_base t) as [|b0 br] eqn:E; [reflexivity|].
  cbn [app]. rewrite <- (join_flatten " " (map quote (b0 :: br))) by discriminate. reflexivity.
Qed.

(* ================================================================ quoted pieces reach the tool verbatim *)
Theorem quoted_line_verbatim (ps : list piece) :
  forallb snd ps = true -> sh_words (join " " (map render ps)) = Some (map fst ps).
Proof.
  intros H. assert (E : map render ps = map quote (map fst ps)).
  { induction ps as [|[s q] r IH]; [reflexivity|]. simpl in H. apply andb_true_iff in H. destruct H as [Hq Hr].
    simpl in Hq. subst q. simpl. rewrite (IH Hr). reflexivity. }
  rewrite E. apply join_words.
Qed.

Definition all_bindings (t : tool) : list binding :=
  t_args t ++ flat_map (fun i => (match i_bind i with Some b => [b] | None => [] end)
                                 ++ (match i_item i with Some b => [b] | None => [] end)) (t_inputs t).
(* every binding is quoted: no ShellCommandRequirement, or no shellQuote: false *)
Definition quotes_all (t : tool) : Prop := forall b, In b (all_bindings t) -> quoted (t_shell t) b = true.

Lemma nonshell_quotes_all t : t_shell t = false -> quotes_all t.
Proof. intros H b _. unfold quoted. rewrite H. reflexivity. Qed.

Lemma entry_quoted k q b v e : q = true -> In e (spec_entry k (spec_gen_pieces q b v)) -> forallb snd (snd e) = true.
Proof.
  intros -> H. rewrite gen_pieces_uniform in H by (right; reflexivity).
  unfold spec_entry in H. destruct (spec_generate b v) as [|s r]; [destruct H|]. destruct H as [<-|[]].
  cbn [snd]. induction (s :: r); [reflexivity|]. simpl. assumption.
Qed.

Lemma flag_true_all (l : list string) : forallb snd (map (fun s => (s, true)) l) = true.
Proof. induction l; [reflexivity|]. simpl. assumption. Qed.

Lemma item_pieces_quoted t ib l : quoted (t_shell t) ib = true ->
  forallb snd (flat_map (spec_item_pieces t ib) l) = true.
Proof.
  intros Hq. induction l as [|it r IH]; [reflexivity|]. cbn [flat_map]. rewrite forallb_app.
  apply andb_true_iff. split; [|exact IH]. unfold spec_item_pieces. rewrite Hq. apply flag_true_all.
Qed.

Lemma item_entries_quoted t ib x e : quoted (t_shell t) ib = true ->
  forall l n, In e (spec_item_entries t ib x n l) -> forallb snd (snd e) = true.
Proof.
  intros Hq. induction l as [|it r IH]; intros n H; [destruct H|]. cbn [spec_item_entries] in H.
  apply in_app_or in H. destruct H as [H|H]; [|eapply IH; exact H].
  unfold spec_entry in H. destruct (spec_item_pieces t ib it) eqn:E; [destruct H|]. destruct H as [<-|[]].
  cbn [snd]. rewrite <- E. unfold spec_item_pieces. rewrite Hq. apply flag_true_all.
Qed.

Lemma bindings_quoted t j : quotes_all t -> forall e, In e (spec_bindings t j) -> forallb snd (snd e) = true.
Proof.
  intros Hq e H. unfold spec_bindings in H. apply in_app_or in H. destruct H as [H|H].
  - assert (G : forall l i, (forall b, In b l -> quoted (t_shell t) b = true) ->
                In e (spec_args t j i l) -> forallb snd (snd e) = true).
    { induction l as [|b r IH]; intros i Hl He; [destruct He|]. cbn [spec_args] in He. apply in_app_or in He.
      destruct He as [He|He]; [eapply entry_quoted; [|exact He]; apply Hl; left; reflexivity|].
      eapply IH; [|exact He]. intros; apply Hl; right; assumption. }
    eapply G; [|exact H]. intros b Hb. apply Hq. unfold all_bindings. apply in_or_app. left. exact Hb.
  - apply in_flat_map in H. destruct H as (i & Hi & He).
    assert (Hall : forall b, In b ((match i_bind i with Some b => [b] | None => [] end)
                                   ++ (match i_item i with Some b => [b] | None => [] end)) ->
                   quoted (t_shell t) b = true).
    { intros b Hb. apply Hq. unfold all_bindings. apply in_or_app. right. apply in_flat_map. exists i. split; assumption. }
    unfold spec_input' in He. destruct (i_item i) as [ib|] eqn:EI.
    + assert (Hqi : quoted (t_shell t) ib = true) by (apply Hall; apply in_or_app; right; left; reflexivity).
      unfold spec_item_input in He. destruct (lookup j (i_name i)) as [?|l]; [destruct He|].
      destruct (i_bind i) as [ob|] eqn:Eb.
      * destruct l as [|it r]; [destruct He|]. unfold spec_entry in He.
        destruct (map _ (spec_pre ob) ++ _) eqn:E; [destruct He|]. destruct He as [<-|[]]. cbn [snd]. rewrite <- E.
        rewrite forallb_app. apply andb_true_iff. split; [|apply item_pieces_quoted; exact Hqi].
        rewrite (Hall ob) by (apply in_or_app; left; left; reflexivity). apply flag_true_all.
      * eapply item_entries_quoted; eauto.
    + unfold spec_input in He.
      destruct (i_bind i) as [b|] eqn:Eb; [|destruct He]. cbn zeta in He. destruct (is_null _); [destruct He|].
      eapply entry_quoted; [|exact He]. apply Hall. left. reflexivity.
Qed.

Lemma pieces_quoted t j : quotes_all t -> forallb snd (spec_pieces t j) = true.
Proof.
  intros Hq. unfold spec_pieces. rewrite forallb_app. apply andb_true_iff. split.
  - induction (t_base t); [reflexivity|]. simpl. assumption.
  - assert (G : forall l : list (skey * list piece), (forall e, In e l -> forallb snd (snd e) = true) -> forallb snd (flat_map snd l) = true).
    { induction l as [|x r IH]; intros Hl; [reflexivity|]. simpl. rewrite forallb_app.
      apply andb_true_iff. split; [apply Hl; left; reflexivity|]. apply IH. intros; apply Hl; right; assumption. }
    apply G. intros e He. apply isort_In in He. eapply bindings_quoted; eauto.
Qed.

(* the tool process receives the reference argv, whatever the strings are *)
Theorem argv_equiv t j : tool_ok t -> job_typed t j -> quotes_all t -> sf_argv t j = Some (spec_argv t j).
Proof.
  intros Hok Hty Hq. unfold sf_argv. rewrite line_equiv by assumption. unfold spec_line, spec_argv.
  apply quoted_line_verbatim. apply pieces_quoted. exact Hq.
Qed.

(* ================================================================ stream defaults of execute() *)
(* stderr not declared: create_command adds no stderr redirection when stdout goes to a file, and 2>&1 when
   stdout is not redirected either (the captured output then carries both) *)
Lemma stderr_unset_file f : let (o, e) := sf_streams (Some f) None in stderr_str o e = "".
Proof. reflexivity. Qed.
Lemma stderr_unset_nofile : let (o, e) := sf_streams None None in stderr_str o e = " 2>&1".
Proof. reflexivity. Qed.
Lemma stderr_target_spec so se : sf_stderr_target so se = se.
Proof.
  destruct so as [a|], se as [b|]; unfold sf_stderr_target, sf_streams; cbn; auto.
  destruct (String.eqb_spec b a); [subst; reflexivity|reflexivity].
Qed.
Lemma stdout_target_spec so se : sf_stdout_target so se = so.
Proof. destruct so; reflexivity. Qed.

(* ================================================================ floats: the ScalarFloat branch of _get_value_repr *)
Lemma stake_app a b : stake (String.length a) (a ^^ b) = a.
Proof. induction a as [|c a IH]; simpl; [destruct b; reflexivity|]. rewrite IH. reflexivity. Qed.
Lemma sdrop_app a b : sdrop (String.length a) (a ^^ b) = b.
Proof. induction a as [|c a IH]; simpl; [destruct b; reflexivity|exact IH]. Qed.
Lemma zeros_snoc n : zeros n ^^ "0" = zeros (S n).
Proof. induction n as [|n IH]; simpl; [reflexivity|]. rewrite IH. reflexivity. Qed.
Lemma strip0_len s : String.length (strip0 s) <= String.length s.
Proof. induction s as [|c s IH]; simpl; [lia|]. destruct (Ascii.eqb c "0"); simpl; lia. Qed.
Lemma strip0_zeros s : s = zeros (String.length s - String.length (strip0 s)) ^^ strip0 s.
Proof.
  induction s as [|c s IH]; [reflexivity|]. cbn [strip0].
  destruct (Ascii.eqb c "0") eqn:E.
  - apply Ascii.eqb_eq in E. subst c. pose proof (strip0_len s). cbn [String.length].
    replace (S (String.length s) - String.length (strip0 s)) with (S (String.length s - String.length (strip0 s))) by lia.
    cbn [zeros String.append]. f_equal. exact IH.
  - replace (String.length (String c s) - String.length (String c s)) with 0 by lia. reflexivity.
Qed.

(* a float spelled without exponent, at least 1e-6 in the sense of Decimal (_exp + len(_int) > -6), is passed
   exactly as the job spells it: ip.fp with JSON's integer part ("0" or no leading zero) *)
Theorem dec_repr_plain neg ip fp :
  fp <> "" ->
  (ip = "0" \/ exists c r, ip = String c r /\ Ascii.eqb c "0" = false) ->
  (-6 < Z.of_nat (String.length (dec_int ip fp)) - Z.of_nat (String.length fp))%Z ->
  dec_repr neg ip fp None = (if neg then "-" else "") ^^ ip ^^ "." ^^ fp.
Proof.
  intros Hfp Hip Hl.
  assert (Hlen : 1 <= String.length fp) by (destruct fp; [congruence|simpl; lia]).
  assert (Body : forall body, body = ip ^^ "." ^^ fp ->
            (if neg then "-" ^^ body else body) = (if neg then "-" else "") ^^ ip ^^ "." ^^ fp)
    by (intros body ->; destruct neg; reflexivity).
  unfold dec_repr. apply Body. clear Body.
  set (d := dec_int ip fp) in *.
  replace (0 - Z.of_nat (String.length fp))%Z with (- Z.of_nat (String.length fp))%Z by lia.
  destruct (Z.ltb_spec 0 (- Z.of_nat (String.length fp))) as [H|_]; [lia|].
  destruct (Z.ltb_spec (-6) (- Z.of_nat (String.length fp) + Z.of_nat (String.length d))) as [_|H]; [|lia].
  destruct (Z.eqb_spec (- Z.of_nat (String.length fp)) 0) as [H|_]; [lia|].
  destruct Hip as [->|(c & r & -> & Hc)].
  - (* 0.fp *)
    assert (Hd : d = match strip0 fp with EmptyString => "0" | x => x end).
    { unfold d, dec_int. simpl. reflexivity. }
    pose proof (strip0_zeros fp) as Hz. pose proof (strip0_len fp) as Hsl.
    destruct (strip0 fp) as [|c s] eqn:Es.
    + rewrite Hd. simpl String.length. simpl in Hz. rewrite append_nil_r in Hz. rewrite Nat.sub_0_r in Hz.
      destruct (Z.leb_spec (- Z.of_nat (String.length fp) + Z.of_nat 1) 0) as [_|H]; [|lia].
      replace (Z.to_nat (- (- Z.of_nat (String.length fp) + Z.of_nat 1))) with (String.length fp - 1) by lia.
      simpl. f_equal. f_equal. rewrite zeros_snoc. replace (S (String.length fp - 1)) with (String.length fp) by lia.
      symmetry. exact Hz.
    + rewrite Hd.
      destruct (Z.leb_spec (- Z.of_nat (String.length fp) + Z.of_nat (String.length (String c s))) 0) as [_|H]; [|lia].
      replace (Z.to_nat (- (- Z.of_nat (String.length fp) + Z.of_nat (String.length (String c s)))))
        with (String.length fp - String.length (String c s)) by lia.
      simpl. f_equal. f_equal. symmetry. exact Hz.
  - (* c r . fp with c <> 0 *)
    assert (Hd : d = String c r ^^ fp).
    { unfold d, dec_int. simpl. rewrite Hc. reflexivity. }
    rewrite Hd. rewrite length_append.
    destruct (Z.leb_spec (- Z.of_nat (String.length fp) + Z.of_nat (String.length (String c r) + String.length fp)) 0) as [H|_];
      [simpl in H; lia|].
    replace (Z.to_nat (- Z.of_nat (String.length fp) + Z.of_nat (String.length (String c r) + String.length fp)))
      with (String.length (String c r)) by lia.
    rewrite stake_app, sdrop_app. reflexivity.
Qed.

(* ================================================================ the item binding's position under an array binding *)
Definition set_pos (b : binding) (p : Z) : binding :=
  mkB p (b_prefix b) (b_sep b) (b_isep b) (b_quote b) (b_vf b).

Lemma item_values_pos t ib x p l :
  flat_map (fun c : ctoken => snd c) (sf_item_tokens t (set_pos ib p) x l)
  = flat_map (fun c : ctoken => snd c) (sf_item_tokens t ib x l).
Proof.
  induction l as [|it r IH]; [reflexivity|]. rewrite !sf_item_tokens_cons, !flat_map_app. f_equal; [|exact IH].
  assert (E : sf_bind (t_shell t, opt_default true (b_quote (set_pos ib p))) (set_pos ib p) (Sc it)
              = sf_bind (t_shell t, opt_default true (b_quote ib)) ib (Sc it)) by (destruct ib; reflexivity).
  rewrite E. destruct (sf_bind _ ib (Sc it)); reflexivity.
Qed.

Lemma item_pieces_pos t ib p l :
  flat_map (spec_item_pieces t (set_pos ib p)) l = flat_map (spec_item_pieces t ib) l.
Proof. apply flat_map_ext. intros it. destruct ib; reflexivity. Qed.

(* with a binding on the array itself, the position written on the ITEM binding changes nothing, in either runner:
   the array's prefix, then the items in index order *)
Lemma item_position_irrelevant t j i ib ob p :
  i_bind i = Some ob ->
  spec_item_input t j i (set_pos ib p) = spec_item_input t j i ib /\
  sf_item_input t j i (set_pos ib p) = sf_item_input t j i ib.
Proof.
  intros H. unfold spec_item_input, sf_item_input. rewrite H. destruct (lookup j (i_name i)) as [?|l]; [split; reflexivity|].
  split.
  - destruct l; [reflexivity|]. rewrite item_pieces_pos. reflexivity.
  - pose proof (item_values_pos t ib (i_name i) p l) as E.
    match goal with |- match sf_bind _ _ (Arr ?a) with _ => _ end = match sf_bind _ _ (Arr ?b) with _ => _ end =>
      assert (Hab : a = b) by exact E; rewrite Hab end.
    reflexivity.
Qed.
