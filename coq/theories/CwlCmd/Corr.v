(* CwlCmd/Corr.v — correspondence cases for CwlCmd/Model.v (used by the C30 check).
   One case = a generated tool + input object and what the two real runners did with it:
     cmd  : the list CWLCommand._get_executable_command returned            (StreamFlow)
     sfa  : the argv the tool process received under StreamFlow (baseCommand included)
     refa : the argv the tool process received under cwltool
   None = that runner did not complete.  The shell itself is outside the models: a comparison that needs it is
   made only when the lexer fragment [sh_words] of Shell.Model accepts the line (every character literal). *)
From Coq Require Import List Bool NArith ZArith.
From SF Require Import Base.Str Base.Corr Shell.Model.
From SF Require Export CwlCmd.Model.
Import ListNotations.

Inductive ccase :=
| CTool (t : tool) (j : job) (cmd sfa refa : option (list string))
        (stdout stderr : option string) (ok : bool) (obs_out obs_err : option string)
        (envd : list (string * vfrom)) (inh envo : list (string * string))
   (* envd: the EnvVarRequirement definitions; envo: the C30_* variables the tool process had, declared ones first in
      declaration order, then any other; inh: the C30_* variables of the RUNNER's own environment (run_in_subprocess
      starts the tool's shell with os.environ | location.environment, so they are inherited unless redeclared) *)
   (* ok: StreamFlow completed, so obs_out/obs_err are meaningful *)
| CStreams (stdout stderr : option string) (obs_out obs_err : option string).
   (* declared stdout/stderr of the tool; the files fd 1 / fd 2 of the process were on under StreamFlow *)

Definition agrees (model : option (list string)) (obs : option (list string)) : bool :=
  match model, obs with
  | Some m, Some o => list_eqb String.eqb m o
  | _, _ => true
  end.

Definition check_case (c : ccase) : bool :=
  match c with
  | CTool t j cmd sfa refa so se ok oo oe envd inh envo =>
      (* StreamFlow: the command list, then the argv whenever the fragment can read the line *)
      agrees (Some (sf_cmd t j)) cmd
      && agrees (sf_argv t j) sfa
      (* cwltool: execve of the pieces, or /bin/sh -c of the line *)
      && agrees (if t_shell t then sh_words (spec_line t j) else Some (spec_argv t j)) refa
      (* execute()'s redirections decide where fd 1/2 are only if the command text itself has none: a raw > asked for
         with shellQuote: false redirects too; [sf_argv] = Some means the line is one simple command without operators *)
      && (negb ok || match sf_argv t j with None => true | Some _ =>
                       opt_eqb String.eqb (sf_stdout_target so se) oo && opt_eqb String.eqb (sf_stderr_target so se) oe end)
      && (negb ok || list_eqb (pair_eqb String.eqb String.eqb) (app (sf_env envd j)
              (filter (fun kv => negb (existsb (fun d => String.eqb (fst d) (fst kv)) envd)) inh)) envo)
  | CStreams so se oo oe =>
      opt_eqb String.eqb (sf_stdout_target so se) oo && opt_eqb String.eqb (sf_stderr_target so se) oe
  end.
