(* Props/C33.v — Tag ordering and tag selection follow numeric component order.
   Only statements here; every proof is [exact <lemma of Tags/Proofs.v>]. *)
From Coq Require Import List NArith ZArith.
From SF Require Import Base.Str Base.Dec Tags.Model Tags.Proofs.
Import ListNotations.
Local Open Scope string_scope. Local Open Scope list_scope.

(* compare_tags is a total order: reflexive, zero only on equal tags, exactly sign-antisymmetric,
   transitive (with strictness propagating). Totality is Z's trichotomy on the result. *)
Theorem C33_order_refl : forall a, compare_tags a a = 0%Z.
Proof. exact compare_refl. Qed.
Theorem C33_order_zero_iff_equal : forall a b, compare_tags a b = 0%Z -> a = b.
Proof. exact compare_eq. Qed.
Theorem C33_order_antisym : forall a b, compare_tags b a = (- compare_tags a b)%Z.
Proof. exact compare_antisym. Qed.
Theorem C33_order_trans : forall a b c,
  (compare_tags a b <= 0)%Z -> (compare_tags b c <= 0)%Z ->
  (compare_tags a c <= 0)%Z /\
  ((compare_tags a b < 0)%Z \/ (compare_tags b c < 0)%Z -> (compare_tags a c < 0)%Z).
Proof. exact compare_trans. Qed.

(* depth first, then components numerically (lexicographic on numbers, not on digit strings) *)
Theorem C33_depth_first : forall a b, length a < length b -> (compare_tags a b < 0)%Z.
Proof. exact compare_depth_first. Qed.
Theorem C33_numeric_lex : forall a b,
  length a = length b -> ((compare_tags a b < 0)%Z <-> lex_lt a b).
Proof. exact compare_same_depth. Qed.

(* the Python function, which works on dotted strings, computes exactly that on rendered tags *)
Theorem C33_string_level : forall a b,
  a <> [] -> b <> [] -> compare_tags_s (render a) (render b) = Some (compare_tags a b).
Proof. exact compare_tags_s_render. Qed.

(* get_tag picks the deepest tag of a prefix chain rooted at "0", wherever it sits in the list *)
Theorem C33_get_tag : forall (d : tag) (ts : list tag),
  is_prefix [0%N] d -> In d ts ->
  (forall t, In t ts -> t <> [] /\ is_prefix t d) ->
  get_tag_s (map render ts) = render d.
Proof. exact get_tag_chain. Qed.

(* a job name splits back into its step name and tag, for every normalised absolute step path *)
Theorem C33_job_name : forall comps t,
  (forall c, In c comps -> good_comp c) -> good_comp t ->
  job_step_name (posix_join (abs_path comps) t) = abs_path comps /\
  job_tag (posix_join (abs_path comps) t) = t.
Proof. exact job_name_split. Qed.
Theorem C33_tag_is_good_component : forall t : tag, t <> [] -> good_comp (render t).
Proof. exact render_good. Qed.

(* non-vacuity / the headline instance *)
Example C33_ten_after_nine : compare_tags_s "0.10" "0.9" = Some 1%Z /\ render [0;10]%N = "0.10".
Proof. vm_compute. split; reflexivity. Qed.
Example C33_get_tag_example :
  get_tag_s (map render [[0];[0;3;11];[0;3]]%N) = "0.3.11" /\ is_prefix [0%N] [0;3;11]%N.
Proof. split; [vm_compute; reflexivity|exists [3;11]%N; reflexivity]. Qed.
Example C33_job_name_example :
  job_step_name (posix_join "/wf/step-1" "0.10") = "/wf/step-1" /\
  job_tag (posix_join "/wf/step-1" "0.10") = "0.10" /\ abs_path ["wf";"step-1"] = "/wf/step-1".
Proof. vm_compute. repeat split; reflexivity. Qed.

Print Assumptions C33_order_refl.
Print Assumptions C33_order_zero_iff_equal.
Print Assumptions C33_order_antisym.
Print Assumptions C33_order_trans.
Print Assumptions C33_depth_first.
Print Assumptions C33_numeric_lex.
Print Assumptions C33_string_level.
Print Assumptions C33_get_tag.
Print Assumptions C33_job_name.
Print Assumptions C33_tag_is_good_component.
