(* Props/C31.v — Expression dependency analysis covers every input an expression reads.
   Only statements here; every proof is [exact <lemma of JsDeps/Proofs.v>].

   Property text: for any CWL parameter reference or JavaScript expression, every field of inputs that the
   expression reads when evaluated is included in the statically computed dependency set, and the analysis never
   fails on an expression that evaluates successfully.

   The faithful model (JsDeps/Model.v: the listener event by event + an instrumented ES5-fragment evaluator) does
   NOT satisfy the text: the _refuted theorems below are kernel-computed counterexamples, each replayed on the real
   resolve_dependencies and on node by corpus/C31/known_findings.json. *)
(* READING THE POSITIVE THEOREMS.  Their hypothesis [run inp n lib body = Ok c s] (resp. run_ref, run_parts) speaks of the
   MODEL evaluator of JsDeps/Model.v.  That evaluator answers [Unsup] on operations outside its semantics (numeric +
   involving booleans/undefined, a character of a string, properties of closures, ...), [NoFuel] when the bound is
   exhausted and [Throw] on a JavaScript exception; on those programs the theorems say nothing (the analysis still does
   not fail: the C31_total_* theorems have no evaluation hypothesis).  "Every program of the fragment" therefore means
   "every program of the fragment on which the model evaluator terminates normally".  Membership in a fragment does not
   imply evaluator support; the check reports how often that happens (evidence sample model_evaluator_support) and
   compares the evaluator with node whenever it does answer.  Whole-object uses of inputs that JavaScript accepts
   (inputs + "s") are supported: objects stringify without reading a field. *)
From Coq Require Import List NArith.
From SF Require Import Base.Str JsDeps.Model JsDeps.Proofs JsDeps.Sound JsDeps.Funs JsDeps.Combined.
Import ListNotations.
Local Open Scope string_scope. Local Open Scope list_scope.

(* computed / non-string-literal index on inputs: AttributeError in enterMemberIndexExpression *)
Theorem C31_computed_refuted :
  fails_on SSkip p_computed_var AttributeError /\ fails_on SSkip p_computed_concat AttributeError /\
  fails_on SSkip p_computed_num AttributeError.
Proof. exact (conj computed_var_fails (conj computed_concat_fails computed_num_fails)). Qed.

(* assignment to an outer alias inside a function declaration: KeyError in NamesStack.delete_name *)
Theorem C31_nested_delete_refuted : fails_on SSkip p_nested_delete KeyError.
Proof. exact nested_delete_fails. Qed.

(* aliasing that the listener does not follow: var initialiser, chained assignment, parenthesised / ternary base *)
Theorem C31_alias_refuted :
  misses SSkip p_var_init /\ misses SSkip p_chain /\ misses SSkip p_paren /\ misses SSkip p_ternary.
Proof. exact (conj var_init_misses (conj chain_assign_misses (conj paren_misses ternary_misses))). Qed.

(* aliasing through function parameters (also of an expressionLib function), return values, closures, inner scopes *)
Theorem C31_function_alias_refuted :
  misses SSkip p_fn_param /\ misses f_param (SRet (EParen (ECall (EId "g") (ECons I ENil)))) /\
  misses SSkip p_fn_return /\ misses SSkip p_closure_late /\ misses SSkip p_inner_scope.
Proof. exact (conj fn_param_misses (conj fn_param_lib_misses (conj fn_return_misses
             (conj closure_late_misses inner_scope_misses)))). Qed.

(* the alias is forgotten on an assignment inside a branch that is not taken *)
Theorem C31_branch_delete_refuted : misses SSkip p_branch_delete.
Proof. exact branch_delete_misses. Qed.

(* key text: reserved word after the dot; quote characters stripped from a string-literal index *)
Theorem C31_key_text_refuted : misses SSkip p_reserved /\ misses SSkip p_strip.
Proof. exact (conj reserved_misses strip_misses). Qed.

(* parameter reference with an index as first segment: evaluated by JavaScript after regex_eval gives up *)
Theorem C31_ref_index_refuted :
  exists inp n c s, run_ref inp n "inputs" [SgIdx 1] = Ok c s /\ In "1" (snd s) /\
                    deps_ref "inputs" "inputs" [SgIdx 1] = [].
Proof. exact ref_index_misses. Qed.

(* headline positive instance: an alias introduced by a plain assignment is followed *)
Example C31_alias_tracked : exists w c s, deps_js SSkip p_alias_ok = WOk w /\ run inp0 60 SSkip p_alias_ok = Ok c s /\
                                          snd s = ["k"] /\ dp w = ["k"].
Proof. exact alias_ok. Qed.

(* Parameter references (the regex path): for EVERY reference rooted at inputs whose first segment is a
   .symbol / ['..'] / [".."] segment with a non-empty key (the only ones param_re of cwl_utils lets through besides an
   index), on EVERY inputs object, every terminating evaluation reads only fields that are in the dependency set.
   (deps_ref is a total function: the analysis of a reference cannot fail.) *)
Theorem C31_paramref_sound : forall inp n segs c s,
  match segs with SgIdx _ :: _ => False | g :: _ => seg_key g <> "" | [] => True end ->
  run_ref inp n "inputs" segs = Ok c s ->
  incl (snd s) (deps_ref "inputs" "inputs" segs).
Proof. exact paramref_sound. Qed.
Example C31_paramref_example :
  exists c s, run_ref inp0 60 "inputs" [SgSingle "a"; SgDot "length"] = Ok c s /\ snd s = ["a"] /\
              deps_ref "inputs" "inputs" [SgSingle "a"; SgDot "length"] = ["a"].
Proof. eexists. eexists. repeat split; vm_compute; reflexivity. Qed.

(* The positive JavaScript half, on the syntactic fragment [in_fragment] (Model.v, section 4): function-free bodies
   (any nesting of literals, identifiers, x.f with a non-reserved f, x["k"]/x['k'] with a key that strip leaves
   unchanged, member chains on non-identifier bases that cannot be the inputs object, +, ?:, parentheses, x = e,
   var, if/else, return) in which the inputs object travels only through identifier-to-identifier assignments,
   [inputs] is never assigned, and inside a branch an identifier is only (re)bound to [inputs] itself.
   For EVERY such body, EVERY inputs object and EVERY fuel: the analysis does not fail and a terminating evaluation
   reads only fields of the dependency set.  Missing w.r.t. the property text (hence _partial): function
   declarations / expressions / calls, and every construct of the _refuted theorems above. *)
Theorem C31_sound_partial : forall inp n body c s,
  in_fragment body = true ->
  run inp n SSkip body = Ok c s ->
  exists w, deps_js SSkip body = WOk w /\ incl (snd s) (dp w).
Proof. exact sound_partial. Qed.
Theorem C31_total_partial : forall body, in_fragment body = true -> exists w, deps_js SSkip body = WOk w.
Proof. exact total_partial. Qed.

(* a generated [safe] program of the fragment (aliases, re-binding to a string = deletion, if/else with re-binding
   to inputs, ternary, quoted keys, a string mentioning inputs): the hypotheses are satisfiable, evaluation terminates *)
Definition ex_frag : stmt :=
  SSeq (SVar "x1") (SSeq (SExpr (EAssign "x1" I)) (SSeq (SVar "x2") (SSeq (SExpr (EAssign "x2" (EId "x1")))
  (SSeq (SVarI "s3" (EAdd (EIdx (EId "x2") (EStr false "ab")) (EStr true "inputs.a")))
  (SSeq (SIf (EDot (EId "x1") "z") (SExpr (EAssign "x2" I)) (SExpr (EAssign "s3" (EDot I "h"))))
  (SSeq (SExpr (EAssign "x1" (EId "s3")))
  (SRet (ECond (EDot I "b") (EIdx (EId "x2") (EStr true "k")) (EDot (EId "s3") "length"))))))))).
Example C31_fragment_example :
  in_fragment ex_frag = true /\
  exists w c s, deps_js SSkip ex_frag = WOk w /\ run inp0 60 SSkip ex_frag = Ok c s /\
                snd s = ["k"; "b"; "h"; "z"; "ab"] /\ dp w = ["k"; "b"; "h"; "z"; "ab"].
Proof. split; [vm_compute; reflexivity|]. eexists. eexists. eexists. repeat split; vm_compute; reflexivity. Qed.

(* Function declarations and expressionLib (Model.v, section 5: in_fragmentF).  The library declarations are prepended to
   the body exactly as DependencyResolver.eval does.  Fragment: function declarations at the top level of the library
   and of the body (not nested, no function expressions), called through an identifier, any number of calls, recursion
   allowed; no variable ever holds the inputs object itself: the object is used only as the base of inputs.f /
   inputs["f"] (in the body and inside the functions), so parameters are never bound to it and functions never return
   it; names declared in a function (parameters, vars) and top-level vars are not called inputs (no shadowing of
   inputs); functions touch only their own parameters and vars.  For EVERY such library+body, EVERY inputs object and
   EVERY fuel: the analysis does not fail and a terminating evaluation reads only fields of the dependency set.
   Not a superset of C31_sound_partial: that one tracks aliases of inputs but has no functions; this one has functions
   but no aliases.  Nested / shadowing functions, function expressions, aliasing combined with functions: exercised only. *)
Theorem C31_sound_functions_partial : forall inp n lib body c s,
  in_fragmentF lib body = true ->
  run inp n lib body = Ok c s ->
  exists w, deps_js lib body = WOk w /\ incl (snd s) (dp w).
Proof. exact sound_functions. Qed.
Theorem C31_total_functions_partial : forall lib body,
  in_fragmentF lib body = true -> exists w, deps_js lib body = WOk w.
Proof. exact total_functions. Qed.

Definition ex_lib : stmt := SFun "g" ["p"] (SSeq (SVarI "t" (EAdd (EDot I "b") (EId "p"))) (SRet (EId "t"))).
Definition ex_fbody : stmt :=
  SSeq (SVarI "s" (ECall (EId "g") (ECons (EDot I "a") ENil)))
       (SRet (EAdd (EId "s") (ECall (EId "g") (ECons (EIdx I (EStr true "k")) ENil)))).
Example C31_functions_example :
  in_fragmentF ex_lib ex_fbody = true /\
  exists w c s, deps_js ex_lib ex_fbody = WOk w /\ run inp0 60 ex_lib ex_fbody = Ok c s /\
                snd s = ["b"; "k"; "b"; "a"] /\ dp w = ["k"; "a"; "b"].
Proof. split; [vm_compute; reflexivity|]. eexists. eexists. eexists. repeat split; vm_compute; reflexivity. Qed.

(* The combined fragment (Model.v, section 7: in_fragmentC; by construction a superset of in_fragment and in_fragmentF,
   C31_combined_subsumes).  New part okT A: aliases of inputs in the outermost frame (library + body top level), tracked
   through identifier-to-identifier assignment as in C31_sound_partial, TOGETHER WITH the alias-free function
   declarations of C31_sound_functions_partial, provided no alias crosses a function boundary: arguments, initialisers
   and non-identifier right-hand sides are syntactically not an alias-capable name; function bodies mention only their
   own names and inputs; names of functions' parameters/vars are not alias-capable.  A = the alias-capable names;
   every other name (plain variables, self, runtime, function names) never holds the inputs object, so x[i], x.class,
   if (c) { s = t } ... are unrestricted on them.  C31_sound_alias_set holds for EVERY A that passes the check;
   in_fragmentT instantiates A with the computed alias_set.
   Aliasing INSIDE a function declaration is not in any fragment: it is refuted (C31_function_alias_refuted,
   p_inner_scope) -- the listener puts such an alias into the inner scope, which global_names() subtracts. *)
Theorem C31_sound_alias_set : forall A inp n lib body c s,
  okT A lib body = true ->
  run inp n lib body = Ok c s ->
  exists w, deps_js lib body = WOk w /\ incl (snd s) (dp w).
Proof. exact sound_T. Qed.
Theorem C31_sound_combined_partial : forall inp n lib body c s,
  in_fragmentC lib body = true ->
  run inp n lib body = Ok c s ->
  exists w, deps_js lib body = WOk w /\ incl (snd s) (dp w).
Proof. exact sound_combined. Qed.
Theorem C31_total_combined_partial : forall lib body,
  in_fragmentC lib body = true -> exists w, deps_js lib body = WOk w.
Proof. exact total_combined. Qed.
Theorem C31_combined_subsumes : forall lib body,
  (in_fragmentF lib body = true -> in_fragmentC lib body = true) /\
  (in_fragment body = true -> in_fragmentC SSkip body = true) /\
  (in_fragmentT lib body = true -> in_fragmentC lib body = true).
Proof. exact combined_subsumes. Qed.

(* an alias in the body, a library function called with a field read through the alias, runtime, an index on a plain
   variable: in the new part of the fragment (and in neither of the two old ones) *)
Definition ex_cbody : stmt :=
  SSeq (SVar "x") (SSeq (SExpr (EAssign "x" I))
  (SSeq (SVarI "s" (ECall (EId "g") (ECons (EDot (EId "x") "a") ENil)))
  (SSeq (SVarI "t" (EDot (EId "runtime") "outdir"))
  (SRet (EAdd (EAdd (EId "s") (EIdx (EId "x") (EStr true "k"))) (EDot (EId "t") "length")))))).
Example C31_combined_example :
  in_fragmentT ex_lib ex_cbody = true /\ in_fragmentF ex_lib ex_cbody = false /\
  exists w c s, deps_js ex_lib ex_cbody = WOk w /\ run inp0 60 ex_lib ex_cbody = Ok c s /\
                incl_b (snd s) (dp w) = true /\ List.length (snd s) = 3.
Proof. split; [vm_compute; reflexivity|]. split; [vm_compute; reflexivity|].
  eexists. eexists. eexists. repeat split; vm_compute; reflexivity. Qed.

(* The widened syntax (last round): comparison / arithmetic / logical operators, null, array and object literals, regular-
   expression literals, method calls on receivers that are not the inputs object (a method call on a value read from
   inputs.x reads exactly x), for / while loops, var f = function(..){..} at the top level.  Operators, literals, method
   calls and && || are in BOTH parts of the combined fragment (operands / elements / receivers / arguments must
   syntactically not be the inputs object or an alias: the whole-object uses stay the refuted/known class); loops and
   function-valued variables are in the alias-free part (in_fragmentF) only.  The theorems above are stated over this
   widened syntax. *)
Definition ex_wlib : stmt :=
  SFunE "up" ["s"]
    (SSeq (SVarI "t" (EStr true ""))
    (SSeq (SFor (SVarI "i" (ENum 0)) (EOp "<" [] (ECons (EId "i") (ECons (ENum 2) ENil)))
                (EAssign "i" (EAdd (EId "i") (ENum 1)))
                (SExpr (EAssign "t" (ECall (EDot (EId "t") "concat") (ECons (EId "s") ENil)))))
          (SRet (EId "t")))).
Definition ex_wbody : stmt :=
  SRet (EOp "obj" ["r"; "n"]
         (ECons (ECall (EId "up") (ECons (EDot I "a") ENil))
         (ECons (ELogic false (EOp "===" [] (ECons (EDot I "b") (ECons (EOp "null" [] ENil) ENil)))
                              (EOp "!" [] (ECons (EDot I "k") ENil))) ENil))).
Example C31_widened_example :
  in_fragmentC ex_wlib ex_wbody = true /\
  exists w c s, deps_js ex_wlib ex_wbody = WOk w /\ run inp0 60 ex_wlib ex_wbody = Ok c s /\
                incl_b (snd s) (dp w) = true /\ List.length (snd s) = 3.
Proof. split; [vm_compute; reflexivity|]. eexists. eexists. eexists. repeat split; vm_compute; reflexivity. Qed.

(* Whole interpolated strings (Model.v, section 6): text, $(parameter reference) and ${body} / $(expr) parts mixed in one
   string, with a common expressionLib.  If every part is in a proved fragment (parts_in_fragment: references as in
   C31_paramref_sound or rooted at self/runtime; JS parts in in_fragmentF with the library, or in in_fragment when there
   is no library), then for EVERY inputs object and fuel, a completely successful evaluation of the string reads only
   fields of the dependency set of the whole string, and resolve_dependencies' model does not fail. *)
Theorem C31_sound_interpolation_partial : forall inp n lib ps R,
  parts_in_fragment lib ps = true ->
  run_parts inp n lib ps [] = Some R ->
  exists D, deps_parts lib ps = inr D /\ incl R D.
Proof. exact parts_sound. Qed.
Example C31_interpolation_example :
  let ps := [PText "pre "; PRef "inputs" [SgSingle "h"; SgDot "length"]; PText "-"; PJs ex_fbody; PRef "runtime" [SgDot "cores"]] in
  parts_in_fragment ex_lib ps = true /\
  exists R D, run_parts inp0 60 ex_lib ps [] = Some R /\ deps_parts ex_lib ps = inr D /\ incl_b R D = true /\ R <> [].
Proof. split; [vm_compute; reflexivity|]. eexists. eexists. split; [vm_compute; reflexivity|]. split; [vm_compute; reflexivity|].
  split; [vm_compute; reflexivity|discriminate]. Qed.

Print Assumptions C31_computed_refuted.
Print Assumptions C31_nested_delete_refuted.
Print Assumptions C31_alias_refuted.
Print Assumptions C31_function_alias_refuted.
Print Assumptions C31_branch_delete_refuted.
Print Assumptions C31_key_text_refuted.
Print Assumptions C31_ref_index_refuted.
Print Assumptions C31_paramref_sound.
Print Assumptions C31_sound_partial.
Print Assumptions C31_total_partial.
Print Assumptions C31_sound_functions_partial.
Print Assumptions C31_total_functions_partial.
Print Assumptions C31_sound_interpolation_partial.
Print Assumptions C31_sound_alias_set.
Print Assumptions C31_sound_combined_partial.
Print Assumptions C31_total_combined_partial.
Print Assumptions C31_combined_subsumes.
