(* Props/C17.v — Retries are bounded and exhausted retries fail the workflow.
   Only statements here; every proof is [exact <lemma of Retry/Proofs.v>]. *)
From Coq Require Import List NArith Lia.
From SF Require Import Base.Str Retry.Model Retry.Proofs.
Import ListNotations.
Local Open Scope string_scope. Local Open Scope list_scope. Local Open Scope N_scope.

(* The retry counter never exceeds the configured limit: for EVERY history of rollbacks -- any number of
   failures of any jobs, in any interleaving, each rollback covering any set of jobs in any loop order,
   with any answers of is_recovering -- starting from no requests at all. *)
Theorem C17_versions_bounded : forall m (h : list rollback) j,
  1 <= m -> version_of (run_history (Some m) [] h) j <= m.
Proof. exact history_versions_le_limit. Qed.

(* ... and it is an invariant from any state that satisfies it (versions in [1, max(1,limit)];
   with max_retries = 0 the only reachable version is 1: a job runs once and its first failure is final) *)
Theorem C17_bounded_invariant : forall m h vs,
  bounded (N.max 1 m) vs -> bounded (N.max 1 m) (run_history (Some m) vs h).
Proof. exact run_history_bounded. Qed.

(* _synchronize_workflows raises exactly when some _update_request found its job at the limit *)
Theorem C17_raise_iff_exhausted : forall lim reqs vs,
  snd (synchronize lim vs reqs) = true <-> exists j v, In (j, v, None) (sync_log lim vs reqs).
Proof. exact sync_log_raise_iff. Qed.
Theorem C17_raise_only_at_limit : forall m vs reqs j v,
  In (j, v, None) (sync_log (Some m) vs reqs) -> m <= v.
Proof. exact sync_log_raise_at_limit. Qed.

(* One ISOLATED job (every rollback set is just the failing job), any pattern of failing attempts: the number of
   executions never exceeds the limit, and the version counts the executions.  (Termination of run_job is by structural
   recursion on the list of failing attempts: a property of the model, exercised -- not proved -- on the engine.) *)
Theorem C17_bound : forall m faults,
  1 <= m ->
  let '(o, v', n) := run_job (Some m) 1 faults in N.of_nat n <= m /\ v' = N.of_nat n /\ v' <= m.
Proof. exact run_job_attempts_le_limit. Qed.

(* A job that keeps failing (its first k >= limit attempts fail, whatever comes after) makes the run
   fail after exactly `limit` executions: no loop, no hang. *)
Theorem C17_exhaust : forall m k v rest,
  1 <= v <= m -> m + 1 <= v + N.of_nat k ->
  run_job (Some m) v (failing k ++ rest) = (Failed, m, N.to_nat (m - v + 1)).
Proof. exact run_job_exhaust. Qed.

(* ... and NOT only for an isolated job: in ANY history of rollbacks -- other jobs, larger rollback sets (the job rolled back
   as a producer of someone else's failure counts too), any recovering flags of the other requests, any interleaving -- a job
   that is asked to roll back `limit` times (as a request that is not recovering) makes one of the calls raise: the
   workflow fails within the bound. *)
Theorem C17_exhaust_any_rollback_sets : forall m (h : list rollback) j,
  1 <= m -> m <= N.of_nat (asked_in j h) -> raised_in (Some m) [] h = true.
Proof. exact keeps_failing_raises. Qed.

(* For an isolated job: fewer failures than the limit allows => it completes after k+1 executions (with or without a limit) *)
Theorem C17_completes_below_limit : forall lim k v rest,
  (match lim with Some m => v + N.of_nat k <= m | None => True end) ->
  run_job lim v (failing k ++ false :: rest) = (Completed, v + N.of_nat k, S k) /\
  run_job lim v (failing k) = (Completed, v + N.of_nat k, S k).
Proof. exact run_job_completes. Qed.

(* Without a rollback failure manager the first failure fails the run, and nothing runs twice.  (These two are computations
   of the definition run_job_dummy; what ties them to DummyFailureManager is the CDummy correspondence and the oracle.) *)
Theorem C17_dummy : forall rest, run_job_dummy (true :: rest) = (Failed, 1%nat).
Proof. exact run_job_dummy_first_failure. Qed.
Theorem C17_dummy_single_execution : forall faults, snd (run_job_dummy faults) = 1%nat.
Proof. exact run_job_dummy_attempts. Qed.

(* A chain of isolated jobs (pipeline with soft failures: each rollback set is the failing job alone): fails iff some job has at least `limit` failing attempts; every started
   job ran at most `limit` times and its version equals its number of executions. *)
Theorem C17_chain : forall m ks,
  1 <= m ->
  (fst (run_chain (Some m) ks) = Failed <-> exists k, In k ks /\ m <= N.of_nat k) /\
  Forall (fun vn => N.of_nat (snd vn) <= m /\ fst vn = N.of_nat (snd vn)) (snd (run_chain (Some m) ks)).
Proof. exact run_chain_outcome. Qed.

(* non-vacuity and headline instances *)
Example C17_exhaust_example :
  run_job (Some 3) 1 (failing 5) = (Failed, 3, 3%nat) /\ run_job (Some 3) 1 (failing 2) = (Completed, 3, 3%nat).
Proof. vm_compute. split; reflexivity. Qed.
Example C17_no_limit_never_fails : run_job None 1 (failing 40) = (Completed, 41, 41%nat).
Proof. vm_compute. reflexivity. Qed.
Example C17_history_example :
  let h := [[("/a/0", false); ("/b/0", false)]; [("/a/0", true); ("/b/0", false)]; [("/b/0", false); ("/a/0", false)]] in
  run_history (Some 3) [] h = [("/a/0", 2); ("/b/0", 3)] /\
  history_log (Some 3) [] h =
    [[("/a/0", 1, Some 2); ("/b/0", 1, Some 2)]; [("/b/0", 2, Some 3)]; [("/b/0", 3, None)]] /\
  bounded (N.max 1 3) [("/a/0", 2); ("/b/0", 3)].
Proof.
  split; [vm_compute; reflexivity|split; [vm_compute; reflexivity|]].
  intros j v H. cbn [lookup] in H.
  destruct (String.eqb "/a/0" j).
  { injection H as <-. split; [discriminate|discriminate]. }
  destruct (String.eqb "/b/0" j); [|discriminate].
  injection H as <-. split; discriminate.
Qed.
Example C17_exhaust_any_example :
  let h := [[("/a/0", false); ("/b/0", false)]; [("/c/0", false); ("/a/0", false)]; [("/a/0", true)]; [("/d/0", false); ("/a/0", false)]] in
  asked_in "/a/0" h = 3%nat /\ raised_in (Some 3) [] h = true /\ raised_in (Some 4) [] h = false.
Proof. vm_compute. repeat split; reflexivity. Qed.
Example C17_chain_example :
  run_chain (Some 2) [1%nat; 0%nat; 2%nat; 0%nat] = (Failed, [(2, 2%nat); (1, 1%nat); (2, 2%nat)]).
Proof. vm_compute. reflexivity. Qed.

Print Assumptions C17_versions_bounded.
Print Assumptions C17_bounded_invariant.
Print Assumptions C17_raise_iff_exhausted.
Print Assumptions C17_raise_only_at_limit.
Print Assumptions C17_bound.
Print Assumptions C17_exhaust.
Print Assumptions C17_exhaust_any_rollback_sets.
Print Assumptions C17_completes_below_limit.
Print Assumptions C17_dummy.
Print Assumptions C17_dummy_single_execution.
Print Assumptions C17_chain.
