(* Props/C14.v — Hardware arithmetic is consistent.
   Only statements here; every proof is [exact <lemma of Hardware/Proofs.v>].

   [wf h] is what every Python [Hardware] object satisfies by construction: a non-empty storage map
   (the constructor substitutes {"/": Storage("/", 0)} for an empty one) whose [Storage] sizes are >= 0
   (Storage.__init__ raises otherwise).  Storage keys are arbitrary (aliasing keys, several storages on
   one mount point): nothing is assumed about them.  [size_at h m] is the total size of the storages of
   [h] whose mount point is [m] (0 when there is none); amounts are exact (Z, see Hardware/Model.v). *)
From Coq Require Import List Bool ZArith.
From SF Require Import Base.Str Hardware.Model Hardware.Proofs.
Import ListNotations.
Local Open Scope string_scope. Local Open Scope list_scope. Local Open Scope Z_scope.

(* adding then subtracting the same requirement restores cores, memory and every per-mount amount;
   neither operation raises *)
Theorem C14_add_sub : forall a b, wf a -> wf b ->
  exists s r, hw_add a b = Ok s /\ hw_sub s b = Ok r /\
    cores r = cores a /\ mem r = mem a /\ forall m, size_at r m = size_at a m.
Proof. exact add_sub. Qed.

(* a + b is defined, normalised, and adds per mount point over the union of the mount points *)
Theorem C14_add_totals : forall a b, wf a -> wf b ->
  exists r, hw_add a b = Ok r /\ wf r /\ is_normalized r = true /\ NoDup (mounts r) /\
    cores r = cores a + cores b /\ mem r = mem a + mem b /\
    (forall m, size_at r m = size_at a m + size_at b m) /\
    (forall m, In m (mounts r) <-> In m (mounts a) \/ In m (mounts b)).
Proof. exact hw_add_spec. Qed.

(* x - b, when b's mount points are among x's and b fits per mount point: defined and exact *)
Theorem C14_sub_totals : forall x b, wf x -> wf b ->
  (forall m, In m (mounts b) -> In m (mounts x)) ->
  (forall m, size_at b m <= size_at x m) ->
  exists r, hw_sub x b = Ok r /\ wf r /\ is_normalized r = true /\ NoDup (mounts r) /\
    cores r = cores x - cores b /\ mem r = mem x - mem b /\
    (forall m, size_at r m = size_at x m - size_at b m) /\
    (forall m, In m (mounts r) <-> In m (mounts x)).
Proof. exact hw_sub_spec. Qed.

(* normalisation never raises, yields one storage per mount point keyed by it, is idempotent
   (C14_norm_idem: the 5th conjunct, an equality of whole values) and preserves cores, memory,
   the set of mount points and every per-mount total (C14_norm_totals) *)
Theorem C14_norm_idem : forall a, wf a ->
  exists n, normalized a = Ok n /\ normalized n = Ok n /\ is_normalized n = true.
Proof. exact norm_idem. Qed.
Theorem C14_norm_totals : forall a, wf a ->
  exists n, normalized a = Ok n /\ wf n /\ is_normalized n = true /\ NoDup (mounts n) /\
    normalized n = Ok n /\ cores n = cores a /\ mem n = mem a /\
    (forall m, size_at n m = size_at a m) /\ (forall m, In m (mounts n) <-> In m (mounts a)).
Proof. exact norm_spec. Qed.

(* capacity c satisfies requirement r exactly when it is at least as large in cores, memory and the
   total of every mount point of r — provided c knows every mount point of r; otherwise the code raises
   (MissingMount) precisely when cores and memory suffice and answers False when they do not *)
Theorem C14_satisfies : forall c r, wf c -> wf r ->
  ((forall m, In m (mounts r) -> In m (mounts c)) ->
     exists b, satisfies c r = Ok b /\
       (b = true <-> cores r <= cores c /\ mem r <= mem c /\
                     forall m, In m (mounts r) -> size_at r m <= size_at c m))
  /\
  ((exists m, In m (mounts r) /\ ~ In m (mounts c)) ->
     satisfies c r = if (cores r <=? cores c) && (mem r <=? mem c) then Err MissingMount else Ok false).
Proof. exact satisfies_spec. Qed.

(* ---- hypotheses are satisfiable / headline instances ---- *)
Definition ex_a : hw := mkhw 4 8 [("k1", mkst "/" 10 ["/a"] None); ("k2", mkst "/data" 5 [] (Some "/mnt"));
                                  ("k3", mkst "/" 7 ["/b"] None)].
Definition ex_b : hw := mkhw 1 2 [("x", mkst "/data" 3 [] None); ("y", mkst "/tmp" 2 [] None)].
Example C14_wf_examples : wfb ex_a = true /\ wfb ex_b = true /\ wfb default_hw = true.
Proof. vm_compute. auto. Qed.
Example C14_add_sub_example :
  (s <- hw_add ex_a ex_b ;; hw_sub s ex_b) =
  Ok (mkhw 4 8 [("/", mkst "/" 17 ["/a"; "/b"] None); ("/data", mkst "/data" 5 [] (Some "/mnt"));
                ("/tmp", mkst "/tmp" 0 [] None)]).
Proof. vm_compute. reflexivity. Qed.
Example C14_satisfies_example :
  satisfies ex_a (mkhw 4 8 [("q", mkst "/" 17 [] None)]) = Ok true /\
  satisfies ex_a (mkhw 4 8 [("q", mkst "/" 18 [] None)]) = Ok false /\
  satisfies ex_a ex_b = Err MissingMount /\ satisfies ex_a (mkhw 5 0 (stor ex_b)) = Ok false.
Proof. vm_compute. auto. Qed.
(* the code's quirk that the scheduler must avoid: a mount point only in the subtrahend is inserted
   with its positive size instead of failing or going negative *)
Example C14_sub_foreign_mount :
  hw_sub (mkhw 1 1 [("/", mkst "/" 5 [] None)]) (mkhw 0 0 [("/x", mkst "/x" 3 [] None)]) =
  Ok (mkhw 1 1 [("/", mkst "/" 5 [] None); ("/x", mkst "/x" 3 [] None)]).
Proof. vm_compute. reflexivity. Qed.

Print Assumptions C14_add_sub.
Print Assumptions C14_add_totals.
Print Assumptions C14_sub_totals.
Print Assumptions C14_norm_idem.
Print Assumptions C14_norm_totals.
Print Assumptions C14_satisfies.
